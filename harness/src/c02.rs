//! C02 — disequality constraints are sound, complete and order-free.
use crate::out::Out;
use crate::prog::*;
use crate::rng::Rng;
use crate::term::*;
use crate::tree::*;

/// returns (impl line, oracle failure, nontrivial)
pub fn eval(p: &Prog, sols: Option<&Vec<Vec<T>>>) -> (String, Option<String>, bool, u64) {
    // terminating programs: a generous budget, so that only genuine divergence is cut short
    let out = run_prog_b(p, 3_000_000);
    let fuel = model_fuel(&out);
    let line = show_run(&out, false);
    let answers = match &out {
        RunOut::Answers(a, _) => a,
        RunOut::Budget(_) => return (line, Some("pure tree program exhausted the step budget".into()), true, fuel),
        RunOut::Panic(s) => return (line, Some(format!("panic at {}", s)), true, fuel),
    };
    let own;
    let sols = match sols {
        Some(s) => s,
        None => {
            own = solutions(p);
            &own
        }
    };
    let fail = check_answers(p.nq, answers, sols);
    let nt = answers.iter().any(|a| !a.constraints.is_empty()) || answers.len() > 1;
    (line, fail, nt, fuel)
}

/// the two inclusions between the ground instances of the answers and the brute-force ground solutions
pub fn check_answers(nq: usize, answers: &[Ans], sols: &[Vec<T>]) -> Option<String> {
    // completeness: every ground solution over the universe is an instance of some answer
    for s in sols {
        if !answers.iter().any(|a| instance_of(a, s)) {
            return Some(format!("ground solution {} is not an instance of any answer", show_tuple(s)));
        }
    }
    // soundness: every universe tuple that is an instance of an answer is a ground solution
    // (the universe `solutions` enumerated for this program: the fixed eight values plus ground instances of the
    // program's own terms)
    let u = universe_cur();
    let total = u.len().pow(nq as u32);
    for code in 0..total {
        let mut k = code;
        let tuple: Vec<T> = (0..nq)
            .map(|_| {
                let t = u[k % u.len()].clone();
                k /= u.len();
                t
            })
            .collect();
        if answers.iter().any(|a| instance_of(a, &tuple)) && !sols.contains(&tuple) {
            return Some(format!("answer instance {} is not a solution of the program", show_tuple(&tuple)));
        }
    }
    None
}

/// is the program built from ==, !=, conjunction, conde/disj and fresh only (the fragment `tree::solutions` decides)?
pub fn pure_tree(gs: &[PG]) -> bool {
    gs.iter().all(|g| match g {
        PG::Eq(..) | PG::Neq(..) | PG::Succ | PG::Fail => true,
        PG::Conj(v) | PG::Disj(v) => pure_tree(v),
        PG::Conde(cs) => cs.iter().all(|c| pure_tree(c)),
        PG::Fresh(b) => pure_tree(std::slice::from_ref(b)),
        _ => false,
    })
}

fn corpus() -> Vec<&'static str> {
    vec![
        // D7 (repaired): a later weaker disequality must not replace the stronger stored one
        "prog 2 2 0 - neq v0 i1 neq cons v0 cons v1 nil cons i1 cons i2 nil eq v0 i1 eq v1 i3",
        "prog 2 2 0 - neq cons v0 cons v1 nil cons i1 cons i2 nil neq v0 i1 eq v0 i1 eq v1 i3",
        "prog 2 2 0 - neq v0 i1 neq cons v0 cons v1 nil cons i1 cons i2 nil",
        "prog 2 1 0 - neq v0 v1",
        "prog 3 2 0 - neq v0 v1 eq v2 v0 eq v2 v1",
        "prog 2 2 0 - conde 2 1 eq v0 i1 2 neq v0 i1 eq v1 v0",
        "prog 2 2 0 - neq comp0 cons v0 cons v1 nil comp0 cons i1 cons i2 nil eq v0 i1",
        // C02-m: a stored disequality re-run when both sides have become non-variable with a variable nested inside
        "prog 2 2 0 - neq v0 cons cons i1 nil nil eq v0 cons cons v1 nil nil eq v1 i1",
        "prog 2 2 0 - eq v1 i1 neq v0 cons cons i1 nil nil eq v0 cons cons v1 nil nil",
        "prog 2 2 0 - neq v0 cons cons i1 nil nil eq v0 cons cons v1 nil nil",
    ]
}

fn record(p: &Prog, sols: Option<&Vec<Vec<T>>>, out: &mut Out, tagstat: &str) {
    let (line, fail, nt, fuel) = eval(p, sols);
    out.stat(tagstat);
    if line.contains("@ -") == false && line != "none" {
        out.stat("programs_with_constraints_in_answers");
    }
    if line == "none" {
        out.stat("programs_without_answers");
    }
    out.push(p.line_f(fuel), line, fail, nt);
    // STATE-LEVEL correspondence (see c16.rs): for programs whose variables are all program variables (no `fresh`,
    // no relation call), the substitution and the DISEQUALITY STORE (pairs walk*ed, sorted) of every state the body
    // goal delivers, real State vs model State — before purification/reification filter anything out
    // (with two or more stored disequalities the store's normal form may depend on the order in which they are re-run —
    // equivalent but differently written constraints survive; the dump is compared when at most one `!=` is posted)
    if tagstat == "written_order" && !p.line().contains("fresh") && !p.line().contains("call") && p.line().matches("neq").count() <= 1 {
        let d = Prog { nq: p.nvars, raw: true, take: 0, ..p.clone() };
        let dump = run_raw_dump(&d, 200_000);
        let t = last_ticks();
        let f2 = if dump.ends_with("BUDGET") { 1500 } else { 4 * t + 200 };
        out.stat("state_dumps");
        if !dump.contains("C[]") && dump.contains("C[") {
            out.stat("state_dumps_with_stored_disequalities");
        }
        out.push(d.line_f(f2).replacen(" raw", " rst", 1), dump, None, true);
    }
}

pub fn replay(line: &str, out: &mut Out) {
    let p = Prog::parse(line);
    if line.split_whitespace().nth(4).map(|f| f.starts_with("rst")).unwrap_or(false) {
        let dump = run_raw_dump(&p, 200_000);
        let t = last_ticks();
        let f2 = if dump.ends_with("BUDGET") { 1500 } else { 4 * t + 200 };
        out.push(p.line_f(f2).replacen(" raw", " rst", 1), dump, None, true);
        return;
    }
    record(&p, None, out, "replay");
}

pub fn run(seed: u64, thorough: bool, out: &mut Out) {
    for l in corpus() {
        record(&Prog::parse(l), None, out, "corpus");
    }
    let n = if thorough { 12000 } else { 700 };
    for i in 0..n {
        let mut r = Rng::new(seed, 2, i);
        let g = TreeGen { nq: 1 + r.below(2), nh: r.below(3), compounds: r.chance(1, 3), max_atoms: 6, conde: r.chance(1, 2) };
        let p = if r.chance(1, 5) {
            out.stat("store_pass_scenarios");
            TreeGen::store_pass(&mut r)
        } else if r.chance(1, 5) {
            out.stat("nested_rerun_scenarios");
            TreeGen::nested_rerun(&mut r)
        } else {
            g.prog(&mut r)
        };
        let sols = solutions(&p);
        record(&p, Some(&sols), out, "written_order");
        // the same program under permutations of its conjunctions: same ground solutions required
        let k = if thorough { 5 } else { 3 };
        for _ in 0..k {
            let q = Prog { body: match permute_goal(&PG::Conj(p.body.clone()), &mut r, false) { PG::Conj(b) => b, _ => unreachable!() }, ..p.clone() };
            if q.body != p.body {
                record(&q, Some(&sols), out, "permuted_order");
            }
        }
    }
    {
        // SMALL SCOPE, EXHAUSTIVE (both tiers): all ordered pairs of the 30 atoms over 2 variables (1 query, 1 hidden), 2 constants,
        // depth <= 1 — with the brute-force solution set as oracle; triples of the same alphabet sampled (more in thorough)
        let ts = vec![T::Var(0), T::Var(1), T::Num(1), T::Num(2), T::list(vec![T::Var(1)]), T::cons(T::Var(0), T::Var(1))];
        let mut atoms = vec![];
        for a in &ts {
            for b in &ts {
                if a < b {
                    atoms.push(PG::Eq(a.clone(), b.clone()));
                    atoms.push(PG::Neq(a.clone(), b.clone()));
                }
            }
        }
        for a in &atoms {
            for b in &atoms {
                let p = Prog { nvars: 2, nq: 1, take: 0, body: vec![a.clone(), b.clone()], raw: false };
                let sols = solutions(&p);
                record(&p, Some(&sols), out, "exhaustive_2atoms");
            }
        }
        let mut r = Rng::new(seed, 202, 0);
        for _ in 0..(if thorough { 20000 } else { 1500 }) {
            let body: Vec<PG> = (0..3).map(|_| r.pick(&atoms).clone()).collect();
            let p = Prog { nvars: 2, nq: 1, take: 0, body, raw: false };
            record(&p, None, out, "random_3atoms_small_alphabet");
        }
        out.exhaustive = true;
        out.notes.push("all ordered pairs of the 30 atoms over {x0,x1,1,2,[x1],[x0|x1]} (1 query + 1 hidden variable)".into());
    }
}
