//! Collected results of one harness run: one entry per case.
use std::collections::BTreeMap;
use std::fs::File;
use std::io::{BufWriter, Write};

pub struct Case {
    /// the case line sent to the Lean driver (empty = not sent to the model)
    pub line: String,
    /// canonical observable produced by the implementation
    pub imp: String,
    /// oracle verdict on the implementation's behaviour: None = property holds on this case
    pub oracle_fail: Option<String>,
    /// is the case non-trivial by the property's rule
    pub nontrivial: bool,
    /// is this case a listed known finding witness (matched by the checker, not the harness)
    pub tag: String,
}

#[derive(Default)]
pub struct Out {
    pub cases: Vec<Case>,
    pub stats: BTreeMap<String, u64>,
    pub notes: Vec<String>,
    pub exhaustive: bool,
}

impl Out {
    pub fn new() -> Out {
        Out::default()
    }
    pub fn push(&mut self, line: String, imp: String, oracle_fail: Option<String>, nontrivial: bool) {
        self.cases.push(Case { line, imp, oracle_fail, nontrivial, tag: String::new() });
    }
    pub fn push_tagged(&mut self, tag: &str, line: String, imp: String, oracle_fail: Option<String>, nontrivial: bool) {
        self.cases.push(Case { line, imp, oracle_fail, nontrivial, tag: tag.to_string() });
    }
    pub fn stat(&mut self, k: &str) {
        *self.stats.entry(k.to_string()).or_insert(0) += 1;
    }
    pub fn stat_n(&mut self, k: &str, n: u64) {
        *self.stats.entry(k.to_string()).or_insert(0) += n;
    }
    pub fn write(&self, dir: &str) -> std::io::Result<()> {
        std::fs::create_dir_all(dir)?;
        let mut fc = BufWriter::new(File::create(format!("{}/cases.txt", dir))?);
        let mut fi = BufWriter::new(File::create(format!("{}/impl.txt", dir))?);
        let mut fo = BufWriter::new(File::create(format!("{}/oracle.txt", dir))?);
        for c in &self.cases {
            assert!(!c.line.contains('\n') && !c.imp.contains('\n'));
            writeln!(fc, "{}", c.line)?;
            writeln!(fi, "{}", c.imp)?;
            let o = match &c.oracle_fail {
                None => "ok".to_string(),
                Some(m) => format!("FAIL {}", m.replace('\n', " ")),
            };
            writeln!(fo, "{}\t{}\t{}", if c.nontrivial { 1 } else { 0 }, if c.tag.is_empty() { "-" } else { &c.tag }, o)?;
        }
        let mut fs = BufWriter::new(File::create(format!("{}/stats.txt", dir))?);
        writeln!(fs, "exhaustive\t{}", if self.exhaustive { 1 } else { 0 })?;
        for (k, v) in &self.stats {
            writeln!(fs, "{}\t{}", k, v)?;
        }
        for n in &self.notes {
            writeln!(fs, "note\t{}", n.replace('\n', " "))?;
        }
        Ok(())
    }
}
