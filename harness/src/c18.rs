//! C18 — FiniteDomain operations implement set semantics.
//! Direct calls of the public `FiniteDomain` API; oracle = BTreeSet<isize>.
use crate::out::Out;
use crate::rng::Rng;
use proto_vulcan::state::FiniteDomain;
use std::collections::BTreeSet;

#[derive(Clone, Debug)]
pub enum Dom {
    I(isize, isize),
    V(Vec<isize>),
}

impl Dom {
    fn build(&self) -> FiniteDomain {
        match self {
            Dom::I(lo, hi) => FiniteDomain::from(*lo..=*hi),
            Dom::V(v) => FiniteDomain::from(v.clone()),
        }
    }
    fn set(&self) -> BTreeSet<isize> {
        match self {
            Dom::I(lo, hi) => (*lo..=*hi).collect(),
            Dom::V(v) => v.iter().copied().collect(),
        }
    }
    fn text(&self) -> String {
        match self {
            Dom::I(lo, hi) => format!("I {} {}", lo, hi),
            Dom::V(v) => {
                let mut s = format!("V {}", v.len());
                for x in v {
                    s.push_str(&format!(" {}", x));
                }
                s
            }
        }
    }
    fn is_small(&self) -> bool {
        match self {
            Dom::I(lo, hi) => (*hi as i128 - *lo as i128) < 64,
            Dom::V(_) => true,
        }
    }
}

fn show_dom(d: &Option<FiniteDomain>) -> String {
    match d {
        None => "none".to_string(),
        Some(d) => {
            let small = match d {
                FiniteDomain::Interval(r) => (*r.end() as i128 - *r.start() as i128) < 64,
                FiniteDomain::Sparse(_) => true,
            };
            if small {
                show_list(&d.iter().collect::<Vec<_>>())
            } else {
                format!("I {} {}", d.min(), d.max())
            }
        }
    }
}

fn show_list(v: &[isize]) -> String {
    let mut s = String::from("{");
    for (i, x) in v.iter().enumerate() {
        if i > 0 {
            s.push(' ');
        }
        s.push_str(&x.to_string());
    }
    s.push('}');
    s
}

fn show_set(s: &BTreeSet<isize>) -> String {
    if s.is_empty() {
        "none".to_string()
    } else {
        show_list(&s.iter().copied().collect::<Vec<_>>())
    }
}

#[derive(Clone, Copy, Debug, PartialEq)]
pub enum Cmp {
    Lt,
    Le,
    Gt,
    Ge,
}
impl Cmp {
    fn name(self) -> &'static str {
        match self {
            Cmp::Lt => "lt",
            Cmp::Le => "le",
            Cmp::Gt => "gt",
            Cmp::Ge => "ge",
        }
    }
    fn parse(s: &str) -> Cmp {
        match s {
            "lt" => Cmp::Lt,
            "le" => Cmp::Le,
            "gt" => Cmp::Gt,
            _ => Cmp::Ge,
        }
    }
    fn eval(self, u: isize, k: isize) -> bool {
        match self {
            Cmp::Lt => u < k,
            Cmp::Le => u <= k,
            Cmp::Gt => u > k,
            Cmp::Ge => u >= k,
        }
    }
}

#[derive(Clone, Debug)]
pub enum Op {
    Intersect(Dom, Dom),
    Diff(Dom, Dom),
    Disjoint(Dom, Dom),
    Eq(Dom, Dom),
    Contains(Dom, isize),
    Min(Dom),
    Max(Dom),
    Single(Dom),
    SingleVal(Dom),
    Iter(Dom),
    IterRev(Dom),
    CopyB(Dom, Cmp, isize),
    DropB(Dom, Cmp, isize),
}

impl Op {
    pub fn line(&self) -> String {
        match self {
            Op::Intersect(a, b) => format!("fd intersect {} {}", a.text(), b.text()),
            Op::Diff(a, b) => format!("fd diff {} {}", a.text(), b.text()),
            Op::Disjoint(a, b) => format!("fd disjoint {} {}", a.text(), b.text()),
            Op::Eq(a, b) => format!("fd eq {} {}", a.text(), b.text()),
            Op::Contains(a, x) => format!("fd contains {} {}", a.text(), x),
            Op::Min(a) => format!("fd min {}", a.text()),
            Op::Max(a) => format!("fd max {}", a.text()),
            Op::Single(a) => format!("fd single {}", a.text()),
            Op::SingleVal(a) => format!("fd singleval {}", a.text()),
            Op::Iter(a) => format!("fd iter {}", a.text()),
            Op::IterRev(a) => format!("fd iterrev {}", a.text()),
            Op::CopyB(a, c, k) => format!("fd copyb {} {} {}", a.text(), c.name(), k),
            Op::DropB(a, c, k) => format!("fd dropb {} {} {}", a.text(), c.name(), k),
        }
    }

    /// implementation: the real FiniteDomain
    pub fn run_impl(&self) -> String {
        match self {
            Op::Intersect(a, b) => show_dom(&a.build().intersect(&b.build())),
            Op::Diff(a, b) => show_dom(&a.build().diff(&b.build())),
            Op::Disjoint(a, b) => a.build().is_disjoint(&b.build()).to_string(),
            Op::Eq(a, b) => (a.build() == b.build()).to_string(),
            Op::Contains(a, x) => a.build().contains(*x).to_string(),
            Op::Min(a) => a.build().min().to_string(),
            Op::Max(a) => a.build().max().to_string(),
            Op::Single(a) => a.build().is_singleton().to_string(),
            Op::SingleVal(a) => match a.build().singleton_value() {
                Some(v) => v.to_string(),
                None => "none".to_string(),
            },
            Op::Iter(a) => show_list(&a.build().iter().collect::<Vec<_>>()),
            Op::IterRev(a) => show_list(&a.build().iter().rev().collect::<Vec<_>>()),
            Op::CopyB(a, c, k) => {
                let (c, k) = (*c, *k);
                show_dom(&a.build().copy_before(move |u| c.eval(*u, k)))
            }
            Op::DropB(a, c, k) => {
                let (c, k) = (*c, *k);
                show_dom(&a.build().drop_before(move |u| c.eval(*u, k)))
            }
        }
    }

    /// oracle: set semantics on BTreeSet (only for small domains)
    pub fn run_oracle(&self) -> String {
        match self {
            Op::Intersect(a, b) => show_set(&a.set().intersection(&b.set()).copied().collect()),
            Op::Diff(a, b) => show_set(&a.set().difference(&b.set()).copied().collect()),
            Op::Disjoint(a, b) => a.set().is_disjoint(&b.set()).to_string(),
            Op::Eq(a, b) => (a.set() == b.set()).to_string(),
            Op::Contains(a, x) => a.set().contains(x).to_string(),
            Op::Min(a) => a.set().iter().next().unwrap().to_string(),
            Op::Max(a) => a.set().iter().next_back().unwrap().to_string(),
            Op::Single(a) => (a.set().len() == 1).to_string(),
            Op::SingleVal(a) => {
                let s = a.set();
                if s.len() == 1 {
                    s.iter().next().unwrap().to_string()
                } else {
                    "none".to_string()
                }
            }
            Op::Iter(a) => show_list(&a.set().iter().copied().collect::<Vec<_>>()),
            Op::IterRev(a) => show_list(&a.set().iter().rev().copied().collect::<Vec<_>>()),
            // prefix before / suffix from the first element satisfying the predicate
            Op::CopyB(a, c, k) => {
                let v: Vec<isize> = a.set().iter().copied().take_while(|u| !c.eval(*u, *k)).collect();
                show_set(&v.into_iter().collect())
            }
            Op::DropB(a, c, k) => {
                let v: Vec<isize> = a.set().iter().copied().skip_while(|u| !c.eval(*u, *k)).collect();
                show_set(&v.into_iter().collect())
            }
        }
    }

    fn doms(&self) -> Vec<&Dom> {
        match self {
            Op::Intersect(a, b) | Op::Diff(a, b) | Op::Disjoint(a, b) | Op::Eq(a, b) => vec![a, b],
            Op::Contains(a, _) | Op::Min(a) | Op::Max(a) | Op::Single(a) | Op::SingleVal(a) | Op::Iter(a)
            | Op::IterRev(a) | Op::CopyB(a, _, _) | Op::DropB(a, _, _) => vec![a],
        }
    }
}

fn parse_dom(t: &mut std::slice::Iter<&str>) -> Dom {
    match *t.next().unwrap() {
        "I" => {
            let lo = t.next().unwrap().parse().unwrap();
            let hi = t.next().unwrap().parse().unwrap();
            Dom::I(lo, hi)
        }
        _ => {
            let n: usize = t.next().unwrap().parse().unwrap();
            Dom::V((0..n).map(|_| t.next().unwrap().parse().unwrap()).collect())
        }
    }
}

pub fn parse(line: &str) -> Op {
    let toks: Vec<&str> = line.split_whitespace().collect();
    let mut t = toks[2..].iter();
    match toks[1] {
        "intersect" => Op::Intersect(parse_dom(&mut t), parse_dom(&mut t)),
        "diff" => Op::Diff(parse_dom(&mut t), parse_dom(&mut t)),
        "disjoint" => Op::Disjoint(parse_dom(&mut t), parse_dom(&mut t)),
        "eq" => Op::Eq(parse_dom(&mut t), parse_dom(&mut t)),
        "contains" => {
            let d = parse_dom(&mut t);
            Op::Contains(d, t.next().unwrap().parse().unwrap())
        }
        "min" => Op::Min(parse_dom(&mut t)),
        "max" => Op::Max(parse_dom(&mut t)),
        "single" => Op::Single(parse_dom(&mut t)),
        "singleval" => Op::SingleVal(parse_dom(&mut t)),
        "iter" => Op::Iter(parse_dom(&mut t)),
        "iterrev" => Op::IterRev(parse_dom(&mut t)),
        "copyb" => {
            let d = parse_dom(&mut t);
            let c = Cmp::parse(t.next().unwrap());
            Op::CopyB(d, c, t.next().unwrap().parse().unwrap())
        }
        _ => {
            let d = parse_dom(&mut t);
            let c = Cmp::parse(t.next().unwrap());
            Op::DropB(d, c, t.next().unwrap().parse().unwrap())
        }
    }
}

/// runs one op: returns (impl observable, oracle failure)
fn eval(op: &Op) -> (String, Option<String>) {
    crate::mark(&op.line());
    let imp = match crate::catch(|| op.run_impl()) {
        Ok(s) => s,
        Err(site) => format!("PANIC {}", site),
    };
    let small = op.doms().iter().all(|d| d.is_small());
    let fail = if small {
        let want = op.run_oracle();
        if want != imp {
            Some(format!("set semantics gives {} but FiniteDomain gives {}", want, imp))
        } else {
            None
        }
    } else {
        None
    };
    (imp, fail)
}

fn nontrivial(op: &Op) -> bool {
    // non-trivial: at least one sparse operand or two overlapping-but-different operands
    let ds = op.doms();
    ds.iter().any(|d| matches!(d, Dom::V(v) if v.len() > 1)) || (ds.len() == 2 && ds[0].set() != ds[1].set())
}

pub fn replay(line: &str, out: &mut Out) {
    let op = parse(line);
    let (imp, fail) = eval(&op);
    let nt = nontrivial(&op);
    out.push(op.line(), imp, fail, nt);
}

fn rand_dom(r: &mut Rng, w: isize) -> Dom {
    if r.chance(2, 5) {
        let a = r.range(-(w as i64), w as i64) as isize;
        let b = r.range(-(w as i64), w as i64) as isize;
        Dom::I(a.min(b), a.max(b))
    } else {
        let n = 1 + r.below(6);
        let mut v: Vec<isize> = (0..n).map(|_| r.range(-(w as i64), w as i64) as isize).collect();
        // duplicates and unsorted order are the point of From<Vec>
        if r.chance(1, 3) {
            let d = *r.pick(&v);
            v.push(d);
        }
        r.shuffle(&mut v);
        Dom::V(v)
    }
}

fn rand_op(r: &mut Rng, w: isize) -> Op {
    let a = rand_dom(r, w);
    let k = r.range(-(w as i64) - 1, w as i64 + 1) as isize;
    let c = *r.pick(&[Cmp::Lt, Cmp::Le, Cmp::Gt, Cmp::Ge]);
    match r.below(16) {
        0 | 1 | 2 => Op::Intersect(a, rand_dom(r, w)),
        3 | 4 | 5 => Op::Diff(a, rand_dom(r, w)),
        6 | 7 => Op::Disjoint(a, rand_dom(r, w)),
        8 => {
            // bias towards equal / subset pairs
            let b = if r.chance(1, 2) {
                let s: Vec<isize> = a.set().into_iter().collect();
                if r.chance(1, 2) {
                    Dom::V(s)
                } else {
                    Dom::V(s[..1 + r.below(s.len())].to_vec())
                }
            } else {
                rand_dom(r, w)
            };
            if r.chance(1, 2) {
                Op::Eq(a, b)
            } else {
                Op::Eq(b, a)
            }
        }
        9 => Op::Contains(a, k),
        10 => {
            if r.chance(1, 2) {
                Op::Min(a)
            } else {
                Op::Max(a)
            }
        }
        11 => {
            if r.chance(1, 2) {
                Op::Single(a)
            } else {
                Op::SingleVal(a)
            }
        }
        12 => {
            if r.chance(1, 2) {
                Op::Iter(a)
            } else {
                Op::IterRev(a)
            }
        }
        13 | 14 => Op::CopyB(a, c, k),
        _ => Op::DropB(a, c, k),
    }
}

fn all_doms(w: isize, r: &mut Rng) -> Vec<Dom> {
    let mut v = vec![];
    for lo in -w..=w {
        for hi in lo..=w {
            v.push(Dom::I(lo, hi));
        }
    }
    let n = (2 * w + 1) as u32;
    for mask in 1u32..(1 << n) {
        let mut xs: Vec<isize> = (0..n).filter(|i| mask & (1 << i) != 0).map(|i| i as isize - w).collect();
        if r.chance(1, 3) {
            let d = *r.pick(&xs);
            xs.push(d);
        }
        r.shuffle(&mut xs);
        v.push(Dom::V(xs));
    }
    v
}

fn extremes() -> Vec<Op> {
    let mn = isize::MIN;
    let mx = isize::MAX;
    vec![
        Op::Single(Dom::I(mn, mx)),
        Op::SingleVal(Dom::I(mn, mx)),
        Op::Single(Dom::I(mx, mx)),
        Op::SingleVal(Dom::I(mn, mn)),
        Op::Single(Dom::I(mn, mn + 1)),
        Op::Min(Dom::I(mn, mx)),
        Op::Max(Dom::I(mn, mx)),
        Op::Contains(Dom::I(mn, mx), 0),
        Op::Contains(Dom::I(mn, -1), mx),
        Op::Contains(Dom::I(1, mx), mn),
        Op::Intersect(Dom::I(mn, mx), Dom::I(-3, 4)),
        Op::Intersect(Dom::I(mn, 0), Dom::I(0, mx)),
        Op::Intersect(Dom::I(mn, -1), Dom::I(1, mx)),
        Op::Intersect(Dom::I(mn, mx), Dom::V(vec![mx, mn, 0, mn])),
        Op::Intersect(Dom::V(vec![mx, 5, mn]), Dom::I(mn + 1, mx - 1)),
        Op::Intersect(Dom::I(mn, mx), Dom::I(mn, mx)),
        Op::Min(Dom::V(vec![mx, mn])),
        Op::Max(Dom::V(vec![mx, mn, mx])),
        Op::Single(Dom::V(vec![mx, mx])),
        Op::Diff(Dom::V(vec![mx, mn, 0]), Dom::V(vec![0])),
        Op::Eq(Dom::V(vec![mx, mn]), Dom::V(vec![mn, mx, mn])),
    ]
}

/// oracle for the extreme stream, computed with i128 interval arithmetic by hand
fn extreme_expect(op: &Op) -> Option<String> {
    let mn = isize::MIN;
    let mx = isize::MAX;
    Some(match op {
        Op::Single(Dom::I(a, b)) => (a == b).to_string(),
        Op::SingleVal(Dom::I(a, b)) => {
            if a == b {
                a.to_string()
            } else {
                "none".into()
            }
        }
        Op::Min(Dom::I(a, _)) => a.to_string(),
        Op::Max(Dom::I(_, b)) => b.to_string(),
        Op::Contains(Dom::I(a, b), x) => (a <= x && x <= b).to_string(),
        Op::Intersect(Dom::I(a, b), Dom::I(c, d)) => {
            let lo = *a.max(c);
            let hi = *b.min(d);
            if lo > hi {
                "none".into()
            } else if (hi as i128 - lo as i128) < 64 {
                show_list(&(lo..=hi).collect::<Vec<_>>())
            } else {
                format!("I {} {}", lo, hi)
            }
        }
        Op::Intersect(Dom::I(a, b), Dom::V(v)) | Op::Intersect(Dom::V(v), Dom::I(a, b)) => {
            let s: BTreeSet<isize> = v.iter().copied().filter(|x| a <= x && x <= b).collect();
            show_set(&s)
        }
        _ => {
            let _ = (mn, mx);
            return None;
        }
    })
}

pub fn run(seed: u64, thorough: bool, out: &mut Out) {
    // corpus: the witnesses of the repaired defects D1-D3 always run first
    let corpus = vec![
        Op::Eq(Dom::I(1, 3), Dom::I(1, 5)),
        Op::Eq(Dom::I(1, 5), Dom::I(1, 3)),
        Op::Single(Dom::V(vec![1, 1])),
        Op::SingleVal(Dom::V(vec![1, 1])),
        Op::Diff(Dom::V(vec![1, 1, 2]), Dom::V(vec![1])),
        Op::Eq(Dom::V(vec![2, 1, 1]), Dom::I(1, 2)),
        Op::Intersect(Dom::V(vec![3, 3, 1]), Dom::V(vec![3])),
    ];
    for op in corpus {
        let (imp, fail) = eval(&op);
        out.stat("corpus");
        out.push(op.line(), imp, fail, true);
    }
    for op in extremes() {
        let imp = match crate::catch(|| op.run_impl()) {
            Ok(s) => s,
            Err(site) => format!("PANIC {}", site),
        };
        let fail = match extreme_expect(&op) {
            Some(want) if want != imp => Some(format!("extreme bounds: expected {} got {}", want, imp)),
            Some(_) => None,
            None => {
                let want = op.run_oracle();
                if want != imp {
                    Some(format!("extreme bounds: expected {} got {}", want, imp))
                } else {
                    None
                }
            }
        };
        out.stat("extreme");
        out.push(op.line(), imp, fail, true);
    }

    let n = if thorough { 60000 } else { 20000 };
    for i in 0..n {
        let mut r = Rng::new(seed, 18, i);
        let w = if r.chance(1, 4) { 3 } else { 6 };
        let op = rand_op(&mut r, w);
        let (imp, fail) = eval(&op);
        let key = op.line();
        out.stat(&format!("op_{}", key.split(' ').nth(1).unwrap()));
        if imp == "none" {
            out.stat("result_none");
        }
        let nt = nontrivial(&op);
        out.push(key, imp, fail, nt);
    }

    if thorough {
        // exhaustive through the model: all pairs over the window -3..=3, both representations
        let mut r = Rng::new(seed, 1800, 0);
        let doms = all_doms(3, &mut r);
        for a in &doms {
            for b in &doms {
                for op in [
                    Op::Intersect(a.clone(), b.clone()),
                    Op::Diff(a.clone(), b.clone()),
                    Op::Disjoint(a.clone(), b.clone()),
                    Op::Eq(a.clone(), b.clone()),
                ] {
                    let (imp, fail) = eval(&op);
                    out.stat("exhaustive_w3_pairs");
                    let nt = nontrivial(&op);
                    out.push(op.line(), imp, fail, nt);
                }
            }
            for k in -4..=4 {
                for c in [Cmp::Lt, Cmp::Le, Cmp::Gt, Cmp::Ge] {
                    for op in [Op::CopyB(a.clone(), c, k), Op::DropB(a.clone(), c, k)] {
                        let (imp, fail) = eval(&op);
                        out.stat("exhaustive_w3_thresholds");
                        out.push(op.line(), imp, fail, true);
                    }
                }
                let op = Op::Contains(a.clone(), k);
                let (imp, fail) = eval(&op);
                out.push(op.line(), imp, fail, true);
            }
            for op in [
                Op::Min(a.clone()),
                Op::Max(a.clone()),
                Op::Single(a.clone()),
                Op::SingleVal(a.clone()),
                Op::Iter(a.clone()),
                Op::IterRev(a.clone()),
            ] {
                let (imp, fail) = eval(&op);
                out.push(op.line(), imp, fail, true);
            }
        }
        // exhaustive against the oracle only (not sent to the model): window -5..=5
        let doms = all_doms(5, &mut r);
        let mut count = 0u64;
        for a in &doms {
            let da = a.build();
            let sa = a.set();
            for b in &doms {
                let db = b.build();
                let sb = b.set();
                let checks: [(String, String); 4] = [
                    (show_dom(&da.intersect(&db)), show_set(&sa.intersection(&sb).copied().collect())),
                    (show_dom(&da.diff(&db)), show_set(&sa.difference(&sb).copied().collect())),
                    (da.is_disjoint(&db).to_string(), sa.is_disjoint(&sb).to_string()),
                    ((da == db).to_string(), (sa == sb).to_string()),
                ];
                for (i, (got, want)) in checks.iter().enumerate() {
                    count += 1;
                    if got != want {
                        let op = match i {
                            0 => Op::Intersect(a.clone(), b.clone()),
                            1 => Op::Diff(a.clone(), b.clone()),
                            2 => Op::Disjoint(a.clone(), b.clone()),
                            _ => Op::Eq(a.clone(), b.clone()),
                        };
                        out.push(op.line(), got.clone(), Some(format!("set semantics gives {} but FiniteDomain gives {}", want, got)), true);
                    }
                }
            }
        }
        out.stat_n("exhaustive_w5_oracle_only", count);
        out.exhaustive = true;
        out.notes.push("thorough: all pairs of domains over -3..=3 (both representations) through model+oracle; all pairs over -5..=5 against the oracle".into());
    }
}
