//! C06 — interleaving search loses no answers and invents none.
use crate::out::Out;
use crate::prog::*;
use crate::rng::Rng;
use crate::search::*;
use crate::term::T;

fn multiset(v: &[String]) -> Vec<String> {
    let mut v = v.to_vec();
    v.sort();
    v
}

pub fn eval(p: &Prog) -> (String, Option<String>, bool, u64) {
    let out = run_prog(p);
    let fuel = model_fuel(&out);
    let line = show_run(&out, false);
    let (answers, finished) = match &out {
        RunOut::Answers(a, more) => (a, !*more),
        RunOut::Budget(a) => (a, false),
        RunOut::Panic(s) => return (line, Some(format!("panic at {}", s)), true, fuel),
    };
    let got: Vec<String> = answers.iter().map(|a| a.show("")).collect();
    let mut fail = None;
    if finished && p.take == 0 {
        // finite search tree: same multiset as the reference semantics and as depth-first search
        if let Some(want) = ref_answers(p, 14) {
            if multiset(&want) != multiset(&got) {
                fail = Some(format!("multiset of answers differs from the reference semantics: reference {} answers, engine {}", want.len(), got.len()));
            }
            let dfs = Prog { body: vec![PG::Dfs(p.body.clone())], ..p.clone() };
            if let RunOut::Answers(d, _) = run_prog(&dfs) {
                let d: Vec<String> = d.iter().map(|a| a.show("")).collect();
                if multiset(&d) != multiset(&got) && fail.is_none() {
                    fail = Some(format!("multiset of answers differs from depth-first search of the same program: dfs {} answers, interleaving {}", d.len(), got.len()));
                }
            }
        }
    } else {
        // infinite (or truncated) stream: every answer produced is an answer of the program
        for a in answers {
            // unfolding depth: an answer needs at most one unfolding per constructor it contains
            // (plus the relations' own base cases), so its size bounds the depth needed
            let size: usize = a.terms.iter().map(|t| t.text().split_whitespace().count()).sum();
            let depth = 10 + size;
            if !ref_member(p, a, depth) {
                fail = Some(format!("answer {} is not an answer of the program (reference interpreter, unfolding depth {})", a.show(""), depth));
                break;
            }
        }
    }
    (line, fail, got.len() > 1, fuel)
}

fn corpus() -> Vec<&'static str> {
    vec![
        "prog 1 1 0 - conde 3 1 call member 2 v0 cons i1 cons i2 cons i3 nil 1 call member 2 v0 cons i4 cons i5 cons i6 nil 1 call member 2 v0 cons i7 cons i8 cons i9 nil",
        "prog 1 1 8 - anyo conde 3 1 eq i1 v0 1 eq i2 v0 1 eq i3 v0",
        "prog 2 2 6 - loop 2 1 conde 2 1 eq v0 i1 1 eq v0 i2 1 eq v1 i3",
        "prog 2 2 5 - loop 2 1 conde 2 1 eq i1 v0 1 eq i2 v0 2 eq v1 v0 eq v1 i2",
        "prog 3 3 6 - call append 3 v0 v1 v2",
        "prog 2 1 5 - call member 2 i1 v0",
        "prog 1 1 0 - conde 2 1 eq v0 i1 1 eq v0 i1",
        "prog 2 2 0 - call append 3 v0 v1 cons i1 cons i2 cons i3 nil call member 2 i2 v0",
    ]
}

fn record(p: &Prog, out: &mut Out) {
    let (line, fail, nt, fuel) = eval(p);
    if line.contains("BUDGET") {
        out.stat("budget_exhausted");
    }
    out.push(p.line_f(fuel), line, fail, nt);
}

pub fn replay(line: &str, out: &mut Out) {
    record(&Prog::parse(line), out);
}

pub fn run(seed: u64, thorough: bool, out: &mut Out) {
    for l in corpus() {
        out.stat("corpus");
        replay(l, out);
    }
    let n = if thorough { 25000 } else { 800 };
    for i in 0..n {
        let mut r = Rng::new(seed, 6, i);
        let g = SearchGen { nq: 1 + r.below(2), nh: r.below(2), dfs_safe: true, committed: false, calls: true };
        let k = 1 + r.below(2);
        let depth = 1 + r.below(3);
        let mut body: Vec<PG> = (0..k).map(|_| g.goal(&mut r, depth)).collect();
        let mut take = 0;
        if r.chance(1, 4) {
            // infinite producers: loop prefixes and unbounded relation modes
            take = 3 + r.below(10);
            let inf = match r.below(5) {
                0 => PG::Anyo(Box::new(g.goal(&mut r, 1))),
                4 => {
                    // loop { c1, c2, .. } with several clauses: the body is their CONJUNCTION
                    let k = 2 + r.below(2);
                    PG::Loop((0..k).map(|_| { let m = 1 + r.below(2); (0..m).map(|_| g.goal(&mut r, 1)).collect() }).collect())
                }
                1 => PG::Call("member".into(), vec![T::Num(r.range(1, 2) as isize), T::Var(r.below(g.nq + g.nh))]),
                2 => PG::Call("append".into(), vec![T::Var(0), T::Var(r.below(g.nq + g.nh)), T::Var(r.below(g.nq + g.nh))]),
                _ => PG::Conde(vec![vec![PG::Always, g.goal(&mut r, 1)], vec![g.goal(&mut r, 1)]]),
            };
            let pos = r.below(body.len() + 1);
            body.insert(pos, inf);
            out.stat("infinite_producer");
        } else {
            out.stat("finite");
        }
        let p = Prog { nvars: g.nq + g.nh, nq: g.nq, take, body, raw: false };
        record(&p, out);
    }
}
