//! Generator and brute-force semantics of CLP(FD) programs, shared by C04, C09, C10, C16, C17.
use crate::prog::*;
use crate::rng::Rng;
use crate::term::*;
use crate::tree::paths;

pub struct FdGen {
    pub nv: usize,
    pub lo: isize,
    pub hi: isize,
    /// allow negative values in domains and constants
    pub signs: bool,
}

impl FdGen {
    pub fn var(&self, r: &mut Rng) -> T {
        T::Var(r.below(self.nv))
    }
    pub fn num(&self, r: &mut Rng) -> T {
        T::Num(r.range(if self.signs { self.lo as i64 } else { 0 }, self.hi as i64) as isize)
    }
    /// operand: mostly variables, sometimes a constant; aliasing arises naturally from the small pool
    pub fn operand(&self, r: &mut Rng) -> T {
        if r.chance(1, 5) {
            self.num(r)
        } else {
            self.var(r)
        }
    }
    pub fn domain(&self, r: &mut Rng) -> D {
        let lo = if self.signs { self.lo } else { 0 };
        if r.chance(3, 5) {
            let a = r.range(lo as i64, self.hi as i64) as isize;
            let b = r.range(a as i64, self.hi as i64) as isize;
            D::I(a, b)
        } else {
            let n = 1 + r.below(5);
            D::V((0..n).map(|_| r.range(lo as i64, self.hi as i64) as isize).collect())
        }
    }
    pub fn constraint(&self, r: &mut Rng) -> PG {
        match r.below(14) {
            0 | 1 => PG::PlusFd(self.operand(r), self.operand(r), self.operand(r)),
            2 => PG::MinusFd(self.operand(r), self.operand(r), self.operand(r)),
            3 | 4 => PG::TimesFd(self.operand(r), self.operand(r), self.operand(r)),
            5 | 6 => PG::LteFd(self.operand(r), self.operand(r)),
            7 => PG::LtFd(self.operand(r), self.operand(r)),
            8 | 9 => PG::DiseqFd(self.operand(r), self.operand(r)),
            10 | 11 => {
                let k = 2 + r.below(3);
                PG::DistinctFd(T::list((0..k).map(|_| if r.chance(1, 6) { self.num(r) } else { self.var(r) }).collect()))
            }
            12 => PG::Eq(self.var(r), self.var(r)),
            _ => PG::Eq(self.var(r), self.num(r)),
        }
    }
    /// a conjunction: a domain for every variable (at random positions: before, between and after the
    /// constraints that mention it) and `k` constraints
    pub fn conj(&self, r: &mut Rng, k: usize) -> Vec<PG> {
        let mut body: Vec<PG> = (0..k).map(|_| self.constraint(r)).collect();
        for v in 0..self.nv {
            let pos = if r.chance(2, 3) { 0 } else { r.below(body.len() + 1) };
            body.insert(pos, PG::InFd(T::Var(v), self.domain(r)));
        }
        // a variable may be given a domain more than once: the domains intersect (sparse with holes against sparse,
        // sparse against interval, either order — seeded changes C16-a, C04-f, C17-e)
        if r.chance(1, 3) {
            for _ in 0..1 + r.below(2) {
                let v = r.below(self.nv);
                let pos = r.below(body.len() + 1);
                body.insert(pos, PG::InFd(T::Var(v), self.domain(r)));
            }
        }
        // … in particular a second domain with the SAME bounds and holes inside (the intersection keeps min and max and
        // loses interior values: seeded change C17-e), after the first one
        if r.chance(1, 4) {
            let v = r.below(self.nv);
            let first = body.iter().position(|g| matches!(g, PG::InFd(T::Var(k), _) if *k == v));
            if let Some(i) = first {
                if let PG::InFd(_, d) = &body[i] {
                    let vals = d.values();
                    if vals.len() >= 3 {
                        let (lo, hi) = (vals[0], vals[vals.len() - 1]);
                        let mut holes: Vec<isize> = vec![lo];
                        for x in &vals[1..vals.len() - 1] {
                            if r.chance(1, 2) {
                                holes.push(*x);
                            }
                        }
                        holes.push(hi);
                        if holes.len() < vals.len() {
                            let pos = i + 1 + r.below(body.len() - i);
                            body.insert(pos, PG::InFd(T::Var(v), D::V(holes)));
                        }
                    }
                }
            }
        }
        body
    }
}

/// SCENARIOS: small program families around mechanisms that random conjunctions reach too rarely (each found by a
/// seeded change that the random sample missed).  Returns (nvars, nq, body).
pub fn scenario(r: &mut Rng) -> (usize, usize, Vec<PG>) {
    let v = |k: usize| T::Var(k);
    let n = |k: isize| T::Num(k);
    match r.below(4) {
        0 => {
            // ALIASED OPERANDS (C04-k): a constraint posted on a, b; then a == x, b == y move the domains to x, y (either
            // orientation); then x / y are narrowed to one value by PROPAGATION — the constraint on the old names must wake up
            let (lo, hi) = (1, 2 + r.below(3) as isize);
            let mut body = vec![PG::InFd(T::list(vec![v(0), v(1), v(2), v(3)]), D::I(lo, hi))];
            let c = match r.below(5) {
                0 => PG::LteFd(v(0), v(1)),
                1 => PG::DiseqFd(v(0), v(1)),
                2 => PG::LtFd(v(0), v(1)),
                3 => PG::PlusFd(v(0), n(1), v(1)),
                _ => PG::LteFd(v(1), v(0)),
            };
            let early = r.chance(2, 3);
            if early {
                body.push(c.clone());
            }
            body.push(if r.chance(2, 3) { PG::Eq(v(0), v(2)) } else { PG::Eq(v(2), v(0)) });
            body.push(if r.chance(2, 3) { PG::Eq(v(1), v(3)) } else { PG::Eq(v(3), v(1)) });
            // half of the time the bound leaves exactly one value
            let k = r.range(lo as i64, hi as i64) as isize;
            body.push(match r.below(3) {
                0 => PG::LteFd(n(if r.chance(1, 2) { hi } else { k }), v(2)),
                1 => PG::LteFd(v(2), n(if r.chance(1, 2) { lo } else { k })),
                _ => PG::DiseqFd(v(2), n(k)),
            });
            let k2 = r.range(lo as i64, hi as i64) as isize;
            let k3 = if r.chance(1, 2) { lo } else { r.range(lo as i64, hi as i64) as isize };
            body.push(match r.below(3) {
                0 => PG::Conde(vec![vec![PG::Eq(v(3), n(k2))], vec![PG::LteFd(v(3), n(k3))]]),
                1 => PG::LteFd(v(3), n(k3)),
                _ => PG::Conde(vec![vec![PG::LteFd(n(k2), v(3))], vec![PG::Eq(v(3), n(k3))]]),
            });
            if !early {
                body.push(c);
            }
            (4, 2, body)
        }
        1 => {
            // DISTINCT CASCADE (C16-k): excluding a constant collapses an earlier variable of the distinctfd list to one value,
            // whose binding makes another stored constraint narrow a LATER variable of the same list
            let a = r.range(0, 2) as isize;
            let c = a + 1 + r.below(3) as isize;
            let mut body = vec![PG::InFd(v(0), D::V(vec![a, c])), PG::InFd(v(1), D::I(r.range(-1, 1) as isize, c + r.below(2) as isize))];
            body.push(match r.below(4) {
                0 => PG::LteFd(v(1), v(0)),
                1 => PG::LteFd(v(0), v(1)),
                2 => PG::DiseqFd(v(0), v(1)),
                _ => PG::PlusFd(v(0), n(1), v(1)),
            });
            let gone = if r.chance(2, 3) { c } else { a };
            let mut items = vec![v(0), v(1), n(gone)];
            if r.chance(1, 2) {
                items.swap(1, 2);
            }
            if r.chance(1, 4) {
                items.swap(0, 1);
            }
            body.push(PG::DistinctFd(T::list(items)));
            (2, 2, body)
        }
        2 => {
            // ONE UNIFICATION BINDING SEVERAL DOMAIN VARIABLES (C09-k): every binding of the extension must go through its
            // domain, whichever the hash order puts first
            let nv = 2 + r.below(2);
            let mut body: Vec<PG> = (0..nv).map(|k| PG::InFd(v(k), D::I(r.range(0, 2) as isize, r.range(2, 4) as isize))).collect();
            // the extra variable has a domain too (before or after the unification)
            let extra = PG::InFd(v(nv), D::I(0, 5));
            let extra_first = r.chance(1, 2);
            if extra_first {
                body.push(extra.clone());
            }
            let lhs = T::list((0..nv).map(v).collect());
            let rhs = match r.below(3) {
                // all onto one fresh variable (the query variable nv): the domains intersect
                0 => T::list((0..nv).map(|_| v(nv)).collect()),
                // onto numbers, some outside the domains
                1 => T::list((0..nv).map(|_| n(r.range(0, 5) as isize)).collect()),
                // a mix
                _ => T::list((0..nv).map(|k| if r.chance(1, 2) { v(nv) } else if r.chance(1, 2) { n(r.range(0, 4) as isize) } else { v((k + 1) % nv) }).collect()),
            };
            body.push(if r.chance(1, 2) { PG::Eq(lhs, rhs) } else { PG::Eq(rhs, lhs) });
            if !extra_first {
                body.push(extra);
            }
            if r.chance(1, 3) {
                body.push(PG::LteFd(v(0), v(1)));
            }
            // the query: the extra variable first, then the domain variables
            let shift = |t: &T| t.subst(&|x| match x { T::Var(k) => Some(T::Var(if *k == nv { 0 } else { k + 1 })), _ => None });
            let body: Vec<PG> = body.iter().map(|g| crate::c16::shift_goal(g, &shift)).collect();
            (nv + 1, nv + 1, body)
        }
        _ => {
            // HIDDEN PRODUCT (C17-k): two FD variables that are not part of the query, tied by a product over mixed signs —
            // labelling the hidden variables must be able to go back on the first one
            let k = [4, -4, 6, -6, 2, -2, 3, -3, 1][r.below(9)];
            let mut body = vec![PG::InFd(v(0), D::I(0, 1 + r.below(2) as isize))];
            body.push(PG::InFd(v(1), D::I(-3, 1 + r.below(3) as isize)));
            body.push(PG::InFd(v(2), D::I(-3 + r.below(2) as isize, 2)));
            body.push(PG::TimesFd(v(1), v(2), n(k)));
            if r.chance(1, 3) {
                body.push(PG::LteFd(v(0), v(1)));
            }
            (3, 1, body)
        }
    }
}

fn val(a: &[isize], t: &T) -> Option<isize> {
    match t {
        T::Var(k) => Some(a[*k]),
        T::Num(n) => Some(*n),
        _ => None,
    }
}

/// does the integer assignment satisfy the atom? (`None`: atom outside the FD fragment)
pub fn fd_sat(a: &[isize], g: &PG) -> Option<bool> {
    Some(match g {
        PG::InFd(x, d) => {
            // infd on a list constrains every element
            match x {
                T::Cons(_, _) | T::Nil => {
                    let (es, _) = x.elems();
                    es.iter().all(|e| val(a, e).map(|v| d.values().contains(&v)).unwrap_or(false))
                }
                _ => d.values().contains(&val(a, x)?),
            }
        }
        PG::PlusFd(u, v, w) => val(a, u)? + val(a, v)? == val(a, w)?,
        PG::MinusFd(u, v, w) => val(a, u)? - val(a, v)? == val(a, w)?,
        PG::TimesFd(u, v, w) => val(a, u)? * val(a, v)? == val(a, w)?,
        PG::LteFd(u, v) => val(a, u)? <= val(a, v)?,
        PG::LtFd(u, v) => val(a, u)? < val(a, v)?,
        PG::DiseqFd(u, v) => val(a, u)? != val(a, v)?,
        PG::DistinctFd(l) => {
            let (es, _) = l.elems();
            let vs: Option<Vec<isize>> = es.iter().map(|e| val(a, e)).collect();
            let vs = vs?;
            (0..vs.len()).all(|i| (0..i).all(|j| vs[i] != vs[j]))
        }
        PG::Eq(u, v) => {
            fn ev(a: &[isize], t: &T) -> T {
                t.subst(&|x| match x {
                    T::Var(k) => Some(T::Num(a[*k])),
                    _ => None,
                })
            }
            ev(a, u) == ev(a, v)
        }
        PG::Neq(u, v) => {
            fn ev(a: &[isize], t: &T) -> T {
                t.subst(&|x| match x {
                    T::Var(k) => Some(T::Num(a[*k])),
                    _ => None,
                })
            }
            ev(a, u) != ev(a, v)
        }
        PG::PlusZ(u, v, w) => val(a, u)? + val(a, v)? == val(a, w)?,
        PG::TimesZ(u, v, w) => val(a, u)? * val(a, v)? == val(a, w)?,
        PG::Succ => true,
        PG::Fail => false,
        _ => return None,
    })
}

/// All integer assignments of the program variables over `lo..=hi` satisfying a path of the body,
/// projected on the query variables: per path each distinct projection once; the result is the
/// multiset union over the paths (a solution reachable through two clauses of a disjunction is
/// expected twice), sorted.
pub fn fd_solutions(nvars: usize, nq: usize, body: &[PG], lo: isize, hi: isize) -> Option<Vec<Vec<isize>>> {
    let proj: Vec<usize> = (0..nq).collect();
    fd_solutions_proj(nvars, &proj, body, lo, hi)
}

/// the same with an arbitrary projection (list of variable indices)
pub fn fd_solutions_proj(nvars: usize, proj: &[usize], body: &[PG], lo: isize, hi: isize) -> Option<Vec<Vec<isize>>> {
    let ps = paths(body);
    let width = (hi - lo + 1) as usize;
    let total = width.pow(nvars as u32);
    let mut per_path: Vec<Vec<Vec<isize>>> = vec![vec![]; ps.len()];
    for code in 0..total {
        let mut k = code;
        let a: Vec<isize> = (0..nvars)
            .map(|_| {
                let v = lo + (k % width) as isize;
                k /= width;
                v
            })
            .collect();
        for (pi, p) in ps.iter().enumerate() {
            let mut all = true;
            for g in p {
                match fd_sat(&a, g) {
                    Some(true) => {}
                    Some(false) => {
                        all = false;
                        break;
                    }
                    None => return None,
                }
            }
            if all {
                let q: Vec<isize> = proj.iter().map(|i| a[*i]).collect();
                if !per_path[pi].contains(&q) {
                    per_path[pi].push(q);
                }
            }
        }
    }
    let mut res: Vec<Vec<isize>> = per_path.into_iter().flatten().collect();
    res.sort();
    Some(res)
}

/// the smallest window containing every domain value and constant of the program
pub fn window(body: &[PG]) -> (isize, isize) {
    fn term(t: &T, lo: &mut isize, hi: &mut isize) {
        match t {
            T::Num(n) => {
                *lo = (*lo).min(*n);
                *hi = (*hi).max(*n)
            }
            T::Cons(h, tl) => {
                term(h, lo, hi);
                term(tl, lo, hi)
            }
            T::Comp(_, a) => a.iter().for_each(|x| term(x, lo, hi)),
            _ => {}
        }
    }
    fn goal(g: &PG, lo: &mut isize, hi: &mut isize) {
        match g {
            PG::InFd(x, d) => {
                term(x, lo, hi);
                for v in d.values() {
                    *lo = (*lo).min(v);
                    *hi = (*hi).max(v)
                }
            }
            PG::PlusFd(a, b, c) | PG::MinusFd(a, b, c) | PG::TimesFd(a, b, c) | PG::PlusZ(a, b, c) | PG::TimesZ(a, b, c) => {
                term(a, lo, hi);
                term(b, lo, hi);
                term(c, lo, hi)
            }
            PG::LteFd(a, b) | PG::LtFd(a, b) | PG::DiseqFd(a, b) | PG::Eq(a, b) | PG::Neq(a, b) => {
                term(a, lo, hi);
                term(b, lo, hi)
            }
            PG::DistinctFd(a) => term(a, lo, hi),
            PG::Conj(gs) | PG::Disj(gs) | PG::Dfs(gs) => gs.iter().for_each(|x| goal(x, lo, hi)),
            PG::Conde(cs) => cs.iter().for_each(|c| c.iter().for_each(|x| goal(x, lo, hi))),
            PG::Fresh(b) => goal(b, lo, hi),
            _ => {}
        }
    }
    let (mut lo, mut hi) = (0, 0);
    body.iter().for_each(|g| goal(g, &mut lo, &mut hi));
    (lo, hi)
}

/// the integer tuple of an answer (None when some query variable is not an integer)
pub fn int_tuple(a: &Ans) -> Option<Vec<isize>> {
    a.terms
        .iter()
        .map(|t| match t {
            T::Num(n) => Some(*n),
            _ => None,
        })
        .collect()
}


/// WELL-FORMEDNESS OF A FINITE-DOMAIN PROGRAM ("every FD operand given a domain before labelling", as the generators guarantee): on every
/// path (one clause per disjunction) that contains a finite-domain goal, every variable that is an operand of an FD constraint and
/// every query variable has an `infd` on that path or occurs in an `==` of that path.  A shrunk or replayed case line that lost a
/// domain is OUTSIDE the FD properties (the real code panics with `unbound-domain` or reports a `_` variable for it on any tree):
/// the oracles do not judge it, so the shrinker cannot leave the property's domain.
pub fn fd_well_formed(p: &Prog) -> bool {
    fn paths<'a>(gs: &'a [PG], acc: Vec<Vec<&'a PG>>) -> Vec<Vec<&'a PG>> {
        let mut cur = acc;
        for g in gs {
            if cur.len() > 512 {
                return cur;
            }
            cur = match g {
                PG::Conj(b) => paths(b, cur),
                PG::Fresh(b) => paths(std::slice::from_ref(&**b), cur),
                PG::Conde(cs) => {
                    let mut next = vec![];
                    for c in cs {
                        next.extend(paths(c, cur.clone()));
                    }
                    next
                }
                PG::Disj(cs) => {
                    let mut next = vec![];
                    for c in cs {
                        next.extend(paths(std::slice::from_ref(c), cur.clone()));
                    }
                    next
                }
                atom => cur.into_iter().map(|mut v| { v.push(atom); v }).collect(),
            };
        }
        cur
    }
    let all = paths(&p.body, vec![vec![]]);
    let mut any_fd = false;
    for path in &all {
        let mut dom: Vec<usize> = vec![];
        let mut req: Vec<usize> = vec![];
        let mut fd = false;
        for a in path {
            match a {
                PG::InFd(x, _) => { fd = true; x.vars(&mut dom); }
                PG::Eq(x, y) => { x.vars(&mut dom); y.vars(&mut dom); }
                PG::PlusFd(x, y, z) | PG::MinusFd(x, y, z) | PG::TimesFd(x, y, z) => { fd = true; x.vars(&mut req); y.vars(&mut req); z.vars(&mut req); }
                PG::LteFd(x, y) | PG::LtFd(x, y) | PG::DiseqFd(x, y) => { fd = true; x.vars(&mut req); y.vars(&mut req); }
                PG::DistinctFd(l) => { fd = true; l.vars(&mut req); }
                _ => {}
            }
        }
        if fd {
            any_fd = true;
            req.extend(0..p.nq);
            if req.iter().any(|v| !dom.contains(v)) {
                return false;
            }
        }
    }
    any_fd
}
