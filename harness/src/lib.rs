//! pvharness (library part): runs the real proto-vulcan code on generated cases, canonicalises what each
//! property observes and evaluates the property with a model-independent oracle.
//!
//!   pvharness run <Cxx> <seed> <quick|thorough> <outdir>
//!   pvharness replay <Cxx> <outdir> < caselines     (one case line per stdin line)
pub mod c01;
pub mod c02;
pub mod c03;
pub mod c04;
pub mod c05;
pub mod c06;
pub mod c07;
pub mod c08;
pub mod c09;
pub mod c10;
pub mod c11;
pub mod c16;
pub mod c19;
pub mod c20;
pub mod c21;
pub mod c22;
pub mod c23;
pub mod c24;
pub mod fdgen;
pub mod search;
pub mod surf;
pub mod cmacro;
pub mod prog;
pub mod tree;
pub mod c18;
pub mod term;
pub mod out;
pub mod rng;


thread_local! {
    static MARK: std::cell::RefCell<Option<std::fs::File>> = std::cell::RefCell::new(
        std::env::var("PVH_MARK").ok().and_then(|p| std::fs::File::create(p).ok()));
}

/// Records the case about to be run (file named by env PVH_MARK), so that a run that dies with an
/// abort no `catch_unwind` can intercept (stack overflow on a cyclic term, allocation failure) still
/// names its input.
pub fn mark(line: &str) {
    use std::io::{Seek, SeekFrom, Write};
    LAST_MARK_MS.store(START.get_or_init(std::time::Instant::now).elapsed().as_millis() as u64 + 1, std::sync::atomic::Ordering::Relaxed);
    MARK.with(|m| {
        if let Some(f) = m.borrow_mut().as_mut() {
            let _ = f.seek(SeekFrom::Start(0));
            let _ = f.set_len(0);
            let _ = f.write_all(line.as_bytes());
        }
    });
}

static START: std::sync::OnceLock<std::time::Instant> = std::sync::OnceLock::new();
static LAST_MARK_MS: std::sync::atomic::AtomicU64 = std::sync::atomic::AtomicU64::new(0);

/// exit code of a run stopped by the watchdog
pub const HANG_EXIT: i32 = 124;

/// A case that runs longer than `limit_secs` of wall-clock time WITHOUT taking engine steps (the step budget
/// turns a diverging SEARCH into a reportable outcome; this catches loops outside the engine, e.g. walking a
/// cyclic substitution) ends the process with `HANG_EXIT`; the mark file names the case.
pub fn start_watchdog(limit_secs: u64) {
    let _ = START.get_or_init(std::time::Instant::now);
    std::thread::spawn(move || loop {
        std::thread::sleep(std::time::Duration::from_millis(500));
        let now = START.get().unwrap().elapsed().as_millis() as u64;
        let last = LAST_MARK_MS.load(std::sync::atomic::Ordering::Relaxed);
        if last > 0 && now.saturating_sub(last) > limit_secs * 1000 {
            eprintln!("WATCHDOG: the current case has been running for more than {} s", limit_secs);
            std::process::exit(HANG_EXIT);
        }
    });
}

thread_local! {
    /// message of the last caught panic
    pub static LAST_PANIC_MSG: std::cell::RefCell<String> = std::cell::RefCell::new(String::new());
}

/// the panic hook every harness binary installs: records location and message, prints nothing
pub fn install_panic_hook() {
    std::panic::set_hook(Box::new(|info| {
        let loc = info.location().map(|l| format!("{}:{}", l.file(), l.line())).unwrap_or_default();
        let msg = if let Some(s) = info.payload().downcast_ref::<&str>() {
            s.to_string()
        } else if let Some(s) = info.payload().downcast_ref::<String>() {
            s.clone()
        } else {
            String::new()
        };
        if std::env::var("PVH_VERBOSE").is_ok() {
            eprintln!("panic at {}: {}", loc, msg);
        }
        LAST_PANIC.with(|p| *p.borrow_mut() = loc);
        LAST_PANIC_MSG.with(|p| *p.borrow_mut() = msg);
    }));
}

/// panic site enum shared with the Lean model (`Res.panic site`), derived from the panic message
pub fn canon_site(msg: &str, loc: &str) -> &'static str {
    if msg.contains("Cannot project non-Projection") {
        "project"
    } else if msg.contains("LTerm::Projection") {
        "projection-eq-hash"
    } else if msg.contains("divide by zero") || msg.contains("divisor of zero") {
        "div-zero"
    } else if msg.contains("empty finite domain") {
        "empty-domain"
    } else if msg.contains("Invalid constant constraint") {
        "distinctfd-const"
    } else if msg.contains("Invalid value") {
        "distinctfd-value"
    } else if msg.contains("Invalid LTerm") || (loc.contains("distinctfd.rs") && msg.contains("Cannot")) {
        "distinctfd-term"
    } else if msg.starts_with("assertion failed") && (loc.contains("clpfd") || loc.contains("clpz")) {
        "assert-operand"
    } else if loc.contains("state/mod.rs") {
        "unbound-domain"
    } else if msg.contains("Improper list must have") {
        "improper-empty"
    } else if msg.contains("Only list type") {
        "extend-nonlist"
    } else if msg.contains("Option::unwrap()") {
        "unwrap-none"
    } else if msg.contains("overflow") {
        "overflow"
    } else {
        "other"
    }
}

thread_local! {
    pub static LAST_PANIC: std::cell::RefCell<String> = std::cell::RefCell::new(String::new());
}

/// Runs `f`, mapping a panic to `Err(site)` where site is `file:line` of the panic.
pub fn catch<T>(f: impl FnOnce() -> T) -> Result<T, String> {
    match std::panic::catch_unwind(std::panic::AssertUnwindSafe(f)) {
        Ok(v) => Ok(v),
        Err(p) => {
            if p.downcast_ref::<proto_vulcan::verif::BudgetExhausted>().is_some() {
                Err("BUDGET".to_string())
            } else {
                Err(LAST_PANIC.with(|p| p.borrow().clone()))
            }
        }
    }
}
