//! C20 — compound terms unify, constrain, reify and label structurally.
//!
//! Programs over three real compound types (a Rust tuple, a `#[compound]` tuple struct, a `#[compound]`
//! named struct), nested in each other and in lists, mixed with literals:
//!   * ==/!= programs: oracle = brute-force ground solutions over a universe that contains a compound
//!     (both inclusions, as C02) AND an independent Robinson solver that treats compounds structurally
//!     (terms, sharing, closedness, relevant constraints, as C03);
//!   * FD programs whose query term is a compound / nested compound / list-in-compound of FD variables:
//!     oracle = brute force (every solution exactly once, every answer a solution, as C16/C17).
use crate::c16;
use crate::fdgen::FdGen;
use crate::out::Out;
use crate::prog::*;
use crate::rng::Rng;
use crate::term::*;
use crate::tree::*;

fn comp_term(r: &mut Rng, nv: usize, depth: usize) -> T {
    let leaf = |r: &mut Rng| match r.below(5) {
        0 | 1 => T::Var(r.below(nv)),
        2 => T::Nil,
        _ => T::Num(r.range(1, 3) as isize),
    };
    if depth == 0 {
        return leaf(r);
    }
    match r.below(8) {
        // the same with the Option field AFTER the term field (`Tols(LTerm, Option<P3>)`: reification and walks that
        // treat non-term children separately must keep what they did for the earlier field — seeded change C20-g)
        7 => {
            let opt = if r.chance(1, 2) {
                T::Comp(4, vec![])
            } else {
                T::Comp(4, vec![T::Comp(1, (0..3).map(|_| comp_term(r, nv, depth - 1)).collect())])
            };
            T::Comp(5, vec![if r.chance(1, 2) { T::Var(r.below(nv)) } else { comp_term(r, nv, depth - 1) }, opt])
        }
        // a compound with an `Option` field: `Slot(Some(P3(a, b, c)), t)` / `Slot(None, t)` — the Option object has one
        // child or none, so two objects of the SAME type can have different numbers of children
        6 => {
            let opt = if r.chance(1, 2) {
                T::Comp(4, vec![])
            } else {
                T::Comp(4, vec![T::Comp(1, (0..3).map(|_| comp_term(r, nv, depth - 1)).collect())])
            };
            T::Comp(3, vec![opt, comp_term(r, nv, depth - 1)])
        }
        0 | 1 | 2 => {
            let tag = r.below(3);
            T::Comp(tag, (0..arity(tag)).map(|_| comp_term(r, nv, depth - 1)).collect())
        }
        3 => T::list((0..1 + r.below(2)).map(|_| comp_term(r, nv, depth - 1)).collect()),
        4 => T::cons(comp_term(r, nv, depth - 1), T::Var(r.below(nv))),
        _ => leaf(r),
    }
}

fn tree_prog(r: &mut Rng) -> Prog {
    let nq = 1 + r.below(2);
    let nv = nq + r.below(3);
    let n = 1 + r.below(5);
    let mut body: Vec<PG> = vec![];
    for _ in 0..n {
        let a = if r.chance(1, 2) { T::Var(r.below(nv)) } else { comp_term(r, nv, 2) };
        // the other side: often the same shape with holes (so that field-wise unification happens),
        // sometimes another compound type / a list of the same fields / a literal (must never unify)
        let b = match (&a, r.below(6)) {
            // a Slot against a Slot: the Option field flipped (Some vs None must never unify) or its fields varied; the
            // Option field itself is not a term, so it is never replaced by a variable
            (T::Comp(5, args), _) => {
                let opt = match &args[1] {
                    T::Comp(4, k) if k.is_empty() => {
                        if r.chance(1, 2) { T::Comp(4, vec![T::Comp(1, (0..3).map(|_| comp_term(r, nv, 1)).collect())]) } else { args[1].clone() }
                    }
                    T::Comp(4, k) => {
                        if r.chance(1, 3) {
                            T::Comp(4, vec![])
                        } else if let T::Comp(1, abc) = &k[0] {
                            T::Comp(4, vec![T::Comp(1, abc.iter().map(|x| if r.chance(1, 2) { T::Var(r.below(nv)) } else { x.clone() }).collect())])
                        } else {
                            args[1].clone()
                        }
                    }
                    other => other.clone(),
                };
                T::Comp(5, vec![if r.chance(1, 2) { T::Var(r.below(nv)) } else { args[0].clone() }, opt])
            }
            (T::Comp(3, args), _) => {
                let opt = match &args[0] {
                    T::Comp(4, k) if k.is_empty() => {
                        if r.chance(1, 2) { T::Comp(4, vec![T::Comp(1, (0..3).map(|_| comp_term(r, nv, 1)).collect())]) } else { args[0].clone() }
                    }
                    T::Comp(4, k) => {
                        if r.chance(1, 3) {
                            T::Comp(4, vec![])
                        } else if let T::Comp(1, abc) = &k[0] {
                            T::Comp(4, vec![T::Comp(1, abc.iter().map(|x| if r.chance(1, 2) { T::Var(r.below(nv)) } else { x.clone() }).collect())])
                        } else {
                            args[0].clone()
                        }
                    }
                    other => other.clone(),
                };
                T::Comp(3, vec![opt, if r.chance(1, 2) { T::Var(r.below(nv)) } else { args[1].clone() }])
            }
            (T::Comp(tag, args), 0) => T::Comp((*tag + 1) % 3, args.iter().take(arity((*tag + 1) % 3)).cloned().chain(std::iter::repeat(T::Num(1))).take(arity((*tag + 1) % 3)).collect()),
            (T::Comp(_, args), 1) => T::list(args.clone()),
            (T::Comp(tag, args), 2) | (T::Comp(tag, args), 3) => T::Comp(*tag, args.iter().map(|x| if r.chance(1, 2) { T::Var(r.below(nv)) } else { x.clone() }).collect()),
            _ => comp_term(r, nv, 2),
        };
        body.push(if r.chance(2, 3) { PG::Eq(a, b) } else { PG::Neq(a, b) });
    }
    if r.chance(1, 4) {
        let c1 = vec![PG::Eq(T::Var(r.below(nv)), comp_term(r, nv, 1))];
        let c2 = vec![PG::Neq(T::Var(r.below(nv)), comp_term(r, nv, 1))];
        body.push(PG::Conde(vec![c1, c2]));
    }
    Prog { nvars: nv, nq, take: 0, body, raw: false }
}

fn fd_prog(r: &mut Rng) -> Prog {
    let nv = 2 + r.below(2);
    let g = FdGen { nv, lo: -2, hi: 3, signs: r.chance(1, 2) };
    let k = r.below(3);
    let body = g.conj(r, k);
    // shift the FD variables by one: v0 becomes the structured query variable
    let shift = |t: &T| t.subst(&|x| match x { T::Var(k) => Some(T::Var(k + 1)), _ => None });
    let body: Vec<PG> = body.iter().map(|g| c16::shift_goal(g, &shift)).collect();
    let vs: Vec<T> = (1..=nv).map(T::Var).collect();
    let s = match r.below(6) {
        // FD variables inside an `Option` field of a compound (a compound object nested in a compound object)
        5 => T::Comp(3, vec![T::Comp(4, vec![T::Comp(1, vec![vs[0].clone(), T::Num(7), vs[1].clone()])]), T::list(vs[1..].to_vec())]),
        0 => T::Comp(0, vec![vs[0].clone(), vs[1].clone()]),
        1 => T::Comp(2, vec![T::Comp(0, vec![vs[0].clone(), T::Num(0)]), T::list(vs[1..].to_vec())]),
        2 => T::Comp(1, vec![T::list(vs.clone()), T::Num(7), T::Comp(0, vec![vs[0].clone(), vs[0].clone()])]),
        3 => T::list(vec![T::Comp(2, vec![vs[0].clone(), T::Comp(2, vec![vs[1].clone(), T::Nil])])]),
        _ => T::Comp(0, vec![T::Comp(0, vec![T::Comp(0, vec![vs[0].clone(), vs[1].clone()]), T::Num(1)]), T::Num(2)]),
    };
    // variables of the pool that are not in the term stay hidden FD variables
    let mut b = vec![PG::Eq(T::Var(0), s)];
    b.extend(body);
    Prog { nvars: nv + 1, nq: 1, take: 0, body: b, raw: false }
}

fn record_tree(p: &Prog, out: &mut Out) {
    let (line, f1, nt, fuel) = crate::c02::eval(p, None);
    let (_, f2, _, _) = crate::c03::eval(p);
    out.push(p.line_f(fuel), line, f1.or(f2), nt);
}

fn record_fd(p: &Prog, out: &mut Out) {
    let (line, f1, nt, fuel) = c16::eval(p, 16);
    let (_, f2, _, _) = c16::eval(p, 17);
    out.push(p.line_f(fuel), line, f1.or(f2), nt);
}

pub fn replay(line: &str, out: &mut Out) {
    let p = Prog::parse(line);
    if line.contains("fd ") {
        record_fd(&p, out);
    } else {
        record_tree(&p, out);
    }
}

fn corpus() -> Vec<&'static str> {
    vec![
        "prog 2 1 0 - eq v0 comp0 cons i1 cons v1 nil neq v1 i3",
        "prog 2 2 0 - eq comp0 cons v0 cons i2 nil comp0 cons i1 cons v1 nil",
        "prog 1 1 0 - eq comp0 cons i1 cons i2 nil comp2 cons i1 cons i2 nil",
        "prog 1 1 0 - eq comp0 cons v0 cons i2 nil cons v0 cons i2 nil",
        "prog 1 1 0 - eq v0 comp1 cons i1 cons comp0 cons v0 cons i2 nil cons i3 nil",
        "prog 2 2 0 - neq comp2 cons v0 cons v1 nil comp2 cons i1 cons i2 nil eq v0 i1",
        "prog 3 1 0 - eq v0 comp2 cons comp0 cons v1 cons i0 nil cons cons v2 nil nil infd v1 I 0 2 infd v2 I 0 1",
        "prog 3 1 0 - eq v0 comp0 cons v1 cons v2 nil infd v1 I 0 1 infd v2 I 0 1 ltfd v1 v2",
    ]
}

pub fn run(seed: u64, thorough: bool, out: &mut Out) {
    for l in corpus() {
        out.stat("corpus");
        replay(l, out);
    }
    let n = if thorough { 20000 } else { 1200 };
    for i in 0..n {
        let mut r = Rng::new(seed, 20, i);
        if r.chance(2, 3) {
            out.stat("tree_programs");
            record_tree(&tree_prog(&mut r), out);
        } else {
            out.stat("fd_programs_with_compound_query_term");
            record_fd(&fd_prog(&mut r), out);
        }
    }
}
