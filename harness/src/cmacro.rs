//! C12 (macro part), C13, C14, C15 — properties about the proc-macro front end.
//!
//! `gen`: writes `generated.rs` (one function per case, the program as SURFACE SYNTAX inside
//! `proto_vulcan!`) and `macro_cases.txt` (per case: property, take, the reference program as a `prog`
//! line obtained by the reference elaboration of surf.rs, and — for C15 — the index of the case it must
//! agree with).  The `macrocases` crate compiles `generated.rs` against the current tree and calls
//! `run_cases` below: each macro-built goal is run through the same query wrapper as every other check;
//! the oracle is the goal built from the reference program through the runtime API (answer SEQUENCES must
//! coincide), and for C15 the alpha-renamed twin.
use crate::out::Out;
use crate::prog::*;
use crate::rng::Rng;
use crate::surf::*;
use crate::term::*;
use proto_vulcan::goal::Goal;

pub struct MCase {
    pub prop: String,
    pub case: Case,
    /// C15: index of the original this case is an alpha-variant of
    pub twin_of: Option<usize>,
}

fn kinds_for(prop: &str) -> Kinds {
    match prop {
        "C13" => Kinds { fresh: true, closure: false, matches: true, committed: true, calls: true },
        "C14" => Kinds { fresh: true, closure: true, matches: false, committed: true, calls: true },
        "C15" => Kinds { fresh: true, closure: true, matches: true, committed: false, calls: true },
        _ => Kinds { fresh: true, closure: false, matches: false, committed: false, calls: true },
    }
}

fn gen_case(prop: &str, r: &mut Rng) -> Case {
    // query variables deliberately share names with the pool the binders draw from (shadowing)
    let g = SurfGen { names: vec!["x", "y", "z", "h", "t"] };
    let qn: Vec<String> = match r.below(3) {
        0 => vec!["x".into()],
        1 => vec!["x".into(), "y".into()],
        _ => vec!["q".into(), "x".into()],
    };
    let mut scope = qn.clone();
    let kinds = kinds_for(prop);
    let mut colls = vec![];
    let body = match prop {
        "C12" => {
            // for x in coll { body }: elements are literals and query variables named outside the binder pool
            let qn2: Vec<String> = vec!["qa".into(), "qb".into()];
            scope = qn2.clone();
            let n = r.below(4);
            let els: Vec<ST> = (0..n)
                .map(|_| match r.below(6) {
                    0 => ST::Var(r.pick(&qn2).clone()),
                    1 => ST::List(vec![ST::Num(r.range(1, 2) as isize)]),
                    // an element that is itself the EMPTY list (the iterator's end-of-list look-ahead must look at the TAIL:
                    // seeded change C12-m stopped after an element `[]`), and a nested list ending in one
                    2 => ST::List(vec![]),
                    3 => ST::List(vec![ST::List(vec![]), ST::Num(r.range(1, 2) as isize)]),
                    _ => ST::Num(r.range(1, 3) as isize),
                })
                .collect();
            // every element counts, also an element equal to its neighbour (the same variable, the same literal), and the body
            // is instantiated once per element: a body with two answers makes the number of elements visible (seeded change C12-a)
            let mut els = els;
            let dup = r.chance(1, 3);
            if dup && !els.is_empty() {
                let i = r.below(els.len());
                let e = els[i].clone();
                els.insert(i, e);
            }
            colls.push(els);
            let lv = "e".to_string();
            scope.push(lv.clone());
            let nb = 1 + r.below(2);
            let mut b: Vec<SG> = (0..nb).map(|_| g.goal(r, &mut scope, 1, &kinds)).collect();
            if dup || r.chance(1, 4) {
                let k = r.range(1, 3) as isize;
                b.insert(0, SG::Op("conde", vec![vec![SG::Eq(ST::Var(lv.clone()), ST::Num(k))], vec![SG::True]]));
            }
            scope.pop();
            let mut gs = vec![SG::For(lv, 0, b)];
            if r.chance(1, 2) {
                gs.insert(0, g.goal(r, &mut scope, 1, &kinds));
            }
            return Case { qnames: qn2, colls, body: SG::Conj(gs), take: 0 };
        }
        "C13" => {
            let mut gs = vec![];
            if r.chance(1, 2) {
                gs.push(g.goal(r, &mut scope, 1, &Kinds { matches: false, ..kinds }));
            }
            gs.push(g.match_goal(r, &mut scope, 2, &kinds));
            SG::Conj(gs)
        }
        _ => {
            let n = 1 + r.below(3);
            let mut gs: Vec<SG> = (0..n).map(|_| g.goal(r, &mut scope, 3, &kinds)).collect();
            if kinds.closure && r.chance(1, 3) {
                // `closure { }` captures its variables by move (the documented ownership rule), so it is
                // generated only as the last goal of the top-level conjunction and never nested
                let inner = Kinds { closure: false, ..kinds };
                let b: Vec<SG> = (0..1 + r.below(2)).map(|_| g.goal(r, &mut scope, 2, &inner)).collect();
                // C14, C15: half of them as ONE closure value used twice in a row (each use is its own invocation:
                // `closure { .. }` has its body's answers every time it is solved — seeded changes C15-g, C14-i)
                if (prop == "C15" || prop == "C14") && r.chance(1, 2) {
                    let k = Kinds { closure: false, fresh: true, ..kinds };
                    let mut b2: Vec<SG> = vec![];
                    // a body that introduces a fresh variable and can place it in more than one way
                    let q = ST::Var(r.pick(&scope).clone());
                    b2.push(SG::Fresh(vec!["yy".into()], vec![SG::Op("conde", vec![
                        vec![SG::Eq(q.clone(), ST::Improper(vec![ST::Var("yy".into())], Box::new(ST::Any))), SG::Eq(ST::Var("yy".into()), ST::Num(1))],
                        vec![SG::Eq(q, ST::Improper(vec![ST::Any, ST::Var("yy".into())], Box::new(ST::Any))), SG::Eq(ST::Var("yy".into()), ST::Num(2))],
                    ])]));
                    if r.chance(1, 2) {
                        b2.push(g.goal(r, &mut scope, 1, &k));
                    }
                    gs.push(SG::Twice(b2));
                } else {
                    gs.push(SG::Closure(b));
                }
            }
            SG::Conj(gs)
        }
    };
    Case { qnames: qn, colls, body, take: 0 }
}

/// the generated cases of one property
pub fn cases(prop: &str, seed: u64, thorough: bool) -> Vec<MCase> {
    let n = if thorough { 900 } else { 140 };
    let mut v = vec![];
    let pid: u64 = prop[1..].parse().unwrap();
    for i in 0..n {
        let mut r = Rng::new(seed, 100 + pid, i);
        let c = gen_case(prop, &mut r);
        if prop == "C15" {
            let nb = c.body.binders();
            if nb == 0 {
                continue;
            }
            let orig = v.len();
            v.push(MCase { prop: prop.into(), case: c.clone(), twin_of: None });
            // one alpha-variant per case: rename the k-th binder to a name used nowhere
            let k = r.below(nb);
            let mut ctr = 0;
            let body = c.body.alpha(&mut ctr, k, "fresh_name_9");
            v.push(MCase { prop: prop.into(), case: Case { body, ..c }, twin_of: Some(orig) });
        } else {
            v.push(MCase { prop: prop.into(), case: c, twin_of: None });
        }
    }
    v
}

/// hand-written cases that run first
pub fn corpus(prop: &str) -> Vec<MCase> {
    let v = |s: &str| ST::Var(s.to_string());
    let n = |k: isize| ST::Num(k);
    let mk = |qn: &[&str], body: SG| MCase { prop: prop.to_string(), case: Case { qnames: qn.iter().map(|s| s.to_string()).collect(), colls: vec![], body, take: 0 }, twin_of: None };
    match prop {
        "C13" => {
            let arm = |ps: Vec<ST>, body: Vec<SG>| (ps, body, false);
            vec![
                // a pattern variable named like the matched term's variable does not capture it
                mk(&["x"], SG::Match("match", v("x"), vec![arm(vec![ST::Improper(vec![v("x")], Box::new(ST::Any))], vec![SG::Eq(v("x"), n(1))])])),
                // a name repeated within one pattern is one variable
                mk(&["x", "y"], SG::Match("match", v("x"), vec![arm(vec![ST::List(vec![v("h"), v("h")])], vec![SG::Eq(v("h"), v("y"))])])),
                // alternatives and an empty body
                mk(&["x"], SG::Match("match", v("x"), vec![arm(vec![ST::List(vec![]), ST::List(vec![ST::Any])], vec![]), arm(vec![ST::Improper(vec![ST::Any, ST::Any], Box::new(v("t")))], vec![SG::Eq(v("t"), ST::List(vec![]))])])),
                // committed choice on arms
                mk(&["x", "y"], SG::Conj(vec![SG::Call("member", vec![v("x"), ST::List(vec![n(1), n(2)])]), SG::Match("matcha", v("x"), vec![arm(vec![n(1)], vec![SG::Eq(v("y"), n(10))]), arm(vec![ST::Any], vec![SG::Eq(v("y"), n(20))])])])),
                mk(&["x", "y"], SG::Match("matchu", ST::List(vec![v("x"), v("y")]), vec![arm(vec![ST::List(vec![v("h"), ST::Any])], vec![SG::Call("member", vec![v("h"), ST::List(vec![n(1), n(2)])])]), arm(vec![ST::Any], vec![])])),
                // a list pattern written in TAIL position binds its names like any other pattern (C13-m)
                mk(&["q", "b"], SG::Conj(vec![SG::Eq(v("b"), n(5)), SG::Match("match", v("q"), vec![arm(vec![ST::Improper(vec![v("a")], Box::new(ST::List(vec![v("b")])))], vec![SG::Eq(v("a"), n(1)), SG::Eq(v("b"), n(7))])])])),
                mk(&["q", "x"], SG::Conj(vec![SG::Eq(v("x"), n(9)), SG::Match("matche", v("q"), vec![arm(vec![ST::Improper(vec![v("y")], Box::new(ST::Improper(vec![v("x")], Box::new(ST::Any))))], vec![SG::Eq(v("y"), v("x")), SG::Eq(v("x"), n(2))])])])),
                // `_` directly as an argument of an UNNAMED compound pattern is a wildcard, in every position and every compound kind (C13-i)
                mk(&["x", "y"], SG::Conj(vec![SG::Eq(v("x"), ST::Comp(1, vec![n(1), n(2), n(3)])), SG::Match("match", v("x"), vec![arm(vec![ST::Comp(1, vec![ST::Any, v("b"), ST::Any])], vec![SG::Eq(v("y"), ST::List(vec![n(2), v("b")]))]), arm(vec![ST::Comp(1, vec![v("a"), ST::Any, ST::Any])], vec![SG::Eq(v("y"), ST::List(vec![n(1), v("a")]))])])])),
                mk(&["x", "y"], SG::Conj(vec![SG::Eq(v("x"), ST::Comp(1, vec![n(1), ST::List(vec![n(2)]), n(3)])), SG::Match("matche", v("x"), vec![arm(vec![ST::Comp(1, vec![ST::Any, ST::Any, v("c")])], vec![SG::Eq(v("y"), v("c"))]), arm(vec![ST::Comp(1, vec![v("a"), ST::Any, ST::Any])], vec![SG::Eq(v("y"), v("a"))])])])),
                mk(&["x", "y"], SG::Match("match", v("x"), vec![arm(vec![ST::Comp(1, vec![ST::Any, v("b"), ST::Any])], vec![SG::Eq(v("b"), n(5)), SG::Eq(v("y"), v("x"))])])),
            ]
        }
        "C14" => vec![
            mk(&["x", "y"], SG::Conj(vec![SG::Eq(v("x"), ST::Improper(vec![n(1), ST::List(vec![n(2), ST::Any])], Box::new(v("y")))), SG::Neq(v("y"), ST::List(vec![]))])),
            mk(&["x"], SG::Op("conde", vec![vec![SG::Eq(v("x"), ST::Chr('a'))], vec![SG::Eq(v("x"), ST::Str(1)), SG::True], vec![SG::False]])),
            // a statically true clause in the MIDDLE of a disjunction: every clause has its answers (C14-m, C07-m, C06-m)
            mk(&["x"], SG::Op("conde", vec![vec![SG::Eq(v("x"), n(1))], vec![SG::True], vec![SG::Eq(v("x"), n(2))]])),
            mk(&["x", "y"], SG::Op("conde", vec![vec![SG::Eq(v("x"), n(1))], vec![SG::True, SG::True], vec![SG::Eq(v("y"), n(2))], vec![SG::Eq(v("x"), n(3)), SG::Eq(v("y"), n(3))]])),
            mk(&["x"], SG::Op("conde", vec![vec![SG::True], vec![SG::True]])),
            mk(&["q", "x"], SG::Fresh(vec!["x".into()], vec![SG::Eq(v("x"), n(1)), SG::Eq(v("q"), ST::List(vec![v("x"), ST::Bool(true)]))])),
            mk(&["x"], SG::Conj(vec![SG::Closure(vec![SG::Eq(v("x"), n(1)), SG::Op("conde", vec![vec![SG::True], vec![SG::True]])])])),
            mk(&["x", "y"], SG::Conj(vec![SG::Eq(ST::List(vec![]), v("x")), SG::Eq(v("y"), ST::List(vec![ST::List(vec![])]))])),
            // a written tail that is a list literal denotes the longer list (C14-k)
            mk(&["x", "y"], SG::Conj(vec![SG::Eq(v("x"), ST::Improper(vec![n(1), n(2)], Box::new(ST::List(vec![])))), SG::Eq(v("y"), ST::Improper(vec![v("x")], Box::new(ST::List(vec![n(3)]))))])),
            mk(&["x"], SG::Conj(vec![SG::Neq(v("x"), ST::Improper(vec![n(1)], Box::new(ST::List(vec![])))), SG::Op("conde", vec![vec![SG::Eq(v("x"), ST::List(vec![n(1)]))], vec![SG::Eq(v("x"), ST::List(vec![n(1), ST::List(vec![])]))]])])),
        ],
        "C15" => {
            let arm = |ps: Vec<ST>, body: Vec<SG>| (ps, body, false);
            vec![
                // a pattern variable named like the matched term does not capture it (C15-a); its renamed twin is generated
                mk(&["x"], SG::Match("match", v("x"), vec![arm(vec![ST::Improper(vec![v("x")], Box::new(ST::Any))], vec![SG::Eq(v("x"), n(1))])])),
                mk(&["x", "y"], SG::Conj(vec![SG::Eq(v("x"), ST::List(vec![n(1), n(2)])), SG::Match("matche", v("x"), vec![arm(vec![ST::List(vec![v("x"), v("y")])], vec![SG::Eq(v("x"), n(1))])])])),
                // an unbound fresh variable as the OPEN TAIL of a list answer is reported as a `_` variable (C15-m)
                mk(&["q"], SG::Fresh(vec!["x".into()], vec![SG::Eq(v("q"), ST::Improper(vec![n(1)], Box::new(v("x"))))])),
                mk(&["q"], SG::Fresh(vec!["x".into(), "y".into()], vec![SG::Eq(v("q"), ST::Improper(vec![v("x"), ST::List(vec![n(2)])], Box::new(v("y")))), SG::Neq(v("x"), n(1))])),
                mk(&["q"], SG::Call("append", vec![ST::List(vec![n(1), n(2)]), v("q"), ST::Improper(vec![n(1), n(2), n(0)], Box::new(ST::Any))])),
                // a fresh clause nested DIRECTLY in another fresh clause's body re-using a visible name is its own variable (C15-i)
                mk(&["q"], SG::Fresh(vec!["x".into()], vec![SG::Eq(v("x"), n(1)), SG::Fresh(vec!["x".into()], vec![SG::Eq(v("x"), n(2))]), SG::Eq(v("q"), v("x"))])),
                mk(&["q"], SG::Fresh(vec!["x".into(), "y".into()], vec![SG::Fresh(vec!["x".into()], vec![SG::Eq(v("x"), ST::List(vec![v("y")]))]), SG::Eq(v("y"), n(7)), SG::Eq(v("q"), ST::List(vec![v("x"), v("y")]))])),
                mk(&["q"], SG::Fresh(vec!["y".into()], vec![SG::Eq(v("y"), ST::List(vec![v("q")])), SG::Fresh(vec!["q".into()], vec![SG::Eq(v("q"), n(0))]), SG::Neq(v("y"), ST::List(vec![n(0)]))])),
            ]
        }
        "C12" => {
            // repeated neighbours in the collection, a body with two answers per element (C12-a)
            let two = |k: isize| SG::Op("conde", vec![vec![SG::Eq(v("e"), n(k))], vec![SG::True]]);
            let mkc = |colls: Vec<Vec<ST>>, body: SG| MCase { prop: prop.to_string(), case: Case { qnames: vec!["qa".into(), "qb".into()], colls, body, take: 0 }, twin_of: None };
            vec![
                mkc(vec![vec![v("qa"), v("qa")]], SG::Conj(vec![SG::For("e".into(), 0, vec![two(1)])])),
                mkc(vec![vec![n(7), n(7), n(3)]], SG::Conj(vec![SG::For("e".into(), 0, vec![SG::Op("conde", vec![vec![SG::Eq(v("qa"), n(5))], vec![SG::Eq(v("e"), v("e"))]])])])),
                mkc(vec![vec![v("qa"), v("qb"), v("qb")]], SG::Conj(vec![SG::For("e".into(), 0, vec![two(2), SG::Neq(v("e"), n(3))])])),
                // a body of several clauses one of which (not the first) is the literal `true`: the clauses before it count (C12-k)
                mkc(vec![vec![n(1), n(2)]], SG::Conj(vec![SG::Op("conde", vec![vec![SG::Eq(v("qa"), n(1))], vec![SG::Eq(v("qa"), n(3))]]), SG::For("e".into(), 0, vec![SG::Neq(v("qa"), v("e")), SG::True])])),
                mkc(vec![vec![v("qb"), n(2)]], SG::Conj(vec![SG::For("e".into(), 0, vec![SG::Eq(v("qa"), n(4)), SG::True, SG::Neq(v("e"), n(2))])])),
                // an element `[]` in the middle of the collection: the elements after it count too (C12-m)
                mkc(vec![vec![n(1), ST::List(vec![]), n(2)]], SG::Conj(vec![SG::Op("conde", vec![vec![SG::Eq(v("qa"), n(1))], vec![SG::Eq(v("qa"), n(2))], vec![SG::Eq(v("qa"), n(3))]]), SG::For("e".into(), 0, vec![SG::Neq(v("qa"), v("e"))])])),
                mkc(vec![vec![ST::List(vec![]), v("qa")]], SG::Conj(vec![SG::For("e".into(), 0, vec![SG::Neq(v("e"), n(2)), two(1)])])),
            ]
        }
        _ => vec![],
    }
}

pub fn all_cases(props: &[&str], seed: u64, thorough: bool) -> Vec<MCase> {
    let mut v = vec![];
    for p in props {
        let base = v.len();
        let mut c = corpus(p);
        c.extend(cases(p, seed, thorough));
        for mut m in c {
            if let Some(t) = m.twin_of {
                m.twin_of = Some(t + base + corpus(p).len());
            }
            v.push(m);
        }
    }
    v
}

/// writes generated.rs and macro_cases.txt
pub fn generate(props: &[&str], seed: u64, thorough: bool, src_path: &str, list_path: &str) -> std::io::Result<usize> {
    let cs = all_cases(props, seed, thorough);
    let mut src = String::new();
    let mut list = String::new();
    for (i, m) in cs.iter().enumerate() {
        src.push_str(&m.case.source(i));
        let (nvars, nq, body) = match std::panic::catch_unwind(|| m.case.elaborate()) {
            Ok(x) => x,
            Err(_) => {
                eprintln!("elaboration failed for {}: {}", m.prop, m.case.body.print());
                std::process::exit(3);
            }
        };
        let p = Prog { nvars, nq, take: m.case.take, body, raw: false };
        let (sl, se) = m.case.lean_line().unwrap_or(("-".into(), "-".into()));
        list.push_str(&format!("{}\t{}\t{}\t{}\t{}\t{}\n", m.prop, m.twin_of.map(|t| t as isize).unwrap_or(-1), p.line(), m.case.body.print().replace('\t', " ").replace('\n', " "), sl, se));
    }
    src.push_str(&format!("pub const NCASES: usize = {};\n", cs.len()));
    src.push_str("pub fn case(i: usize, vars: &Vars) -> Goal<DU, DE> {\n    match i {\n");
    for i in 0..cs.len() {
        src.push_str(&format!("        {} => case_{}(vars).goal,\n", i, i));
    }
    src.push_str("        _ => unreachable!(),\n    }\n}\n");
    std::fs::write(src_path, src)?;
    std::fs::write(list_path, list)?;
    Ok(cs.len())
}

/// called by the `macrocases` binary: run every compiled case of property `prop`
pub fn run_cases(prop: &str, list_path: &str, outdir: &str, case_fn: &dyn Fn(usize, &Vars) -> Goal<DU, DE>) {
    let list = std::fs::read_to_string(list_path).expect("macro_cases.txt");
    let rows: Vec<Vec<String>> = list.lines().map(|l| l.split('\t').map(|s| s.to_string()).collect()).collect();
    let mut out = Out::new();
    let mut shown: Vec<Option<String>> = vec![None; rows.len()];
    for (i, row) in rows.iter().enumerate() {
        let p = Prog::parse(&row[2]);
        // the macro-built goal, run through the standard query wrapper
        let vars = Vars::new(p.nvars);
        let qvars: Vec<LT> = vars.v[..p.nq].to_vec();
        crate::mark(&format!("macro case {}: {}", i, row[3]));
        let goal = match crate::catch(|| case_fn(i, &vars)) {
            Ok(g) => g,
            Err(s) => {
                if row[0] == prop {
                    out.push(row[2].clone(), format!("PANIC {}", s), Some(format!("building the goal panicked: {}", row[3])), true);
                }
                continue;
            }
        };
        let mo = run_goal(&vars, &qvars, goal, p.take, BUDGET);
        let fuel = model_fuel(&mo);
        let line = show_run(&mo, false);
        shown[i] = Some(line.clone());
        if row[0] != prop {
            continue;
        }
        // oracle 1: the reference elaboration built through the runtime API
        let ro = run_prog(&p);
        let rline = show_run(&ro, false);
        let mut fail = None;
        // the properties speak about the answers as a multiset: compare sorted (the exact sequence is what the
        // model correspondence compares); runs cut short by the budget are not comparable
        let ms = |l: &str| {
            let mut v: Vec<String> = l.split(" || ").map(|x| x.to_string()).collect();
            v.sort();
            v
        };
        let cut = line.ends_with("BUDGET") || rline.ends_with("BUDGET");
        if !cut && ms(&rline) != ms(&line) {
            fail = Some(format!("the macro expansion of `{}` behaves differently from its documented meaning (reference program built through the runtime API): macro {} | reference {}", row[3], line, rline));
        }
        // oracle 3 (independent of the engine's constraint code): for programs that elaborate to ==, !=, conjunction,
        // conde and fresh only, the ground instances of the MACRO-built program's answers are exactly the brute-force
        // ground solutions of the documented meaning (both inclusions, as C02) — a defect in a goal CONSTRUCTOR, which
        // the reference program shares with the macro expansion, shows here
        if fail.is_none() && !cut && p.nq <= 3 && crate::c02::pure_tree(&p.body) {
            if let RunOut::Answers(a, _) = &mo {
                let sols = crate::tree::solutions(&p);
                out.stat("brute_force_semantics_checked");
                if let Some(f) = crate::c02::check_answers(p.nq, a, &sols) {
                    fail = Some(format!("`{}`: {} (brute-force ground semantics of the documented meaning)", row[3], f));
                }
            }
        }
        // oracle 4 (independent of the OPERATORS' code: the harness's own interpreter of the documented meaning, search.rs): for
        // finite programs it can evaluate, the answers' TERMS are the same multiset — also the NUMBER of answers, which the
        // ground-instance oracle cannot see (seeded change C14-m: `Conde::solve` overwrote the stream at a statically-true
        // middle clause, `conde { q == 1, true, q == 2 }` lost its last answer; the reference program shares `Conde`)
        if fail.is_none() && !cut && p.take == 0 {
            // (the interpreter panics on goal kinds it does not know: then this oracle does not apply)
            if let (RunOut::Answers(a, false), Ok(Some(want))) = (&mo, crate::catch(|| crate::search::ref_answers(&p, 12))) {
                let strip = |v: Vec<String>| -> Vec<String> {
                    let mut w: Vec<String> = v.iter().map(|x| x.split(" @ ").next().unwrap_or("").trim().to_string()).collect();
                    w.sort();
                    w
                };
                let got: Vec<String> = a.iter().map(|x| x.show("")).collect();
                out.stat("independent_interpreter_checked");
                if strip(got.clone()) != strip(want.clone()) {
                    fail = Some(format!("`{}`: the answers' terms differ from the documented meaning evaluated by the independent interpreter: {} answers, expected {}", row[3], got.len(), want.len()));
                }
            }
        }
        // oracle 5: every variable an answer reports is a reified `_` variable — a fresh or pattern variable that shows under its
        // own name makes the answer depend on how the program NAMES its bound variables (seeded change C15-m: `SMap::reify`
        // stopped before the open tail of a list, `q == [1 | x]` was reported as `[1 | x]`)
        if fail.is_none() {
            if let RunOut::Answers(a, _) | RunOut::Budget(a) = &mo {
                fn plain_var(t: &T) -> bool {
                    match t {
                        T::Var(_) => true,
                        T::Cons(h, tl) => plain_var(h) || plain_var(tl),
                        T::Comp(_, args) => args.iter().any(plain_var),
                        _ => false,
                    }
                }
                if let Some(bad) = a.iter().flat_map(|x| x.terms.iter()).find(|t| plain_var(t)) {
                    fail = Some(format!("`{}`: the answer term {} contains a variable that is not a reified `_` variable (its name would show in the answer: renaming a bound variable changes it)", row[3], bad.text()));
                }
            }
        }
        // oracle 2 (C15): the alpha-renamed twin has the same answers
        let twin: isize = row[1].parse().unwrap_or(-1);
        if fail.is_none() && twin >= 0 {
            if let Some(Some(tl)) = shown.get(twin as usize) {
                if ms(tl) != ms(&line) && !tl.ends_with("BUDGET") && !line.ends_with("BUDGET") {
                    fail = Some(format!("consistently renaming a bound variable changed the answers: `{}` gives {} but `{}` gives {}", rows[twin as usize][3], tl, row[3], line));
                }
            }
        }
        out.stat(&format!("cases_{}", row[0]));
        if row[3].contains("match") {
            out.stat("with_pattern_match");
        }
        if row[3].contains('|') {
            out.stat("with_fresh_or_improper");
        }
        let nt = line.contains(" || ") || line.contains('a');
        out.push(p.line_f(fuel), line, fail, nt);
        // the same surface AST through the LEAN model of the translation (`elabG`): its output must equal the
        // reference elaboration used above
        if row.len() >= 6 && row[4] != "-" {
            out.stat("surface_asts_through_lean_elab");
            out.push(row[4].clone(), row[5].clone(), None, true);
        }
    }
    out.write(outdir).expect("write");
}
