//! C01 — unification computes a most general unifier, with occurs check.
//! Implementation side: `State::unify` on the real `State`, then `walk_star` of both sides and of every
//! case variable.  Oracle: an independent Robinson unifier on the AST + brute-force ground valuations.
use crate::out::Out;
use crate::rng::Rng;
use crate::term::*;
use proto_vulcan::prelude::*;
use proto_vulcan::state::State;
use std::collections::HashMap;

pub struct Case {
    pub nvars: usize,
    pub history: Vec<(T, T)>,
    pub u: T,
    pub v: T,
}

impl Case {
    pub fn line(&self) -> String {
        let mut s = format!("unify {} {} ", self.nvars, self.history.len());
        for (a, b) in &self.history {
            a.toks(&mut s);
            b.toks(&mut s);
        }
        self.u.toks(&mut s);
        self.v.toks(&mut s);
        s.trim_end().to_string()
    }
    pub fn parse(line: &str) -> Case {
        let toks: Vec<&str> = line.split_whitespace().collect();
        let nvars: usize = toks[1].parse().unwrap();
        let k: usize = toks[2].parse().unwrap();
        let mut it = toks[3..].iter();
        let mut history = vec![];
        for _ in 0..k {
            let a = T::parse(&mut it);
            let b = T::parse(&mut it);
            history.push((a, b));
        }
        let u = T::parse(&mut it);
        let v = T::parse(&mut it);
        Case { nvars, history, u, v }
    }
}

type St = State<DU, DE>;

thread_local! {
    /// successful cases whose stored bindings are NOT in solved form (measured, written into the evidence)
    pub static TRI: std::cell::Cell<u64> = std::cell::Cell::new(0);
}

pub enum ImplResult {
    HistoryFails,
    Fail,
    Ok { tuple: Vec<T>, bound: Vec<usize>, raw: Vec<Option<T>> },
}

/// how often each variable occurs in the case
fn occurrences(c: &Case) -> Vec<usize> {
    let mut occ = vec![];
    for (a, b) in &c.history {
        a.vars(&mut occ);
        b.vars(&mut occ);
    }
    c.u.vars(&mut occ);
    c.v.vars(&mut occ);
    (0..c.nvars).map(|i| occ.iter().filter(|k| **k == i).count()).collect()
}

pub fn run_impl(c: &Case) -> ImplResult {
    let mut vars = Vars::new(c.nvars);
    // a variable with an odd index that is written exactly once in the case is built as the ANONYMOUS variable `_`
    // (`LTerm::any()`): unification must treat it as any other variable (seeded change C01-h: a shortcut for `_`
    // elements).  The rule is a function of the case line, so replays agree.
    for (i, n) in occurrences(c).iter().enumerate() {
        if i % 2 == 1 && *n == 1 {
            vars.v[i] = LT::any();
        }
    }
    let mut st: St = State::new(Default::default());
    for (a, b) in &c.history {
        let (la, lb) = (vars.build(a), vars.build(b));
        match st.unify(&la, &lb) {
            Ok(s) => st = s,
            Err(_) => return ImplResult::HistoryFails,
        }
    }
    let (lu, lv) = (vars.build(&c.u), vars.build(&c.v));
    match st.unify(&lu, &lv) {
        Err(_) => ImplResult::Fail,
        Ok(st) => {
            let smap = st.smap_ref();
            let mut rd = Reader::new(&vars);
            let mut tuple = vec![rd.read(&smap.walk_star(&lu)), rd.read(&smap.walk_star(&lv))];
            for x in &vars.v {
                tuple.push(rd.read(&smap.walk_star(x)));
            }
            let bound = (0..c.nvars).filter(|i| smap.contains_key(&vars.v[*i])).collect();
            // the STORED right-hand side of each case variable's binding (`HashMap::get`, bound variables inside it
            // unreplaced): compared with the triangular model (`unifyT` lines, Model/Triangular.lean)
            let raw = (0..c.nvars).map(|i| smap.get(&vars.v[i]).map(|t| rd.read(t))).collect();
            ImplResult::Ok { tuple, bound, raw }
        }
    }
}

// ---------- reference Robinson unifier (triangular substitution on the AST) ----------
pub type Sub = HashMap<usize, T>;

pub fn rwalk<'a>(s: &'a Sub, mut t: &'a T) -> &'a T {
    loop {
        match t {
            T::Var(k) => match s.get(k) {
                Some(n) => t = n,
                None => return t,
            },
            _ => return t,
        }
    }
}
pub fn rwalk_star(s: &Sub, t: &T) -> T {
    match rwalk(s, t) {
        T::Cons(h, tl) => T::cons(rwalk_star(s, h), rwalk_star(s, tl)),
        T::Comp(g, a) => T::Comp(*g, a.iter().map(|x| rwalk_star(s, x)).collect()),
        other => other.clone(),
    }
}
fn roccurs(s: &Sub, x: usize, t: &T) -> bool {
    match rwalk(s, t) {
        T::Var(k) => *k == x,
        T::Cons(h, tl) => roccurs(s, x, h) || roccurs(s, x, tl),
        T::Comp(_, a) => a.iter().any(|c| roccurs(s, x, c)),
        _ => false,
    }
}
pub fn runify(s: &mut Sub, u: &T, v: &T) -> bool {
    let u = rwalk(s, u).clone();
    let v = rwalk(s, v).clone();
    match (&u, &v) {
        (T::Var(a), T::Var(b)) if a == b => true,
        (T::Var(a), _) => {
            if roccurs(s, *a, &v) {
                false
            } else {
                s.insert(*a, v);
                true
            }
        }
        (_, T::Var(b)) => {
            if roccurs(s, *b, &u) {
                false
            } else {
                s.insert(*b, u);
                true
            }
        }
        (T::Cons(h1, t1), T::Cons(h2, t2)) => runify(s, h1, h2) && runify(s, t1, t2),
        (T::Comp(g1, a1), T::Comp(g2, a2)) => {
            g1 == g2 && a1.len() == a2.len() && a1.iter().zip(a2.iter()).all(|(x, y)| runify(s, x, y))
        }
        (a, b) => a == b,
    }
}

fn universe() -> Vec<T> {
    vec![
        T::Num(1),
        T::Num(2),
        T::Nil,
        T::list(vec![T::Num(1)]),
        T::Comp(0, vec![T::Num(1), T::Nil]),
    ]
}

fn ground_apply(val: &[T], t: &T) -> T {
    t.subst(&|x| match x {
        T::Var(k) => Some(val[*k].clone()),
        _ => None,
    })
}

/// returns (impl observable, oracle failure, non-trivial)
pub fn eval(c: &Case) -> (String, Option<String>, bool) {
    let (imp, _, fail, nt) = eval_raw(c);
    (imp, fail, nt)
}

/// as `eval`, with the raw-bindings suffix of the `unifyT` observable (empty unless unification succeeded)
pub fn eval_raw(c: &Case) -> (String, String, Option<String>, bool) {
    crate::mark(&c.line());
    let r = match crate::catch(|| run_impl(c)) {
        Ok(r) => r,
        Err(site) => return (format!("PANIC {}", site), String::new(), Some(format!("unification panicked at {}", site)), true),
    };
    // reference
    let mut s = Sub::new();
    let hist_ok = c.history.iter().all(|(a, b)| runify(&mut s, a, b));
    let ref_ok = hist_ok && runify(&mut s, &c.u, &c.v);
    let uni = universe();
    let n = c.nvars;
    let mut unifying: Vec<Vec<T>> = vec![];
    if n <= 4 {
        let total = uni.len().pow(n as u32);
        for code in 0..total {
            let mut k = code;
            let val: Vec<T> = (0..n)
                .map(|_| {
                    let t = uni[k % uni.len()].clone();
                    k /= uni.len();
                    t
                })
                .collect();
            if c.history.iter().all(|(a, b)| ground_apply(&val, a) == ground_apply(&val, b))
                && ground_apply(&val, &c.u) == ground_apply(&val, &c.v)
            {
                unifying.push(val);
            }
        }
    }
    match r {
        ImplResult::HistoryFails => {
            let fail = if hist_ok { Some("a history unification failed but the reference unifier succeeds".to_string()) } else { None };
            ("history-fails".into(), String::new(), fail, false)
        }
        ImplResult::Fail => {
            let mut fail = None;
            if ref_ok {
                fail = Some("implementation fails but the reference unifier finds a unifier".to_string());
            } else if let Some(val) = unifying.first() {
                fail = Some(format!("implementation fails but the ground valuation {} unifies both sides", show_tuple(val)));
            }
            // non-trivial failure: not a clash at the root
            let nt = c.u.depth() > 0 && c.v.depth() > 0;
            ("fail".into(), String::new(), fail, nt)
        }
        ImplResult::Ok { tuple, bound, raw } => {
            // genuinely triangular: some stored right-hand side mentions a variable that is itself bound
            let mut inside = vec![];
            raw.iter().flatten().for_each(|t| t.vars(&mut inside));
            if inside.iter().any(|x| bound.contains(x)) {
                crate::c01::TRI.with(|c| c.set(c.get() + 1));
            }
            let raws = format!(
                " ;raw {}",
                raw.iter().map(|o| o.as_ref().map(|t| t.text()).unwrap_or_else(|| "-".to_string())).collect::<Vec<_>>().join(" , ")
            );
            let can = canon(&tuple);
            let mut fail = None;
            if tuple[0] != tuple[1] {
                fail = Some(format!("both sides do not resolve to the identical term: {} vs {}", tuple[0].text(), tuple[1].text()));
            }
            // closedness / acyclicity: no bound variable occurs in any walked result
            let mut occ = vec![];
            tuple.iter().for_each(|t| t.vars(&mut occ));
            if let Some(b) = bound.iter().find(|b| occ.contains(b)) {
                fail = Some(format!("bound variable v{} occurs in a walk* result (cyclic or unresolved binding)", b));
            }
            if !ref_ok {
                fail = Some("implementation succeeds but the reference unifier fails (no unifier exists)".to_string());
            } else {
                let mut rt = vec![rwalk_star(&s, &c.u), rwalk_star(&s, &c.v)];
                for i in 0..n {
                    rt.push(rwalk_star(&s, &T::Var(i)));
                }
                let rc = canon(&rt);
                if rc != can && fail.is_none() {
                    fail = Some(format!("answer is not the most general unifier up to renaming: reference {} ", show_tuple(&rc)));
                }
            }
            // most general by brute force: every unifying ground valuation is an instance of the answer
            for val in &unifying {
                for i in 0..n {
                    if ground_apply(val, &tuple[2 + i]) != val[i] {
                        fail = Some(format!("ground unifier {} is not an instance of the answer", show_tuple(val)));
                    }
                }
            }
            let nt = !bound.is_empty();
            (format!("ok {}", show_tuple(&can)), raws, fail, nt)
        }
    }
}

fn gen_case(r: &mut Rng, exhaust_small: bool) -> Case {
    let nvars = if exhaust_small { 2 } else { 2 + r.below(3) };
    let g = TermGen { nvars, max_depth: 4, compounds: true, all_literals: r.chance(1, 4) };
    let depth = if r.chance(1, 3) { 2 } else { 1 + r.below(4) };
    let nh = r.below(5).min(if r.chance(1, 2) { 2 } else { 4 });
    let mut history = vec![];
    let mut s = Sub::new();
    for _ in 0..nh {
        let a = g.term(r, 2);
        let b = if r.chance(1, 2) { g.variant(r, &a, 2) } else { g.term(r, 1) };
        // keep only histories that succeed (reachable prior substitutions)
        let mut s2 = s.clone();
        if runify(&mut s2, &a, &b) {
            s = s2;
            history.push((a, b));
        }
    }
    let u = g.term(r, depth);
    let v = match r.below(10) {
        0..=5 => g.variant(r, &u, depth),
        6 => T::Var(r.below(nvars)),
        _ => g.term(r, depth),
    };
    // occurs-check targets: bind a variable to a structure containing it
    let (u, v) = if r.chance(1, 6) {
        let x = T::Var(r.below(nvars));
        let inner = if r.chance(1, 2) {
            T::list(vec![T::Num(1), x.clone()])
        } else {
            let tag = r.below(3);
            T::Comp(tag, vec![x.clone(), T::Num(2), T::Nil][..arity(tag)].to_vec())
        };
        if r.chance(1, 2) {
            (T::cons(x, u), T::cons(inner, v))
        } else {
            (x, inner)
        }
    } else {
        (u, v)
    };
    // singletons: some leaves become variables written only once (half of them anonymous, see `run_impl`), also inside the
    // terms of the history, so that a later unification reaches them through a binding
    let mut nvars = nvars;
    let (mut history, mut u, mut v) = (history, u, v);
    if !exhaust_small && r.chance(1, 2) {
        fn sprinkle(t: &T, r: &mut Rng, next: &mut usize, budget: &mut usize) -> T {
            match t {
                T::Cons(h, tl) => {
                    let h2 = sprinkle(h, r, next, budget);
                    T::cons(h2, sprinkle(tl, r, next, budget))
                }
                T::Comp(g, a) if *g != 4 => T::Comp(*g, a.iter().map(|x| sprinkle(x, r, next, budget)).collect()),
                T::Num(_) | T::Var(_) if *budget > 0 && r.chance(1, 5) => {
                    *budget -= 1;
                    *next += 1;
                    T::Var(*next - 1)
                }
                other => other.clone(),
            }
        }
        let mut budget = 3;
        history = history.iter().map(|(a, b)| (sprinkle(a, r, &mut nvars, &mut budget), b.clone())).collect();
        u = sprinkle(&u, r, &mut nvars, &mut budget);
        v = sprinkle(&v, r, &mut nvars, &mut budget);
    }
    if r.chance(1, 2) {
        Case { nvars, history, u, v }
    } else {
        Case { nvars, history, u: v, v: u }
    }
}

fn corpus() -> Vec<&'static str> {
    vec![
        // unit tests' shapes and hand-written edge cases
        "unify 2 0 v0 cons i1 cons i2 cons i3 cons v0 nil",
        // `_` elements (v1, v3: written once, odd index) reached a second time through the binding of v0
        "unify 2 1 v0 cons v1 cons i2 nil v0 cons i1 cons i2 nil",
        "unify 4 1 v0 cons v1 nil cons v0 cons v0 nil cons cons i1 nil cons cons i2 nil nil",
        "unify 4 2 v0 cons v1 nil v0 cons i1 nil v0 cons i2 nil",
        "unify 2 0 cons i1 cons i2 cons i3 cons v0 nil v0",
        "unify 3 2 v1 v0 v2 cons i1 nil v1 v2",
        "unify 3 1 v0 cons v1 v2 v1 comp0 cons v0 cons i1 nil",
        "unify 2 0 comp0 cons v0 cons i1 nil comp2 cons v0 cons i1 nil",
        "unify 2 0 comp1 cons v0 cons v1 cons i1 nil comp1 cons i2 cons v0 cons i1 nil",
        "unify 2 0 cons v0 v1 cons i1 cons i2 i3",
        "unify 2 0 nil comp0 cons v0 cons v1 nil",
        "unify 2 0 s0 s1",
        "unify 2 0 cons b1 cons ch97 nil cons v0 cons v1 nil",
        "unify 2 0 i1 b1",
    ]
}

fn record(c: &Case, out: &mut Out) {
    let (imp, raws, fail, nt) = eval_raw(c);
    if imp.starts_with("ok") {
        out.stat("success");
        if nt {
            out.stat("success_with_bindings");
        }
    } else if imp == "fail" {
        out.stat("fail");
    } else {
        out.stat("other");
    }
    out.stat(&format!("history_len_{}", c.history.len()));
    // the same case through the TRIANGULAR model: same observable, plus the stored bindings
    let tline = c.line().replacen("unify ", "unifyT ", 1);
    let timp = format!("{}{}", imp, raws);
    out.push(c.line(), imp, fail, nt);
    out.stat("triangular_lines");
    out.push(tline, timp, None, false);
}

pub fn replay(line: &str, out: &mut Out) {
    record(&Case::parse(line), out);
}

/// all terms of depth <= d over {x0, x1, 1, 2, [], cons, tuple}
fn small_terms(d: usize) -> Vec<T> {
    let leaves = vec![T::Var(0), T::Var(1), T::Num(1), T::Num(2), T::Nil];
    if d == 0 {
        return leaves;
    }
    let sub = small_terms(d - 1);
    let mut v = leaves;
    for a in &sub {
        for b in &sub {
            v.push(T::cons(a.clone(), b.clone()));
            v.push(T::Comp(0, vec![a.clone(), b.clone()]));
        }
    }
    v
}

pub fn run(seed: u64, thorough: bool, out: &mut Out) {
    run_inner(seed, thorough, out);
    out.stat_n("stored_bindings_not_in_solved_form", TRI.with(|c| c.get()));
}

fn run_inner(seed: u64, thorough: bool, out: &mut Out) {
    for l in corpus() {
        out.stat("corpus");
        replay(l, out);
    }
    let n = if thorough { 60000 } else { 4000 };
    for i in 0..n {
        let mut r = Rng::new(seed, 1, i);
        let c = gen_case(&mut r, false);
        record(&c, out);
    }
    if thorough {
        // exhaustive: all pairs of terms of depth <= 1 (55 terms) under all histories of length <= 1
        // drawn from the depth-0 terms; plus all pairs of depth <= 2 terms whose size is small
        let ts = small_terms(1);
        let hs = small_terms(0);
        let mut histories: Vec<Vec<(T, T)>> = vec![vec![]];
        for a in &hs {
            for b in &hs {
                if let T::Var(_) = a {
                    histories.push(vec![(a.clone(), b.clone())]);
                }
            }
        }
        for h in &histories {
            for u in &ts {
                for v in &ts {
                    let c = Case { nvars: 2, history: h.clone(), u: u.clone(), v: v.clone() };
                    out.stat("exhaustive_depth1");
                    record(&c, out);
                }
            }
        }
        out.exhaustive = true;
        out.notes.push("thorough: all pairs of the 55 terms of depth<=1 over {x0,x1,1,2,[],cons,tuple} under all 11 histories of length<=1".into());
    }
}
