//! Search programs (disjunctions, conjunctions, fresh, relation calls, committed choice, infinite
//! producers) and an independent reference interpreter in plain depth-first (Prolog) order.
use crate::c01::{runify, rwalk_star, Sub};
use crate::prog::*;
use crate::rng::Rng;
use crate::term::*;

#[derive(Clone)]
pub struct RSt {
    pub sub: Sub,
    pub next: usize,
    /// pending disequalities (pairs of terms that must not become equal)
    pub neqs: Vec<(T, T)>,
}

impl RSt {
    /// no pending disequality is violated (its two sides have become identical); disequalities that can no longer be
    /// violated are dropped
    fn settle(mut self) -> Option<RSt> {
        let mut keep = vec![];
        for (a, b) in std::mem::take(&mut self.neqs) {
            let mut s2 = self.sub.clone();
            let before = s2.len();
            if !runify(&mut s2, &a, &b) {
                continue; // can never be equal: satisfied for good
            }
            if s2.len() == before {
                return None; // equal already: violated
            }
            keep.push((a, b));
        }
        self.neqs = keep;
        Some(self)
    }
}

/// Reference semantics: the list of answers in left-to-right depth-first order.
/// `depth` bounds relation unfolding; `overflow` is set when the bound is hit (the program is then
/// treated as not known to be finite).
pub fn reval(g: &PG, st: &RSt, depth: usize, overflow: &mut bool) -> Vec<RSt> {
    let conj = |gs: &[PG], st: &RSt, overflow: &mut bool| -> Vec<RSt> {
        let mut cur = vec![st.clone()];
        for g in gs {
            let mut next = vec![];
            for s in &cur {
                next.extend(reval(g, s, depth, overflow));
            }
            cur = next;
        }
        cur
    };
    match g {
        PG::Eq(a, b) => {
            let mut s = st.clone();
            if runify(&mut s.sub, a, b) {
                s.settle().into_iter().collect()
            } else {
                vec![]
            }
        }
        PG::Neq(a, b) => {
            let mut s = st.clone();
            s.neqs.push((a.clone(), b.clone()));
            s.settle().into_iter().collect()
        }
        PG::Succ => vec![st.clone()],
        PG::Fail => vec![],
        PG::Conj(gs) | PG::Dfs(gs) => conj(gs, st, overflow),
        PG::Fresh(b) => reval(b, st, depth, overflow),
        PG::Conde(cs) => cs.iter().flat_map(|c| conj(c, st, overflow)).collect(),
        PG::Disj(gs) => gs.iter().flat_map(|c| reval(c, st, depth, overflow)).collect(),
        PG::Conda(cs) => {
            for c in cs {
                if c.is_empty() {
                    continue;
                }
                let heads = reval(&c[0], st, depth, overflow);
                if !heads.is_empty() {
                    return heads.iter().flat_map(|h| conj(&c[1..], h, overflow)).collect();
                }
            }
            vec![]
        }
        PG::Condu(cs) => {
            for c in cs {
                if c.is_empty() {
                    continue;
                }
                let heads = reval(&c[0], st, depth, overflow);
                if !heads.is_empty() {
                    return conj(&c[1..], &heads[0], overflow);
                }
            }
            vec![]
        }
        PG::Onceo(gs) => conj(gs, st, overflow).into_iter().take(1).collect(),
        PG::OnceoC(cs) => {
            let all: Vec<PG> = cs.iter().flat_map(|c| c.iter().cloned()).collect();
            conj(&all, st, overflow).into_iter().take(1).collect()
        }
        PG::Anyo(g) => {
            if depth == 0 {
                *overflow = true;
                return vec![];
            }
            let mut v = reval(g, st, depth, overflow);
            v.extend(reval(&PG::Anyo(g.clone()), st, depth - 1, overflow));
            v
        }
        PG::Loop(cs) => {
            let all: Vec<PG> = cs.iter().flat_map(|c| c.iter().cloned()).collect();
            reval(&PG::Anyo(Box::new(PG::Conj(all))), st, depth, overflow)
        }
        PG::DfsC(cs) => {
            // the clauses of a dfs body are conjoined in the order written
            let all: Vec<PG> = cs.iter().flat_map(|c| c.iter().cloned()).collect();
            conj(&all, st, overflow)
        }
        PG::Always => reval(&PG::Anyo(Box::new(PG::Succ)), st, depth, overflow),
        PG::Never => {
            *overflow = true;
            vec![]
        }
        PG::ConsR(f, r, o) => reval(&PG::Eq(T::cons(f.clone(), r.clone()), o.clone()), st, depth, overflow),
        PG::EmptyR(s) => reval(&PG::Eq(T::Nil, s.clone()), st, depth, overflow),
        PG::Call(r, args) => {
            if depth == 0 {
                *overflow = true;
                return vec![];
            }
            if r == "spin" {
                // diverges silently
                *overflow = true;
                return vec![];
            }
            let n = st.next;
            let v = |i: usize| T::Var(n + i);
            let body = match r.as_str() {
                "member" => PG::Conde(vec![
                    vec![PG::Eq(args[1].clone(), T::cons(v(0), v(1))), PG::Eq(v(0), args[0].clone())],
                    vec![PG::Eq(args[1].clone(), T::cons(v(3), v(2))), PG::Call("member".into(), vec![args[0].clone(), v(2)])],
                ]),
                "append" => {
                    let t = T::list(vec![args[0].clone(), args[1].clone(), args[2].clone()]);
                    PG::Conde(vec![
                        vec![PG::Eq(t.clone(), T::list(vec![T::Nil, v(0), v(0)]))],
                        vec![
                            PG::Eq(t, T::list(vec![T::cons(v(1), v(2)), v(4), T::cons(v(1), v(3))])),
                            PG::Call("append".into(), vec![v(2), v(4), v(3)]),
                        ],
                    ])
                }
                other => panic!("reference interpreter: relation {} not supported", other),
            };
            let s = RSt { sub: st.sub.clone(), next: n + 5, neqs: st.neqs.clone() };
            reval(&body, &s, depth - 1, overflow)
        }
        other => panic!("reference interpreter: goal {:?} not supported", other),
    }
}

/// the reference answers of a program as canonical answer lines (terms only)
pub fn ref_answers(p: &Prog, depth: usize) -> Option<Vec<String>> {
    let mut overflow = false;
    let st = RSt { sub: Sub::new(), next: p.nvars + 1, neqs: vec![] };
    let res = reval(&PG::Conj(p.body.clone()), &st, depth, &mut overflow);
    if overflow {
        return None;
    }
    Some(
        res.iter()
            .map(|s| {
                let terms: Vec<T> = (0..p.nq).map(|i| rwalk_star(&s.sub, &T::Var(i))).collect();
                Ans { terms, constraints: vec![], relevant: vec![vec![]; p.nq], constrained: vec![false; p.nq], counters: None }.show("")
            })
            .collect(),
    )
}

/// is the answer (terms of the query variables) an answer of the program, by the reference
/// interpreter with a bounded unfolding depth?  Reified variables are frozen to fresh constants.
pub fn ref_member(p: &Prog, a: &Ans, depth: usize) -> bool {
    let mut body = vec![];
    for (i, t) in a.terms.iter().enumerate() {
        let frozen = t.subst(&|x| match x {
            T::Any(k) => Some(T::Num(100 + *k as isize)),
            T::Var(k) => Some(T::Num(200 + *k as isize)),
            _ => None,
        });
        body.push(PG::Eq(T::Var(i), frozen));
    }
    body.extend(p.body.iter().cloned());
    let mut overflow = false;
    let st = RSt { sub: Sub::new(), next: p.nvars + 1, neqs: vec![] };
    !reval(&PG::Conj(body), &st, depth, &mut overflow).is_empty()
}

pub struct SearchGen {
    pub nq: usize,
    pub nh: usize,
    pub dfs_safe: bool,   // only operators available inside dfs { }
    pub committed: bool,  // allow conda/condu/onceo
    pub calls: bool,
}

impl SearchGen {
    fn nv(&self) -> usize {
        self.nq + self.nh
    }
    fn var(&self, r: &mut Rng) -> T {
        T::Var(r.below(self.nv()))
    }
    fn ground(&self, r: &mut Rng) -> T {
        match r.below(6) {
            0..=3 => T::Num(r.range(1, 3) as isize),
            4 => T::Nil,
            _ => T::list(vec![T::Num(r.range(1, 2) as isize)]),
        }
    }
    fn ground_list(&self, r: &mut Rng) -> T {
        let n = r.below(4);
        T::list((0..n).map(|_| T::Num(r.range(1, 3) as isize)).collect())
    }
    fn leaf(&self, r: &mut Rng) -> PG {
        match r.below(12) {
            0..=5 => PG::Eq(self.var(r), self.ground(r)),
            6 => PG::Eq(self.var(r), self.var(r)),
            7 => PG::Eq(self.var(r), T::list(vec![self.var(r), self.ground(r)])),
            8 if self.calls => PG::Call("member".into(), vec![self.var(r), self.ground_list(r)]),
            9 if self.calls => PG::Call("append".into(), vec![self.var(r), self.var(r), self.ground_list(r)]),
            10 => {
                if r.chance(1, 2) {
                    PG::Succ
                } else {
                    PG::Fail
                }
            }
            _ => PG::Eq(self.var(r), self.ground(r)),
        }
    }
    pub fn goal(&self, r: &mut Rng, depth: usize) -> PG {
        if depth == 0 || r.chance(1, 3) {
            return self.leaf(r);
        }
        match r.below(12) {
            // the degenerate sizes are part of the language: an empty conjunction `[]` succeeds once, a disjunction may
            // have a single clause, a clause may be empty (seeded changes C05-f, C14-f)
            0..=2 => {
                let n = if r.chance(1, 10) { r.below(2) } else { 2 + r.below(2) };
                PG::Conj((0..n).map(|_| self.goal(r, depth - 1)).collect())
            }
            3..=6 => {
                let k = if r.chance(1, 5) { 1 } else { 2 + r.below(2) };
                PG::Conde((0..k).map(|_| { let m = if r.chance(1, 10) { 0 } else { 1 + r.below(2) }; (0..m).map(|_| self.goal(r, depth - 1)).collect() }).collect())
            }
            7 => {
                let k = if r.chance(1, 5) { 1 } else { 2 + r.below(2) };
                PG::Disj((0..k).map(|_| self.goal(r, depth - 1)).collect())
            }
            8 => PG::Fresh(Box::new(self.goal(r, depth - 1))),
            9 if self.committed && !self.dfs_safe => {
                let k = 1 + r.below(3);
                let cs = (0..k).map(|_| { let m = 1 + r.below(3); (0..m).map(|_| self.goal(r, depth - 1)).collect() }).collect();
                if r.chance(1, 2) {
                    PG::Conda(cs)
                } else {
                    PG::Condu(cs)
                }
            }
            10 if self.committed && !self.dfs_safe => {
                // half of them with several comma-separated entries (`onceo { a, b }`: the operator conjoins the ENTRIES with
                // `Conj::from_conjunctions` — seeded change C08-k)
                if r.chance(1, 2) {
                    let k = 2 + r.below(2);
                    PG::OnceoC((0..k).map(|_| (0..1 + r.below(2)).map(|_| self.goal(r, depth - 1)).collect()).collect())
                } else {
                    let m = 1 + r.below(2);
                    PG::Onceo((0..m).map(|_| self.goal(r, depth - 1)).collect())
                }
            }
            _ => self.leaf(r),
        }
    }
}
