//! C08 — committed-choice operators keep exactly the committed answers.
//!
//! Programs: a deterministic prefix (equalities) followed by ONE conda / condu / onceo whose clause heads
//! have 0, 1, many, lazily produced or infinitely many answers.
//! Observable (model vs implementation): the answer sequence.
//! Oracle (real engine only, no model): the heads are run alone (raw mode: the states the head goal
//! produces, in engine order); the committed clause is the first whose head has an answer; the expected
//! answers are those of the clause's rest run from every head state (conda) / from the first (condu, onceo).
use crate::out::Out;
use crate::prog::*;
use crate::rng::Rng;
use crate::search::SearchGen;
use crate::term::T;

fn multiset(v: &[String]) -> Vec<String> {
    let mut v = v.to_vec();
    v.sort();
    v
}

enum Head {
    Finite(Vec<Vec<T>>), // the states the head produces (walk* of every program variable), in engine order
    Infinite(Vec<Vec<T>>), // a prefix of them; the head has more answers (or ran out of budget after some)
    Diverges,            // no answer within the budget
    Panic(String),
}

/// run `prefix ++ [head goals]` raw, observing every program variable
fn head_states(nvars: usize, prefix: &[PG], head: &PG, limit: usize) -> Head {
    let mut body = prefix.to_vec();
    body.push(head.clone());
    let p = Prog { nvars, nq: nvars, take: limit, body, raw: true };
    match run_prog_b(&p, 6000) {
        RunOut::Answers(a, more) => {
            let v: Vec<Vec<T>> = a.into_iter().map(|x| x.terms).collect();
            if more {
                Head::Infinite(v)
            } else {
                Head::Finite(v)
            }
        }
        RunOut::Budget(a) => {
            if a.is_empty() {
                Head::Diverges
            } else {
                Head::Infinite(a.into_iter().map(|x| x.terms).collect())
            }
        }
        RunOut::Panic(s) => Head::Panic(s),
    }
}

/// answers of `rest` run from a head state: the state is re-created by unifying every program variable
/// with its walked value (variables created by the head become fresh hidden variables)
fn continue_from(p: &Prog, state: &[T], rest: &[PG]) -> Option<Vec<String>> {
    let nvars = p.nvars;
    // hidden variables (`_` pattern variables included) keep their sharing between the observed terms
    let (renamed, nextra) = crate::term::rename_hidden(state, nvars);
    let mut body = vec![PG::Eq(T::list((0..nvars).map(T::Var).collect()), T::list(renamed))];
    body.extend(rest.iter().cloned());
    let q = Prog { nvars: nvars + nextra, nq: p.nq, take: 0, body, raw: false };
    match run_prog_b(&q, 6000) {
        RunOut::Answers(a, _) => Some(a.iter().map(|x| x.show("")).collect()),
        _ => None,
    }
}

pub fn eval(p: &Prog) -> (String, Option<String>, bool, u64) {
    let out = run_prog(p);
    let fuel = model_fuel(&out);
    let line = show_run(&out, false);
    let (answers, complete) = match &out {
        RunOut::Answers(a, more) => (a, !*more),
        RunOut::Budget(a) => (a, false),
        RunOut::Panic(s) => return (line, Some(format!("panic at {}", s)), true, fuel),
    };
    let got: Vec<String> = answers.iter().map(|a| a.show("")).collect();
    let (prefix, op) = p.body.split_at(p.body.len() - 1);
    let (clauses, kind): (Vec<Vec<PG>>, u8) = match &op[0] {
        PG::Conda(cs) => (cs.clone(), 0),
        PG::Condu(cs) => (cs.clone(), 1),
        PG::Onceo(gs) => (vec![vec![PG::Conj(gs.clone())]], 2),
        PG::OnceoC(cs) => (vec![vec![PG::Conj(cs.iter().flat_map(|c| c.iter().cloned()).collect())]], 2),
        _ => return (line, None, false, fuel),
    };
    let mut fail = None;
    let mut expected: Option<Vec<String>> = Some(vec![]); // None = oracle cannot decide
    let mut exact = true; // expected is the whole answer multiset (false: only a subset is known)
    for c in clauses.iter().filter(|c| !c.is_empty()) {
        match head_states(p.nvars, prefix, &c[0], if kind == 0 { 40 } else { 1 }) {
            Head::Panic(s) => {
                fail = Some(format!("head alone panics at {}", s));
                expected = None;
                break;
            }
            Head::Diverges => {
                // the operator diverges with this head: nothing may be delivered
                expected = Some(vec![]);
                exact = false;
                if !got.is_empty() {
                    fail = Some("a clause head diverges silently before any clause committed, yet answers were delivered".into());
                }
                break;
            }
            Head::Finite(v) if v.is_empty() => continue,
            Head::Finite(v) | Head::Infinite(v) => {
                let infinite = kind == 0 && v.len() >= 40;
                let states: Vec<&Vec<T>> = if kind == 0 { v.iter().collect() } else { vec![&v[0]] };
                let mut all = vec![];
                for s in states {
                    match continue_from(p, s, &c[1..]) {
                        Some(mut a) => all.append(&mut a),
                        None => {
                            expected = None;
                            break;
                        }
                    }
                }
                if expected.is_some() {
                    expected = Some(all);
                    exact = !infinite;
                }
                break;
            }
        }
    }
    if fail.is_none() {
        if let Some(want) = expected {
            if exact && complete {
                if multiset(&want) != multiset(&got) {
                    fail = Some(format!(
                        "committed answers differ: the reference soft-cut semantics (heads run alone on the engine) gives {} answers [{}], the operator delivered {} [{}]",
                        want.len(), want.join(" | "), got.len(), got.join(" | ")
                    ));
                }
            } else {
                // partial knowledge: every delivered answer must be an expected one when the expectation is exact,
                // and there cannot be MORE of them than the committed clause has (a run cut short by the step budget
                // or by take(n) still shows a duplicated or uncommitted answer — seeded change C08-f)
                if exact && got.len() > want.len() {
                    fail = Some(format!(
                        "the operator delivered {} answers, the committed clause has only {} [{}]",
                        got.len(), want.len(), want.join(" | ")
                    ));
                } else if exact {
                    for g in &got {
                        if !want.contains(g) {
                            fail = Some(format!("delivered answer `{}` is not an answer of the committed clause", g));
                            break;
                        }
                    }
                }
            }
            if kind == 2 && got.len() > 1 {
                fail = Some(format!("onceo delivered {} answers", got.len()));
            }
        }
    }
    (line, fail, !got.is_empty(), fuel)
}

fn record(p: &Prog, out: &mut Out) {
    let (line, fail, nt, fuel) = eval(p);
    if line.contains("BUDGET") {
        out.stat("budget_exhausted");
    }
    out.push(p.line_f(fuel), line, fail, nt);
}

pub fn replay(line: &str, out: &mut Out) {
    record(&Prog::parse(line), out);
}

fn corpus() -> Vec<&'static str> {
    vec![
        "prog 1 1 0 - conda 2 2 call member 2 v0 cons i1 cons i2 cons i3 nil succ 1 eq v0 i9",
        "prog 1 1 0 - condu 2 2 call member 2 v0 cons i1 cons i2 cons i3 nil succ 1 eq v0 i9",
        "prog 1 1 0 - conda 2 1 fail 1 eq v0 i9",
        "prog 1 1 0 - onceo 1 call member 2 v0 cons i1 cons i2 nil",
        "prog 1 1 0 - onceo 1 always",
        "prog 1 1 0 - condu 2 2 always eq v0 i1 1 eq v0 i2",
        // first answer in ENGINE order appears only after lazy steps of the first disjunct
        "prog 1 1 0 - condu 1 2 conde 2 1 fresh fresh eq v0 i1 1 eq v0 i2 succ",
        "prog 2 2 0 - eq v1 i5 conda 2 2 conde 2 1 eq v0 i1 1 eq v0 i2 conde 2 1 eq v1 i5 1 eq v1 i6 1 succ",
        "prog 1 1 0 - onceo 1 fail",
        "prog 2 1 4 - conda 1 2 call member 2 i1 v0 eq v1 i2",
        // the head leaves a `_` pattern variable shared between two query variables (oracle false alarm of the
        // thorough tier: the reference lost the sharing)
        "prog 3 2 0 - onceo 2 call member 2 i1 v0 disj 2 eq v0 v1 eq v2 i2",
    ]
}

pub fn run(seed: u64, thorough: bool, out: &mut Out) {
    for l in corpus() {
        out.stat("corpus");
        replay(l, out);
    }
    let n = if thorough { 15000 } else { 700 };
    for i in 0..n {
        let mut r = Rng::new(seed, 8, i);
        let g = SearchGen { nq: 1 + r.below(2), nh: r.below(2), dfs_safe: true, committed: false, calls: true };
        let nv = g.nq + g.nh;
        let var = |r: &mut Rng| T::Var(r.below(nv));
        let num = |r: &mut Rng| T::Num(r.range(1, 3) as isize);
        let mut head = |r: &mut Rng, allow_inf: bool| -> PG {
            match r.below(if allow_inf { 12 } else { 10 }) {
                0 => PG::Fail,
                1 => PG::Conj(vec![PG::Eq(var(r), T::Num(1)), PG::Eq(var(r), T::Num(1)), PG::Eq(T::Num(1), T::Num(2))]),
                2 => PG::Eq(var(r), num(r)),
                3 => PG::Succ,
                4 | 5 => PG::Conde((0..2 + r.below(2)).map(|_| vec![PG::Eq(var(r), num(r))]).collect()),
                6 => PG::Call("member".into(), vec![var(r), T::list((0..r.below(4)).map(|_| num(r)).collect())]),
                // lazily produced: the first answers sit behind fresh / nested conde
                7 => PG::Conde(vec![vec![PG::Fresh(Box::new(PG::Fresh(Box::new(PG::Eq(var(r), num(r))))))], vec![PG::Eq(var(r), num(r))]]),
                8 => PG::Fresh(Box::new(g.goal(r, 2))),
                9 => g.goal(r, 2),
                10 => PG::Conj(vec![PG::Always, PG::Eq(var(r), num(r))]),
                _ => PG::Call("member".into(), vec![num(r), var(r)]),
            }
        };
        let prefix: Vec<PG> = (0..r.below(3)).map(|_| PG::Eq(var(&mut r), num(&mut r))).collect();
        let kind = r.below(3);
        let op = match kind {
            0 | 1 => {
                let k = 1 + r.below(3);
                let cs: Vec<Vec<PG>> = (0..k)
                    .map(|_| {
                        let mut c = vec![head(&mut r, kind == 1)];
                        for _ in 0..r.below(3) {
                            c.push(g.goal(&mut r, 1));
                        }
                        c
                    })
                    .collect();
                if kind == 0 {
                    PG::Conda(cs)
                } else {
                    PG::Condu(cs)
                }
            }
            _ => {
                let mut gs = vec![head(&mut r, true)];
                if r.chance(1, 3) {
                    gs.push(g.goal(&mut r, 1));
                }
                if r.chance(1, 2) {
                    // several comma-separated entries whose order matters for the first answer: the entries share variables
                    // and have several answers each (seeded change C08-k: the entries conjoined in reverse)
                    let x = T::Var(r.below(nv));
                    let y = T::Var(r.below(nv));
                    let two = |a: isize, b: isize| PG::Conde(vec![vec![PG::Eq(x.clone(), T::Num(a))], vec![PG::Eq(x.clone(), T::Num(b))]]);
                    let pairs = PG::Conde(vec![
                        vec![PG::Eq(x.clone(), T::Num(2)), PG::Eq(y.clone(), T::Num(1))],
                        vec![PG::Eq(x.clone(), T::Num(1)), PG::Eq(y.clone(), T::Num(2))],
                    ]);
                    let mut cs: Vec<Vec<PG>> = vec![vec![two(1, 2)], vec![pairs]];
                    if r.chance(1, 2) {
                        cs.push(gs);
                    } else {
                        cs.insert(0, gs);
                    }
                    PG::OnceoC(cs)
                } else {
                    PG::Onceo(gs)
                }
            }
        };
        out.stat(["conda", "condu", "onceo"][kind]);
        let mut body = prefix;
        body.push(op);
        let p = Prog { nvars: nv, nq: g.nq, take: 0, body, raw: false };
        record(&p, out);
    }
}
