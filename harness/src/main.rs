//! pvharness binary: see lib.rs
use pvharness::*;
use std::io::BufRead;

fn main() {
    let args: Vec<String> = std::env::args().collect();
    if args.len() < 3 {
        eprintln!("usage: pvharness run <Cxx> <seed> <tier> <outdir> | replay <Cxx> <outdir>");
        std::process::exit(2);
    }
    // Silence panic messages of caught panics; the harness reports them itself.
    if args[1] != "genmacro" {
        install_panic_hook();
        // loops outside the engine (no step is taken, so the step budget never fires) end the run
        start_watchdog(180);
    }
    match args[1].as_str() {
        "run" => {
            let prop = args[2].as_str();
            let seed: u64 = args[3].parse().expect("seed");
            let thorough = args[4] == "thorough";
            let dir = &args[5];
            let mut out = out::Out::new();
            match prop {
                "C18" => c18::run(seed, thorough, &mut out),
                "C01" => c01::run(seed, thorough, &mut out),
                "C02" => c02::run(seed, thorough, &mut out),
                "C03" => c03::run(seed, thorough, &mut out),
                "C04" => c04::run(seed, thorough, &mut out),
                "C05" => c05::run(seed, thorough, &mut out),
                "C06" => c06::run(seed, thorough, &mut out),
                "C07" => c07::run(seed, thorough, &mut out),
                "C08" => c08::run(seed, thorough, &mut out),
                "C09" => c09::run(seed, thorough, &mut out),
                "C10" => c10::run(seed, thorough, &mut out),
                "C11" => c11::run(seed, thorough, &mut out),
                "C16" => c16::run(seed, thorough, 16, &mut out),
                "C19" => c19::run(seed, thorough, &mut out),
                "C20" => c20::run(seed, thorough, &mut out),
                "C21" => c21::run(seed, thorough, &mut out),
                "C22" => c22::run(seed, thorough, &mut out),
                "C23" => c23::run(seed, thorough, &mut out),
                "C24" => c24::run(seed, thorough, &mut out),
                "C17" => c16::run(seed, thorough, 17, &mut out),
                _ => {
                    eprintln!("unknown property {}", prop);
                    std::process::exit(2);
                }
            }
            out.write(dir).expect("write");
        }
        "genmacro" => {
            // pvharness genmacro <C12,C13,..> <seed> <tier> <generated.rs> <macro_cases.txt>
            let props: Vec<&str> = args[2].split(',').collect();
            let seed: u64 = args[3].parse().expect("seed");
            let thorough = args[4] == "thorough";
            let n = cmacro::generate(&props, seed, thorough, &args[5], &args[6]).expect("write");
            println!("{} macro cases", n);
        }
        "candidates" => {
            // reads one `prog …` case line, prints strictly smaller variants (one per line)
            let stdin = std::io::stdin();
            for line in stdin.lock().lines() {
                let line = line.unwrap();
                let line = line.trim();
                if !line.starts_with("prog ") {
                    continue;
                }
                let toks: Vec<&str> = line.split_whitespace().collect();
                let flag = toks[4].split(':').next().unwrap_or("-").to_string();
                let p = prog::Prog::parse(line);
                for body in prog::shrink_goals(&p.body) {
                    let q = prog::Prog { body, ..p.clone() };
                    // keep the observation mode of the original line
                    let l = q.line();
                    let mut t: Vec<String> = l.split_whitespace().map(|x| x.to_string()).collect();
                    t[4] = flag.clone();
                    println!("{}", t.join(" "));
                }
            }
        }
        "replay" => {
            let prop = args[2].as_str();
            let dir = &args[3];
            let mut out = out::Out::new();
            let stdin = std::io::stdin();
            for line in stdin.lock().lines() {
                let line = line.unwrap();
                let line = line.trim();
                if line.is_empty() {
                    continue;
                }
                match prop {
                    "C18" => c18::replay(line, &mut out),
                    "C01" => c01::replay(line, &mut out),
                    "C02" => c02::replay(line, &mut out),
                    "C03" => c03::replay(line, &mut out),
                    "C04" => c04::replay(line, &mut out),
                    "C05" => c05::replay(line, &mut out),
                    "C06" => c06::replay(line, &mut out),
                    "C07" => c07::replay(line, &mut out),
                    "C08" => c08::replay(line, &mut out),
                    "C09" => c09::replay(line, &mut out),
                    "C10" => c10::replay(line, &mut out),
                    "C11" => c11::replay(line, &mut out),
                    "C16" => c16::replay(line, 16, &mut out),
                    "C19" => c19::replay(line, &mut out),
                    "C20" => c20::replay(line, &mut out),
                    "C21" => c21::replay(line, &mut out),
                    "C22" => c22::replay(line, &mut out),
                    "C23" => c23::replay(line, &mut out),
                    "C24" => c24::replay(line, &mut out),
                    "C17" => c16::replay(line, 17, &mut out),
                    _ => {
                        eprintln!("unknown property {}", prop);
                        std::process::exit(2);
                    }
                }
            }
            out.write(dir).expect("write");
        }
        _ => std::process::exit(2),
    }
}

