//! pvharness: runs the real proto-vulcan code on generated cases, canonicalises what each
//! property observes and evaluates the property with a model-independent oracle.
//!
//!   pvharness run <Cxx> <seed> <quick|thorough> <outdir>
//!   pvharness replay <Cxx> <outdir> < caselines     (one case line per stdin line)
mod c01;
mod c02;
mod c03;
mod c04;
mod c05;
mod c06;
mod c07;
mod c08;
mod c09;
mod c10;
mod c16;
mod c19;
mod c20;
mod c21;
mod c22;
mod c24;
mod fdgen;
mod search;
mod prog;
mod tree;
mod c18;
mod term;
mod out;
mod rng;

use std::io::BufRead;

fn main() {
    let args: Vec<String> = std::env::args().collect();
    if args.len() < 3 {
        eprintln!("usage: pvharness run <Cxx> <seed> <tier> <outdir> | replay <Cxx> <outdir>");
        std::process::exit(2);
    }
    // Silence panic messages of caught panics; the harness reports them itself.
    std::panic::set_hook(Box::new(|info| {
        let loc = info.location().map(|l| format!("{}:{}", l.file(), l.line())).unwrap_or_default();
        LAST_PANIC.with(|p| *p.borrow_mut() = loc);
    }));
    match args[1].as_str() {
        "run" => {
            let prop = args[2].as_str();
            let seed: u64 = args[3].parse().expect("seed");
            let thorough = args[4] == "thorough";
            let dir = &args[5];
            let mut out = out::Out::new();
            match prop {
                "C18" => c18::run(seed, thorough, &mut out),
                "C01" => c01::run(seed, thorough, &mut out),
                "C02" => c02::run(seed, thorough, &mut out),
                "C03" => c03::run(seed, thorough, &mut out),
                "C04" => c04::run(seed, thorough, &mut out),
                "C05" => c05::run(seed, thorough, &mut out),
                "C06" => c06::run(seed, thorough, &mut out),
                "C07" => c07::run(seed, thorough, &mut out),
                "C08" => c08::run(seed, thorough, &mut out),
                "C09" => c09::run(seed, thorough, &mut out),
                "C10" => c10::run(seed, thorough, &mut out),
                "C16" => c16::run(seed, thorough, 16, &mut out),
                "C19" => c19::run(seed, thorough, &mut out),
                "C20" => c20::run(seed, thorough, &mut out),
                "C21" => c21::run(seed, thorough, &mut out),
                "C22" => c22::run(seed, thorough, &mut out),
                "C24" => c24::run(seed, thorough, &mut out),
                "C17" => c16::run(seed, thorough, 17, &mut out),
                _ => {
                    eprintln!("unknown property {}", prop);
                    std::process::exit(2);
                }
            }
            out.write(dir).expect("write");
        }
        "replay" => {
            let prop = args[2].as_str();
            let dir = &args[3];
            let mut out = out::Out::new();
            let stdin = std::io::stdin();
            for line in stdin.lock().lines() {
                let line = line.unwrap();
                let line = line.trim();
                if line.is_empty() {
                    continue;
                }
                match prop {
                    "C18" => c18::replay(line, &mut out),
                    "C01" => c01::replay(line, &mut out),
                    "C02" => c02::replay(line, &mut out),
                    "C03" => c03::replay(line, &mut out),
                    "C04" => c04::replay(line, &mut out),
                    "C05" => c05::replay(line, &mut out),
                    "C06" => c06::replay(line, &mut out),
                    "C07" => c07::replay(line, &mut out),
                    "C08" => c08::replay(line, &mut out),
                    "C09" => c09::replay(line, &mut out),
                    "C10" => c10::replay(line, &mut out),
                    "C16" => c16::replay(line, 16, &mut out),
                    "C19" => c19::replay(line, &mut out),
                    "C20" => c20::replay(line, &mut out),
                    "C21" => c21::replay(line, &mut out),
                    "C22" => c22::replay(line, &mut out),
                    "C24" => c24::replay(line, &mut out),
                    "C17" => c16::replay(line, 17, &mut out),
                    _ => {
                        eprintln!("unknown property {}", prop);
                        std::process::exit(2);
                    }
                }
            }
            out.write(dir).expect("write");
        }
        _ => std::process::exit(2),
    }
}

thread_local! {
    static MARK: std::cell::RefCell<Option<std::fs::File>> = std::cell::RefCell::new(
        std::env::var("PVH_MARK").ok().and_then(|p| std::fs::File::create(p).ok()));
}

/// Records the case about to be run (file named by env PVH_MARK), so that a run that dies with an
/// abort no `catch_unwind` can intercept (stack overflow on a cyclic term, allocation failure) still
/// names its input.
pub fn mark(line: &str) {
    use std::io::{Seek, SeekFrom, Write};
    MARK.with(|m| {
        if let Some(f) = m.borrow_mut().as_mut() {
            let _ = f.seek(SeekFrom::Start(0));
            let _ = f.set_len(0);
            let _ = f.write_all(line.as_bytes());
        }
    });
}

thread_local! {
    pub static LAST_PANIC: std::cell::RefCell<String> = std::cell::RefCell::new(String::new());
}

/// Runs `f`, mapping a panic to `Err(site)` where site is `file:line` of the panic.
pub fn catch<T>(f: impl FnOnce() -> T) -> Result<T, String> {
    match std::panic::catch_unwind(std::panic::AssertUnwindSafe(f)) {
        Ok(v) => Ok(v),
        Err(p) => {
            if p.downcast_ref::<proto_vulcan::verif::BudgetExhausted>().is_some() {
                Err("BUDGET".to_string())
            } else {
                Err(LAST_PANIC.with(|p| p.borrow().clone()))
            }
        }
    }
}
