import PvModel.Model.Unify
import Driver.Parse
/-! Term token syntax (same as the harness): v3 a2 i-5 b1 ch97 s0 nil cons H T comp<tag> ARGS -/
namespace Pv.Drv
open Pv

/-- observed terms: model variables `var x`; reified variables are printed as `a<k>` -/
partial def showTerm (anyOf : Nat → Option Nat) : Term → String
  | .var x => match anyOf x with
    | some k => s!"a{k}"
    | none => s!"v{x}"
  | .val (.num n) => s!"i{n}"
  | .val (.bool b) => if b then "b1" else "b0"
  | .val (.chr c) => s!"ch{c}"
  | .val (.str s) => s!"s{s}"
  | .nil => "nil"
  | .cons h t => s!"cons {showTerm anyOf h} {showTerm anyOf t}"
  | .comp g a => s!"comp{g} {showTerm anyOf a}"

def dropPrefix? (s pre : String) : Option String :=
  if s.startsWith pre then some ((s.drop pre.length).toString) else none

/-- term reader with explicit fuel = number of tokens (each call consumes at least one) -/
def termF : Nat → P Term
  | 0, _ => none
  | _, [] => none
  | n + 1, t :: ts =>
    if t == "nil" then some (.nil, ts)
    else if t == "cons" then
      match termF n ts with
      | some (h, ts) => match termF n ts with
        | some (tl, ts) => some (.cons h tl, ts)
        | none => none
      | none => none
    else match dropPrefix? t "comp" with
    | some r => match r.toNat? with
      | some g => match termF n ts with
        | some (a, ts) => some (.comp g a, ts)
        | none => none
      | none => none
    | none => match dropPrefix? t "ch" with
      | some r => r.toNat?.map (fun c => (.val (.chr c), ts))
      | none => match dropPrefix? t "v" with
        | some r => r.toNat?.map (fun x => (.var x, ts))
        | none => match dropPrefix? t "i" with
          | some r => r.toInt?.map (fun i => (.val (.num i), ts))
          | none => match dropPrefix? t "b" with
            | some r => if r == "1" then some (.val (.bool true), ts) else if r == "0" then some (.val (.bool false), ts) else none
            | none => match dropPrefix? t "s" with
              | some r => r.toNat?.map (fun s => (.val (.str s), ts))
              | none => none

def term : P Term := fun ts => termF (ts.length + 1) ts

/-- canonical renaming of a tuple: variables numbered by first occurrence, left to right -/
def canonMap (ts : List Term) : List Nat := (ts.flatMap Term.vars).eraseDups

def showTuple (ts : List Term) : String :=
  let order := canonMap ts
  " ; ".intercalate (ts.map (showTerm (fun x => order.idxOf? x)))

end Pv.Drv
