import PvModel.Model.Goals
import Driver.Term
import Driver.FD
/-!
  `prog …` case lines: a whole query.

    prog <nvars> <nq> <take> <flags> GOAL*        (body goals, implicit conjunction; terminated by end of line)

  query variables are v0..v(nq-1); `take` = number of answers requested (0 = all).
  GOAL ::= eq T T | neq T T | succ | fail | conj N GOAL^N | conde N (N GOAL^N)^N | disj N GOAL^N
         | fresh GOAL | conda N CLAUSE^N | condu N CLAUSE^N | onceo N GOAL^N | dfs N GOAL^N
         | anyo GOAL | always | never | call REL N T^N | consr T T T | firstr T T | restr T T | emptyr T
         | infd T DOM | plusfd T T T | minusfd T T T | timesfd T T T | ltefd T T | ltfd T T | diseqfd T T
         | distinctfd T | plusz T T T | timesz T T T
-/
namespace Pv.Drv
open Pv

def relOf : String → Option Rel
  | "member" => some .member | "member1" => some .member1 | "append" => some .append
  | "rember" => some .rember | "permute" => some .permute | "distinct" => some .distinct
  | "spin" => some .spin
  | _ => none

def terms : Nat → P (List Term) := many term

def ord0 : Order := Order.default

/-- term reader under an environment for projection cells (`v900+i` ↦ the projected value) -/
def termE (env : List (Nat × Term)) : P Term := fun ts =>
  match term ts with
  | some (t, ts) => some (apply (fun y => match env.find? (fun p => p.1 == y) with | some p => p.2 | none => .var y) t, ts)
  | none => none

/-- skip one goal's tokens: returns the tokens it consists of and the rest (used by `project`, whose body is
    re-read with the projected values each time the goal is solved) -/
def natsF : Nat → P (List Nat)
  | 0, ts => some ([], ts)
  | k + 1, ts => match nat ts with
    | some (a, ts) => match natsF k ts with
      | some (as, ts) => some (a :: as, ts)
      | none => none
    | none => none

mutual
/-- `dfs`: are we inside a `dfs { }` (goals are `DFSGoal`s); `env`: projection cells in scope -/
def goalF : Nat → Bool → List (Nat × Term) → P G
  | 0, _, _, _ => none
  | _, _, _, [] => none
  | n + 1, dfs, env, t :: ts =>
    let term := termE env
    let t3 (mk : Term → Term → Term → G) : Option (G × Toks) :=
      match term ts with
      | some (a, ts) => match term ts with
        | some (b, ts) => match term ts with
          | some (c, ts) => some (mk a b c, ts)
          | none => none
        | none => none
      | none => none
    let t2 (mk : Term → Term → G) : Option (G × Toks) :=
      match term ts with
      | some (a, ts) => match term ts with
        | some (b, ts) => some (mk a b, ts)
        | none => none
      | none => none
    let t1 (mk : Term → G) : Option (G × Toks) :=
      match term ts with
      | some (a, ts) => some (mk a, ts)
      | none => none
    if t == "eq" then t2 (eqG ord0)
    else if t == "neq" then t2 (diseqG ord0)
    else if t == "succ" then some (.succeed, ts)
    else if t == "fail" then some (.fail, ts)
    else if t == "conj" then
      match nat ts with
      | some (k, ts) => match goalsF n dfs env k ts with
        | some (gs, ts) => some (if dfs then Goal.conjDOfList gs else Goal.conjOfList gs, ts)
        | none => none
      | none => none
    else if t == "disj" then
      match nat ts with
      | some (k, ts) => match goalsF n dfs env k ts with
        | some (gs, ts) => some (if dfs then Goal.disjDOfList gs else Goal.disjOfList gs, ts)
        | none => none
      | none => none
    else if t == "conde" then
      match nat ts with
      | some (k, ts) => match clausesF n dfs env k ts with
        | some (cs, ts) => some (if dfs then Goal.condeDOfClauses cs else Goal.condeOfClauses cs, ts)
        | none => none
      | none => none
    else if t == "fresh" then
      match goalF n dfs env ts with
      | some (g, ts) => some (.fresh g, ts)
      | none => none
    else if t == "conda" && !dfs then
      match nat ts with
      | some (k, ts) => match clausesF n false env k ts with
        | some (cs, ts) => some (Goal.condaOfClauses cs, ts)
        | none => none
      | none => none
    else if t == "condu" && !dfs then
      match nat ts with
      | some (k, ts) => match clausesF n false env k ts with
        | some (cs, ts) => some (Goal.conduOfClauses cs, ts)
        | none => none
      | none => none
    else if t == "onceo" && !dfs then
      match nat ts with
      | some (k, ts) => match goalsF n false env k ts with
        | some (gs, ts) => some (Goal.onceo gs, ts)
        | none => none
      | none => none
    else if t == "onceoc" && !dfs then
      -- `onceo { c1, c2, .. }`: `Conj::from_conjunctions` over the comma-separated entries, then `condu { g }`
      match nat ts with
      | some (k, ts) => match clausesF n false env k ts with
        | some (cs, ts) => some (Goal.onceo (cs.map Goal.conjOfList), ts)
        | none => none
      | none => none
    else if t == "dfs" then
      match nat ts with
      | some (k, ts) => match goalsF n true env k ts with
        | some (gs, ts) => some (Goal.conjDOfList [Goal.conjDOfList gs], ts)
        | none => none
      | none => none
    else if t == "dfsc" then
      -- `dfs { c1, c2, .. }`: `DFSConj::from_conjunctions` over the comma-separated clauses
      match nat ts with
      | some (k, ts) => match clausesF n true env k ts with
        | some (cs, ts) => some (Goal.conjDOfList (cs.map Goal.conjDOfList), ts)
        | none => none
      | none => none
    else if t == "anyo" && !dfs then
      match goalF n false env ts with
      | some (g, ts) => some (.anyo (Goal.conjOfList [Goal.conjOfList [g]]), ts)
      | none => none
    else if t == "loop" && !dfs then
      match nat ts with
      | some (k, ts) => match clausesF n false env k ts with
        | some (cs, ts) => some (.anyo (Goal.conjOfList (cs.map Goal.conjOfList)), ts)
        | none => none
      | none => none
    else if t == "always" && !dfs then some (.anyo (.succeed : G), ts)
    else if t == "never" && !dfs then some (.anyo (.fail : G), ts)
    else if t == "call" then
      match ts with
      | r :: ts => match relOf r with
        | some rel => match nat ts with
          | some (k, ts) => match many term k ts with
            | some (as, ts) => some (.call ⟨rel, as, dfs⟩, ts)
            | none => none
          | none => none
        | none => none
      | [] => none
    else if t == "consr" then t3 (consG ord0)
    else if t == "emptyr" then t1 (emptyG ord0)
    else if t == "firstr" then t2 (firstG ord0 dfs)
    else if t == "restr" then t2 (restG ord0 dfs)
    else if t == "infd" then
      match term ts with
      | some (x, ts) => match dom ts with
        | some (some d, ts) => some (infdG ord0 x d, ts)
        | _ => none
      | none => none
    else if t == "plusfd" then t3 (plusfdG ord0)
    else if t == "minusfd" then t3 (minusfdG ord0)
    else if t == "timesfd" then t3 (timesfdG ord0)
    else if t == "ltefd" then t2 (ltefdG ord0)
    else if t == "ltfd" then t2 (ltfdG ord0)
    else if t == "diseqfd" then t2 (diseqfdG ord0)
    else if t == "distinctfd" then t1 (distinctfdG ord0)
    else if t == "closure" then
      match nat ts with
      | some (k, ts) => match goalsF n dfs env k ts with
        | some (gs, ts) => some (.dyn id (fun _ => if dfs then Goal.conjDOfList gs else Goal.conjOfList gs), ts)
        | none => none
      | none => none
    else if t == "isnum" then t1 (fun a => .atom (liftRes fun st => if a.isNum then .ok st else .fail))
    else if t == "isground" then t1 (fun a => .atom (liftRes fun st => if a.ground then .ok st else .fail))
    else if t == "project" then
      -- project K idx.. N body: the body is read again, with the cells standing for the walked values of the
      -- projected variables, whenever the goal is solved (`Project::solve` walks*, then solves the body at once)
      match nat ts with
      | some (k, ts) => match natsF k ts with
        | some (idxs, ts) => match nat ts with
          | some (m, ts) =>
            -- first pass with the cells unassigned: finds where the body ends
            match goalsF n dfs env m ts with
            | some (_, rest) =>
              let bodyToks := ts.take (ts.length - rest.length)
              some (.dyn id (fun st =>
                let env' := (idxs.zipIdx.map fun p => (900 + p.2, apply st.σ (.var p.1))) ++ env
                match goalsF n dfs env' m bodyToks with
                | some (gs, _) => if dfs then Goal.conjDOfList gs else Goal.conjOfList gs
                | none => .fail), rest)
            | none => none
          | none => none
        | none => none
      | none => none
    else if t == "probe" then some (.atom (liftRes fun st => .ok st), ts)
    else if t == "plusz" then t3 (pluszG ord0)
    else if t == "timesz" then t3 (timeszG ord0)
    else none

def goalsF : Nat → Bool → List (Nat × Term) → Nat → P (List G)
  | 0, _, _, _, _ => none
  | _, _, _, 0, ts => some ([], ts)
  | n + 1, dfs, env, k + 1, ts =>
    match goalF n dfs env ts with
    | some (g, ts) => match goalsF n dfs env k ts with
      | some (gs, ts) => some (g :: gs, ts)
      | none => none
    | none => none

def clausesF : Nat → Bool → List (Nat × Term) → Nat → P (List (List G))
  | 0, _, _, _, _ => none
  | _, _, _, 0, ts => some ([], ts)
  | n + 1, dfs, env, k + 1, ts =>
    match nat ts with
    | some (m, ts) => match goalsF n dfs env m ts with
      | some (c, ts) => match clausesF n dfs env k ts with
        | some (cs, ts) => some (c :: cs, ts)
        | none => none
      | none => none
    | none => none
end

def U8 : List Term :=
  [Term.num 1, Term.num 2, Term.num 3, Term.num 8, .val (.bool true), .nil, .cons (Term.num 1) .nil,
   .comp 0 (.cons (Term.num 1) (.cons (Term.num 2) .nil))]

/-- ground instance of a term under a valuation of (some) variables; unlisted variables ↦ 8 -/
def ginst (γ : List (Nat × Term)) (t : Term) : Term :=
  apply (fun y => match γ.find? (fun p => p.1 == y) with | some p => p.2 | none => Term.num 8) t

/-- all valuations of the variables `xs` over `U8`, first variable outermost -/
def valuations : List Nat → List (List (Nat × Term))
  | [] => [[]]
  | x :: xs => U8.flatMap fun u => (valuations xs).map fun γ => (x, u) :: γ

def satisfied (γ : List (Nat × Term)) (cs : List Ext1) : Bool :=
  cs.all fun c => c.any fun q => ginst γ (.var q.1) != ginst γ q.2

def hexDigit (n : Nat) : Char := "0123456789abcdef".toList.getD n '?'

partial def bitsToHex : List Bool → String
  | [] => ""
  | bs =>
    let chunk := bs.take 4
    let v := chunk.foldl (fun acc b => acc * 2 + (if b then 1 else 0)) 0
    let v := v * 2 ^ (4 - chunk.length)
    String.singleton (hexDigit v) ++ bitsToHex (bs.drop 4)

/-- truth table of a constraint set over the valuations of the first three answer variables -/
def truthTable (anys : List Nat) (cs : List Ext1) : String :=
  if cs.isEmpty then "-" else bitsToHex ((valuations (anys.take 3)).map fun γ => satisfied γ cs)

/-- insertion sort of the result lines (counter mode compares multisets) -/
def insertStr (x : String) : List String → List String
  | [] => [x]
  | y :: ys => if x ≤ y then x :: y :: ys else y :: insertStr x ys
def sortStrs (l : List String) : List String := l.foldr insertStr []

/-- counter mode (C22): the answer terms and the hook counters the final probe sees -/
def showCounted (diff : Bool) (qs : List Term) (st : State) : String :=
  let terms := qs.map (apply st.σ)
  let cs := if diff then s!"{st.withs - st.takes} 0 {st.store.length}" else s!"{st.withs} {st.takes} {st.store.length}"
  showTuple terms ++ " @ - @ " ++ " ".intercalate (terms.map fun _ => "-") ++ " @ " ++ cs

def showAnswer (a : Answer) : String :=
  let order := a.anys
  let ts := " ; ".intercalate (a.terms.map (showTerm (fun x => order.idxOf? x)))
  let tt := truthTable order a.constraints
  let rel := " ".intercalate (a.relevant.map fun idx =>
    truthTable order (idx.filterMap fun i => a.constraints[i]?))
  s!"{ts} @ {tt} @ {rel}"

/-- raw observation: walk* of the query variables in the state as the goal produced it -/
def showRaw (qs : List Term) (st : State) : String :=
  let terms := qs.map (apply st.σ)
  showTuple terms ++ " @ - @ " ++ " ".intercalate (terms.map fun _ => "-")

/-- STATE DUMP (`rst` mode): walk* of every program variable, the finite-domain store and the constraint
    store of the state, canonical (sorted) — compared with the same dump of the real solver state -/
def showDump (nv : Nat) (st : State) : String :=
  let tm (t : Term) : String := showTerm (fun _ => none) (apply st.σ t)
  let terms := (List.range nv).map fun x => tm (.var x)
  let doms := sortStrs (st.dstore.map fun p =>
    s!"{tm (.var p.1)}=\{{",".intercalate (p.2.iter.map fun (v : Int) => toString v)}}")
  let ops (l : List Term) : String := " , ".intercalate (l.map tm)
  let cs := sortStrs (st.store.map fun p =>
    match p.2 with
    | .diseq ps =>
      -- canonical form: each pair's term resolved by the constraint's own pairs first
      let own (t : Term) : Term := match State.substOfPairs ps with | some τ => apply τ t | none => t
      "diseq " ++ " & ".intercalate (sortStrs (ps.map fun q => s!"{tm (.var q.1)}!={tm (own q.2)}"))
    | .plusz u v w => "plusz " ++ ops [u, v, w]
    | .timesz u v w => "timesz " ++ ops [u, v, w]
    | .ltefd u v => "ltefd " ++ ops [u, v]
    | .plusfd u v w => "plusfd " ++ ops [u, v, w]
    | .minusfd u v w => "minusfd " ++ ops [u, v, w]
    | .timesfd u v w => "timesfd " ++ ops [u, v, w]
    | .diseqfd u v => "diseqfd " ++ ops [u, v]
    | .distinctfd u => "distinctfd " ++ ops [u]
    | .distinctfd2 u _ _ => "distinctfd2 " ++ ops u.iterItems)
  " ; ".intercalate terms ++ " # D[" ++ " ; ".intercalate doms ++ "] C[" ++ " ; ".intercalate cs ++ "]"

def topFuel : Nat := 40
def defaultFuel : Nat := 20000

/-- the solver used for paused goals; `fuel` also bounds the `peek`/`trunc` loops of `conda`/`condu` -/
def topSolver (fuel : Nat) : G → State → Strm State Call := solveAt (defs ord0) fuel topFuel

/-- Collect up to `k` answers (`k = 0`: all) within `fuel` units IN TOTAL: the loop of
    `ResultIterator::next` over `Solver::next`; one unit per engine `step` and per delivered answer. -/
def collect (raw cnt diff : Bool) (qs : List Term) (pf : Nat) (dump : Option Nat := none) :
    Nat → Nat → Strm State Call → List String → List String
  | _, _, .empty, acc => acc.reverse
  | 0, _, _, acc => acc.reverse ++ ["FUEL"]
  | fuel + 1, k, .lazy l, acc => collect raw cnt diff qs pf dump fuel k (step (topSolver pf) l) acc
  | fuel + 1, k, .unit st, acc => emit fuel k st .empty acc
  | fuel + 1, k, .cons st l, acc => emit fuel k st (.lazy l) acc
where
  emit (fuel k : Nat) (st : State) (rest : Strm State Call) (acc : List String) : List String :=
    match st.panic with
    | some site => if site == "FUEL" then acc.reverse ++ ["FUEL"] else [s!"PANIC {site}"]
    | none =>
      let ans := match dump with
        | some nv => showDump nv st
        | none => if raw then showRaw qs st else if cnt then showCounted diff qs st else showAnswer (mkAnswer ord0 qs st)
      let acc := ans :: acc
      if acc.length == k then acc.reverse else collect raw cnt diff qs pf dump fuel k rest acc

def runProg (ts : Toks) : String :=
  match nat ts with
  | some (nv, ts) => match nat ts with
    | some (nq, ts) => match nat ts with
      | some (take, ts) => match ts with
        | flags :: ts =>
            -- body goals until the end of the line
            let rec bodyF : Nat → Toks → Option (List G)
              | 0, _ => none
              | _, [] => some []
              | n + 1, ts => match goalF (ts.length + 2) false [] ts with
                | some (g, ts) => (bodyF n ts).map (g :: ·)
                | none => none
            match bodyF (ts.length + 1) ts with
            | none => "bad-case"
            | some body =>
              let qs := (List.range nq).map Term.var
              let qv := Term.var nv
              let st0 := State.empty (nv + 1)
              let fl := flags.splitOn ":"
              let dump := fl.head? == some "rst"
              let raw := fl.head? == some "raw" || dump
              let fuel? : Option Nat := match fl with
                | [_] => some defaultFuel
                | [_, f] => f.toNat?
                | _ => none
              match fuel? with
              | none => "bad-case"
              | some fuel =>
              let diff := fl.head? == some "cnd"
              let cnt := fl.head? == some "cnt" || diff
              let probe : G := .atom (liftRes fun st => .ok st)
              let s := if raw then topSolver fuel (Goal.conjOfList body) st0
                       else if cnt then topSolver fuel (.fresh (Goal.conjOfList
                         [eqG ord0 qv (Term.ofList qs), Goal.conjOfList body, reifyG ord0 qv, probe])) st0
                       else topSolver fuel (queryG ord0 qv qs body) st0
              let answers := collect raw cnt diff qs fuel (if dump then some nv else none) fuel take s []
              let answers := if cnt then sortStrs answers else answers
              if answers.isEmpty then "none" else " || ".intercalate answers
        | [] => "bad-case"
      | none => "bad-case"
    | none => "bad-case"
  | none => "bad-case"

end Pv.Drv
