import PvModel.Model.Surface
import Driver.Term
/-! `surf <nq> SGOAL` case lines: the surface AST goes through `Surface.elabG` (the Lean model of the macro
    translation) and the elaborated goal is printed in the flat format the harness prints for its reference
    elaboration. -/
namespace Pv.Drv
open Pv Pv.Surface

def stermF : Nat → P STerm
  | 0, _ => none
  | _, [] => none
  | n + 1, t :: ts =>
    if t == "nil" then some (.nil, ts)
    else if t == "any" then some (.any, ts)
    else if t == "cons" then
      match stermF n ts with
      | some (h, ts) => match stermF n ts with
        | some (tl, ts) => some (.cons h tl, ts)
        | none => none
      | none => none
    else match dropPrefix? t "comp" with
    | some r => match r.toNat? with
      | some g => match stermF n ts with
        | some (a, ts) => some (.comp g a, ts)
        | none => none
      | none => none
    | none =>
    match dropPrefix? t "ch" with
      | some r => r.toNat?.map (fun c => (.val (.chr c), ts))
      | none => match dropPrefix? t "v" with
        | some r => r.toNat?.map (fun x => (.var x, ts))
        | none => match dropPrefix? t "i" with
          | some r => r.toInt?.map (fun i => (.val (.num i), ts))
          | none => match dropPrefix? t "b" with
            | some r => if r == "1" then some (.val (.bool true), ts) else if r == "0" then some (.val (.bool false), ts) else none
            | none => match dropPrefix? t "s" with
              | some r => r.toNat?.map (fun s => (.val (.str s), ts))
              | none => none

def sgoalF : Nat → P SGoal
  | 0, _ => none
  | _, [] => none
  | n + 1, t :: ts =>
    let two (mk : STerm → STerm → SGoal) : Option (SGoal × Toks) :=
      match stermF (ts.length + 1) ts with
      | some (a, ts) => match stermF (ts.length + 1) ts with
        | some (b, ts) => some (mk a b, ts)
        | none => none
      | none => none
    let bin (mk : SGoal → SGoal → SGoal) : Option (SGoal × Toks) :=
      match sgoalF n ts with
      | some (a, ts) => match sgoalF n ts with
        | some (b, ts) => some (mk a b, ts)
        | none => none
      | none => none
    if t == "eq" then two .eq
    else if t == "neq" then two .neq
    else if t == "tt" then some (.tt, ts)
    else if t == "ff" then some (.ff, ts)
    else if t == "conj" then bin .conj
    else if t == "disj" then bin .disj
    else if t == "fresh" then
      match nat ts with
      | some (x, ts) => match sgoalF n ts with
        | some (g, ts) => some (.fresh x g, ts)
        | none => none
      | none => none
    else if t == "mtch" then
      match stermF (ts.length + 1) ts with
      | some (tm, ts) => match stermF (ts.length + 1) ts with
        | some (p, ts) => match sgoalF n ts with
          | some (body, ts) => match sgoalF n ts with
            | some (rest, ts) => some (.mtch tm p body rest, ts)
            | none => none
          | none => none
        | none => none
      | none => none
    else none

def flatT (t : Term) : String := showTerm (fun _ => none) t

mutual
partial def flatConj : EGoal → List String
  | .conj a b => flatConj a ++ flatConj b
  | .succ => []
  | .fresh g => flatConj g     -- scoping carries no ids: a fresh body joins the enclosing conjunction
  | g => [flatE g]
partial def flatDisj : EGoal → List String
  | .disj a b => flatDisjArm a ++ flatDisj b
  | .fail => []
  | g => [flatE g]
/-- one clause of a disjunction: always printed as a conjunction -/
partial def flatDisjArm (g : EGoal) : List String := ["(& " ++ " ; ".intercalate (flatConj g) ++ ")"]
partial def flatE : EGoal → String
  | .eq a b => s!"eq {flatT a} {flatT b}"
  | .neq a b => s!"neq {flatT a} {flatT b}"
  | .succ => "succ"
  | .fail => "fail"
  | .conj a b => "(& " ++ " ; ".intercalate (flatConj (.conj a b)) ++ ")"
  | .disj a b => "(| " ++ " ; ".intercalate (flatDisj (.disj a b)) ++ ")"
  | .fresh g => "(& " ++ " ; ".intercalate (flatConj g) ++ ")"
end

def runSurf (ts : Toks) : String :=
  match nat ts with
  | some (nq, ts) =>
    match sgoalF (ts.length + 1) ts with
    | some (g, []) =>
      -- query names are 0..nq-1 and stand for the ids 0..nq-1; elaboration starts at counter nq
      "(& " ++ " ; ".intercalate (flatConj (elabG (fun x => x) g nq).1) ++ ")"
    | _ => "bad-case"
  | none => "bad-case"

end Pv.Drv
