import PvModel.Model.FD
import Driver.Parse
/-! `fd …` case lines: direct calls of the FiniteDomain model. -/
namespace Pv.Drv
open Pv.FD

def dom : P (Option FD)   -- inner none = constructor panics (empty vector)
  | "I" :: ts => match int ts with
    | some (lo, ts) => match int ts with
      | some (hi, ts) => some (some (FD.interval lo hi), ts)
      | none => none
    | none => none
  | "V" :: ts => match nat ts with
    | some (n, ts) => match many int n ts with
      | some (xs, ts) => some (FD.ofVec? xs, ts)
      | none => none
    | none => none
  | _ => none

def cmpPred (c : String) (k : Int) : Option (Int → Bool) :=
  match c with
  | "lt" => some (fun u => decide (u < k))
  | "le" => some (fun u => decide (u ≤ k))
  | "gt" => some (fun u => decide (u > k))
  | "ge" => some (fun u => decide (u ≥ k))
  | _ => none

def showDom : Option FD → String
  | none => "none"
  | some (.interval lo hi) =>
    if hi - lo < 64 then showInts (FD.rangeIncl lo hi) else s!"I {lo} {hi}"
  | some (.sparse xs) => showInts xs

def showOptInt : Option Int → String
  | some i => toString i
  | none => "PANIC unwrap"

def runFD (ts : Toks) : String :=
  match ts with
  | op :: ts =>
    match dom ts with
    | some (none, _) => "PANIC empty-domain"
    | none => "bad-case"
    | some (some a, ts) =>
      if op == "intersect" || op == "diff" || op == "disjoint" || op == "eq" then
        match dom ts with
        | some (some b, []) =>
          if op == "intersect" then showDom (a.intersect b)
          else if op == "diff" then showDom (a.diff b)
          else if op == "disjoint" then
            match a.isDisjoint b with
            | some r => toString r
            | none => "PANIC unwrap"
          else toString (a.beq b)
        | some (none, _) => "PANIC empty-domain"
        | _ => "bad-case"
      else if op == "contains" then
        match int ts with
        | some (x, []) => toString (a.contains x)
        | _ => "bad-case"
      else if op == "copyb" || op == "dropb" then
        match ts with
        | [c, k] => match k.toInt? with
          | some k => match cmpPred c k with
            | some p => if op == "copyb" then showDom (a.copyBefore p) else showDom (a.dropBefore p)
            | none => "bad-case"
          | none => "bad-case"
        | _ => "bad-case"
      else if ts != [] then "bad-case"
      else if op == "min" then showOptInt a.min?
      else if op == "max" then showOptInt a.max?
      else if op == "single" then toString a.isSingleton
      else if op == "singleval" then
        (match a.singletonValue with | some v => toString v | none => "none")
      else if op == "iter" then showInts a.iter
      else if op == "iterrev" then showInts a.iterRev
      else "bad-case"
  | [] => "bad-case"

end Pv.Drv
