import Driver.Term
import PvModel.Model.Triangular
/-! `unify <nvars> <k> (u v)*k U V` : C01 cases -/
namespace Pv.Drv
open Pv

def runHistory : Subst → List (Term × Term) → Option (Option Subst)
  | σ, [] => some (some σ)
  | σ, (a, b) :: hs =>
    match unifyF unifyFuel σ [] a b with
    | none => none
    | some none => some none
    | some (some (σ', _)) => runHistory σ' hs

def pairs : Nat → P (List (Term × Term))
  | 0, ts => some ([], ts)
  | n + 1, ts => match term ts with
    | some (a, ts) => match term ts with
      | some (b, ts) => match pairs n ts with
        | some (ps, ts) => some ((a, b) :: ps, ts)
        | none => none
      | none => none
    | none => none

def runUnify (ts : Toks) : String :=
  match nat ts with
  | some (nv, ts) => match nat ts with
    | some (k, ts) => match pairs k ts with
      | some (hist, ts) => match term ts with
        | some (u, ts) => match term ts with
          | some (v, []) =>
            match runHistory Subst.id hist with
            | none => "FUEL"
            | some none => "history-fails"
            | some (some σ) =>
              match unifyF unifyFuel σ [] u v with
              | none => "FUEL"
              | some none => "fail"
              | some (some (σ', _)) =>
                let tuple := apply σ' u :: apply σ' v :: (List.range nv).map (fun x => σ' x)
                "ok " ++ showTuple tuple
          | _ => "bad-case"
        | none => "bad-case"
      | none => "bad-case"
    | none => "bad-case"
  | none => "bad-case"

/-! `unifyT <nvars> <k> (u v)*k U V` : the same cases through the TRIANGULAR model (Model/Triangular.lean).  The
    output is the `unify` observable followed by ` ;raw ` and, per case variable, the STORED right-hand side of its
    binding (`-` when unbound) — what `HashMap::get` returns in the implementation, bound variables unreplaced. -/

def runHistoryT : TSub → List (Term × Term) → Option (Option TSub)
  | τ, [] => some (some τ)
  | τ, (a, b) :: hs =>
    match unifyT unifyFuel unifyFuel τ [] a b with
    | none => none
    | some none => some none
    | some (some (τ', _)) => runHistoryT τ' hs

def allSome : List (Option Term) → Option (List Term)
  | [] => some []
  | none :: _ => none
  | some t :: r => (allSome r).map (t :: ·)

def runUnifyT (ts : Toks) : String :=
  match nat ts with
  | some (nv, ts) => match nat ts with
    | some (k, ts) => match pairs k ts with
      | some (hist, ts) => match term ts with
        | some (u, ts) => match term ts with
          | some (v, []) =>
            match runHistoryT [] hist with
            | none => "FUEL"
            | some none => "history-fails"
            | some (some τ) =>
              match unifyT unifyFuel unifyFuel τ [] u v with
              | none => "FUEL"
              | some none => "fail"
              | some (some (τ', _)) =>
                match allSome ((u :: v :: (List.range nv).map Term.var).map (walkStarT unifyFuel τ')) with
                | none => "FUEL"
                | some tuple =>
                  let raw := (List.range nv).map (fun x => match τ'.get x with
                    | none => "-"
                    | some t => showTerm (fun _ => none) t)
                  "ok " ++ showTuple tuple ++ " ;raw " ++ " , ".intercalate raw
          | _ => "bad-case"
        | none => "bad-case"
      | none => "bad-case"
    | none => "bad-case"
  | none => "bad-case"

end Pv.Drv
