import Driver.Parse
import Driver.FD
import Driver.Unify
import Driver.Prog
import Driver.LTerm
import Driver.Surf
/-!
  pvdriver: reads one case per line on stdin, runs the executable model, prints one canonical
  result line per case.  Unknown or malformed lines print `bad-case`.
-/
open Pv.Drv

def runLine (line : String) : String :=
  let ts := (line.trimAscii.toString.splitOn " ").filter (· ≠ "")
  match ts with
  | "fd" :: rest => runFD rest
  | "unify" :: rest => runUnify rest
  | "unifyT" :: rest => runUnifyT rest
  | "prog" :: rest => runProg rest
  | "lt" :: rest => runLT rest
  | "surf" :: rest => runSurf rest
  | _ => "bad-case"

partial def loop (h : IO.FS.Stream) (out : IO.FS.Stream) : IO Unit := do
  let line ← h.getLine
  if line.isEmpty then return ()
  out.putStrLn (runLine line)
  loop h out

def main : IO Unit := do
  let out ← IO.getStdout
  loop (← IO.getStdin) out
  out.flush
