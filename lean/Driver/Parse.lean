/-
  Line-protocol reader shared by all case kinds: a case line is a list of space-separated
  tokens; readers consume a prefix of the token list and fail (`none`) on anything malformed —
  never a default value.
-/
namespace Pv.Drv

abbrev Toks := List String
abbrev P (α : Type) := Toks → Option (α × Toks)

def tok : P String
  | [] => none
  | t :: ts => some (t, ts)

def int : P Int
  | [] => none
  | t :: ts => match t.toInt? with
    | some i => some (i, ts)
    | none => none

def nat : P Nat
  | [] => none
  | t :: ts => match t.toNat? with
    | some i => some (i, ts)
    | none => none

def many {α} (p : P α) : Nat → P (List α)
  | 0, ts => some ([], ts)
  | n + 1, ts => match p ts with
    | some (a, ts) => match many p n ts with
      | some (as, ts) => some (a :: as, ts)
      | none => none
    | none => none

def showInts (xs : List Int) : String :=
  "{" ++ " ".intercalate (xs.map toString) ++ "}"

end Pv.Drv
