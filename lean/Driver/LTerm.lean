import PvModel.Model.LTermOps
import Driver.Term
/-! `lt …` case lines: direct calls of the `LTerm` API (C21). -/
namespace Pv.Drv
open Pv Term

def shT (t : Term) : String := showTerm (fun _ => none) t
def b01 (b : Bool) : String := if b then "1" else "0"

def runLT (ts : Toks) : String :=
  match ts with
  | "eq" :: ts =>
    match term ts with
    | some (a, ts) => match term ts with
      | some (b, []) => b01 (termEq a b) ++ " " ++ b01 (decide (hashFeed a = hashFeed b))
      | _ => "bad-case"
    | none => "bad-case"
  | "fromvec" :: ts =>
    match nat ts with
    | some (n, ts) => match many term n ts with
      | some (xs, []) => shT (Term.ofList xs)
      | _ => "bad-case"
    | none => "bad-case"
  | "improper" :: ts =>
    match nat ts with
    | some (n, ts) => match many term n ts with
      | some (xs, []) =>
        match xs.reverse with
        | [] => "PANIC"
        | last :: revInit => shT (Term.improperOfList revInit.reverse last)
      | _ => "bad-case"
    | none => "bad-case"
  | "iter" :: ts =>
    match term ts with
    | some (t, []) => toString t.iterItems.length ++ " : " ++ " ; ".intercalate (t.iterItems.map shT)
    | _ => "bad-case"
  | "itermut" :: ts =>
    match term ts with
    | some (t, []) => shT (mapItems (fun i _ => Term.num (100 + i)) 0 t)
    | _ => "bad-case"
  | "extend" :: ts =>
    match term ts with
    | some (t, ts) => match nat ts with
      | some (n, ts) => match many term n ts with
        | some (ys, []) => match extend? t ys with
          | some r => shT r
          | none => "PANIC"
        | _ => "bad-case"
      | none => "bad-case"
    | none => "bad-case"
  | "index" :: ts =>
    match term ts with
    | some (t, ts) => match nat ts with
      | some (i, []) => match index? t i with
        | some r => shT r
        | none => "PANIC"
      | _ => "bad-case"
    | none => "bad-case"
  | "info" :: ts =>
    match term ts with
    | some (t, []) =>
      let o (x : Option Term) := match x with | some u => shT u | none => "-"
      s!"{o t.head?} | {o t.tail?} | {b01 t.isList} {b01 t.isEmptyT} {b01 t.isImproper}"
    | _ => "bad-case"
  | "contains" :: ts =>
    match term ts with
    | some (t, ts) => match term ts with
      | some (x, []) => b01 (containsT t x)
      | _ => "bad-case"
    | none => "bad-case"
  | "display" :: ts =>
    match term ts with
    | some (t, []) => display t
    | _ => "bad-case"
  | _ => "bad-case"

end Pv.Drv
