/-
  Reference semantics of pure tree constraints: valuations are arbitrary substitutions `γ`
  (ground valuations are the special case), `u == v` means `apply γ u = apply γ v`,
  `u != v` means `apply γ u ≠ apply γ v`.
-/
import PvModel.Model.State
namespace Pv

inductive TAtom where
  | eq (u v : Term)
  | neq (u v : Term)

def TAtom.Sat (γ : Subst) : TAtom → Prop
  | .eq u v => apply γ u = apply γ v
  | .neq u v => apply γ u ≠ apply γ v

/-- a stored disequality `ps` holds under γ: some pair is different -/
def DiseqHolds (γ : Subst) (ps : Ext1) : Prop := ∃ q ∈ ps, apply γ (.var q.1) ≠ apply γ q.2

/-- every stored disequality holds under γ -/
def StoreSem (γ : Subst) (st : State) : Prop :=
  ∀ p ∈ st.store, ∀ ps, p.2 = .diseq ps → DiseqHolds γ ps

/-- γ is described by the state: an instance of its substitution satisfying its constraint store -/
def StateSem (γ : Subst) (st : State) : Prop := Ext st.σ γ ∧ StoreSem γ st

/-- only disequalities in the store, no finite domains -/
def TreeOnly (st : State) : Prop := (∀ p ∈ st.store, p.2.isDiseq = true) ∧ st.dstore = []

/-- constraint identities model `Rc` pointers: distinct in the store, and smaller than the next fresh one -/
def IdsOK (st : State) : Prop := (st.store.map (·.1)).Nodup ∧ ∀ p ∈ st.store, p.1 < st.nextId

/-- well-formed tree state: solved substitution, tree-only store, identities distinct -/
def Good (st : State) : Prop := Solved st.σ ∧ TreeOnly st ∧ IdsOK st

/-- the iteration orders are permutations -/
def OrderOK (ord : Order) : Prop :=
  (∀ l, (ord.cs l).Perm l) ∧ (∀ l, (ord.ps l).Perm l) ∧ (∀ l, (ord.ds l).Perm l)

/-- posting one atom: `State::unify` / `State::disunify` -/
def postAtom (ord : Order) (st : State) : TAtom → Res State
  | .eq u v => st.unify ord u v
  | .neq u v => st.disunify ord u v

/-- posting a list of atoms in order -/
def postAll (ord : Order) : State → List TAtom → Res State
  | st, [] => .ok st
  | st, a :: as => (postAtom ord st a).bind fun st' => postAll ord st' as

end Pv
