/-
  Reference semantics of a solver state with CLP(FD)/CLP(Z) constraints and finite domains:
  the set of valuations γ (substitutions; the constrained variables must be integers under γ) that
  extend the state's substitution, satisfy every stored constraint and respect every stored domain.
-/
import PvModel.Spec.Tree
namespace Pv
open Term

/-- the term denotes the integer `n` under γ -/
def NumAt (γ : Subst) (t : Term) (n : Int) : Prop := apply γ t = Term.num n

/-- meaning of one constraint under a valuation -/
def CstSem (γ : Subst) : Cst → Prop
  | .diseq ps => DiseqHolds γ ps
  | .plusz u v w => ∃ a b c, NumAt γ u a ∧ NumAt γ v b ∧ NumAt γ w c ∧ a + b = c
  | .timesz u v w => ∃ a b c, NumAt γ u a ∧ NumAt γ v b ∧ NumAt γ w c ∧ a * b = c
  | .plusfd u v w => ∃ a b c, NumAt γ u a ∧ NumAt γ v b ∧ NumAt γ w c ∧ a + b = c
  | .minusfd u v w => ∃ a b c, NumAt γ u a ∧ NumAt γ v b ∧ NumAt γ w c ∧ a - b = c
  | .timesfd u v w => ∃ a b c, NumAt γ u a ∧ NumAt γ v b ∧ NumAt γ w c ∧ a * b = c
  | .ltefd u v => ∃ a b, NumAt γ u a ∧ NumAt γ v b ∧ a ≤ b
  | .diseqfd u v => ∃ a b, NumAt γ u a ∧ NumAt γ v b ∧ a ≠ b
  | .distinctfd u => ∃ ns : List Int, apply γ u = Term.ofList (ns.map Term.num) ∧ ns.Nodup
  | .distinctfd2 _ y n => ∃ ns : List Int, y.map (apply γ) = ns.map Term.num ∧ ns.Nodup ∧ ∀ k ∈ ns, k ∉ n

/-- every variable lies in its stored domain.  `I` is a set of variables whose entries are IGNORED: entries
    of variables that a unification has just bound and that `process_extension_fd` is about to remove
    (`I = fun _ => False` everywhere else). -/
def DomSem (I : Nat → Prop) (γ : Subst) (st : State) : Prop :=
  ∀ p ∈ st.dstore, ¬ I p.1 → ∃ n, NumAt γ (.var p.1) n ∧ p.2.Mem n

/-- the valuations a state describes -/
def Sem (I : Nat → Prop) (γ : Subst) (st : State) : Prop :=
  Ext st.σ γ ∧ (∀ p ∈ st.store, CstSem γ p.2) ∧ DomSem I γ st

/-- only bound variables are ignored -/
def IOK (I : Nat → Prop) (st : State) : Prop := ∀ y, I y → st.σ y ≠ .var y

/-- `distinctfd` and its worker constraint (outside the fragment the global theorems cover) -/
def Cst.isDistinct : Cst → Bool
  | .distinctfd _ => true
  | .distinctfd2 .. => true
  | _ => false

/-- well-formed state (the part the semantics needs): solved substitution, one well-formed domain per
    variable, no `distinctfd` constraint in the store -/
structure WFS (st : State) : Prop where
  solved : Solved st.σ
  dnodup : (st.dstore.map (·.1)).Nodup
  dwf : ∀ p ∈ st.dstore, FD.WF p.2
  nodist : ∀ p ∈ st.store, p.2.isDistinct = false

/-- what propagation may do to the substitution and the domain store: the substitution is extended,
    an unbound variable stays unbound or becomes a NUMBER, and a variable that stays unbound keeps
    having a domain if it had one -/
structure Keeps (st st' : State) : Prop where
  ext : Ext st.σ st'.σ
  numonly : ∀ y, st.σ y = .var y → st'.σ y = .var y ∨ ∃ n, st'.σ y = Term.num n
  dom : ∀ y, st.σ y = .var y → st'.σ y = .var y → (st.dget y).isSome → (st'.dget y).isSome
  /-- bindings are never undone -/
  mono : ∀ y, st'.σ y = .var y → st.σ y = .var y
  /-- new domain entries are for variables that were unbound -/
  keys : ∀ y, (st'.dget y).isSome → (st.dget y).isSome ∨ st.σ y = .var y
  /-- entries of bound variables are not touched -/
  bound : ∀ y, st.σ y ≠ .var y → st'.dget y = st.dget y

/-- `r` is the outcome of adding the condition `S` to the state `st`: on success the new state
    describes exactly the valuations of `st` that satisfy `S` (nothing lost, nothing invented); failure
    means no valuation of `st` satisfies `S`; a PANIC is excluded.  (Fuel exhaustion claims nothing.) -/
def Ref (I : Nat → Prop) (S : Subst → Prop) (st : State) : Res State → Prop
  | .ok st' => WFS st' ∧ Keeps st st' ∧ ∀ γ, Sem I γ st' ↔ (Sem I γ st ∧ S γ)
  | .fail => ∀ γ, ¬ (Sem I γ st ∧ S γ)
  | .fuel => True
  | .panic _ => False

end Pv
