/-
  Reference semantics of a solver state with CLP(FD)/CLP(Z) constraints and finite domains:
  the set of valuations γ (substitutions; the constrained variables must be integers under γ) that
  extend the state's substitution, satisfy every stored constraint and respect every stored domain.
-/
import PvModel.Spec.Tree
namespace Pv
open Term

/-- the term denotes the integer `n` under γ -/
def NumAt (γ : Subst) (t : Term) (n : Int) : Prop := apply γ t = Term.num n

/-- meaning of one constraint under a valuation -/
def CstSem (γ : Subst) : Cst → Prop
  | .diseq ps => DiseqHolds γ ps
  | .plusz u v w => ∃ a b c, NumAt γ u a ∧ NumAt γ v b ∧ NumAt γ w c ∧ a + b = c
  | .timesz u v w => ∃ a b c, NumAt γ u a ∧ NumAt γ v b ∧ NumAt γ w c ∧ a * b = c
  | .plusfd u v w => ∃ a b c, NumAt γ u a ∧ NumAt γ v b ∧ NumAt γ w c ∧ a + b = c
  | .minusfd u v w => ∃ a b c, NumAt γ u a ∧ NumAt γ v b ∧ NumAt γ w c ∧ a - b = c
  | .timesfd u v w => ∃ a b c, NumAt γ u a ∧ NumAt γ v b ∧ NumAt γ w c ∧ a * b = c
  | .ltefd u v => ∃ a b, NumAt γ u a ∧ NumAt γ v b ∧ a ≤ b
  | .diseqfd u v => ∃ a b, NumAt γ u a ∧ NumAt γ v b ∧ a ≠ b
  | .distinctfd u => ∃ ns : List Int, apply γ u = Term.ofList (ns.map Term.num) ∧ ns.Nodup
  | .distinctfd2 _ y n => ∃ ns : List Int, y.map (apply γ) = ns.map Term.num ∧ ns.Nodup ∧ ∀ k ∈ ns, k ∉ n

/-- every variable lies in its stored domain.  `I` is a set of variables whose entries are IGNORED: entries
    of variables that a unification has just bound and that `process_extension_fd` is about to remove
    (`I = fun _ => False` everywhere else). -/
def DomSem (I : Nat → Prop) (γ : Subst) (st : State) : Prop :=
  ∀ p ∈ st.dstore, ¬ I p.1 → ∃ n, NumAt γ (.var p.1) n ∧ p.2.Mem n

/-- the valuations a state describes -/
def Sem (I : Nat → Prop) (γ : Subst) (st : State) : Prop :=
  Ext st.σ γ ∧ (∀ p ∈ st.store, CstSem γ p.2) ∧ DomSem I γ st

/-- nothing is ignored.  (The set `I` is vestigial: an earlier version of the proof ignored the entries of
    the variables a unification had just bound; `exclude_from_domain` reads such an entry, so every stored
    entry now counts — see `Keeps.shrink` and `extStep_sem`.) -/
def IOK (I : Nat → Prop) (_st : State) : Prop := ∀ y, ¬ I y

/-- nothing is ignored at top level -/
def NoI : Nat → Prop := fun _ => False

/-- the two modes the theorems are stated in.  STRICT (`allow = False`): no `distinctfd` constraint is ever
    posted; then no panic site of the state machine is reachable.  LAX (`allow = True`): `distinctfd` is
    allowed; its three panic sites (an element that is bound to something that is not an integer) are then
    reachable, but only from states that describe NO valuation — the panic stands for a failure. -/
class Mode where
  allow : Prop

/-- no `distinctfd` anywhere: no panic site is reachable -/
@[reducible] def Mode.strict : Mode := ⟨False⟩
/-- `distinctfd` allowed -/
@[reducible] def Mode.lax : Mode := ⟨True⟩

/-- the panic sites of `distinctfd` -/
def DP (s : String) : Prop := s = "distinctfd-const" ∨ s = "distinctfd-term" ∨ s = "distinctfd-value"

/-- `distinctfd` and its worker constraint (outside the fragment the global theorems cover) -/
def Cst.isDistinct : Cst → Bool
  | .distinctfd _ => true
  | .distinctfd2 .. => true
  | _ => false

/-- what a stored constraint must satisfy: `distinctfd` only in the lax mode and on a PROPER list term (the
    elements of an open-tailed list are not known when the constraint is posted; `iter()` would take the
    tail variable for an element); the constants its worker has collected are strictly sorted (they are
    kept so by binary insertion) -/
def CstOK [Mode] : Cst → Prop
  | .distinctfd u => Mode.allow ∧ ∃ l : List Term, u = Term.ofList l
  | .distinctfd2 _ _ n => Mode.allow ∧ FD.StrictSorted n
  | _ => True

theorem CstOK.of_not_distinct [Mode] {c : Cst} (h : c.isDistinct = false) : CstOK c := by
  cases c <;> first | trivial | cases h

theorem CstOK.strict {c : Cst} (h : @CstOK Mode.strict c) : c.isDistinct = false := by
  cases c <;> first | rfl | exact h.1.elim

/-- well-formed state (the part the semantics needs): solved substitution, one well-formed domain per
    variable, stored constraints admissible in the mode -/
structure WFS [Mode] (st : State) : Prop where
  solved : Solved st.σ
  dnodup : (st.dstore.map (·.1)).Nodup
  dwf : ∀ p ∈ st.dstore, FD.WF p.2
  nodist : ∀ p ∈ st.store, CstOK p.2

/-- what propagation may do to the substitution and the domain store: the substitution is extended,
    an unbound variable stays unbound or becomes a NUMBER, and a variable that stays unbound keeps
    having a domain if it had one -/
structure Keeps (st st' : State) : Prop where
  ext : Ext st.σ st'.σ
  numonly : ∀ y, st.σ y = .var y → st'.σ y = .var y ∨ ∃ n, st'.σ y = Term.num n
  dom : ∀ y, st.σ y = .var y → st'.σ y = .var y → (st.dget y).isSome → (st'.dget y).isSome
  /-- bindings are never undone -/
  mono : ∀ y, st'.σ y = .var y → st.σ y = .var y
  /-- new domain entries are for variables that were unbound -/
  keys : ∀ y, (st'.dget y).isSome → (st.dget y).isSome ∨ st.σ y = .var y
  /-- entries of bound variables are not touched -/
  bound : ∀ y, st.σ y ≠ .var y → st'.dget y = st.dget y
  /-- the domain of an unbound variable only shrinks; when its entry goes away the variable has been
      bound to one of the domain's numbers -/
  shrink : ∀ y d, st.σ y = .var y → st.dget y = some d →
    (∃ d', st'.dget y = some d' ∧ ∀ n, d'.Mem n → d.Mem n) ∨ (∃ n, st'.σ y = Term.num n ∧ d.Mem n)

/-- `r` is the outcome of adding the condition `S` to the state `st`: on success the new state
    describes exactly the valuations of `st` that satisfy `S` (nothing lost, nothing invented); failure
    means no valuation of `st` satisfies `S`; a PANIC is possible only in the lax mode, only at a panic
    site of `distinctfd`, and only when no valuation of `st` satisfies `S`.  (Fuel exhaustion claims nothing.) -/
def Ref [Mode] (I : Nat → Prop) (S : Subst → Prop) (st : State) : Res State → Prop
  | .ok st' => WFS st' ∧ Keeps st st' ∧ ∀ γ, Sem I γ st' ↔ (Sem I γ st ∧ S γ)
  | .fail => ∀ γ, ¬ (Sem I γ st ∧ S γ)
  | .fuel => True
  | .panic s => Mode.allow ∧ DP s ∧ ∀ γ, ¬ (Sem I γ st ∧ S γ)

end Pv
