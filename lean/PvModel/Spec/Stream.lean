/-
  Reference notions for the search engine (all generic in the state type):

  * `AnsS/AnsL/AnsB top`  — the FINITE answer list of a stream, read left to right, depth first
                            (only derivable when the whole search below the stream is finite);
  * `MemS/MemL top`       — `a` is an answer of the (possibly infinite, possibly diverging) stream;
  * `BfsG/BfsS/BfsL`, `DfsG/DfsS/DfsL` — streams/goals built only from interleaving / only from depth-first nodes;
  * `runF top n s`        — the answers `Solver::next` delivers within `n` engine steps;
  * `drainF top n s`      — `some xs` when the stream is exhausted within `n` steps, delivering `xs`;
  * `evalRef defs n g a`  — the textbook recursive semantics of a goal (Prolog order): conjunction =
                            flat-map, disjunction = concatenation, relation call = its body.
-/
import PvModel.Model.Stream
namespace Pv
open Strm Goal

variable {St K : Type}

section
variable (top : Goal St K → St → Strm St K)

mutual
inductive AnsS : Strm St K → List St → Prop where
  | empty : AnsS .empty []
  | unit (a : St) : AnsS (.unit a) [a]
  | cons {a l xs} : AnsL l xs → AnsS (.cons a l) (a :: xs)
  | lazy {l xs} : AnsL l xs → AnsS (.lazy l) xs
inductive AnsL : Lz St K → List St → Prop where
  | mplus {l1 l2 xs ys} : AnsL l1 xs → AnsL l2 ys → AnsL (.mplus l1 l2) (xs ++ ys)
  | mplusD {l1 l2 xs ys} : AnsL l1 xs → AnsL l2 ys → AnsL (.mplusD l1 l2) (xs ++ ys)
  | pause {a g xs} : AnsS (top g a) xs → AnsL (.pause a g) xs
  | delay {s xs} : AnsS s xs → AnsL (.delay s) xs
  | bind {l g xs ys} : AnsL l xs → AnsB g xs ys → AnsL (.bind l g) ys
  | bindD {l g xs ys} : AnsL l xs → AnsB g xs ys → AnsL (.bindD l g) ys
inductive AnsB : Goal St K → List St → List St → Prop where
  | nil {g} : AnsB g [] []
  | cons {g a xs ys zs} : AnsS (top g a) ys → AnsB g xs zs → AnsB g (a :: xs) (ys ++ zs)
end

mutual
inductive MemS : St → Strm St K → Prop where
  | unit (a : St) : MemS a (.unit a)
  | head (a : St) (l : Lz St K) : MemS a (.cons a l)
  | tail {a b l} : MemL a l → MemS a (.cons b l)
  | lazy {a l} : MemL a l → MemS a (.lazy l)
inductive MemL : St → Lz St K → Prop where
  | mplusL {a l1 l2} : MemL a l1 → MemL a (.mplus l1 l2)
  | mplusR {a l1 l2} : MemL a l2 → MemL a (.mplus l1 l2)
  | mplusDL {a l1 l2} : MemL a l1 → MemL a (.mplusD l1 l2)
  | mplusDR {a l1 l2} : MemL a l2 → MemL a (.mplusD l1 l2)
  | pause {a b g} : MemS a (top g b) → MemL a (.pause b g)
  | delay {a s} : MemS a s → MemL a (.delay s)
  | bind {a b l g} : MemL b l → MemS a (top g b) → MemL a (.bind l g)
  | bindD {a b l g} : MemL b l → MemS a (top g b) → MemL a (.bindD l g)
end

/-- answers delivered within `n` engine steps -/
def runF : Nat → Strm St K → List St
  | 0, _ => []
  | _ + 1, .empty => []
  | _ + 1, .unit a => [a]
  | n + 1, .cons a l => a :: runF n (.lazy l)
  | n + 1, .lazy l => runF n (step top l)

/-- the stream is exhausted within `n` steps and delivers exactly this list, in this order -/
def drainF : Nat → Strm St K → Option (List St)
  | 0, _ => none
  | _ + 1, .empty => some []
  | _ + 1, .unit a => some [a]
  | n + 1, .cons a l => (drainF n (.lazy l)).map (a :: ·)
  | n + 1, .lazy l => drainF n (step top l)
end

/-- goals built from interleaving operators only (no depth-first node can arise from them) -/
inductive BfsG (defs : K → St → St × Goal St K) : Goal St K → Prop where
  | succeed : BfsG defs .succeed
  | fail : BfsG defs .fail
  | atom (f) : BfsG defs (.atom f)
  | dyn {fs fg} : (∀ a, BfsG defs (fg a)) → BfsG defs (.dyn fs fg)
  | conj {g1 g2} : BfsG defs g1 → BfsG defs g2 → BfsG defs (.conj g1 g2)
  | disj {g1 g2} : BfsG defs g1 → BfsG defs g2 → BfsG defs (.disj g1 g2)
  | alt {g r} : BfsG defs g → BfsG defs r → BfsG defs (.alt g r)
  | fresh {g} : BfsG defs g → BfsG defs (.fresh g)
  | anyo {g} : BfsG defs g → BfsG defs (.anyo g)
  /-- a relation call: the body is covered by `BfsDefs` (so recursive relations are included) -/
  | call {k} : BfsG defs (.call k)

/-- goals built from depth-first operators only -/
inductive DfsG (defs : K → St → St × Goal St K) : Goal St K → Prop where
  | succeed : DfsG defs .succeed
  | fail : DfsG defs .fail
  | atom (f) : DfsG defs (.atom f)
  | dyn {fs fg} : (∀ a, DfsG defs (fg a)) → DfsG defs (.dyn fs fg)
  | conjD {g1 g2} : DfsG defs g1 → DfsG defs g2 → DfsG defs (.conjD g1 g2)
  | disjD {g1 g2} : DfsG defs g1 → DfsG defs g2 → DfsG defs (.disjD g1 g2)
  | altD {g r} : DfsG defs g → DfsG defs r → DfsG defs (.altD g r)
  | fresh {g} : DfsG defs g → DfsG defs (.fresh g)
  | call {k} : DfsG defs (.call k)

/-- every relation body of the program is built from interleaving operators (bodies may call relations,
    themselves included: the predicate on goals does not unfold calls) -/
def BfsDefs (defs : K → St → St × Goal St K) : Prop := ∀ k a, BfsG defs (defs k a).2
/-- every relation body of the program is built from depth-first operators -/
def DfsDefs (defs : K → St → St × Goal St K) : Prop := ∀ k a, DfsG defs (defs k a).2

section
variable (defs : K → St → St × Goal St K)
mutual
inductive BfsS : Strm St K → Prop where
  | empty : BfsS .empty
  | unit (a) : BfsS (.unit a)
  | cons {a l} : BfsL l → BfsS (.cons a l)
  | lazy {l} : BfsL l → BfsS (.lazy l)
inductive BfsL : Lz St K → Prop where
  | mplus {l1 l2} : BfsL l1 → BfsL l2 → BfsL (.mplus l1 l2)
  | bind {l g} : BfsL l → BfsG defs g → BfsL (.bind l g)
  | pause {a g} : BfsG defs g → BfsL (.pause a g)
  | delay {s} : BfsS s → BfsL (.delay s)
end
mutual
inductive DfsS : Strm St K → Prop where
  | empty : DfsS .empty
  | unit (a) : DfsS (.unit a)
  | cons {a l} : DfsL l → DfsS (.cons a l)
  | lazy {l} : DfsL l → DfsS (.lazy l)
inductive DfsL : Lz St K → Prop where
  | mplusD {l1 l2} : DfsL l1 → DfsL l2 → DfsL (.mplusD l1 l2)
  | bindD {l g} : DfsL l → DfsG defs g → DfsL (.bindD l g)
  | pause {a g} : DfsG defs g → DfsL (.pause a g)
  | delay {s} : DfsS s → DfsL (.delay s)
end
end

/-- `xs.flatMap f` in the option monad, left to right -/
def flatMapM {α β : Type} (f : α → Option (List β)) : List α → Option (List β)
  | [] => some []
  | x :: xs => match f x, flatMapM f xs with
    | some ys, some zs => some (ys ++ zs)
    | _, _ => none

/-- The textbook semantics (Prolog order) of the pure fragment; `none` = out of fuel or a
    committed-choice / `anyo` goal (not part of the pure fragment). -/
def evalRef (defs : K → St → St × Goal St K) : Nat → Goal St K → St → Option (List St)
  | 0, _, _ => none
  | _ + 1, .succeed, a => some [a]
  | _ + 1, .fail, _ => some []
  | _ + 1, .atom f, a => some (f a).toList
  | n + 1, .dyn fs fg, a => evalRef defs n (fg a) (fs a)
  | n + 1, .conj g1 g2, a | n + 1, .conjD g1 g2, a =>
    match evalRef defs n g1 a with
    | some xs => flatMapM (evalRef defs n g2) xs
    | none => none
  | n + 1, .disj g1 g2, a | n + 1, .disjD g1 g2, a | n + 1, .alt g1 g2, a | n + 1, .altD g1 g2, a =>
    match evalRef defs n g1 a, evalRef defs n g2 a with
    | some xs, some ys => some (xs ++ ys)
    | _, _ => none
  | n + 1, .fresh g, a => evalRef defs n g a
  | n + 1, .call k, a => evalRef defs n (defs k a).2 (defs k a).1
  | _ + 1, .conda .., _ | _ + 1, .condu .., _ | _ + 1, .anyo _, _ => none

end Pv
