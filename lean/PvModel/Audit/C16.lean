import PvModel.Props.C16
import PvModel.Props.C16Rel
import PvModel.Props.C16Keys
import PvModel.Props.C17Enforce
import PvModel.Props.C17Query
#print axioms Pv.C16_ground_plus
#print axioms Pv.C16_ground_minus
#print axioms Pv.C16_ground_times
#print axioms Pv.C16_ground_lte
#print axioms Pv.C16_ground_diseq
#print axioms Pv.C16_ltfd
#print axioms Pv.C16_domain_check
#print axioms Pv.C16_domain_nonnum
#print axioms Pv.C16_singleton_binds
#print axioms Pv.C16_state_sound
#print axioms Pv.C16_answer_sound
#print axioms Pv.C16_run_exact
#print axioms Pv.C16_run_constraints_exact
#print axioms Pv.C16_program_sound
#print axioms Pv.C16_distinctfd_state_sound
#print axioms Pv.C16_distinctfd_answer_sound
#print axioms Pv.C16_distinctfd_panic_is_failure
#print axioms Pv.C16_distinctfd_meaning
#print axioms Pv.C16_live
#print axioms Pv.C16_ground_answer_sound
#print axioms Pv.C16_rel_program_sound
#print axioms Pv.C16_rel_call_sound
#print axioms Pv.C16_domain_keys_unbound
#print axioms Pv.C16_run_constraints_tight
#print axioms Pv.C16_labelled_answer_sound
#print axioms Pv.C16_label_step
#print axioms Pv.C16_enforce_answers_sound
#print axioms Pv.C16_query_answers_sound
#print axioms Pv.C16_query_checked
