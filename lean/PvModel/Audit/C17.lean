import PvModel.Props.C17
import PvModel.Props.C17Label
import PvModel.Props.C17Enforce
import PvModel.Props.C17Query
#print axioms Pv.C17_label_values
#print axioms Pv.C17_map_sum
#print axioms Pv.C17_plus_bounds
#print axioms Pv.C17_minus_bounds
#print axioms Pv.C17_times_signs
#print axioms Pv.C17_lte_bounds
#print axioms Pv.C17_lte_narrow
#print axioms Pv.C17_no_solution_lost
#print axioms Pv.C17_fail_means_unsat
#print axioms Pv.C17_unify_exact
#print axioms Pv.C17_program_complete
#print axioms Pv.C17_label_partition
#print axioms Pv.C17_distinctfd_no_solution_lost
#print axioms Pv.C17_distinctfd_fail_means_unsat
#print axioms Pv.C17_label_exactly_once
#print axioms Pv.C17_label_term_exactly_once
#print axioms Pv.C17_program_labelled
#print axioms Pv.C17_labelling_invariants
#print axioms Pv.C17_hidden_labelling_decides
#print axioms Pv.C17_hidden_onceo
#print axioms Pv.C17_opsOK_of_allBound
#print axioms Pv.C17_hidden_onceo_model
#print axioms Pv.C17_enforce_assembly
#print axioms Pv.C17_enforce_exactly_once
#print axioms Pv.C17_labelling_separates
#print axioms Pv.C17_each_assignment_once
#print axioms Pv.C17_assignments_bijection
#print axioms Pv.C17_answer_values
#print axioms Pv.C17_query_program
#print axioms Pv.C17_path_state_invariants
#print axioms Pv.C17_query_exactly_once
#print axioms Pv.C17_query_complete
#print axioms Pv.C17_query_no_duplicates
#print axioms Pv.C17_query_count
