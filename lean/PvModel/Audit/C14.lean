import PvModel.Props.C14
#print axioms Pv.Surface.C14_term_shape
#print axioms Pv.Surface.C14_clause_shape
#print axioms Pv.Surface.C14_query_order
#print axioms Pv.Surface.C14_term
#print axioms Pv.Surface.C14_clause
