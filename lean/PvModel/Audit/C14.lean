import PvModel.Props.C14
import PvModel.Props.C14Engine
#print axioms Pv.Surface.C14_term_shape
#print axioms Pv.Surface.C14_clause_shape
#print axioms Pv.Surface.C14_query_order
#print axioms Pv.Surface.C14_term
#print axioms Pv.Surface.C14_clause
#print axioms Pv.C14_end_to_end
