import PvModel.Props.C21
#print axioms Pv.Term.C21_eq_iff
#print axioms Pv.Term.C21_equiv
#print axioms Pv.Term.C21_hash
#print axioms Pv.Term.C21_iter_ofList
#print axioms Pv.Term.C21_iter_improper
#print axioms Pv.Term.C21_extend
#print axioms Pv.Term.C21_extend_improper
#print axioms Pv.Term.C21_index
#print axioms Pv.Term.C21_head_tail
#print axioms Pv.Term.C21_improper_spine
#print axioms Pv.Term.C21_ofList_proper
#print axioms Pv.Term.C21_contains
#print axioms Pv.Term.C21_iter_mut
#print axioms Pv.Term.C21_iter_mut_improper
#print axioms Pv.Term.C21_display_list
#print axioms Pv.Term.C21_display_improper
