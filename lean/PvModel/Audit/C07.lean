import PvModel.Props.C07
#print axioms Pv.C07_fair
#print axioms Pv.C07_branch
#print axioms Pv.C07_program
#print axioms Pv.C07_never
#print axioms Pv.C07_always
#print axioms Pv.C07_run_split
#print axioms Pv.C07_dfs_unfair_witness
