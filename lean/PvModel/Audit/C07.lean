import PvModel.Props.C07
import PvModel.Props.C07Rel
#print axioms Pv.C07_fair
#print axioms Pv.C07_branch
#print axioms Pv.C07_program
#print axioms Pv.C07_never
#print axioms Pv.C07_always
#print axioms Pv.C07_run_split
#print axioms Pv.C07_dfs_unfair_witness
#print axioms Pv.C07_delivered_iff_bigstep
#print axioms Pv.C07_rel_every_solution_delivered
