import PvModel.Props.C06
import PvModel.Props.C07Rel
import PvModel.Props.C06Rel
import PvModel.Props.C06Query
#print axioms Pv.C06_step_perm
#print axioms Pv.C06_finite
#print axioms Pv.C06_ref
#print axioms Pv.C06_same_as_dfs
#print axioms Pv.C06_no_invention
#print axioms Pv.C06_prefix_sound
#print axioms Pv.C06_step_mem
#print axioms Pv.C06_rel_no_invention
#print axioms Pv.C06_rel_same_as_dfs
#print axioms Pv.C06_rel_call_twin
#print axioms Pv.C06_query_answers_exact
