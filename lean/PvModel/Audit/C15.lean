import PvModel.Props.C15
#print axioms Pv.Surface.C15_fresh
#print axioms Pv.Surface.C15_below
#print axioms Pv.Surface.C15_shadow
#print axioms Pv.Surface.C15_siblings
#print axioms Pv.Surface.C15_alpha
#print axioms Pv.Surface.C15_alpha_body
#print axioms Pv.Surface.C15_invocations
