import PvModel.Props.C22
import PvModel.Props.C22Global
#print axioms Pv.C22_take
#print axioms Pv.C22_takes
#print axioms Pv.C22_with_diseq
#print axioms Pv.C22_with_other
#print axioms Pv.C22_with_new
#print axioms Pv.C22_init
#print axioms Pv.C22_extension
#print axioms Pv.C22_failed
#print axioms Pv.C22_branch
#print axioms Pv.C22_step_tree
#print axioms Pv.C22_count_tree
#print axioms Pv.C22_count_tree_init
#print axioms Pv.C22_run_any
#print axioms Pv.C22_run_constraints
#print axioms Pv.C22_ops
#print axioms Pv.C22_builders
#print axioms Pv.C22_defs
#print axioms Pv.C22_program
#print axioms Pv.C22_query
