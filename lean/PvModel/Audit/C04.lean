import PvModel.Props.C04
import PvModel.Props.C04Rel
import PvModel.Props.C04Count
import PvModel.Props.C17Enforce
import PvModel.Props.C17Query
import PvModel.Props.C04Query
#print axioms Pv.C04_disj_comm
#print axioms Pv.C04_disj_comm_mem
#print axioms Pv.C04_disj_perm_mem
#print axioms Pv.C04_disj_perm
#print axioms Pv.C04_tree
#print axioms Pv.C04_fd_conj_comm
#print axioms Pv.C04_engine_sound
#print axioms Pv.C04_program_comm
#print axioms Pv.C04_program_congr
#print axioms Pv.C04_rel_program_exact
#print axioms Pv.C04_rel_equiv
#print axioms Pv.C04_rel_conj_comm
#print axioms Pv.C04_rel_alt_comm
#print axioms Pv.C04_tree_answer_multiset
#print axioms Pv.C04_tree_reorder_multiset
#print axioms Pv.C04_answers_are_paths
#print axioms Pv.C04_fd_answer_values_perm
#print axioms Pv.C04_fd_query_reorder
#print axioms Pv.C04_query_reorder_meaning
