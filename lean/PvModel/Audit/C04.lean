import PvModel.Props.C04
#print axioms Pv.C04_disj_comm
#print axioms Pv.C04_disj_comm_mem
#print axioms Pv.C04_disj_perm_mem
#print axioms Pv.C04_disj_perm
#print axioms Pv.C04_tree
#print axioms Pv.C04_fd_conj_comm
#print axioms Pv.C04_engine_sound
#print axioms Pv.C04_program_comm
#print axioms Pv.C04_program_congr
