import PvModel.Props.C02
import PvModel.Props.C02Program
import PvModel.Props.C02Decide
import PvModel.Props.C02Rel
import PvModel.Props.C02Answer
import PvModel.Props.C02Query
import PvModel.Props.C02QueryRel
#print axioms Pv.C02_invariant_ok
#print axioms Pv.C02_invariant_fail
#print axioms Pv.C02_step_ok
#print axioms Pv.C02_step_fail
#print axioms Pv.C02_order_free
#print axioms Pv.C02_no_panic
#print axioms Pv.C02_program_exact
#print axioms Pv.C02_program_order_free
#print axioms Pv.C02_normal_form
#print axioms Pv.C02_satisfiable
#print axioms Pv.C02_decides
#print axioms Pv.C02_projection
#print axioms Pv.C02_answer_instances
#print axioms Pv.C02_rel_state_normal
#print axioms Pv.C02_rel_answer_instances
#print axioms Pv.C02_reported_answer
#print axioms Pv.C02_reify_goal
#print axioms Pv.C02_reify_is_reifyState
#print axioms Pv.C02_query_program
#print axioms Pv.C02_query_any_body
#print axioms Pv.C02_query_count
#print axioms Pv.C02_query_tree
#print axioms Pv.C02_query_exact
#print axioms Pv.C02_querySideOK_spec
#print axioms Pv.C02_query_exact_checked
#print axioms Pv.C02_query_rel
