import PvModel.Props.C02
#print axioms Pv.C02_invariant_ok
#print axioms Pv.C02_invariant_fail
#print axioms Pv.C02_step_ok
#print axioms Pv.C02_step_fail
#print axioms Pv.C02_order_free
#print axioms Pv.C02_no_panic
