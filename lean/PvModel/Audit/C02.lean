import PvModel.Props.C02
import PvModel.Props.C02Program
#print axioms Pv.C02_invariant_ok
#print axioms Pv.C02_invariant_fail
#print axioms Pv.C02_step_ok
#print axioms Pv.C02_step_fail
#print axioms Pv.C02_order_free
#print axioms Pv.C02_no_panic
#print axioms Pv.C02_program_exact
#print axioms Pv.C02_program_order_free
