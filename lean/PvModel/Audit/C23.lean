import PvModel.Props.C23
#print axioms Pv.C23_tree
#print axioms Pv.C23_clpz
#print axioms Pv.C23_operand_guard
#print axioms Pv.C23_minmax
#print axioms Pv.C23_engine_total
#print axioms Pv.C23_state_machine
#print axioms Pv.C23_state_machine_distinctfd
