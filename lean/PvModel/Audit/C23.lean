import PvModel.Props.C23
import PvModel.Props.C23Rel
#print axioms Pv.C23_tree
#print axioms Pv.C23_clpz
#print axioms Pv.C23_operand_guard
#print axioms Pv.C23_minmax
#print axioms Pv.C23_engine_total
#print axioms Pv.C23_state_machine
#print axioms Pv.C23_state_machine_distinctfd
#print axioms Pv.C23_rel_no_panic
#print axioms Pv.C23_rel_call_no_panic
