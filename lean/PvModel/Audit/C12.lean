import PvModel.Props.C12
import PvModel.Props.C12Rel
#print axioms Pv.C12_def
#print axioms Pv.C12_empty
#print axioms Pv.C12_single
#print axioms Pv.C12_answers_tree
#print axioms Pv.C12_order_irrelevant
#print axioms Pv.C12_reverse
#print axioms Pv.C12_rel_everyg
