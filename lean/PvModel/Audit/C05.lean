import PvModel.Props.C05
import PvModel.Props.C05Rel
#print axioms Pv.C05_step
#print axioms Pv.C05_next
#print axioms Pv.C05_prolog
#print axioms Pv.C05_disj_order
#print axioms Pv.C05_conj_order
#print axioms Pv.C05_prolog_relations
#print axioms Pv.C05_member_in_position_order
