import PvModel.Props.C05
#print axioms Pv.C05_step
#print axioms Pv.C05_next
#print axioms Pv.C05_prolog
#print axioms Pv.C05_disj_order
#print axioms Pv.C05_conj_order
