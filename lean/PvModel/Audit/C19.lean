import PvModel.Props.C19
#print axioms Pv.C19_plus_ground
#print axioms Pv.C19_times_ground
#print axioms Pv.C19_plus_two
#print axioms Pv.C19_plus_unique
#print axioms Pv.C19_times_two
#print axioms Pv.C19_times_two
#print axioms Pv.C19_times_product
#print axioms Pv.C19_times_arith
#print axioms Pv.C19_keep
#print axioms Pv.C19_total
#print axioms Pv.C19_delayed
#print axioms Pv.C19_rerun_all
#print axioms Pv.C19_chains
#print axioms Pv.C19_chains_fail
#print axioms Pv.C19_order_free
