import PvModel.Props.C11
#print axioms Pv.C11_current_value
#print axioms Pv.C11_every_state
#print axioms Pv.C11_walk_star
#print axioms Pv.C11_resumed
#print axioms Pv.C11_once_partial
