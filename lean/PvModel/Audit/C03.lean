import PvModel.Props.C03
import PvModel.Props.C03Query
#print axioms Pv.C03_closed
#print axioms Pv.C03_closed_query
#print axioms Pv.C03_names
#print axioms Pv.C03_untouched
#print axioms Pv.C03_constraints_closed
#print axioms Pv.C03_anyvars_complete
#print axioms Pv.C03_relevant_complete
#print axioms Pv.C03_answer_shape
#print axioms Pv.C03_query_answers_closed
