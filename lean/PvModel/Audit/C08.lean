import PvModel.Props.C08
#print axioms Pv.C08_peek
#print axioms Pv.C08_peek_seq
#print axioms Pv.C08_trunc
#print axioms Pv.C08_conda
#print axioms Pv.C08_conda_commit
#print axioms Pv.C08_conda_skip
#print axioms Pv.C08_condu
#print axioms Pv.C08_onceo
