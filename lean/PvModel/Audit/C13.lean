import PvModel.Props.C13
#print axioms Pv.Surface.C13_arm
#print axioms Pv.Surface.C13_repeated
#print axioms Pv.Surface.C13_wildcard
#print axioms Pv.Surface.C13_no_capture
#print axioms Pv.Surface.C13_arm_local
#print axioms Pv.Surface.C13_elab
#print axioms Pv.Surface.C13_commit
#print axioms Pv.Surface.C13_compound_pattern
