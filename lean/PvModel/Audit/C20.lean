import PvModel.Props.C20
#print axioms Pv.C20_unify_comp
#print axioms Pv.C20_unify_fields
#print axioms Pv.C20_never
#print axioms Pv.C20_bind
#print axioms Pv.C20_structural
#print axioms Pv.C20_force
#print axioms Pv.C20_force_fields
