import PvModel.Props.C10
import PvModel.Props.C04Rel
import PvModel.Props.C17Query
#print axioms Pv.C10_union
#print axioms Pv.C10_union_inv
#print axioms Pv.C10_union_mem
#print axioms Pv.C10_union_dfs
#print axioms Pv.C10_frame
#print axioms Pv.C10_mplus_states
#print axioms Pv.C10_no_leak
#print axioms Pv.C10_rel_union
#print axioms Pv.C10_query_branch_isolation
#print axioms Pv.C10_query_branch_isolation_tree
