import PvModel.Props.C24
import PvModel.Props.C24Sem
import PvModel.Props.C24Count
import PvModel.Props.C24First
import PvModel.Props.C24Query
#print axioms Pv.C24_cons
#print axioms Pv.C24_empty
#print axioms Pv.C24_cons_sound
#print axioms Pv.C24_cons_complete
#print axioms Pv.C24_first_rest
#print axioms Pv.C24_member_clauses
#print axioms Pv.C24_append_clauses
#print axioms Pv.C24_engine_is_bigstep
#print axioms Pv.C24_sound
#print axioms Pv.C24_append_sound
#print axioms Pv.C24_member_sound
#print axioms Pv.C24_member1_sound
#print axioms Pv.C24_rember_sound
#print axioms Pv.C24_distinct_sound
#print axioms Pv.C24_permute_sound
#print axioms Pv.C24_permute_spec
#print axioms Pv.C24_permute_D20
#print axioms Pv.C24_append_spec
#print axioms Pv.C24_member_spec
#print axioms Pv.C24_member1_spec
#print axioms Pv.C24_rember_spec
#print axioms Pv.C24_distinct_spec
#print axioms Pv.C24_complete
#print axioms Pv.C24_invariant
#print axioms Pv.C24_exact
#print axioms Pv.C24_append_complete
#print axioms Pv.C24_member_complete
#print axioms Pv.C24_permute_complete
#print axioms Pv.C24_member_one_per_position
#print axioms Pv.C24_member1_one_per_value
#print axioms Pv.C24_append_functional
#print axioms Pv.C24_increasing_bounded
#print axioms Pv.C24_zip2_length
#print axioms Pv.C24_append_one_per_split
#print axioms Pv.C24_append_splits_disjoint
#print axioms Pv.C24_listLen_literal
#print axioms Pv.C24_count_start
#print axioms Pv.C24_first
#print axioms Pv.C24_rest
#print axioms Pv.C24_cons_empty
#print axioms Pv.C24_query_member
#print axioms Pv.C24_query_append_splits
