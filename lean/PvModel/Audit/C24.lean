import PvModel.Props.C24
import PvModel.Props.C24Sem
#print axioms Pv.C24_cons
#print axioms Pv.C24_empty
#print axioms Pv.C24_cons_sound
#print axioms Pv.C24_cons_complete
#print axioms Pv.C24_first_rest
#print axioms Pv.C24_member_clauses
#print axioms Pv.C24_append_clauses
#print axioms Pv.C24_engine_is_bigstep
#print axioms Pv.C24_sound
#print axioms Pv.C24_append_sound
#print axioms Pv.C24_member_sound
#print axioms Pv.C24_member1_sound
#print axioms Pv.C24_rember_sound
#print axioms Pv.C24_distinct_sound
#print axioms Pv.C24_permute_sound
#print axioms Pv.C24_permute_spec
#print axioms Pv.C24_permute_D20
#print axioms Pv.C24_append_spec
#print axioms Pv.C24_member_spec
#print axioms Pv.C24_member1_spec
#print axioms Pv.C24_rember_spec
#print axioms Pv.C24_distinct_spec
