import PvModel.Props.C24
#print axioms Pv.C24_cons
#print axioms Pv.C24_empty
#print axioms Pv.C24_cons_sound
#print axioms Pv.C24_cons_complete
#print axioms Pv.C24_first_rest
#print axioms Pv.C24_member_clauses
#print axioms Pv.C24_append_clauses
