import PvModel.Props.C09
import PvModel.Props.C09Sequence
import PvModel.Props.C09Rel
#print axioms Pv.C09_lazy
#print axioms Pv.C09_take_mono
#print axioms Pv.C09_take_prefix
#print axioms Pv.C09_fused
#print axioms Pv.C09_exhausted_is_empty
#print axioms Pv.C09_order_independent_tree
#print axioms Pv.C09_next_functional
#print axioms Pv.C09_order_independent_fd
#print axioms Pv.C09_sequence_order_free
#print axioms Pv.C09_answers_order_free
#print axioms Pv.C09_sequence_order_free_rel
