import PvModel.Props.C01
#print axioms Pv.C01_sound
#print axioms Pv.C01_mgu
#print axioms Pv.C01_fail_complete
#print axioms Pv.C01_succeeds_iff
#print axioms Pv.C01_acyclic
#print axioms Pv.C01_occurs_refused
#print axioms Pv.C01_extension
#print axioms Pv.C01_fuel_mono
#print axioms Pv.C01_terminates
#print axioms Pv.C01_prior_reachable
