import PvModel.Props.C01
import PvModel.Props.C01Tri
#print axioms Pv.C01_sound
#print axioms Pv.C01_mgu
#print axioms Pv.C01_fail_complete
#print axioms Pv.C01_succeeds_iff
#print axioms Pv.C01_acyclic
#print axioms Pv.C01_occurs_refused
#print axioms Pv.C01_extension
#print axioms Pv.C01_fuel_mono
#print axioms Pv.C01_terminates
#print axioms Pv.C01_prior_reachable
#print axioms Pv.C01_tri_reachable
#print axioms Pv.C01_tri_walk
#print axioms Pv.C01_tri_walk_star
#print axioms Pv.C01_tri_occurs
#print axioms Pv.C01_tri_refines
#print axioms Pv.C01_tri_terminates
#print axioms Pv.C01_tri_fuel_independent
#print axioms Pv.C01_tri_sound_mgu
#print axioms Pv.C01_tri_fail_complete
