/-
  Model of `unify_rec` / `unify_rec_compound` (src/state/unification.rs) on solved-form substitutions.
  Case order as in the Rust `match`:  same variable; variable/anything (occurs check, bind);
  anything/variable; equal literals; Empty/Empty; Cons/Cons (head, then tail under the head's result);
  Compound/Compound (same type_id, children pairwise); everything else fails.
  The result carries the EXTENSION: the list of bindings `(x, t)` made by this call, newest first
  (`extension.extend(..)` in the Rust code).

  outer `none` = out of fuel;  `some none` = unification failed;  `some (some (σ', ext))` = success.
-/
import PvModel.Model.Subst
namespace Pv
open Term

abbrev Ext1 := List (Nat × Term)

def unifyF : Nat → Subst → Ext1 → Term → Term → Option (Option (Subst × Ext1))
  | 0, _, _, _, _ => none
  | n + 1, σ, e, u, v =>
    match walk σ u, walk σ v with
    | .var x, .var y =>
      if x = y then some (some (σ, e))
      else some (some (bindS x (.var y) σ, (x, .var y) :: e))
    | .var x, t =>
      let t' := apply σ t
      if occurs x t' then some none else some (some (bindS x t' σ, (x, t') :: e))
    | t, .var y =>
      let t' := apply σ t
      if occurs y t' then some none else some (some (bindS y t' σ, (y, t') :: e))
    | .val a, .val b => if a = b then some (some (σ, e)) else some none
    | .nil, .nil => some (some (σ, e))
    | .cons h1 t1, .cons h2 t2 =>
      match unifyF n σ e h1 h2 with
      | some (some (σ1, e1)) => unifyF n σ1 e1 t1 t2
      | r => r
    | .comp g1 a1, .comp g2 a2 =>
      if g1 = g2 then unifyF n σ e a1 a2 else some none
    | _, _ => some none

/-- unify a list of pairs in sequence (used by `DisequalityConstraint::run` and `subsumes`) -/
def unifyPairsF (n : Nat) : Subst → Ext1 → List (Term × Term) → Option (Option (Subst × Ext1))
  | σ, e, [] => some (some (σ, e))
  | σ, e, (u, v) :: ps =>
    match unifyF n σ e u v with
    | some (some (σ1, e1)) => unifyPairsF n σ1 e1 ps
    | r => r

/-- generous default fuel for the driver: unification recursion depth is bounded by term depth -/
def unifyFuel : Nat := 100000

end Pv
