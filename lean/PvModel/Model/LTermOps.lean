/-
  Model of the `LTerm` API of src/lterm.rs that C21 speaks about: `PartialEq`, `Hash` (as the sequence of
  items fed to the hasher), `from_vec`/`from_array`/`collect` (`Term.ofList`), `improper_from_vec`
  (`Term.improperOfList`), `iter`/`iter_mut`, `extend`, indexing, `head`/`tail`, `is_list`/`is_empty`/
  `is_improper`, `contains`, list `Display`.  Import-free (model imports only), executable.
-/
import PvModel.Model.Term
namespace Pv
namespace Term

/-- `impl PartialEq for LTerm`, transcribed arm by arm (variables by id; `Compound`: same type, fields equal) -/
def termEq : Term → Term → Bool
  | .var x, .var y => x == y
  | .val a, .val b => a == b
  | .nil, .nil => true
  | .cons h1 t1, .cons h2 t2 => termEq h1 h2 && termEq t1 t2
  | .comp g1 a1, .comp g2 a2 => g1 == g2 && termEq a1 a2
  | _, _ => false

/-- what `impl Hash for LTerm` feeds to the hasher, in order -/
inductive HItem where
  | disc (n : Nat)     -- enum discriminant of `LValue` (derive(Hash))
  | int (i : Int)
  | bool (b : Bool)
  | chr (c : Nat)
  | str (s : Nat)
  | var (id : Nat)
deriving DecidableEq, Repr

def hashFeed : Term → List HItem
  | .var x => [.var x]
  | .val (.bool b) => [.disc 0, .bool b]
  | .val (.num n) => [.disc 1, .int n]
  | .val (.chr c) => [.disc 2, .chr c]
  | .val (.str s) => [.disc 3, .str s]
  | .nil => []                          -- `().hash(state)` feeds nothing
  | .cons h t => hashFeed h ++ hashFeed t
  -- an `Option` field (tag 4): the derived `Hash` of `Option` feeds the discriminant, then the content
  | .comp 4 a => .disc (match a with | .nil => 0 | _ => 1) :: hashFeed a
  | .comp _ a => hashFeed a             -- derived `Hash` of the struct: its fields in order

def isList : Term → Bool
  | .nil => true
  | .cons _ _ => true
  | _ => false

def isEmptyT : Term → Bool
  | .nil => true
  | _ => false

/-- `is_improper` -/
def isImproper : Term → Bool
  | .cons _ t => if t.isEmptyT then false else if t.isList then isImproper t else true
  | _ => false

def head? : Term → Option Term
  | .cons h _ => some h
  | _ => none

def tail? : Term → Option Term
  | .cons _ t => some t
  | _ => none

/-- `Index<usize>`: `iter().nth(i).unwrap()` (`none` = panic) -/
def index? (t : Term) (i : Nat) : Option Term := t.iterItems[i]?

/-- `contains`: `iter().any(|u| u == v)` -/
def containsT (t v : Term) : Bool := t.iterItems.any (fun u => termEq u v)

/-- `Extend`: walk to the `Empty` tail and swap in the collected extension; a non-list panics at once,
    an improper list panics when the walk reaches its non-list tail (`none` = panic) -/
def extend? : Term → List Term → Option Term
  | .nil, ys => some (ofList ys)
  | .cons h t, ys => (extend? t ys).map (.cons h)
  | _, _ => none

/-- `iter_mut`: assign `f i old` to the i-th item (elements, then the improper tail as the last item) -/
def mapItems (f : Nat → Term → Term) : Nat → Term → Term
  | _, .nil => .nil
  | i, .cons h t =>
    if t.isEmptyT then .cons (f i h) t
    else .cons (f i h) (mapItems f (i + 1) t)
  | i, t => f i t

def showVal : Val → String
  | .num n => toString n
  | .bool b => toString b
  | .chr c => "'" ++ String.singleton (Char.ofNat c) ++ "'"
  | .str s => "\"s" ++ toString s ++ "\""

mutual
/-- `impl Display` for values, variables (their name, fixed to `x` here), `[]`, proper and improper lists -/
def display : Term → String
  | .val v => showVal v
  | .var _ => "x"
  | .nil => "[]"
  | .cons h t => "[" ++ display h ++ displayTail t
  | .comp g a => "C" ++ toString g ++ display a
/-- the rest of a list after its first element: `, e` for elements, ` | t` for an improper tail, then `]` -/
def displayTail : Term → String
  | .nil => "]"
  | .cons h t => ", " ++ display h ++ displayTail t
  | t => " | " ++ display t ++ "]"
end

end Term
end Pv
