/-
  Concrete goals over `State`: the atoms (`==`, `!=`, FD and Z constraints, `DomFd`), the library
  relations as their macro expansions build them (src/relation/*.rs), `force_ans`,
  `enforce_constraints_fd`, `reify` (src/state/reification.rs) and `ResultIterator::next`
  (src/query.rs) / `LResult::constraints` (src/lresult.rs).
-/
import PvModel.Model.State
import PvModel.Model.Stream
namespace Pv
open Term

/-- relation call keys: which relation, with which argument terms -/
inductive Rel where
  | member | member1 | append | rember | permute | distinct
  /-- a user relation that only calls itself (`fn spin() { proto_vulcan_closure!(spin()) }`, with one argument
      `proto_vulcan_closure!(|x| { spin_fresh() })`): a silent diverger made of nothing but paused closures -/
  | spin
deriving Repr, DecidableEq

structure Call where
  rel : Rel
  args : List Term
  /-- was the relation called inside `dfs { }` (its body is then built from `DFSGoal`s) -/
  dfs : Bool := false

abbrev G := Goal State Call

/-- Lifts a state operation to an atom.  A panic (or fuel exhaustion) poisons the state: the poisoned
    state flows through every later atom unchanged and is reported by the driver. -/
def liftRes (f : State → Res State) : State → Option State := fun st =>
  if st.panic.isSome then some st
  else match f st with
    | .ok s => some s
    | .fail => none
    | .fuel => some { st with panic := some "FUEL" }
    | .panic site => some { st with panic := some site }

section Atoms
variable (ord : Order)

def eqG (u v : Term) : G := .atom (liftRes fun st => st.unify ord u v)
def diseqG (u v : Term) : G := .atom (liftRes fun st => st.disunify ord u v)
def cstG (c : Cst) : G := .atom (liftRes fun st => st.postCst ord c)
def domG (x : Term) (d : FD) : G := .atom (liftRes fun st => st.domFd ord x d)

/-- the constructors `assert!` that operands are variables or numbers (lists for distinctfd) -/
def operandOk (t : Term) : Bool := t.isVar || t.isNum
def isListTerm : Term → Bool
  | .nil => true
  | .cons _ _ => true
  | _ => false

def assertG (ok : Bool) (site : String) (g : G) : G :=
  if ok then g else .atom (liftRes fun _ => .panic site)

def pluszG (u v w : Term) : G := assertG (operandOk u && operandOk v && operandOk w) "assert-operand" (cstG ord (.plusz u v w))
def timeszG (u v w : Term) : G := assertG (operandOk u && operandOk v && operandOk w) "assert-operand" (cstG ord (.timesz u v w))
def plusfdG (u v w : Term) : G := assertG (operandOk u && operandOk v && operandOk w) "assert-operand" (cstG ord (.plusfd u v w))
def minusfdG (u v w : Term) : G := assertG (operandOk u && operandOk v && operandOk w) "assert-operand" (cstG ord (.minusfd u v w))
def timesfdG (u v w : Term) : G := assertG (operandOk u && operandOk v && operandOk w) "assert-operand" (cstG ord (.timesfd u v w))
def ltefdG (u v : Term) : G := assertG (operandOk u && operandOk v) "assert-operand" (cstG ord (.ltefd u v))
def diseqfdG (u v : Term) : G := assertG (operandOk u && operandOk v) "assert-operand" (cstG ord (.diseqfd u v))
/-- `ltfd(u, v) = [diseqfd(u, v), ltefd(u, v)]` -/
def ltfdG (u v : Term) : G := Goal.conjOfList [diseqfdG ord u v, ltefdG ord u v]
def distinctfdG (u : Term) : G := assertG (isListTerm u) "assert-operand" (cstG ord (.distinctfd u))

/-- `infd(u, domain)` / `infdrange`: on a list term, one `DomFd` per element -/
def infdG (u : Term) (d : FD) : G :=
  if isListTerm u then Goal.conjOfList (u.iterItems.map fun v => domG ord v d) else domG ord u d

/-- the body a `Closure` builds when it is solved; fresh variables come from `st.nextVar` -/
def relBody (c : Call) (n : Nat) : Nat × G :=
  let v (i : Nat) : Term := .var (n + i)
  let call (r : Rel) (as : List Term) : G := .call ⟨r, as, c.dfs⟩
  let conjL (gs : List G) : G := if c.dfs then Goal.conjDOfList gs else Goal.conjOfList gs
  let one (clauses : List (List G)) : G :=
    if c.dfs then Goal.conjDOfList [Goal.condeDOfClauses clauses] else Goal.conjOfList [Goal.condeOfClauses clauses]
  match c.rel, c.args with
  | .member, [x, l] =>
    -- match l { [head | _] => head == x, [_ | rest] => member(x, rest) }
    (4, one [[eqG ord l (.cons (v 0) (v 1)), eqG ord (v 0) x],
             [eqG ord l (.cons (v 3) (v 2)), call .member [x, v 2]]])
  | .member1, [x, l] =>
    -- [head | _] => head == x, [head | rest] => [head != x, member1(x, rest)]
    (5, one [[eqG ord l (.cons (v 0) (v 1)), eqG ord (v 0) x],
             [eqG ord l (.cons (v 3) (v 2)),
              conjL [diseqG ord (v 3) x, call .member1 [x, v 2]]]])
  | .append, [l, s, ls] =>
    -- match [l, s, ls] { [[], x, x] => , [[x | l1], l2, [x | l3]] => append(l1, l2, l3) }
    let t := Term.ofList [l, s, ls]
    (5, one [[eqG ord t (Term.ofList [.nil, v 0, v 0])],
             [eqG ord t (Term.ofList [.cons (v 1) (v 2), v 4, .cons (v 1) (v 3)]),
              call .append [v 2, v 4, v 3]]])
  | .rember, [x, ls, out] =>
    -- [[], []] => , [[a | d], d] => a == x, [[y | ys], [y | zs]] => { y != x, rember(x, ys, zs) }
    let t := Term.ofList [ls, out]
    (5, one [[eqG ord t (Term.ofList [.nil, .nil])],
             [eqG ord t (Term.ofList [.cons (v 0) (v 1), v 1]), eqG ord (v 0) x],
             [eqG ord t (Term.ofList [.cons (v 2) (v 3), .cons (v 2) (v 4)]),
              diseqG ord (v 2) x, call .rember [x, v 3, v 4]]])
  | .permute, [xl, yl] =>
    -- [[], []] => , [[x | xs], _] => |ys| { permute(xs, ys), rember(x, yl, ys) }
    let t := Term.ofList [xl, yl]
    (4, one [[eqG ord t (Term.ofList [.nil, .nil])],
             [eqG ord t (Term.ofList [.cons (v 1) (v 0), v 2]),
              .fresh (conjL [call .permute [v 0, v 3], call .rember [v 1, yl, v 3]])]])
  | .distinct, [l] =>
    -- [] | [_] => , [first, second | rest] => { first != second, distinct([first|rest]), distinct([second|rest]) }
    (4, one [[eqG ord l .nil],
             [eqG ord l (.cons (v 0) .nil)],
             [eqG ord l (.cons (v 3) (.cons (v 2) (v 1))),
              diseqG ord (v 3) (v 2), call .distinct [.cons (v 3) (v 1)], call .distinct [.cons (v 2) (v 1)]]])
  | .spin, [] => (0, conjL [call .spin []])
  | .spin, [a] => (1, conjL [.fresh (conjL [call .spin [a]])])
  | _, _ => (0, .atom (liftRes fun _ => .panic "bad-call"))

def defs (c : Call) (st : State) : State × G :=
  let (k, g) := relBody ord c st.nextVar
  ({ st with nextVar := st.nextVar + k }, g)

/-- `cons(first, rest, out)`, `first`, `rest`, `empty` are not closures: plain goals -/
def consG (first rest out : Term) : G := eqG ord (.cons first rest) out
def emptyG (s : Term) : G := eqG ord .nil s

/-- `first(list, first)` = `|rest| { cons(first, rest, list) }`; `rest(list, rest)` = `|first| { cons(first, rest, list) }`.
    The fresh variable is drawn from the state's counter when the goal is solved. -/
def firstG (dfs : Bool) (list first : Term) : G :=
  .dyn (fun st => { st with nextVar := st.nextVar + 1 }) fun st =>
    .fresh (if dfs then Goal.conjDOfList [consG ord first (.var st.nextVar) list]
            else Goal.conjOfList [consG ord first (.var st.nextVar) list])
def restG (dfs : Bool) (list rest : Term) : G :=
  .dyn (fun st => { st with nextVar := st.nextVar + 1 }) fun st =>
    .fresh (if dfs then Goal.conjDOfList [consG ord (.var st.nextVar) rest list]
            else Goal.conjOfList [consG ord (.var st.nextVar) rest list])

/-- `compound_fields`: the TERM fields of a compound object, in order; a child that is not a term — an `Option`
    object (tag 4) — contributes ITS children instead (the value inside `Some` is a typed wrapper of a term) -/
def compFields (args : Term) : List Term :=
  args.iterItems.flatMap fun item =>
    match item with
    | .comp 4 kids => kids.iterItems
    | t => [t]

/-- `force_ans` (repaired: labels the fields of compound terms too); `n` bounds the term depth walked.
    `map_sum` over the domain in decreasing order builds the `mplus/delay` chain whose first element is
    the smallest value: `altOfList` over the increasing enumeration. -/
def forceAns : Nat → Term → G
  | 0, _ => .atom (liftRes fun _ => .fuel)
  | n + 1, x => .dyn id fun st =>
    if st.panic.isSome then .succeed else
    match walk st.σ x with
    | .var xv =>
      match st.dget xv with
      | some d => Goal.altOfList (d.iter.map fun k => eqG ord (Term.num k) (.var xv))
      | none => .succeed
    | .cons h t => Goal.conjOfList [forceAns n h, forceAns n t]
    | .comp _ args => Goal.conjOfList ((compFields args).map (forceAns n))
    | _ => .succeed

def forceFuel : Nat := 1000

/-- `enforce_constraints_fd` -/
def enforceFd (x : Term) : G :=
  Goal.conjOfList [forceAns ord forceFuel x,
    .dyn id fun st =>
      if st.panic.isSome then .succeed
      else if !st.allBound then .atom (liftRes fun _ => .panic "unbound-domain")
      else
        let keys := Term.ofList ((ord.ds st.dstore).map fun p => Term.var p.1)
        Goal.onceo [forceAns ord forceFuel keys]]

/-- free variables of a term in first-occurrence order, without repetition -/
def freeVars (t : Term) : List Nat := t.vars.eraseDups

/-- `DisequalityConstraint::walk_star` / `ConstraintStore::walk_star` (only disequalities survive) -/
def walkStarStore (σ : Subst) (store : List (Nat × Cst)) : List Ext1 :=
  store.filterMap fun p => match p.2 with
    | .diseq ps => some (ps.map fun q => (match apply σ (.var q.1) with | .var y => y | _ => q.1, apply σ q.2))
    | _ => none

/-- `smap.reify(walk*(x))`: each free variable of the walked query term ↦ its reified `any` variable
    (`base + i`, `i` = position of first occurrence); everything else as the substitution says -/
def reifyMap (σ : Subst) (x : Term) (base : Nat) : Subst := fun y =>
  match (freeVars (apply σ x)).idxOf? y with
  | some i => .var (base + i)
  | none => σ y

/-- the substitution of the reified state: `r ∘ σ` -/
def reifySubst (σ : Subst) (x : Term) (base : Nat) : Subst := fun y => apply (reifyMap σ x base) (σ y)

/-- the final goal of `reify(x)`: `r = smap.reify(walk*(x))` binds every free variable of the walked
    query term to a new `any` variable; the store is replaced (through `with_cstore`: every old
    constraint is taken, every walked disequality added) by its walked disequalities. -/
def reifyFinal (x : Term) : G :=
  .atom (liftRes fun st =>
    let fv := freeVars (apply st.σ x)
    let base := st.nextVar
    let cs := walkStarStore st.σ st.store
    let st1 := st.store.foldl (fun s p => (s.takeConstraint p.1).1) st
    let st2 := cs.foldl (fun s c => s.withNewConstraint ord (.diseq c))
      { st1 with σ := reifySubst st.σ x base, nextVar := base + fv.length }
    .ok st2)

/-- `reify(x)` -/
def reifyG (x : Term) : G :=
  Goal.conjOfList [Goal.conjOfList [enforceFd ord x, .succeed], reifyFinal ord x]

/-- the goal a query runs: `fresh(__query__) [__query__ == [vars], body, reify(__query__)]` -/
def queryG (qv : Term) (qs : List Term) (body : List G) : G :=
  .fresh (Goal.conjOfList [eqG ord qv (Term.ofList qs), Goal.conjOfList body, reifyG ord qv])

end Atoms

/-- An answer as `ResultIterator::next` reports it. -/
structure Answer where
  terms : List Term
  /-- reported constraints: purified, normalised, walked -/
  constraints : List Ext1
  /-- per query variable: `LResult::constraints()` (indices into `constraints`) -/
  relevant : List (List Nat)
  anys : List Nat
  withs : Nat
  takes : Nat
  stored : Nat

/-- is `v` a reified variable: one of the `any` variables created by `reify` -/
def isAny (anyBase : Nat) (st : State) (y : Nat) : Bool := decide (anyBase ≤ y) && decide (y < st.nextVar)

/-- `SMap::is_reified` (repaired purify): every variable of the term is bound by `r` to an `any` variable.
    Terms in the answer state's store are already walked by the pre-reification substitution, so their
    variables are either reified (mapped by `r` to an any-variable) or not in `r` at all. -/
def allReified (st : State) (t : Term) : Bool :=
  t.vars.all fun y => match st.σ y with
    | .var z => z != y
    | _ => false

/-- `LTerm::anyvars` (repaired: descends into compounds) as variable ids, with repetitions -/
def anyvars (t : Term) : List Nat := t.vars

/-- `ConstraintStore::purify(r)`: the disequalities all of whose variables are reified -/
def purified (st : State) : List Ext1 :=
  (st.store.filterMap fun p => match p.2 with | .diseq ps => some ps | _ => none).filter
    fun ps => ps.all fun q => allReified st (.var q.1) && allReified st q.2

/-- `normalize()`: `push_and_normalize` one by one into an empty store -/
def normalizedCs (ord : Order) (cs : List Ext1) : List Ext1 :=
  cs.foldl (fun (acc : List Ext1) c =>
    if acc.any (fun s => State.subsumes ord s c) then acc
    else (acc.filter fun s => !State.subsumes ord c s) ++ [c]) []

/-- `walk_star(r)` of one disequality -/
def walkCst (σ : Subst) (ps : Ext1) : Ext1 :=
  ps.map fun q => (match apply σ (.var q.1) with | .var y => y | _ => q.1, apply σ q.2)

/-- `DisequalityConstraint::operands()`: keys, and values that are variables -/
def cstOperands (c : Ext1) : List Nat := c.flatMap fun q => q.1 :: (match q.2 with | .var y => [y] | _ => [])

/-- `LResult::constraints()` for a term: indices of the reported constraints one of whose operands is a
    variable of the term (`anyvars`: at any depth, through lists and compounds) -/
def relevantTo (walked : List Ext1) (t : Term) : List Nat :=
  (List.range walked.length).filter fun i =>
    match walked[i]? with
    | some c => (cstOperands c).any fun o => (anyvars t).contains o
    | none => false

/-- `ConstraintStore::purify(r).normalize().walk_star(r)` and the per-variable `relevant` filter -/
def mkAnswer (ord : Order) (qs : List Term) (st : State) : Answer :=
  let walked : List Ext1 := (normalizedCs ord (purified st)).map (walkCst st.σ)
  let terms := qs.map (apply st.σ)
  { terms, constraints := walked, relevant := terms.map (relevantTo walked),
    anys := (terms.flatMap Term.vars).eraseDups,
    withs := st.withs, takes := st.takes, stored := st.store.length }

end Pv
