/-
  Substitutions in SOLVED FORM as functions (DESIGN.md section 4.2): `σ : Nat → Term`, identity on
  unbound variables, idempotent (`Solved`).  `SMap::walk_star` is `apply σ`, `SMap::walk` is `walk σ`
  (its top-level case), `SMap::extend` on an unbound variable is `bindS`.
  The Rust `SMap` is triangular; the observable behaviour (success/failure of unification, `walk_star`
  of any term) is the same and is what the correspondence check compares.
-/
import PvModel.Model.Term
namespace Pv
open Term

abbrev Subst := Nat → Term

def Subst.id : Subst := fun x => .var x

/-- `walk_star` -/
def apply (σ : Subst) : Term → Term
  | .var x => σ x
  | .cons h t => .cons (apply σ h) (apply σ t)
  | .comp g a => .comp g (apply σ a)
  | t => t

/-- the one-point substitution `[x ↦ t]` -/
def sub1 (x : Nat) (t : Term) : Subst := fun y => if y = x then t else .var y

/-- extend a solved form by `x ↦ t` (x unbound in σ, t σ-normal, x ∉ t) : `[x↦t] ∘ σ` -/
def bindS (x : Nat) (t : Term) (σ : Subst) : Subst := fun y => apply (sub1 x t) (σ y)

/-- `walk`: one top-level lookup (a solved form needs no chain following) -/
def walk (σ : Subst) : Term → Term
  | .var x => σ x
  | t => t

/-- σ is idempotent -/
def Solved (σ : Subst) : Prop := ∀ x, apply σ (σ x) = σ x

/-- `σ'` is an instance of `σ` (`σ' = σ' ∘ σ`) -/
def Ext (σ σ' : Subst) : Prop := ∀ s, apply σ' (apply σ s) = apply σ' s

/-- `θ` unifies `u` and `v` -/
def Unifies (θ : Subst) (u v : Term) : Prop := apply θ u = apply θ v

end Pv
