/-
  TRIANGULAR substitutions, as the code has them (src/state/substitution.rs, src/state/unification.rs).

  `SMap` is a `HashMap<LTerm, LTerm>` from variables to terms that are only TOP-LEVEL walked when they are stored:
  `extend(uwalk, vwalk)` stores `vwalk` as it stands, with the bound variables inside it unreplaced; `walk` follows the
  chain of variable bindings; `walk_star` and `occurs_check` walk again at every level of the term.
  The rest of the model (Model/Subst.lean, Model/Unify.lean) uses substitutions in SOLVED form.  This file is the
  executable model of the triangular algorithm itself; Proofs/Triangular.lean proves that it REFINES the solved-form
  model (`unifyT_refines`), so that every theorem stated about `unifyF` is a theorem about the algorithm the code runs,
  and the driver runs both (`unifyT` lines) against the raw contents of the implementation's `SMap`.

  A `TSub` is the list of bindings, newest first.  A variable is bound at most once (`extend` is only called on a
  walked, hence unbound, variable), so `HashMap::get` is `TSub.get`.
-/
import PvModel.Model.Unify
namespace Pv
open Term

abbrev TSub := List (Nat × Term)

/-- `HashMap::get` -/
def TSub.get : TSub → Nat → Option Term
  | [], _ => none
  | (y, t) :: r, x => if y = x then some t else TSub.get r x

/-- `SMap::walk`: follow variable bindings until an unbound variable or a non-variable.  The loop is bounded by the
    number of bindings (a chain visits each binding at most once; `walkT_spec`): fuel `τ.length + 1` always suffices. -/
def walkT : Nat → TSub → Term → Option Term
  | 0, _, _ => none
  | n + 1, τ, .var x =>
    match τ.get x with
    | none => some (.var x)
    | some s => walkT n τ s
  | _ + 1, _, t => some t

/-- `SMap::walk` with the fuel that always suffices -/
def TSub.walk (τ : TSub) (t : Term) : Option Term := walkT (τ.length + 1) τ t

/-- `SMap::occurs_check(x, v)`: walk, then recurse into the children (`||` short-circuits) -/
def occursT : Nat → TSub → Nat → Term → Option Bool
  | 0, _, _, _ => none
  | n + 1, τ, x, t =>
    match τ.walk t with
    | none => none
    | some (.var y) => some (x == y)
    | some (.cons h tl) =>
      match occursT n τ x h with
      | some true => some true
      | some false => occursT n τ x tl
      | none => none
    | some (.comp _ a) => occursT n τ x a
    | some _ => some false

/-- `SMap::walk_star` -/
def walkStarT : Nat → TSub → Term → Option Term
  | 0, _, _ => none
  | n + 1, τ, t =>
    match τ.walk t with
    | none => none
    | some (.cons h tl) =>
      match walkStarT n τ h, walkStarT n τ tl with
      | some h', some tl' => some (.cons h' tl')
      | _, _ => none
    | some (.comp g a) => (walkStarT n τ a).map (.comp g)
    | some w => some w

/-- `extension.extend(x, t); state.smap_to_mut().extend(x, t)` after the occurs check -/
def bindT (k : Nat) (τ e : TSub) (x : Nat) (t : Term) : Option (Option (TSub × TSub)) :=
  match occursT k τ x t with
  | none => none
  | some true => some none
  | some false => some (some ((x, t) :: τ, (x, t) :: e))

/-- `unify_rec` / `unify_rec_compound`, case for case.  `k` is the fuel of each occurs check, `n` of the recursion.
    outer `none` = out of fuel;  `some none` = `Err(())`;  `some (some (τ', ext))` = `Ok(state)`. -/
def unifyT (k : Nat) : Nat → TSub → TSub → Term → Term → Option (Option (TSub × TSub))
  | 0, _, _, _, _ => none
  | n + 1, τ, e, u, v =>
    match τ.walk u, τ.walk v with
    | some wu, some wv =>
      match wu, wv with
      | .var x, .var y => if x = y then some (some (τ, e)) else bindT k τ e x (.var y)
      | .var x, t => bindT k τ e x t
      | t, .var y => bindT k τ e y t
      | .val a, .val b => if a = b then some (some (τ, e)) else some none
      | .nil, .nil => some (some (τ, e))
      | .cons h1 t1, .cons h2 t2 =>
        match unifyT k n τ e h1 h2 with
        | some (some (τ1, e1)) => unifyT k n τ1 e1 t1 t2
        | r => r
      | .comp g1 a1, .comp g2 a2 => if g1 = g2 then unifyT k n τ e a1 a2 else some none
      | _, _ => some none
    | _, _ => none

end Pv
