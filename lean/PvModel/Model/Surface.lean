/-
  Model of the proc-macro front end (macros/src/lib.rs) at the level of its AST: the clause grammar as a
  syntax tree with NAMES, and `elab` = the translation `Clause::to_tokens` performs, with the variable
  counter that `VarID::new` is made explicit.

  * `STerm`  : `TreeTerm` (variables by name, `_`, literals, `[]`, lists and improper lists as cons cells) and
               compound constructors / patterns (`comp`).
  * `SGoal`  : `==`, `!=`, `true`, `false`, conjunction `[g1, g2]`, disjunction `conde { g1, g2 }`,
               `|x| { g }` (one variable per binder; several are nested binders), pattern match arms
               `match t { p => body, rest… }` (`mtch t p body rest`; `ff` ends the arm list).
  * `EGoal`  : the elaborated goal: the same shapes over `Term` (variable ids), no names left.
  * `elabG`  : threads the counter: every binder / pattern variable / `_` takes the next id.
  Import-free apart from the term model; executable.
-/
import PvModel.Model.Term
namespace Pv
namespace Surface

abbrev Name := Nat

inductive STerm where
  | var (x : Name)
  | any
  | val (v : Val)
  | nil
  | cons (h t : STerm)
  /-- a compound constructor / pattern (`P3(a, b, c)`, `Named { a: x, b: y }`, a tuple): type tag and the
      arguments as a cons-list, as in `Term.comp` -/
  | comp (g : Nat) (a : STerm)
deriving Repr, DecidableEq

inductive SGoal where
  | eq (a b : STerm)
  | neq (a b : STerm)
  | tt
  | ff
  | conj (g1 g2 : SGoal)
  | disj (g1 g2 : SGoal)
  | fresh (x : Name) (g : SGoal)
  | mtch (t p : STerm) (body rest : SGoal)
deriving Repr

inductive EGoal where
  | eq (a b : Term)
  | neq (a b : Term)
  | succ
  | fail
  | conj (g1 g2 : EGoal)
  | disj (g1 g2 : EGoal)
  | fresh (g : EGoal)
deriving Repr, DecidableEq

abbrev Env := Name → Nat

def Env.bind (env : Env) (x : Name) (k : Nat) : Env := fun y => if y = x then k else env y

namespace STerm
/-- the distinct names of a pattern, in order of first occurrence (the macro collects them into a set) -/
def names : STerm → List Name
  | .var x => [x]
  | .cons h t => (names h ++ names t).eraseDups
  | .comp _ a => names a
  | _ => []

def rename (x z : Name) : STerm → STerm
  | .var y => if y = x then .var z else .var y
  | .cons h t => .cons (rename x z h) (rename x z t)
  | .comp g a => .comp g (rename x z a)
  | t => t

/-- does the name occur -/
def mentions (x : Name) : STerm → Bool
  | .var y => y == x
  | .cons h t => mentions x h || mentions x t
  | .comp _ a => mentions x a
  | _ => false
end STerm

/-- bind every name of a list to consecutive fresh ids starting at `n` -/
def bindAll (env : Env) : List Name → Nat → Env
  | [], _ => env
  | x :: xs, n => bindAll (env.bind x n) xs (n + 1)

/-- `TreeTerm::to_tokens`: names are looked up, every `_` is a new variable -/
def elabT (env : Env) : STerm → Nat → Term × Nat
  | .var x, n => (.var (env x), n)
  | .any, n => (.var n, n + 1)
  | .val v, n => (.val v, n)
  | .nil, n => (.nil, n)
  | .cons h t, n =>
    let (h', n1) := elabT env h n
    let (t', n2) := elabT env t n1
    (.cons h' t', n2)
  | .comp g a, n =>
    let (a', n1) := elabT env a n
    (.comp g a', n1)

/-- `Clause::to_tokens` -/
def elabG (env : Env) : SGoal → Nat → EGoal × Nat
  | .eq a b, n =>
    let (a', n1) := elabT env a n
    let (b', n2) := elabT env b n1
    (.eq a' b', n2)
  | .neq a b, n =>
    let (a', n1) := elabT env a n
    let (b', n2) := elabT env b n1
    (.neq a' b', n2)
  | .tt, n => (.succ, n)
  | .ff, n => (.fail, n)
  | .conj g1 g2, n =>
    let (e1, n1) := elabG env g1 n
    let (e2, n2) := elabG env g2 n1
    (.conj e1 e2, n2)
  | .disj g1 g2, n =>
    let (e1, n1) := elabG env g1 n
    let (e2, n2) := elabG env g2 n1
    (.disj e1 e2, n2)
  | .fresh x g, n =>
    let (e, n1) := elabG (env.bind x n) g (n + 1)
    (.fresh e, n1)
  | .mtch t p body rest, n =>
    -- `let __term__ = #term;` is evaluated in the OUTER scope, before the pattern variables exist
    let (t', n1) := elabT env t n
    -- one fresh variable per DISTINCT name of the pattern, local to this arm
    let ns := p.names
    let env' := bindAll env ns n1
    let (p', n2) := elabT env' p (n1 + ns.length)
    let (b, n3) := elabG env' body n2
    let (r, n4) := elabG env rest n3
    (.disj (.conj (.eq t' p') b) r, n4)

namespace EGoal
/-- the variable ids a goal mentions -/
def vars : EGoal → List Nat
  | .eq a b => a.vars ++ b.vars
  | .neq a b => a.vars ++ b.vars
  | .succ => []
  | .fail => []
  | .conj g1 g2 => vars g1 ++ vars g2
  | .disj g1 g2 => vars g1 ++ vars g2
  | .fresh g => vars g
end EGoal

namespace SGoal
/-- consistent renaming of the FREE occurrences of a name (stops at binders that rebind it) -/
def rename (x z : Name) : SGoal → SGoal
  | .eq a b => .eq (a.rename x z) (b.rename x z)
  | .neq a b => .neq (a.rename x z) (b.rename x z)
  | .tt => .tt
  | .ff => .ff
  | .conj g1 g2 => .conj (rename x z g1) (rename x z g2)
  | .disj g1 g2 => .disj (rename x z g1) (rename x z g2)
  | .fresh y g => if y = x then .fresh y g else .fresh y (rename x z g)
  | .mtch t p body rest =>
    .mtch (t.rename x z) p (if p.names.contains x then body else rename x z body) (rename x z rest)

/-- every name the goal mentions anywhere (free, bound or binding) -/
def allNames : SGoal → List Name
  | .eq a b => a.names ++ b.names
  | .neq a b => a.names ++ b.names
  | .tt => []
  | .ff => []
  | .conj g1 g2 => allNames g1 ++ allNames g2
  | .disj g1 g2 => allNames g1 ++ allNames g2
  | .fresh y g => y :: allNames g
  | .mtch t p body rest => t.names ++ p.names ++ allNames body ++ allNames rest
end SGoal

end Surface
end Pv
