/-
  Model of the search engine: `Stream`/`Lazy` (src/stream.rs), `StreamEngine::step`, `Solver::{start,next,
  peek,trunc}` (src/solver.rs) and the `solve` methods of the operators (src/operator/*.rs), generic in
  the state type `St` and in the type `K` of relation-call keys.  Import-free, executable.

  Names: `Strm`/`Lz` (the core names `Stream`/`Lazy` clash).  `Lazy::Iterator` is not modelled (no goal
  on the pinned tree creates one); `Pause`/`PauseDFS` are one constructor (both call `goal.solve`).

  Goals (`Goal`): one syntax tree for `Goal`/`DFSGoal`; constructors ending in `D` are the depth-first
  variants.  `alt g rest` is one clause of a `Conde` followed by the remaining clauses
  (`Conde::solve` folds `mplus(solve(clause), delay(rest))` from the last clause to the first).
-/
namespace Pv

inductive Goal (St K : Type) where
  | succeed
  | fail
  /-- a goal whose `solve` returns `Unit`/`Empty` at once: `==`, `!=`, FD/Z constraints, `DomFd` -/
  | atom (f : St → Option St)
  /-- a goal computed from the state and solved at once on an updated state
      (`FnGoal`, `Everyg`, `Project`): `solve st = (fg st).solve (fs st)` -/
  | dyn (fs : St → St) (fg : St → Goal St K)
  | conj (g1 g2 : Goal St K)
  | conjD (g1 g2 : Goal St K)
  | disj (g1 g2 : Goal St K)
  | disjD (g1 g2 : Goal St K)
  | alt (g rest : Goal St K)
  | altD (g rest : Goal St K)
  /-- `Fresh` (and every other operator whose solve is `Stream::pause(state, body)`) -/
  | fresh (g : Goal St K)
  | conda (first rest next : Goal St K)
  | condu (first rest next : Goal St K)
  | anyo (g : Goal St K)
  /-- `Closure`: the body is built when the goal is solved (`defs k`) and solved at once -/
  | call (k : K)

mutual
inductive Strm (St K : Type) where
  | empty
  | unit (a : St)
  | cons (a : St) (l : Lz St K)
  | lazy (l : Lz St K)
inductive Lz (St K : Type) where
  | bind (l : Lz St K) (g : Goal St K)
  | mplus (l1 l2 : Lz St K)
  | pause (a : St) (g : Goal St K)
  | bindD (l : Lz St K) (g : Goal St K)
  | mplusD (l1 l2 : Lz St K)
  | delay (s : Strm St K)
end

variable {St K : Type}

namespace Goal
def isSucceed : Goal St K → Bool
  | .succeed => true
  | _ => false
def isFail : Goal St K → Bool
  | .fail => true
  | _ => false

/-- `Conj::new` / `InferredConj::new` (the constructor's short-cuts) -/
def mkConj (g1 g2 : Goal St K) : Goal St K :=
  if g1.isSucceed && g2.isSucceed then .succeed
  else if g1.isFail || g2.isFail then .fail
  else .conj g1 g2

def mkConjD (g1 g2 : Goal St K) : Goal St K :=
  if g1.isSucceed && g2.isSucceed then .succeed
  else if g1.isFail || g2.isFail then .fail
  else .conjD g1 g2

/-- `Conj::from_array` / `from_vec`: right-nested, `succeed` innermost -/
def conjOfList : List (Goal St K) → Goal St K
  | [] => .succeed
  | g :: gs => mkConj g (conjOfList gs)

def conjDOfList : List (Goal St K) → Goal St K
  | [] => .succeed
  | g :: gs => mkConjD g (conjDOfList gs)

/-- `Conj::from_iter`: folds left, so the conjunction is built in REVERSE order -/
def conjOfIter (gs : List (Goal St K)) : Goal St K :=
  gs.foldl (fun p g => mkConj g p) .succeed

def conjDOfIter (gs : List (Goal St K)) : Goal St K :=
  gs.foldl (fun p g => mkConjD g p) .succeed

/-- the `mplus(solve(g), delay(rest))` chain built by `Conde::solve` and `map_sum` -/
def altOfList : List (Goal St K) → Goal St K
  | [] => .fail
  | g :: gs => .alt g (altOfList gs)

def altDOfList : List (Goal St K) → Goal St K
  | [] => .fail
  | g :: gs => .altD g (altDOfList gs)

/-- `Conde::from_conjunctions`: clauses are conjunctions; solving folds them into `alt` -/
def condeOfClauses (cs : List (List (Goal St K))) : Goal St K := altOfList (cs.map conjOfList)

def condeDOfClauses (cs : List (List (Goal St K))) : Goal St K := altDOfList (cs.map conjDOfList)

/-- `Disj::from_array` -/
def disjOfList : List (Goal St K) → Goal St K
  | [] => .fail
  | g :: gs => .disj g (disjOfList gs)

def disjDOfList : List (Goal St K) → Goal St K
  | [] => .fail
  | g :: gs => .disjD g (disjDOfList gs)

/-- `Conda::from_conjunctions`: empty clauses are skipped -/
def condaOfClauses : List (List (Goal St K)) → Goal St K
  | [] => .fail
  | [] :: cs => condaOfClauses cs
  | (f :: r) :: cs => .conda f (conjOfList r) (condaOfClauses cs)

def conduOfClauses : List (List (Goal St K)) → Goal St K
  | [] => .fail
  | [] :: cs => conduOfClauses cs
  | (f :: r) :: cs => .condu f (conjOfList r) (conduOfClauses cs)

/-- `onceo { gs }` = `condu { conj gs }` -/
def onceo (gs : List (Goal St K)) : Goal St K := .condu (conjOfList gs) .succeed .fail
end Goal

namespace Strm
open Goal

def isMature : Strm St K → Bool
  | .lazy _ => false
  | _ => true

def head? : Strm St K → Option St
  | .unit a => some a
  | .cons a _ => some a
  | _ => none

/-- `Stream::mplus`: note the swap of the two lazy arguments -/
def mplus : Strm St K → Lz St K → Strm St K
  | .empty, l => .lazy l
  | .lazy lh, l => .lazy (.mplus l lh)
  | .unit a, l => .cons a l
  | .cons a lh, l => .cons a (.mplus l lh)

/-- `Stream::mplus_dfs`: no swap -/
def mplusD : Strm St K → Lz St K → Strm St K
  | .empty, l => .lazy l
  | .lazy lh, l => .lazy (.mplusD lh l)
  | .unit a, l => .cons a l
  | .cons a lh, l => .cons a (.mplusD lh l)

/-- `Stream::bind` -/
def bind (s : Strm St K) (g : Goal St K) : Strm St K :=
  if g.isSucceed then s
  else if g.isFail then .empty
  else match s with
    | .empty => .empty
    | .lazy l => .lazy (.bind l g)
    | .unit a => .lazy (.pause a g)
    | .cons a l => .lazy (.mplus (.pause a g) (.bind l g))

/-- `Stream::bind_dfs` -/
def bindD (s : Strm St K) (g : Goal St K) : Strm St K :=
  if g.isSucceed then s
  else if g.isFail then .empty
  else match s with
    | .empty => .empty
    | .lazy l => .lazy (.bindD l g)
    | .unit a => .lazy (.pause a g)
    | .cons a l => .lazy (.mplusD (.pause a g) (.bindD l g))

/-- `Stream::lazy_bind` -/
def lazyBind (l : Lz St K) (g : Goal St K) : Strm St K :=
  if g.isSucceed then .lazy l else if g.isFail then .empty else .lazy (.bind l g)

/-- `Stream::lazy_bind_dfs` -/
def lazyBindD (l : Lz St K) (g : Goal St K) : Strm St K :=
  if g.isSucceed then .lazy l else if g.isFail then .empty else .lazy (.bindD l g)

end Strm

open Strm Goal

/-- `StreamEngine::step`, with `top g a` = `solver.start(&g, a)` for paused goals -/
def step (top : Goal St K → St → Strm St K) : Lz St K → Strm St K
  | .mplus l1 l2 => mplus (step top l1) l2
  | .bind l g => bind (step top l) g
  | .pause a g => top g a
  | .mplusD l1 l2 => mplusD (step top l1) l2
  | .bindD l g => bindD (step top l) g
  | .delay s => s

/-- `Solver::peek`: step until the stream is mature. `none` = out of fuel (the head never matures). -/
def peekF (top : Goal St K → St → Strm St K) : Nat → Strm St K → Option (Strm St K)
  | _, .empty => some .empty
  | _, .unit a => some (.unit a)
  | _, .cons a l => some (.cons a l)
  | 0, .lazy _ => none
  | n + 1, .lazy l => peekF top n (step top l)

/-- `Solver::trunc`: step until mature, keep at most the first answer.
    `none` = out of fuel; `some none` = the stream is empty; `some (some a)` = truncated to `Unit a`. -/
def truncF (top : Goal St K → St → Strm St K) : Nat → Strm St K → Option (Option St)
  | _, .empty => some none
  | _, .unit a => some (some a)
  | _, .cons a _ => some (some a)
  | 0, .lazy _ => none
  | n + 1, .lazy l => truncF top n (step top l)

/-- `goal.solve(solver, state)` for every goal kind.  `top` solves relation bodies and paused goals
    reached while peeking; `pf` is the fuel of the `peek`/`trunc` loops of `conda`/`condu`
    (a head that never matures makes the real code loop forever: the model diverges silently by
    re-pausing the same goal). -/
def start (defs : K → St → St × Goal St K) (top : Goal St K → St → Strm St K) (pf : Nat) :
    Goal St K → St → Strm St K
  | .succeed, a => .unit a
  | .fail, _ => .empty
  | .atom f, a => match f a with
    | some b => .unit b
    | none => .empty
  | .dyn fs fg, a => start defs top pf (fg a) (fs a)
  | .conj g1 g2, a => lazyBind (.pause a g1) g2
  | .conjD g1 g2, a => lazyBindD (.pause a g1) g2
  | .disj g1 g2, a => .lazy (.mplus (.pause a g1) (.pause a g2))
  | .disjD g1 g2, a => .lazy (.mplusD (.pause a g1) (.pause a g2))
  | .alt g r, a => mplus (start defs top pf g a) (.delay (start defs top pf r a))
  | .altD g r, a => mplusD (start defs top pf g a) (.delay (start defs top pf r a))
  | .fresh g, a => .lazy (.pause a g)
  | .conda f r n, a =>
    match peekF top pf (start defs top pf f a) with
    | none => .lazy (.pause a (.conda f r n))
    | some s => if s.head?.isSome then bind s r else start defs top pf n a
  | .condu f r n, a =>
    match truncF top pf (start defs top pf f a) with
    | none => .lazy (.pause a (.condu f r n))
    | some (some b) => bind (.unit b) r
    | some none => start defs top pf n a
  | .anyo g, a =>
    -- conde { g, anyo { g } }: both clauses are one-goal conjunctions (`InferredConj::new(g, succeed)`)
    let first : Strm St K :=
      if g.isSucceed then .unit a else if g.isFail then .empty else .lazy (.pause a g)
    -- the recursive `anyo { g }` re-wraps its body: `Anyo::new(Conj::from_conjunctions([[g]]))`
    let g' := mkConj (mkConj g .succeed) .succeed
    mplus first (.delay (mplus (.lazy (.pause a (.anyo g'))) (.delay .empty)))
  | .call k, a => top (defs k a).2 (defs k a).1

/-- The solver of nesting level `n`: relation bodies are solved at once (as `Closure::solve` does) up
    to `n` nested bodies; deeper nesting (which overflows the Rust stack) is paused instead. -/
def solveAt (defs : K → St → St × Goal St K) (pf : Nat) : Nat → Goal St K → St → Strm St K
  | 0 => fun g a => .lazy (.pause a g)
  | n + 1 => start defs (solveAt defs pf n) pf

/-- `Solver::next`: `none` = out of fuel, `some none` = stream exhausted,
    `some (some (a, rest))` = next answer and the remaining stream. -/
def nextF (top : Goal St K → St → Strm St K) : Nat → Strm St K → Option (Option (St × Strm St K))
  | _, .empty => some none
  | _, .unit a => some (some (a, .empty))
  | _, .cons a l => some (some (a, .lazy l))
  | 0, .lazy _ => none
  | n + 1, .lazy l => nextF top n (step top l)

/-- the first `k` answers (query iteration `take(k)`), with the fuel left threaded through -/
def takeF (top : Goal St K → St → Strm St K) (fuel : Nat) : Nat → Strm St K → Option (List St)
  | 0, _ => some []
  | k + 1, s =>
    match nextF top fuel s with
    | none => none
    | some none => some []
    | some (some (a, s')) =>
      match takeF top fuel k s' with
      | some as => some (a :: as)
      | none => none

end Pv
