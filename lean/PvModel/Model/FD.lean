/-
  Model of `src/state/fd.rs` (FiniteDomain).  Import-free, executable.

  `isize` is modelled as `Int` (no wrap-around; saturating ops are exact).
  Every function mirrors the control flow of the Rust method of the same name.
  Operations that `unwrap()` in Rust (`min`/`max` of an empty sparse vector) return
  `Option` here; under `WF` they are `some`.
-/
namespace Pv

inductive FD where
  | interval (lo hi : Int)
  | sparse (xs : List Int)
deriving Repr, DecidableEq, Inhabited

namespace FD

/-- `lo, lo+1, …` : `n` consecutive integers (the `RangeInclusive` iterator). -/
def upFrom (lo : Int) : Nat → List Int
  | 0 => []
  | n + 1 => lo :: upFrom (lo + 1) n

def rangeIncl (lo hi : Int) : List Int := upFrom lo (hi + 1 - lo).toNat

/-- `FiniteDomain::iter` as the list it yields. -/
def iter : FD → List Int
  | interval lo hi => rangeIncl lo hi
  | sparse xs => xs

/-- `iter().rev()` -/
def iterRev (d : FD) : List Int := d.iter.reverse

/-- membership in the denoted set -/
def Mem (d : FD) (x : Int) : Prop :=
  match d with
  | interval lo hi => lo ≤ x ∧ x ≤ hi
  | sparse xs => x ∈ xs

/-- strictly increasing -/
def StrictSorted : List Int → Prop
  | [] => True
  | [_] => True
  | a :: b :: t => a < b ∧ StrictSorted (b :: t)

/-- Well-formed: non-empty interval, or non-empty strictly increasing vector. -/
def WF : FD → Prop
  | interval lo hi => lo ≤ hi
  | sparse xs => xs ≠ [] ∧ StrictSorted xs

def strictSortedB : List Int → Bool
  | [] => true
  | [_] => true
  | a :: b :: t => decide (a < b) && strictSortedB (b :: t)

def wfB : FD → Bool
  | interval lo hi => decide (lo ≤ hi)
  | sparse xs => !xs.isEmpty && strictSortedB xs

/-- `is_singleton` (after the repair: `start == end`). -/
def isSingleton : FD → Bool
  | interval lo hi => lo == hi
  | sparse xs => xs.length == 1

/-- `min`: `*r.start()` / `v.first().unwrap()` -/
def min? : FD → Option Int
  | interval lo _ => some lo
  | sparse xs => xs.head?

/-- `max`: `*r.end()` / `v.last().unwrap()` -/
def max? : FD → Option Int
  | interval _ hi => some hi
  | sparse xs => xs.getLast?

def singletonValue (d : FD) : Option Int :=
  if d.isSingleton then d.min? else none

/-- `contains`: `r.contains(&u)` / `v.binary_search(&u).is_ok()` (= membership on a sorted vector). -/
def contains : FD → Int → Bool
  | interval lo hi, u => decide (lo ≤ u) && decide (u ≤ hi)
  | sparse xs, u => xs.contains u

/-- `copy_before` -/
def copyBefore (d : FD) (p : Int → Bool) : Option FD :=
  match d with
  | interval lo hi =>
    match (rangeIncl lo hi).find? p with
    | some u => if lo ≤ u - 1 then some (interval lo (u - 1)) else none
    | none => some d
  | sparse xs =>
    let v := xs.takeWhile (fun u => !p u)
    if v.isEmpty then none else some (sparse v)

/-- `drop_before` -/
def dropBefore (d : FD) (p : Int → Bool) : Option FD :=
  match d with
  | interval lo hi =>
    match (rangeIncl lo hi).find? p with
    | some u => some (interval u hi)
    | none => none
  | sparse xs =>
    let v := xs.dropWhile (fun u => !p u)
    if v.isEmpty then none else some (sparse v)

/-- the merge loop of the sparse/sparse case of `intersect` -/
def interMergeF : Nat → List Int → List Int → List Int
  | 0, _, _ => []
  | _ + 1, [], _ => []
  | _ + 1, _, [] => []
  | n + 1, s :: ss, o :: os =>
    if s > o then interMergeF n (s :: ss) os
    else if s = o then s :: interMergeF n ss os
    else interMergeF n ss (o :: os)

/-- the loop runs at most `|a| + |b|` iterations (each one consumes an element) -/
def interMerge (a b : List Int) : List Int := interMergeF (a.length + b.length) a b

def ofList? (v : List Int) : Option FD := if v.isEmpty then none else some (sparse v)

/-- `intersect` -/
def intersect (a b : FD) : Option FD :=
  match a, b with
  | interval l1 h1, interval l2 h2 =>
    let ms := max l1 l2
    let me := min h1 h2
    if ms ≤ me then some (interval ms me) else none
  | sparse v, interval lo hi | interval lo hi, sparse v =>
    ofList? ((v.dropWhile (fun u => decide (u < lo))).takeWhile (fun u => decide (u ≤ hi)))
  | sparse v1, sparse v2 => ofList? (interMerge v1 v2)

/-- the merge loop of `diff` -/
def diffMergeF : Nat → List Int → List Int → List Int
  | 0, _, _ => []
  | _ + 1, [], _ => []
  | n + 1, s :: ss, [] => s :: diffMergeF n ss []
  | n + 1, s :: ss, o :: os =>
    if s < o then s :: diffMergeF n ss (o :: os)
    else if s = o then diffMergeF n ss os
    else diffMergeF n (s :: ss) os

def diffMerge (a b : List Int) : List Int := diffMergeF (a.length + b.length) a b

/-- `diff` -/
def diff (a b : FD) : Option FD := ofList? (diffMerge a.iter b.iter)

/-- the merge loop of `is_disjoint` -/
def disjMergeF : Nat → List Int → List Int → Bool
  | 0, _, _ => true
  | _ + 1, [], _ => true
  | _ + 1, _, [] => true
  | n + 1, s :: ss, o :: os =>
    if s > o then disjMergeF n (s :: ss) os
    else if s = o then false
    else disjMergeF n ss (o :: os)

def disjMerge (a b : List Int) : Bool := disjMergeF (a.length + b.length) a b

/-- `is_disjoint` (the early exit uses `min()`/`max()`, which unwrap) -/
def isDisjoint (a b : FD) : Option Bool :=
  match a.min?, a.max?, b.min?, b.max? with
  | some amin, some amax, some bmin, some bmax =>
    if amin > bmax || amax < bmin then some true
    else some (disjMerge a.iter b.iter)
  | _, _, _, _ => none

/-- `PartialEq` (after the repair: both differences empty). -/
def beq (a b : FD) : Bool := (a.diff b).isNone && (b.diff a).isNone

/-- insertion into a strictly sorted list, dropping duplicates -/
def insertU (x : Int) : List Int → List Int
  | [] => [x]
  | y :: ys => if x < y then x :: y :: ys else if x = y then y :: ys else y :: insertU x ys

/-- `From<Vec<isize>>`: `sort()` then `dedup()` (after the repair); panics on empty input. -/
def ofVec? (v : List Int) : Option FD :=
  if v.isEmpty then none else some (sparse (v.foldr insertU []))

def ofRange (lo hi : Int) : FD := interval lo hi
def ofInt (u : Int) : FD := interval u u

end FD
end Pv
