/-
  Model of `State` (src/state/mod.rs), the constraint store (src/state/constraint/store.rs),
  `DisequalityConstraint` (src/relation/diseq.rs), the CLP(Z) constraints (src/relation/clpz/*.rs) and the
  CLP(FD) propagators (src/relation/clpfd/*.rs), as they are on the repaired tree.
  Import-free (model imports only), executable.

  * substitution: solved form `σ` (Model/Subst.lean)
  * constraint store: list of `(identity, constraint)` in insertion order; the identity models the `Rc`
    pointer by which `take_constraint` finds a constraint (`Hash`/`Eq` of `dyn Constraint` are by pointer).
    Re-adding `self` keeps the identity; a constraint built anew gets a new one.
  * domain store: association list `var ↦ FD`
  * `ord`: the iteration order of hash-based collections is a parameter (`Order`), a function that
    must return a permutation of its argument; the driver uses the identity.
  * user state (C22): counters of `with_constraint`/`take_constraint` hook calls and the log of extensions
    passed to `process_extension`.
  * `nextVar`: source of fresh variable ids (`VarID::new`); `nextId`: source of constraint identities.

  Nested `run_constraints` (propagators bind variables, which runs the store again) is unfolded by
  fuel: level `n+1` runs constraints whose nested runs happen at level `n`.
-/
import PvModel.Model.Unify
import PvModel.Model.FD
namespace Pv
open Term

inductive Res (α : Type) where
  | ok (a : α)
  | fail
  | fuel
  | panic (site : String)
deriving Repr

namespace Res
def bind {α β} : Res α → (α → Res β) → Res β
  | .ok a, f => f a
  | .fail, _ => .fail
  | .fuel, _ => .fuel
  | .panic s, _ => .panic s
end Res

inductive Cst where
  | diseq (ps : Ext1)
  | plusz (u v w : Term)
  | timesz (u v w : Term)
  | ltefd (u v : Term)
  | plusfd (u v w : Term)
  | minusfd (u v w : Term)
  | timesfd (u v w : Term)
  | diseqfd (u v : Term)
  | distinctfd (u : Term)
  | distinctfd2 (u : Term) (y : List Term) (n : List Int)
deriving Repr, DecidableEq

def Cst.isDiseq : Cst → Bool
  | .diseq _ => true
  | _ => false

def Cst.isFD : Cst → Bool
  | .ltefd .. | .plusfd .. | .minusfd .. | .timesfd .. | .diseqfd .. | .distinctfd .. | .distinctfd2 .. => true
  | _ => false

structure State where
  σ : Subst
  store : List (Nat × Cst) := []
  dstore : List (Nat × FD) := []
  nextId : Nat := 0
  nextVar : Nat := 0
  withs : Nat := 0
  takes : Nat := 0
  extLog : List Ext1 := []
  panic : Option String := none

def State.empty (nvars : Nat) : State := { σ := Subst.id, nextVar := nvars }

/-- iteration order of a hash-based collection: any permutation -/
structure Order where
  cs : List (Nat × Cst) → List (Nat × Cst) := fun l => l
  ps : Ext1 → Ext1 := fun l => l
  ds : List (Nat × FD) → List (Nat × FD) := fun l => l

def Order.default : Order := {}

namespace State

def dget (st : State) (x : Nat) : Option FD := (st.dstore.find? (fun p => p.1 == x)).map (·.2)
def dremove (st : State) (x : Nat) : State := { st with dstore := st.dstore.filter (fun p => p.1 != x) }
def dinsert (st : State) (x : Nat) (d : FD) : State :=
  { st with dstore := (st.dstore.filter (fun p => p.1 != x)) ++ [(x, d)] }

/-- the pairs of a disequality read as equations `var x = t` -/
def eqsOf (ps : Ext1) : List (Term × Term) := ps.map (fun p => (Term.var p.1, p.2))

/-- the substitution a disequality's pairs denote (its `SMap`, read as a triangular substitution):
    the pairs are unified oldest-first from the empty substitution -/
def substOfPairs (ps : Ext1) : Option Subst :=
  match unifyPairsF unifyFuel Subst.id [] (eqsOf ps.reverse) with
  | some (some (σ, _)) => some σ
  | _ => none

/-- `DisequalityConstraint::subsumes`: `c1` subsumes `c2` when unifying c1's pairs in c2's
    substitution does not extend it.  (The pairs of a stored constraint are an extension produced by
    a successful unification, so reading them back as a substitution always succeeds; the `none`
    branch is unreachable for reachable stores and answers `false`.) -/
def subsumes (ord : Order) (c1 c2 : Ext1) : Bool :=
  match substOfPairs c2 with
  | none => false
  | some σ2 =>
    match unifyPairsF unifyFuel σ2 [] (eqsOf (ord.ps c1)) with
    | some (some (_, e)) => e.isEmpty
    | _ => false

/-- `State::take_constraint` -/
def takeConstraint (st : State) (id : Nat) : State × Option Cst :=
  match st.store.find? (fun p => p.1 == id) with
  | some (_, c) => ({ st with store := st.store.filter (fun p => p.1 != id), takes := st.takes + 1 }, some c)
  | none => (st, none)

/-- `State::with_constraint` (repaired): a subsumed new disequality is neither announced nor stored;
    stored disequalities it subsumes leave through `take_constraint`; then the user hook and the insert. -/
def withConstraint (ord : Order) (st : State) (id : Nat) (c : Cst) : State :=
  match c with
  | .diseq ps =>
    if st.store.any (fun p => match p.2 with | .diseq ps' => subsumes ord ps' ps | _ => false) then st
    else
      let redundant := (ord.cs st.store).filter (fun p => match p.2 with | .diseq ps' => subsumes ord ps ps' | _ => false)
      let st := redundant.foldl (fun s p => (s.takeConstraint p.1).1) st
      { st with withs := st.withs + 1, store := st.store ++ [(id, c)] }
  | _ => { st with withs := st.withs + 1, store := (st.store.filter (fun p => p.1 != id)) ++ [(id, c)] }

/-- a new constraint object: fresh identity -/
def withNewConstraint (ord : Order) (st : State) (c : Cst) : State :=
  withConstraint ord { st with nextId := st.nextId + 1 } st.nextId c

/-- `DisequalityConstraint::run` -/
def runDiseq (ord : Order) (st : State) (ps : Ext1) : Res State :=
  match unifyPairsF unifyFuel st.σ [] (eqsOf (ord.ps ps)) with
  | none => .fuel
  | some none => .ok st
  | some (some (_, e)) => if e.isEmpty then .fail else .ok (st.withNewConstraint ord (.diseq e))

/-- an operand's domain: a variable's stored domain, a number's singleton, otherwise none -/
def opDomain (st : State) (w : Term) : Option FD :=
  match w with
  | .var x => st.dget x
  | .val (.num n) => some (FD.ofInt n)
  | _ => none

section WithRC
-- `rc`: the nested `run_constraints` (one fuel level down)
variable (rc : State → Res State) (ord : Order)

/-- `resolve_storable_domain` -/
def resolveStorable (st : State) (x : Nat) (d : FD) : Res State :=
  match d.singletonValue with
  | some n => rc ({ st with σ := bindS x (Term.num n) st.σ }.dremove x)
  | none => .ok (st.dinsert x d)

/-- `update_var_domain` -/
def updateVarDomain (st : State) (x : Nat) (d : FD) : Res State :=
  match st.dget x with
  | some old => match old.intersect d with
    | some i => resolveStorable rc st x i
    | none => .fail
  | none => resolveStorable rc st x d

/-- `process_domain` (repaired: walks its operand first) -/
def processDomain (st : State) (x : Term) (d : FD) : Res State :=
  match walk st.σ x with
  | .var y => updateVarDomain rc st y d
  | .val (.num v) => if d.contains v then .ok st else .fail
  | _ => .fail

/-- `exclude_from_domain`: the domain store is read once, before the loop -/
def excludeFromDomain (st : State) (xs : List Term) (ex : FD) : Res State :=
  let snap := st
  xs.foldl (fun (r : Res State) y =>
    r.bind fun st =>
      match y with
      | .var yv => match snap.dget yv with
        | some d => match d.diff ex with
          | some d' => processDomain rc st y d'
          | none => .fail
        | none => .ok st
      | _ => .ok st) (.ok st)

/-- did propagation bind one of the operands that were variables before it? -/
def operandBound (st : State) (walked : List Term) : Bool :=
  walked.any (fun t => match t with | .var x => st.σ x != .var x | _ => false)

def sortedInsert (k : Int) : List Int → List Int
  | [] => [k]
  | y :: ys => if k ≤ y then k :: y :: ys else y :: sortedInsert k ys

def hasAdjDup : List Int → Bool
  | a :: b :: t => a == b || hasAdjDup (b :: t)
  | _ => false

/-! `c.run(state)` for every constraint kind, one definition per kind.  `id` is the identity of the
    constraint (used when it re-adds itself); `self id c st` runs a constraint one re-run level down:
    the self re-run of `with_constraint_or_rerun` (each re-run needs a newly bound operand) and the
    `DistinctFd2Constraint` that `DistinctFdConstraint::run` creates and runs. -/

def runPlusZ (id : Nat) (u v w : Term) (st : State) : Res State :=
    match walk st.σ u, walk st.σ v, walk st.σ w with
    | .val (.num a), .val (.num b), .val (.num c) => if a + b = c then .ok st else .fail
    | .val (.num a), .val (.num b), .var z => rc { st with σ := bindS z (Term.num (a + b)) st.σ }
    | .val (.num a), .var y, .val (.num c) => rc { st with σ := bindS y (Term.num (c - a)) st.σ }
    | .var x, .val (.num b), .val (.num c) => rc { st with σ := bindS x (Term.num (c - b)) st.σ }
    | .var _, .var _, .var _ | .var _, .var _, .val (.num _) | .var _, .val (.num _), .var _
    | .val (.num _), .var _, .var _ => .ok (st.withConstraint ord id (.plusz u v w))
    | _, _, _ => .fail

def runTimesZ (id : Nat) (u v w : Term) (st : State) : Res State :=
    match walk st.σ u, walk st.σ v, walk st.σ w with
    | .val (.num a), .val (.num b), .val (.num c) => if a * b = c then .ok st else .fail
    | .val (.num a), .val (.num b), .var z => rc { st with σ := bindS z (Term.num (a * b)) st.σ }
    | .val (.num a), .var y, .val (.num c) =>
      if a = 0 then (if c = 0 then .ok (st.withConstraint ord id (.timesz u v w)) else .fail)
      else if Int.tmod c a ≠ 0 then .fail
      else rc { st with σ := bindS y (Term.num (Int.tdiv c a)) st.σ }
    | .var x, .val (.num b), .val (.num c) =>
      if b = 0 then (if c = 0 then .ok (st.withConstraint ord id (.timesz u v w)) else .fail)
      else if Int.tmod c b ≠ 0 then .fail
      else rc { st with σ := bindS x (Term.num (Int.tdiv c b)) st.σ }
    | .var _, .var _, .var _ | .var _, .var _, .val (.num _) | .var _, .val (.num _), .var _
    | .val (.num _), .var _, .var _ => .ok (st.withConstraint ord id (.timesz u v w))
    | _, _, _ => .fail

def runLteFd (self : Nat → Cst → State → Res State) (id : Nat) (u v : Term) (st : State) : Res State :=
    let uw := walk st.σ u
    let vw := walk st.σ v
    let ud := match uw with | .var x => st.dget x | _ => none
    let vd := match vw with | .var x => st.dget x | _ => none
    match ud, vd with
    | some udom, some vdom =>
      match vdom.max?, udom.min? with
      | some vmax, some umin =>
        match udom.copyBefore (fun a => decide (vmax < a)) with
        | none => .fail
        | some ud' =>
          (processDomain rc st uw ud').bind fun st =>
          match vdom.dropBefore (fun b => decide (umin ≤ b)) with
          | none => .fail
          | some vd' =>
            (processDomain rc st vw vd').bind fun st =>
            if operandBound st [uw, vw] then self id (.ltefd u v) st
            else .ok (st.withConstraint ord id (.ltefd u v))
      | _, _ => .panic "fd-minmax"
    | some udom, none =>
      match vw with
      | .val (.num b) =>
        match udom.copyBefore (fun a => decide (b < a)) with
        | none => .fail
        | some ud' => processDomain rc st uw ud'
      | _ => .ok (st.withConstraint ord id (.ltefd u v))
    | none, some vdom =>
      match uw with
      | .val (.num a) =>
        match vdom.dropBefore (fun b => decide (a ≤ b)) with
        | none => .fail
        | some vd' => processDomain rc st vw vd'
      | _ => .ok (st.withConstraint ord id (.ltefd u v))
    | none, none =>
      match uw, vw with
      | .val (.num a), .val (.num b) => if a ≤ b then .ok st else .fail
      | _, _ => .ok (st.withConstraint ord id (.ltefd u v))

/-- the three-domain branch shared by `plusfd`/`minusfd`/`timesfd`: narrow `w`, `u`, `v` to the given
    intervals, then re-run if propagation bound an operand, else re-add the constraint -/
def narrow3 (self : Nat → Cst → State → Res State) (id : Nat) (c : Cst) (uw vw ww : Term)
    (wi ui vi : FD) (st : State) : Res State :=
  (processDomain rc st ww wi).bind fun st =>
  (processDomain rc st uw ui).bind fun st =>
  (processDomain rc st vw vi).bind fun st =>
  if operandBound st [uw, vw, ww] then self id c st
  else .ok (st.withConstraint ord id c)

def runPlusFd (self : Nat → Cst → State → Res State) (id : Nat) (u v w : Term) (st : State) : Res State :=
    let uw := walk st.σ u
    let vw := walk st.σ v
    let ww := walk st.σ w
    match uw, vw, ww with
    | .val (.num a), .val (.num b), .val (.num c) => if a + b = c then .ok st else .fail
    | _, _, _ =>
      match opDomain st uw, opDomain st vw, opDomain st ww with
      | some ud, some vd, some wd =>
        match ud.min?, ud.max?, vd.min?, vd.max?, wd.min?, wd.max? with
        | some umin, some umax, some vmin, some vmax, some wmin, some wmax =>
          narrow3 rc ord self id (.plusfd u v w) uw vw ww
            (.interval (umin + vmin) (umax + vmax)) (.interval (wmin - vmax) (wmax - vmin))
            (.interval (wmin - umax) (wmax - umin)) st
        | _, _, _, _, _, _ => .panic "fd-minmax"
      | _, _, _ => .ok (st.withConstraint ord id (.plusfd u v w))

def runMinusFd (self : Nat → Cst → State → Res State) (id : Nat) (u v w : Term) (st : State) : Res State :=
    let uw := walk st.σ u
    let vw := walk st.σ v
    let ww := walk st.σ w
    match uw, vw, ww with
    | .val (.num a), .val (.num b), .val (.num c) => if a - b = c then .ok st else .fail
    | _, _, _ =>
      match opDomain st uw, opDomain st vw, opDomain st ww with
      | some ud, some vd, some wd =>
        match ud.min?, ud.max?, vd.min?, vd.max?, wd.min?, wd.max? with
        | some umin, some umax, some vmin, some vmax, some wmin, some wmax =>
          narrow3 rc ord self id (.minusfd u v w) uw vw ww
            (.interval (umin - vmax) (umax - vmin)) (.interval (wmin + vmin) (wmax + vmax))
            (.interval (umin - wmax) (umax - wmin)) st
        | _, _, _, _, _, _ => .panic "fd-minmax"
      | _, _, _ => .ok (st.withConstraint ord id (.minusfd u v w))

/-- `checked_div(..).unwrap_or(..)`: division by zero falls back to the old bound -/
def cdiv (a b dflt : Int) : Int := if b = 0 then dflt else Int.tdiv a b

/-- the intervals `timesfd` narrows `w`, `u`, `v` to (repaired: four-corner product bounds; quotient
    bounds only when all lower bounds are non-negative) -/
def timesBounds (umin umax vmin vmax wmin wmax : Int) : FD × FD × FD :=
  let c1 := umin * vmin
  let c2 := umin * vmax
  let c3 := umax * vmin
  let c4 := umax * vmax
  let wlow := min (min c1 c2) (min c3 c4)
  let whigh := max (max c1 c2) (max c3 c4)
  let nonneg := decide (0 ≤ umin) && decide (0 ≤ vmin) && decide (0 ≤ wmin)
  let ulow := if nonneg then cdiv wmin vmax umin else umin
  let uhigh := if nonneg then cdiv wmax vmin umax else umax
  let vlow := if nonneg then cdiv wmin umax vmin else vmin
  let vhigh := if nonneg then cdiv wmax umin vmax else vmax
  (.interval wlow whigh, .interval ulow uhigh, .interval vlow vhigh)

def runTimesFd (self : Nat → Cst → State → Res State) (id : Nat) (u v w : Term) (st : State) : Res State :=
    let uw := walk st.σ u
    let vw := walk st.σ v
    let ww := walk st.σ w
    match uw, vw, ww with
    | .val (.num a), .val (.num b), .val (.num c) => if a * b = c then .ok st else .fail
    | _, _, _ =>
      match opDomain st uw, opDomain st vw, opDomain st ww with
      | some ud, some vd, some wd =>
        match ud.min?, ud.max?, vd.min?, vd.max?, wd.min?, wd.max? with
        | some umin, some umax, some vmin, some vmax, some wmin, some wmax =>
          let b := timesBounds umin umax vmin vmax wmin wmax
          narrow3 rc ord self id (.timesfd u v w) uw vw ww b.1 b.2.1 b.2.2 st
        | _, _, _, _, _, _ => .panic "fd-minmax"
      | _, _, _ => .ok (st.withConstraint ord id (.timesfd u v w))

def runDiseqFd (id : Nat) (u v : Term) (st : State) : Res State :=
    let uw := walk st.σ u
    let vw := walk st.σ v
    match opDomain st uw, opDomain st vw with
    | some ud, some vd =>
      if ud.isSingleton && vd.isSingleton then
        (if ud.min? == vd.min? then .fail else .ok st)
      else match ud.isDisjoint vd with
        | none => .panic "fd-minmax"
        | some true => .ok st
        | some false =>
          let st := st.withConstraint ord id (.diseqfd u v)
          if ud.isSingleton then
            match vd.diff ud with
            | some d => processDomain rc st vw d
            | none => .fail
          else if vd.isSingleton then
            match ud.diff vd with
            | some d => processDomain rc st uw d
            | none => .fail
          else .ok st
    | _, _ => .ok (st.withConstraint ord id (.diseqfd u v))

def runDistinctFd (self : Nat → Cst → State → Res State) (id : Nat) (u : Term) (st : State) : Res State :=
    match walk st.σ u with
    | .var _ => .ok (st.withConstraint ord id (.distinctfd u))
    | .nil => self st.nextId (.distinctfd2 u [] []) { st with nextId := st.nextId + 1 }
    | .cons h t =>
      let els := (Term.cons h t).iterItems
      let xs := els.filter Term.isVar
      let ns := els.filter (fun e => !e.isVar)
      if ns.all Term.isNum then
        let n := (ns.filterMap Term.getNum?).foldr sortedInsert []
        if hasAdjDup n then .fail
        else self st.nextId (.distinctfd2 u xs n) { st with nextId := st.nextId + 1 }
      else .panic "distinctfd-const"
    | _ => .panic "distinctfd-term"

def runDistinctFd2 (u : Term) (y : List Term) (n : List Int) (st : State) : Res State :=
    -- walk every pending element: still a variable → stays; a number → joins the constants
    let step (acc : Res (List Term × List Int)) (yi : Term) : Res (List Term × List Int) :=
      acc.bind fun (x, n) =>
        match walk st.σ yi with
        | .var _ => .ok (x ++ [yi], n)
        | .val (.num k) => if n.contains k then .fail else .ok (x, sortedInsert k n)
        | .val _ => .panic "distinctfd-value"
        | _ => .panic "distinctfd-term"
    (y.foldl step (.ok ([], n))).bind fun (x, n') =>
      let st := st.withNewConstraint ord (.distinctfd2 u x n')
      if n'.isEmpty then .ok st
      else excludeFromDomain rc st x (.sparse n')

/-- dispatch on the constraint kind -/
def runCstBody (self : Nat → Cst → State → Res State) (id : Nat) (c : Cst) (st : State) : Res State :=
  match c with
  | .diseq ps => runDiseq ord st ps
  | .plusz u v w => runPlusZ rc ord id u v w st
  | .timesz u v w => runTimesZ rc ord id u v w st
  | .ltefd u v => runLteFd rc ord self id u v st
  | .plusfd u v w => runPlusFd rc ord self id u v w st
  | .minusfd u v w => runMinusFd rc ord self id u v w st
  | .timesfd u v w => runTimesFd rc ord self id u v w st
  | .diseqfd u v => runDiseqFd rc ord id u v st
  | .distinctfd u => runDistinctFd ord self id u st
  | .distinctfd2 u y n => runDistinctFd2 rc ord u y n st

/-- `c.run(state)`; `k` bounds the self re-runs (level 0 has none left: `.fuel`) -/
def runCst : Nat → Nat → Cst → State → Res State
  | 0, id, c, st => runCstBody rc ord (fun _ _ _ => .fuel) id c st
  | k + 1, id, c, st => runCstBody rc ord (runCst k) id c st

/-- the loop of `run_constraints` over the snapshot of the store -/
def runSnapshot (st : State) (snap : List (Nat × Cst)) : Res State :=
  snap.foldl (fun (r : Res State) p =>
    r.bind fun st =>
      match st.takeConstraint p.1 with
      | (st', some c) => runCst rc ord 4 p.1 c st'
      | (st', none) => .ok st') (.ok st)

end WithRC

/-- `State::run_constraints` with `n` levels of nesting available -/
def runConstraintsF (ord : Order) : Nat → State → Res State
  | 0, _ => .fuel
  | n + 1, st => runSnapshot (runConstraintsF ord n) ord st (ord.cs st.store)

def rcFuel : Nat := 64

/-- run one constraint at top level (posting it for the first time: it is not in the store) -/
def postCst (ord : Order) (st : State) (c : Cst) : Res State :=
  runCst (runConstraintsF ord rcFuel) ord 4 st.nextId c { st with nextId := st.nextId + 1 }

/-- `process_extension_fd`: the domain store is read once, before the loop -/
def processExtensionFd (ord : Order) (st : State) (e : Ext1) : Res State :=
  let snap := st
  (ord.ps e).foldl (fun (r : Res State) p =>
    r.bind fun st =>
      match snap.dget p.1 with
      | some d =>
        (processDomain (runConstraintsF ord rcFuel) st p.2 d).bind fun st =>
          match st.dget p.1 with
          | some _ => runConstraintsF ord (rcFuel + 1) (st.dremove p.1)
          | none => .fail
      | none => .ok st) (.ok st)

/-- `process_extension`: disequalities (= run the whole store), FD, user hook -/
def processExtension (ord : Order) (st : State) (e : Ext1) : Res State :=
  (runConstraintsF ord (rcFuel + 1) st).bind fun st =>
  (processExtensionFd ord st e).bind fun st =>
  .ok { st with extLog := e :: st.extLog }

/-- `State::unify` -/
def unify (ord : Order) (st : State) (u v : Term) : Res State :=
  match unifyF unifyFuel st.σ [] u v with
  | none => .fuel
  | some none => .fail
  | some (some (σ', e)) => processExtension ord { st with σ := σ' } e

/-- `State::disunify` -/
def disunify (ord : Order) (st : State) (u v : Term) : Res State :=
  match unifyF unifyFuel st.σ [] u v with
  | none => .fuel
  | some none => .ok st
  | some (some (_, e)) => if e.isEmpty then .fail else .ok (st.withNewConstraint ord (.diseq e))

/-- `DomFd::solve` -/
def domFd (ord : Order) (st : State) (x : Term) (d : FD) : Res State :=
  processDomain (runConstraintsF ord rcFuel) st x d

/-- `verify_all_bound`: is some FD operand an unbound variable without a domain? -/
def operandsOf : Cst → List Term
  | .diseq ps => ps.flatMap (fun p => [.var p.1, p.2])
  | .plusz u v w | .timesz u v w | .plusfd u v w | .minusfd u v w | .timesfd u v w => [u, v, w]
  | .ltefd u v | .diseqfd u v => [u, v]
  | .distinctfd u => [u]
  | .distinctfd2 u _ _ => u.iterItems

def allBound (st : State) : Bool :=
  st.store.all fun p =>
    !p.2.isFD || (operandsOf p.2).all fun u =>
      match walk st.σ u with
      | .var x => (st.dget x).isSome
      | _ => true

end State
end Pv
