/-
  Model of `LValue` / `LTermInner` (src/lvalue.rs, src/lterm.rs).  Import-free, executable.

  * `Val`  : the four literal kinds (strings are identified by an index into the case's string table).
  * `Term` : `var id` (names are irrelevant to every operation modelled here: `PartialEq`/`Hash`
             of `Var` use the id only), literals, `nil` (= `Empty`, also `None`), `cons`,
             `comp tag args` (a `#[compound]` object / tuple / `Some`, `tag` = its `type_id`,
             `args` = its children as a cons-list so that `Term` is not a nested inductive).
  `User` and `Projection` terms are not part of this type (see Model/Project for projections).
-/
namespace Pv

inductive Val where
  | num (n : Int)
  | bool (b : Bool)
  | chr (c : Nat)
  | str (s : Nat)
deriving Repr, DecidableEq, Inhabited

inductive Term where
  | var (x : Nat)
  | val (v : Val)
  | nil
  | cons (h t : Term)
  | comp (tag : Nat) (args : Term)
deriving Repr, DecidableEq, Inhabited

namespace Term

def num (n : Int) : Term := .val (.num n)

def isVar : Term → Bool
  | .var _ => true
  | _ => false

def isNum : Term → Bool
  | .val (.num _) => true
  | _ => false

def getNum? : Term → Option Int
  | .val (.num n) => some n
  | _ => none

/-- occurrence of variable `x` -/
def occurs (x : Nat) : Term → Bool
  | .var y => x == y
  | .cons h t => occurs x h || occurs x t
  | .comp _ a => occurs x a
  | _ => false

/-- variables in first-occurrence (left-to-right) order, with repetitions -/
def vars : Term → List Nat
  | .var x => [x]
  | .cons h t => vars h ++ vars t
  | .comp _ a => vars a
  | _ => []

def size : Term → Nat
  | .cons h t => size h + size t + 1
  | .comp _ a => size a + 1
  | _ => 1

def ground (t : Term) : Bool := t.vars.isEmpty

/-- `LTerm::from_vec` / `from_array` / `collect` -/
def ofList : List Term → Term
  | [] => .nil
  | t :: ts => .cons t (ofList ts)

/-- `LTerm::improper_from_vec`: last element is the tail -/
def improperOfList : List Term → Term → Term
  | [], tl => tl
  | t :: ts, tl => .cons t (improperOfList ts tl)

/-- `LTerm::iter`: the elements of a list term and its final tail (`nil` for a proper list) -/
def listElems : Term → List Term × Term
  | .cons h t => let (es, tl) := listElems t; (h :: es, tl)
  | t => ([], t)

/-- the items `iter()` yields: elements, then the improper tail if it is not `nil` -/
def iterItems (t : Term) : List Term :=
  let (es, tl) := t.listElems
  match tl with
  | .nil => es
  | o => es ++ [o]

end Term
end Pv
