/-
  `append(l, s, ls)` IN ENUMERATING MODE: when the start state fixes the length `n` of the THIRD argument, the call
  yields ONE ANSWER PER SPLIT POSITION `i ≤ n` that some described valuation realises (`l` the first `i` elements),
  in increasing order of `i` in the reference (Prolog) order, and the state for position `i` describes exactly the
  valuations of the start state that split `ls` at `i`.  With `l`, `s` fresh this is the familiar "n + 1 answers,
  every split exactly once".
-/
import PvModel.Proofs.RelCountApp
namespace Pv
open Strm Goal State Term

/-- `γ` makes `ls = l ++ s` with `l` a proper list of `i` elements -/
def SplitAt (l s ls : Term) (i : Nat) (γ : Subst) : Prop :=
  AppT (apply γ l) (apply γ s) (apply γ ls) ∧ ∃ xs : List Term, xs.length = i ∧ apply γ l = ofList xs

/-- the split position is determined by the valuation (`l` has one length) -/
theorem splitAt_unique {l s ls : Term} {i j : Nat} {γ : Subst} (hi : SplitAt l s ls i γ) (hj : SplitAt l s ls j γ) : i = j := by
  obtain ⟨_, xs, rfl, e1⟩ := hi
  obtain ⟨_, ys, rfl, e2⟩ := hj
  rw [e1] at e2
  rw [ofListT_inj _ _ e2]

theorem split_assemble {N : Nat} {a : State} {l s ls : Term} {r1 r2 : List State} {p1 p2 : List Nat}
    (Z1 : Zip2 (fun b i => Describes a (SplitAt l s ls i) b) r1 p1) (P1 : p1 = [] ∨ p1 = [0])
    (M1 : 0 ∈ p1 ↔ ∃ γ, StateSem γ a ∧ SplitAt l s ls 0 γ)
    (PW2 : p2.Pairwise (· < ·))
    (M2 : ∀ k, k ∈ p2 ↔ (k + 1 ≤ N ∧ ∃ γ, StateSem γ a ∧ SplitAt l s ls (k + 1) γ))
    (Z2 : Zip2 (fun b i => Describes a (SplitAt l s ls (i + 1)) b) r2 p2) :
    (p1 ++ p2.map (· + 1)).Pairwise (· < ·) ∧
    (∀ i, i ∈ p1 ++ p2.map (· + 1) ↔ (i ≤ N ∧ ∃ γ, StateSem γ a ∧ SplitAt l s ls i γ)) ∧
    Zip2 (fun b i => Describes a (SplitAt l s ls i) b) (r1 ++ r2) (p1 ++ p2.map (· + 1)) := by
  refine ⟨?_, ?_, zip2_append Z1 (zip2_map (· + 1) (fun _ _ h => h) Z2)⟩
  · rw [List.pairwise_append]
    refine ⟨by rcases P1 with rfl | rfl <;> simp, (List.pairwise_map).2 (PW2.imp (by intro a b h; omega)), ?_⟩
    intro i hi j hj
    obtain ⟨k, _, rfl⟩ := List.mem_map.1 hj
    rcases P1 with rfl | rfl
    · cases hi
    · simp only [List.mem_singleton] at hi; omega
  · intro i
    simp only [List.mem_append, List.mem_map]
    constructor
    · rintro (h | ⟨k, hk, rfl⟩)
      · have i0 : i = 0 := by
          rcases P1 with rfl | rfl
          · cases h
          · simpa using h
        subst i0
        exact ⟨Nat.zero_le _, M1.1 h⟩
      · exact (M2 k).1 hk
    · rintro ⟨hin, hex⟩
      cases i with
      | zero => exact .inl (M1.2 hex)
      | succ k => exact .inr ⟨k, (M2 k).2 ⟨hin, hex⟩, rfl⟩

theorem zip2_imp {α β : Type} {R R' : α → β → Prop} (h : ∀ a b, R a b → R' a b) : ∀ {as : List α} {bs : List β},
    Zip2 R as bs → Zip2 R' as bs
  | _, _, .nil => .nil
  | _, _, .cons r t => .cons (h _ _ r) (zip2_imp h t)

section
variable {ord : Order}

/-- clause 1 of `append` (`l = []`, `s = ls`): no answer or one, the split at position 0 -/
theorem app_clause1 (ho : OrderOK ord) (l s ls : Term) (a : State)
    (bl : Below a.nextVar l) (bs : Below a.nextVar s) (bls : Below a.nextVar ls) (hp : a.panic.isSome = false) (hi : RInv a) (hd : DNF a)
    (nopoison : ∀ b, (liftRes fun st => postAtom ord st (appA1 l s ls a.nextVar)) { a with nextVar := a.nextVar + 5 } = some b →
      b.panic.isSome = true → False) :
    ∃ (r1 : List State) (p1 : List Nat),
      ChainR (defs ord) [eqG ord (ofList [l, s, ls]) (ofList [.nil, .var (a.nextVar + 0), .var (a.nextVar + 0)])] { a with nextVar := a.nextVar + 5 } r1 ∧
      Zip2 (fun b i => Describes a (SplitAt l s ls i) b) r1 p1 ∧ (p1 = [] ∨ p1 = [0]) ∧
      (0 ∈ p1 ↔ ∃ γ, StateSem γ a ∧ SplitAt l s ls 0 γ) := by
  have hle : a.nextVar ≤ a.nextVar + 5 := Nat.le_add_right _ _
  have hi' : RInv { a with nextVar := a.nextVar + 5 } := rinv_bump 5 hi
  have hd' : DNF { a with nextVar := a.nextVar + 5 } := hd
  have mk : ∀ γ, StateSem γ a → SplitAt l s ls 0 γ →
      ∃ γ1, Agree a.nextVar γ γ1 ∧ StateSem γ1 { a with nextVar := a.nextVar + 5 } ∧ (appA1 l s ls a.nextVar).Sat γ1 := by
    intro γ hγ ⟨happ, xs, hxs, el⟩
    cases xs with
    | cons _ _ => simp at hxs
    | nil =>
      have hl : apply γ l = .nil := el
      rw [hl] at happ
      have e := appT_nil_inv happ
      have hag : Agree a.nextVar γ (setV γ (a.nextVar + 0) (apply γ s)) := agree_setV γ _ (Nat.le_refl _)
      refine ⟨_, hag, hi.2 _ _ hag hγ, appA1_sat.2 ?_⟩
      rw [← apply_of_agree bl hag, ← apply_of_agree bs hag, ← apply_of_agree bls hag, hl, setV_self]
      exact ⟨rfl, rfl, e⟩
  rcases atom_eval ho (appA1 l s ls a.nextVar) (a := { a with nextVar := a.nextVar + 5 }) (appA1_below bl bs bls) hp hi' hd'
    with ⟨e1, nos⟩ | ⟨b, e1, pb⟩ | ⟨b, e1, ub, ib, db, nvb, sem⟩
  · refine ⟨[], [], chain_nil_of_none e1, .nil, .inl rfl, ⟨fun h => (nomatch h), fun ⟨γ, hγ, hsp⟩ => ?_⟩⟩
    obtain ⟨γ1, _, h1, hs⟩ := mk γ hγ hsp
    exact (nos γ1 h1 hs).elim
  · exact (nopoison b e1 pb).elim
  · have desc : Describes a (SplitAt l s ls 0) b := by
      refine ⟨ub, ib, db, by rw [nvb]; exact hle, fun γ hγ => ?_, fun γ hγ hsp => ?_⟩
      · have h1 := (sem γ).1 hγ
        refine ⟨h1.1, ?_⟩
        obtain ⟨a1, a2, a3⟩ := appA1_sat.1 h1.2
        exact ⟨by rw [a1, a2, a3]; exact .nil _, [], rfl, a1⟩
      · obtain ⟨γ1, hag, h1, hs⟩ := mk γ hγ hsp
        exact ⟨γ1, hag, (sem γ1).2 ⟨h1, hs⟩⟩
    refine ⟨[b], [0], ?_, .cons desc .nil, .inr rfl, ⟨fun _ => ?_, fun _ => List.mem_cons_self⟩⟩
    · have := chain_atom1 (ord := ord) (liftRes fun st => postAtom ord st (appA1 l s ls a.nextVar)) { a with nextVar := a.nextVar + 5 }
      rw [e1] at this; exact this
    · obtain ⟨γ, hγ⟩ := rinv_sat ib db
      exact ⟨γ, (desc.snd γ hγ).1, (desc.snd γ hγ).2⟩

theorem append_split_count (ho : OrderOK ord) (d : Bool) : ∀ (n : Nat) (l s ls : Term) (a : State),
    Below a.nextVar l → Below a.nextVar s → Below a.nextVar ls → a.panic.isSome = false → RInv a → DNF a → ListLen n ls a →
    (∀ b, Big (defs ord) (.call ⟨.append, [l, s, ls], d⟩) a b → b.panic.isSome = false) →
    ∃ (ys : List State) (ps : List Nat), EvalR (defs ord) (.call ⟨.append, [l, s, ls], d⟩) a ys ∧ ps.Pairwise (· < ·) ∧
      (∀ i, i ∈ ps ↔ (i ≤ n ∧ ∃ γ, StateSem γ a ∧ SplitAt l s ls i γ)) ∧
      Zip2 (fun b i => Describes a (SplitAt l s ls i) b) ys ps := by
  intro n
  induction n with
  | zero =>
    intro l s ls a bl bs bls hp hi hd hlen hnf
    have hle : a.nextVar ≤ a.nextVar + 5 := Nat.le_add_right _ _
    have hi' : RInv { a with nextVar := a.nextVar + 5 } := rinv_bump 5 hi
    have hd' : DNF { a with nextVar := a.nextVar + 5 } := hd
    have toBig : ∀ (cl : List G), cl ∈ [[eqG ord (ofList [l, s, ls]) (ofList [.nil, .var (a.nextVar + 0), .var (a.nextVar + 0)])],
        [eqG ord (ofList [l, s, ls]) (ofList [.cons (.var (a.nextVar + 1)) (.var (a.nextVar + 2)), .var (a.nextVar + 4), .cons (.var (a.nextVar + 1)) (.var (a.nextVar + 3))]),
         .call ⟨.append, [.var (a.nextVar + 2), .var (a.nextVar + 4), .var (a.nextVar + 3)], d⟩]] →
        ∀ b, BigChain ord cl { a with nextVar := a.nextVar + 5 } b → Big (defs ord) (.call ⟨.append, [l, s, ls], d⟩) a b := by
      intro cl hcl b hb
      rw [big_call_rel, body_append]
      exact (big_oneOf d _ _ _).2 ⟨cl, hcl, hb⟩
    have lsnil : ∀ γ, StateSem γ a → apply γ ls = .nil := by
      intro γ hγ
      obtain ⟨ys, hl0, e⟩ := hlen γ hγ
      cases ys with
      | nil => exact e
      | cons _ _ => simp at hl0
    -- clause 2 (`ls` is a cons) has no solution
    have r2 : (liftRes fun st => postAtom ord st (appA2 l s ls a.nextVar)) { a with nextVar := a.nextVar + 5 } = none := by
      rcases atom_eval ho (appA2 l s ls a.nextVar) (a := { a with nextVar := a.nextVar + 5 }) (appA2_below bl bs bls) hp hi' hd'
        with ⟨e, _⟩ | ⟨b, e, pb⟩ | ⟨b, e, _, ib, db, _, sem⟩
      · exact e
      · obtain ⟨q, hq, pq⟩ := flow_append (ord := ord) (.var (a.nextVar + 2)) (.var (a.nextVar + 4)) (.var (a.nextVar + 3)) d pb
        have := hnf q (toBig _ (List.mem_cons_of_mem _ List.mem_cons_self) q ⟨b, big_atom.2 e, q, hq, rfl⟩)
        rw [this] at pq; cases pq
      · obtain ⟨γ, hγ⟩ := rinv_sat ib db
        have h1 := (sem γ).1 hγ
        have s1 := (appA2_sat.1 h1.2).2.2
        rw [lsnil γ h1.1] at s1
        cases s1
    obtain ⟨r1, p1, C1, Z1, P1, M1⟩ := app_clause1 ho l s ls a bl bs bls hp hi hd
      (fun b e pb => by
        have := hnf b (toBig _ List.mem_cons_self b ⟨b, big_atom.2 e, rfl⟩)
        rw [this] at pb; cases pb)
    obtain ⟨PW, M, Z⟩ := split_assemble (N := 0) (r2 := []) (p2 := []) Z1 P1 M1 .nil
      (fun k => ⟨fun h => (nomatch h), fun h => by omega⟩) .nil
    refine ⟨r1 ++ [], p1 ++ [].map (· + 1), ?_, PW, M, Z⟩
    refine evalR_call ?_
    show EvalR (defs ord) (relBody ord ⟨.append, [l, s, ls], d⟩ a.nextVar).2 { a with nextVar := a.nextVar + 5 } (r1 ++ [])
    rw [body_append]
    exact evalR_oneOf d _ _ _ ⟨r1, [], C1, ⟨[], [], chain_nil_of_none r2, rfl, rfl⟩, rfl⟩
  | succ n ih =>
    intro l s ls a bl bs bls hp hi hd hlen hnf
    have hle : a.nextVar ≤ a.nextVar + 5 := Nat.le_add_right _ _
    have hi' : RInv { a with nextVar := a.nextVar + 5 } := rinv_bump 5 hi
    have hd' : DNF { a with nextVar := a.nextVar + 5 } := hd
    have toBig : ∀ (cl : List G), cl ∈ [[eqG ord (ofList [l, s, ls]) (ofList [.nil, .var (a.nextVar + 0), .var (a.nextVar + 0)])],
        [eqG ord (ofList [l, s, ls]) (ofList [.cons (.var (a.nextVar + 1)) (.var (a.nextVar + 2)), .var (a.nextVar + 4), .cons (.var (a.nextVar + 1)) (.var (a.nextVar + 3))]),
         .call ⟨.append, [.var (a.nextVar + 2), .var (a.nextVar + 4), .var (a.nextVar + 3)], d⟩]] →
        ∀ b, BigChain ord cl { a with nextVar := a.nextVar + 5 } b → Big (defs ord) (.call ⟨.append, [l, s, ls], d⟩) a b := by
      intro cl hcl b hb
      rw [big_call_rel, body_append]
      exact (big_oneOf d _ _ _).2 ⟨cl, hcl, hb⟩
    obtain ⟨r1, p1, C1, Z1, P1, M1⟩ := app_clause1 ho l s ls a bl bs bls hp hi hd
      (fun b e pb => by
        have := hnf b (toBig _ List.mem_cons_self b ⟨b, big_atom.2 e, rfl⟩)
        rw [this] at pb; cases pb)
    -- from a solution at position k + 1 to a solution of clause 2's atom and of the recursive call at position k
    have up : ∀ γ k, StateSem γ a → SplitAt l s ls (k + 1) γ →
        ∃ γ1, Agree a.nextVar γ γ1 ∧ StateSem γ1 { a with nextVar := a.nextVar + 5 } ∧ (appA2 l s ls a.nextVar).Sat γ1 ∧
          SplitAt (.var (a.nextVar + 2)) (.var (a.nextVar + 4)) (.var (a.nextVar + 3)) k γ1 := by
      intro γ k hγ ⟨happ, xs, hxs, el⟩
      cases xs with
      | nil => simp at hxs
      | cons x xs =>
        have el' : apply γ l = .cons x (ofList xs) := el
        rw [el'] at happ
        obtain ⟨r', er, h'⟩ := appT_cons_inv happ
        obtain ⟨γ1, hag, h1, hs, w2, w4, w3⟩ := app_ext bl bs bls hi hγ el' er
        refine ⟨γ1, hag, h1, hs, ?_, xs, by simpa using hxs, by simp only [apply]; exact w2⟩
        simp only [apply]
        rw [w2, w4, w3]; exact h'
    have fin : ∀ (r2 : List State) (p2 : List Nat),
        ClausesR (defs ord) [[eqG ord (ofList [l, s, ls]) (ofList [.cons (.var (a.nextVar + 1)) (.var (a.nextVar + 2)), .var (a.nextVar + 4), .cons (.var (a.nextVar + 1)) (.var (a.nextVar + 3))]),
         .call ⟨.append, [.var (a.nextVar + 2), .var (a.nextVar + 4), .var (a.nextVar + 3)], d⟩]] { a with nextVar := a.nextVar + 5 } r2 →
        p2.Pairwise (· < ·) →
        (∀ k, k ∈ p2 ↔ (k + 1 ≤ n + 1 ∧ ∃ γ, StateSem γ a ∧ SplitAt l s ls (k + 1) γ)) →
        Zip2 (fun b i => Describes a (SplitAt l s ls (i + 1)) b) r2 p2 →
        ∃ (ys : List State) (ps : List Nat), EvalR (defs ord) (.call ⟨.append, [l, s, ls], d⟩) a ys ∧ ps.Pairwise (· < ·) ∧
          (∀ i, i ∈ ps ↔ (i ≤ n + 1 ∧ ∃ γ, StateSem γ a ∧ SplitAt l s ls i γ)) ∧
          Zip2 (fun b i => Describes a (SplitAt l s ls i) b) ys ps := by
      intro r2 p2 C2 PW2 M2 Z2
      obtain ⟨PW, M, Z⟩ := split_assemble (N := n + 1) Z1 P1 M1 PW2 M2 Z2
      refine ⟨r1 ++ r2, p1 ++ p2.map (· + 1), ?_, PW, M, Z⟩
      refine evalR_call ?_
      show EvalR (defs ord) (relBody ord ⟨.append, [l, s, ls], d⟩ a.nextVar).2 { a with nextVar := a.nextVar + 5 } (r1 ++ r2)
      rw [body_append]
      exact evalR_oneOf d _ _ _ ⟨r1, r2, C1, C2, rfl⟩
    rcases atom_eval ho (appA2 l s ls a.nextVar) (a := { a with nextVar := a.nextVar + 5 }) (appA2_below bl bs bls) hp hi' hd'
      with ⟨e2, nos⟩ | ⟨b, e2, pb⟩ | ⟨c, e2, uc, ic, dc, nvc, semc⟩
    · refine fin [] [] ⟨[], [], chain_nil_of_none e2, rfl, rfl⟩ .nil (fun k => ⟨fun h => (nomatch h), fun ⟨_, γ, hγ, hsp⟩ => ?_⟩) .nil
      obtain ⟨γ1, _, h1, hs, _⟩ := up γ k hγ hsp
      exact (nos γ1 h1 hs).elim
    · obtain ⟨q, hq, pq⟩ := flow_append (ord := ord) (.var (a.nextVar + 2)) (.var (a.nextVar + 4)) (.var (a.nextVar + 3)) d pb
      have := hnf q (toBig _ (List.mem_cons_of_mem _ List.mem_cons_self) q ⟨b, big_atom.2 e2, q, hq, rfl⟩)
      rw [this] at pq; cases pq
    · have nvc' : c.nextVar = a.nextVar + 5 := nvc
      have lenc : ListLen n (.var (a.nextVar + 3)) c := by
        intro γ hγ
        have h1 := (semc γ).1 hγ
        obtain ⟨ys, hys, ec⟩ := hlen γ h1.1
        have s1 := (appA2_sat.1 h1.2).2.2
        rw [ec] at s1
        cases ys with
        | nil => cases s1
        | cons y ys =>
          simp only [ofList, Term.cons.injEq] at s1
          exact ⟨ys, by simpa using hys, by simp only [apply]; exact s1.2.symm⟩
      obtain ⟨ys', ps', E', PW', M', Z'⟩ := ih (.var (a.nextVar + 2)) (.var (a.nextVar + 4)) (.var (a.nextVar + 3)) c
        (below_var (by rw [nvc']; omega)) (below_var (by rw [nvc']; omega)) (below_var (by rw [nvc']; omega)) uc ic dc lenc
        (fun b hb => hnf b (toBig _ (List.mem_cons_of_mem _ List.mem_cons_self) b ⟨c, big_atom.2 e2, b, hb, rfl⟩))
      -- from a solution of the recursive call in `c` to a solution of the call
      have down : ∀ γ k, StateSem γ c → SplitAt (.var (a.nextVar + 2)) (.var (a.nextVar + 4)) (.var (a.nextVar + 3)) k γ →
          StateSem γ a ∧ SplitAt l s ls (k + 1) γ := by
        intro γ k hc ⟨happ, xs, hxs, el⟩
        have h1 := (semc γ).1 hc
        refine ⟨h1.1, ?_⟩
        obtain ⟨a1, a2, a3⟩ := appA2_sat.1 h1.2
        simp only [apply] at happ el
        refine ⟨by rw [a1, a2, a3]; exact .cons happ, γ (a.nextVar + 1) :: xs, by simpa using hxs, ?_⟩
        rw [a1, el]; rfl
      have shift : ∀ b i, Describes c (SplitAt (.var (a.nextVar + 2)) (.var (a.nextVar + 4)) (.var (a.nextVar + 3)) i) b →
          Describes a (SplitAt l s ls (i + 1)) b := by
        intro b i h
        refine ⟨h.unp, h.inv, h.dnf, by have := h.nv; omega, fun γ hγ => ?_, fun γ hγ hsp => ?_⟩
        · obtain ⟨hc, hsp⟩ := h.snd γ hγ
          exact down γ i hc hsp
        · obtain ⟨γ1, hag, h1, hs, hsp1⟩ := up γ i hγ hsp
          obtain ⟨γ', hag', hb'⟩ := h.cmp γ1 ((semc γ1).2 ⟨h1, hs⟩) hsp1
          exact ⟨γ', hag.trans (hag'.mono (by rw [nvc']; exact hle)), hb'⟩
      refine fin ys' ps' ⟨ys', [], chain_of_some e2 ⟨ys', E', flatR_id ys'⟩, rfl, by simp⟩ PW' (fun k => ?_)
        (zip2_imp shift Z')
      rw [M' k]
      constructor
      · rintro ⟨hk, γ, hγ, hsp⟩
        obtain ⟨ha, hsp'⟩ := down γ k hγ hsp
        exact ⟨Nat.succ_le_succ hk, γ, ha, hsp'⟩
      · rintro ⟨hk, γ, hγ, hsp⟩
        obtain ⟨γ1, _, h1, hs, hsp1⟩ := up γ k hγ hsp
        exact ⟨Nat.le_of_succ_le_succ hk, γ1, (semc γ1).2 ⟨h1, hs⟩, hsp1⟩

end
end Pv
