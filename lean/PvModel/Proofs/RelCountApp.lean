/-
  `append(l, s, ls)` IN FUNCTIONAL MODE: when the start state fixes the length of `l`, the call has at most one answer.
-/
import PvModel.Proofs.RelCount
namespace Pv
open Strm Goal State Term

theorem appT_nil_inv {s r : Term} (h : AppT .nil s r) : r = s := by
  generalize hn : Term.nil = t at h
  cases h with
  | nil _ => rfl
  | cons _ => cases hn

theorem appT_cons_inv {x t s r : Term} (h : AppT (.cons x t) s r) : ∃ r', r = .cons x r' ∧ AppT t s r' := by
  generalize hn : Term.cons x t = u at h
  cases h with
  | nil _ => cases hn
  | cons h' =>
    simp only [Term.cons.injEq] at hn
    obtain ⟨rfl, rfl⟩ := hn
    exact ⟨_, rfl, h'⟩

section
variable {ord : Order}

/-- the first atoms of the two clauses of `append` -/
abbrev appA1 (l s ls : Term) (n : Nat) : TAtom := .eq (ofList [l, s, ls]) (ofList [.nil, .var (n + 0), .var (n + 0)])
abbrev appA2 (l s ls : Term) (n : Nat) : TAtom :=
  .eq (ofList [l, s, ls]) (ofList [.cons (.var (n + 1)) (.var (n + 2)), .var (n + 4), .cons (.var (n + 1)) (.var (n + 3))])

theorem appA1_below {l s ls : Term} {n : Nat} (bl : Below n l) (bs : Below n s) (bls : Below n ls) :
    Below (n + 5) (ofList [l, s, ls]) ∧ Below (n + 5) (ofList [.nil, .var (n + 0), .var (n + 0)]) :=
  ⟨below3 (bl.mono (Nat.le_add_right _ _)) (bs.mono (Nat.le_add_right _ _)) (bls.mono (Nat.le_add_right _ _)),
   below3 (below_nil _) (below_var (by omega)) (below_var (by omega))⟩

theorem appA2_below {l s ls : Term} {n : Nat} (bl : Below n l) (bs : Below n s) (bls : Below n ls) :
    Below (n + 5) (ofList [l, s, ls]) ∧
    Below (n + 5) (ofList [.cons (.var (n + 1)) (.var (n + 2)), .var (n + 4), .cons (.var (n + 1)) (.var (n + 3))]) :=
  ⟨below3 (bl.mono (Nat.le_add_right _ _)) (bs.mono (Nat.le_add_right _ _)) (bls.mono (Nat.le_add_right _ _)),
   below3 (below_cons (below_var (by omega)) (below_var (by omega))) (below_var (by omega))
     (below_cons (below_var (by omega)) (below_var (by omega)))⟩

/-- the meaning of clause 1's atom -/
theorem appA1_sat {l s ls : Term} {n : Nat} {γ : Subst} :
    (appA1 l s ls n).Sat γ ↔ (apply γ l = .nil ∧ apply γ s = γ (n + 0) ∧ apply γ ls = γ (n + 0)) := by
  simp only [TAtom.Sat, ofList, apply, Term.cons.injEq, and_true]

theorem appA2_sat {l s ls : Term} {n : Nat} {γ : Subst} :
    (appA2 l s ls n).Sat γ ↔ (apply γ l = .cons (γ (n + 1)) (γ (n + 2)) ∧ apply γ s = γ (n + 4) ∧ apply γ ls = .cons (γ (n + 1)) (γ (n + 3))) := by
  simp only [TAtom.Sat, ofList, apply, Term.cons.injEq, and_true]

/-- a valuation with `l = [x | t]`, `ls = [x | r]` extended to the fresh variables of clause 2 -/
theorem app_ext {l s ls : Term} {a : State} (bl : Below a.nextVar l) (bs : Below a.nextVar s) (bls : Below a.nextVar ls) (hi : RInv a)
    {γ : Subst} (hγ : StateSem γ a) {x t r : Term} (el : apply γ l = .cons x t) (els : apply γ ls = .cons x r) :
    ∃ γ1, Agree a.nextVar γ γ1 ∧ StateSem γ1 { a with nextVar := a.nextVar + 5 } ∧ (appA2 l s ls a.nextVar).Sat γ1 ∧
      γ1 (a.nextVar + 2) = t ∧ γ1 (a.nextVar + 4) = apply γ s ∧ γ1 (a.nextVar + 3) = r := by
  let γ1 : Subst := setV (setV (setV (setV γ (a.nextVar + 1) x) (a.nextVar + 2) t) (a.nextVar + 3) r) (a.nextVar + 4) (apply γ s)
  have hag : Agree a.nextVar γ γ1 :=
    (((agree_setV γ x (by omega)).trans (agree_setV _ t (by omega))).trans (agree_setV _ r (by omega))).trans
      (agree_setV _ _ (by omega))
  have v1 : γ1 (a.nextVar + 1) = x := by simp [γ1, setV]
  have v2 : γ1 (a.nextVar + 2) = t := by simp [γ1, setV]
  have v3 : γ1 (a.nextVar + 3) = r := by simp [γ1, setV]
  have v4 : γ1 (a.nextVar + 4) = apply γ s := by simp [γ1, setV]
  refine ⟨γ1, hag, hi.2 _ _ hag hγ, ?_, v2, v4, v3⟩
  rw [appA2_sat, ← apply_of_agree bl hag, ← apply_of_agree bs hag, ← apply_of_agree bls hag, el, els, v1, v2, v3, v4]
  exact ⟨rfl, rfl, rfl⟩

/-- `append(l, s, ls)` with a first argument of known length is a FUNCTION: the reference answer list has at most one
    state; that state describes exactly the valuations of the start state with `ls = l ++ s`; and there is none only
    when no described valuation has `ls = l ++ s` -/
theorem append_count (ho : OrderOK ord) (d : Bool) : ∀ (n : Nat) (l s ls : Term) (a : State),
    Below a.nextVar l → Below a.nextVar s → Below a.nextVar ls → a.panic.isSome = false → RInv a → DNF a → ListLen n l a →
    (∀ b, Big (defs ord) (.call ⟨.append, [l, s, ls], d⟩) a b → b.panic.isSome = false) →
    ∃ ys : List State, EvalR (defs ord) (.call ⟨.append, [l, s, ls], d⟩) a ys ∧ ys.length ≤ 1 ∧
      (∀ b ∈ ys, Describes a (fun γ => AppT (apply γ l) (apply γ s) (apply γ ls)) b) ∧
      (ys = [] → ∀ γ, StateSem γ a → ¬ AppT (apply γ l) (apply γ s) (apply γ ls)) := by
  intro n
  induction n with
  | zero =>
    intro l s ls a bl bs bls hp hi hd hlen hnf
    have hle : a.nextVar ≤ a.nextVar + 5 := Nat.le_add_right _ _
    have hi' : RInv { a with nextVar := a.nextVar + 5 } := rinv_bump 5 hi
    have hd' : DNF { a with nextVar := a.nextVar + 5 } := hd
    have lnil : ∀ γ, StateSem γ a → apply γ l = .nil := by
      intro γ hγ
      obtain ⟨ys, hl0, e⟩ := hlen γ hγ
      cases ys with
      | nil => exact e
      | cons _ _ => simp at hl0
    have toBig : ∀ (cl : List G), cl ∈ [[eqG ord (ofList [l, s, ls]) (ofList [.nil, .var (a.nextVar + 0), .var (a.nextVar + 0)])],
        [eqG ord (ofList [l, s, ls]) (ofList [.cons (.var (a.nextVar + 1)) (.var (a.nextVar + 2)), .var (a.nextVar + 4), .cons (.var (a.nextVar + 1)) (.var (a.nextVar + 3))]),
         .call ⟨.append, [.var (a.nextVar + 2), .var (a.nextVar + 4), .var (a.nextVar + 3)], d⟩]] →
        ∀ b, BigChain ord cl { a with nextVar := a.nextVar + 5 } b → Big (defs ord) (.call ⟨.append, [l, s, ls], d⟩) a b := by
      intro cl hcl b hb
      rw [big_call_rel, body_append]
      exact (big_oneOf d _ _ _).2 ⟨cl, hcl, hb⟩
    -- clause 2 (`l` is a cons) has no solution
    have r2 : (liftRes fun st => postAtom ord st (appA2 l s ls a.nextVar)) { a with nextVar := a.nextVar + 5 } = none := by
      rcases atom_eval ho (appA2 l s ls a.nextVar) (a := { a with nextVar := a.nextVar + 5 }) (appA2_below bl bs bls) hp hi' hd'
        with ⟨e, _⟩ | ⟨b, e, pb⟩ | ⟨b, e, _, ib, db, _, sem⟩
      · exact e
      · obtain ⟨q, hq, pq⟩ := flow_append (ord := ord) (.var (a.nextVar + 2)) (.var (a.nextVar + 4)) (.var (a.nextVar + 3)) d pb
        have := hnf q (toBig _ (List.mem_cons_of_mem _ List.mem_cons_self) q ⟨b, big_atom.2 e, q, hq, rfl⟩)
        rw [this] at pq; cases pq
      · obtain ⟨γ, hγ⟩ := rinv_sat ib db
        have h1 := (sem γ).1 hγ
        have s1 := (appA2_sat.1 h1.2).1
        rw [lnil γ h1.1] at s1
        cases s1
    rcases atom_eval ho (appA1 l s ls a.nextVar) (a := { a with nextVar := a.nextVar + 5 }) (appA1_below bl bs bls) hp hi' hd'
      with ⟨e1, nos⟩ | ⟨b, e1, pb⟩ | ⟨b, e1, ub, ib, db, nvb, sem⟩
    · refine ⟨[], ?_, Nat.zero_le _, fun b hb => (nomatch hb), fun _ γ hγ happ => ?_⟩
      · refine evalR_call ?_
        show EvalR (defs ord) (relBody ord ⟨.append, [l, s, ls], d⟩ a.nextVar).2 { a with nextVar := a.nextVar + 5 } []
        rw [body_append]
        exact evalR_oneOf d _ _ _ ⟨[], [], chain_nil_of_none e1, ⟨[], [], chain_nil_of_none r2, rfl, rfl⟩, rfl⟩
      · have hl := lnil γ hγ
        rw [hl] at happ
        have e := appT_nil_inv happ
        have hag : Agree a.nextVar γ (setV γ (a.nextVar + 0) (apply γ s)) := agree_setV γ _ (Nat.le_refl _)
        refine nos _ (hi.2 _ _ hag hγ) (appA1_sat.2 ?_)
        rw [← apply_of_agree bl hag, ← apply_of_agree bs hag, ← apply_of_agree bls hag, hl, setV_self]
        exact ⟨rfl, rfl, e⟩
    · have := hnf b (toBig _ List.mem_cons_self b ⟨b, big_atom.2 e1, rfl⟩)
      rw [this] at pb; cases pb
    · refine ⟨[b], ?_, Nat.le_refl _, fun b' hb' => ?_, fun h => (nomatch h)⟩
      · refine evalR_call ?_
        show EvalR (defs ord) (relBody ord ⟨.append, [l, s, ls], d⟩ a.nextVar).2 { a with nextVar := a.nextVar + 5 } [b]
        rw [body_append]
        refine evalR_oneOf d _ _ _ ⟨[b], [], ?_, ⟨[], [], chain_nil_of_none r2, rfl, rfl⟩, by simp⟩
        have := chain_atom1 (ord := ord) (liftRes fun st => postAtom ord st (appA1 l s ls a.nextVar)) { a with nextVar := a.nextVar + 5 }
        rw [e1] at this; exact this
      · simp only [List.mem_singleton] at hb'
        subst hb'
        refine ⟨ub, ib, db, by rw [nvb]; exact hle, fun γ hγ => ?_, fun γ hγ happ => ?_⟩
        · have h1 := (sem γ).1 hγ
          refine ⟨h1.1, ?_⟩
          obtain ⟨a1, a2, a3⟩ := appA1_sat.1 h1.2
          rw [a1, a2, a3]
          exact .nil _
        · have hl := lnil γ hγ
          rw [hl] at happ
          have e := appT_nil_inv happ
          have hag : Agree a.nextVar γ (setV γ (a.nextVar + 0) (apply γ s)) := agree_setV γ _ (Nat.le_refl _)
          refine ⟨_, hag, (sem _).2 ⟨hi.2 _ _ hag hγ, appA1_sat.2 ?_⟩⟩
          rw [← apply_of_agree bl hag, ← apply_of_agree bs hag, ← apply_of_agree bls hag, hl, setV_self]
          exact ⟨rfl, rfl, e⟩
  | succ n ih =>
    intro l s ls a bl bs bls hp hi hd hlen hnf
    have hle : a.nextVar ≤ a.nextVar + 5 := Nat.le_add_right _ _
    have hi' : RInv { a with nextVar := a.nextVar + 5 } := rinv_bump 5 hi
    have hd' : DNF { a with nextVar := a.nextVar + 5 } := hd
    have lcons : ∀ γ, StateSem γ a → ∃ (x : Term) (ts : List Term), ts.length = n ∧ apply γ l = .cons x (ofList ts) := by
      intro γ hγ
      obtain ⟨ys, hl0, e⟩ := hlen γ hγ
      cases ys with
      | nil => simp at hl0
      | cons y ys => exact ⟨y, ys, by simpa using hl0, e⟩
    have toBig : ∀ (cl : List G), cl ∈ [[eqG ord (ofList [l, s, ls]) (ofList [.nil, .var (a.nextVar + 0), .var (a.nextVar + 0)])],
        [eqG ord (ofList [l, s, ls]) (ofList [.cons (.var (a.nextVar + 1)) (.var (a.nextVar + 2)), .var (a.nextVar + 4), .cons (.var (a.nextVar + 1)) (.var (a.nextVar + 3))]),
         .call ⟨.append, [.var (a.nextVar + 2), .var (a.nextVar + 4), .var (a.nextVar + 3)], d⟩]] →
        ∀ b, BigChain ord cl { a with nextVar := a.nextVar + 5 } b → Big (defs ord) (.call ⟨.append, [l, s, ls], d⟩) a b := by
      intro cl hcl b hb
      rw [big_call_rel, body_append]
      exact (big_oneOf d _ _ _).2 ⟨cl, hcl, hb⟩
    -- clause 1 (`l` is empty) has no solution
    have r1 : (liftRes fun st => postAtom ord st (appA1 l s ls a.nextVar)) { a with nextVar := a.nextVar + 5 } = none := by
      rcases atom_eval ho (appA1 l s ls a.nextVar) (a := { a with nextVar := a.nextVar + 5 }) (appA1_below bl bs bls) hp hi' hd'
        with ⟨e, _⟩ | ⟨b, e, pb⟩ | ⟨b, e, _, ib, db, _, sem⟩
      · exact e
      · have := hnf b (toBig _ List.mem_cons_self b ⟨b, big_atom.2 e, rfl⟩)
        rw [this] at pb; cases pb
      · obtain ⟨γ, hγ⟩ := rinv_sat ib db
        have h1 := (sem γ).1 hγ
        obtain ⟨x, ts, _, ec⟩ := lcons γ h1.1
        have s1 := (appA1_sat.1 h1.2).1
        rw [ec] at s1
        cases s1
    -- from a solution of the call to a solution of clause 2's atom
    have up : ∀ γ, StateSem γ a → AppT (apply γ l) (apply γ s) (apply γ ls) →
        ∃ γ1, Agree a.nextVar γ γ1 ∧ StateSem γ1 { a with nextVar := a.nextVar + 5 } ∧ (appA2 l s ls a.nextVar).Sat γ1 ∧
          AppT (γ1 (a.nextVar + 2)) (γ1 (a.nextVar + 4)) (γ1 (a.nextVar + 3)) := by
      intro γ hγ happ
      obtain ⟨x, ts, _, ec⟩ := lcons γ hγ
      rw [ec] at happ
      obtain ⟨r', er, h'⟩ := appT_cons_inv happ
      obtain ⟨γ1, hag, h1, hs, w2, w4, w3⟩ := app_ext bl bs bls hi hγ ec er
      exact ⟨γ1, hag, h1, hs, by rw [w2, w4, w3]; exact h'⟩
    rcases atom_eval ho (appA2 l s ls a.nextVar) (a := { a with nextVar := a.nextVar + 5 }) (appA2_below bl bs bls) hp hi' hd'
      with ⟨e2, nos⟩ | ⟨b, e2, pb⟩ | ⟨c, e2, uc, ic, dc, nvc, semc⟩
    · refine ⟨[], ?_, Nat.zero_le _, fun b hb => (nomatch hb), fun _ γ hγ happ => ?_⟩
      · refine evalR_call ?_
        show EvalR (defs ord) (relBody ord ⟨.append, [l, s, ls], d⟩ a.nextVar).2 { a with nextVar := a.nextVar + 5 } []
        rw [body_append]
        exact evalR_oneOf d _ _ _ ⟨[], [], chain_nil_of_none r1, ⟨[], [], chain_nil_of_none e2, rfl, rfl⟩, rfl⟩
      · obtain ⟨γ1, _, h1, hs, _⟩ := up γ hγ happ
        exact nos γ1 h1 hs
    · obtain ⟨q, hq, pq⟩ := flow_append (ord := ord) (.var (a.nextVar + 2)) (.var (a.nextVar + 4)) (.var (a.nextVar + 3)) d pb
      have := hnf q (toBig _ (List.mem_cons_of_mem _ List.mem_cons_self) q ⟨b, big_atom.2 e2, q, hq, rfl⟩)
      rw [this] at pq; cases pq
    · have nvc' : c.nextVar = a.nextVar + 5 := nvc
      have lenc : ListLen n (.var (a.nextVar + 2)) c := by
        intro γ hγ
        have h1 := (semc γ).1 hγ
        obtain ⟨x, ts, hts, ec⟩ := lcons γ h1.1
        have s1 := (appA2_sat.1 h1.2).1
        rw [ec] at s1
        simp only [Term.cons.injEq] at s1
        exact ⟨ts, hts, by simp only [apply]; exact s1.2.symm⟩
      obtain ⟨ys', E', L', D', N'⟩ := ih (.var (a.nextVar + 2)) (.var (a.nextVar + 4)) (.var (a.nextVar + 3)) c
        (below_var (by rw [nvc']; omega)) (below_var (by rw [nvc']; omega)) (below_var (by rw [nvc']; omega)) uc ic dc lenc
        (fun b hb => hnf b (toBig _ (List.mem_cons_of_mem _ List.mem_cons_self) b ⟨c, big_atom.2 e2, b, hb, rfl⟩))
      refine ⟨ys', ?_, L', fun b hb => ?_, fun hys γ hγ happ => ?_⟩
      · refine evalR_call ?_
        show EvalR (defs ord) (relBody ord ⟨.append, [l, s, ls], d⟩ a.nextVar).2 { a with nextVar := a.nextVar + 5 } ys'
        rw [body_append]
        refine evalR_oneOf d _ _ _ ⟨[], ys', chain_nil_of_none r1, ⟨ys', [], ?_, rfl, by simp⟩, by simp⟩
        exact chain_of_some e2 ⟨ys', E', flatR_id ys'⟩
      · have hb' := D' b hb
        refine ⟨hb'.unp, hb'.inv, hb'.dnf, by have := hb'.nv; omega, fun γ hγ => ?_, fun γ hγ happ => ?_⟩
        · obtain ⟨hc, hd2⟩ := hb'.snd γ hγ
          have h1 := (semc γ).1 hc
          refine ⟨h1.1, ?_⟩
          obtain ⟨a1, a2, a3⟩ := appA2_sat.1 h1.2
          simp only [apply] at hd2
          rw [a1, a2, a3]
          exact .cons hd2
        · obtain ⟨γ1, hag, h1, hs, happ1⟩ := up γ hγ happ
          obtain ⟨γ', hag', hb''⟩ := hb'.cmp γ1 ((semc γ1).2 ⟨h1, hs⟩) (by simp only [apply]; exact happ1)
          exact ⟨γ', hag.trans (hag'.mono (by rw [nvc']; exact hle)), hb''⟩
      · obtain ⟨γ1, _, h1, hs, happ1⟩ := up γ hγ happ
        exact N' hys γ1 ((semc γ1).2 ⟨h1, hs⟩) (by simp only [apply]; exact happ1)

end
end Pv
