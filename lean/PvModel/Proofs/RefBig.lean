/-
  THE TEXTBOOK ANSWER LIST CONTAINS ONLY BIG-STEP ANSWERS: `evalRef n g a = some xs` and `b ∈ xs` give `BigF n g a b`.
  (So every invariant proved through the big-step semantics — `big_invariant`, Proofs/RelNoPanic.lean — holds of every
  state of the reference list, hence of every state the engine delivers: `ref_perm`.)
-/
import PvModel.Proofs.BigStep
import PvModel.Proofs.FDProgram
namespace Pv
open Goal
attribute [local instance] Mode.strict

variable {St K : Type} (defs : K → St → St × Goal St K)

theorem evalRef_mem_bigF : ∀ (n : Nat) (g : Goal St K) (a : St) (xs : List St), evalRef defs n g a = some xs →
    ∀ b ∈ xs, BigF defs n g a b
  | 0, _, _, _, h, _, _ => by simp [evalRef] at h
  | n + 1, g, a, xs, h, b, hb => by
    cases g with
    | succeed =>
      simp only [evalRef, Option.some.injEq] at h; subst h
      simp only [List.mem_singleton] at hb; subst hb; rfl
    | fail => simp only [evalRef, Option.some.injEq] at h; subst h; cases hb
    | atom f =>
      simp only [evalRef, Option.some.injEq] at h; subst h
      cases hf : f a with
      | none => rw [hf] at hb; cases hb
      | some c =>
        rw [hf] at hb
        simp only [Option.toList_some, List.mem_singleton] at hb
        subst hb; exact hf
    | dyn fs fg => exact evalRef_mem_bigF n _ _ xs h b hb
    | conj g1 g2 =>
      simp only [evalRef] at h
      cases h1 : evalRef defs n g1 a with
      | none => rw [h1] at h; simp at h
      | some ys =>
        rw [h1] at h
        obtain ⟨c, hc, zs, hz, hbz⟩ := (flatMapM_mem h b).1 hb
        exact ⟨c, evalRef_mem_bigF n g1 a ys h1 c hc, evalRef_mem_bigF n g2 c zs hz b hbz⟩
    | conjD g1 g2 =>
      simp only [evalRef] at h
      cases h1 : evalRef defs n g1 a with
      | none => rw [h1] at h; simp at h
      | some ys =>
        rw [h1] at h
        obtain ⟨c, hc, zs, hz, hbz⟩ := (flatMapM_mem h b).1 hb
        exact ⟨c, evalRef_mem_bigF n g1 a ys h1 c hc, evalRef_mem_bigF n g2 c zs hz b hbz⟩
    | disj g1 g2 =>
      simp only [evalRef] at h
      cases h1 : evalRef defs n g1 a with
      | none => rw [h1] at h; simp at h
      | some ys =>
        cases h2 : evalRef defs n g2 a with
        | none => rw [h1, h2] at h; simp at h
        | some zs =>
          rw [h1, h2] at h
          simp only [Option.some.injEq] at h; subst h
          rcases List.mem_append.1 hb with hb | hb
          · exact .inl (evalRef_mem_bigF n g1 a ys h1 b hb)
          · exact .inr (evalRef_mem_bigF n g2 a zs h2 b hb)
    | disjD g1 g2 =>
      simp only [evalRef] at h
      cases h1 : evalRef defs n g1 a with
      | none => rw [h1] at h; simp at h
      | some ys =>
        cases h2 : evalRef defs n g2 a with
        | none => rw [h1, h2] at h; simp at h
        | some zs =>
          rw [h1, h2] at h
          simp only [Option.some.injEq] at h; subst h
          rcases List.mem_append.1 hb with hb | hb
          · exact .inl (evalRef_mem_bigF n g1 a ys h1 b hb)
          · exact .inr (evalRef_mem_bigF n g2 a zs h2 b hb)
    | alt g1 g2 =>
      simp only [evalRef] at h
      cases h1 : evalRef defs n g1 a with
      | none => rw [h1] at h; simp at h
      | some ys =>
        cases h2 : evalRef defs n g2 a with
        | none => rw [h1, h2] at h; simp at h
        | some zs =>
          rw [h1, h2] at h
          simp only [Option.some.injEq] at h; subst h
          rcases List.mem_append.1 hb with hb | hb
          · exact .inl (evalRef_mem_bigF n g1 a ys h1 b hb)
          · exact .inr (evalRef_mem_bigF n g2 a zs h2 b hb)
    | altD g1 g2 =>
      simp only [evalRef] at h
      cases h1 : evalRef defs n g1 a with
      | none => rw [h1] at h; simp at h
      | some ys =>
        cases h2 : evalRef defs n g2 a with
        | none => rw [h1, h2] at h; simp at h
        | some zs =>
          rw [h1, h2] at h
          simp only [Option.some.injEq] at h; subst h
          rcases List.mem_append.1 hb with hb | hb
          · exact .inl (evalRef_mem_bigF n g1 a ys h1 b hb)
          · exact .inr (evalRef_mem_bigF n g2 a zs h2 b hb)
    | fresh g => exact evalRef_mem_bigF n g a xs h b hb
    | call k => exact evalRef_mem_bigF n _ _ xs h b hb
    | conda f r n' => simp [evalRef] at h
    | condu f r n' => simp [evalRef] at h
    | anyo g => simp [evalRef] at h

theorem evalRef_mem_big {n : Nat} {g : Goal St K} {a : St} {xs : List St} (h : evalRef defs n g a = some xs) {b : St} (hb : b ∈ xs) :
    Big defs g a b := ⟨n, evalRef_mem_bigF defs n g a xs h b hb⟩

end Pv
