/-
  BIG-STEP SEMANTICS of goals with relation calls, and its equivalence with the engine.

  `BigF n g a b`: "b is an answer of goal g from state a", by a derivation of height ≤ n: atoms are applied,
  conjunctions chain, disjunctions choose, relation calls unfold their body (`defs`) — the textbook
  least-fixpoint semantics, also for searches with infinitely many answers (where `evalRef` has no value).
  `Big g a b := ∃ n, BigF n g a b`.

  THEOREM (`mem_iff_big`): for goals without committed choice, at every solver nesting level, the states that
  occur in the engine's stream for `g` from `a` (`MemS`, which by C06/C07 are exactly the states the engine
  eventually delivers) are exactly the big-step answers.
-/
import PvModel.Spec.Stream
import PvModel.Proofs.StreamAux
namespace Pv
open Strm Goal

section
variable {St K : Type} (defs : K → St → St × Goal St K)

def BigF : Nat → Goal St K → St → St → Prop
  | 0, _, _, _ => False
  | _ + 1, .succeed, a, b => a = b
  | _ + 1, .fail, _, _ => False
  | _ + 1, .atom f, a, b => f a = some b
  | n + 1, .dyn fs fg, a, b => BigF n (fg a) (fs a) b
  | n + 1, .conj g1 g2, a, c => ∃ b, BigF n g1 a b ∧ BigF n g2 b c
  | n + 1, .conjD g1 g2, a, c => ∃ b, BigF n g1 a b ∧ BigF n g2 b c
  | n + 1, .disj g1 g2, a, b => BigF n g1 a b ∨ BigF n g2 a b
  | n + 1, .disjD g1 g2, a, b => BigF n g1 a b ∨ BigF n g2 a b
  | n + 1, .alt g1 g2, a, b => BigF n g1 a b ∨ BigF n g2 a b
  | n + 1, .altD g1 g2, a, b => BigF n g1 a b ∨ BigF n g2 a b
  | n + 1, .fresh g, a, b => BigF n g a b
  | n + 1, .anyo g, a, b => BigF n g a b ∨ BigF n (.anyo (mkConj (mkConj g .succeed) .succeed)) a b
  | n + 1, .call k, a, b => BigF n (defs k a).2 (defs k a).1 b
  | _ + 1, .conda .., _, _ => False
  | _ + 1, .condu .., _, _ => False

def Big (g : Goal St K) (a b : St) : Prop := ∃ n, BigF defs n g a b

/-- goals without committed choice (relation calls are not unfolded) -/
inductive Plain : Goal St K → Prop
  | succeed : Plain .succeed
  | fail : Plain .fail
  | atom (f) : Plain (.atom f)
  | dyn {fs fg} : (∀ a, Plain (fg a)) → Plain (.dyn fs fg)
  | conj {g1 g2} : Plain g1 → Plain g2 → Plain (.conj g1 g2)
  | conjD {g1 g2} : Plain g1 → Plain g2 → Plain (.conjD g1 g2)
  | disj {g1 g2} : Plain g1 → Plain g2 → Plain (.disj g1 g2)
  | disjD {g1 g2} : Plain g1 → Plain g2 → Plain (.disjD g1 g2)
  | alt {g1 g2} : Plain g1 → Plain g2 → Plain (.alt g1 g2)
  | altD {g1 g2} : Plain g1 → Plain g2 → Plain (.altD g1 g2)
  | fresh {g} : Plain g → Plain (.fresh g)
  | anyo {g} : Plain g → Plain (.anyo g)
  | call (k) : Plain (.call k)

def PlainDefs : Prop := ∀ k a, Plain (K := K) (defs k a).2

variable {defs}

theorem BigF.mono : ∀ {n : Nat} {g : Goal St K} {a b : St}, BigF defs n g a b → BigF defs (n + 1) g a b
  | 0, _, _, _, h => h.elim
  | n + 1, g, a, b, h => by
    cases g with
    | succeed => exact h
    | fail => exact h
    | atom f => exact h
    | dyn fs fg => exact BigF.mono (n := n) h
    | conj g1 g2 => obtain ⟨c, h1, h2⟩ := h; exact ⟨c, BigF.mono h1, BigF.mono h2⟩
    | conjD g1 g2 => obtain ⟨c, h1, h2⟩ := h; exact ⟨c, BigF.mono h1, BigF.mono h2⟩
    | disj g1 g2 => exact h.imp BigF.mono BigF.mono
    | disjD g1 g2 => exact h.imp BigF.mono BigF.mono
    | alt g1 g2 => exact h.imp BigF.mono BigF.mono
    | altD g1 g2 => exact h.imp BigF.mono BigF.mono
    | fresh g => exact BigF.mono (n := n) h
    | anyo g => exact h.imp BigF.mono BigF.mono
    | call k => exact BigF.mono (n := n) h
    | conda _ _ _ => exact h
    | condu _ _ _ => exact h

theorem BigF.mono_le {n m : Nat} {g : Goal St K} {a b : St} (h : BigF defs n g a b) (hm : n ≤ m) :
    BigF defs m g a b := by
  induction hm with
  | refl => exact h
  | step _ ih => exact ih.mono

/-! ### the rules of the big-step semantics -/

theorem big_succeed {a b : St} : Big defs (.succeed : Goal St K) a b ↔ a = b :=
  ⟨fun ⟨n, h⟩ => by cases n with | zero => exact h.elim | succ n => exact h, fun h => ⟨1, h⟩⟩

theorem big_fail {a b : St} : ¬ Big defs (.fail : Goal St K) a b :=
  fun ⟨n, h⟩ => by cases n with | zero => exact h | succ n => exact h

theorem big_atom {f : St → Option St} {a b : St} : Big defs (.atom f : Goal St K) a b ↔ f a = some b :=
  ⟨fun ⟨n, h⟩ => by cases n with | zero => exact h.elim | succ n => exact h, fun h => ⟨1, h⟩⟩

theorem big_dyn {fs : St → St} {fg : St → Goal St K} {a b : St} :
    Big defs (.dyn fs fg) a b ↔ Big defs (fg a) (fs a) b :=
  ⟨fun ⟨n, h⟩ => by cases n with | zero => exact h.elim | succ n => exact ⟨n, h⟩, fun ⟨n, h⟩ => ⟨n + 1, h⟩⟩

theorem big_conj {g1 g2 : Goal St K} {a c : St} :
    Big defs (.conj g1 g2) a c ↔ ∃ b, Big defs g1 a b ∧ Big defs g2 b c :=
  ⟨fun ⟨n, h⟩ => by
      cases n with
      | zero => exact h.elim
      | succ n => obtain ⟨b, h1, h2⟩ := h; exact ⟨b, ⟨n, h1⟩, ⟨n, h2⟩⟩,
    fun ⟨b, ⟨n1, h1⟩, ⟨n2, h2⟩⟩ =>
      ⟨max n1 n2 + 1, b, h1.mono_le (Nat.le_max_left _ _), h2.mono_le (Nat.le_max_right _ _)⟩⟩

theorem big_conjD {g1 g2 : Goal St K} {a c : St} :
    Big defs (.conjD g1 g2) a c ↔ ∃ b, Big defs g1 a b ∧ Big defs g2 b c :=
  ⟨fun ⟨n, h⟩ => by
      cases n with
      | zero => exact h.elim
      | succ n => obtain ⟨b, h1, h2⟩ := h; exact ⟨b, ⟨n, h1⟩, ⟨n, h2⟩⟩,
    fun ⟨b, ⟨n1, h1⟩, ⟨n2, h2⟩⟩ =>
      ⟨max n1 n2 + 1, b, h1.mono_le (Nat.le_max_left _ _), h2.mono_le (Nat.le_max_right _ _)⟩⟩

theorem big_alt {g1 g2 : Goal St K} {a b : St} : Big defs (.alt g1 g2) a b ↔ Big defs g1 a b ∨ Big defs g2 a b :=
  ⟨fun ⟨n, h⟩ => by
      cases n with
      | zero => exact h.elim
      | succ n => exact h.imp (fun h => ⟨n, h⟩) (fun h => ⟨n, h⟩),
    fun h => h.elim (fun ⟨n, h⟩ => ⟨n + 1, .inl h⟩) (fun ⟨n, h⟩ => ⟨n + 1, .inr h⟩)⟩

theorem big_altD {g1 g2 : Goal St K} {a b : St} : Big defs (.altD g1 g2) a b ↔ Big defs g1 a b ∨ Big defs g2 a b :=
  ⟨fun ⟨n, h⟩ => by
      cases n with
      | zero => exact h.elim
      | succ n => exact h.imp (fun h => ⟨n, h⟩) (fun h => ⟨n, h⟩),
    fun h => h.elim (fun ⟨n, h⟩ => ⟨n + 1, .inl h⟩) (fun ⟨n, h⟩ => ⟨n + 1, .inr h⟩)⟩

theorem big_disj {g1 g2 : Goal St K} {a b : St} : Big defs (.disj g1 g2) a b ↔ Big defs g1 a b ∨ Big defs g2 a b :=
  ⟨fun ⟨n, h⟩ => by
      cases n with
      | zero => exact h.elim
      | succ n => exact h.imp (fun h => ⟨n, h⟩) (fun h => ⟨n, h⟩),
    fun h => h.elim (fun ⟨n, h⟩ => ⟨n + 1, .inl h⟩) (fun ⟨n, h⟩ => ⟨n + 1, .inr h⟩)⟩

theorem big_disjD {g1 g2 : Goal St K} {a b : St} : Big defs (.disjD g1 g2) a b ↔ Big defs g1 a b ∨ Big defs g2 a b :=
  ⟨fun ⟨n, h⟩ => by
      cases n with
      | zero => exact h.elim
      | succ n => exact h.imp (fun h => ⟨n, h⟩) (fun h => ⟨n, h⟩),
    fun h => h.elim (fun ⟨n, h⟩ => ⟨n + 1, .inl h⟩) (fun ⟨n, h⟩ => ⟨n + 1, .inr h⟩)⟩

theorem big_fresh {g : Goal St K} {a b : St} : Big defs (.fresh g) a b ↔ Big defs g a b :=
  ⟨fun ⟨n, h⟩ => by cases n with | zero => exact h.elim | succ n => exact ⟨n, h⟩, fun ⟨n, h⟩ => ⟨n + 1, h⟩⟩

theorem big_anyo {g : Goal St K} {a b : St} :
    Big defs (.anyo g) a b ↔ Big defs g a b ∨ Big defs (.anyo (mkConj (mkConj g .succeed) .succeed)) a b :=
  ⟨fun ⟨n, h⟩ => by
      cases n with
      | zero => exact h.elim
      | succ n => exact h.imp (fun h => ⟨n, h⟩) (fun h => ⟨n, h⟩),
    fun h => h.elim (fun ⟨n, h⟩ => ⟨n + 1, .inl h⟩) (fun ⟨n, h⟩ => ⟨n + 1, .inr h⟩)⟩

/-- a relation call holds by unfolding its body -/
theorem big_call {k : K} {a b : St} : Big defs (.call k) a b ↔ Big defs (defs k a).2 (defs k a).1 b :=
  ⟨fun ⟨n, h⟩ => by cases n with | zero => exact h.elim | succ n => exact ⟨n, h⟩, fun ⟨n, h⟩ => ⟨n + 1, h⟩⟩

theorem big_mkConj {g1 g2 : Goal St K} {a c : St} :
    Big defs (mkConj g1 g2) a c ↔ ∃ b, Big defs g1 a b ∧ Big defs g2 b c := by
  unfold mkConj
  split
  · rename_i h
    simp only [Bool.and_eq_true, isSucceed_iff] at h
    obtain ⟨rfl, rfl⟩ := h
    simp only [big_succeed]
    exact ⟨fun h => ⟨a, rfl, h⟩, fun ⟨b, h1, h2⟩ => h1.trans h2⟩
  · split
    · rename_i h
      simp only [Bool.or_eq_true, isFail_iff] at h
      refine ⟨fun h' => (big_fail h').elim, fun ⟨b, h1, h2⟩ => ?_⟩
      rcases h with rfl | rfl
      · exact (big_fail h1).elim
      · exact (big_fail h2).elim
    · exact big_conj

theorem big_mkConjD {g1 g2 : Goal St K} {a c : St} :
    Big defs (mkConjD g1 g2) a c ↔ ∃ b, Big defs g1 a b ∧ Big defs g2 b c := by
  unfold mkConjD
  split
  · rename_i h
    simp only [Bool.and_eq_true, isSucceed_iff] at h
    obtain ⟨rfl, rfl⟩ := h
    simp only [big_succeed]
    exact ⟨fun h => ⟨a, rfl, h⟩, fun ⟨b, h1, h2⟩ => h1.trans h2⟩
  · split
    · rename_i h
      simp only [Bool.or_eq_true, isFail_iff] at h
      refine ⟨fun h' => (big_fail h').elim, fun ⟨b, h1, h2⟩ => ?_⟩
      rcases h with rfl | rfl
      · exact (big_fail h1).elim
      · exact (big_fail h2).elim
    · exact big_conjD

/-! ### every state in the engine's stream is a big-step answer -/

mutual
/-- every state the stream can deliver satisfies `P` -/
inductive TyS : (St → Prop) → Strm St K → Prop
  | empty {P} : TyS P .empty
  | unit {P a} : P a → TyS P (.unit a)
  | cons {P a l} : P a → TyL P l → TyS P (.cons a l)
  | lazy {P l} : TyL P l → TyS P (.lazy l)
inductive TyL : (St → Prop) → Lz St K → Prop
  | mplus {P l1 l2} : TyL P l1 → TyL P l2 → TyL P (.mplus l1 l2)
  | mplusD {P l1 l2} : TyL P l1 → TyL P l2 → TyL P (.mplusD l1 l2)
  | pause {P b g} : Plain g → (∀ c, Big defs g b c → P c) → TyL P (.pause b g)
  | delay {P s} : TyS P s → TyL P (.delay s)
  | bind {P Q l g} : TyL Q l → Plain g → (∀ b, Q b → ∀ c, Big defs g b c → P c) → TyL P (.bind l g)
  | bindD {P Q l g} : TyL Q l → Plain g → (∀ b, Q b → ∀ c, Big defs g b c → P c) → TyL P (.bindD l g)
end

mutual
theorem TyS.weaken : ∀ {P Q : St → Prop} {s : Strm St K}, TyS (defs := defs) Q s → (∀ a, Q a → P a) → TyS (defs := defs) P s
  | _, _, _, .empty, _ => .empty
  | _, _, _, .unit h, w => .unit (w _ h)
  | _, _, _, .cons h hl, w => .cons (w _ h) (TyL.weaken hl w)
  | _, _, _, .lazy hl, w => .lazy (TyL.weaken hl w)
theorem TyL.weaken : ∀ {P Q : St → Prop} {l : Lz St K}, TyL (defs := defs) Q l → (∀ a, Q a → P a) → TyL (defs := defs) P l
  | _, _, _, .mplus h1 h2, w => .mplus (TyL.weaken h1 w) (TyL.weaken h2 w)
  | _, _, _, .mplusD h1 h2, w => .mplusD (TyL.weaken h1 w) (TyL.weaken h2 w)
  | _, _, _, .pause hp hb, w => .pause hp fun c hc => w _ (hb c hc)
  | _, _, _, .delay hs, w => .delay (TyS.weaken hs w)
  | _, _, _, .bind hl hp hb, w => .bind hl hp fun b hq c hc => w _ (hb b hq c hc)
  | _, _, _, .bindD hl hp hb, w => .bindD hl hp fun b hq c hc => w _ (hb b hq c hc)
end

theorem mplus_ty {P : St → Prop} {s : Strm St K} {l : Lz St K} (hs : TyS (defs := defs) P s) (hl : TyL (defs := defs) P l) :
    TyS (defs := defs) P (mplus s l) := by
  cases hs with
  | empty => exact .lazy hl
  | unit h => exact .cons h hl
  | cons h h1 => exact .cons h (.mplus hl h1)
  | lazy h1 => exact .lazy (.mplus hl h1)

theorem mplusD_ty {P : St → Prop} {s : Strm St K} {l : Lz St K} (hs : TyS (defs := defs) P s) (hl : TyL (defs := defs) P l) :
    TyS (defs := defs) P (mplusD s l) := by
  cases hs with
  | empty => exact .lazy hl
  | unit h => exact .cons h hl
  | cons h h1 => exact .cons h (.mplusD h1 hl)
  | lazy h1 => exact .lazy (.mplusD h1 hl)

theorem lazyBind_ty {P Q : St → Prop} {l : Lz St K} {g : Goal St K} (hl : TyL (defs := defs) Q l) (hp : Plain g)
    (hb : ∀ b, Q b → ∀ c, Big defs g b c → P c) : TyS (defs := defs) P (lazyBind l g) := by
  unfold lazyBind
  split
  · rename_i h
    rw [isSucceed_iff] at h; subst h
    exact .lazy (hl.weaken fun a ha => hb a ha a (big_succeed.2 rfl))
  · split
    · exact .empty
    · exact .lazy (.bind hl hp hb)

theorem lazyBindD_ty {P Q : St → Prop} {l : Lz St K} {g : Goal St K} (hl : TyL (defs := defs) Q l) (hp : Plain g)
    (hb : ∀ b, Q b → ∀ c, Big defs g b c → P c) : TyS (defs := defs) P (lazyBindD l g) := by
  unfold lazyBindD
  split
  · rename_i h
    rw [isSucceed_iff] at h; subst h
    exact .lazy (hl.weaken fun a ha => hb a ha a (big_succeed.2 rfl))
  · split
    · exact .empty
    · exact .lazy (.bindD hl hp hb)

theorem plain_mkConj {g1 g2 : Goal St K} (h1 : Plain g1) (h2 : Plain g2) : Plain (mkConj g1 g2) := by
  unfold mkConj
  split
  · exact .succeed
  · split
    · exact .fail
    · exact .conj h1 h2

theorem start_ty (hD : PlainDefs defs) {top0 : Goal St K → St → Strm St K} (pf : Nat)
    (htop0 : ∀ (g : Goal St K) (a : St) (P : St → Prop), Plain g → (∀ c, Big defs g a c → P c) → TyS (defs := defs) P (top0 g a))
    {g : Goal St K} (hg : Plain g) : ∀ (a : St) (P : St → Prop), (∀ c, Big defs g a c → P c) →
      TyS (defs := defs) P (start defs top0 pf g a) := by
  induction hg with
  | succeed => intro a P h; simp only [start]; exact .unit (h a (big_succeed.2 rfl))
  | fail => intro a P _; simp only [start]; exact .empty
  | atom f =>
    intro a P h
    simp only [start]
    cases hf : f a with
    | none => exact .empty
    | some b => exact .unit (h b (big_atom.2 hf))
  | dyn _ ih => intro a P h; simp only [start]; exact ih a _ P fun c hc => h c (big_dyn.2 hc)
  | @conj g1 g2 h1 h2 _ _ =>
    intro a P h
    simp only [start]
    exact lazyBind_ty (Q := fun b => Big defs g1 a b) (.pause h1 fun c hc => hc) h2
      fun b hb c hc => h c (big_conj.2 ⟨b, hb, hc⟩)
  | @conjD g1 g2 h1 h2 _ _ =>
    intro a P h
    simp only [start]
    exact lazyBindD_ty (Q := fun b => Big defs g1 a b) (.pause h1 fun c hc => hc) h2
      fun b hb c hc => h c (big_conjD.2 ⟨b, hb, hc⟩)
  | disj h1 h2 _ _ =>
    intro a P h
    simp only [start]
    exact .lazy (.mplus (.pause h1 fun c hc => h c (big_disj.2 (.inl hc))) (.pause h2 fun c hc => h c (big_disj.2 (.inr hc))))
  | disjD h1 h2 _ _ =>
    intro a P h
    simp only [start]
    exact .lazy (.mplusD (.pause h1 fun c hc => h c (big_disjD.2 (.inl hc))) (.pause h2 fun c hc => h c (big_disjD.2 (.inr hc))))
  | alt _ _ ih1 ih2 =>
    intro a P h
    simp only [start]
    exact mplus_ty (ih1 a P fun c hc => h c (big_alt.2 (.inl hc))) (.delay (ih2 a P fun c hc => h c (big_alt.2 (.inr hc))))
  | altD _ _ ih1 ih2 =>
    intro a P h
    simp only [start]
    exact mplusD_ty (ih1 a P fun c hc => h c (big_altD.2 (.inl hc))) (.delay (ih2 a P fun c hc => h c (big_altD.2 (.inr hc))))
  | fresh h1 _ => intro a P h; simp only [start]; exact .lazy (.pause h1 fun c hc => h c (big_fresh.2 hc))
  | @anyo g h1 _ =>
    intro a P h
    simp only [start]
    refine mplus_ty ?_ (.delay (mplus_ty (.lazy (.pause (.anyo (plain_mkConj (plain_mkConj h1 .succeed) .succeed))
      fun c hc => h c (big_anyo.2 (.inr hc)))) (.delay .empty)))
    split
    · rename_i hs
      rw [isSucceed_iff] at hs; subst hs
      exact .unit (h a (big_anyo.2 (.inl (big_succeed.2 rfl))))
    · split
      · exact .empty
      · exact .lazy (.pause h1 fun c hc => h c (big_anyo.2 (.inl hc)))
  | call k => intro a P h; simp only [start]; exact htop0 _ _ P (hD k a) fun c hc => h c (big_call.2 hc)

theorem solveAt_ty (hD : PlainDefs defs) (pf : Nat) : ∀ (n : Nat) (g : Goal St K) (a : St) (P : St → Prop), Plain g →
    (∀ c, Big defs g a c → P c) → TyS (defs := defs) P (solveAt defs pf n g a)
  | 0, _, _, _, hg, h => .lazy (.pause hg h)
  | n + 1, _, a, P, hg, h => start_ty hD pf (fun g a P hg h => solveAt_ty hD pf n g a P hg h) hg a P h

mutual
theorem memS_ty (hD : PlainDefs defs) (pf M : Nat) : ∀ {a : St} {s : Strm St K}, MemS (solveAt defs pf (M + 1)) a s →
    ∀ {P : St → Prop}, TyS (defs := defs) P s → P a
  | _, _, .unit a, _, t => by cases t with | unit h => exact h
  | _, _, .head a l, _, t => by cases t with | cons h _ => exact h
  | _, _, .tail m, _, t => by cases t with | cons _ hl => exact memL_ty hD pf M m hl
  | _, _, .lazy m, _, t => by cases t with | lazy hl => exact memL_ty hD pf M m hl
theorem memL_ty (hD : PlainDefs defs) (pf M : Nat) : ∀ {a : St} {l : Lz St K}, MemL (solveAt defs pf (M + 1)) a l →
    ∀ {P : St → Prop}, TyL (defs := defs) P l → P a
  | _, _, .mplusL m, _, t => by cases t with | mplus h1 _ => exact memL_ty hD pf M m h1
  | _, _, .mplusR m, _, t => by cases t with | mplus _ h2 => exact memL_ty hD pf M m h2
  | _, _, .mplusDL m, _, t => by cases t with | mplusD h1 _ => exact memL_ty hD pf M m h1
  | _, _, .mplusDR m, _, t => by cases t with | mplusD _ h2 => exact memL_ty hD pf M m h2
  | _, _, .pause m, _, t => by
    cases t with
    | pause hp hb => exact memS_ty hD pf M m (solveAt_ty hD pf (M + 1) _ _ _ hp hb)
  | _, _, .delay m, _, t => by cases t with | delay hs => exact memS_ty hD pf M m hs
  | _, _, .bind m1 m2, _, t => by
    cases t with
    | bind hl hp hb =>
      exact memS_ty hD pf M m2 (solveAt_ty hD pf (M + 1) _ _ _ hp (hb _ (memL_ty hD pf M m1 hl)))
  | _, _, .bindD m1 m2, _, t => by
    cases t with
    | bindD hl hp hb =>
      exact memS_ty hD pf M m2 (solveAt_ty hD pf (M + 1) _ _ _ hp (hb _ (memL_ty hD pf M m1 hl)))
end

/-! ### every big-step answer is in the engine's stream -/

theorem bigF_mem (pf M : Nat) : ∀ (n : Nat) (g : Goal St K) (a b : St), BigF defs n g a b →
    ∀ j, MemS (solveAt defs pf (M + 1)) b (solveAt defs pf (j + 1) g a)
  | 0, _, _, _, h, _ => h.elim
  | n + 1, g, a, b, h, j => by
    have hT : TopOK (solveAt defs pf (M + 1)) := topOK_solveAt defs pf M
    have top_eq : ∀ (g : Goal St K) (a : St), solveAt defs pf (M + 1) g a = start defs (solveAt defs pf M) pf g a := fun _ _ => rfl
    show MemS _ b (start defs (solveAt defs pf j) pf g a)
    cases g with
    | succeed => simp only [BigF] at h; subst h; simp only [start]; exact .unit a
    | fail => exact h.elim
    | atom f => simp only [BigF] at h; simp only [start, h]; exact .unit b
    | dyn fs fg => simp only [start]; exact bigF_mem pf M n (fg a) (fs a) b h j
    | conj g1 g2 =>
      obtain ⟨c, h1, h2⟩ := h
      have m1 : MemL (solveAt defs pf (M + 1)) c (.pause a g1) := .pause (bigF_mem pf M n g1 a c h1 M)
      simp only [start]
      unfold lazyBind
      split
      · rename_i hs
        rw [isSucceed_iff] at hs; subst hs
        cases n with
        | zero => exact h2.elim
        | succ n => simp only [BigF] at h2; subst h2; exact .lazy m1
      · split
        · rename_i hf
          rw [isFail_iff] at hf; subst hf
          cases n with
          | zero => exact h2.elim
          | succ n => exact h2.elim
        · exact .lazy (.bind m1 (bigF_mem pf M n g2 c b h2 M))
    | conjD g1 g2 =>
      obtain ⟨c, h1, h2⟩ := h
      have m1 : MemL (solveAt defs pf (M + 1)) c (.pause a g1) := .pause (bigF_mem pf M n g1 a c h1 M)
      simp only [start]
      unfold lazyBindD
      split
      · rename_i hs
        rw [isSucceed_iff] at hs; subst hs
        cases n with
        | zero => exact h2.elim
        | succ n => simp only [BigF] at h2; subst h2; exact .lazy m1
      · split
        · rename_i hf
          rw [isFail_iff] at hf; subst hf
          cases n with
          | zero => exact h2.elim
          | succ n => exact h2.elim
        · exact .lazy (.bindD m1 (bigF_mem pf M n g2 c b h2 M))
    | disj g1 g2 =>
      simp only [start]
      rcases h with h | h
      · exact .lazy (.mplusL (.pause (bigF_mem pf M n g1 a b h M)))
      · exact .lazy (.mplusR (.pause (bigF_mem pf M n g2 a b h M)))
    | disjD g1 g2 =>
      simp only [start]
      rcases h with h | h
      · exact .lazy (.mplusDL (.pause (bigF_mem pf M n g1 a b h M)))
      · exact .lazy (.mplusDR (.pause (bigF_mem pf M n g2 a b h M)))
    | alt g1 g2 =>
      simp only [start]
      rcases h with h | h
      · exact mem_mplus_iff.2 (.inl (bigF_mem pf M n g1 a b h j))
      · exact mem_mplus_iff.2 (.inr (.delay (bigF_mem pf M n g2 a b h j)))
    | altD g1 g2 =>
      simp only [start]
      rcases h with h | h
      · exact mem_mplusD_iff.2 (.inl (bigF_mem pf M n g1 a b h j))
      · exact mem_mplusD_iff.2 (.inr (.delay (bigF_mem pf M n g2 a b h j)))
    | fresh g => simp only [start]; exact .lazy (.pause (bigF_mem pf M n g a b h M))
    | anyo g =>
      simp only [start]
      rcases h with h | h
      · refine mem_mplus_iff.2 (.inl ?_)
        split
        · rename_i hs
          rw [isSucceed_iff] at hs; subst hs
          cases n with
          | zero => exact h.elim
          | succ n => simp only [BigF] at h; subst h; exact .unit a
        · split
          · rename_i hf
            rw [isFail_iff] at hf; subst hf
            cases n with
            | zero => exact h.elim
            | succ n => exact h.elim
          · exact .lazy (.pause (bigF_mem pf M n g a b h M))
      · exact mem_mplus_iff.2 (.inr (.delay (mem_mplus_iff.2 (.inl (.lazy (.pause (bigF_mem pf M n _ a b h M)))))))
    | call k =>
      simp only [start]
      cases j with
      | zero => exact .lazy (.pause (bigF_mem pf M n _ _ b h M))
      | succ j => exact bigF_mem pf M n _ _ b h j
    | conda _ _ _ => exact h.elim
    | condu _ _ _ => exact h.elim

/-- ENGINE = BIG-STEP SEMANTICS: at every nesting level `j` of the solver, the states in the engine's stream
    for goal `g` from state `a` are exactly the big-step answers of `g` from `a`. -/
theorem mem_iff_big (hD : PlainDefs defs) (pf M j : Nat) {g : Goal St K} (hg : Plain g) (a b : St) :
    MemS (solveAt defs pf (M + 1)) b (solveAt defs pf j g a) ↔ Big defs g a b := by
  constructor
  · intro m
    exact memS_ty hD pf M m (solveAt_ty hD pf j g a (fun c => Big defs g a c) hg fun c hc => hc)
  · rintro ⟨n, h⟩
    cases j with
    | zero => exact .lazy (.pause (bigF_mem pf M n g a b h M))
    | succ j => exact bigF_mem pf M n g a b h j

end
end Pv
