/-
  THE WHOLE QUERY GOAL ON THE ENGINE: `fresh(__query__) [__query__ == [q0, …], body, reify(__query__)]` (`queryG`,
  Model/Goals.lean) delivers, for every state the body delivers from the state after the query equation, that
  state's reified state — nothing else, nothing twice.  Generic in the body; the constructor short-cuts of
  `Conj::new` (`mkConj`) are carried through.
-/
import PvModel.Proofs.ReifyGoal
namespace Pv
open Strm Goal State Term

section
variable [Mode] {ord : Order} (dfs : Call → State → State × G) (pf M : Nat)

/-- `Conj::new`'s short-cuts do not change the answers of a conjunction -/
theorem ansS_mkConj {g1 g2 : G} {s : State} {xs zs : List State}
    (h1 : AnsS (solveAt dfs pf (M + 1)) (solveAt dfs pf (M + 1) g1 s) xs)
    (hb : AnsB (solveAt dfs pf (M + 1)) g2 xs zs) :
    AnsS (solveAt dfs pf (M + 1)) (solveAt dfs pf (M + 1) (mkConj g1 g2) s) zs := by
  have hT := topOK_solveAt dfs pf M
  unfold mkConj
  split
  · rename_i h
    simp only [Bool.and_eq_true] at h
    have e1 := isSucceed_iff.1 h.1
    have e2 := isSucceed_iff.1 h.2
    subst e1 e2
    rw [(hT _).1] at h1
    cases h1
    have := ansB_succeed hT hb
    subst this
    rw [(hT _).1]
    exact .unit s
  · split
    · rename_i h
      simp only [Bool.or_eq_true] at h
      rw [(hT _).2]
      rcases h with h | h
      · have e1 := isFail_iff.1 h
        subst e1
        rw [(hT _).2] at h1
        cases h1
        cases hb
        exact .empty
      · have e2 := isFail_iff.1 h
        subst e2
        have := ansB_fail hT hb
        subst this
        exact .empty
    · exact ansS_conj dfs pf M h1 hb

theorem ansB_map {g : G} (f : State → State) : ∀ (xs : List State),
    (∀ s ∈ xs, AnsS (solveAt dfs pf (M + 1)) (solveAt dfs pf (M + 1) g s) [f s]) →
    AnsB (solveAt dfs pf (M + 1)) g xs (xs.map f)
  | [], _ => .nil
  | a :: xs, h => by
    have := AnsB.cons (h a List.mem_cons_self) (ansB_map f xs fun s hs => h s (List.mem_cons_of_mem _ hs))
    simpa using this

theorem ansS_atom (f : State → Option State) (s : State) :
    AnsS (solveAt dfs pf (M + 1)) (solveAt dfs pf (M + 1) (.atom f : G) s) (f s).toList := by
  cases h : f s with
  | none =>
    have e : solveAt dfs pf (M + 1) (.atom f : G) s = .empty := by simp only [solveAt, start, h]
    rw [e]; exact .empty
  | some b =>
    have e : solveAt dfs pf (M + 1) (.atom f : G) s = .unit b := by simp only [solveAt, start, h]
    rw [e]; exact .unit b

/-- the query goal: the body's answers from the state after `__query__ == [q…]`, each reified -/
theorem query_compose (qv : Term) (qs : List Term) (body : List G) (s0 s1 : State) (xs : List State)
    (h1 : (liftRes fun st => postAtom ord st (.eq qv (Term.ofList qs))) s0 = some s1)
    (hB : AnsS (solveAt dfs pf (M + 1)) (solveAt dfs pf (M + 1) (Goal.conjOfList body) s1) xs)
    (hR : ∀ s ∈ xs, AnsS (solveAt dfs pf (M + 1)) (solveAt dfs pf (M + 1) (reifyG ord qv) s) [reifyState ord s qv]) :
    AnsS (solveAt dfs pf (M + 1)) (solveAt dfs pf (M + 1) (queryG ord qv qs body) s0)
      (xs.map fun s => reifyState ord s qv) := by
  show AnsS _ (Strm.lazy (.pause s0 _)) _
  refine .lazy (.pause ?_)
  show AnsS _ (solveAt dfs pf (M + 1) (mkConj (eqG ord qv (Term.ofList qs)) (mkConj (Goal.conjOfList body)
    (mkConj (reifyG ord qv) .succeed))) s0) _
  have hA := ansS_atom dfs pf M (liftRes fun st => postAtom ord st (.eq qv (Term.ofList qs))) s0
  rw [h1] at hA
  refine ansS_mkConj dfs pf M hA (ansB_single dfs pf M (ansS_mkConj dfs pf M hB ?_))
  refine ansB_map dfs pf M (fun s => reifyState ord s qv) xs fun s hs => ?_
  exact ansS_mkConj dfs pf M (hR s hs) (ansB_single dfs pf M (ansS_succeed dfs pf M _))

theorem ansB_flatMap {g : G} (R : State → List State) : ∀ (xs : List State),
    (∀ s ∈ xs, AnsS (solveAt dfs pf (M + 1)) (solveAt dfs pf (M + 1) g s) (R s)) →
    AnsB (solveAt dfs pf (M + 1)) g xs (xs.flatMap R)
  | [], _ => .nil
  | a :: xs, h => by
    have := AnsB.cons (h a List.mem_cons_self) (ansB_flatMap R xs fun s hs => h s (List.mem_cons_of_mem _ hs))
    simpa using this

theorem ansB_id {xs : List State} : AnsB (solveAt dfs pf (M + 1)) (.succeed : G) xs xs := by
  have hb := ansB_map dfs pf M (g := .succeed) id xs (fun s _ => ansS_succeed dfs pf M s)
  rwa [List.map_id] at hb

/-- the query goal in general (finite domains included): `reify(__query__)` may deliver any number of states per body
    state (one per labelled block) -/
theorem query_compose_gen (qv : Term) (qs : List Term) (body : List G) (s0 s1 : State) (xs : List State) (R : State → List State)
    (h1 : (liftRes fun st => postAtom ord st (.eq qv (Term.ofList qs))) s0 = some s1)
    (hB : AnsS (solveAt dfs pf (M + 1)) (solveAt dfs pf (M + 1) (Goal.conjOfList body) s1) xs)
    (hR : ∀ s ∈ xs, AnsS (solveAt dfs pf (M + 1)) (solveAt dfs pf (M + 1) (reifyG ord qv) s) (R s)) :
    AnsS (solveAt dfs pf (M + 1)) (solveAt dfs pf (M + 1) (queryG ord qv qs body) s0) (xs.flatMap R) := by
  show AnsS _ (Strm.lazy (.pause s0 _)) _
  refine .lazy (.pause ?_)
  show AnsS _ (solveAt dfs pf (M + 1) (mkConj (eqG ord qv (Term.ofList qs)) (mkConj (Goal.conjOfList body)
    (mkConj (reifyG ord qv) .succeed))) s0) _
  have hA := ansS_atom dfs pf M (liftRes fun st => postAtom ord st (.eq qv (Term.ofList qs))) s0
  rw [h1] at hA
  refine ansS_mkConj dfs pf M hA (ansB_single dfs pf M (ansS_mkConj dfs pf M hB ?_))
  refine ansB_flatMap dfs pf M R xs fun s hs => ?_
  exact ansS_mkConj dfs pf M (hR s hs) (ansB_id dfs pf M)

/-- `reify(x)` from the answers of `enforce_constraints_fd`: each unpoisoned delivered state, reified -/
theorem reifyG_of_enforce (x : Term) (s : State) (bs : List State)
    (hE : AnsS (solveAt dfs pf (M + 1)) (solveAt dfs pf (M + 1) (enforceFd ord x) s) bs)
    (hp : ∀ b ∈ bs, b.panic = none) :
    AnsS (solveAt dfs pf (M + 1)) (solveAt dfs pf (M + 1) (reifyG ord x) s) (bs.map fun b => reifyState ord b x) := by
  show AnsS _ (solveAt dfs pf (M + 1) (mkConj (mkConj (enforceFd ord x) (mkConj .succeed .succeed)) (mkConj (reifyFinal ord x) .succeed)) s) _
  have inner := ansS_mkConj dfs pf M hE (g2 := mkConj .succeed .succeed) (by
    show AnsB _ (.succeed : G) bs bs
    exact ansB_id dfs pf M)
  refine ansS_mkConj dfs pf M inner (ansB_map dfs pf M (fun b => reifyState ord b x) bs fun b hb => ?_)
  refine ansS_mkConj dfs pf M ?_ (ansB_id dfs pf M)
  rw [reifyFinal_eq]
  have hA := ansS_atom dfs pf M (liftRes fun st => Res.ok (reifyState ord st x)) b
  have e : (liftRes fun st => Res.ok (reifyState ord st x)) b = some (reifyState ord b x) := by
    simp only [liftRes, hp b hb, Option.isSome_none, Bool.false_eq_true, if_false]
  rw [e] at hA
  exact hA

end
end Pv
