/-
  THE DOMAIN STORE STAYS TIGHT (strict mode, finite-domain constraints without CLP(Z) on the same variables):
    * `stale`: propagation never leaves the domain of a variable it binds in the store (a "stale" entry: a bound
      variable that still has a domain) — `resolve_storable_domain` removes the entry when it binds, and
      `process_extension_fd` removes the entries of the variables a unification bound;
    * `mono`:  `run_constraints` creates no entry for a variable that had none;
    * `sub`:   `run_constraints` stores no propagator that was not stored before (constraints only re-add themselves;
               re-run tree disequalities may be replaced by new ones).
  Same skeleton as Proofs/Live.lean.  Consequences (end of file): in every state reached by posting atoms from the
  empty state EVERY KEY OF THE DOMAIN STORE IS AN UNBOUND VARIABLE ("bound variables must not keep a domain"), and
  labelling steps (`k == x`) create no keys and no propagators.
-/
import PvModel.Proofs.Live
namespace Pv
open State Term FD
attribute [local instance] Mode.strict

def Cst.isZ : Cst → Bool
  | .plusz .. | .timesz .. => true
  | _ => false

/-- no CLP(Z) constraint is stored (`plusz`/`timesz` bind their operand without looking at the domain store) -/
def NoZ (st : State) : Prop := ∀ p ∈ st.store, p.2.isZ = false

structure Tight (A : Cst → Prop) (st st' : State) : Prop where
  stale : ∀ y, (st'.dget y).isSome → st'.σ y ≠ .var y → (st.dget y).isSome ∧ st.σ y ≠ .var y
  mono : ∀ y, (st'.dget y).isSome → (st.dget y).isSome
  sub : ∀ p ∈ st'.store, p.2.isDiseq = false → (∃ q ∈ st.store, q.2 = p.2) ∨ A p.2

theorem Tight.refl (A : Cst → Prop) (st : State) : Tight A st st :=
  ⟨fun _ h1 h2 => ⟨h1, h2⟩, fun _ h => h, fun p hp _ => .inl ⟨p, hp, rfl⟩⟩

theorem Tight.trans {A : Cst → Prop} {st s1 s2 : State} (h1 : Tight A st s1) (h2 : Tight A s1 s2) : Tight A st s2 := by
  refine ⟨fun y a b => ?_, fun y a => h1.mono y (h2.mono y a), fun p hp hd => ?_⟩
  · obtain ⟨a1, b1⟩ := h2.stale y a b
    exact h1.stale y a1 b1
  · rcases h2.sub p hp hd with ⟨q, hq, e⟩ | a
    · have hqd : q.2.isDiseq = false := by rw [e]; exact hd
      rcases h1.sub q hq hqd with ⟨q', hq', e'⟩ | a
      · exact .inl ⟨q', hq', e'.trans e⟩
      · exact .inr (by rw [← e]; exact a)
    · exact .inr a

theorem Tight.weaken {A B : Cst → Prop} {st st' : State} (h : Tight A st st') (hab : ∀ c, A c → B c) : Tight B st st' :=
  ⟨h.stale, h.mono, fun p hp hd => (h.sub p hp hd).elim .inl (fun a => .inr (hab _ a))⟩

/-- same substitution, same domain store, and every stored propagator old or allowed -/
theorem Tight.same {A : Cst → Prop} {st st' : State} (hσ : st'.σ = st.σ) (hd : st'.dstore = st.dstore)
    (hs : ∀ p ∈ st'.store, p.2.isDiseq = false → (∃ q ∈ st.store, q.2 = p.2) ∨ A p.2) : Tight A st st' := by
  have hg : ∀ y, st'.dget y = st.dget y := fun y => by unfold State.dget; rw [hd]
  exact ⟨fun y a b => ⟨by rw [← hg]; exact a, by rw [← hσ]; exact b⟩, fun y a => by rw [← hg]; exact a, hs⟩

theorem NoZ.keep {A : Cst → Prop} {st st' : State} (h : NoZ st) (t : Tight A st st') (ha : ∀ c, A c → c.isZ = false) :
    NoZ st' := by
  intro p hp
  cases hd : p.2.isDiseq with
  | true => cases hc : p.2 <;> simp_all [Cst.isDiseq, Cst.isZ]
  | false =>
    rcases t.sub p hp hd with ⟨q, hq, e⟩ | a
    · rw [← e]; exact h q hq
    · exact ha _ a

def RcTight (rc : State → Res State) : Prop :=
  ∀ st st', WFS st → Inv st → NoZ st → rc st = .ok st' → Tight (fun _ => False) st st'

section WithRC
variable {rc : State → Res State} (hrt : RcTight rc)
include hrt

theorem resolveStorable_tight {A : Cst → Prop} {st st' : State} {x : Nat} {d : FD} (w : WFS st) (hi : Inv st) (hz : NoZ st)
    (hx : st.σ x = .var x) (hk : (st.dget x).isSome) (h : resolveStorable rc st x d = .ok st') : Tight A st st' := by
  unfold resolveStorable at h
  split at h
  · rename_i n _
    obtain ⟨_, _, w0, i0⟩ := bindNum_ok w hi hx n
    have t0 : Tight A st ({ st with σ := bindS x (Term.num n) st.σ }.dremove x) := by
      refine ⟨fun y a b => ?_, fun y a => ?_, fun p hp _ => .inl ⟨p, hp, rfl⟩⟩
      · by_cases hyx : y = x
        · subst hyx
          simp [State.dremove, State.dget] at a
        · rw [dget_dremove_ne _ hyx] at a
          refine ⟨a, fun hy => b ?_⟩
          show apply (sub1 x (Term.num n)) (st.σ y) = .var y
          rw [hy]; simp [apply, sub1, hyx]
      · by_cases hyx : y = x
        · subst hyx; exact hk
        · rw [dget_dremove_ne _ hyx] at a; exact a
    exact t0.trans ((hrt _ _ w0 i0 (fun p hp => hz p hp) h).weaken (fun _ f => f.elim))
  · cases h
    refine ⟨fun y a b => ?_, fun y a => ?_, fun p hp _ => .inl ⟨p, hp, rfl⟩⟩
    · by_cases hyx : y = x
      · subst hyx; exact absurd hx b
      · rw [dget_dinsert_ne _ _ hyx] at a; exact ⟨a, b⟩
    · by_cases hyx : y = x
      · subst hyx; exact hk
      · rw [dget_dinsert_ne _ _ hyx] at a; exact a

theorem updateVarDomain_tight {A : Cst → Prop} {st st' : State} {x : Nat} {d : FD} (w : WFS st) (hi : Inv st) (hz : NoZ st)
    (hx : st.σ x = .var x) (hk : (st.dget x).isSome) (h : updateVarDomain rc st x d = .ok st') : Tight A st st' := by
  unfold updateVarDomain at h
  split at h
  · split at h
    · exact resolveStorable_tight hrt w hi hz hx hk h
    · cases h
  · exact resolveStorable_tight hrt w hi hz hx hk h

theorem processDomain_tight {A : Cst → Prop} {st st' : State} {x : Term} {d : FD} (w : WFS st) (hi : Inv st) (hz : NoZ st)
    (hdv : ∀ y, walk st.σ x = .var y → (st.dget y).isSome) (h : processDomain rc st x d = .ok st') : Tight A st st' := by
  unfold processDomain at h
  split at h
  · rename_i y hy
    exact updateVarDomain_tight hrt w hi hz (walk_normal w.solved x y hy) (hdv y hy) h
  · split at h
    · cases h; exact Tight.refl _ _
    · cases h
  · cases h

end WithRC

/-! ### adding constraints -/

theorem with_tight (ord : Order) {st : State} {i : Nat} {c : Cst} (hd : c.isDiseq = false) :
    Tight (· = c) st (st.withConstraint ord i c) := by
  have hs : (st.withConstraint ord i c).store = st.store.filter (fun p => p.1 != i) ++ [(i, c)] ∧
      (st.withConstraint ord i c).σ = st.σ ∧ (st.withConstraint ord i c).dstore = st.dstore := by
    cases c <;> first | (simp [Cst.isDiseq] at hd; done) | exact ⟨rfl, rfl, rfl⟩
  refine Tight.same hs.2.1 hs.2.2 fun p hp _ => ?_
  rw [hs.1] at hp
  rcases List.mem_append.1 hp with hp | hp
  · exact .inl ⟨p, (List.mem_filter.1 hp).1, rfl⟩
  · simp only [List.mem_singleton] at hp; subst hp; exact .inr rfl

theorem with_tight_diseq (ord : Order) (A : Cst → Prop) {st : State} {i : Nat} {ps : Ext1} :
    Tight A st (st.withConstraint ord i (.diseq ps)) := by
  rw [withConstraint_diseq_eq]
  split
  · exact Tight.refl _ _
  · generalize hL : (ord.cs st.store).filter (subOf ord ps) = L
    obtain ⟨t1, t2, _, t4, _⟩ := takes_fields L st
    refine Tight.same t1 t2 fun p hp hpd => ?_
    simp only at hp
    rcases List.mem_append.1 hp with hp | hp
    · exact .inl ⟨p, t4.subset hp, rfl⟩
    · simp only [List.mem_singleton] at hp; subst hp; simp [Cst.isDiseq] at hpd

theorem withNew_tight_diseq (ord : Order) (A : Cst → Prop) {st : State} {ps : Ext1} :
    Tight A st (st.withNewConstraint ord (.diseq ps)) := by
  unfold State.withNewConstraint
  have := with_tight_diseq ord A (st := { st with nextId := st.nextId + 1 }) (i := st.nextId) (ps := ps)
  exact ⟨this.stale, this.mono, this.sub⟩

theorem runDiseq_tight (ord : Order) (A : Cst → Prop) {st st' : State} {ps : Ext1}
    (e : runDiseq ord st ps = .ok st') : Tight A st st' := by
  unfold runDiseq at e
  split at e
  · cases e
  · cases e; exact Tight.refl _ _
  · split at e
    · cases e
    · cases e; exact withNew_tight_diseq ord A

end Pv

namespace Pv
open State Term FD
attribute [local instance] Mode.strict

def SelfTight (self : Nat → Cst → State → Res State) : Prop :=
  ∀ i c st st', WFS st → Fr i st → c.isDiseq = false → c.isDistinct = false → c.isZ = false → NoZ st →
    self i c st = .ok st' → Tight (· = c) st st'

theorem selfTight_fuel : SelfTight (fun _ _ _ => .fuel) := fun _ _ _ _ _ _ _ _ _ _ h => by cases h

section WithRC
variable {rc : State → Res State} (hrc : RcOK rc) (hrs : RcSem rc) (hrl : RcLive rc) (hrt : RcTight rc) (ord : Order)
include hrc hrs hrl hrt

theorem processDomain_allT {st st' : State} {x : Term} {d : FD} {i : Nat} (w : WFS st) (f : Fr i st) (hz : NoZ st)
    (hd : WFI d) (hdv : ∀ y, walk st.σ x = .var y → (st.dget y).isSome)
    (h : processDomain rc st x d = .ok st') :
    WFS st' ∧ Fr i st' ∧ Keeps st st' ∧ NoZ st' ∧ ∀ A : Cst → Prop, Tight A st st' := by
  obtain ⟨w1, f1, k1, _⟩ := processDomain_all hrc hrs hrl w f hd (.inr hdv) h
  have t := fun A : Cst → Prop => processDomain_tight (A := A) hrt w f.1 hz hdv h
  exact ⟨w1, f1, k1, hz.keep (t fun _ => False) (fun _ f => f.elim), t⟩

omit hrc hrs hrl hrt in
theorem tail_tight {self : Nat → Cst → State → Res State} (hst : SelfTight self) {i : Nat} {c : Cst}
    {s s' : State} {ws : List Term} (w : WFS s) (f : Fr i s) (hd : c.isDiseq = false) (hnd : c.isDistinct = false)
    (hcz : c.isZ = false) (hz : NoZ s)
    (h : (if operandBound s ws then self i c s else .ok (s.withConstraint ord i c)) = .ok s') : Tight (· = c) s s' := by
  split at h
  · exact hst i c s s' w f hd hnd hcz hz h
  · cases h; exact with_tight ord hd

theorem narrow3_tight {self : Nat → Cst → State → Res State} (hst : SelfTight self) {i : Nat} {c : Cst}
    {u v w : Term} {wi ui vi : FD} {st st' : State} (ws : WFS st) (f : Fr i st) (hd : c.isDiseq = false)
    (hnd : c.isDistinct = false) (hcz : c.isZ = false) (hz : NoZ st) (hwi : WFI wi) (hui : WFI ui) (hvi : WFI vi)
    (hu : HasDomIf st (walk st.σ u)) (hv : HasDomIf st (walk st.σ v)) (hw : HasDomIf st (walk st.σ w))
    (h : narrow3 rc ord self i c (walk st.σ u) (walk st.σ v) (walk st.σ w) wi ui vi st = .ok st') :
    Tight (· = c) st st' := by
  unfold narrow3 at h
  have hwalk : ∀ {t : Term}, HasDomIf st t → walk st.σ t = t := by
    intro t ht
    cases t with
    | var y => simp only [walk]; exact (ht y rfl).1
    | _ => rfl
  obtain ⟨s1, e1, h⟩ := Res.bind_ok h
  obtain ⟨s2, e2, h⟩ := Res.bind_ok h
  obtain ⟨s3, e3, h⟩ := Res.bind_ok h
  obtain ⟨w1, f1, k1, z1, t1⟩ := processDomain_allT hrc hrs hrl hrt ws f hz hwi
    (fun y hy => by rw [hwalk hw] at hy; exact (hw y hy).2) e1
  obtain ⟨w2, f2, k2, z2, t2⟩ := processDomain_allT hrc hrs hrl hrt w1 f1 z1 hui (hu.keep k1) e2
  obtain ⟨w3, f3, k3, z3, t3⟩ := processDomain_allT hrc hrs hrl hrt w2 f2 z2 hvi (hv.keep (k1.trans k2)) e3
  exact (((t1 _).trans (t2 _)).trans (t3 _)).trans (tail_tight ord hst w3 f3 hd hnd hcz z3 h)

theorem tri_rest_tight {self : Nat → Cst → State → Res State} (hst : SelfTight self) {i : Nat} {c : Cst}
    {u v w : Term} {st st' : State} (ws : WFS st) (f : Fr i st) (hd : c.isDiseq = false) (hnd : c.isDistinct = false)
    (hcz : c.isZ = false) (hz : NoZ st)
    (B : Int → Int → Int → Int → Int → Int → FD × FD × FD)
    (hB : ∀ a b c d e g, WFI (B a b c d e g).1 ∧ WFI (B a b c d e g).2.1 ∧ WFI (B a b c d e g).2.2)
    (h : (match opDomain st (walk st.σ u), opDomain st (walk st.σ v), opDomain st (walk st.σ w) with
      | some ud, some vd, some wd =>
        match ud.min?, ud.max?, vd.min?, vd.max?, wd.min?, wd.max? with
        | some umin, some umax, some vmin, some vmax, some wmin, some wmax =>
          narrow3 rc ord self i c (walk st.σ u) (walk st.σ v) (walk st.σ w)
            (B umin umax vmin vmax wmin wmax).1 (B umin umax vmin vmax wmin wmax).2.1
            (B umin umax vmin vmax wmin wmax).2.2 st
        | _, _, _, _, _, _ => .panic "fd-minmax"
      | _, _, _ => .ok (st.withConstraint ord i c)) = .ok st') : Tight (· = c) st st' := by
  split at h
  · rename_i ud vd wd hud hvd hwd
    split at h
    · rename_i umin umax vmin vmax wmin wmax _ _ _ _ _ _
      have hb3 := hB umin umax vmin vmax wmin wmax
      exact narrow3_tight hrc hrs hrl hrt ord hst ws f hd hnd hcz hz hb3.1 hb3.2.1 hb3.2.2 (hasDomIf_walk ws u hud)
        (hasDomIf_walk ws v hvd) (hasDomIf_walk ws w hwd) h
    · cases h
  · cases h
    exact with_tight ord hd

theorem runPlusFd_tight {self : Nat → Cst → State → Res State} (hst : SelfTight self) {i : Nat}
    {u v w : Term} {st st' : State} (ws : WFS st) (f : Fr i st) (hz : NoZ st)
    (h : runPlusFd rc ord self i u v w st = .ok st') : Tight (· = .plusfd u v w) st st' := by
  unfold runPlusFd at h
  simp only [] at h
  split at h
  · split at h
    · cases h; exact Tight.refl _ _
    · cases h
  · exact tri_rest_tight hrc hrs hrl hrt ord hst ws f (c := .plusfd u v w) rfl rfl rfl hz
      (fun a b c d e g => (.interval (a + c) (b + d), .interval (e - d) (g - c), .interval (e - b) (g - a)))
      (fun _ _ _ _ _ _ => ⟨trivial, trivial, trivial⟩) h

theorem runMinusFd_tight {self : Nat → Cst → State → Res State} (hst : SelfTight self) {i : Nat}
    {u v w : Term} {st st' : State} (ws : WFS st) (f : Fr i st) (hz : NoZ st)
    (h : runMinusFd rc ord self i u v w st = .ok st') : Tight (· = .minusfd u v w) st st' := by
  unfold runMinusFd at h
  simp only [] at h
  split at h
  · split at h
    · cases h; exact Tight.refl _ _
    · cases h
  · exact tri_rest_tight hrc hrs hrl hrt ord hst ws f (c := .minusfd u v w) rfl rfl rfl hz
      (fun a b c d e g => (.interval (a - d) (b - c), .interval (e + c) (g + d), .interval (a - g) (b - e)))
      (fun _ _ _ _ _ _ => ⟨trivial, trivial, trivial⟩) h

theorem runTimesFd_tight {self : Nat → Cst → State → Res State} (hst : SelfTight self) {i : Nat}
    {u v w : Term} {st st' : State} (ws : WFS st) (f : Fr i st) (hz : NoZ st)
    (h : runTimesFd rc ord self i u v w st = .ok st') : Tight (· = .timesfd u v w) st st' := by
  unfold runTimesFd at h
  simp only [] at h
  split at h
  · split at h
    · cases h; exact Tight.refl _ _
    · cases h
  · exact tri_rest_tight hrc hrs hrl hrt ord hst ws f (c := .timesfd u v w) rfl rfl rfl hz
      (fun a b c d e g => timesBounds a b c d e g) (fun a b c d e g => timesBounds_wfi a b c d e g) h

theorem runLteFd_tight {self : Nat → Cst → State → Res State} (hst : SelfTight self) {i : Nat}
    {u v : Term} {st st' : State} (ws : WFS st) (f : Fr i st) (hz : NoZ st)
    (h : runLteFd rc ord self i u v st = .ok st') : Tight (· = .ltefd u v) st st' := by
  unfold runLteFd at h
  simp only [] at h
  have hwk : ∀ (t : Term) (x : Nat), walk st.σ t = .var x → walk st.σ (walk st.σ t) = .var x := by
    intro t x ht
    rw [ht]; simp only [walk]; exact walk_normal ws.solved t x ht
  split at h
  · rename_i udom vdom hu hv
    obtain ⟨x, hux, hxd⟩ := varDom_some hu
    obtain ⟨y, hvy, hyd⟩ := varDom_some hv
    have hwu : WF udom := ws.dwf _ (dget_mem hxd)
    have hwv : WF vdom := ws.dwf _ (dget_mem hyd)
    split at h
    · split at h
      · cases h
      · rename_i ud' hcb
        have hud' := (copyBefore_spec udom hwu _).1 ud' hcb
        obtain ⟨s1, e1, h⟩ := Res.bind_ok h
        obtain ⟨w1, f1, k1, z1, t1⟩ := processDomain_allT hrc hrs hrl hrt ws f hz (WFI.of_wf hud'.1)
          (fun y' hy' => by rw [hwk u x hux] at hy'; cases hy'; rw [hxd]; rfl) e1
        split at h
        · cases h
        · rename_i vd' hdb
          have hvd' := (dropBefore_spec vdom hwv _).1 vd' hdb
          obtain ⟨s2, e2, h⟩ := Res.bind_ok h
          have hvk : HasDomIf st (walk st.σ v) := fun y' hy' => by
            rw [hvy] at hy'; cases hy'; exact ⟨walk_normal ws.solved v y hvy, by rw [hyd]; rfl⟩
          obtain ⟨w2, f2, k2, z2, t2⟩ := processDomain_allT hrc hrs hrl hrt w1 f1 z1 (WFI.of_wf hvd'.1) (hvk.keep k1) e2
          exact ((t1 _).trans (t2 _)).trans (tail_tight ord hst w2 f2 rfl rfl rfl z2 h)
    · cases h
  · rename_i udom hu hv
    split at h
    · split at h
      · cases h
      · rename_i ud' hcb
        obtain ⟨x, hux, hxd⟩ := varDom_some hu
        have hud' := (copyBefore_spec udom (ws.dwf _ (dget_mem hxd)) _).1 ud' hcb
        exact (processDomain_allT hrc hrs hrl hrt ws f hz (WFI.of_wf hud'.1)
          (fun y' hy' => by rw [hwk u x hux] at hy'; cases hy'; rw [hxd]; rfl) h).2.2.2.2 _
    · cases h; exact with_tight ord rfl
  · rename_i vdom hu hv
    split at h
    · split at h
      · cases h
      · rename_i vd' hdb
        obtain ⟨y, hvy, hyd⟩ := varDom_some hv
        have hvd' := (dropBefore_spec vdom (ws.dwf _ (dget_mem hyd)) _).1 vd' hdb
        exact (processDomain_allT hrc hrs hrl hrt ws f hz (WFI.of_wf hvd'.1)
          (fun y' hy' => by rw [hwk v y hvy] at hy'; cases hy'; rw [hyd]; rfl) h).2.2.2.2 _
    · cases h; exact with_tight ord rfl
  · split at h
    · split at h
      · cases h; exact Tight.refl _ _
      · cases h
    · cases h; exact with_tight ord rfl

end WithRC
end Pv

namespace Pv
open State Term FD
attribute [local instance] Mode.strict

section WithRC
variable {rc : State → Res State} (hrc : RcOK rc) (hrs : RcSem rc) (hrl : RcLive rc) (hrt : RcTight rc) (ord : Order)
include hrc hrs hrl hrt

theorem runDiseqFd_tight {i : Nat} {u v : Term} {st st' : State} (ws : WFS st) (f : Fr i st) (hz : NoZ st)
    (h : runDiseqFd rc ord i u v st = .ok st') : Tight (· = .diseqfd u v) st st' := by
  unfold runDiseqFd at h
  simp only [] at h
  split at h
  · rename_i ud vd hud hvd
    split at h
    · split at h
      · cases h
      · cases h; exact Tight.refl _ _
    · split at h
      · cases h
      · cases h; exact Tight.refl _ _
      · have t1 := with_tight ord (st := st) (i := i) (c := .diseqfd u v) rfl
        have w1 : WFS (st.withConstraint ord i (.diseqfd u v)) :=
          (with_sem (I := fun _ => False) ord ws f (c := .diseqfd u v) rfl rfl).1
        have i1 : Inv (st.withConstraint ord i (.diseqfd u v)) :=
          (with_step ord st i (.diseqfd u v) f.1 f.2.1 f.2.2).inv
        have z1 : NoZ (st.withConstraint ord i (.diseqfd u v)) := hz.keep t1 (fun c hc => by rw [hc]; rfl)
        have hσ : (st.withConstraint ord i (.diseqfd u v)).σ = st.σ := rfl
        have hds : (st.withConstraint ord i (.diseqfd u v)).dstore = st.dstore := rfl
        have hdv : ∀ (t : Term) (d : FD), opDomain st (walk st.σ t) = some d →
            ∀ y, walk (st.withConstraint ord i (.diseqfd u v)).σ (walk st.σ t) = .var y →
              ((st.withConstraint ord i (.diseqfd u v)).dget y).isSome := by
          intro t d hod y hy
          rw [hσ] at hy
          have hdg : (st.withConstraint ord i (.diseqfd u v)).dget y = st.dget y := by unfold State.dget; rw [hds]
          rw [hdg]
          cases hw : walk st.σ t with
          | var y' =>
            rw [hw] at hy hod
            simp only [walk] at hy
            rw [walk_normal ws.solved t y' hw] at hy
            cases hy
            simp only [opDomain] at hod
            rw [hod]; rfl
          | _ => rw [hw] at hy; simp [walk] at hy
        split at h
        · split at h
          · exact t1.trans (processDomain_tight hrt w1 i1 z1 (hdv v vd hvd) h)
          · cases h
        · split at h
          · split at h
            · exact t1.trans (processDomain_tight hrt w1 i1 z1 (hdv u ud hud) h)
            · cases h
          · cases h; exact t1
  · cases h
    exact with_tight ord rfl

theorem runCstBody_tight {self : Nat → Cst → State → Res State} (hst : SelfTight self) {i : Nat}
    {c : Cst} {st st' : State} (ws : WFS st) (f : Fr i st) (hnd : c.isDistinct = false) (hcz : c.isZ = false)
    (hz : NoZ st) (h : runCstBody rc ord self i c st = .ok st') : Tight (· = c) st st' := by
  cases c with
  | diseq ps => exact runDiseq_tight ord _ h
  | plusz u v w => cases hcz
  | timesz u v w => cases hcz
  | ltefd u v => exact runLteFd_tight hrc hrs hrl hrt ord hst ws f hz h
  | plusfd u v w => exact runPlusFd_tight hrc hrs hrl hrt ord hst ws f hz h
  | minusfd u v w => exact runMinusFd_tight hrc hrs hrl hrt ord hst ws f hz h
  | timesfd u v w => exact runTimesFd_tight hrc hrs hrl hrt ord hst ws f hz h
  | diseqfd u v => exact runDiseqFd_tight hrc hrs hrl hrt ord ws f hz h
  | distinctfd u => cases hnd
  | distinctfd2 u y n => cases hnd

theorem runCst_selfTight : ∀ k, SelfTight (runCst rc ord k)
  | 0 => fun _ _ _ _ w f _ hnd hcz hz h => runCstBody_tight hrc hrs hrl hrt ord selfTight_fuel w f hnd hcz hz h
  | k + 1 => fun _ _ _ _ w f _ hnd hcz hz h => runCstBody_tight hrc hrs hrl hrt ord (runCst_selfTight k) w f hnd hcz hz h

end WithRC

section Loop
variable {rc : State → Res State} (hrc : RcOK rc) (hrs : RcSem rc) (hrl : RcLive rc) (hrt : RcTight rc) {ord : Order}
  (ho : OrderOK ord)
include hrc hrs hrl hrt ho

/-- the loop of `run_constraints` -/
theorem snapshot_tight : ∀ (snap : List (Nat × Cst)) (cur st' : State), WFS cur → Inv cur → NoZ cur →
    snap.foldl (fun (r : Res State) p => r.bind fun st =>
      match st.takeConstraint p.1 with
      | (st', some c) => runCst rc ord 4 p.1 c st'
      | (st', none) => .ok st') (.ok cur) = .ok st' → Tight (fun _ => False) cur st'
  | [], cur, st', _, _, _, h => by
    simp only [List.foldl_nil, Res.ok.injEq] at h
    subst h
    exact Tight.refl _ _
  | p :: ps, cur, st', w, hi, hz, h => by
    simp only [List.foldl_cons] at h
    have hb0 : ((Res.ok cur).bind fun st =>
        match st.takeConstraint p.1 with
        | (st', some c) => runCst rc ord 4 p.1 c st'
        | (st', none) => .ok st') =
      (match cur.takeConstraint p.1 with
        | (st', some c) => runCst rc ord 4 p.1 c st'
        | (st', none) => .ok st') := rfl
    rw [hb0] at h
    obtain ⟨ti, tn, ts, tf⟩ := take_step cur p.1 hi
    cases hstep : (match cur.takeConstraint p.1 with
        | (st', some c) => runCst rc ord 4 p.1 c st'
        | (st', none) => .ok st') with
    | ok s1 =>
      rw [hstep] at h
      have key : WFS s1 ∧ Inv s1 ∧ Tight (fun _ => False) cur s1 := by
        split at hstep
        · rename_i st1 c e
          have e1 : (cur.takeConstraint p.1).1 = st1 := by rw [e]
          have e2 : (cur.takeConstraint p.1).2 = some c := by rw [e]
          rw [e1] at ti tn ts tf
          obtain ⟨hni, hlt⟩ := tf c e2
          have fr : Fr p.1 st1 := ⟨ti, by rw [tn]; exact hlt, hni⟩
          obtain ⟨hσ, hd, _⟩ := take_sem (I := fun _ => False) hi e
          have hm : (p.1, c) ∈ cur.store := take_some e2
          have f4 := (take_fields cur p.1).2.2.2
          rw [e1] at f4
          have hst1 : ∀ q ∈ st1.store, q ∈ cur.store ∧ q.1 ≠ p.1 := by
            intro q hq; rw [f4] at hq
            exact ⟨(List.mem_filter.1 hq).1, by simpa using (List.mem_filter.1 hq).2⟩
          have w1 : WFS st1 := w.same hσ hd fun q hq => .inl (hst1 q hq).1
          have hnd : c.isDistinct = false := CstOK.strict (w.nodist _ hm)
          have hcz : c.isZ = false := hz _ hm
          have z1 : NoZ st1 := fun q hq => hz q (hst1 q hq).1
          have hrun : runCst rc ord 4 p.1 c st1 = runCstBody rc ord (runCst rc ord 3) p.1 c st1 := rfl
          have body := runCstBody_sem hrc hrs ho (runCst_selfSem hrc hrs ho 3) (I := fun _ => False)
            (fun _ h => h) w1 fr (CstOK.of_not_distinct hnd)
          rw [← hrun, hstep] at body
          refine ⟨body.1, (runCst_selfOK hrc ord 4 _ _ _ _ fr hstep).inv, ?_⟩
          rw [hrun] at hstep
          have t1 := runCstBody_tight hrc hrs hrl hrt ord (runCst_selfTight hrc hrs hrl hrt ord 3) w1 fr hnd hcz z1 hstep
          have hg : ∀ y, st1.dget y = cur.dget y := fun y => by unfold State.dget; rw [hd]
          refine ⟨fun y a b => ?_, fun y a => ?_, fun q hq hqd => ?_⟩
          · obtain ⟨a1, b1⟩ := t1.stale y a b
            exact ⟨by rw [← hg]; exact a1, by rw [← hσ]; exact b1⟩
          · rw [← hg]; exact t1.mono y a
          · rcases t1.sub q hq hqd with ⟨q', hq', e'⟩ | a
            · exact .inl ⟨q', (hst1 q' hq').1, e'⟩
            · exact .inl ⟨(p.1, c), hm, a.symm⟩
        · rename_i st1 e
          cases hstep
          have e1 : (cur.takeConstraint p.1).1 = s1 := by rw [e]
          have e2 : (cur.takeConstraint p.1).2 = none := by rw [e]
          have : s1 = cur := by rw [← e1]; exact take_none e2
          subst this
          exact ⟨w, hi, Tight.refl _ _⟩
      exact key.2.2.trans (snapshot_tight ps s1 st' key.1 key.2.1 (hz.keep key.2.2 (fun _ f => f.elim)) h)
    | fail => rw [hstep, foldl_bind_fail] at h; cases h
    | fuel => rw [hstep, foldl_bind_fuel] at h; cases h
    | panic s => rw [hstep, foldl_bind_panic] at h; cases h

end Loop

/-- `State::run_constraints`, at every nesting depth: no new stale entry, no new key, no new propagator -/
theorem runConstraintsF_tight {ord : Order} (ho : OrderOK ord) : ∀ n, RcTight (runConstraintsF ord n)
  | 0 => fun _ _ _ _ _ h => by cases h
  | n + 1 => fun st st' w hi hz h =>
    snapshot_tight (runConstraintsF_ok ord n) (runConstraintsF_sem ho n) (runConstraintsF_live ho n)
      (runConstraintsF_tight ho n) ho (ord.cs st.store) st st' w hi hz h

end Pv

/-! ### top level: `==`, `!=`, posting a constraint, `infd` -/

namespace Pv
open State Term FD
attribute [local instance] Mode.strict

/-- no new stale entry -/
def Stale (st st' : State) : Prop :=
  ∀ y, (st'.dget y).isSome → st'.σ y ≠ .var y → (st.dget y).isSome ∧ st.σ y ≠ .var y
/-- no new propagator except the allowed ones -/
def SubS (A : Cst → Prop) (st st' : State) : Prop :=
  ∀ p ∈ st'.store, p.2.isDiseq = false → (∃ q ∈ st.store, q.2 = p.2) ∨ A p.2
/-- no new key -/
def KeysMono (st st' : State) : Prop := ∀ y, (st'.dget y).isSome → (st.dget y).isSome
/-- bindings are never undone -/
def BM (st st' : State) : Prop := ∀ y, st'.σ y = .var y → st.σ y = .var y

theorem Stale.trans {a b c : State} (h1 : Stale a b) (h2 : Stale b c) : Stale a c := fun y p q => by
  obtain ⟨p1, q1⟩ := h2 y p q; exact h1 y p1 q1
theorem SubS.trans {A : Cst → Prop} {a b c : State} (h1 : SubS A a b) (h2 : SubS A b c) : SubS A a c := fun p hp hd => by
  rcases h2 p hp hd with ⟨q, hq, e⟩ | a
  · have hqd : q.2.isDiseq = false := by rw [e]; exact hd
    rcases h1 q hq hqd with ⟨q', hq', e'⟩ | a
    · exact .inl ⟨q', hq', e'.trans e⟩
    · exact .inr (by rw [← e]; exact a)
  · exact .inr a
theorem SubS.weaken {A B : Cst → Prop} {a b : State} (h : SubS A a b) (hab : ∀ c, A c → B c) : SubS B a b :=
  fun p hp hd => (h p hp hd).elim .inl (fun x => .inr (hab _ x))
theorem BM.trans {a b c : State} (h1 : BM a b) (h2 : BM b c) : BM a c := fun y h => h1 y (h2 y h)
theorem KeysMono.trans {a b c : State} (h1 : KeysMono a b) (h2 : KeysMono b c) : KeysMono a c := fun y h => h1 y (h2 y h)

theorem NoZ.keepS {A : Cst → Prop} {st st' : State} (h : NoZ st) (t : SubS A st st') (ha : ∀ c, A c → c.isZ = false) :
    NoZ st' := by
  intro p hp
  cases hd : p.2.isDiseq with
  | true => cases hc : p.2 <;> simp_all [Cst.isDiseq, Cst.isZ]
  | false =>
    rcases t p hp hd with ⟨q, hq, e⟩ | a
    · rw [← e]; exact h q hq
    · exact ha _ a

/-- every key of the domain store is an unbound variable, except the pending ones `R` -/
def DKX (R : Nat → Prop) (st : State) : Prop := ∀ y, (st.dget y).isSome → st.σ y = .var y ∨ R y
abbrev DK (st : State) : Prop := DKX (fun _ => False) st

theorem DKX.keep {R : Nat → Prop} {st st' : State} (h : DKX R st) (t : Stale st st') : DKX R st' := by
  intro y hy
  by_cases hb : st'.σ y = .var y
  · exact .inl hb
  · obtain ⟨a, b⟩ := t y hy hb
    exact (h y a).elim (fun e => absurd e b) .inr

section WithRC
variable {rc : State → Res State} (hrt : RcTight rc)
include hrt

theorem resolveStorable_loose {A : Cst → Prop} {st st' : State} {x : Nat} {d : FD} (w : WFS st) (hi : Inv st) (hz : NoZ st)
    (hx : st.σ x = .var x) (h : resolveStorable rc st x d = .ok st') : Stale st st' ∧ SubS A st st' := by
  unfold resolveStorable at h
  split at h
  · rename_i n _
    obtain ⟨_, _, w0, i0⟩ := bindNum_ok w hi hx n
    have t := hrt _ _ w0 i0 (fun p hp => hz p hp) h
    refine ⟨Stale.trans (fun y a b => ?_) t.stale, SubS.trans (fun p hp _ => .inl ⟨p, hp, rfl⟩) (fun p hp hd => (t.sub p hp hd).elim .inl (fun f => f.elim))⟩
    by_cases hyx : y = x
    · subst hyx
      simp [State.dremove, State.dget] at a
    · rw [dget_dremove_ne _ hyx] at a
      refine ⟨a, fun hy => b ?_⟩
      show apply (sub1 x (Term.num n)) (st.σ y) = .var y
      rw [hy]; simp [apply, sub1, hyx]
  · cases h
    refine ⟨fun y a b => ?_, fun p hp _ => .inl ⟨p, hp, rfl⟩⟩
    by_cases hyx : y = x
    · subst hyx; exact absurd hx b
    · rw [dget_dinsert_ne _ _ hyx] at a; exact ⟨a, b⟩

theorem processDomain_loose {A : Cst → Prop} {st st' : State} {x : Term} {d : FD} (w : WFS st) (hi : Inv st) (hz : NoZ st)
    (h : processDomain rc st x d = .ok st') : Stale st st' ∧ SubS A st st' := by
  unfold processDomain at h
  split at h
  · rename_i y hy
    have hx := walk_normal w.solved x y hy
    unfold updateVarDomain at h
    split at h
    · split at h
      · exact resolveStorable_loose hrt w hi hz hx h
      · cases h
    · exact resolveStorable_loose hrt w hi hz hx h
  · split at h
    · cases h; exact ⟨fun _ a b => ⟨a, b⟩, fun p hp _ => .inl ⟨p, hp, rfl⟩⟩
    · cases h
  · cases h

end WithRC

/-- the variables a unification binds are the keys of its extension -/
theorem unifyF_newly_bound : ∀ (n : Nat) (σ σ' : Subst) (e e' : Ext1) (u v : Term), Solved σ →
    unifyF n σ e u v = some (some (σ', e')) →
    ∃ δ : Ext1, e' = δ ++ e ∧ ∀ y, σ y = .var y → σ' y ≠ .var y → ∃ p ∈ δ, p.1 = y := by
  intro n
  induction n with
  | zero => intro σ σ' e e' u v _ h; simp [unifyF] at h
  | succ n ih =>
    intro σ σ' e e' u v hs h
    have st := unifyF_step hs h
    have triv : ∃ δ : Ext1, e = δ ++ e ∧ ∀ y, σ y = .var y → σ y ≠ .var y → ∃ p ∈ δ, p.1 = y :=
      ⟨[], rfl, fun y a b => absurd a b⟩
    have bind : ∀ (x : Nat) (t : Term), ∃ δ : Ext1, (x, t) :: e = δ ++ e ∧
        ∀ y, σ y = .var y → bindS x t σ y ≠ .var y → ∃ p ∈ δ, p.1 = y := by
      intro x t
      refine ⟨[(x, t)], rfl, fun y a b => ⟨(x, t), List.mem_singleton.2 rfl, ?_⟩⟩
      by_cases hyx : y = x
      · exact hyx.symm
      · exfalso; apply b
        show apply (sub1 x t) (σ y) = .var y
        rw [a]; simp [apply, sub1, hyx]
    cases st with
    | same x hu hv => exact triv
    | valEq a hu hv => exact triv
    | nilnil hu hv => exact triv
    | bindL x hu hv ho => exact bind x _
    | bindR y hv hu ho => exact bind y _
    | consOk h1 t1 h2 t2 σ1 e1 _ hu hv hh ht =>
      obtain ⟨a1, _, _⟩ := unifyF_sound_aux _ _ _ _ _ _ _ hs hh
      obtain ⟨δ1, he1, hb1⟩ := ih _ _ _ _ _ _ hs hh
      obtain ⟨δ2, he2, hb2⟩ := ih _ _ _ _ _ _ a1 ht
      refine ⟨δ2 ++ δ1, by rw [he2, he1, List.append_assoc], fun y a b => ?_⟩
      by_cases h1y : σ1 y = .var y
      · obtain ⟨p, hp, e⟩ := hb2 y h1y b
        exact ⟨p, List.mem_append.2 (.inl hp), e⟩
      · obtain ⟨p, hp, e⟩ := hb1 y a h1y
        exact ⟨p, List.mem_append.2 (.inr hp), e⟩
    | comp g a1 a2 _ hu hv ha => exact ih _ _ _ _ _ _ hs ha

section Top
variable {ord : Order} (ho : OrderOK ord)
include ho

theorem extStep_dk {snap cur s3 : State} (hsn : ∀ x d, snap.dget x = some d → WF d) (w : WFS cur) (hi : Inv cur)
    (hz : NoZ cur) (p : Nat × Term) (h : extStep ord snap cur p = .ok s3) :
    WFS s3 ∧ Inv s3 ∧ NoZ s3 ∧ Stale cur s3 ∧ SubS (fun _ => False) cur s3 ∧ BM cur s3 ∧
      (snap.dget p.1 ≠ none → s3.dget p.1 = none) ∧ ((∀ y, walk cur.σ p.2 ≠ .var y) → KeysMono cur s3) := by
  unfold extStep at h
  split at h
  · rename_i d hd
    have hwd := hsn _ _ hd
    obtain ⟨s2, e2, h⟩ := Res.bind_ok h
    have r := processDomain_sem (I := fun _ => False) (runConstraintsF_sem ho rcFuel) (fun _ h => h) w hi
      (x := p.2) (WFI.of_wf hwd) (.inl hwd)
    rw [e2] at r
    have i2 : Inv s2 := (processDomain_step (runConstraintsF_ok ord rcFuel) hi e2).inv
    obtain ⟨l2, u2⟩ := processDomain_loose (A := fun _ => False) (runConstraintsF_tight ho rcFuel) w hi hz e2
    have z2 : NoZ s2 := hz.keepS u2 (fun _ f => f.elim)
    split at h
    · obtain ⟨w2', i2'⟩ := dremove_ok r.1 i2 p.1
      have r3 := runConstraintsF_sem ho (rcFuel + 1) (fun _ => False) _ (fun _ h => h) w2' i2'
      rw [h] at r3
      have t3 := runConstraintsF_tight ho (rcFuel + 1) _ _ w2' i2' (fun q hq => z2 q hq) h
      have ldr : Stale s2 (s2.dremove p.1) := fun y a b => by
        by_cases hyx : y = p.1
        · subst hyx; simp [State.dremove, State.dget] at a
        · rw [dget_dremove_ne _ hyx] at a; exact ⟨a, b⟩
      have u3 : SubS (fun _ => False) s2 s3 := fun q hq hqd => t3.sub q hq hqd
      refine ⟨r3.1, (runConstraintsF_ok ord (rcFuel + 1) _ _ i2' h).inv, z2.keepS u3 (fun _ f => f.elim),
        (l2.trans ldr).trans t3.stale, u2.trans u3, fun y hy => r.2.1.mono y (r3.2.1.mono y hy), fun _ => ?_, fun hnv => ?_⟩
      · cases hg : s3.dget p.1 with
        | none => rfl
        | some d3 =>
          have := t3.mono p.1 (by rw [hg]; rfl)
          simp [State.dremove, State.dget] at this
      · intro y hy
        have h1 := t3.mono y hy
        have hyx : y ≠ p.1 := by
          intro e; subst e; simp [State.dremove, State.dget] at h1
        rw [dget_dremove_ne _ hyx] at h1
        -- `process_domain` on a term that does not walk to a variable changes no domain
        have e2' := e2
        unfold processDomain at e2'
        split at e2'
        · rename_i y' hy'; exact absurd hy' (hnv y')
        · split at e2'
          · cases e2'; exact h1
          · cases e2'
        · cases e2'
    · cases h
  · rename_i hn
    cases h
    exact ⟨w, hi, hz, fun _ a b => ⟨a, b⟩, fun q hq _ => .inl ⟨q, hq, rfl⟩, fun _ h => h, fun hne => absurd hn hne, fun _ _ h => h⟩

theorem extFold_dk (snap : State) (hsn : ∀ x d, snap.dget x = some d → WF d) :
    ∀ (ps : Ext1) (cur s' : State), WFS cur → Inv cur → NoZ cur → (∀ p ∈ ps, cur.σ p.1 ≠ .var p.1) →
      ps.foldl (fun (r : Res State) p => r.bind fun cur => extStep ord snap cur p) (.ok cur) = .ok s' →
      WFS s' ∧ Inv s' ∧ NoZ s' ∧ Stale cur s' ∧ SubS (fun _ => False) cur s' ∧ BM cur s' ∧
        (∀ p ∈ ps, snap.dget p.1 ≠ none → s'.dget p.1 = none) ∧
        ((∀ p ∈ ps, p.2.isVar = false) → KeysMono cur s')
  | [], cur, s', w, hi, hz, _, h => by
    simp only [List.foldl_nil, Res.ok.injEq] at h; subst h
    exact ⟨w, hi, hz, fun _ a b => ⟨a, b⟩, fun q hq _ => .inl ⟨q, hq, rfl⟩, fun _ h => h, fun _ hp _ => (nomatch hp), fun _ _ h => h⟩
  | p :: ps, cur, s', w, hi, hz, hb, h => by
    simp only [List.foldl_cons] at h
    have hb0 : ((Res.ok cur).bind fun cur => extStep ord snap cur p) = extStep ord snap cur p := rfl
    rw [hb0] at h
    cases hs : extStep ord snap cur p with
    | ok s3 =>
      rw [hs] at h
      obtain ⟨w3, i3, z3, l3, u3, b3, d3, m3⟩ := extStep_dk ho hsn w hi hz p hs
      have hb3 : ∀ q ∈ ps, s3.σ q.1 ≠ .var q.1 := fun q hq e => hb q (List.mem_cons_of_mem _ hq) (b3 _ e)
      obtain ⟨w', i', z', l', u', b', d', m'⟩ := extFold_dk snap hsn ps s3 s' w3 i3 z3 hb3 h
      refine ⟨w', i', z', l3.trans l', u3.trans u', b3.trans b', fun q hq hne => ?_, fun hnv => ?_⟩
      · rcases List.mem_cons.1 hq with rfl | hq
        · -- removed at its own step; it is bound, so no entry can come back
          cases hg : s'.dget q.1 with
          | none => rfl
          | some dd =>
            have hbq : s'.σ q.1 ≠ .var q.1 := fun e => hb q List.mem_cons_self (b3 _ (b' _ e))
            have := (l' q.1 (by rw [hg]; rfl) hbq).1
            rw [d3 hne] at this; cases this
        · exact d' q hq hne
      · refine (m3 fun y hy => ?_).trans (m' fun q hq => hnv q (List.mem_cons_of_mem _ hq))
        have := hnv p List.mem_cons_self
        cases hp2 : p.2 with
        | var z => rw [hp2] at this; cases this
        | _ => rw [hp2] at hy; simp [walk] at hy
    | fail => rw [hs, foldl_bind_fail] at h; cases h
    | fuel => rw [hs, foldl_bind_fuel] at h; cases h
    | panic s => rw [hs, foldl_bind_panic] at h; cases h

end Top
end Pv

namespace Pv
open State Term FD
attribute [local instance] Mode.strict

/-- the atom posts no CLP(Z) constraint -/
def FAtom.NoZ : FAtom → Prop
  | .cst c => c.isZ = false
  | _ => True

section Top
variable {ord : Order} (ho : OrderOK ord)
include ho

/-- `==`: afterwards no bound variable keeps a domain — `process_extension_fd` has removed the entries of the variables the
    unification bound, propagation those of the variables it bound — and no propagator is new; when the extension binds
    variables to non-variable terms (labelling: `k == x`) no key is new either -/
theorem unify_dk {st st' : State} (w : WFS st) (hi : Inv st) (hz : NoZ st) (hdk : DK st) {u v : Term}
    (h : unify ord st u v = .ok st') :
    DK st' ∧ NoZ st' ∧ SubS (fun _ => False) st st' ∧
      ((∀ σ' e, unifyF unifyFuel st.σ [] u v = some (some (σ', e)) → ∀ p ∈ e, p.2.isVar = false) → KeysMono st st') := by
  unfold unify at h
  split at h
  · cases h
  · cases h
  · rename_i σ' e hu
    obtain ⟨s', _, _⟩ := unifyF_sound _ _ _ _ _ _ _ w.solved hu
    obtain ⟨hbnd, _, _⟩ := unifyF_ext_full _ _ _ _ _ _ w.solved hu
    obtain ⟨δ, hδ, hnb⟩ := unifyF_newly_bound _ _ _ _ _ _ _ w.solved hu
    simp only [List.append_nil] at hδ
    subst hδ
    have w0 : WFS { st with σ := σ' } := ⟨s', w.dnodup, w.dwf, w.nodist⟩
    have i0 : Inv { st with σ := σ' } := SameStore.inv ⟨rfl, rfl, rfl, rfl, rfl⟩ hi
    have z0 : NoZ { st with σ := σ' } := fun p hp => hz p hp
    unfold processExtension at h
    obtain ⟨s1, e1, h⟩ := Res.bind_ok h
    obtain ⟨s2, e2, h⟩ := Res.bind_ok h
    cases h
    have t1 := runConstraintsF_tight ho (rcFuel + 1) _ _ w0 i0 z0 e1
    have r1 := runConstraintsF_sem ho (rcFuel + 1) (fun _ => False) _ (fun _ h => h) w0 i0
    rw [e1] at r1
    have i1 := (runConstraintsF_ok ord (rcFuel + 1) _ _ i0 e1).inv
    have z1 : NoZ s1 := z0.keep t1 (fun _ f => f.elim)
    rw [processExtensionFd_eq] at e2
    have hperm := ho.2.1 e
    have hkb : ∀ p ∈ ord.ps e, s1.σ p.1 ≠ .var p.1 := fun p hp e =>
      (hbnd p (hperm.mem_iff.1 hp)).2 (r1.2.1.mono _ e)
    obtain ⟨w2, i2, z2, l2, u2, b2, d2, m2⟩ := extFold_dk ho s1 (fun x d hd => r1.1.dwf _ (dget_mem hd)) (ord.ps e) s1 s2
      r1.1 i1 z1 hkb e2
    refine ⟨fun y hy => ?_, fun p hp => z2 p hp, fun p hp hd => ?_, fun hnv y hy => ?_⟩
    · -- a stale entry would be one of a variable this unification bound; those were removed
      have hy : (s2.dget y).isSome := hy
      show s2.σ y = .var y ∨ False
      by_cases hb : s2.σ y = .var y
      · exact .inl hb
      · exfalso
        obtain ⟨a1, b1⟩ := l2 y hy hb
        obtain ⟨a0, b0⟩ := t1.stale y a1 b1
        have hyu : st.σ y = .var y := (hdk y a0).elim id (fun f => f.elim)
        obtain ⟨p, hp, rfl⟩ := hnb y hyu b0
        have hn : s1.dget p.1 ≠ none := fun e => by rw [e] at a1; cases a1
        have := d2 p (hperm.mem_iff.2 hp) hn
        rw [this] at hy; cases hy
    · rcases u2 p hp hd with ⟨q, hq, e⟩ | f
      · have hqd : q.2.isDiseq = false := by rw [e]; exact hd
        rcases t1.sub q hq hqd with ⟨q', hq', e'⟩ | f
        · exact .inl ⟨q', hq', e'.trans e⟩
        · exact f.elim
      · exact f.elim
    · have hy : (s2.dget y).isSome := hy
      exact t1.mono y (m2 (fun p hp => hnv σ' e hu p (hperm.mem_iff.1 hp)) y hy)

theorem postF_dk {st st' : State} (w : WFS st) (hi : Inv st) (hz : NoZ st) (hdk : DK st) (a : FAtom) (hok : a.OK)
    (hnz : a.NoZ) (h : postF ord st a = .ok st') : DK st' ∧ NoZ st' := by
  cases a with
  | eq u v => exact ⟨(unify_dk ho w hi hz hdk h).1, (unify_dk ho w hi hz hdk h).2.1⟩
  | neq u v =>
    simp only [postF] at h
    unfold disunify at h
    split at h
    · cases h
    · cases h; exact ⟨hdk, hz⟩
    · split at h
      · cases h
      · cases h
        have t := withNew_tight_diseq ord (fun _ => False) (st := st) (ps := by assumption)
        exact ⟨hdk.keep t.stale, hz.keep t (fun _ f => f.elim)⟩
  | cst c =>
    simp only [postF] at h
    unfold postCst at h
    have fr : Fr st.nextId { st with nextId := st.nextId + 1 } := fresh_fr hi
    have w0 : WFS { st with nextId := st.nextId + 1 } := w.same rfl rfl fun p hp => .inl hp
    have hrc := runConstraintsF_ok ord rcFuel
    have hrs := runConstraintsF_sem ho rcFuel
    have hrl := runConstraintsF_live ho rcFuel
    have hrt := runConstraintsF_tight ho rcFuel
    have t := runCstBody_tight hrc hrs hrl hrt ord (runCst_selfTight hrc hrs hrl hrt ord 3) w0 fr (CstOK.strict hok) hnz
      (fun p hp => hz p hp) h
    exact ⟨DKX.keep (st := { st with nextId := st.nextId + 1 }) hdk t.stale,
      NoZ.keep (st := { st with nextId := st.nextId + 1 }) (fun p hp => hz p hp) t (fun c hc => by rw [hc]; exact hnz)⟩
  | dom x d =>
    simp only [postF] at h
    unfold domFd at h
    obtain ⟨l, u⟩ := processDomain_loose (A := fun _ => False) (runConstraintsF_tight ho rcFuel) w hi hz h
    exact ⟨hdk.keep l, hz.keepS u (fun _ f => f.elim)⟩

/-- DOMAIN-STORE KEYS ARE UNBOUND: in every state reached by posting atoms (FD constraints, domains, `==`, `!=`; no CLP(Z))
    from a state in which it held -/
theorem postAllF_dk : ∀ (as : List FAtom) (st st' : State), WFS st → Inv st → NoZ st → DK st → (∀ a ∈ as, a.OK) →
    (∀ a ∈ as, a.NoZ) → postAllF ord st as = .ok st' → DK st' ∧ NoZ st'
  | [], st, st', _, _, hz, hdk, _, _, h => by simp only [postAllF, Res.ok.injEq] at h; subst h; exact ⟨hdk, hz⟩
  | a :: as, st, st', w, hi, hz, hdk, hok, hnz, h => by
    simp only [postAllF] at h
    obtain ⟨s1, e1, h⟩ := Res.bind_ok h
    have r := postF_sem ho w hi a (hok a (List.mem_cons_self ..))
    rw [e1] at r
    obtain ⟨d1, z1⟩ := postF_dk ho w hi hz hdk a (hok a (List.mem_cons_self ..)) (hnz a (List.mem_cons_self ..)) e1
    exact postAllF_dk as s1 st' r.1 r.2.1 z1 d1 (fun b hb => hok b (List.mem_cons_of_mem _ hb))
      (fun b hb => hnz b (List.mem_cons_of_mem _ hb)) h

theorem fd_dk (n : Nat) (as : List FAtom) (hok : ∀ a ∈ as, a.OK) (hnz : ∀ a ∈ as, a.NoZ) (st' : State)
    (h : postAllF ord (State.empty n) as = .ok st') : DK st' ∧ NoZ st' :=
  postAllF_dk ho as (State.empty n) st' (wfs_empty n) (inv_empty n) (fun p hp => by simp [State.empty] at hp)
    (fun y hy => by simp [State.empty, State.dget] at hy) hok hnz h

end Top
end Pv
