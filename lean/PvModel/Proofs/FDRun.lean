/-
  The dispatch over constraint kinds and the `run_constraints` loop, semantically (continuation of
  FDGlobal.lean; the `distinctfd` propagators are in FDDistinct.lean).
-/
import PvModel.Proofs.FDDistinct
namespace Pv
open State Term FD
variable {I : Nat → Prop} [Mode]

section WithRC
variable {rc : State → Res State} (hrc : RcOK rc) (hrs : RcSem rc) {ord : Order} (ho : OrderOK ord)
include hrc hrs ho

theorem runCstBody_sem {self : Nat → Cst → State → Res State} (hss : SelfSem self) {i : Nat} {c : Cst}
    {st : State} (hI : IOK I st) (ws : WFS st) (f : Fr i st) (hnd : CstOK c) :
    Ref I (fun γ => CstSem γ c) st (runCstBody rc ord self i c st) := by
  cases c with
  | diseq ps => exact runDiseq_sem ho ws f.1 ps
  | plusz u v w => exact runPlusZ_sem hrs ord hI ws f
  | timesz u v w => exact runTimesZ_sem hrs ord hI ws f
  | ltefd u v => exact runLteFd_sem hrc hrs ord hss hI ws f
  | plusfd u v w => exact runPlusFd_sem hrc hrs ord hss hI ws f
  | minusfd u v w => exact runMinusFd_sem hrc hrs ord hss hI ws f
  | timesfd u v w => exact runTimesFd_sem hrc hrs ord hss hI ws f
  | diseqfd u v => exact runDiseqFd_sem hrc hrs ord hI ws f
  | distinctfd u => exact runDistinctFd_sem hss hI ws f hnd
  | distinctfd2 u y n => exact runDistinctFd2_sem hrc hrs ord hI ws f.1 hnd

theorem runCst_selfSem : ∀ k, SelfSem (runCst rc ord k)
  | 0 => fun _ _ _ _ hI w f _ hnd => runCstBody_sem hrc hrs ho selfSem_fuel hI w f hnd
  | k + 1 => fun _ _ _ _ hI w f _ hnd => runCstBody_sem hrc hrs ho (runCst_selfSem k) hI w f hnd

/-- the loop of `run_constraints` over a snapshot: every stored constraint is taken out and re-run -/
theorem runSnapshot_sem {st : State} {snap : List (Nat × Cst)} (hI : IOK I st) (ws : WFS st) (hi : Inv st) :
    Ref I (fun _ => True) st (runSnapshot rc ord st snap) := by
  unfold runSnapshot
  refine fold_ref (fun (cur : State) (p : Nat × Cst) =>
      match cur.takeConstraint p.1 with
      | (st', some c) => runCst rc ord 4 p.1 c st'
      | (st', none) => .ok st') (fun cur p hIc w hi => ?_) snap st hI ws hi
  obtain ⟨ti, tn, ts, tf⟩ := take_step cur p.1 hi
  split
  · rename_i st1 c e
    have e1 : (cur.takeConstraint p.1).1 = st1 := by rw [e]
    have e2 : (cur.takeConstraint p.1).2 = some c := by rw [e]
    rw [e1] at ti tn ts tf
    obtain ⟨hni, hlt⟩ := tf c e2
    have fr : Fr p.1 st1 := ⟨ti, by rw [tn]; exact hlt, hni⟩
    obtain ⟨hσ, hd, hsem⟩ := take_sem (I := I) hi e
    have hm : (p.1, c) ∈ cur.store := take_some e2
    have hst1 : ∀ q ∈ st1.store, q ∈ cur.store := by
      have f4 := (take_fields cur p.1).2.2.2
      rw [e1] at f4
      intro q hq; rw [f4] at hq; exact (List.mem_filter.1 hq).1
    have w1 : WFS st1 := w.same hσ hd fun q hq => .inl (hst1 q hq)
    have k1 : Keeps cur st1 := Keeps.same w.solved hσ hd
    have hnd : CstOK c := w.nodist _ hm
    refine ⟨?_, fun cur' h => (runCst_selfOK hrc ord 4 _ _ _ _ fr h).inv⟩
    have body := runCstBody_sem hrc hrs ho (runCst_selfSem hrc hrs ho 3) (hIc.same hσ) w1 fr hnd
    -- `runCst 4` is its body over `runCst 3`
    have : runCst rc ord 4 p.1 c st1 = runCstBody rc ord (runCst rc ord 3) p.1 c st1 := rfl
    rw [this]
    cases hb : runCstBody rc ord (runCst rc ord 3) p.1 c st1 with
    | ok s2 =>
      rw [hb] at body
      exact ⟨body.1, k1.trans body.2.1, fun γ => by rw [body.2.2 γ, hsem γ]; exact ⟨fun a => ⟨a, trivial⟩, fun a => a.1⟩⟩
    | fail =>
      rw [hb] at body
      intro γ ⟨a, _⟩
      exact body γ ((hsem γ).1 a)
    | fuel => trivial
    | panic s =>
      rw [hb] at body
      exact ⟨body.1, body.2.1, fun γ ⟨a, _⟩ => body.2.2 γ ((hsem γ).1 a)⟩
  · rename_i st1 e
    have e1 : (cur.takeConstraint p.1).1 = st1 := by rw [e]
    have e2 : (cur.takeConstraint p.1).2 = none := by rw [e]
    have : st1 = cur := by rw [← e1]; exact take_none e2
    subst this
    exact ⟨Ref.entailed w fun _ _ => trivial, fun cur' h => by cases h; exact hi⟩

end WithRC

/-- `State::run_constraints`, at every nesting depth: the described valuations are kept exactly -/
theorem runConstraintsF_sem {ord : Order} (ho : OrderOK ord) : ∀ n, RcSem (runConstraintsF ord n)
  | 0 => fun _ _ _ _ _ => trivial
  | n + 1 => fun _ _ hI w hi =>
    runSnapshot_sem (runConstraintsF_ok ord n) (runConstraintsF_sem ho n) ho hI w hi

end Pv
