/-
  `force_ans` FINISHES ON A STATE WITHOUT DOMAINS: from an unpoisoned state with a solved substitution and an empty domain
  store, the textbook evaluation of `force_ans(x)` terminates with that state and nothing else, as soon as the model's
  depth bound `n` is at least the size of the walked term.  (The hypothesis `hfa` of `reifyG_tree` / `C02_query_tree`.)
-/
import PvModel.Proofs.ReifyGoal
import PvModel.Proofs.LabelSep
namespace Pv
open State Term Goal FD

section
variable [Mode]

theorem size_apply_iterItems (σ : Subst) : ∀ (t it : Term), it ∈ t.iterItems → (apply σ it).size ≤ (apply σ t).size
  | .cons h t, it, hit => by
    rw [iterItems_cons] at hit
    simp only [apply, Term.size]
    rcases List.mem_cons.1 hit with rfl | hit
    · omega
    · have := size_apply_iterItems σ t it hit
      omega
  | .nil, it, hit => by simp [Term.iterItems, Term.listElems] at hit
  | .var x, it, hit => by
    simp [Term.iterItems, Term.listElems] at hit; subst hit; exact Nat.le_refl _
  | .val v, it, hit => by
    simp [Term.iterItems, Term.listElems] at hit; subst hit; exact Nat.le_refl _
  | .comp g a, it, hit => by
    simp [Term.iterItems, Term.listElems] at hit; subst hit; exact Nat.le_refl _

theorem size_apply_compFields (σ : Subst) (args f : Term) (hf : f ∈ compFields args) : (apply σ f).size ≤ (apply σ args).size := by
  unfold compFields at hf
  obtain ⟨it, hit, hfi⟩ := List.mem_flatMap.1 hf
  have h1 := size_apply_iterItems σ args it hit
  split at hfi
  · rename_i kids
    have h2 := size_apply_iterItems σ kids f hfi
    simp only [apply, Term.size] at h1
    omega
  · simp only [List.mem_singleton] at hfi
    subst hfi; exact h1

variable (dfs : Call → State → State × G)

/-- the textbook evaluation of `g` from `s` terminates with `[s]` (for every fuel from some point on) -/
def Tot (g : G) (s : State) : Prop := ∃ N, ∀ N', N ≤ N' → evalRef dfs N' g s = some [s]

theorem tot_succeed (s : State) : Tot dfs (.succeed : G) s :=
  ⟨1, fun N' h => by
    cases N' with
    | zero => omega
    | succ N' => rfl⟩

theorem tot_not_fail {g : G} {s : State} (h : Tot dfs g s) : g.isFail = false := by
  cases g with
  | fail =>
    obtain ⟨N, hN⟩ := h
    have := hN (N + 1) (Nat.le_succ _)
    simp [evalRef] at this
  | _ => rfl

theorem tot_conj {g1 g2 : G} {s : State} (h1 : Tot dfs g1 s) (h2 : Tot dfs g2 s) : Tot dfs (.conj g1 g2) s := by
  obtain ⟨N1, hN1⟩ := h1
  obtain ⟨N2, hN2⟩ := h2
  refine ⟨max N1 N2 + 1, fun N' h => ?_⟩
  cases N' with
  | zero => omega
  | succ N' =>
    have e1 := hN1 N' (by omega)
    have e2 := hN2 N' (by omega)
    simp only [evalRef, e1, flatMapM, e2, List.append_nil]

theorem tot_mkConj {g1 g2 : G} {s : State} (h1 : Tot dfs g1 s) (h2 : Tot dfs g2 s) : Tot dfs (mkConj g1 g2) s := by
  unfold mkConj
  split
  · exact tot_succeed dfs s
  · split
    · rename_i hf
      rw [tot_not_fail dfs h1, tot_not_fail dfs h2] at hf
      simp at hf
    · exact tot_conj dfs h1 h2

theorem tot_conjOfList {s : State} : ∀ gs : List G, (∀ g ∈ gs, Tot dfs g s) → Tot dfs (Goal.conjOfList gs) s
  | [], _ => tot_succeed dfs s
  | g :: gs, h => tot_mkConj dfs (h g List.mem_cons_self) (tot_conjOfList gs fun x hx => h x (List.mem_cons_of_mem _ hx))

theorem tot_dyn {fg : State → G} {s : State} (h : Tot dfs (fg s) s) : Tot dfs (.dyn id fg) s := by
  obtain ⟨N, hN⟩ := h
  refine ⟨N + 1, fun N' h => ?_⟩
  cases N' with
  | zero => omega
  | succ N' =>
    simp only [evalRef, id]
    exact hN N' (by omega)

theorem forceAns_tot (ord : Order) (s : State) (hs : Solved s.σ) (hd : s.dstore = []) (hp : s.panic = none) :
    ∀ (n : Nat) (t : Term), (apply s.σ t).size ≤ n → Tot dfs (forceAns ord n t) s
  | 0, t, h => by have := size_pos (apply s.σ t); omega
  | n + 1, t, h => by
    have ih := forceAns_tot ord s hs hd hp n
    unfold forceAns
    refine tot_dyn dfs ?_
    simp only [hp, Option.isSome_none, Bool.false_eq_true, if_false]
    have hw := walk_eq_apply_top hs t
    split
    · rename_i xv _
      have hg : s.dget xv = none := by simp [State.dget, hd]
      rw [hg]
      exact tot_succeed dfs s
    · rename_i hd' tl hwk
      rw [hwk] at hw
      simp only [apply] at hw
      rw [← hw] at h
      simp only [Term.size] at h
      refine tot_conjOfList dfs _ fun g hg => ?_
      simp only [List.mem_cons, List.mem_nil_iff, or_false] at hg
      rcases hg with rfl | rfl
      · exact ih hd' (by omega)
      · exact ih tl (by omega)
    · rename_i tag args hwk
      rw [hwk] at hw
      simp only [apply] at hw
      rw [← hw] at h
      simp only [Term.size] at h
      refine tot_conjOfList dfs _ fun g hg => ?_
      obtain ⟨f, hf, rfl⟩ := List.mem_map.1 hg
      have := size_apply_compFields s.σ args f hf
      exact ih f (by omega)
    · exact tot_succeed dfs s

/-- the hypothesis `hfa` of `reifyG_tree`, from the size of the walked query term -/
theorem forceAns_finishes (ord : Order) (s : State) (hs : Solved s.σ) (hd : s.dstore = []) (hp : s.panic = none) (x : Term)
    (hsz : (apply s.σ x).size ≤ forceFuel) :
    ∃ N zs, evalRef dfs N (forceAns ord forceFuel x) s = some zs ∧ ∀ t ∈ zs, t.panic = none := by
  obtain ⟨N, hN⟩ := forceAns_tot dfs ord s hs hd hp forceFuel x hsz
  exact ⟨N, [s], hN N (Nat.le_refl _), fun t ht => by rw [List.mem_singleton.1 ht]; exact hp⟩

end
end Pv
