/-
  PARAMETRICITY of the interleaving engine, for goals built from atoms, conjunction, `conde` and fresh: if two
  goals have the same shape and their atoms take related states to related results (both fail, or both succeed
  with related states), then the engine delivers — step for step — related answers in the SAME ORDER.
  The atoms may also "escape": produce a state marked bad (the model's FUEL poison).  Bad states pass through
  every later atom unchanged and the fragment has no literal `fail`, so a bad state, once produced, is among the
  answers of that run; the conclusion is then "related position by position, or a bad state is among the answers
  of one of the two runs".
  Used with "same substitution, same described valuations" as the relation: the answer sequence of a
  `==`/`!=` program does not depend on the iteration order of the hash-based constraint store.
-/
import PvModel.Spec.Stream
import PvModel.Proofs.StreamAux
namespace Pv
open Strm Goal

section
variable {St K : Type} (R : St → St → Prop) (B : St → Prop)

inductive OptRel : Option St → Option St → Prop
  | none : OptRel none none
  | some {a a'} : R a a' → OptRel (some a) (some a')

/-- related atoms: on related states both fail, or both succeed with related states, or one of them yields a bad state -/
def AtomRel (f f' : St → Option St) : Prop :=
  ∀ a a', R a a' → OptRel R (f a) (f' a') ∨ ∃ p, B p ∧ (f a = some p ∨ f' a' = some p)

/-- bad states pass through the atom unchanged -/
def AtomPass (f : St → Option St) : Prop := ∀ a, B a → f a = some a

/-- same shape, related atoms; no literal `fail` -/
inductive GRel : Goal St K → Goal St K → Prop
  | succeed : GRel .succeed .succeed
  | atom {f f' : St → Option St} : AtomRel R B f f' → AtomPass B f → AtomPass B f' → GRel (.atom f) (.atom f')
  | conj {g1 g2 g1' g2'} : GRel g1 g1' → GRel g2 g2' → GRel (.conj g1 g2) (.conj g1' g2')
  | alt {g1 g2 g1' g2'} : GRel g1 g1' → GRel g2 g2' → GRel (.alt g1 g2) (.alt g1' g2')
  | fresh {g g'} : GRel g g' → GRel (.fresh g) (.fresh g')

/-- the fragment, one side: bad states pass through every atom -/
inductive PG : Goal St K → Prop
  | succeed : PG .succeed
  | atom {f : St → Option St} : AtomPass B f → PG (.atom f)
  | conj {g1 g2} : PG g1 → PG g2 → PG (.conj g1 g2)
  | alt {g1 g2} : PG g1 → PG g2 → PG (.alt g1 g2)
  | fresh {g} : PG g → PG (.fresh g)

mutual
inductive SRel : Strm St K → Strm St K → Prop
  | empty : SRel .empty .empty
  | unit {a a'} : R a a' → SRel (.unit a) (.unit a')
  | cons {a a' l l'} : R a a' → LRel l l' → SRel (.cons a l) (.cons a' l')
  | lazy {l l'} : LRel l l' → SRel (.lazy l) (.lazy l')
inductive LRel : Lz St K → Lz St K → Prop
  | bind {l l' g g'} : LRel l l' → GRel R B g g' → LRel (.bind l g) (.bind l' g')
  | mplus {l1 l2 l1' l2'} : LRel l1 l1' → LRel l2 l2' → LRel (.mplus l1 l2) (.mplus l1' l2')
  | pause {a a' g g'} : R a a' → GRel R B g g' → LRel (.pause a g) (.pause a' g')
  | delay {s s'} : SRel s s' → LRel (.delay s) (.delay s')
end

variable {R B}

theorem GRel.isSucceed {g g' : Goal St K} (h : GRel R B g g') : g.isSucceed = g'.isSucceed := by
  cases h <;> rfl

theorem GRel.isFail {g g' : Goal St K} (h : GRel R B g g') : g.isFail = g'.isFail := by
  cases h <;> rfl

theorem GRel.left {g g' : Goal St K} (h : GRel R B g g') : PG B g := by
  induction h with
  | succeed => exact .succeed
  | atom _ h1 _ => exact .atom h1
  | conj _ _ i1 i2 => exact .conj i1 i2
  | alt _ _ i1 i2 => exact .alt i1 i2
  | fresh _ i => exact .fresh i

theorem GRel.right {g g' : Goal St K} (h : GRel R B g g') : PG B g' := by
  induction h with
  | succeed => exact .succeed
  | atom _ _ h2 => exact .atom h2
  | conj _ _ i1 i2 => exact .conj i1 i2
  | alt _ _ i1 i2 => exact .alt i1 i2
  | fresh _ i => exact .fresh i

theorem PG.notFail {g : Goal St K} (h : PG B g) : g.isFail = false := by
  cases h <;> rfl

theorem mplus_rel {s s' : Strm St K} {l l' : Lz St K} (hs : SRel R B s s') (hl : LRel R B l l') :
    SRel R B (Strm.mplus s l) (Strm.mplus s' l') := by
  cases hs with
  | empty => exact .lazy hl
  | unit ha => exact .cons ha hl
  | cons ha hl1 => exact .cons ha (.mplus hl hl1)
  | lazy hl1 => exact .lazy (.mplus hl hl1)

theorem bind_rel {s s' : Strm St K} {g g' : Goal St K} (hs : SRel R B s s') (hg : GRel R B g g') :
    SRel R B (Strm.bind s g) (Strm.bind s' g') := by
  unfold Strm.bind
  rw [← hg.isSucceed, ← hg.isFail]
  split
  · exact hs
  · split
    · exact .empty
    · cases hs with
      | empty => exact .empty
      | unit ha => exact .lazy (.pause ha hg)
      | cons ha hl => exact .lazy (.mplus (.pause ha hg) (.bind hl hg))
      | lazy hl => exact .lazy (.bind hl hg)

theorem lazyBind_rel {l l' : Lz St K} {g g' : Goal St K} (hl : LRel R B l l') (hg : GRel R B g g') :
    SRel R B (Strm.lazyBind l g) (Strm.lazyBind l' g') := by
  unfold Strm.lazyBind
  rw [← hg.isSucceed, ← hg.isFail]
  split
  · exact .lazy hl
  · split
    · exact .empty
    · exact .lazy (.bind hl hg)

def optStrm : Option St → Strm St K
  | some b => .unit b
  | none => .empty

theorem start_atom (defs : K → St → St × Goal St K) (top : Goal St K → St → Strm St K) (pf : Nat)
    (f : St → Option St) (a : St) : start defs top pf (.atom f) a = optStrm (f a) := by
  simp only [start, optStrm]
  cases f a <;> rfl

theorem optrel_strm {r r' : Option St} (h : OptRel R r r') : SRel R B (optStrm (K := K) r) (optStrm r') := by
  cases h with
  | none => exact .empty
  | some hb => exact .unit hb

/-! ### bad states persist -/

section Pass
variable {defs : K → St → St × Goal St K} {top0 top : Goal St K → St → Strm St K} {pf : Nat}
  (htopEq : ∀ g a, top g a = start defs top0 pf g a)
include htopEq

/-- a bad state handed to a goal of the fragment is among the goal's answers -/
theorem pass_start {g : Goal St K} (hg : PG B g) : ∀ p, B p → MemS top p (start defs top0 pf g p) := by
  induction hg with
  | succeed => intro p _; simp only [start]; exact .unit p
  | atom hf => intro p hp; rw [start_atom, hf p hp]; exact .unit p
  | @conj g1 g2 h1 h2 i1 i2 =>
    intro p hp
    simp only [start]
    unfold Strm.lazyBind
    rw [h2.notFail]
    have m1 : MemL top p (.pause p g1) := .pause (by rw [htopEq]; exact i1 p hp)
    split
    · exact .lazy m1
    · exact .lazy (.bind m1 (by rw [htopEq]; exact i2 p hp))
  | alt _ _ i1 _ => intro p hp; simp only [start]; exact mem_mplus_iff.2 (.inl (i1 p hp))
  | fresh _ i => intro p hp; simp only [start]; exact .lazy (.pause (by rw [htopEq]; exact i p hp))

theorem pass_top {g : Goal St K} (hg : PG B g) (p : St) (hp : B p) : MemS top p (top g p) := by
  rw [htopEq]; exact pass_start htopEq hg p hp

end Pass

/-! ### the engine, step for step -/

section Engine
variable {top top' : Goal St K → St → Strm St K}

/-- a bad state is among the answers of one of the two streams -/
def BadS (top top' : Goal St K → St → Strm St K) (B : St → Prop) (s s' : Strm St K) : Prop :=
  ∃ p, B p ∧ (MemS top p s ∨ MemS top' p s')

def BadL (top top' : Goal St K → St → Strm St K) (B : St → Prop) (l l' : Lz St K) : Prop :=
  ∃ p, B p ∧ (MemL top p l ∨ MemL top' p l')

variable (hT : TopOK top) (hT' : TopOK top')
  (hpass : ∀ g, PG B g → ∀ p, B p → MemS top p (top g p))
  (hpass' : ∀ g, PG B g → ∀ p, B p → MemS top' p (top' g p))
  (htop : ∀ g g' a a', GRel R B g g' → R a a' → SRel R B (top g a) (top' g' a') ∨ BadS top top' B (top g a) (top' g' a'))
include hT hT' hpass hpass' htop

theorem step_rel : ∀ (l l' : Lz St K), LRel R B l l' →
    SRel R B (step top l) (step top' l') ∨ BadS top top' B (step top l) (step top' l')
  | .mplus l1 l2, _, h => by
    cases h with
    | @mplus _ _ l1' l2' h1 h2 =>
      rcases step_rel l1 _ h1 with r | ⟨p, hp, m⟩
      · exact .inl (mplus_rel r h2)
      · refine .inr ⟨p, hp, ?_⟩
        simp only [step]
        rcases m with m | m
        · exact .inl (mem_mplus_iff.2 (.inl m))
        · exact .inr (mem_mplus_iff.2 (.inl m))
  | .bind l g, _, h => by
    cases h with
    | @bind _ l' _ g' h1 hg =>
      rcases step_rel l _ h1 with r | ⟨p, hp, m⟩
      · exact .inl (bind_rel r hg)
      · refine .inr ⟨p, hp, ?_⟩
        simp only [step]
        rcases m with m | m
        · exact .inl ((mem_bind_iff hT).2 ⟨p, m, hpass _ hg.left p hp⟩)
        · exact .inr ((mem_bind_iff hT').2 ⟨p, m, hpass' _ hg.right p hp⟩)
  | .pause a g, _, h => by
    cases h with
    | pause ha hg => exact htop _ _ _ _ hg ha
  | .delay s, _, h => by
    cases h with
    | delay hs => exact .inl hs
  | .mplusD _ _, _, h => by cases h
  | .bindD _ _, _, h => by cases h

/-- lists related position by position -/
inductive Pointwise (R : St → St → Prop) : List St → List St → Prop
  | nil : Pointwise R [] []
  | cons {a a' l l'} : R a a' → Pointwise R l l' → Pointwise R (a :: l) (a' :: l')

/-- the answers delivered within `n` steps are related position by position, unless a bad state is among the
    answers of one of the two streams -/
theorem runF_rel : ∀ (n : Nat) (s s' : Strm St K), SRel R B s s' →
    Pointwise R (runF top n s) (runF top' n s') ∨ BadS top top' B s s'
  | 0, _, _, _ => .inl .nil
  | n + 1, _, _, h => by
    cases h with
    | empty => exact .inl .nil
    | unit ha => exact .inl (.cons ha .nil)
    | @cons a a' l l' ha hl =>
      rcases runF_rel n _ _ (SRel.lazy hl) with r | ⟨p, hp, m⟩
      · exact .inl (.cons ha r)
      · refine .inr ⟨p, hp, ?_⟩
        rcases m with m | m
        · exact .inl (memS_cons_iff.2 (.inr (memS_lazy_iff.1 m)))
        · exact .inr (memS_cons_iff.2 (.inr (memS_lazy_iff.1 m)))
    | @lazy l l' hl =>
      rcases step_rel hT hT' hpass hpass' htop _ _ hl with r | ⟨p, hp, m⟩
      · rcases runF_rel n _ _ r with r2 | ⟨p, hp, m⟩
        · exact .inl r2
        · refine .inr ⟨p, hp, ?_⟩
          rcases m with m | m
          · exact .inl (memS_lazy_iff.2 ((step_mem_iff_aux hT _ _).1 m))
          · exact .inr (memS_lazy_iff.2 ((step_mem_iff_aux hT' _ _).1 m))
      · refine .inr ⟨p, hp, ?_⟩
        rcases m with m | m
        · exact .inl (memS_lazy_iff.2 ((step_mem_iff_aux hT _ _).1 m))
        · exact .inr (memS_lazy_iff.2 ((step_mem_iff_aux hT' _ _).1 m))

end Engine

/-! ### `start`: the first stream of a goal -/

section Start
variable {defs defs' : K → St → St × Goal St K} {top0 top0' top top' : Goal St K → St → Strm St K} {pf : Nat}

theorem start_rel : ∀ (g g' : Goal St K), GRel R B g g' → ∀ a a', R a a' →
    SRel R B (start defs top0 pf g a) (start defs' top0' pf g' a') ∨
      BadS top top' B (start defs top0 pf g a) (start defs' top0' pf g' a') := by
  intro g g' h
  induction h with
  | succeed => intro a a' ha; exact .inl (.unit ha)
  | @atom f f' hf _ _ =>
    intro a a' ha
    rw [start_atom, start_atom]
    rcases hf a a' ha with r | ⟨p, hp, e | e⟩
    · exact .inl (optrel_strm r)
    · exact .inr ⟨p, hp, .inl (by rw [e]; exact .unit p)⟩
    · exact .inr ⟨p, hp, .inr (by rw [e]; exact .unit p)⟩
  | conj h1 h2 _ _ => intro a a' ha; exact .inl (lazyBind_rel (.pause ha h1) h2)
  | alt h1 h2 ih1 ih2 =>
    intro a a' ha
    simp only [start]
    rcases ih1 a a' ha with r1 | ⟨p, hp, m⟩
    · rcases ih2 a a' ha with r2 | ⟨p, hp, m⟩
      · exact .inl (mplus_rel r1 (.delay r2))
      · refine .inr ⟨p, hp, ?_⟩
        rcases m with m | m
        · exact .inl (mem_mplus_iff.2 (.inr (.delay m)))
        · exact .inr (mem_mplus_iff.2 (.inr (.delay m)))
    · refine .inr ⟨p, hp, ?_⟩
      rcases m with m | m
      · exact .inl (mem_mplus_iff.2 (.inl m))
      · exact .inr (mem_mplus_iff.2 (.inl m))
  | fresh h1 _ => intro a a' ha; exact .inl (.lazy (.pause ha h1))

end Start

/-- PARAMETRICITY at any solver nesting level: two goals of the same shape with related atoms, started on
    related states — the answers delivered within any number `n` of engine steps are related position by
    position (same number, same order), unless a bad state is among the answers of one of the two runs. -/
theorem engine_rel (defs defs' : K → St → St × Goal St K) (pf M : Nat) {g g' : Goal St K} {a a' : St}
    (hg : GRel R B g g') (ha : R a a') (n : Nat) :
    Pointwise R (runF (solveAt defs pf (M + 1)) n (solveAt defs pf (M + 1) g a))
        (runF (solveAt defs' pf (M + 1)) n (solveAt defs' pf (M + 1) g' a')) ∨
      BadS (solveAt defs pf (M + 1)) (solveAt defs' pf (M + 1)) B (solveAt defs pf (M + 1) g a)
        (solveAt defs' pf (M + 1) g' a') := by
  have hT := topOK_solveAt defs pf M
  have hT' := topOK_solveAt defs' pf M
  have e : ∀ g a, solveAt defs pf (M + 1) g a = start defs (solveAt defs pf M) pf g a := fun _ _ => rfl
  have e' : ∀ g a, solveAt defs' pf (M + 1) g a = start defs' (solveAt defs' pf M) pf g a := fun _ _ => rfl
  have htop : ∀ g g' a a', GRel R B g g' → R a a' →
      SRel R B (solveAt defs pf (M + 1) g a) (solveAt defs' pf (M + 1) g' a') ∨
        BadS (solveAt defs pf (M + 1)) (solveAt defs' pf (M + 1)) B (solveAt defs pf (M + 1) g a)
          (solveAt defs' pf (M + 1) g' a') := fun g g' a a' hg ha => start_rel g g' hg a a' ha
  rcases htop g g' a a' hg ha with r | b
  · exact runF_rel hT hT' (fun g hg p hp => pass_top e hg p hp) (fun g hg p hp => pass_top e' hg p hp) htop n _ _ r
  · exact .inr b

end
end Pv
