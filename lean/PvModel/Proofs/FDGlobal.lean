/-
  Global semantics of the CLP(FD)/CLP(Z) state machine: every operation of Model/State.lean — through the
  re-entrant `run_constraints → c.run → process_domain → resolve_storable_domain → run_constraints`
  loop — yields a state that describes EXACTLY the valuations of the old state that satisfy the posted
  condition (`Ref`, Spec/FDSem.lean): propagation neither loses a solution nor admits a non-solution,
  whatever the iteration order of the hash-based stores.
-/
import PvModel.Spec.FDSem
import PvModel.Proofs.CntGlobal
import PvModel.Proofs.FDLocal
import PvModel.Proofs.FD
namespace Pv
open State Term
variable {I : Nat → Prop} [Mode]

/-! ### the refinement calculus -/

theorem Keeps.refl {st : State} (h : Solved st.σ) : Keeps st st :=
  ⟨Ext.refl _ h, fun _ hy => .inl hy, fun _ _ _ hd => hd, fun _ hy => hy, fun _ hy => .inl hy, fun _ _ => rfl,
   fun _ d _ hd => .inl ⟨d, hd, fun _ h => h⟩⟩

theorem Keeps.same {st st' : State} (h : Solved st.σ) (hσ : st'.σ = st.σ) (hd : st'.dstore = st.dstore) :
    Keeps st st' :=
  ⟨by rw [hσ]; exact Ext.refl _ h, fun _ hy => .inl (by rw [hσ]; exact hy),
   fun y _ _ hh => by unfold dget at *; rw [hd]; exact hh,
   fun y hy => by rw [hσ] at hy; exact hy,
   fun y hh => .inl (by unfold dget at *; rw [hd] at hh; exact hh),
   fun y _ => by unfold dget; rw [hd],
   fun y d _ hh => .inl ⟨d, by unfold dget at *; rw [hd]; exact hh, fun _ h => h⟩⟩

theorem Keeps.trans {st st1 st2 : State} (h1 : Keeps st st1) (h2 : Keeps st1 st2) : Keeps st st2 := by
  have num2 : ∀ y n, st1.σ y = Term.num n → st2.σ y = Term.num n := fun y n hy => by
    have := h2.ext (.var y)
    simp only [apply] at this
    rw [hy] at this
    simpa [Term.num, apply] using this.symm
  refine ⟨Ext.trans h1.ext h2.ext, fun y hy => ?_, fun y hy hy2 hd => ?_, fun y hy => h1.mono y (h2.mono y hy),
    fun y hh => ?_, fun y hy => ?_, fun y d hy hd => ?_⟩
  · rcases h1.numonly y hy with a | ⟨n, a⟩
    · exact h2.numonly y a
    · exact .inr ⟨n, num2 y n a⟩
  · rcases h1.numonly y hy with a | ⟨n, a⟩
    · exact h2.dom y a hy2 (h1.dom y hy a hd)
    · have := num2 y n a
      rw [hy2] at this
      simp [Term.num] at this
  · rcases h2.keys y hh with a | a
    · exact h1.keys y a
    · exact .inr (h1.mono y a)
  · have hb1 : st1.σ y ≠ .var y := fun e => hy (h1.mono y e)
    rw [h2.bound y hb1, h1.bound y hy]
  · rcases h1.shrink y d hy hd with ⟨d1, hd1, hs1⟩ | ⟨n, hn, hm⟩
    · by_cases hy1 : st1.σ y = .var y
      · rcases h2.shrink y d1 hy1 hd1 with ⟨d2, hd2, hs2⟩ | ⟨n, hn, hm⟩
        · exact .inl ⟨d2, hd2, fun n h => hs1 n (hs2 n h)⟩
        · exact .inr ⟨n, hn, hs1 n hm⟩
      · exact .inl ⟨d1, by rw [h2.bound y hy1]; exact hd1, hs1⟩
    · exact .inr ⟨n, num2 y n hn, hm⟩

theorem Ref.bind {S T : Subst → Prop} {st : State} {r : Res State} {f : State → Res State}
    (h1 : Ref I S st r) (h2 : ∀ st1, r = .ok st1 → Ref I T st1 (f st1)) :
    Ref I (fun γ => S γ ∧ T γ) st (r.bind f) := by
  cases r with
  | ok st1 =>
    have h2' := h2 st1 rfl
    simp only [Res.bind]
    cases hf : f st1 with
    | ok st2 =>
      rw [hf] at h2'
      exact ⟨h2'.1, h1.2.1.trans h2'.2.1, fun γ => by rw [h2'.2.2 γ, h1.2.2 γ, and_assoc]⟩
    | fail =>
      rw [hf] at h2'
      intro γ ⟨a, b, c⟩
      exact h2' γ ⟨(h1.2.2 γ).2 ⟨a, b⟩, c⟩
    | fuel => trivial
    | panic s =>
      rw [hf] at h2'
      exact ⟨h2'.1, h2'.2.1, fun γ ⟨a, b, c⟩ => h2'.2.2 γ ⟨(h1.2.2 γ).2 ⟨a, b⟩, c⟩⟩
  | fail => intro γ ⟨a, b, _⟩; exact h1 γ ⟨a, b⟩
  | fuel => trivial
  | panic s => exact ⟨h1.1, h1.2.1, fun γ ⟨a, b, _⟩ => h1.2.2 γ ⟨a, b⟩⟩

theorem Ref.congr {S T : Subst → Prop} {st : State} {r : Res State} (h : Ref I S st r)
    (hST : ∀ γ, Sem I γ st → (S γ ↔ T γ)) : Ref I T st r := by
  cases r with
  | ok st1 => exact ⟨h.1, h.2.1, fun γ => by rw [h.2.2 γ]; exact ⟨fun ⟨a, b⟩ => ⟨a, (hST γ a).1 b⟩, fun ⟨a, b⟩ => ⟨a, (hST γ a).2 b⟩⟩⟩
  | fail => intro γ ⟨a, b⟩; exact h γ ⟨a, (hST γ a).2 b⟩
  | fuel => trivial
  | panic s => exact ⟨h.1, h.2.1, fun γ ⟨a, b⟩ => h.2.2 γ ⟨a, (hST γ a).2 b⟩⟩

/-- the condition is already entailed -/
theorem Ref.entailed {S : Subst → Prop} {st : State} (w : WFS st) (h : ∀ γ, Sem I γ st → S γ) : Ref I S st (.ok st) :=
  ⟨w, Keeps.refl w.solved, fun γ => ⟨fun a => ⟨a, h γ a⟩, fun a => a.1⟩⟩

/-- the condition is contradictory -/
theorem Ref.refuted {S : Subst → Prop} {st : State} (h : ∀ γ, Sem I γ st → ¬ S γ) : Ref I S st .fail :=
  fun γ ⟨a, b⟩ => h γ a b

/-- run from a state that already incorporates `T` -/
theorem Ref.pre {S T : Subst → Prop} {st st0 : State} {r : Res State} (k0 : Keeps st st0)
    (h0 : ∀ γ, Sem I γ st0 ↔ (Sem I γ st ∧ T γ)) (h : Ref I S st0 r) : Ref I (fun γ => T γ ∧ S γ) st r := by
  cases r with
  | ok st1 => exact ⟨h.1, k0.trans h.2.1, fun γ => by rw [h.2.2 γ, h0 γ, and_assoc]⟩
  | fail => intro γ ⟨a, b, c⟩; exact h γ ⟨(h0 γ).2 ⟨a, b⟩, c⟩
  | fuel => trivial
  | panic s => exact ⟨h.1, h.2.1, fun γ ⟨a, b, c⟩ => h.2.2 γ ⟨(h0 γ).2 ⟨a, b⟩, c⟩⟩

theorem Ref.ok_step {S : Subst → Prop} {st st' : State} (w : WFS st') (k : Keeps st st')
    (h : ∀ γ, Sem I γ st' ↔ (Sem I γ st ∧ S γ)) : Ref I S st (.ok st') := ⟨w, k, h⟩

theorem IOK.keep {st st' : State} (h : IOK I st) (_k : Keeps st st') : IOK I st' := h

theorem IOK.same {st st' : State} (h : IOK I st) (_hσ : st'.σ = st.σ) : IOK I st' := h

/-! ### numbers under a valuation -/

theorem numAt_num (γ : Subst) (n m : Int) : NumAt γ (Term.num n) m ↔ n = m := by
  simp [NumAt, Term.num, apply]

theorem numAt_val (γ : Subst) (n m : Int) : NumAt γ (.val (.num n)) m ↔ n = m := numAt_num γ n m

theorem numAt_walk {σ γ : Subst} (hs : Solved σ) (hx : Ext σ γ) (t : Term) (n : Int) :
    NumAt γ (walk σ t) n ↔ NumAt γ t n := by
  unfold NumAt; rw [ext_walk hs hx]

theorem numAt_unique {γ : Subst} {t : Term} {n m : Int} (h1 : NumAt γ t n) (h2 : NumAt γ t m) : n = m := by
  unfold NumAt at h1 h2; rw [h1] at h2; simpa [Term.num] using h2

/-- a walked term that is neither a variable nor a number denotes no integer -/
theorem not_numAt_of_shape {γ : Subst} {t : Term} (hv : t.isVar = false) (hn : t.isNum = false) (n : Int) :
    ¬ NumAt γ t n := by
  intro h
  unfold NumAt at h
  cases t <;> simp_all [apply, Term.num, Term.isVar, Term.isNum]

/-! ### the domain store -/

theorem dget_mem {st : State} {x : Nat} {d : FD} (h : st.dget x = some d) : (x, d) ∈ st.dstore := by
  unfold dget at h
  cases hf : st.dstore.find? (fun p => p.1 == x) with
  | none => rw [hf] at h; cases h
  | some p =>
    rw [hf] at h
    simp only [Option.map_some, Option.some.injEq] at h
    have hp := List.find?_some hf
    have hm := List.mem_of_find?_eq_some hf
    simp only [beq_iff_eq] at hp
    obtain ⟨a, b⟩ := p
    simp only at hp h
    subst hp; subst h; exact hm

theorem dget_none {st : State} {x : Nat} (h : st.dget x = none) : ∀ p ∈ st.dstore, p.1 ≠ x := by
  unfold dget at h
  intro p hp e
  cases hf : st.dstore.find? (fun p => p.1 == x) with
  | none =>
    have := List.find?_eq_none.1 hf p hp
    simp [e] at this
  | some q => rw [hf] at h; cases h

theorem nodup_fst_unique {l : List (Nat × FD)} (hn : (l.map (·.1)).Nodup) {x : Nat} {d d' : FD}
    (h1 : (x, d) ∈ l) (h2 : (x, d') ∈ l) : d = d' := by
  induction l with
  | nil => cases h1
  | cons a l ih =>
    simp only [List.map_cons, List.nodup_cons] at hn
    rcases List.mem_cons.1 h1 with e1 | m1 <;> rcases List.mem_cons.1 h2 with e2 | m2
    · rw [← e2] at e1; cases e1; rfl
    · subst e1; exact (hn.1 (List.mem_map_of_mem (f := (·.1)) m2)).elim
    · subst e2; exact (hn.1 (List.mem_map_of_mem (f := (·.1)) m1)).elim
    · exact ih hn.2 m1 m2

theorem dget_of_mem {st : State} (hn : (st.dstore.map (·.1)).Nodup) {x : Nat} {d : FD}
    (h : (x, d) ∈ st.dstore) : st.dget x = some d := by
  cases hg : st.dget x with
  | none => exact absurd rfl (dget_none hg _ h)
  | some d' => rw [nodup_fst_unique hn (dget_mem hg) h]

theorem dget_isSome_iff {st : State} {y : Nat} : (st.dget y).isSome ↔ ∃ p ∈ st.dstore, p.1 = y := by
  unfold dget
  rw [Option.isSome_map, List.find?_isSome]
  simp

theorem WFS.same {st st' : State} (w : WFS st) (hσ : st'.σ = st.σ) (hd : st'.dstore = st.dstore)
    (hs : ∀ p ∈ st'.store, p ∈ st.store ∨ CstOK p.2) : WFS st' :=
  ⟨by rw [hσ]; exact w.solved, by rw [hd]; exact w.dnodup, by rw [hd]; exact w.dwf,
   fun p hp => (hs p hp).elim (w.nodist p) id⟩

theorem sem_same {st st' : State} (hσ : st'.σ = st.σ) (hs : st'.store = st.store) (hd : st'.dstore = st.dstore)
    (γ : Subst) : Sem I γ st' ↔ Sem I γ st := by
  unfold Sem DomSem; rw [hσ, hs, hd]

end Pv

namespace Pv
open State Term FD
variable {I : Nat → Prop} [Mode]

/-- weakly well-formed: any interval (an EMPTY one included — propagators compute `lo..hi` with `lo > hi`
    when the constraint is unsatisfiable), or a well-formed vector -/
def WFI : FD → Prop
  | .interval _ _ => True
  | .sparse xs => xs ≠ [] ∧ StrictSorted xs

theorem WFI.of_wf {d : FD} (h : WF d) : WFI d := by
  cases d with
  | interval lo hi => trivial
  | sparse xs => exact h

theorem intersect_casesI (a b : FD) (ha : WF a) (hb : WFI b) :
    (∃ l1 h1 l2 h2, a = interval l1 h1 ∧ b = interval l2 h2) ∨
    (∃ L : List Int, L.Pairwise (· < ·) ∧ (∀ x, x ∈ L ↔ (a.Mem x ∧ b.Mem x)) ∧
      intersect a b = ofList? L) := by
  cases a with
  | interval l1 h1 =>
    cases b with
    | interval l2 h2 => exact Or.inl ⟨_, _, _, _, rfl, rfl⟩
    | sparse v =>
      have hv := (ss_iff _).1 hb.2
      refine Or.inr ⟨_, window_pw v l1 h1 hv, fun x => ?_, rfl⟩
      rw [window_mem v l1 h1 hv]
      simp only [Mem]
      constructor
      · rintro ⟨h, h'⟩; exact ⟨h', h⟩
      · rintro ⟨h, h'⟩; exact ⟨h', h⟩
  | sparse v =>
    have hv := (ss_iff _).1 ha.2
    cases b with
    | interval l2 h2 =>
      refine Or.inr ⟨_, window_pw v l2 h2 hv, fun x => ?_, rfl⟩
      rw [window_mem v l2 h2 hv]
      simp only [Mem]
    | sparse w =>
      have hw := (ss_iff _).1 hb.2
      refine Or.inr ⟨_, interMerge_pw v w hv, fun x => ?_, rfl⟩
      rw [interMerge_mem v w hv hw]
      simp only [Mem]

theorem intersect_someI (a b c : FD) (ha : WF a) (hb : WFI b) (h : intersect a b = some c) :
    WF c ∧ ∀ x, c.Mem x ↔ (a.Mem x ∧ b.Mem x) := by
  rcases intersect_casesI a b ha hb with ⟨l1, h1, l2, h2, rfl, rfl⟩ | ⟨L, hL, hm, he⟩
  · simp only [intersect] at h
    split at h
    · rename_i hle
      cases h
      refine ⟨hle, fun x => ?_⟩
      simp only [Mem]
      omega
    · cases h
  · rw [he] at h
    obtain ⟨hw, hmem⟩ := ofList_some L c hL h
    exact ⟨hw, fun x => (hmem x).trans (hm x)⟩

theorem intersect_noneI (a b : FD) (ha : WF a) (hb : WFI b) (h : intersect a b = none) :
    ∀ x, ¬ (a.Mem x ∧ b.Mem x) := by
  rcases intersect_casesI a b ha hb with ⟨l1, h1, l2, h2, rfl, rfl⟩ | ⟨L, hL, hm, he⟩
  · simp only [intersect] at h
    split at h
    · cases h
    · rename_i hle
      intro x
      simp only [Mem]
      omega
  · rw [he] at h
    have := ofList_none L h
    subst this
    intro x hx
    exact absurd ((hm x).2 hx) (by simp)

/-- binding an unbound variable to a number keeps every bound variable bound -/
theorem bindS_bound {σ : Subst} {x : Nat} {n : Int} (hs : Solved σ) (y : Nat)
    (h : bindS x (Term.num n) σ y = .var y) : σ y = .var y :=
  bind_unbound hs (by simp [Term.num, apply]) y h

theorem find_filter_ne (l : List (Nat × FD)) {x y : Nat} (h : y ≠ x) :
    (l.filter (fun p => p.1 != x)).find? (fun p => p.1 == y) = l.find? (fun p => p.1 == y) := by
  induction l with
  | nil => rfl
  | cons a l ih =>
    by_cases hax : a.1 = x
    · have hay : (a.1 == y) = false := by
        simp only [beq_eq_false_iff_ne, ne_eq]; exact fun e => h (e ▸ hax)
      have hf : (a.1 != x) = false := by simp [hax]
      rw [List.filter_cons, hf, List.find?_cons, hay]
      simpa using ih
    · have hf : (a.1 != x) = true := by simp [hax]
      rw [List.filter_cons, hf]
      simp only [if_true, List.find?_cons]
      rw [ih]

theorem dget_dremove_ne (st : State) {x y : Nat} (h : y ≠ x) : (st.dremove x).dget y = st.dget y := by
  unfold dget dremove; simp only; rw [find_filter_ne _ h]

theorem dget_dinsert_ne (st : State) (d : FD) {x y : Nat} (h : y ≠ x) : (st.dinsert x d).dget y = st.dget y := by
  unfold dget dinsert
  simp only [List.find?_append, find_filter_ne _ h]
  have : ([(x, d)] : List (Nat × FD)).find? (fun p => p.1 == y) = none := by simp [Ne.symm h]
  rw [this, Option.or_none]

theorem dget_dinsert_self (st : State) (x : Nat) (d : FD) : (st.dinsert x d).dget x = some d := by
  unfold dget dinsert
  have h1 : (st.dstore.filter (fun p => p.1 != x)).find? (fun p => p.1 == x) = none := by
    rw [List.find?_eq_none]
    intro p hp
    have := (List.mem_filter.1 hp).2
    simpa using this
  simp [List.find?_append, h1]

/-- the nested `run_constraints` keeps the described valuations exactly -/
def RcSem (rc : State → Res State) : Prop :=
  ∀ (I : Nat → Prop) st, IOK I st → WFS st → Inv st → Ref I (fun _ => True) st (rc st)

/-- `x` denotes an integer of `d` -/
def InDom (x : Term) (d : FD) (γ : Subst) : Prop := ∃ n, NumAt γ x n ∧ d.Mem n

section WithRC
variable {rc : State → Res State} (hrs : RcSem rc)
include hrs

theorem resolveStorable_sem {st : State} {x : Nat} {d : FD} (hI : IOK I st) (w : WFS st) (hi : Inv st)
    (hx : st.σ x = .var x) (hd : WF d)
    (hsub : ∀ old, st.dget x = some old → ∀ n, d.Mem n → old.Mem n) :
    Ref I (InDom (.var x) d) st (resolveStorable rc st x d) := by
  have hnIx : ¬ I x := hI x
  unfold resolveStorable
  split
  · rename_i n hsv
    have hsing := (singletonValue_spec d hd n).1 hsv
    generalize hst0 : ({ st with σ := bindS x (Term.num n) st.σ }.dremove x : State) = st0
    have hσ0 : st0.σ = bindS x (Term.num n) st.σ := by subst hst0; rfl
    have hs0 : st0.store = st.store := by subst hst0; rfl
    have hd0 : st0.dstore = st.dstore.filter (fun p => p.1 != x) := by subst hst0; rfl
    have hbo := bind_ok (t := Term.num n) w.solved hx (by simp [Term.num, apply]) (by simp [Term.num, occurs])
    have w0 : WFS st0 := by
      refine ⟨by rw [hσ0]; exact hbo.1, ?_, ?_, by rw [hs0]; exact w.nodist⟩
      · rw [hd0]; exact (List.Sublist.map (fun q : Nat × FD => q.1) List.filter_sublist).nodup w.dnodup
      · intro p hp; rw [hd0] at hp; exact w.dwf p (List.mem_filter.1 hp).1
    have i0 : Inv st0 := by subst hst0; exact SameStore.inv ⟨rfl, rfl, rfl, rfl, rfl⟩ hi
    have hσx : st0.σ x = Term.num n := by rw [hσ0]; simp [bindS, hx, apply, sub1]
    have hdget : ∀ y, y ≠ x → st0.dget y = st.dget y := by
      intro y hyx
      subst hst0
      exact dget_dremove_ne _ hyx
    have k0 : Keeps st st0 := by
      refine ⟨by rw [hσ0]; exact hbo.2.1, fun y hy => ?_, fun y _ hy2 hh => ?_, fun y hy => ?_, fun y hh => ?_,
        fun y hy => ?_, fun y d' hy hh => ?_⟩
      · rw [hσ0]
        by_cases hyx : y = x
        · subst hyx; exact .inr ⟨n, by simp [bindS, hy, apply, sub1]⟩
        · exact .inl (by simp [bindS, hy, apply, sub1, hyx])
      · have hyx : y ≠ x := fun e => by rw [e, hσx] at hy2; simp [Term.num] at hy2
        rw [hdget y hyx]; exact hh
      · rw [hσ0] at hy; exact bindS_bound w.solved y hy
      · by_cases hyx : y = x
        · exact .inr (hyx ▸ hx)
        · rw [hdget y hyx] at hh; exact .inl hh
      · have hyx : y ≠ x := fun e => hy (e ▸ hx)
        exact hdget y hyx
      · by_cases hyx : y = x
        · subst hyx; exact .inr ⟨n, hσx, hsub d' hh n ((hsing n).2 rfl)⟩
        · exact .inl ⟨d', by rw [hdget y hyx]; exact hh, fun _ h => h⟩
    have io0 : IOK I st0 := hI.keep k0
    have h0 : ∀ γ, Sem I γ st0 ↔ (Sem I γ st ∧ InDom (.var x) d γ) := by
      intro γ
      unfold Sem DomSem
      rw [hσ0, hs0, hd0]
      constructor
      · rintro ⟨e, c, dm⟩
        have e' : Ext st.σ γ := Ext.trans hbo.2.1 e
        have hxn : NumAt γ (.var x) n := by
          have := (bind_ext_iff (t := Term.num n) hx e').1 e (x, Term.num n) (by simp)
          simpa [NumAt, apply, Term.num] using this
        refine ⟨⟨e', c, fun p hp hnI => ?_⟩, n, hxn, (hsing n).2 rfl⟩
        by_cases hpx : p.1 = x
        · have hg : st.dget x = some p.2 := dget_of_mem w.dnodup (by rw [← hpx]; exact hp)
          exact ⟨n, by rw [hpx]; exact hxn, hsub _ hg n ((hsing n).2 rfl)⟩
        · exact dm p (List.mem_filter.2 ⟨hp, by simpa using hpx⟩) hnI
      · rintro ⟨⟨e, c, dm⟩, m, hm, hmd⟩
        have : m = n := (hsing m).1 hmd
        subst this
        refine ⟨ext_bind e (by simpa [NumAt, apply, Term.num] using hm), c,
          fun p hp hnI => dm p (List.mem_filter.1 hp).1 hnI⟩
    exact (Ref.pre k0 h0 (hrs I st0 io0 w0 i0)).congr fun γ _ => ⟨fun a => a.1, fun a => ⟨a, trivial⟩⟩
  · have hdget : ∀ y, y ≠ x → (st.dinsert x d).dget y = st.dget y := fun y hyx => dget_dinsert_ne st d hyx
    refine Ref.ok_step ?_ ?_ fun γ => ?_
    · refine ⟨w.solved, ?_, ?_, w.nodist⟩
      · simp only [dinsert, List.map_append, List.map_cons, List.map_nil]
        refine List.nodup_append.2 ⟨(List.Sublist.map (fun q : Nat × FD => q.1) List.filter_sublist).nodup w.dnodup, by simp, ?_⟩
        intro a ha b hb
        simp only [List.mem_singleton] at hb
        subst hb
        obtain ⟨q, hq, rfl⟩ := List.mem_map.1 ha
        have := (List.mem_filter.1 hq).2
        simpa using this
      · intro p hp
        simp only [dinsert, List.mem_append, List.mem_singleton] at hp
        rcases hp with hp | rfl
        · exact w.dwf p (List.mem_filter.1 hp).1
        · exact hd
    · refine ⟨Ext.refl _ w.solved, fun y hy => .inl hy, fun y _ _ hh => ?_, fun y hy => hy, fun y hh => ?_, fun y hy => ?_,
        fun y d' hy hh => ?_⟩
      · by_cases hyx : y = x
        · exact dget_isSome_iff.2 ⟨(x, d), by simp [dinsert], hyx.symm⟩
        · rw [hdget y hyx]; exact hh
      · by_cases hyx : y = x
        · exact .inr (hyx ▸ hx)
        · rw [hdget y hyx] at hh; exact .inl hh
      · exact hdget y fun e => hy (e ▸ hx)
      · by_cases hyx : y = x
        · subst hyx
          exact .inl ⟨d, dget_dinsert_self st y d, hsub d' hh⟩
        · exact .inl ⟨d', by rw [hdget y hyx]; exact hh, fun _ h => h⟩
    · unfold Sem DomSem InDom
      simp only [dinsert]
      constructor
      · rintro ⟨e, c, dm⟩
        obtain ⟨n, hn, hnd⟩ := dm (x, d) (by simp) hnIx
        refine ⟨⟨e, c, fun p hp hnI => ?_⟩, n, hn, hnd⟩
        by_cases hpx : p.1 = x
        · have hg : st.dget x = some p.2 := dget_of_mem w.dnodup (by rw [← hpx]; exact hp)
          exact ⟨n, by rw [hpx]; exact hn, hsub _ hg n hnd⟩
        · exact dm p (List.mem_append.2 (.inl (List.mem_filter.2 ⟨hp, by simpa using hpx⟩))) hnI
      · rintro ⟨⟨e, c, dm⟩, n, hn, hnd⟩
        refine ⟨e, c, fun p hp hnI => ?_⟩
        rcases List.mem_append.1 hp with hp | hp
        · exact dm p (List.mem_filter.1 hp).1 hnI
        · simp only [List.mem_singleton] at hp; subst hp; exact ⟨n, hn, hnd⟩

theorem updateVarDomain_sem {st : State} {x : Nat} {d : FD} (hI : IOK I st) (w : WFS st) (hi : Inv st)
    (hx : st.σ x = .var x) (hd : WFI d) (hdv : WF d ∨ (st.dget x).isSome) :
    Ref I (InDom (.var x) d) st (updateVarDomain rc st x d) := by
  have hnIx : ¬ I x := hI x
  unfold updateVarDomain
  split
  · rename_i old hold
    have hwo : WF old := w.dwf _ (dget_mem hold)
    split
    · rename_i i hint
      obtain ⟨hwi, hmi⟩ := intersect_someI old d i hwo hd hint
      refine (resolveStorable_sem hrs hI w hi hx hwi fun o ho n hn => ?_).congr fun γ hs => ?_
      · rw [hold] at ho; cases ho; exact ((hmi n).1 hn).1
      · unfold InDom
        constructor
        · rintro ⟨n, hn, hni⟩; exact ⟨n, hn, ((hmi n).1 hni).2⟩
        · rintro ⟨n, hn, hnd⟩
          obtain ⟨m, hm, hmo⟩ := hs.2.2 (x, old) (dget_mem hold) hnIx
          have : m = n := numAt_unique hm hn
          subst this
          exact ⟨m, hn, (hmi m).2 ⟨hmo, hnd⟩⟩
    · rename_i hint
      refine Ref.refuted fun γ hs => ?_
      rintro ⟨n, hn, hnd⟩
      obtain ⟨m, hm, hmo⟩ := hs.2.2 (x, old) (dget_mem hold) hnIx
      have : m = n := numAt_unique hm hn
      subst this
      exact intersect_noneI old d hwo hd hint m ⟨hmo, hnd⟩
  · rename_i hnone
    have hd' : WF d := by
      rcases hdv with h | h
      · exact h
      · rw [hnone] at h; cases h
    exact resolveStorable_sem hrs hI w hi hx hd' fun o ho => by rw [hnone] at ho; cases ho

theorem processDomain_sem {st : State} {x : Term} {d : FD} (hI : IOK I st) (w : WFS st) (hi : Inv st)
    (hd : WFI d) (hdv : WF d ∨ ∀ y, walk st.σ x = .var y → (st.dget y).isSome) :
    Ref I (InDom x d) st (processDomain rc st x d) := by
  unfold processDomain
  split
  · rename_i y hy
    have hyu : st.σ y = .var y := walk_normal w.solved x y hy
    refine (updateVarDomain_sem hrs hI w hi hyu hd (hdv.imp id fun h => h y hy)).congr fun γ hs => ?_
    unfold InDom
    constructor <;> rintro ⟨n, hn, hnd⟩
    · exact ⟨n, by rw [← numAt_walk w.solved hs.1, hy]; exact hn, hnd⟩
    · exact ⟨n, by rw [← hy, numAt_walk w.solved hs.1]; exact hn, hnd⟩
  · rename_i v hv
    have key : ∀ γ, Sem I γ st → (InDom x d γ ↔ d.Mem v) := fun γ hs => by
      unfold InDom
      constructor
      · rintro ⟨n, hn, hnd⟩
        rw [← numAt_walk w.solved hs.1, hv] at hn
        have : v = n := (numAt_num γ v n).1 hn
        subst this; exact hnd
      · intro h
        exact ⟨v, by rw [← numAt_walk w.solved hs.1, hv]; exact (numAt_num γ v v).2 rfl, h⟩
    split
    · rename_i hc
      exact Ref.entailed w fun γ hs => (key γ hs).2 ((contains_spec d v).1 hc)
    · rename_i hc
      exact Ref.refuted fun γ hs h => hc ((contains_spec d v).2 ((key γ hs).1 h))
  · rename_i hnv hnn
    refine Ref.refuted fun γ hs => ?_
    rintro ⟨n, hn, _⟩
    rw [← numAt_walk w.solved hs.1] at hn
    refine not_numAt_of_shape ?_ ?_ n hn
    · cases hw : walk st.σ x <;> simp_all [Term.isVar]
    · cases hw : walk st.σ x with
      | val c => cases c <;> simp_all [Term.isNum]
      | _ => simp [Term.isNum]

end WithRC
end Pv

namespace Pv
open State Term FD
variable {I : Nat → Prop} [Mode]

/-! ### the constraint store, semantically -/

theorem with_semG (ord : Order) {st : State} {i : Nat} {c : Cst} (w : WFS st) (f : Fr i st)
    (hd : c.isDiseq = false) (hnd : CstOK c) :
    Ref I (fun γ => CstSem γ c) st (.ok (st.withConstraint ord i c)) := by
  have hf : st.store.filter (fun p => p.1 != i) = st.store := by
    apply List.filter_eq_self.2
    intro q hq
    have : q.1 ≠ i := fun e => f.2.2 (e ▸ List.mem_map_of_mem hq)
    simpa using this
  have hs : (st.withConstraint ord i c).store = st.store ++ [(i, c)] ∧
      (st.withConstraint ord i c).σ = st.σ ∧ (st.withConstraint ord i c).dstore = st.dstore := by
    cases c <;> first | (simp [Cst.isDiseq] at hd; done) | exact ⟨by simp only [State.withConstraint, hf], rfl, rfl⟩
  refine Ref.ok_step (w.same hs.2.1 hs.2.2 fun p hp => ?_) (Keeps.same w.solved hs.2.1 hs.2.2) fun γ => ?_
  · rw [hs.1] at hp
    rcases List.mem_append.1 hp with hp | hp
    · exact .inl hp
    · simp only [List.mem_singleton] at hp; subst hp; exact .inr hnd
  unfold Sem DomSem
  rw [hs.1, hs.2.1, hs.2.2]
  constructor
  · rintro ⟨e, cs, dm⟩
    exact ⟨⟨e, fun p hp => cs p (List.mem_append.2 (.inl hp)), dm⟩, cs (i, c) (by simp)⟩
  · rintro ⟨⟨e, cs, dm⟩, hc⟩
    refine ⟨e, fun p hp => ?_, dm⟩
    rcases List.mem_append.1 hp with hp | hp
    · exact cs p hp
    · simp only [List.mem_singleton] at hp; subst hp; exact hc

theorem with_sem (ord : Order) {st : State} {i : Nat} {c : Cst} (w : WFS st) (f : Fr i st)
    (hd : c.isDiseq = false) (hnd : c.isDistinct = false) :
    Ref I (fun γ => CstSem γ c) st (.ok (st.withConstraint ord i c)) :=
  with_semG ord w f hd (CstOK.of_not_distinct hnd)

/-- taking a constraint out: the state without it, and the constraint, describe the same valuations -/
theorem take_sem {st st1 : State} {i : Nat} {c : Cst} (hi : Inv st)
    (h : st.takeConstraint i = (st1, some c)) :
    st1.σ = st.σ ∧ st1.dstore = st.dstore ∧ ∀ γ, Sem I γ st ↔ (Sem I γ st1 ∧ CstSem γ c) := by
  obtain ⟨f1, f2, f3, f4⟩ := take_fields st i
  have e1 : (st.takeConstraint i).1 = st1 := by rw [h]
  have e2 : (st.takeConstraint i).2 = some c := by rw [h]
  rw [e1] at f1 f2 f3 f4
  have hm : (i, c) ∈ st.store := take_some e2
  refine ⟨f1, f2, fun γ => ?_⟩
  unfold Sem DomSem
  rw [f1, f2, f4]
  constructor
  · rintro ⟨e, cs, dm⟩
    exact ⟨⟨e, fun p hp => cs p (List.mem_filter.1 hp).1, dm⟩, cs (i, c) hm⟩
  · rintro ⟨⟨e, cs, dm⟩, hc⟩
    refine ⟨e, fun p hp => ?_, dm⟩
    by_cases hpi : p.1 = i
    · have : p = (i, c) := nodup_fst_eq hi.2.1 hp hm (by simpa using hpi)
      subst this; exact hc
    · exact cs p (List.mem_filter.2 ⟨hp, by simpa using hpi⟩)

/-- adding a new disequality (normalised by subsumption), over a store of ANY constraints -/
theorem withNew_diseq_sem {ord : Order} (ho : OrderOK ord) {st : State} (w : WFS st) (hi : Inv st)
    (ps : Ext1) : Ref I (fun γ => DiseqHolds γ ps) st (.ok (st.withNewConstraint ord (.diseq ps))) := by
  unfold State.withNewConstraint
  rw [withConstraint_diseq_eq]
  simp only []
  split
  · rename_i hany
    refine Ref.ok_step (w.same rfl rfl fun p hp => .inl hp) (Keeps.same w.solved rfl rfl) fun γ => ?_
    rw [sem_same (st := st) rfl rfl rfl]
    refine ⟨fun a => ⟨a, ?_⟩, fun a => a.1⟩
    obtain ⟨p, hp, hsub⟩ := List.any_eq_true.mp hany
    obtain ⟨ps', he, hs⟩ := subBy_true hsub
    have := a.2.1 p hp
    rw [he] at this
    exact subsumes_sound ho hs γ this
  · generalize hst0 : ({ st with nextId := st.nextId + 1 } : State) = st0
    have hstore0 : st0.store = st.store := by subst hst0; rfl
    have hσ0 : st0.σ = st.σ := by subst hst0; rfl
    have hd0 : st0.dstore = st.dstore := by subst hst0; rfl
    generalize hred : (ord.cs st.store).filter (subOf ord ps) = red
    obtain ⟨t1, t2, t3, t4, t5⟩ := takes_fields red st0
    have hmem : ∀ q, q ∈ (takes red st0).store → q ∈ st.store := fun q hq => by
      rw [← hstore0]; exact ((t5 q).mp hq).1
    refine Ref.ok_step (w.same (t1.trans hσ0) (t2.trans hd0) fun p hp => ?_) (Keeps.same w.solved (t1.trans hσ0) (t2.trans hd0)) fun γ => ?_
    · rcases List.mem_append.mp hp with hp | hp
      · exact .inl (hmem p hp)
      · simp only [List.mem_singleton] at hp; subst hp; exact .inr trivial
    unfold Sem DomSem
    show (Ext (takes red st0).σ γ ∧ (∀ p ∈ (takes red st0).store ++ [(st.nextId, Cst.diseq ps)], CstSem γ p.2) ∧
      ∀ p ∈ (takes red st0).dstore, _) ↔ _
    rw [t1, t2, hσ0, hd0]
    constructor
    · rintro ⟨e, a, dm⟩
      have hnew : DiseqHolds γ ps :=
        a (st.nextId, .diseq ps) (List.mem_append.mpr (Or.inr (List.mem_singleton.mpr rfl)))
      refine ⟨⟨e, fun q hq => ?_, dm⟩, hnew⟩
      by_cases hin : q ∈ (takes red st0).store
      · exact a q (List.mem_append.mpr (Or.inl hin))
      · have hq0 : q ∈ st0.store := by rw [hstore0]; exact hq
        have : ¬ ∀ p ∈ red, q.1 ≠ p.1 := fun hall => hin ((t5 q).mpr ⟨hq0, hall⟩)
        have : ∃ p ∈ red, q.1 = p.1 := by
          apply Classical.byContradiction
          intro hne; apply this; intro p hp heq; exact hne ⟨p, hp, heq⟩
        obtain ⟨p, hp, hqp⟩ := this
        rw [← hred, List.mem_filter] at hp
        have hp0 : p ∈ st.store := (ho.1 st.store).mem_iff.mp hp.1
        have : q = p := nodup_fst_eq hi.2.1 hq hp0 hqp
        subst this
        obtain ⟨ps', he', hs⟩ := subOf_true hp.2
        rw [he']
        exact subsumes_sound ho hs γ hnew
    · rintro ⟨⟨e, a, dm⟩, b⟩
      refine ⟨e, fun q hq => ?_, dm⟩
      rcases List.mem_append.mp hq with hq | hq
      · exact a q (hmem q hq)
      · simp only [List.mem_singleton] at hq; subst hq; exact b

theorem runDiseq_sem {ord : Order} (ho : OrderOK ord) {st : State} (w : WFS st) (hi : Inv st) (ps : Ext1) :
    Ref I (fun γ => DiseqHolds γ ps) st (runDiseq ord st ps) := by
  unfold runDiseq
  split
  · trivial
  · rename_i h
    exact Ref.entailed w fun γ hs => reunify_fail ho w.solved h γ hs.1
  · rename_i σ' e h
    have hk := (reunify_ok ho w.solved h).1
    split
    · rename_i he
      have : e = [] := by simpa using he
      subst this
      exact Ref.refuted fun γ hs hp => not_diseqHolds_nil γ ((hk γ hs.1).2 hp)
    · exact (withNew_diseq_sem ho w hi e).congr fun γ hs => hk γ hs.1

end Pv

namespace Pv
open State Term FD
variable {I : Nat → Prop} [Mode]

/-! ### the propagators, semantically -/

/-- a re-run one level down adds exactly its constraint -/
def SelfSem (self : Nat → Cst → State → Res State) : Prop :=
  ∀ (I : Nat → Prop) i c st, IOK I st → WFS st → Fr i st → c.isDiseq = false → CstOK c →
    Ref I (fun γ => CstSem γ c) st (self i c st)

theorem selfSem_fuel : SelfSem (fun _ _ _ => .fuel) := fun _ _ _ _ _ _ _ _ _ => trivial

theorem Ref.bind' {S T : Subst → Prop} {st : State} {r : Res State} {f : State → Res State}
    (h1 : Ref I S st r)
    (h2 : ∀ st1, r = .ok st1 → WFS st1 → Keeps st st1 → (∀ γ, Sem I γ st1 ↔ (Sem I γ st ∧ S γ)) → Ref I T st1 (f st1)) :
    Ref I (fun γ => S γ ∧ T γ) st (r.bind f) :=
  Ref.bind h1 fun st1 e => by
    subst e
    exact h2 st1 rfl h1.1 h1.2.1 h1.2.2

/-- the term is a walked operand: if it is a variable, that variable is unbound and has a domain -/
def HasDomIf (st : State) (t : Term) : Prop := ∀ y, t = .var y → st.σ y = .var y ∧ (st.dget y).isSome

theorem HasDomIf.keep {st s1 : State} {t : Term} (h : HasDomIf st t) (k : Keeps st s1) :
    ∀ y, walk s1.σ t = .var y → (s1.dget y).isSome := by
  intro y hy
  cases t with
  | var y0 =>
    obtain ⟨hu, hd⟩ := h y0 rfl
    simp only [walk] at hy
    rcases k.numonly y0 hu with a | ⟨n, a⟩
    · rw [a] at hy; cases hy; exact k.dom y hu a hd
    · rw [a] at hy; simp [Term.num] at hy
  | _ => simp [walk] at hy

theorem HasDomIf.trans {st s1 : State} {t : Term} (h : HasDomIf st t) (k : Keeps st s1) (hs : Solved s1.σ) :
    HasDomIf s1 (walk s1.σ t) := by
  intro y hy
  exact ⟨walk_normal hs t y hy, h.keep k y hy⟩

/-- what an operand's domain says about its value (`t` is a walked operand: a variable in it is unbound) -/
theorem opDomain_sem {st : State} (hI : IOK I st) (w : WFS st) {t : Term} {d : FD} (h : opDomain st t = some d)
    (hu : ∀ x, t = .var x → st.σ x = .var x) :
    WF d ∧ (∀ γ, Sem I γ st → ∀ n, NumAt γ t n → d.Mem n) ∧ (∀ y, t = .var y → (st.dget y).isSome) := by
  unfold opDomain at h
  split at h
  · rename_i x
    refine ⟨w.dwf _ (dget_mem h), fun γ hs n hn => ?_, fun y hy => by cases hy; rw [h]; rfl⟩
    obtain ⟨m, hm, hmd⟩ := hs.2.2 _ (dget_mem h) (hI x)
    rw [numAt_unique hn hm]; exact hmd
  · rename_i k
    cases h
    refine ⟨Int.le_refl _, fun γ _ n hn => ?_, fun y hy => by cases hy⟩
    have : k = n := (numAt_num γ k n).1 hn
    subst this
    exact ⟨Int.le_refl _, Int.le_refl _⟩
  · cases h

/-- an operand that has a domain denotes a number of it -/
theorem opDomain_num {st : State} (hI : IOK I st) {t : Term} {d : FD} (h : opDomain st t = some d)
    (hu : ∀ x, t = .var x → st.σ x = .var x) {γ : Subst} (hs : Sem I γ st) :
    ∃ a, NumAt γ t a ∧ d.Mem a := by
  cases t with
  | var x =>
    simp only [opDomain] at h
    obtain ⟨n, hn, hnd⟩ := hs.2.2 _ (dget_mem h) (hI x)
    exact ⟨n, hn, hnd⟩
  | val c =>
    cases c with
    | num k =>
      simp only [opDomain, Option.some.injEq] at h
      subst h
      exact ⟨k, (numAt_val γ k k).2 rfl, ⟨Int.le_refl _, Int.le_refl _⟩⟩
    | _ => simp [opDomain] at h
  | _ => simp [opDomain] at h

theorem opDomain_walk_sem {st : State} (hI : IOK I st) (w : WFS st) (u : Term) {d : FD}
    (h : opDomain st (walk st.σ u) = some d) :
    WF d ∧ (∀ γ, Sem I γ st → ∀ n, NumAt γ (walk st.σ u) n → d.Mem n) ∧
      (∀ y, walk st.σ u = .var y → (st.dget y).isSome) :=
  opDomain_sem hI w h fun x hx => walk_normal w.solved u x hx

theorem opDomain_walk_num {st : State} (hI : IOK I st) (w : WFS st) (u : Term) {d : FD}
    (h : opDomain st (walk st.σ u) = some d) {γ : Subst} (hs : Sem I γ st) :
    ∃ a, NumAt γ (walk st.σ u) a ∧ d.Mem a :=
  opDomain_num hI h (fun x hx => walk_normal w.solved u x hx) hs

theorem bounds_of {d : FD} (hd : WF d) {lo hi : Int} (h1 : d.min? = some lo) (h2 : d.max? = some hi) :
    lo ≤ hi ∧ ∀ n, d.Mem n → lo ≤ n ∧ n ≤ hi := by
  obtain ⟨m, e1, hm, hmin⟩ := min_spec d hd
  obtain ⟨M, e2, _, hmax⟩ := max_spec d hd
  rw [h1] at e1; rw [h2] at e2; cases e1; cases e2
  exact ⟨hmax _ hm, fun n hn => ⟨hmin n hn, hmax n hn⟩⟩

section WithRC
variable {rc : State → Res State} (hrc : RcOK rc) (hrs : RcSem rc) (ord : Order)
include hrc hrs

/-- re-run or re-add, after nested propagation -/
theorem tail_sem {self : Nat → Cst → State → Res State} (hss : SelfSem self) {i : Nat} {c : Cst}
    {s : State} {ws : List Term} (hI : IOK I s) (w : WFS s) (f : Fr i s) (hd : c.isDiseq = false) (hnd : c.isDistinct = false) :
    Ref I (fun γ => CstSem γ c) s (if operandBound s ws then self i c s else .ok (s.withConstraint ord i c)) := by
  split
  · exact hss I i c s hI w f hd (CstOK.of_not_distinct hnd)
  · exact with_sem ord w f hd hnd

theorem narrow3_sem {self : Nat → Cst → State → Res State} (hss : SelfSem self) {i : Nat} {c : Cst}
    {uw vw ww : Term} {wi ui vi : FD} {st : State} (hI : IOK I st) (w : WFS st) (f : Fr i st) (hd : c.isDiseq = false)
    (hnd : c.isDistinct = false) (hwi : WFI wi) (hui : WFI ui) (hvi : WFI vi)
    (hu : HasDomIf st uw) (hv : HasDomIf st vw) (hw : HasDomIf st ww)
    (hent : ∀ γ, Sem I γ st → CstSem γ c → InDom ww wi γ ∧ InDom uw ui γ ∧ InDom vw vi γ) :
    Ref I (fun γ => CstSem γ c) st (narrow3 rc ord self i c uw vw ww wi ui vi st) := by
  unfold narrow3
  have hwalk : ∀ {t : Term}, HasDomIf st t → walk st.σ t = t := by
    intro t ht
    cases t with
    | var y => simp only [walk]; exact (ht y rfl).1
    | _ => rfl
  refine Ref.congr (S := fun γ => InDom ww wi γ ∧ (InDom uw ui γ ∧ (InDom vw vi γ ∧ CstSem γ c))) ?_
    fun γ hs => ⟨fun a => a.2.2.2, fun a => ⟨(hent γ hs a).1, (hent γ hs a).2.1, (hent γ hs a).2.2, a⟩⟩
  refine Ref.bind' (processDomain_sem hrs hI w f.1 hwi (.inr fun y hy => by rw [hwalk hw] at hy; exact (hw y hy).2))
    fun s1 e1 w1 k1 _ => ?_
  have f1 : Fr i s1 := f.step (processDomain_step hrc f.1 e1)
  have hI1 := hI.keep k1
  refine Ref.bind' (processDomain_sem hrs hI1 w1 f1.1 hui (.inr (hu.keep k1))) fun s2 e2 w2 k2 _ => ?_
  have f2 : Fr i s2 := f1.step (processDomain_step hrc f1.1 e2)
  have hI2 := hI1.keep k2
  refine Ref.bind' (processDomain_sem hrs hI2 w2 f2.1 hvi (.inr (hv.keep (k1.trans k2)))) fun s3 e3 w3 k3 _ => ?_
  have f3 : Fr i s3 := f2.step (processDomain_step hrc f2.1 e3)
  exact tail_sem hrc hrs ord hss (hI2.keep k3) w3 f3 hd hnd

end WithRC
end Pv

namespace Pv
open State Term FD
variable {I : Nat → Prop} [Mode]

theorem tri_walk {σ γ : Subst} (hs : Solved σ) (hx : Ext σ γ) (u v w : Term) (R : Int → Int → Int → Prop) :
    (∃ a b c, NumAt γ u a ∧ NumAt γ v b ∧ NumAt γ w c ∧ R a b c) ↔
    (∃ a b c, NumAt γ (walk σ u) a ∧ NumAt γ (walk σ v) b ∧ NumAt γ (walk σ w) c ∧ R a b c) := by
  simp only [numAt_walk hs hx]

theorem tri_ground {γ : Subst} {a b c : Int} (R : Int → Int → Int → Prop) :
    (∃ a' b' c', NumAt γ (Term.num a) a' ∧ NumAt γ (Term.num b) b' ∧ NumAt γ (Term.num c) c' ∧ R a' b' c') ↔ R a b c := by
  simp only [numAt_num]
  constructor
  · rintro ⟨_, _, _, rfl, rfl, rfl, h⟩; exact h
  · intro h; exact ⟨a, b, c, rfl, rfl, rfl, h⟩

theorem interval_wfi (lo hi : Int) : WFI (.interval lo hi) := trivial

/-- the walked operands of a state -/
theorem hasDomIf_walk {st : State} (w : WFS st) (u : Term) {d : FD} (h : opDomain st (walk st.σ u) = some d) :
    HasDomIf st (walk st.σ u) := fun y hy =>
  ⟨walk_normal w.solved u y hy, by
    rw [hy] at h; simp only [opDomain] at h; rw [h]; rfl⟩

section WithRC
variable {rc : State → Res State} (hrc : RcOK rc) (hrs : RcSem rc) (ord : Order)
include hrc hrs

/-- the common shape of `plusfd`, `minusfd`, `timesfd` once all three operands have a domain -/
theorem tri_narrow_sem {self : Nat → Cst → State → Res State} (hss : SelfSem self) {i : Nat} {c : Cst}
    {u v w : Term} {st : State} (hI : IOK I st) (ws : WFS st) (f : Fr i st) (hd : c.isDiseq = false) (hnd : c.isDistinct = false)
    (R : Int → Int → Int → Prop)
    (hc : ∀ γ, CstSem γ c ↔ ∃ a b c', NumAt γ u a ∧ NumAt γ v b ∧ NumAt γ w c' ∧ R a b c')
    {ud vd wd : FD} (hud : opDomain st (walk st.σ u) = some ud) (hvd : opDomain st (walk st.σ v) = some vd)
    (hwd : opDomain st (walk st.σ w) = some wd) {wi ui vi : FD} (hwi : WFI wi) (hui : WFI ui) (hvi : WFI vi)
    (hB : ∀ a b c', ud.Mem a → vd.Mem b → wd.Mem c' → R a b c' → wi.Mem c' ∧ ui.Mem a ∧ vi.Mem b) :
    Ref I (fun γ => CstSem γ c) st
      (narrow3 rc ord self i c (walk st.σ u) (walk st.σ v) (walk st.σ w) wi ui vi st) := by
  refine narrow3_sem hrc hrs ord hss hI ws f hd hnd hwi hui hvi (hasDomIf_walk ws u hud) (hasDomIf_walk ws v hvd)
    (hasDomIf_walk ws w hwd) fun γ hs hcs => ?_
  obtain ⟨a, b, c', ha, hb, hc', hr⟩ := (tri_walk ws.solved hs.1 u v w R).1 ((hc γ).1 hcs)
  have ma := (opDomain_walk_sem hI ws u hud).2.1 γ hs a ha
  have mb := (opDomain_walk_sem hI ws v hvd).2.1 γ hs b hb
  have mc := (opDomain_walk_sem hI ws w hwd).2.1 γ hs c' hc'
  obtain ⟨h1, h2, h3⟩ := hB a b c' ma mb mc hr
  exact ⟨⟨c', hc', h1⟩, ⟨a, ha, h2⟩, ⟨b, hb, h3⟩⟩

omit hrc hrs in
/-- three ground operands: the constraint is decided -/
theorem tri_ground_sem {c : Cst} {u v w : Term} {st : State} (ws : WFS st) (R : Int → Int → Int → Prop)
    [∀ a b c, Decidable (R a b c)]
    (hc : ∀ γ, CstSem γ c ↔ ∃ a b c', NumAt γ u a ∧ NumAt γ v b ∧ NumAt γ w c' ∧ R a b c')
    {a b c' : Int} (hu : walk st.σ u = Term.num a) (hv : walk st.σ v = Term.num b) (hw : walk st.σ w = Term.num c') :
    Ref I (fun γ => CstSem γ c) st (if R a b c' then .ok st else .fail) := by
  have key : ∀ γ, Sem I γ st → (CstSem γ c ↔ R a b c') := fun γ hs => by
    rw [hc γ, tri_walk ws.solved hs.1 u v w R, hu, hv, hw, tri_ground]
  split
  · rename_i h; exact Ref.entailed ws fun γ hs => (key γ hs).2 h
  · rename_i h; exact Ref.refuted fun γ hs hcs => h ((key γ hs).1 hcs)

theorem runPlusFd_sem {self : Nat → Cst → State → Res State} (hss : SelfSem self) {i : Nat}
    {u v w : Term} {st : State} (hI : IOK I st) (ws : WFS st) (f : Fr i st) :
    Ref I (fun γ => CstSem γ (.plusfd u v w)) st (runPlusFd rc ord self i u v w st) := by
  unfold runPlusFd
  simp only []
  split
  · rename_i a b c hu hv hw
    exact tri_ground_sem ws (fun a b c => a + b = c) (fun γ => Iff.rfl) hu hv hw
  · split
    · rename_i ud vd wd hud hvd hwd
      split
      · rename_i umin umax vmin vmax wmin wmax e1 e2 e3 e4 e5 e6
        obtain ⟨_, bu⟩ := bounds_of (opDomain_walk_sem hI ws u hud).1 e1 e2
        obtain ⟨_, bv⟩ := bounds_of (opDomain_walk_sem hI ws v hvd).1 e3 e4
        obtain ⟨_, bw⟩ := bounds_of (opDomain_walk_sem hI ws w hwd).1 e5 e6
        refine tri_narrow_sem hrc hrs ord hss hI ws f rfl rfl (fun a b c => a + b = c) (fun γ => Iff.rfl) hud hvd hwd
          (interval_wfi _ _) (interval_wfi _ _) (interval_wfi _ _) fun a b c ma mb mc hr => ?_
        have := plus_bounds a b c umin umax vmin vmax wmin wmax (bu a ma) (bv b mb) (bw c mc) hr
        exact ⟨this.1, this.2.1, this.2.2⟩
      · -- min/max of well-formed domains are defined: the `fd-minmax` panic site is unreachable
        rename_i hno
        obtain ⟨a1, e1, _⟩ := min_spec ud (opDomain_walk_sem hI ws u hud).1
        obtain ⟨a2, e2, _⟩ := max_spec ud (opDomain_walk_sem hI ws u hud).1
        obtain ⟨b1, e3, _⟩ := min_spec vd (opDomain_walk_sem hI ws v hvd).1
        obtain ⟨b2, e4, _⟩ := max_spec vd (opDomain_walk_sem hI ws v hvd).1
        obtain ⟨c1, e5, _⟩ := min_spec wd (opDomain_walk_sem hI ws w hwd).1
        obtain ⟨c2, e6, _⟩ := max_spec wd (opDomain_walk_sem hI ws w hwd).1
        exact (hno a1 a2 b1 b2 c1 c2 e1 e2 e3 e4 e5 e6).elim
    · exact with_sem ord ws f rfl rfl

theorem runMinusFd_sem {self : Nat → Cst → State → Res State} (hss : SelfSem self) {i : Nat}
    {u v w : Term} {st : State} (hI : IOK I st) (ws : WFS st) (f : Fr i st) :
    Ref I (fun γ => CstSem γ (.minusfd u v w)) st (runMinusFd rc ord self i u v w st) := by
  unfold runMinusFd
  simp only []
  split
  · rename_i a b c hu hv hw
    exact tri_ground_sem ws (fun a b c => a - b = c) (fun γ => Iff.rfl) hu hv hw
  · split
    · rename_i ud vd wd hud hvd hwd
      split
      · rename_i umin umax vmin vmax wmin wmax e1 e2 e3 e4 e5 e6
        obtain ⟨_, bu⟩ := bounds_of (opDomain_walk_sem hI ws u hud).1 e1 e2
        obtain ⟨_, bv⟩ := bounds_of (opDomain_walk_sem hI ws v hvd).1 e3 e4
        obtain ⟨_, bw⟩ := bounds_of (opDomain_walk_sem hI ws w hwd).1 e5 e6
        refine tri_narrow_sem hrc hrs ord hss hI ws f rfl rfl (fun a b c => a - b = c) (fun γ => Iff.rfl) hud hvd hwd
          (interval_wfi _ _) (interval_wfi _ _) (interval_wfi _ _) fun a b c ma mb mc hr => ?_
        have := minus_bounds a b c umin umax vmin vmax wmin wmax (bu a ma) (bv b mb) (bw c mc) hr
        exact ⟨this.1, this.2.1, this.2.2⟩
      · -- min/max of well-formed domains are defined: the `fd-minmax` panic site is unreachable
        rename_i hno
        obtain ⟨a1, e1, _⟩ := min_spec ud (opDomain_walk_sem hI ws u hud).1
        obtain ⟨a2, e2, _⟩ := max_spec ud (opDomain_walk_sem hI ws u hud).1
        obtain ⟨b1, e3, _⟩ := min_spec vd (opDomain_walk_sem hI ws v hvd).1
        obtain ⟨b2, e4, _⟩ := max_spec vd (opDomain_walk_sem hI ws v hvd).1
        obtain ⟨c1, e5, _⟩ := min_spec wd (opDomain_walk_sem hI ws w hwd).1
        obtain ⟨c2, e6, _⟩ := max_spec wd (opDomain_walk_sem hI ws w hwd).1
        exact (hno a1 a2 b1 b2 c1 c2 e1 e2 e3 e4 e5 e6).elim
    · exact with_sem ord ws f rfl rfl

omit hrc hrs in
theorem timesBounds_wfi (a b c d e g : Int) :
    WFI (timesBounds a b c d e g).1 ∧ WFI (timesBounds a b c d e g).2.1 ∧ WFI (timesBounds a b c d e g).2.2 := by
  simp only [timesBounds]; exact ⟨trivial, trivial, trivial⟩

theorem runTimesFd_sem {self : Nat → Cst → State → Res State} (hss : SelfSem self) {i : Nat}
    {u v w : Term} {st : State} (hI : IOK I st) (ws : WFS st) (f : Fr i st) :
    Ref I (fun γ => CstSem γ (.timesfd u v w)) st (runTimesFd rc ord self i u v w st) := by
  unfold runTimesFd
  simp only []
  split
  · rename_i a b c hu hv hw
    exact tri_ground_sem ws (fun a b c => a * b = c) (fun γ => Iff.rfl) hu hv hw
  · split
    · rename_i ud vd wd hud hvd hwd
      split
      · rename_i umin umax vmin vmax wmin wmax e1 e2 e3 e4 e5 e6
        obtain ⟨_, bu⟩ := bounds_of (opDomain_walk_sem hI ws u hud).1 e1 e2
        obtain ⟨_, bv⟩ := bounds_of (opDomain_walk_sem hI ws v hvd).1 e3 e4
        obtain ⟨_, bw⟩ := bounds_of (opDomain_walk_sem hI ws w hwd).1 e5 e6
        have hw3 := timesBounds_wfi umin umax vmin vmax wmin wmax
        refine tri_narrow_sem hrc hrs ord hss hI ws f rfl rfl (fun a b c => a * b = c) (fun γ => Iff.rfl) hud hvd hwd
          hw3.1 hw3.2.1 hw3.2.2 fun a b c ma mb mc hr => ?_
        exact timesBounds_sound a b c umin umax vmin vmax wmin wmax (bu a ma) (bv b mb) (bw c mc) hr
      · rename_i hno
        obtain ⟨a1, e1, _⟩ := min_spec ud (opDomain_walk_sem hI ws u hud).1
        obtain ⟨a2, e2, _⟩ := max_spec ud (opDomain_walk_sem hI ws u hud).1
        obtain ⟨b1, e3, _⟩ := min_spec vd (opDomain_walk_sem hI ws v hvd).1
        obtain ⟨b2, e4, _⟩ := max_spec vd (opDomain_walk_sem hI ws v hvd).1
        obtain ⟨c1, e5, _⟩ := min_spec wd (opDomain_walk_sem hI ws w hwd).1
        obtain ⟨c2, e6, _⟩ := max_spec wd (opDomain_walk_sem hI ws w hwd).1
        exact (hno a1 a2 b1 b2 c1 c2 e1 e2 e3 e4 e5 e6).elim
    · exact with_sem ord ws f rfl rfl

end WithRC
end Pv

namespace Pv
open State Term FD
variable {I : Nat → Prop} [Mode]

theorem copyBefore_none_mem (d : FD) (h : WF d) (p : Int → Bool)
    (hp : ∀ x y, p x = true → x ≤ y → p y = true) (hc : copyBefore d p = none) :
    ∀ x, d.Mem x → p x = true := by
  have hn := (copyBefore_spec d h p).2.1 hc
  intro x hx
  cases hpx : p x with
  | true => rfl
  | false =>
    exfalso
    have : x ∈ d.iter.takeWhile (fun u => !p u) := by
      rw [mem_takeWhile_dc (fun u => !p u) ?_ _ (iter_pw d h)]
      · exact ⟨(iter_mem d h x).2 hx, by simp [hpx]⟩
      · intro a b hb hab
        cases hpa : p a with
        | false => rfl
        | true => have := hp a b hpa hab; simp [this] at hb
    rw [hn] at this; cases this

theorem dropBefore_none_mem (d : FD) (h : WF d) (p : Int → Bool)
    (hp : ∀ x y, p x = true → x ≤ y → p y = true) (hc : dropBefore d p = none) :
    ∀ x, d.Mem x → p x = false := by
  have hn := (dropBefore_spec d h p).2.1 hc
  intro x hx
  cases hpx : p x with
  | false => rfl
  | true =>
    exfalso
    have : x ∈ d.iter.dropWhile (fun u => !p u) := by
      rw [mem_dropWhile_dc (fun u => !p u) ?_ _ (iter_pw d h)]
      · exact ⟨(iter_mem d h x).2 hx, by simp [hpx]⟩
      · intro a b hb hab
        cases hpa : p a with
        | false => rfl
        | true => have := hp a b hpa hab; simp [this] at hb
    rw [hn] at this; cases this

/-- the domain `ltefd` reads for an operand: only a variable's stored domain -/
theorem varDom_some {st : State} {t : Term} {d : FD}
    (h : (match t with | .var x => st.dget x | _ => none) = some d) : ∃ x, t = .var x ∧ st.dget x = some d := by
  cases t with
  | var x => exact ⟨x, rfl, h⟩
  | _ => cases h

theorem two_walk {σ γ : Subst} (hs : Solved σ) (hx : Ext σ γ) (u v : Term) (R : Int → Int → Prop) :
    (∃ a b, NumAt γ u a ∧ NumAt γ v b ∧ R a b) ↔
    (∃ a b, NumAt γ (walk σ u) a ∧ NumAt γ (walk σ v) b ∧ R a b) := by
  simp only [numAt_walk hs hx]

section WithRC
variable {rc : State → Res State} (hrc : RcOK rc) (hrs : RcSem rc) (ord : Order)
include hrc hrs

theorem runLteFd_sem {self : Nat → Cst → State → Res State} (hss : SelfSem self) {i : Nat}
    {u v : Term} {st : State} (hI : IOK I st) (ws : WFS st) (f : Fr i st) :
    Ref I (fun γ => CstSem γ (.ltefd u v)) st (runLteFd rc ord self i u v st) := by
  unfold runLteFd
  simp only []
  have hsem : ∀ γ, Sem I γ st → (CstSem γ (.ltefd u v) ↔
      ∃ a b, NumAt γ (walk st.σ u) a ∧ NumAt γ (walk st.σ v) b ∧ a ≤ b) := fun γ hs =>
    two_walk ws.solved hs.1 u v (fun a b => a ≤ b)
  split
  · -- both operands are variables with domains
    rename_i udom vdom hu hv
    obtain ⟨x, hux, hxd⟩ := varDom_some hu
    obtain ⟨y, hvy, hyd⟩ := varDom_some hv
    have hwu : WF udom := ws.dwf _ (dget_mem hxd)
    have hwv : WF vdom := ws.dwf _ (dget_mem hyd)
    have hou : opDomain st (walk st.σ u) = some udom := by rw [hux]; exact hxd
    have hov : opDomain st (walk st.σ v) = some vdom := by rw [hvy]; exact hyd
    split
    · rename_i vmax umin e1 e2
      obtain ⟨M, em, _, hmax⟩ := max_spec vdom hwv
      obtain ⟨m, en, _, hmin⟩ := min_spec udom hwu
      rw [e1] at em; rw [e2] at en; cases em; cases en
      -- what the constraint entails about the operands
      have hent : ∀ γ, Sem I γ st → CstSem γ (.ltefd u v) →
          ∃ a b, NumAt γ (walk st.σ u) a ∧ NumAt γ (walk st.σ v) b ∧ a ≤ b ∧ udom.Mem a ∧ vdom.Mem b := by
        intro γ hs hc
        obtain ⟨a, b, ha, hb, hab⟩ := (hsem γ hs).1 hc
        exact ⟨a, b, ha, hb, hab, (opDomain_walk_sem hI ws u hou).2.1 γ hs a ha, (opDomain_walk_sem hI ws v hov).2.1 γ hs b hb⟩
      have mono1 : ∀ x y : Int, decide (vmax < x) = true → x ≤ y → decide (vmax < y) = true := by
        intro x y h1 h2; simp only [decide_eq_true_eq] at h1 ⊢; omega
      have mono2 : ∀ x y : Int, decide (umin ≤ x) = true → x ≤ y → decide (umin ≤ y) = true := by
        intro x y h1 h2; simp only [decide_eq_true_eq] at h1 ⊢; omega
      split
      · rename_i hcb
        refine Ref.refuted fun γ hs hc => ?_
        obtain ⟨a, b, _, _, hab, ma, mb⟩ := hent γ hs hc
        have := copyBefore_none_mem udom hwu _ mono1 hcb a ma
        simp only [decide_eq_true_eq] at this
        have := hmax b mb
        omega
      · rename_i ud' hcb
        have hud' := (copyBefore_spec udom hwu _).1 ud' hcb
        have mud' := copyBefore_mono udom ud' hwu _ mono1 hcb
        refine Ref.congr (S := fun γ => InDom (walk st.σ u) ud' γ ∧ CstSem γ (.ltefd u v)) ?_
          fun γ hs => ⟨fun a => a.2, fun a => ⟨?_, a⟩⟩
        · refine Ref.bind' (processDomain_sem hrs hI ws f.1 (WFI.of_wf hud'.1) (.inl hud'.1)) fun s1 e1 w1 k1 hs1 => ?_
          have f1 : Fr i s1 := f.step (processDomain_step hrc f.1 e1)
          have hI1 := hI.keep k1
          split
          · rename_i hdb
            refine Ref.refuted fun γ hs hc => ?_
            obtain ⟨a, b, _, _, hab, ma, mb⟩ := hent γ ((hs1 γ).1 hs).1 hc
            have := dropBefore_none_mem vdom hwv _ mono2 hdb b mb
            simp only [decide_eq_false_iff_not] at this
            have := hmin a ma
            omega
          · rename_i vd' hdb
            have hvd' := (dropBefore_spec vdom hwv _).1 vd' hdb
            have mvd' := dropBefore_mono vdom vd' hwv _ mono2 hdb
            refine Ref.congr (S := fun γ => InDom (walk st.σ v) vd' γ ∧ CstSem γ (.ltefd u v)) ?_
              fun γ hs => ⟨fun a => a.2, fun a => ⟨?_, a⟩⟩
            · refine Ref.bind' (processDomain_sem hrs hI1 w1 f1.1 (WFI.of_wf hvd'.1) (.inl hvd'.1)) fun s2 e2 w2 k2 _ => ?_
              have f2 : Fr i s2 := f1.step (processDomain_step hrc f1.1 e2)
              exact tail_sem hrc hrs ord hss (hI1.keep k2) w2 f2 rfl rfl
            · obtain ⟨a', b, _, hb, hab, ma, mb⟩ := hent γ ((hs1 γ).1 hs).1 a
              refine ⟨b, hb, (mvd' b).2 ⟨mb, ?_⟩⟩
              have := hmin a' ma
              simp only [decide_eq_true_eq]; omega
        · obtain ⟨a', b, ha, _, hab, ma, mb⟩ := hent γ hs a
          refine ⟨a', ha, (mud' a').2 ⟨ma, ?_⟩⟩
          have := hmax b mb
          simp only [decide_eq_false_iff_not]; omega
    · rename_i hno
      obtain ⟨M, em, _⟩ := max_spec vdom hwv
      obtain ⟨m, en, _⟩ := min_spec udom hwu
      exact (hno M m em en).elim
  · -- u has a domain, v has none
    rename_i udom hu hv
    obtain ⟨x, hux, hxd⟩ := varDom_some hu
    have hwu : WF udom := ws.dwf _ (dget_mem hxd)
    have hou : opDomain st (walk st.σ u) = some udom := by rw [hux]; exact hxd
    split
    · rename_i b hvb
      have mono1 : ∀ x y : Int, decide (b < x) = true → x ≤ y → decide (b < y) = true := by
        intro x y h1 h2; simp only [decide_eq_true_eq] at h1 ⊢; omega
      have key : ∀ γ, Sem I γ st → (CstSem γ (.ltefd u v) ↔ ∃ a, NumAt γ (walk st.σ u) a ∧ udom.Mem a ∧ a ≤ b) := by
        intro γ hs
        rw [hsem γ hs, hvb]
        constructor
        · rintro ⟨a, b', ha, hb, hab⟩
          have : b = b' := (numAt_num γ b b').1 hb
          subst this
          exact ⟨a, ha, (opDomain_walk_sem hI ws u hou).2.1 γ hs a ha, hab⟩
        · rintro ⟨a, ha, _, hab⟩
          exact ⟨a, b, ha, (numAt_num γ b b).2 rfl, hab⟩
      split
      · rename_i hcb
        refine Ref.refuted fun γ hs hc => ?_
        obtain ⟨a, _, ma, hab⟩ := (key γ hs).1 hc
        have := copyBefore_none_mem udom hwu _ mono1 hcb a ma
        simp only [decide_eq_true_eq] at this
        omega
      · rename_i ud' hcb
        have hud' := (copyBefore_spec udom hwu _).1 ud' hcb
        have mud' := copyBefore_mono udom ud' hwu _ mono1 hcb
        refine (processDomain_sem hrs hI ws f.1 (WFI.of_wf hud'.1) (.inl hud'.1)).congr fun γ hs => ?_
        rw [key γ hs]
        unfold InDom
        constructor
        · rintro ⟨a, ha, ma⟩
          have := (mud' a).1 ma
          exact ⟨a, ha, this.1, by have := this.2; simp only [decide_eq_false_iff_not] at this; omega⟩
        · rintro ⟨a, ha, ma, hab⟩
          exact ⟨a, ha, (mud' a).2 ⟨ma, by simp only [decide_eq_false_iff_not]; omega⟩⟩
    · exact with_sem ord ws f rfl rfl
  · -- v has a domain, u has none
    rename_i vdom hu hv
    obtain ⟨y, hvy, hyd⟩ := varDom_some hv
    have hwv : WF vdom := ws.dwf _ (dget_mem hyd)
    have hov : opDomain st (walk st.σ v) = some vdom := by rw [hvy]; exact hyd
    split
    · rename_i a hua
      have mono2 : ∀ x y : Int, decide (a ≤ x) = true → x ≤ y → decide (a ≤ y) = true := by
        intro x y h1 h2; simp only [decide_eq_true_eq] at h1 ⊢; omega
      have key : ∀ γ, Sem I γ st → (CstSem γ (.ltefd u v) ↔ ∃ b, NumAt γ (walk st.σ v) b ∧ vdom.Mem b ∧ a ≤ b) := by
        intro γ hs
        rw [hsem γ hs, hua]
        constructor
        · rintro ⟨a', b, ha, hb, hab⟩
          have : a = a' := (numAt_num γ a a').1 ha
          subst this
          exact ⟨b, hb, (opDomain_walk_sem hI ws v hov).2.1 γ hs b hb, hab⟩
        · rintro ⟨b, hb, _, hab⟩
          exact ⟨a, b, (numAt_num γ a a).2 rfl, hb, hab⟩
      split
      · rename_i hdb
        refine Ref.refuted fun γ hs hc => ?_
        obtain ⟨b, _, mb, hab⟩ := (key γ hs).1 hc
        have := dropBefore_none_mem vdom hwv _ mono2 hdb b mb
        simp only [decide_eq_false_iff_not] at this
        omega
      · rename_i vd' hdb
        have hvd' := (dropBefore_spec vdom hwv _).1 vd' hdb
        have mvd' := dropBefore_mono vdom vd' hwv _ mono2 hdb
        refine (processDomain_sem hrs hI ws f.1 (WFI.of_wf hvd'.1) (.inl hvd'.1)).congr fun γ hs => ?_
        rw [key γ hs]
        unfold InDom
        constructor
        · rintro ⟨b, hb, mb⟩
          have := (mvd' b).1 mb
          exact ⟨b, hb, this.1, by have := this.2; simp only [decide_eq_true_eq] at this; omega⟩
        · rintro ⟨b, hb, mb, hab⟩
          exact ⟨b, hb, (mvd' b).2 ⟨mb, by simp only [decide_eq_true_eq]; omega⟩⟩
    · exact with_sem ord ws f rfl rfl
  · -- neither has a domain
    split
    · rename_i a b hua hvb
      have key : ∀ γ, Sem I γ st → (CstSem γ (.ltefd u v) ↔ a ≤ b) := fun γ hs => by
        rw [hsem γ hs, hua, hvb]
        simp only [numAt_val]
        constructor
        · rintro ⟨_, _, rfl, rfl, h⟩; exact h
        · intro h; exact ⟨a, b, rfl, rfl, h⟩
      split
      · rename_i h; exact Ref.entailed ws fun γ hs => (key γ hs).2 h
      · rename_i h; exact Ref.refuted fun γ hs hc => h ((key γ hs).1 hc)
    · exact with_sem ord ws f rfl rfl

end WithRC
end Pv

namespace Pv
open State Term FD
variable {I : Nat → Prop} [Mode]

theorem numAt_shape {γ : Subst} {t : Term} {n : Int} (h : NumAt γ t n) :
    (∃ x, t = .var x) ∨ t = .val (.num n) := by
  unfold NumAt at h
  cases t with
  | var x => exact .inl ⟨x, rfl⟩
  | val c =>
    cases c <;> simp_all [apply, Term.num]
  | _ => simp_all [apply, Term.num]

section WithRC
variable {rc : State → Res State} (hrc : RcOK rc) (hrs : RcSem rc) (ord : Order)
include hrs

/-- CLP(Z): a variable operand is bound to the computed number, then the store is re-run -/
theorem bindNum_sem {st : State} (hI : IOK I st) (ws : WFS st) (hi : Inv st) {z : Nat} (hz : st.σ z = .var z) (n : Int) :
    Ref I (fun γ => NumAt γ (.var z) n) st (rc { st with σ := bindS z (Term.num n) st.σ }) := by
  generalize hst0 : ({ st with σ := bindS z (Term.num n) st.σ } : State) = st0
  have hσ0 : st0.σ = bindS z (Term.num n) st.σ := by subst hst0; rfl
  have hs0 : st0.store = st.store := by subst hst0; rfl
  have hd0 : st0.dstore = st.dstore := by subst hst0; rfl
  have hbo := bind_ok (t := Term.num n) ws.solved hz (by simp [Term.num, apply]) (by simp [Term.num, occurs])
  have w0 : WFS st0 := ⟨by rw [hσ0]; exact hbo.1, by rw [hd0]; exact ws.dnodup, by rw [hd0]; exact ws.dwf,
    by rw [hs0]; exact ws.nodist⟩
  have i0 : Inv st0 := by subst hst0; exact SameStore.inv ⟨rfl, rfl, rfl, rfl, rfl⟩ hi
  have k0 : Keeps st st0 := by
    refine ⟨by rw [hσ0]; exact hbo.2.1, fun y hy => ?_, fun y _ _ hh => by unfold dget at *; rw [hd0]; exact hh,
      fun y hy => by rw [hσ0] at hy; exact bindS_bound ws.solved y hy,
      fun y hh => .inl (by unfold dget at *; rw [hd0] at hh; exact hh), fun y _ => by unfold dget; rw [hd0],
      fun y d _ hh => .inl ⟨d, by unfold dget at *; rw [hd0]; exact hh, fun _ h => h⟩⟩
    rw [hσ0]
    by_cases hyz : y = z
    · subst hyz; exact .inr ⟨n, by simp [bindS, hy, apply, sub1]⟩
    · exact .inl (by simp [bindS, hy, apply, sub1, hyz])
  have h0 : ∀ γ, Sem I γ st0 ↔ (Sem I γ st ∧ NumAt γ (.var z) n) := by
    intro γ
    unfold Sem DomSem
    rw [hσ0, hs0, hd0]
    constructor
    · rintro ⟨e, c, dm⟩
      have e' : Ext st.σ γ := Ext.trans hbo.2.1 e
      have hzn : NumAt γ (.var z) n := by
        have := (bind_ext_iff (t := Term.num n) hz e').1 e (z, Term.num n) (by simp)
        simpa [NumAt, apply, Term.num] using this
      exact ⟨⟨e', c, dm⟩, hzn⟩
    · rintro ⟨⟨e, c, dm⟩, hm⟩
      exact ⟨ext_bind e (by simpa [NumAt, apply, Term.num] using hm), c, dm⟩
  exact (Ref.pre k0 h0 (hrs I st0 (hI.keep k0) w0 i0)).congr fun γ _ => ⟨fun a => a.1, fun a => ⟨a, trivial⟩⟩

theorem runPlusZ_sem {i : Nat} {u v w : Term} {st : State} (hI : IOK I st) (ws : WFS st) (f : Fr i st) :
    Ref I (fun γ => CstSem γ (.plusz u v w)) st (runPlusZ rc ord i u v w st) := by
  unfold runPlusZ
  have hsem : ∀ γ, Sem I γ st → (CstSem γ (.plusz u v w) ↔
      ∃ a b c, NumAt γ (walk st.σ u) a ∧ NumAt γ (walk st.σ v) b ∧ NumAt γ (walk st.σ w) c ∧ a + b = c) :=
    fun γ hs => tri_walk ws.solved hs.1 u v w (fun a b c => a + b = c)
  split
  · rename_i a b c hu hv hw
    have key : ∀ γ, Sem I γ st → (CstSem γ (.plusz u v w) ↔ a + b = c) := fun γ hs => by
      rw [hsem γ hs, hu, hv, hw]; exact tri_ground (fun a b c => a + b = c)
    split
    · rename_i h; exact Ref.entailed ws fun γ hs => (key γ hs).2 h
    · rename_i h; exact Ref.refuted fun γ hs hc => h ((key γ hs).1 hc)
  · rename_i a b z hu hv hw
    refine (bindNum_sem hrs hI ws f.1 (walk_normal ws.solved w z hw) (a + b)).congr fun γ hs => ?_
    rw [hsem γ hs, hu, hv, hw]
    simp only [numAt_val]
    constructor
    · intro h; exact ⟨a, b, a + b, rfl, rfl, h, rfl⟩
    · rintro ⟨_, _, _, rfl, rfl, h, rfl⟩; exact h
  · rename_i a y c hu hv hw
    refine (bindNum_sem hrs hI ws f.1 (walk_normal ws.solved v y hv) (c - a)).congr fun γ hs => ?_
    rw [hsem γ hs, hu, hv, hw]
    simp only [numAt_val]
    constructor
    · intro h; exact ⟨a, c - a, c, rfl, h, rfl, by omega⟩
    · rintro ⟨_, b, _, rfl, h, rfl, e⟩
      have : b = c - a := by omega
      rw [← this]; exact h
  · rename_i x b c hu hv hw
    refine (bindNum_sem hrs hI ws f.1 (walk_normal ws.solved u x hu) (c - b)).congr fun γ hs => ?_
    rw [hsem γ hs, hu, hv, hw]
    simp only [numAt_val]
    constructor
    · intro h; exact ⟨c - b, b, c, h, rfl, rfl, by omega⟩
    · rintro ⟨a, _, _, h, rfl, rfl, e⟩
      have : a = c - b := by omega
      rw [← this]; exact h
  · exact with_sem ord ws f rfl rfl
  · exact with_sem ord ws f rfl rfl
  · exact with_sem ord ws f rfl rfl
  · exact with_sem ord ws f rfl rfl
  · -- some operand is neither a variable nor a number
    refine Ref.refuted fun γ hs hc => ?_
    obtain ⟨a, b, c, ha, hb, hc', _⟩ := (hsem γ hs).1 hc
    rcases numAt_shape ha with ⟨x, hx⟩ | hx <;> rcases numAt_shape hb with ⟨y, hy⟩ | hy <;>
      rcases numAt_shape hc' with ⟨z, hz⟩ | hz <;> simp_all

end WithRC
end Pv

namespace Pv
open State Term FD
variable {I : Nat → Prop} [Mode]

theorem mul_eq_iff_tdiv {a b c : Int} (ha : a ≠ 0) (hm : c.tmod a = 0) : a * b = c ↔ b = c.tdiv a := by
  constructor
  · intro h; rw [← h, Int.mul_tdiv_cancel_left b ha]
  · intro h; rw [h]; exact Int.mul_tdiv_cancel' (Int.dvd_of_tmod_eq_zero hm)

section WithRC
variable {rc : State → Res State} (hrs : RcSem rc) (ord : Order)
include hrs

theorem runTimesZ_sem {i : Nat} {u v w : Term} {st : State} (hI : IOK I st) (ws : WFS st) (f : Fr i st) :
    Ref I (fun γ => CstSem γ (.timesz u v w)) st (runTimesZ rc ord i u v w st) := by
  unfold runTimesZ
  have hsem : ∀ γ, Sem I γ st → (CstSem γ (.timesz u v w) ↔
      ∃ a b c, NumAt γ (walk st.σ u) a ∧ NumAt γ (walk st.σ v) b ∧ NumAt γ (walk st.σ w) c ∧ a * b = c) :=
    fun γ hs => tri_walk ws.solved hs.1 u v w (fun a b c => a * b = c)
  split
  · rename_i a b c hu hv hw
    have key : ∀ γ, Sem I γ st → (CstSem γ (.timesz u v w) ↔ a * b = c) := fun γ hs => by
      rw [hsem γ hs, hu, hv, hw]; exact tri_ground (fun a b c => a * b = c)
    split
    · rename_i h; exact Ref.entailed ws fun γ hs => (key γ hs).2 h
    · rename_i h; exact Ref.refuted fun γ hs hc => h ((key γ hs).1 hc)
  · rename_i a b z hu hv hw
    refine (bindNum_sem hrs hI ws f.1 (walk_normal ws.solved w z hw) (a * b)).congr fun γ hs => ?_
    rw [hsem γ hs, hu, hv, hw]
    simp only [numAt_val]
    constructor
    · intro h; exact ⟨a, b, a * b, rfl, rfl, h, rfl⟩
    · rintro ⟨_, _, _, rfl, rfl, h, rfl⟩; exact h
  · rename_i a y c hu hv hw
    have key : ∀ γ, Sem I γ st → (CstSem γ (.timesz u v w) ↔ ∃ b, NumAt γ (.var y) b ∧ a * b = c) := fun γ hs => by
      rw [hsem γ hs, hu, hv, hw]
      simp only [numAt_val]
      constructor
      · rintro ⟨_, b, _, rfl, h, rfl, e⟩; exact ⟨b, h, e⟩
      · rintro ⟨b, h, e⟩; exact ⟨a, b, c, rfl, h, rfl, e⟩
    split
    · rename_i ha
      split
      · exact with_sem ord ws f rfl rfl
      · rename_i hc0
        refine Ref.refuted fun γ hs hc => ?_
        obtain ⟨b, _, e⟩ := (key γ hs).1 hc
        rw [ha, Int.zero_mul] at e
        exact hc0 e.symm
    · rename_i ha
      split
      · rename_i hm
        refine Ref.refuted fun γ hs hc => ?_
        obtain ⟨b, _, e⟩ := (key γ hs).1 hc
        rw [← e, Int.mul_tmod_right] at hm
        exact hm rfl
      · rename_i hm
        have hm' : c.tmod a = 0 := by simpa using hm
        refine (bindNum_sem hrs hI ws f.1 (walk_normal ws.solved v y hv) (c.tdiv a)).congr fun γ hs => ?_
        rw [key γ hs]
        constructor
        · intro h; exact ⟨c.tdiv a, h, (mul_eq_iff_tdiv ha hm').2 rfl⟩
        · rintro ⟨b, h, e⟩; rw [← (mul_eq_iff_tdiv ha hm').1 e]; exact h
  · rename_i x b c hu hv hw
    have key : ∀ γ, Sem I γ st → (CstSem γ (.timesz u v w) ↔ ∃ a, NumAt γ (.var x) a ∧ b * a = c) := fun γ hs => by
      rw [hsem γ hs, hu, hv, hw]
      simp only [numAt_val]
      constructor
      · rintro ⟨a, _, _, h, rfl, rfl, e⟩; exact ⟨a, h, by rw [Int.mul_comm]; exact e⟩
      · rintro ⟨a, h, e⟩; exact ⟨a, b, c, h, rfl, rfl, by rw [Int.mul_comm]; exact e⟩
    split
    · rename_i hb
      split
      · exact with_sem ord ws f rfl rfl
      · rename_i hc0
        refine Ref.refuted fun γ hs hc => ?_
        obtain ⟨a, _, e⟩ := (key γ hs).1 hc
        rw [hb, Int.zero_mul] at e
        exact hc0 e.symm
    · rename_i hb
      split
      · rename_i hm
        refine Ref.refuted fun γ hs hc => ?_
        obtain ⟨a, _, e⟩ := (key γ hs).1 hc
        rw [← e, Int.mul_tmod_right] at hm
        exact hm rfl
      · rename_i hm
        have hm' : c.tmod b = 0 := by simpa using hm
        refine (bindNum_sem hrs hI ws f.1 (walk_normal ws.solved u x hu) (c.tdiv b)).congr fun γ hs => ?_
        rw [key γ hs]
        constructor
        · intro h; exact ⟨c.tdiv b, h, (mul_eq_iff_tdiv hb hm').2 rfl⟩
        · rintro ⟨a, h, e⟩; rw [← (mul_eq_iff_tdiv hb hm').1 e]; exact h
  · exact with_sem ord ws f rfl rfl
  · exact with_sem ord ws f rfl rfl
  · exact with_sem ord ws f rfl rfl
  · exact with_sem ord ws f rfl rfl
  · refine Ref.refuted fun γ hs hc => ?_
    obtain ⟨a, b, c, ha, hb, hc', _⟩ := (hsem γ hs).1 hc
    rcases numAt_shape ha with ⟨x, hx⟩ | hx <;> rcases numAt_shape hb with ⟨y, hy⟩ | hy <;>
      rcases numAt_shape hc' with ⟨z, hz⟩ | hz <;> simp_all

end WithRC
end Pv

namespace Pv
open State Term FD
variable {I : Nat → Prop} [Mode]

section WithRC
variable {rc : State → Res State} (hrc : RcOK rc) (hrs : RcSem rc) (ord : Order)
include hrc hrs

theorem runDiseqFd_sem {i : Nat} {u v : Term} {st : State} (hI : IOK I st) (ws : WFS st) (f : Fr i st) :
    Ref I (fun γ => CstSem γ (.diseqfd u v)) st (runDiseqFd rc ord i u v st) := by
  unfold runDiseqFd
  simp only []
  have hsem : ∀ γ, Sem I γ st → (CstSem γ (.diseqfd u v) ↔
      ∃ a b, NumAt γ (walk st.σ u) a ∧ NumAt γ (walk st.σ v) b ∧ a ≠ b) := fun γ hs =>
    two_walk ws.solved hs.1 u v (fun a b => a ≠ b)
  split
  · rename_i ud vd hud hvd
    obtain ⟨hwu, hmu, _⟩ := opDomain_walk_sem hI ws u hud
    obtain ⟨hwv, hmv, _⟩ := opDomain_walk_sem hI ws v hvd
    -- the operands denote members of their domains
    have hent : ∀ γ, Sem I γ st → CstSem γ (.diseqfd u v) →
        ∃ a b, NumAt γ (walk st.σ u) a ∧ NumAt γ (walk st.σ v) b ∧ a ≠ b ∧ ud.Mem a ∧ vd.Mem b := by
      intro γ hs hc
      obtain ⟨a, b, ha, hb, hab⟩ := (hsem γ hs).1 hc
      exact ⟨a, b, ha, hb, hab, hmu γ hs a ha, hmv γ hs b hb⟩
    split
    · rename_i hsing
      simp only [Bool.and_eq_true] at hsing
      obtain ⟨p, hp, hpu⟩ := (isSingleton_spec ud hwu).1 hsing.1
      obtain ⟨q, hq, hqu⟩ := (isSingleton_spec vd hwv).1 hsing.2
      obtain ⟨m1, e1, hm1, _⟩ := min_spec ud hwu
      obtain ⟨m2, e2, hm2, _⟩ := min_spec vd hwv
      have hm1p : m1 = p := hpu m1 hm1
      have hm2q : m2 = q := hqu m2 hm2
      split
      · rename_i heq
        rw [e1, e2] at heq
        have : m1 = m2 := by simpa using heq
        refine Ref.refuted fun γ hs hc => ?_
        obtain ⟨a, b, _, _, hab, ma, mb⟩ := hent γ hs hc
        exact hab (by rw [hpu a ma, hqu b mb, ← hm1p, ← hm2q, this])
      · rename_i hne
        rw [e1, e2] at hne
        have hne' : m1 ≠ m2 := by simpa using hne
        -- entailed only for valuations under which both operands are numbers: they are, by the domains
        refine Ref.entailed ws fun γ hs => ?_
        rw [hsem γ hs]
        -- both operands have domains, hence denote numbers
        have hnu := opDomain_walk_num hI ws u hud hs
        have hnv := opDomain_walk_num hI ws v hvd hs
        obtain ⟨a, ha, ma⟩ := hnu
        obtain ⟨b, hb, mb⟩ := hnv
        exact ⟨a, b, ha, hb, by rw [hpu a ma, hqu b mb, ← hm1p, ← hm2q]; exact hne'⟩
    · split
      · rename_i hdis
        obtain ⟨r, er, _⟩ := isDisjoint_spec ud vd hwu hwv
        rw [hdis] at er; cases er
      · rename_i hdis
        obtain ⟨r, er, hr⟩ := isDisjoint_spec ud vd hwu hwv
        rw [hdis] at er; cases er
        have hdj := hr.1 rfl
        refine Ref.entailed ws fun γ hs => ?_
        rw [hsem γ hs]
        have hnu := opDomain_walk_num hI ws u hud hs
        have hnv := opDomain_walk_num hI ws v hvd hs
        obtain ⟨a, ha, ma⟩ := hnu
        obtain ⟨b, hb, mb⟩ := hnv
        exact ⟨a, b, ha, hb, fun e => hdj a ⟨ma, e ▸ mb⟩⟩
      · -- the constraint is stored, then a singleton side is removed from the other domain
        have hw1 := with_sem (I := I) ord ws f (c := .diseqfd u v) rfl rfl
        have st1inv := (with_step ord st i (.diseqfd u v) f.1 f.2.1 f.2.2).inv
        obtain ⟨w1, k1, s1⟩ := hw1
        split
        · rename_i hsu
          obtain ⟨p, hp, hpu⟩ := (isSingleton_spec ud hwu).1 hsu
          split
          · rename_i d hdiff
            obtain ⟨hwd, hmd⟩ := diff_some vd ud d hwv hwu hdiff
            refine Ref.congr (S := fun γ => CstSem γ (.diseqfd u v) ∧ InDom (walk st.σ v) d γ) ?_
              fun γ hs => ⟨fun a => a.1, fun a => ⟨a, ?_⟩⟩
            · exact Ref.bind (f := fun s => processDomain rc s (walk st.σ v) d) (r := .ok _) ⟨w1, k1, s1⟩
                fun s e => by cases e; exact processDomain_sem hrs (hI.keep k1) w1 st1inv (WFI.of_wf hwd) (.inl hwd)
            · obtain ⟨a', b, _, hb, hab, ma, mb⟩ := hent γ hs a
              exact ⟨b, hb, (hmd b).2 ⟨mb, fun h => hab (by rw [hpu a' ma, hpu b h])⟩⟩
          · rename_i hdiff
            have hsub := diff_none vd ud hwv hwu hdiff
            refine Ref.refuted fun γ hs hc => ?_
            obtain ⟨a, b, _, _, hab, ma, mb⟩ := hent γ hs hc
            exact hab (by rw [hpu a ma, hpu b (hsub b mb)])
        · split
          · rename_i hsv
            obtain ⟨q, hq, hqu⟩ := (isSingleton_spec vd hwv).1 hsv
            split
            · rename_i d hdiff
              obtain ⟨hwd, hmd⟩ := diff_some ud vd d hwu hwv hdiff
              refine Ref.congr (S := fun γ => CstSem γ (.diseqfd u v) ∧ InDom (walk st.σ u) d γ) ?_
                fun γ hs => ⟨fun a => a.1, fun a => ⟨a, ?_⟩⟩
              · exact Ref.bind (f := fun s => processDomain rc s (walk st.σ u) d) (r := .ok _) ⟨w1, k1, s1⟩
                  fun s e => by cases e; exact processDomain_sem hrs (hI.keep k1) w1 st1inv (WFI.of_wf hwd) (.inl hwd)
              · obtain ⟨a', b, ha, _, hab, ma, mb⟩ := hent γ hs a
                exact ⟨a', ha, (hmd a').2 ⟨ma, fun h => hab (by rw [hqu a' h, hqu b mb])⟩⟩
            · rename_i hdiff
              have hsub := diff_none ud vd hwu hwv hdiff
              refine Ref.refuted fun γ hs hc => ?_
              obtain ⟨a, b, _, _, hab, ma, mb⟩ := hent γ hs hc
              exact hab (by rw [hqu a (hsub a ma), hqu b mb])
          · exact ⟨w1, k1, s1⟩
  · exact with_sem ord ws f rfl rfl

end WithRC
end Pv

namespace Pv
open State Term FD
variable {I : Nat → Prop} [Mode]

/-- a fold of binds in which every step keeps the described valuations keeps them as a whole -/
theorem fold_ref {α : Type} (f : State → α → Res State)
    (hf : ∀ cur a, IOK I cur → WFS cur → Inv cur →
      Ref I (fun _ => True) cur (f cur a) ∧ ∀ cur', f cur a = .ok cur' → Inv cur') :
    ∀ (l : List α) (st : State), IOK I st → WFS st → Inv st →
      Ref I (fun _ => True) st (l.foldl (fun (r : Res State) a => r.bind fun st => f st a) (.ok st))
  | [], st, _, w, _ => Ref.entailed w fun _ _ => trivial
  | a :: l, st, hI, w, hi => by
    simp only [List.foldl_cons]
    have hb0 : ((Res.ok st).bind fun st => f st a) = f st a := rfl
    rw [hb0]
    obtain ⟨h1, h2⟩ := hf st a hI w hi
    cases hfa : f st a with
    | ok s1 =>
      rw [hfa] at h1
      have ih := fold_ref f hf l s1 (hI.keep h1.2.1) h1.1 (h2 s1 hfa)
      have := Ref.bind (f := fun _ => l.foldl (fun (r : Res State) a => r.bind fun st => f st a) (.ok s1))
        (r := .ok s1) h1 (fun s e => by cases e; exact ih)
      exact this.congr fun γ _ => ⟨fun _ => trivial, fun _ => ⟨trivial, trivial⟩⟩
    | fail =>
      rw [hfa] at h1
      rw [foldl_bind_fail]
      exact h1
    | fuel => rw [foldl_bind_fuel]; trivial
    | panic s =>
      rw [hfa] at h1
      rw [foldl_bind_panic]
      exact h1

end Pv
