/-
  `enforce_constraints_fd`, second half: `onceo { force_ans(keys of the domain store) }`.  On the textbook semantics,
  labelling the list of ALL variables with a domain delivers only states that are reached by labelling equalities and in
  which every such variable is BOUND (`keys_labelled`) — so, by Proofs/Labelled.lean, CLOSED states: empty domain store,
  no propagator, a solution.  Together with the partition theorem of Proofs/Label.lean: the labelling of the keys has an
  answer exactly when the state has a solution, and every answer is one (`keys_labelling_decides`).
-/
import PvModel.Proofs.Labelled
import PvModel.Proofs.Label
import PvModel.Proofs.TreeOrder
namespace Pv
open State Term Goal FD
attribute [local instance] Mode.strict

/-- the invariants of a state labelling starts from (all hold of every state reached by posting atoms) -/
structure LInv (s : State) : Prop where
  w : WFS s
  i : Inv s
  z : NoZ s
  dk : DK s
  live : Live s

/-- `t` is reached from `s` by labelling equalities -/
def Reach (ord : Order) (s t : State) : Prop := ∃ ls, postAllF ord s (labelAtoms ls) = .ok t

theorem Reach.refl (ord : Order) (s : State) : Reach ord s s := ⟨[], rfl⟩

theorem Reach.trans {ord : Order} {a b c : State} (h1 : Reach ord a b) (h2 : Reach ord b c) : Reach ord a c := by
  obtain ⟨l1, e1⟩ := h1
  obtain ⟨l2, e2⟩ := h2
  refine ⟨l1 ++ l2, ?_⟩
  unfold labelAtoms at *
  rw [List.map_append, postAllF_append', e1]
  exact e2

theorem KN.bound_mono {a b : State} (hs : Solved a.σ) (k : KN a b) {y : Nat} (h : a.σ y ≠ .var y) : b.σ y ≠ .var y := by
  intro e
  have hx := k.ext (.var y)
  simp only [apply, e] at hx
  cases hc : a.σ y with
  | var z =>
    rw [hc] at hx
    simp only [apply] at hx
    have hz : z ≠ y := fun ez => h (by rw [hc, ez])
    have hzu : a.σ z = .var z := by
      have := hs y; rw [hc] at this; simpa [apply] using this
    rcases k.numonly z hzu with e3 | ⟨n, e3⟩
    · rw [e3] at hx; cases hx; exact hz rfl
    · rw [e3] at hx; simp [Term.num] at hx
  | val a => rw [hc] at hx; simp [apply] at hx
  | nil => rw [hc] at hx; simp [apply] at hx
  | cons a b => rw [hc] at hx; simp [apply] at hx
  | comp g a => rw [hc] at hx; simp [apply] at hx

theorem KN.num_fix {a b : State} (k : KN a b) {y : Nat} {n : Int} (e : a.σ y = Term.num n) : b.σ y = Term.num n := by
  have := k.ext (.var y)
  simp only [apply, e] at this
  simpa [Term.num, apply] using this.symm

section
variable {ord : Order} (ho : OrderOK ord) (dfs : Call → State → State × G)
include ho

theorem reach_inv {s t : State} (h : LInv s) (r : Reach ord s t) :
    LInv t ∧ KN s t ∧ KeysMono s t ∧ SubS (fun _ => False) s t := by
  obtain ⟨ls, e⟩ := r
  obtain ⟨w2, i2, z2, d2, l2, k2, m2, u2⟩ := labelAll ho ls s t h.w h.i h.z h.dk h.live e
  exact ⟨⟨w2, i2, z2, d2, l2⟩, k2, m2, u2⟩

omit ho in
theorem forceAns_not_succeed (n : Nat) (x : Term) : (forceAns ord n x).isSucceed = false ∧ (forceAns ord n x).isFail = false := by
  cases n <;> exact ⟨rfl, rfl⟩

omit ho in
theorem evalRef_conj_succeed {N : Nat} {g : G} {s : State} {zs : List State}
    (h : evalRef dfs N (.conj g .succeed) s = some zs) : ∃ M, evalRef dfs M g s = some zs := by
  cases N with
  | zero => simp [evalRef] at h
  | succ N =>
    simp only [evalRef] at h
    cases hx : evalRef dfs N g s with
    | none => rw [hx] at h; simp at h
    | some xs =>
      rw [hx] at h
      simp only at h
      refine ⟨N, ?_⟩
      have : ∀ (l zs : List State), flatMapM (evalRef dfs N (.succeed : G)) l = some zs → zs = l := by
        intro l
        induction l with
        | nil => intro zs h; simp only [flatMapM, Option.some.injEq] at h; exact h.symm
        | cons a l ih =>
          intro zs h
          obtain ⟨ys, ws, h1, h2, rfl⟩ := flatMapM_cons_some h
          cases N with
          | zero => simp [evalRef] at h1
          | succ M =>
            simp only [evalRef, Option.some.injEq] at h1
            subst h1
            rw [ih ws h2]; rfl
      rw [this xs zs h]
      exact hx

/-- the status of a key along a labelling: unbound, or a number -/
def KeyOK (s : State) (k : Nat) : Prop := s.σ k = .var k ∨ ∃ m, s.σ k = Term.num m
/-- what labelling leaves of a key: bound, or without a domain -/
def KeyDone (t : State) (k : Nat) : Prop := t.σ k ≠ .var k ∨ t.dget k = none

omit ho in
theorem keyDone_mono {t t' : State} (hs : Solved t.σ) (k : KN t t') (m : KeysMono t t') {y : Nat} (h : KeyDone t y) :
    KeyDone t' y := by
  rcases h with h | h
  · exact .inl (k.bound_mono hs h)
  · right
    cases hg : t'.dget y with
    | none => rfl
    | some d => have := m y (by rw [hg]; rfl); rw [h] at this; cases this

/-- labelling ONE key -/
theorem key_labelled (n N : Nat) (k : Nat) (s : State) (zs : List State) (hi : LInv s) (hp : s.panic = none)
    (hk : KeyOK s k) (h : evalRef dfs N (forceAns ord (n + 1) (.var k)) s = some zs) (hall : ∀ t ∈ zs, t.panic = none) :
    ∀ t ∈ zs, Reach ord s t ∧ KeyDone t k := by
  cases N with
  | zero => simp [forceAns, evalRef] at h
  | succ N =>
    simp only [forceAns, evalRef, id, hp, Option.isSome_none, Bool.false_eq_true, if_false, walk] at h
    rcases hk with hk | ⟨m, hk⟩
    · rw [hk] at h
      simp only at h
      cases hd : s.dget k with
      | none =>
        rw [hd] at h
        simp only at h
        cases N with
        | zero => simp [evalRef] at h
        | succ M =>
          simp only [evalRef, Option.some.injEq] at h
          subst h
          intro t ht
          simp only [List.mem_singleton] at ht
          subst ht
          exact ⟨Reach.refl ord _, .inr hd⟩
      | some d =>
        rw [hd] at h
        simp only at h
        let f : Int → State → Option State := fun v => liftRes fun st => st.unify ord (Term.num v) (.var k)
        have hm : (d.iter.map fun v => eqG ord (Term.num v) (.var k)) = (d.iter.map f).map fun g => (.atom g : G) := by
          simp only [List.map_map]; rfl
        rw [hm] at h
        have hz := evalRef_alt_atoms_eq dfs (d.iter.map f) N s zs h
        rw [List.filterMap_map] at hz
        intro t ht
        rw [hz] at ht
        obtain ⟨v, _, hv⟩ := List.mem_filterMap.1 ht
        have hpt := hall t (by rw [hz]; exact ht)
        simp only [Function.comp, f, liftRes, hp, Option.isSome_none, Bool.false_eq_true, if_false] at hv
        cases hu : s.unify ord (Term.num v) (.var k) with
        | ok s' =>
          rw [hu] at hv
          simp only [Option.some.injEq] at hv
          subst hv
          obtain ⟨_, _, _, _, _, _, _, _, hb⟩ := label_step ho hi.w hi.i hi.z hi.dk v k hu
          refine ⟨⟨[(v, k)], by simp [labelAtoms, postAllF, postF, hu, Res.bind]⟩, .inl ?_⟩
          rw [hb]; simp [Term.num]
        | fail => rw [hu] at hv; simp at hv
        | fuel => rw [hu] at hv; simp only [Option.some.injEq] at hv; subst hv; simp at hpt
        | panic site => rw [hu] at hv; simp only [Option.some.injEq] at hv; subst hv; simp at hpt
    · rw [hk] at h
      simp only [Term.num] at h
      cases N with
      | zero => simp [evalRef] at h
      | succ M =>
        simp only [evalRef, Option.some.injEq] at h
        subst h
        intro t ht
        simp only [List.mem_singleton] at ht
        subst ht
        exact ⟨Reach.refl ord _, .inl (by rw [hk]; simp [Term.num])⟩

/-- labelling the LIST of keys: every delivered state is reached by labelling equalities, and every key is done in it -/
theorem keys_labelled : ∀ (ks : List Nat) (n N : Nat) (s : State) (zs : List State), ks.length < n → LInv s →
    s.panic = none → (∀ k ∈ ks, KeyOK s k) →
    evalRef dfs N (forceAns ord n (Term.ofList (ks.map Term.var))) s = some zs → (∀ t ∈ zs, t.panic = none) →
    ∀ t ∈ zs, Reach ord s t ∧ ∀ k ∈ ks, KeyDone t k
  | [], n, N, s, zs, hn, _, hp, _, h, _ => by
    cases n with
    | zero => omega
    | succ n =>
      cases N with
      | zero => simp [forceAns, evalRef] at h
      | succ N =>
        simp only [List.map_nil, Term.ofList, forceAns, evalRef, id, hp, Option.isSome_none, Bool.false_eq_true, if_false,
          walk] at h
        cases N with
        | zero => simp [evalRef] at h
        | succ M =>
          simp only [evalRef, Option.some.injEq] at h
          subst h
          intro t ht
          simp only [List.mem_singleton] at ht
          subst ht
          exact ⟨Reach.refl ord _, fun k hk => nomatch hk⟩
  | k :: ks, n, N, s, zs, hn, hi, hp, hk, h, hall => by
    cases n with
    | zero => simp at hn
    | succ n =>
      cases N with
      | zero => simp [forceAns, evalRef] at h
      | succ N =>
        simp only [List.map_cons, Term.ofList, forceAns, evalRef, id, hp, Option.isSome_none, Bool.false_eq_true, if_false,
          walk] at h
        -- conjOfList [a, b] = conj a (conj b succeed)
        have a1 := forceAns_not_succeed (ord := ord) n (.var k)
        have b1 := forceAns_not_succeed (ord := ord) n (Term.ofList (ks.map Term.var))
        have hb : mkConj (forceAns ord n (Term.ofList (ks.map Term.var))) (.succeed : G) =
            .conj (forceAns ord n (Term.ofList (ks.map Term.var))) .succeed := by
          unfold mkConj; rw [b1.1, b1.2]; rfl
        have e2 : Goal.conjOfList [forceAns ord n (.var k), forceAns ord n (Term.ofList (ks.map Term.var))] =
            .conj (forceAns ord n (.var k)) (.conj (forceAns ord n (Term.ofList (ks.map Term.var))) .succeed) := by
          show mkConj _ (mkConj _ .succeed) = _
          rw [hb]; unfold mkConj; rw [a1.1, a1.2]; rfl
        rw [e2] at h
        cases N with
        | zero => simp [evalRef] at h
        | succ N =>
          simp only [evalRef] at h
          cases hx : evalRef dfs N (forceAns ord n (.var k)) s with
          | none => rw [hx] at h; simp at h
          | some xs =>
            rw [hx] at h
            have h : flatMapM (evalRef dfs N (.conj (forceAns ord n (Term.ofList (ks.map Term.var))) .succeed)) xs = some zs := h
            -- no intermediate state is poisoned: labelling lets a poisoned state through
            have hlab := forceAns_labelOK dfs ho n (Term.ofList (ks.map Term.var))
            have hxs : ∀ t ∈ xs, t.panic = none := fun t ht => by
              cases hpt : t.panic with
              | none => rfl
              | some site =>
                obtain ⟨ys, e⟩ := flatMapM_some_of_mem h t ht
                obtain ⟨M, e'⟩ := evalRef_conj_succeed dfs e
                have : t ∈ ys := hlab.2.1 M t ys (by rw [hpt]; simp) e'
                have := hall t ((flatMapM_mem h t).2 ⟨t, ht, ys, e, this⟩)
                rw [hpt] at this; cases this
            have hlen : ks.length + 1 < n + 1 := by simpa using hn
            have hn' : n = (n - 1) + 1 := by omega
            have r1 := key_labelled ho dfs (n - 1) N k s xs hi hp (hk k List.mem_cons_self) (by rw [← hn']; exact hx) hxs
            intro t ht
            obtain ⟨t1, ht1, ys, e, hty⟩ := (flatMapM_mem h t).1 ht
            obtain ⟨M, e'⟩ := evalRef_conj_succeed dfs e
            obtain ⟨rc1, kd1⟩ := r1 t1 ht1
            obtain ⟨li1, kn1, km1, _⟩ := reach_inv ho hi rc1
            have hk1 : ∀ k' ∈ ks, KeyOK t1 k' := fun k' hk' => by
              rcases hk k' (List.mem_cons_of_mem _ hk') with a | ⟨m, a⟩
              · exact kn1.numonly k' a
              · exact .inr ⟨m, kn1.num_fix a⟩
            obtain ⟨rc2, kd2⟩ := keys_labelled ks n M t1 ys (by omega) li1 (hxs t1 ht1) hk1 e'
              (fun y hy => hall y ((flatMapM_mem h y).2 ⟨t1, ht1, ys, e, hy⟩)) t hty
            obtain ⟨_, kn2, km2, _⟩ := reach_inv ho li1 rc2
            refine ⟨rc1.trans rc2, fun k' hk' => ?_⟩
            rcases List.mem_cons.1 hk' with rfl | hk'
            · exact keyDone_mono li1.w.solved kn2 km2 kd1
            · exact kd2 k' hk'

/-- a labelling goal reaches its results by labelling equalities -/
def ReachOK (g : G) : Prop :=
  (∀ N s zs, LInv s → s.panic = none → evalRef dfs N g s = some zs → (∀ t ∈ zs, t.panic = none) →
    ∀ t ∈ zs, Reach ord s t) ∧
  (∀ N s zs, s.panic ≠ none → evalRef dfs N g s = some zs → s ∈ zs) ∧
  g.isFail = false

omit ho in
theorem reachOK_succeed : ReachOK (ord := ord) dfs (.succeed : G) := by
  refine ⟨fun N s zs _ _ h _ t ht => ?_, fun N s zs _ h => ?_, rfl⟩
  · cases N with
    | zero => simp [evalRef] at h
    | succ N =>
      simp only [evalRef, Option.some.injEq] at h; subst h
      simp only [List.mem_singleton] at ht; subst ht
      exact Reach.refl ord _
  · cases N with
    | zero => simp [evalRef] at h
    | succ N => simp only [evalRef, Option.some.injEq] at h; subst h; exact List.mem_singleton.2 rfl

theorem reachOK_conj {g1 g2 : G} (h1 : ReachOK (ord := ord) dfs g1) (h2 : ReachOK (ord := ord) dfs g2) :
    ReachOK (ord := ord) dfs (.conj g1 g2) := by
  refine ⟨fun N s zs hi hp h hall t ht => ?_, fun N s zs hp h => ?_, rfl⟩
  · cases N with
    | zero => simp [evalRef] at h
    | succ N =>
      simp only [evalRef] at h
      cases hx : evalRef dfs N g1 s with
      | none => rw [hx] at h; simp at h
      | some xs =>
        rw [hx] at h
        simp only at h
        have hxs : ∀ t ∈ xs, t.panic = none := fun t ht => by
          cases hpt : t.panic with
          | none => rfl
          | some site =>
            obtain ⟨ys, e⟩ := flatMapM_some_of_mem h t ht
            have : t ∈ ys := h2.2.1 N t ys (by rw [hpt]; simp) e
            have := hall t ((flatMapM_mem h t).2 ⟨t, ht, ys, e, this⟩)
            rw [hpt] at this; cases this
        obtain ⟨t1, ht1, ys, e, hty⟩ := (flatMapM_mem h t).1 ht
        have r1 := h1.1 N s xs hi hp hx hxs t1 ht1
        have li1 := (reach_inv ho hi r1).1
        exact r1.trans (h2.1 N t1 ys li1 (hxs t1 ht1) e
          (fun y hy => hall y ((flatMapM_mem h y).2 ⟨t1, ht1, ys, e, hy⟩)) t hty)
  · cases N with
    | zero => simp [evalRef] at h
    | succ N =>
      simp only [evalRef] at h
      cases hx : evalRef dfs N g1 s with
      | none => rw [hx] at h; simp at h
      | some xs =>
        rw [hx] at h
        simp only at h
        have hs1 := h1.2.1 N s xs hp hx
        obtain ⟨ys, e⟩ := flatMapM_some_of_mem h s hs1
        exact (flatMapM_mem h s).2 ⟨s, hs1, ys, e, h2.2.1 N s ys hp e⟩

theorem reachOK_mkConj {g1 g2 : G} (h1 : ReachOK (ord := ord) dfs g1) (h2 : ReachOK (ord := ord) dfs g2) :
    ReachOK (ord := ord) dfs (mkConj g1 g2) := by
  unfold mkConj
  split
  · exact reachOK_succeed dfs
  · split
    · rename_i hf
      rw [h1.2.2, h2.2.2] at hf
      simp at hf
    · exact reachOK_conj ho dfs h1 h2

theorem reachOK_conjOfList : ∀ gs : List G, (∀ g ∈ gs, ReachOK (ord := ord) dfs g) → ReachOK (ord := ord) dfs (Goal.conjOfList gs)
  | [], _ => reachOK_succeed dfs
  | g :: gs, h => reachOK_mkConj ho dfs (h g (List.mem_cons_self ..))
      (reachOK_conjOfList gs fun x hx => h x (List.mem_cons_of_mem _ hx))

/-- `force_ans` on ANY term: every delivered state is reached from the start state by labelling equalities -/
theorem forceAns_reachOK : ∀ (n : Nat) (t : Term), ReachOK (ord := ord) dfs (forceAns ord n t)
  | 0, t => by
    refine ⟨fun N s zs _ hp h hall => ?_, fun N s zs hp h => ?_, rfl⟩
    · cases N with
      | zero => simp [evalRef] at h
      | succ N =>
        simp only [forceAns, evalRef, liftRes, hp, Option.isSome_none, Bool.false_eq_true, if_false,
          Option.toList_some, Option.some.injEq] at h
        subst h
        have := hall _ (List.mem_singleton.2 rfl)
        simp at this
    · cases N with
      | zero => simp [evalRef] at h
      | succ N =>
        have hps : s.panic.isSome = true := by cases hq : s.panic with | none => exact absurd hq hp | some _ => rfl
        simp only [forceAns, evalRef, liftRes, hps, if_true, Option.toList_some, Option.some.injEq] at h
        subst h
        exact List.mem_singleton.2 rfl
  | n + 1, t => by
    have ihn := forceAns_reachOK n
    refine ⟨fun N s zs hi hp h hall => ?_, fun N s zs hp h => ?_, rfl⟩
    · cases N with
      | zero => simp [evalRef] at h
      | succ N =>
        simp only [forceAns, evalRef, id, hp, Option.isSome_none, Bool.false_eq_true, if_false] at h
        split at h
        · rename_i xv hw
          split at h
          · rename_i d hd
            let f : Int → State → Option State := fun v => liftRes fun st => st.unify ord (Term.num v) (.var xv)
            have hm : (d.iter.map fun v => eqG ord (Term.num v) (.var xv)) = (d.iter.map f).map fun g => (.atom g : G) := by
              simp only [List.map_map]; rfl
            rw [hm] at h
            have hz := evalRef_alt_atoms_eq dfs (d.iter.map f) N s zs h
            rw [List.filterMap_map] at hz
            intro t' ht'
            have hpt := hall t' ht'
            rw [hz] at ht'
            obtain ⟨v, _, hv⟩ := List.mem_filterMap.1 ht'
            simp only [Function.comp, f, liftRes, hp, Option.isSome_none, Bool.false_eq_true, if_false] at hv
            cases hu : s.unify ord (Term.num v) (.var xv) with
            | ok s' =>
              rw [hu] at hv
              simp only [Option.some.injEq] at hv
              subst hv
              exact ⟨[(v, xv)], by simp [labelAtoms, postAllF, postF, hu, Res.bind]⟩
            | fail => rw [hu] at hv; simp at hv
            | fuel => rw [hu] at hv; simp only [Option.some.injEq] at hv; subst hv; simp at hpt
            | panic site => rw [hu] at hv; simp only [Option.some.injEq] at hv; subst hv; simp at hpt
          · exact (reachOK_succeed dfs).1 N s zs hi hp h hall
        · rename_i hd' tl hw
          exact (reachOK_conjOfList ho dfs [forceAns ord n hd', forceAns ord n tl] (fun g hg => by
            simp only [List.mem_cons, List.not_mem_nil, or_false] at hg
            rcases hg with rfl | rfl
            · exact ihn hd'
            · exact ihn tl)).1 N s zs hi hp h hall
        · rename_i tag args hw
          exact (reachOK_conjOfList ho dfs ((compFields args).map (forceAns ord n)) (fun g hg => by
            obtain ⟨x, _, rfl⟩ := List.mem_map.1 hg
            exact ihn x)).1 N s zs hi hp h hall
        · exact (reachOK_succeed dfs).1 N s zs hi hp h hall
    · cases N with
      | zero => simp [evalRef] at h
      | succ N =>
        have hps : s.panic.isSome = true := by cases hq : s.panic with | none => exact absurd hq hp | some _ => rfl
        simp only [forceAns, evalRef, id, hps, if_true] at h
        exact (reachOK_succeed (ord := ord) dfs).2.1 N s zs hp h

/-- THE BLOCKS: labelling ANY term (the query term) from a state with the labelling invariants delivers states with the
    labelling invariants, whose propagators' operands are still numbers or variables with domains -/
theorem blocks_inv (n N : Nat) (x : Term) (s : State) (xs : List State) (hi : LInv s) (hp : s.panic = none)
    (hops : OpsOK s) (h : evalRef dfs N (forceAns ord n x) s = some xs) (hall : ∀ t ∈ xs, t.panic = none) :
    ∀ c ∈ xs, LInv c ∧ OpsOK c ∧ Reach ord s c := by
  intro c hc
  have r := (forceAns_reachOK ho dfs n x).1 N s xs hi hp h hall c hc
  obtain ⟨li, kn, _, su⟩ := reach_inv ho hi r
  exact ⟨li, hops.keep hi.w.solved kn su, r⟩

/-- every state reached by posting atoms (no CLP(Z)) satisfies the labelling invariants -/
theorem linv_of_atoms (n : Nat) (as : List FAtom) (hok : ∀ a ∈ as, a.OK) (hnz : ∀ a ∈ as, a.NoZ) (s : State)
    (h : postAllF ord (State.empty n) as = .ok s) : LInv s := by
  obtain ⟨hdk, hz⟩ := fd_dk ho n as hok hnz s h
  have r := postAllF_sem ho as (State.empty n) (wfs_empty n) (inv_empty n) hok
  rw [h] at r
  exact ⟨r.1, r.2.1, hz, hdk, fd_live ho n as hok s h⟩

/-- LABELLING ALL DOMAIN VARIABLES DECIDES SATISFIABILITY (the body of the `onceo` in `enforce_constraints_fd`), on the
    textbook semantics: from a state with the labelling invariants whose propagators' operands are numbers or variables
    with domains, label a list `ks` that contains every variable with a domain.  Then every delivered state is CLOSED
    (empty domain store, no propagator) and describes only valuations of the start state; and a start state that
    describes some valuation has at least one delivered state. -/
theorem keys_labelling_decides (ks : List Nat) (n N : Nat) (s : State) (ds : List State) (hn : ks.length < n)
    (hi : LInv s) (hp : s.panic = none) (hops : OpsOK s) (hks : ∀ y, (s.dget y).isSome → y ∈ ks)
    (hko : ∀ k ∈ ks, KeyOK s k)
    (h : evalRef dfs N (forceAns ord n (Term.ofList (ks.map Term.var))) s = some ds) (hall : ∀ t ∈ ds, t.panic = none) :
    (∀ d ∈ ds, d.dstore = [] ∧ (∀ p ∈ d.store, p.2.isDiseq = true) ∧ WFS d ∧ ∀ γ, Sem NoI γ d → Sem NoI γ s) ∧
    ((∃ γ, Sem NoI γ s) → ds ≠ []) := by
  have part := (forceAns_labelOK dfs ho n (Term.ofList (ks.map Term.var))).1 N s ds hi.w hi.i hp h hall
  refine ⟨fun d hd => ?_, fun ⟨γ, hγ⟩ e => ?_⟩
  · obtain ⟨rc, kd⟩ := keys_labelled ho dfs ks n N s ds hn hi hp hko h hall d hd
    obtain ⟨li, kn, km, su⟩ := reach_inv ho hi rc
    have hb : ∀ y, (s.dget y).isSome → d.σ y ≠ .var y := by
      intro y hy e
      have hyu : s.σ y = .var y := (hi.dk y hy).elim id (fun f => f.elim)
      rcases kd y (hks y hy) with b | b
      · exact b e
      · have := kn.dom y hyu e hy
        rw [b] at this; cases this
    obtain ⟨c1, c2⟩ := labelled_closed li.dk li.live (hops.keep hi.w.solved kn su) km hb
    exact ⟨c1, c2, li.w, (part.1 d hd).2.2⟩
  · obtain ⟨t, ht, _⟩ := part.2.1 γ hγ
    rw [e] at ht; cases ht

end

/-! ### `onceo` over the labelling of the keys, on the engine -/

section Engine
variable {St K : Type} (top : Goal St K → St → Strm St K)

/-- the stream of at most one state -/
def firstStrm : Option St → Strm St K
  | some b => .unit b
  | none => .empty

/-- `trunc` returns the first answer of the drained list -/
theorem trunc_of_drain : ∀ (n : Nat) (s : Strm St K) (ys : List St), drainF top n s = some ys →
    truncF top n s = some ys.head?
  | 0, _, _, h => by simp [drainF] at h
  | n + 1, s, ys, h => by
    cases s with
    | empty => simp only [drainF, Option.some.injEq] at h; subst h; rfl
    | unit a => simp only [drainF, Option.some.injEq] at h; subst h; rfl
    | cons a l =>
      simp only [drainF, Option.map_eq_some_iff] at h
      obtain ⟨zs, _, rfl⟩ := h
      rfl
    | lazy l =>
      simp only [drainF] at h
      simp only [truncF]
      exact trunc_of_drain n _ ys h

theorem drain_det {n m : Nat} {s : Strm St K} {ys zs : List St} (h1 : drainF top n s = some ys)
    (h2 : drainF top m s = some zs) : ys = zs := by
  have a := drain_mono (top := top) n m s ys h1
  have b := drain_mono (top := top) m n s zs h2
  rw [Nat.add_comm] at b
  rw [a] at b
  exact Option.some.inj b

/-- `onceo { gs }` when the peek fuel lets the body drain: the first answer of the body in engine order, or nothing -/
theorem onceo_of_drain (defs : K → St → St × Goal St K) (pf : Nat) (gs : List (Goal St K)) (a : St) (ys : List St)
    (h : drainF top pf (start defs top pf (conjOfList gs) a) = some ys) :
    start defs top pf (Goal.onceo gs) a = firstStrm ys.head? := by
  have ht := trunc_of_drain top pf _ ys h
  cases hh : ys.head? with
  | none => rw [hh] at ht; exact (onceo_spec defs top pf gs a).2 ht
  | some b => rw [hh] at ht; exact (onceo_spec defs top pf gs a).1 b ht

end Engine

section
variable {ord : Order} (ho : OrderOK ord) (dfs : Call → State → State × G)
include ho

omit ho in
theorem evalRef_conj_succeed_intro {N : Nat} {g : G} {s : State} {zs : List State}
    (h : evalRef dfs N g s = some zs) : evalRef dfs (N + 1) (.conj g .succeed) s = some zs := by
  cases N with
  | zero => simp [evalRef] at h
  | succ N =>
    simp only [evalRef]
    rw [show evalRef dfs (N + 1) g s = some zs from h]
    simp only
    have : ∀ l : List State, flatMapM (evalRef dfs (N + 1) (.succeed : G)) l = some l := by
      intro l
      induction l with
      | nil => rfl
      | cons a l ih =>
        simp only [flatMapM, evalRef] at ih ⊢
        rw [ih]; rfl
    exact this zs

/-- THE `onceo` OF `enforce_constraints_fd`, ON THE ENGINE.  `c`: a state with the labelling invariants (every state the
    program and the labelling of the query term reach), unpoisoned, operands numbers or variables with domains; `ks`: a
    list containing every variable with a domain.  If the peek fuel lets the labelling of `ks` drain, then
    `onceo { force_ans(ks) }` started on `c` is the stream of AT MOST ONE state; it has one — a CLOSED state (empty domain
    store, no propagator) describing only valuations of `c` — whenever `c` describes a valuation, and when the labelling has
    no answer it has none.  (So a state that survives propagation but has no solution yields NO answer, and one with
    solutions yields exactly ONE: the number of answers does not depend on how strong propagation is.) -/
theorem hidden_labelling_engine (pf m : Nat) (ks : List Nat) (n N : Nat) (c : State) (ds ys : List State)
    (hn : ks.length < n) (hi : LInv c) (hp : c.panic = none) (hops : OpsOK c) (hks : ∀ y, (c.dget y).isSome → y ∈ ks)
    (hko : ∀ k ∈ ks, KeyOK c k)
    (h : evalRef dfs N (forceAns ord n (Term.ofList (ks.map Term.var))) c = some ds) (hall : ∀ t ∈ ds, t.panic = none)
    (hd : drainF (solveAt dfs pf (m + 1)) pf
      (start dfs (solveAt dfs pf (m + 1)) pf (Goal.conjOfList [forceAns ord n (Term.ofList (ks.map Term.var))]) c) = some ys) :
    ds.Perm ys ∧
    start dfs (solveAt dfs pf (m + 1)) pf (Goal.onceo [forceAns ord n (Term.ofList (ks.map Term.var))]) c =
      firstStrm ys.head? ∧
    (∀ b, ys.head? = some b → b.dstore = [] ∧ (∀ p ∈ b.store, p.2.isDiseq = true) ∧ ∀ γ, Sem NoI γ b → Sem NoI γ c) ∧
    ((∃ γ, Sem NoI γ c) → ys.head?.isSome = true) ∧ (ds = [] → ys.head? = none) := by
  have a1 := forceAns_not_succeed (ord := ord) n (Term.ofList (ks.map Term.var))
  have hg : Goal.conjOfList [forceAns ord n (Term.ofList (ks.map Term.var))] =
      .conj (forceAns ord n (Term.ofList (ks.map Term.var))) .succeed := by
    show mkConj _ .succeed = _
    unfold mkConj; rw [a1.1, a1.2]; rfl
  obtain ⟨zs, hz, pz⟩ := ref_perm dfs pf m (N + 1) _ c ds (evalRef_conj_succeed_intro dfs h) (m + 1)
  obtain ⟨n', ys', hy', py'⟩ := drain_perm _ (topOK_solveAt dfs pf m) hz
  have hsame : solveAt dfs pf (m + 1 + 1) (.conj (forceAns ord n (Term.ofList (ks.map Term.var))) .succeed) c =
      start dfs (solveAt dfs pf (m + 1)) pf (.conj (forceAns ord n (Term.ofList (ks.map Term.var))) .succeed) c := rfl
  rw [hg] at hd
  rw [hsame] at hy'
  have e := drain_det _ hd hy'
  subst e
  have perm : ds.Perm ys := pz.trans py'
  obtain ⟨k1, k2⟩ := keys_labelling_decides ho dfs ks n N c ds hn hi hp hops hks hko h hall
  refine ⟨perm, ?_, fun b hb => ?_, fun hs => ?_, fun he => ?_⟩
  · rw [← hg] at hd
    exact onceo_of_drain _ dfs pf _ c ys hd
  · have hbm : b ∈ ys := List.mem_of_mem_head? hb
    obtain ⟨x1, x2, _, x4⟩ := k1 b (perm.mem_iff.2 hbm)
    exact ⟨x1, x2, x4⟩
  · have hne := k2 hs
    cases hy : ys with
    | nil => rw [hy] at perm; exact absurd perm.eq_nil hne
    | cons b _ => rfl
  · subst he
    rw [List.nil_perm.1 perm]; rfl

end
end Pv
