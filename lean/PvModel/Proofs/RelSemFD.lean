/-
  The library relations called from states that carry FINITE DOMAINS and FD / CLP(Z) constraints: soundness
  (instance of Proofs/RelSemG.lean with the global finite-domain invariants `WFS`, `Inv` and the finite-domain
  semantics `Sem`), and soundness of whole programs that mix FD / CLP(Z) atoms, `==`, `!=`, conde, fresh and
  relation calls.
-/
import PvModel.Proofs.RelSemG
import PvModel.Proofs.FDExact
namespace Pv
open Strm Goal State Term

section
variable [Mode] {ord : Order}

/-- a posting operation that is exact (`Ref0`) denotes its meaning -/
theorem gden_of_ref0 {f : State → Res State} {D : Subst → Prop}
    (h : ∀ st, WFS st → Inv st → Ref0 NoI D st (f st)) (N : Nat) :
    DenG ord (fun a => WFS a ∧ Inv a) (fun γ a => Sem NoI γ a) N (.atom (liftRes f)) D := by
  intro n _ a b hb
  cases n with
  | zero => exact hb.elim
  | succ n =>
    simp only [BigF, liftRes] at hb
    cases hp : a.panic.isSome with
    | true =>
      simp only [hp, if_true, Option.some.injEq] at hb
      subst hb
      exact ⟨id, fun hq => by rw [hp] at hq; cases hq⟩
    | false =>
      refine ⟨fun x => (by rw [hp] at x; cases x), fun hq hg => ?_⟩
      simp only [hp, Bool.false_eq_true, if_false] at hb
      have r := h a hg.1 hg.2
      cases hr : f a with
      | ok s =>
        rw [hr] at hb r
        simp only [Option.some.injEq] at hb
        subst hb
        exact ⟨⟨r.1, r.2.1⟩, fun γ hγ => (r.2.2 γ).1 hγ⟩
      | fail => rw [hr] at hb; cases hb
      | fuel =>
        rw [hr] at hb
        simp only [Option.some.injEq] at hb
        subst hb
        cases hq
      | panic s =>
        rw [hr] at hb
        simp only [Option.some.injEq] at hb
        subst hb
        cases hq

theorem fd_bump (a : State) (k : Nat) :
    ((WFS a ∧ Inv a) → (WFS { a with nextVar := k } ∧ Inv { a with nextVar := k })) ∧
    ∀ γ, Sem NoI γ { a with nextVar := k } → Sem NoI γ a :=
  ⟨fun h => ⟨h.1.same rfl rfl fun p hp => .inl hp, SameStore.inv ⟨rfl, rfl, rfl, rfl, rfl⟩ h.2⟩,
   fun γ h => (sem_same (st' := { a with nextVar := k }) (st := a) rfl rfl rfl γ).1 h⟩

/-- SOUNDNESS OF THE LIBRARY RELATIONS FROM FINITE-DOMAIN STATES: a call of member / member1 / append / rember /
    permute / distinct from ANY well-formed state — domains, FD and CLP(Z) propagators, disequalities in the
    stores — any argument terms: every unpoisoned big-step answer is well-formed and describes only valuations
    of the start state (in the finite-domain semantics: substitution, every stored constraint, every domain)
    under which the arguments are in the relation -/
theorem fd_den_rel (ho : OrderOK ord) (N : Nat) (c : Call) :
    DenG ord (fun a => WFS a ∧ Inv a) (fun γ a => Sem NoI γ a) N (.call c) (RelSem c) :=
  gden_rel fd_bump
    (fun N u v => gden_of_ref0 (fun st w hi => unify_sem ho (iok_noI st) w hi u v) N)
    (fun N u v => gden_of_ref0 (fun st w hi => disunify_sem ho w hi u v) N) N c

/-! ### programs mixing constraints and relation calls -/

inductive FRProg where
  | succeed
  | atom (t : FAtom)
  | conj (p q : FRProg)
  | alt (p q : FRProg)
  | fresh (p : FRProg)
  | call (c : Call)

namespace FRProg

def goal (ord : Order) : FRProg → G
  | succeed => .succeed
  | atom t => .atom (liftRes fun st => postF ord st t)
  | conj p q => .conj (goal ord p) (goal ord q)
  | alt p q => .alt (goal ord p) (goal ord q)
  | fresh p => .fresh (goal ord p)
  | call c => .call c

/-- the declarative meaning: constraints by their arithmetic meaning, relation calls by their specification -/
def Sem : FRProg → Subst → Prop
  | succeed, _ => True
  | atom t, γ => t.Sat γ
  | conj p q, γ => Sem p γ ∧ Sem q γ
  | alt p q, γ => Sem p γ ∨ Sem q γ
  | fresh p, γ => Sem p γ
  | call c, γ => RelSem c γ

def OK : FRProg → Prop
  | atom t => t.OK
  | conj p q => OK p ∧ OK q
  | alt p q => OK p ∧ OK q
  | fresh p => OK p
  | _ => True

theorem plain (ord : Order) : ∀ (p : FRProg), Plain (p.goal ord)
  | succeed => .succeed
  | atom _ => .atom _
  | conj p q => .conj (plain ord p) (plain ord q)
  | alt p q => .alt (plain ord p) (plain ord q)
  | fresh p => .fresh (plain ord p)
  | call c => .call c

end FRProg

theorem frprog_den (ho : OrderOK ord) (N : Nat) : ∀ (p : FRProg), p.OK →
    DenG ord (fun a => WFS a ∧ Inv a) (fun γ a => Sem NoI γ a) N (p.goal ord) p.Sem
  | .succeed, _ => gden_succeed N
  | .atom t, hk => gden_of_ref0 (fun st w hi => postF_sem ho w hi t hk) N
  | .conj p q, hk => gden_conj (frprog_den ho N p hk.1) (frprog_den ho N q hk.2)
  | .alt p q, hk => gden_alt (frprog_den ho N p hk.1) (frprog_den ho N q hk.2)
  | .fresh p, hk => gden_fresh (frprog_den ho N p hk)
  | .call c, _ => fd_den_rel ho N c

/-- SOUNDNESS ON THE ENGINE for programs of FD / CLP(Z) constraints, domains, `==`, `!=`, conjunction, conde,
    fresh AND calls of the library relations, from the empty state: every unpoisoned state in the engine's
    stream (at any nesting level, under any hash order) describes — substitution, constraints, domains — only
    valuations that satisfy every posted constraint along its path and put the arguments of every relation
    call in the relation.  (A poisoned state: the model's fuel, or — in the lax mode — one of the three
    distinctfd panic sites, which is reached only when no solution exists.) -/
theorem frprog_sound (ho : OrderOK ord) (pf M j nv : Nat) (p : FRProg) (hk : p.OK) (b : State)
    (hm : MemS (solveAt (defs ord) pf (M + 1)) b (solveAt (defs ord) pf j (p.goal ord) (State.empty nv)))
    (hp : b.panic.isSome = false) : (WFS b ∧ Inv b) ∧ ∀ γ, Sem NoI γ b → p.Sem γ := by
  obtain ⟨n, hn⟩ := (mem_iff_big (defs_plain ord) pf M j (p.plain ord) _ b).1 hm
  have := (frprog_den ho n p hk n (Nat.le_refl _) _ b hn).2 hp ⟨wfs_empty nv, inv_empty nv⟩
  exact ⟨this.1, fun γ hγ => (this.2 γ hγ).2⟩

end
end Pv
