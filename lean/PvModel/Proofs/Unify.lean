/-
  Helper lemmas and main results about `unifyF` (Model/Unify.lean) on solved-form substitutions.
-/
import PvModel.Model.Unify

namespace Pv
open Term

theorem apply_bindS (x t σ) (s : Term) : apply (bindS x t σ) s = apply (sub1 x t) (apply σ s) := by
  induction s <;> simp_all [apply, bindS]

theorem apply_sub1_noocc {x t} : ∀ {s : Term}, occurs x s = false → apply (sub1 x t) s = s := by
  intro s; induction s <;> simp_all [apply, occurs, sub1]
  intro h; omega

theorem apply_apply_solved {σ} (h : Solved σ) (s : Term) : apply σ (apply σ s) = apply σ s := by
  induction s <;> simp_all [apply]
  exact h _

theorem walk_eq_apply_top {σ} (h : Solved σ) (u : Term) : apply σ (walk σ u) = apply σ u := by
  cases u <;> simp [walk, apply]; exact h _

theorem Ext.refl (σ : Subst) (h : Solved σ) : Ext σ σ := fun s => apply_apply_solved h s
theorem Ext.trans {a b c : Subst} (h1 : Ext a b) (h2 : Ext b c) : Ext a c := fun s => by
  rw [← h2 (apply a s), h1 s, h2 s]

theorem bind_ok {σ : Subst} {x : Nat} {t : Term} (hs : Solved σ) (hx : σ x = .var x)
    (ht : apply σ t = t) (ho : occurs x t = false) :
    Solved (bindS x t σ) ∧ Ext σ (bindS x t σ) ∧ apply (bindS x t σ) (.var x) = apply (bindS x t σ) t := by
  have bx : bindS x t σ x = t := by simp [bindS, hx, apply, sub1]
  have key : ∀ s, apply (bindS x t σ) (apply (sub1 x t) s) = apply (bindS x t σ) s := by
    intro s
    induction s with
    | var y =>
      by_cases hy : y = x
      · subst hy; simp [apply, sub1, apply_bindS, bx, ht, apply_sub1_noocc ho]
      · simp [apply, sub1, hy]
    | cons h t ih1 ih2 => simp [apply, ih1, ih2]
    | comp g a ih => simp [apply, ih]
    | _ => simp [apply]
  have ext : Ext σ (bindS x t σ) := by
    intro s; rw [apply_bindS, apply_bindS, apply_apply_solved hs]
  refine ⟨?_, ext, ?_⟩
  · intro y
    show apply (bindS x t σ) (apply (sub1 x t) (σ y)) = apply (sub1 x t) (σ y)
    rw [key, apply_bindS]
    have := hs y
    rw [this]
  · simp [apply, apply_bindS, bx, ht, apply_sub1_noocc ho]

theorem walk_normal {σ} (h : Solved σ) (u : Term) (x : Nat) (hw : walk σ u = .var x) : σ x = .var x := by
  cases u <;> simp [walk] at hw
  rename_i y
  have := h y; rw [hw] at this; simpa [apply] using this

def ctorId : Term → Nat
  | .var _ => 0 | .val _ => 1 | .nil => 2 | .cons _ _ => 3 | .comp _ _ => 4

inductive Step (n : Nat) (σ : Subst) (e : Ext1) (u v : Term) : Option (Subst × Ext1) → Prop
  | same (x : Nat) : walk σ u = .var x → walk σ v = .var x → Step n σ e u v (some (σ, e))
  | bindL (x : Nat) : walk σ u = .var x → walk σ v ≠ .var x → occurs x (apply σ v) = false →
      Step n σ e u v (some (bindS x (apply σ v) σ, (x, apply σ v) :: e))
  | occL (x : Nat) : walk σ u = .var x → (walk σ v).isVar = false → occurs x (apply σ v) = true →
      Step n σ e u v none
  | bindR (y : Nat) : walk σ v = .var y → (walk σ u).isVar = false → occurs y (apply σ u) = false →
      Step n σ e u v (some (bindS y (apply σ u) σ, (y, apply σ u) :: e))
  | occR (y : Nat) : walk σ v = .var y → (walk σ u).isVar = false → occurs y (apply σ u) = true →
      Step n σ e u v none
  | valEq (a : Val) : walk σ u = .val a → walk σ v = .val a → Step n σ e u v (some (σ, e))
  | valNe (a b : Val) : walk σ u = .val a → walk σ v = .val b → a ≠ b → Step n σ e u v none
  | nilnil : walk σ u = .nil → walk σ v = .nil → Step n σ e u v (some (σ, e))
  | consFail (h1 t1 h2 t2 : Term) : walk σ u = .cons h1 t1 → walk σ v = .cons h2 t2 →
      unifyF n σ e h1 h2 = some none → Step n σ e u v none
  | consOk (h1 t1 h2 t2 : Term) (σ1 : Subst) (e1 : Ext1) (r) :
      walk σ u = .cons h1 t1 → walk σ v = .cons h2 t2 →
      unifyF n σ e h1 h2 = some (some (σ1, e1)) → unifyF n σ1 e1 t1 t2 = some r → Step n σ e u v r
  | comp (g : Nat) (a1 a2 : Term) (r) : walk σ u = .comp g a1 → walk σ v = .comp g a2 →
      unifyF n σ e a1 a2 = some r → Step n σ e u v r
  | compNe (g1 g2 : Nat) (a1 a2 : Term) : walk σ u = .comp g1 a1 → walk σ v = .comp g2 a2 →
      g1 ≠ g2 → Step n σ e u v none
  | clash : (walk σ u).isVar = false → (walk σ v).isVar = false →
      ctorId (walk σ u) ≠ ctorId (walk σ v) → Step n σ e u v none

theorem unifyF_step {n σ e u v r} (hs : Solved σ) (h : unifyF (n + 1) σ e u v = some r) :
    Step n σ e u v r := by
  have hu := walk_eq_apply_top hs u
  have hv := walk_eq_apply_top hs v
  unfold unifyF at h
  generalize hwu : walk σ u = wu at *
  generalize hwv : walk σ v = wv at *
  cases wu <;> cases wv <;> simp only [] at h
  case var.var x y =>
    split at h
    · cases h; subst_vars; exact .same _ hwu hwv
    · rename_i hne
      cases h
      have h1 : σ y = var y := walk_normal hs v y hwv
      have hv' : apply σ v = var y := by rw [← hv]; simp [apply, h1]
      rw [← hv']
      refine .bindL x hwu ?_ ?_
      · rw [hwv]; intro hh; cases hh; exact hne rfl
      · rw [hv']; simpa [occurs] using hne
  case val.val a b =>
    split at h
    · cases h; subst_vars; exact .valEq _ hwu hwv
    · cases h; exact .valNe _ _ hwu hwv ‹_›
  case nil.nil => cases h; exact .nilnil hwu hwv
  case cons.cons h1 t1 h2 t2 =>
    split at h
    · exact .consOk _ _ _ _ _ _ _ hwu hwv ‹_› h
    · rename_i hr
      cases r with
      | none => exact .consFail _ _ _ _ hwu hwv h
      | some p => exact absurd h (hr p.1 p.2)
  case comp.comp g1 a1 g2 a2 =>
    split at h
    · subst_vars; exact .comp _ _ _ _ hwu hwv h
    · cases h; exact .compNe _ _ _ _ hwu hwv ‹_›
  case var.val | var.nil | var.cons | var.comp =>
    rw [hv] at h; split at h <;> cases h
    · exact .occL _ hwu (by rw [hwv]; rfl) ‹_›
    · exact .bindL _ hwu (by rw [hwv]; simp) (Bool.eq_false_iff.mpr ‹¬ _›)
  case val.var | nil.var | cons.var | comp.var =>
    rw [hu] at h; split at h <;> cases h
    · exact .occR _ hwv (by rw [hwu]; rfl) ‹_›
    · exact .bindR _ hwv (by rw [hwu]; rfl) (Bool.eq_false_iff.mpr ‹¬ _›)
  all_goals (cases h; exact .clash (by rw [hwu]; rfl) (by rw [hwv]; rfl) (by rw [hwu, hwv]; simp [ctorId]))

/-! ### semantic helper lemmas -/

theorem ext_walk {σ θ : Subst} (hs : Solved σ) (hx : Ext σ θ) (u : Term) :
    apply θ (walk σ u) = apply θ u := by
  rw [← hx (walk σ u), walk_eq_apply_top hs, hx]

theorem isVar_apply {σ : Subst} {t : Term} (h : t.isVar = false) : (apply σ t).isVar = false := by
  cases t <;> simp_all [apply, isVar]

theorem ctorId_apply {σ : Subst} {t : Term} (h : t.isVar = false) : ctorId (apply σ t) = ctorId t := by
  cases t <;> simp_all [apply, isVar, ctorId]

theorem apply_sub1_absorb {θ : Subst} {x : Nat} {t : Term} (h : θ x = apply θ t) (s : Term) :
    apply θ (apply (sub1 x t) s) = apply θ s := by
  induction s with
  | var y =>
    by_cases hy : y = x
    · subst hy; simp [apply, sub1, h]
    · simp [apply, sub1, hy]
  | cons a b ih1 ih2 => simp [apply, ih1, ih2]
  | comp g a ih => simp [apply, ih]
  | _ => simp [apply]

theorem ext_bind {σ θ : Subst} {x : Nat} {t : Term} (hx : Ext σ θ) (h : θ x = apply θ t) :
    Ext (bindS x t σ) θ := by
  intro s; rw [apply_bindS, apply_sub1_absorb h, hx]

theorem size_occurs_le {θ : Subst} {x : Nat} : ∀ {t : Term}, occurs x t = true →
    size (θ x) ≤ size (apply θ t) := by
  intro t
  induction t with
  | var y => intro h; simp [occurs] at h; subst h; simp [apply]
  | cons a b ih1 ih2 =>
    intro h
    simp only [occurs, Bool.or_eq_true] at h
    simp only [apply, size]
    rcases h with h | h
    · have := ih1 h; omega
    · have := ih2 h; omega
  | comp g a ih => intro h; simp only [occurs] at h; simp only [apply, size]; have := ih h; omega
  | _ => intro h; simp [occurs] at h

theorem size_occurs_lt {θ : Subst} {x : Nat} {t : Term} (ho : occurs x t = true)
    (hv : t.isVar = false) : size (θ x) < size (apply θ t) := by
  cases t with
  | var y => simp [isVar] at hv
  | cons a b =>
    simp only [occurs, Bool.or_eq_true] at ho
    simp only [apply, size]
    rcases ho with h | h
    · have := size_occurs_le (θ := θ) h; omega
    · have := size_occurs_le (θ := θ) h; omega
  | comp g a => simp only [occurs] at ho; simp only [apply, size]; have := size_occurs_le (θ := θ) ho; omega
  | _ => simp [occurs] at ho

theorem occurs_no_unifier {θ : Subst} {x : Nat} {t : Term} (ho : occurs x t = true)
    (hv : t.isVar = false) : θ x ≠ apply θ t := by
  intro h; have := size_occurs_lt (θ := θ) ho hv; rw [h] at this; omega

theorem bind_unbound {σ : Subst} {x : Nat} {t : Term} (hs : Solved σ) (ht : apply σ t = t)
    (y : Nat) (h : bindS x t σ y = .var y) : σ y = .var y := by
  unfold bindS at h
  have hsy := hs y
  cases hσ : σ y with
  | var z =>
    rw [hσ] at h hsy
    simp only [apply] at hsy
    simp only [apply, sub1] at h
    by_cases hz : z = x
    · subst hz
      simp at h
      subst h
      simp only [apply] at ht
      rw [hσ] at ht
      exact ht
    · simp [hz] at h; rw [h]
  | _ => rw [hσ] at h; simp [apply] at h


theorem unifies_of_walk {σ θ : Subst} (hs : Solved σ) (hx : Ext σ θ) {u v : Term}
    (h : apply θ (walk σ u) = apply θ (walk σ v)) : Unifies θ u v := by
  unfold Unifies; rw [← ext_walk hs hx u, ← ext_walk hs hx v]; exact h

theorem walk_of_unifies {σ θ : Subst} (hs : Solved σ) (hx : Ext σ θ) {u v : Term}
    (h : Unifies θ u v) : apply θ (walk σ u) = apply θ (walk σ v) := by
  rw [ext_walk hs hx u, ext_walk hs hx v]; exact h

theorem unifyF_sound_aux : ∀ (n : Nat) (σ σ' : Subst) (e e' : Ext1) (u v : Term), Solved σ →
    unifyF n σ e u v = some (some (σ', e')) → Solved σ' ∧ Ext σ σ' ∧ Unifies σ' u v := by
  intro n
  induction n with
  | zero => intro σ σ' e e' u v _ h; simp [unifyF] at h
  | succ n ih =>
    intro σ σ' e e' u v hs h
    have st := unifyF_step hs h
    have hr := Ext.refl σ hs
    cases st with
    | same x hu hv => exact ⟨hs, hr, unifies_of_walk hs hr (by rw [hu, hv])⟩
    | valEq a hu hv => exact ⟨hs, hr, unifies_of_walk hs hr (by rw [hu, hv])⟩
    | nilnil hu hv => exact ⟨hs, hr, unifies_of_walk hs hr (by rw [hu, hv])⟩
    | bindL x hu hv ho =>
      have hx := walk_normal hs u x hu
      obtain ⟨a, b, c⟩ := bind_ok hs hx (apply_apply_solved hs v) ho
      refine ⟨a, b, ?_⟩
      unfold Unifies; rw [← ext_walk hs b u, hu, c, b]
    | bindR y hv hu ho =>
      have hy := walk_normal hs v y hv
      obtain ⟨a, b, c⟩ := bind_ok hs hy (apply_apply_solved hs u) ho
      refine ⟨a, b, ?_⟩
      unfold Unifies; rw [← ext_walk hs b v, hv, c, b]
    | consOk h1 t1 h2 t2 σ1 e1 _ hu hv hh ht =>
      obtain ⟨a1, b1, c1⟩ := ih _ _ _ _ _ _ hs hh
      obtain ⟨a2, b2, c2⟩ := ih _ _ _ _ _ _ a1 ht
      have b := Ext.trans b1 b2
      refine ⟨a2, b, unifies_of_walk hs b ?_⟩
      rw [hu, hv]; simp only [apply]
      unfold Unifies at c1 c2
      rw [c2, ← b2 h1, c1, b2]
    | comp g a1 a2 _ hu hv ha =>
      obtain ⟨a, b, c⟩ := ih _ _ _ _ _ _ hs ha
      refine ⟨a, b, unifies_of_walk hs b ?_⟩
      rw [hu, hv]; simp only [apply]
      unfold Unifies at c; rw [c]

theorem unifyF_mgu_aux : ∀ (n : Nat) (σ σ' : Subst) (e e' : Ext1) (u v : Term), Solved σ →
    unifyF n σ e u v = some (some (σ', e')) →
    ∀ θ : Subst, Ext σ θ → Unifies θ u v → Ext σ' θ := by
  intro n
  induction n with
  | zero => intro σ σ' e e' u v _ h; simp [unifyF] at h
  | succ n ih =>
    intro σ σ' e e' u v hs h θ hx hun
    have st := unifyF_step hs h
    have hw := walk_of_unifies hs hx hun
    cases st with
    | same x hu hv => exact hx
    | valEq a hu hv => exact hx
    | nilnil hu hv => exact hx
    | bindL x hu hv ho =>
      refine ext_bind hx ?_
      rw [hx v]; rw [hu] at hw; simp only [apply] at hw; rw [hw, ext_walk hs hx]
    | bindR y hv hu ho =>
      refine ext_bind hx ?_
      rw [hx u]; rw [hv] at hw; simp only [apply] at hw; rw [← hw, ext_walk hs hx]
    | consOk h1 t1 h2 t2 σ1 e1 _ hu hv hh ht =>
      rw [hu, hv] at hw; simp only [apply] at hw
      injection hw with hw1 hw2
      have a1 := (unifyF_sound_aux _ _ _ _ _ _ _ hs hh).1
      have x1 := ih _ _ _ _ _ _ hs hh θ hx hw1
      exact ih _ _ _ _ _ _ a1 ht θ x1 hw2
    | comp g a1 a2 _ hu hv ha =>
      rw [hu, hv] at hw; simp only [apply] at hw
      injection hw with _ hw2
      exact ih _ _ _ _ _ _ hs ha θ hx hw2

theorem unifyF_fail_aux : ∀ (n : Nat) (σ : Subst) (e : Ext1) (u v : Term), Solved σ →
    unifyF n σ e u v = some none → ∀ θ : Subst, Ext σ θ → Unifies θ u v → False := by
  intro n
  induction n with
  | zero => intro σ e u v _ h; simp [unifyF] at h
  | succ n ih =>
    intro σ e u v hs h θ hx hun
    have st := unifyF_step hs h
    have hw := walk_of_unifies hs hx hun
    cases st with
    | occL x hu hv ho =>
      rw [hu] at hw; simp only [apply] at hw
      rw [ext_walk hs hx, ← hx v] at hw
      have hnv : (apply σ v).isVar = false := by
        rw [← walk_eq_apply_top hs v]; exact isVar_apply hv
      exact occurs_no_unifier ho hnv hw
    | occR y hv hu ho =>
      rw [hv] at hw; simp only [apply] at hw
      rw [ext_walk hs hx, ← hx u] at hw
      have hnv : (apply σ u).isVar = false := by
        rw [← walk_eq_apply_top hs u]; exact isVar_apply hu
      exact occurs_no_unifier ho hnv hw.symm
    | valNe a b hu hv hne =>
      rw [hu, hv] at hw; simp only [apply] at hw
      injection hw with hw; exact hne hw
    | consFail h1 t1 h2 t2 hu hv hh =>
      rw [hu, hv] at hw; simp only [apply] at hw
      injection hw with hw1 hw2
      exact ih _ _ _ _ hs hh θ hx hw1
    | consOk h1 t1 h2 t2 σ1 e1 _ hu hv hh ht =>
      rw [hu, hv] at hw; simp only [apply] at hw
      injection hw with hw1 hw2
      have a1 := (unifyF_sound_aux _ _ _ _ _ _ _ hs hh).1
      have x1 := unifyF_mgu_aux _ _ _ _ _ _ _ hs hh θ hx hw1
      exact ih _ _ _ _ a1 ht θ x1 hw2
    | comp g a1 a2 _ hu hv ha =>
      rw [hu, hv] at hw; simp only [apply] at hw
      injection hw with _ hw2
      exact ih _ _ _ _ hs ha θ hx hw2
    | compNe g1 g2 a1 a2 hu hv hne =>
      rw [hu, hv] at hw; simp only [apply] at hw
      injection hw with hw1 _; exact hne hw1
    | clash hu hv hne =>
      have := congrArg ctorId hw
      rw [ctorId_apply hu, ctorId_apply hv] at this
      exact hne this


theorem unifyF_unbound_aux : ∀ (n : Nat) (σ σ' : Subst) (e e' : Ext1) (u v : Term), Solved σ →
    unifyF n σ e u v = some (some (σ', e')) → ∀ y, σ' y = .var y → σ y = .var y := by
  intro n
  induction n with
  | zero => intro σ σ' e e' u v _ h; simp [unifyF] at h
  | succ n ih =>
    intro σ σ' e e' u v hs h y hy
    have st := unifyF_step hs h
    cases st with
    | same x hu hv => exact hy
    | valEq a hu hv => exact hy
    | nilnil hu hv => exact hy
    | bindL x hu hv ho => exact bind_unbound hs (apply_apply_solved hs v) y hy
    | bindR x hv hu ho => exact bind_unbound hs (apply_apply_solved hs u) y hy
    | consOk h1 t1 h2 t2 σ1 e1 _ hu hv hh ht =>
      have a1 := (unifyF_sound_aux _ _ _ _ _ _ _ hs hh).1
      exact ih _ _ _ _ _ _ hs hh y (ih _ _ _ _ _ _ a1 ht y hy)
    | comp g a1 a2 _ hu hv ha => exact ih _ _ _ _ _ _ hs ha y hy

theorem bind_ext_iff {σ θ : Subst} {x : Nat} {t : Term} (hx : σ x = .var x)
    (hxt : Ext σ θ) : Ext (bindS x t σ) θ ↔ ∀ p ∈ [(x, t)], apply θ (.var p.1) = apply θ p.2 := by
  constructor
  · intro h p hp
    simp at hp; subst hp
    have := h (.var x)
    simp only [apply] at this ⊢
    rw [← this]; simp [bindS, hx, apply, sub1]
  · intro h
    exact ext_bind hxt (by simpa [apply] using h)

theorem unifyF_ext_aux : ∀ (n : Nat) (σ σ' : Subst) (e e' : Ext1) (u v : Term), Solved σ →
    unifyF n σ e u v = some (some (σ', e')) →
    ∃ δ : Ext1, e' = δ ++ e ∧
      (∀ θ : Subst, Ext σ θ → (Ext σ' θ ↔ ∀ p ∈ δ, apply θ (.var p.1) = apply θ p.2)) ∧
      (∀ p ∈ δ, σ p.1 = .var p.1) ∧
      (δ = [] → σ' = σ) := by
  intro n
  induction n with
  | zero => intro σ σ' e e' u v _ h; simp [unifyF] at h
  | succ n ih =>
    intro σ σ' e e' u v hs h
    have st := unifyF_step hs h
    have triv : ∃ δ : Ext1, e = δ ++ e ∧
      (∀ θ : Subst, Ext σ θ → (Ext σ θ ↔ ∀ p ∈ δ, apply θ (.var p.1) = apply θ p.2)) ∧
      (∀ p ∈ δ, σ p.1 = .var p.1) ∧ (δ = [] → σ = σ) :=
      ⟨[], rfl, fun θ hx => by simp [hx], by simp, fun _ => rfl⟩
    cases st with
    | same x hu hv => exact triv
    | valEq a hu hv => exact triv
    | nilnil hu hv => exact triv
    | bindL x hu hv ho =>
      have hx := walk_normal hs u x hu
      exact ⟨[(x, apply σ v)], rfl, fun θ hxt => bind_ext_iff hx hxt, by simpa using hx, by simp⟩
    | bindR y hv hu ho =>
      have hy := walk_normal hs v y hv
      exact ⟨[(y, apply σ u)], rfl, fun θ hxt => bind_ext_iff hy hxt, by simpa using hy, by simp⟩
    | consOk h1 t1 h2 t2 σ1 e1 _ hu hv hh ht =>
      obtain ⟨a1, b1, _⟩ := unifyF_sound_aux _ _ _ _ _ _ _ hs hh
      obtain ⟨_, b2, _⟩ := unifyF_sound_aux _ _ _ _ _ _ _ a1 ht
      obtain ⟨δ1, he1, hi1, hu1, hn1⟩ := ih _ _ _ _ _ _ hs hh
      obtain ⟨δ2, he2, hi2, hu2, hn2⟩ := ih _ _ _ _ _ _ a1 ht
      refine ⟨δ2 ++ δ1, by rw [he2, he1, List.append_assoc], ?_, ?_, ?_⟩
      · intro θ hxt
        constructor
        · intro hx' p hp
          have hx1 : Ext σ1 θ := Ext.trans b2 hx'
          rcases List.mem_append.mp hp with hp | hp
          · exact (hi2 θ hx1).mp hx' p hp
          · exact (hi1 θ hxt).mp hx1 p hp
        · intro hall
          have hx1 : Ext σ1 θ := (hi1 θ hxt).mpr (fun p hp => hall p (List.mem_append.mpr (Or.inr hp)))
          exact (hi2 θ hx1).mpr (fun p hp => hall p (List.mem_append.mpr (Or.inl hp)))
      · intro p hp
        rcases List.mem_append.mp hp with hp | hp
        · exact unifyF_unbound_aux _ _ _ _ _ _ _ hs hh _ (hu2 p hp)
        · exact hu1 p hp
      · intro hnil
        have := List.append_eq_nil_iff.mp hnil
        rw [hn2 this.1, hn1 this.2]
    | comp g a1 a2 _ hu hv ha => exact ih _ _ _ _ _ _ hs ha

theorem unifyF_fuel_mono_aux (k : Nat) : ∀ (n : Nat) (σ : Subst) (e : Ext1) (u v : Term)
    (r : Option (Subst × Ext1)), unifyF n σ e u v = some r → unifyF (n + k) σ e u v = some r := by
  intro n
  induction n with
  | zero => intro σ e u v r h; simp [unifyF] at h
  | succ n ih =>
    intro σ e u v r h
    rw [show n + 1 + k = (n + k) + 1 by omega]
    unfold unifyF at h ⊢
    generalize walk σ u = wu at *
    generalize walk σ v = wv at *
    cases wu <;> cases wv <;> simp only [] at h ⊢ <;> try exact h
    case cons.cons h1 t1 h2 t2 =>
      cases hh : unifyF n σ e h1 h2 with
      | none => rw [hh] at h; simp at h
      | some r1 =>
        rw [hh] at h; rw [ih _ _ _ _ _ hh]
        cases r1 with
        | none => exact h
        | some p => obtain ⟨σ1, e1⟩ := p; simp only [] at h ⊢; exact ih _ _ _ _ _ h
    case comp.comp g1 a1 g2 a2 =>
      split
      · rename_i hg; rw [if_pos hg] at h; exact ih _ _ _ _ _ h
      · rename_i hg; rw [if_neg hg] at h; exact h

theorem occurs_apply_unbound {σ : Subst} {x : Nat} (hx : σ x = .var x) : ∀ {s : Term},
    occurs x s = true → occurs x (apply σ s) = true := by
  intro s
  induction s with
  | var y => intro h; simp [occurs] at h; subst h; simp [apply, hx, occurs]
  | cons a b ih1 ih2 =>
    intro h; simp only [occurs, Bool.or_eq_true, apply] at h ⊢
    rcases h with h | h
    · exact Or.inl (ih1 h)
    · exact Or.inr (ih2 h)
  | comp g a ih => intro h; simp only [occurs, apply] at h ⊢; exact ih h
  | _ => intro h; simp [occurs] at h

/-! ### main results -/

/-- the empty substitution is solved -/
theorem solved_id : Solved Subst.id := by
  intro x; simp [Subst.id, apply]

/-- a solved substitution is acyclic: a bound variable does not occur in its own image -/
theorem solved_acyclic {σ : Subst} (hs : Solved σ) (x : Nat) :
    σ x = .var x ∨ occurs x (σ x) = false := by
  cases ho : occurs x (σ x) with
  | false => exact Or.inr rfl
  | true =>
    left
    cases hv : (σ x).isVar with
    | false =>
      have := size_occurs_lt (θ := σ) ho hv
      rw [hs x] at this; omega
    | true =>
      cases hσ : σ x with
      | var y => rw [hσ] at ho; simp [occurs] at ho; rw [ho]
      | _ => rw [hσ] at hv; simp [isVar] at hv

/-- `apply` of a solved substitution is idempotent on every term -/
theorem apply_idem {σ : Subst} (hs : Solved σ) (s : Term) : apply σ (apply σ s) = apply σ s :=
  apply_apply_solved hs s

/-- results do not depend on the amount of fuel once there is enough -/
theorem unifyF_fuel_mono (n k : Nat) (σ : Subst) (e : Ext1) (u v : Term) (r : Option (Subst × Ext1))
    (h : unifyF n σ e u v = some r) : unifyF (n + k) σ e u v = some r :=
  unifyF_fuel_mono_aux k n σ e u v r h

/-- soundness: success yields a solved extension of σ that unifies u and v -/
theorem unifyF_sound (n : Nat) (σ σ' : Subst) (e e' : Ext1) (u v : Term) (hs : Solved σ)
    (h : unifyF n σ e u v = some (some (σ', e'))) :
    Solved σ' ∧ Ext σ σ' ∧ Unifies σ' u v := unifyF_sound_aux n σ σ' e e' u v hs h

/-- most generality: every unifier of u,v that is an instance of σ is an instance of σ' -/
theorem unifyF_mgu (n : Nat) (σ σ' : Subst) (e e' : Ext1) (u v : Term) (hs : Solved σ)
    (h : unifyF n σ e u v = some (some (σ', e'))) :
    ∀ θ : Subst, Ext σ θ → Unifies θ u v → Ext σ' θ := unifyF_mgu_aux n σ σ' e e' u v hs h

/-- completeness of failure: if unification fails there is no unifier consistent with σ -/
theorem unifyF_fail (n : Nat) (σ : Subst) (e : Ext1) (u v : Term) (hs : Solved σ)
    (h : unifyF n σ e u v = some none) :
    ¬ ∃ θ : Subst, Ext σ θ ∧ Unifies θ u v := by
  rintro ⟨θ, hx, hun⟩
  exact unifyF_fail_aux n σ e u v hs h θ hx hun

/-- the extension returned is `δ ++ e` where δ, read as equations, characterises exactly the
    instances of σ' among the instances of σ; every pair binds a variable that was unbound in σ -/
theorem unifyF_ext (n : Nat) (σ σ' : Subst) (e e' : Ext1) (u v : Term) (hs : Solved σ)
    (h : unifyF n σ e u v = some (some (σ', e'))) :
    ∃ δ : Ext1, e' = δ ++ e ∧
      (∀ θ : Subst, Ext σ θ → (Ext σ' θ ↔ ∀ p ∈ δ, apply θ (.var p.1) = apply θ p.2)) ∧
      (∀ p ∈ δ, σ p.1 = .var p.1) ∧
      (δ = [] → σ' = σ) := unifyF_ext_aux n σ σ' e e' u v hs h

/-- the occurs check refuses to bind an unbound variable to a non-variable term containing it -/
theorem unifyF_occurs_refused (n : Nat) (σ : Subst) (e : Ext1) (x : Nat) (t : Term)
    (hx : σ x = .var x) (hnv : (walk σ t).isVar = false) (ho : occurs x (apply σ t) = true) :
    unifyF (n + 1) σ e (.var x) t = some none := by
  have ho' : occurs x (apply σ (walk σ t)) = true := by
    cases t with
    | var z => simp only [walk, apply] at ho ⊢; exact occurs_apply_unbound hx ho
    | _ => exact ho
  unfold unifyF
  rw [show walk σ (.var x) = .var x from hx]
  generalize walk σ t = wt at *
  cases wt
  case var => simp [isVar] at hnv
  all_goals simp [ho']

/-! ### termination -/

theorem occurs_apply_sub1 {x y : Nat} {t : Term} : ∀ {s : Term},
    occurs y (apply (sub1 x t) s) = true → occurs y s = true ∨ occurs y t = true := by
  intro s
  induction s with
  | var z =>
    intro h
    by_cases hz : z = x
    · subst hz; simp [apply, sub1] at h; exact Or.inr h
    · simp [apply, sub1, hz] at h; exact Or.inl h
  | cons a b ih1 ih2 =>
    intro h; simp only [occurs, Bool.or_eq_true, apply] at h ⊢
    rcases h with h | h
    · rcases ih1 h with h | h
      · exact Or.inl (Or.inl h)
      · exact Or.inr h
    · rcases ih2 h with h | h
      · exact Or.inl (Or.inr h)
      · exact Or.inr h
  | comp g a ih => intro h; simp only [occurs, apply] at h ⊢; exact ih h
  | _ => intro h; simp [apply, occurs] at h

theorem apply_walk_cons {σ : Subst} (hs : Solved σ) {u h t : Term} (hu : walk σ u = .cons h t) :
    apply σ u = .cons (apply σ h) (apply σ t) := by
  rw [← walk_eq_apply_top hs u, hu]; rfl

theorem apply_walk_comp {σ : Subst} (hs : Solved σ) {u a : Term} {g : Nat} (hu : walk σ u = .comp g a) :
    apply σ u = .comp g (apply σ a) := by
  rw [← walk_eq_apply_top hs u, hu]; rfl

theorem unifyF_occ_aux : ∀ (n : Nat) (σ σ' : Subst) (e e' : Ext1) (u v : Term), Solved σ →
    unifyF n σ e u v = some (some (σ', e')) → ∀ (s : Term) (y : Nat), occurs y (apply σ' s) = true →
      occurs y (apply σ s) = true ∨ occurs y (apply σ u) = true ∨ occurs y (apply σ v) = true := by
  intro n
  induction n with
  | zero => intro σ σ' e e' u v _ h; simp [unifyF] at h
  | succ n ih =>
    intro σ σ' e e' u v hs h s y hy
    have st := unifyF_step hs h
    cases st with
    | same x hu hv => exact Or.inl hy
    | valEq a hu hv => exact Or.inl hy
    | nilnil hu hv => exact Or.inl hy
    | bindL x hu hv ho =>
      rw [apply_bindS] at hy
      rcases occurs_apply_sub1 hy with h | h
      · exact Or.inl h
      · exact Or.inr (Or.inr h)
    | bindR x hv hu ho =>
      rw [apply_bindS] at hy
      rcases occurs_apply_sub1 hy with h | h
      · exact Or.inl h
      · exact Or.inr (Or.inl h)
    | consOk h1 t1 h2 t2 σ1 e1 _ hu hv hh ht =>
      have a1 := (unifyF_sound_aux _ _ _ _ _ _ _ hs hh).1
      have i1 := ih _ _ _ _ _ _ hs hh
      have i2 := ih _ _ _ _ _ _ a1 ht s y hy
      rw [apply_walk_cons hs hu, apply_walk_cons hs hv]
      simp only [occurs, Bool.or_eq_true]
      rcases i2 with h | h | h
      · rcases i1 _ _ h with h | h | h <;> simp [h]
      · rcases i1 _ _ h with h | h | h <;> simp [h]
      · rcases i1 _ _ h with h | h | h <;> simp [h]
    | comp g a1 a2 _ hu hv ha =>
      rw [apply_walk_comp hs hu, apply_walk_comp hs hv]
      simp only [occurs]
      exact ih _ _ _ _ _ _ hs ha s y hy

theorem unifyF_progress_aux : ∀ (n : Nat) (σ σ' : Subst) (e e' : Ext1) (u v : Term), Solved σ →
    unifyF n σ e u v = some (some (σ', e')) →
    σ' = σ ∨ ∃ x, (occurs x (apply σ u) = true ∨ occurs x (apply σ v) = true) ∧
      σ x = .var x ∧ σ' x ≠ .var x := by
  intro n
  induction n with
  | zero => intro σ σ' e e' u v _ h; simp [unifyF] at h
  | succ n ih =>
    intro σ σ' e e' u v hs h
    have st := unifyF_step hs h
    cases st with
    | same x hu hv => exact Or.inl rfl
    | valEq a hu hv => exact Or.inl rfl
    | nilnil hu hv => exact Or.inl rfl
    | bindL x hu hv ho =>
      have hx := walk_normal hs u x hu
      refine Or.inr ⟨x, Or.inl ?_, hx, ?_⟩
      · rw [← walk_eq_apply_top hs u, hu]; simp [apply, hx, occurs]
      · intro hb
        have : bindS x (apply σ v) σ x = apply σ v := by simp [bindS, hx, apply, sub1]
        rw [this] at hb; rw [hb] at ho; simp [occurs] at ho
    | bindR x hv hu ho =>
      have hx := walk_normal hs v x hv
      refine Or.inr ⟨x, Or.inr ?_, hx, ?_⟩
      · rw [← walk_eq_apply_top hs v, hv]; simp [apply, hx, occurs]
      · intro hb
        have : bindS x (apply σ u) σ x = apply σ u := by simp [bindS, hx, apply, sub1]
        rw [this] at hb; rw [hb] at ho; simp [occurs] at ho
    | consOk h1 t1 h2 t2 σ1 e1 _ hu hv hh ht =>
      have a1 := (unifyF_sound_aux _ _ _ _ _ _ _ hs hh).1
      rw [apply_walk_cons hs hu, apply_walk_cons hs hv]
      simp only [occurs, Bool.or_eq_true]
      rcases ih _ _ _ _ _ _ hs hh with h1' | ⟨x, hox, hx, hx1⟩
      · subst h1'
        rcases ih _ _ _ _ _ _ a1 ht with h2' | ⟨x, hox, hx, hx1⟩
        · exact Or.inl h2'
        · refine Or.inr ⟨x, ?_, hx, hx1⟩
          rcases hox with h | h <;> simp [h]
      · refine Or.inr ⟨x, ?_, hx, ?_⟩
        · rcases hox with h | h <;> simp [h]
        · intro hc; exact hx1 (unifyF_unbound_aux _ _ _ _ _ _ _ a1 ht x hc)
    | comp g a1 a2 _ hu hv ha =>
      rw [apply_walk_comp hs hu, apply_walk_comp hs hv]
      simp only [occurs]
      exact ih _ _ _ _ _ _ hs ha


theorem unifyF_succ_ne_none {n : Nat} {σ : Subst} {e : Ext1} {u v : Term}
    (hc : ∀ h1 t1 h2 t2, walk σ u = .cons h1 t1 → walk σ v = .cons h2 t2 →
      ∃ r, unifyF n σ e h1 h2 = some r ∧
        ∀ σ1 e1, r = some (σ1, e1) → unifyF n σ1 e1 t1 t2 ≠ none)
    (hp : ∀ g a1 a2, walk σ u = .comp g a1 → walk σ v = .comp g a2 → unifyF n σ e a1 a2 ≠ none) :
    unifyF (n + 1) σ e u v ≠ none := by
  unfold unifyF
  generalize walk σ u = wu at *
  generalize walk σ v = wv at *
  cases wu <;> cases wv <;> simp only []
  case cons.cons h1 t1 h2 t2 =>
    obtain ⟨r, hr, hr2⟩ := hc _ _ _ _ rfl rfl
    rw [hr]
    cases r with
    | none => simp
    | some p => exact hr2 p.1 p.2 rfl
  case comp.comp g1 a1 g2 a2 =>
    split
    · rename_i hg; subst hg; exact hp _ _ _ rfl rfl
    · simp
  all_goals first
    | (split <;> simp)
    | simp

def cntU (L : List Nat) (σ : Subst) : Nat := (L.filter fun x => decide (σ x = .var x)).length

theorem cntU_le {σ σ' : Subst} (hm : ∀ x, σ' x = .var x → σ x = .var x) (L : List Nat) :
    cntU L σ' ≤ cntU L σ := by
  induction L with
  | nil => simp [cntU]
  | cons a L ih =>
    unfold cntU at ih ⊢
    simp only [List.filter_cons]
    by_cases h' : σ' a = .var a
    · simp [h', hm a h']; exact ih
    · by_cases h : σ a = .var a <;> simp [h, h'] <;> omega

theorem cntU_lt {σ σ' : Subst} (hm : ∀ x, σ' x = .var x → σ x = .var x) {x : Nat}
    (hx : σ x = .var x) (hx' : σ' x ≠ .var x) : ∀ (L : List Nat), x ∈ L → cntU L σ' < cntU L σ := by
  intro L
  induction L with
  | nil => intro h; cases h
  | cons a L ih =>
    intro hmem
    have hle := cntU_le hm L
    unfold cntU at ih hle ⊢
    simp only [List.filter_cons]
    by_cases hax : a = x
    · subst hax; simp [hx, hx']; omega
    · have hin : x ∈ L := by
        rcases List.mem_cons.mp hmem with h | h
        · exact absurd h.symm hax
        · exact h
      have := ih hin
      by_cases h' : σ' a = .var a
      · simp [h', hm a h']; exact this
      · by_cases h : σ a = .var a <;> simp [h, h'] <;> omega

theorem size_pos (t : Term) : 0 < size t := by
  cases t <;> simp [size]

theorem unifyF_terminates_aux (L : List Nat) : ∀ (k s : Nat) (σ : Subst) (e : Ext1) (u v : Term),
    Solved σ → (∀ y, occurs y (apply σ u) = true ∨ occurs y (apply σ v) = true → y ∈ L) →
    cntU L σ ≤ k → size (apply σ u) + size (apply σ v) ≤ s → ∃ n, unifyF n σ e u v ≠ none := by
  intro k
  induction k using Nat.strongRecOn with
  | _ k ihk =>
    intro s
    induction s with
    | zero =>
      intro σ e u v _ _ _ hsz
      have := size_pos (apply σ u); omega
    | succ s ihs =>
      intro σ e u v hs hL hk hsz
      cases hwu : walk σ u with
      | cons h1 t1 =>
        cases hwv : walk σ v with
        | cons h2 t2 =>
          have hU := apply_walk_cons hs hwu
          have hV := apply_walk_cons hs hwv
          rw [hU, hV] at hsz hL
          simp only [size] at hsz
          simp only [occurs, Bool.or_eq_true] at hL
          obtain ⟨n1, hn1⟩ := ihs σ e h1 h2 hs
            (fun y hy => hL y (by rcases hy with h | h <;> simp [h])) hk (by omega)
          cases hr : unifyF n1 σ e h1 h2 with
          | none => exact absurd hr hn1
          | some r =>
            cases r with
            | none =>
              refine ⟨n1 + 1, unifyF_succ_ne_none ?_ ?_⟩
              · intro a b c d ha hb
                rw [hwu] at ha; rw [hwv] at hb; cases ha; cases hb
                exact ⟨none, hr, by intro _ _ hc; cases hc⟩
              · intro g a1 a2 ha; rw [hwu] at ha; cases ha
            | some p =>
              obtain ⟨σ1, e1⟩ := p
              have a1 := (unifyF_sound_aux _ _ _ _ _ _ _ hs hr).1
              have hmono := unifyF_unbound_aux _ _ _ _ _ _ _ hs hr
              have hocc := unifyF_occ_aux _ _ _ _ _ _ _ hs hr
              have hL1 : ∀ y, occurs y (apply σ1 t1) = true ∨ occurs y (apply σ1 t2) = true → y ∈ L := by
                intro y hy
                apply hL y
                rcases hy with h | h
                · rcases hocc _ _ h with h | h | h <;> simp [h]
                · rcases hocc _ _ h with h | h | h <;> simp [h]
              have tail : ∃ n2, unifyF n2 σ1 e1 t1 t2 ≠ none := by
                rcases unifyF_progress_aux _ _ _ _ _ _ _ hs hr with heq | ⟨x, hox, hx, hx1⟩
                · subst heq
                  exact ihs σ1 e1 t1 t2 hs
                    (fun y hy => hL y (by rcases hy with h | h <;> simp [h])) hk (by omega)
                · have hxL : x ∈ L := hL x (by rcases hox with h | h <;> simp [h])
                  have hlt := cntU_lt hmono hx hx1 L hxL
                  exact ihk (cntU L σ1) (by omega) _ σ1 e1 t1 t2 a1 hL1 (Nat.le_refl _) (Nat.le_refl _)
              obtain ⟨n2, hn2⟩ := tail
              refine ⟨n1 + n2 + 1, unifyF_succ_ne_none ?_ ?_⟩
              · intro a b c d ha hb
                rw [hwu] at ha; rw [hwv] at hb; cases ha; cases hb
                refine ⟨_, unifyF_fuel_mono _ n2 _ _ _ _ _ hr, ?_⟩
                intro σ1' e1' hc; cases hc
                cases hr2 : unifyF n2 σ1 e1 t1 t2 with
                | none => exact absurd hr2 hn2
                | some r2 =>
                  have := unifyF_fuel_mono _ n1 _ _ _ _ _ hr2
                  rw [Nat.add_comm] at this
                  rw [this]; simp
              · intro g a1 a2 ha; rw [hwu] at ha; cases ha
        | _ =>
          refine ⟨1, unifyF_succ_ne_none ?_ ?_⟩
          · intro a b c d ha hb; rw [hwu] at ha; rw [hwv] at hb; first | (cases ha; done) | (cases hb; done)
          · intro g a1 a2 ha hb; rw [hwu] at ha; rw [hwv] at hb; first | (cases ha; done) | (cases hb; done)
      | comp g a1 =>
        cases hwv : walk σ v with
        | comp g2 a2 =>
          have hU := apply_walk_comp hs hwu
          have hV := apply_walk_comp hs hwv
          rw [hU, hV] at hsz hL
          simp only [size] at hsz
          simp only [occurs] at hL
          obtain ⟨n1, hn1⟩ := ihs σ e a1 a2 hs hL hk (by omega)
          refine ⟨n1 + 1, unifyF_succ_ne_none ?_ ?_⟩
          · intro a b c d ha; rw [hwu] at ha; cases ha
          · intro g' b1 b2 ha hb
            rw [hwu] at ha; rw [hwv] at hb; cases ha; cases hb
            exact hn1
        | _ =>
          refine ⟨1, unifyF_succ_ne_none ?_ ?_⟩
          · intro a b c d ha hb; rw [hwu] at ha; rw [hwv] at hb; first | (cases ha; done) | (cases hb; done)
          · intro g a1 a2 ha hb; rw [hwu] at ha; rw [hwv] at hb; first | (cases ha; done) | (cases hb; done)
      | _ =>
        refine ⟨1, unifyF_succ_ne_none ?_ ?_⟩
        · intro a b c d ha; rw [hwu] at ha; cases ha
        · intro g a1 a2 ha; rw [hwu] at ha; cases ha

theorem mem_vars_of_occurs {y : Nat} : ∀ {t : Term}, occurs y t = true → y ∈ vars t := by
  intro t
  induction t with
  | var z => intro h; simp [occurs] at h; simp [vars, h]
  | cons a b ih1 ih2 =>
    intro h; simp only [occurs, Bool.or_eq_true] at h
    simp only [vars, List.mem_append]
    rcases h with h | h
    · exact Or.inl (ih1 h)
    · exact Or.inr (ih2 h)
  | comp g a ih => intro h; simp only [occurs] at h; simp only [vars]; exact ih h
  | _ => intro h; simp [occurs] at h

/-- termination: with enough fuel `unifyF` always returns a definite answer -/
theorem unifyF_terminates (σ : Subst) (e : Ext1) (u v : Term) (hs : Solved σ) :
    ∃ n, unifyF n σ e u v ≠ none :=
  unifyF_terminates_aux (vars (apply σ u) ++ vars (apply σ v)) _ _ σ e u v hs
    (fun y hy => by
      rcases hy with h | h
      · exact List.mem_append.mpr (Or.inl (mem_vars_of_occurs h))
      · exact List.mem_append.mpr (Or.inr (mem_vars_of_occurs h)))
    (Nat.le_refl _) (Nat.le_refl _)
end Pv
