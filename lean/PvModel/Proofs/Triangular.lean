/-
  The TRIANGULAR algorithm of the code (Model/Triangular.lean) refines the SOLVED-FORM model (Model/Unify.lean).

  `absT τ` is the solved form a triangular substitution stands for, defined by recursion on the list of bindings
  (no walking, no fuel).  Under the invariant `TriOK` that `unify_rec` maintains (every binding was made on an unbound
  variable, to a walked term, after the occurs check) we prove:
    * `walkT_spec`     — `walk` terminates within `length + 1` steps and returns a walked term with the same meaning;
    * `occursT_spec`   — `occurs_check(x, t)` is `occurs x (walk_star t)`;
    * `walkStarT_spec` — `walk_star` is `apply (absT τ)`;
    * `unifyT_refines` — `unify_rec` on `τ` succeeds / fails exactly as `unifyF` on `absT τ`, the new substitution
                         stands for the new solved form, the invariant is kept, and the extension lists correspond.
-/
import PvModel.Model.Triangular
import PvModel.Proofs.Unify
namespace Pv
open Term

/-- the solved form a triangular substitution stands for -/
def absT : TSub → Subst
  | [] => Subst.id
  | (x, t) :: τ => bindS x (apply (absT τ) t) (absT τ)

/-- `t` is walked: not a bound variable -/
def Walked (τ : TSub) (t : Term) : Prop := ∀ y, t = .var y → τ.get y = none

/-- the invariant of `unify_rec`: each binding was made on an unbound variable, to a walked term, after the occurs check -/
inductive TriOK : TSub → Prop
  | nil : TriOK []
  | cons {x : Nat} {t : Term} {τ : TSub} : TriOK τ → τ.get x = none → Walked τ t →
      occurs x (apply (absT τ) t) = false → TriOK ((x, t) :: τ)

/-- the solved-form extension list of the bindings `new` made on top of `τ` (newest first) -/
def extF : TSub → TSub → Ext1
  | [], _ => []
  | (x, t) :: new, τ => (x, apply (absT (new ++ τ)) t) :: extF new τ

theorem extF_append (a b τ : TSub) : extF (a ++ b) τ = extF a (b ++ τ) ++ extF b τ := by
  induction a with
  | nil => rfl
  | cons p a ih => obtain ⟨x, t⟩ := p; simp [extF, ih, List.append_assoc]

theorem absT_unbound {τ : TSub} {x : Nat} (h : τ.get x = none) : absT τ x = .var x := by
  induction τ with
  | nil => rfl
  | cons p τ ih =>
    obtain ⟨z, s⟩ := p
    simp only [TSub.get] at h
    split at h
    · cases h
    · rename_i hz
      show apply (sub1 z _) (absT τ x) = _
      rw [ih h]
      simp [apply, sub1]
      intro hx; exact absurd hx.symm hz

theorem TriOK.solved {τ : TSub} (h : TriOK τ) : Solved (absT τ) := by
  induction h with
  | nil => exact solved_id
  | cons _ hx _ ho ih => exact (bind_ok ih (absT_unbound hx) (apply_apply_solved ih _) ho).1

theorem TriOK.ext_cons {x : Nat} {t : Term} {τ : TSub} (h : TriOK ((x, t) :: τ)) : Ext (absT τ) (absT ((x, t) :: τ)) := by
  cases h with
  | cons h hx _ ho => exact (bind_ok h.solved (absT_unbound hx) (apply_apply_solved h.solved _) ho).2.1

theorem TriOK.tail {new τ : TSub} (h : TriOK (new ++ τ)) : TriOK τ := by
  induction new with
  | nil => exact h
  | cons p new ih => cases h with | cons h _ _ _ => exact ih h

theorem TriOK.ext_append {new τ : TSub} (h : TriOK (new ++ τ)) : Ext (absT τ) (absT (new ++ τ)) := by
  induction new with
  | nil => exact Ext.refl _ h.solved
  | cons p new ih =>
    obtain ⟨x, t⟩ := p
    have h' : TriOK (new ++ τ) := by cases h with | cons h _ _ _ => exact h
    exact Ext.trans (ih h') (TriOK.ext_cons h)

theorem walked_nonvar {τ : TSub} {t : Term} (h : t.isVar = false) : Walked τ t := by
  intro y hy; subst hy; cases h

/-- one more binding `(z, s)`: a walk from a variable follows the old walk and, if that ended in `z`, steps on to `s` -/
theorem walkT_step {τ : TSub} {z : Nat} {s : Term} (hz : τ.get z = none) (hs : Walked τ s) (hne : s ≠ .var z) :
    ∀ (n x : Nat) (w : Term), walkT n τ (.var x) = some w →
      walkT (n + 1) ((z, s) :: τ) (.var x) = some (if w = .var z then s else w) := by
  intro n
  induction n with
  | zero => intro x w h; simp [walkT] at h
  | succ n ih =>
    intro x w h
    by_cases hxz : z = x
    · subst hxz
      simp only [walkT, hz] at h
      cases h
      simp only [walkT, TSub.get, if_true]
      cases s with
      | var y =>
        have hy : τ.get y = none := hs y rfl
        have hyz : ¬ z = y := fun e => hne (by rw [e])
        simp [walkT, TSub.get, hyz, hy]
      | _ => simp [walkT]
    · simp only [walkT] at h
      show (match TSub.get ((z, s) :: τ) x with
        | none => some (Term.var x)
        | some s' => walkT (n + 1) ((z, s) :: τ) s') = _
      simp only [TSub.get, hxz, if_false]
      cases hg : τ.get x with
      | none =>
        rw [hg] at h; cases h
        have : ¬ (Term.var x = Term.var z) := fun e => hxz (by cases e; rfl)
        simp [this]
      | some r =>
        rw [hg] at h
        simp only
        cases r with
        | var y => exact ih y w h
        | _ =>
          cases n with
          | zero => simp [walkT] at h
          | succ n => simp [walkT] at h; subst h; simp [walkT]

/-- what `walk` returns -/
structure WalkSpec (τ : TSub) (u w : Term) : Prop where
  sem : apply (absT τ) w = apply (absT τ) u
  walked : Walked τ w
  nonvar : u.isVar = false → w = u

theorem walkT_nonvar {τ : TSub} {u : Term} (n : Nat) (h : u.isVar = false) : walkT (n + 1) τ u = some u := by
  cases u with
  | var x => cases h
  | _ => simp [walkT]

/-- `SMap::walk` terminates within `length + 1` steps, on a walked term with the same meaning -/
theorem walkT_spec {τ : TSub} (h : TriOK τ) : ∀ u, ∃ w, τ.walk u = some w ∧ WalkSpec τ u w := by
  induction h with
  | nil =>
    intro u
    cases u with
    | var x => exact ⟨.var x, rfl, ⟨rfl, fun y _ => rfl, fun h => rfl⟩⟩
    | val a => exact ⟨_, rfl, ⟨rfl, walked_nonvar rfl, fun _ => rfl⟩⟩
    | nil => exact ⟨_, rfl, ⟨rfl, walked_nonvar rfl, fun _ => rfl⟩⟩
    | cons a b => exact ⟨_, rfl, ⟨rfl, walked_nonvar rfl, fun _ => rfl⟩⟩
    | comp g a => exact ⟨_, rfl, ⟨rfl, walked_nonvar rfl, fun _ => rfl⟩⟩
  | @cons z s τ hτ hz hs ho ih =>
    intro u
    by_cases hu : u.isVar = false
    · exact ⟨u, walkT_nonvar _ hu, ⟨rfl, walked_nonvar hu, fun _ => rfl⟩⟩
    · cases u with
      | var x =>
        obtain ⟨w, hw, sp⟩ := ih (.var x)
        have hne : s ≠ .var z := by
          intro e; subst e
          simp [apply, absT_unbound hz, occurs] at ho
        refine ⟨_, walkT_step hz hs hne _ x w hw, ?_, ?_, fun h => by cases h⟩
        · have hsol := hτ.solved
          show apply (bindS z _ (absT τ)) _ = apply (bindS z _ (absT τ)) _
          rw [apply_bindS, apply_bindS, ← sp.sem]
          split
          · rename_i e
            subst e
            simp only [apply, absT_unbound hz, sub1, if_true]
            rw [apply_sub1_noocc ho]
          · rfl
        · intro y hy
          split at hy
          · subst hy
            have := hs y rfl
            have hyz : ¬ z = y := fun e => hne (by rw [e])
            simp [TSub.get, hyz, this]
          · rename_i hwz
            subst hy
            have := sp.walked y rfl
            have hyz : ¬ z = y := fun e => hwz (by rw [e])
            simp [TSub.get, hyz, this]
      | _ => simp [isVar] at hu

theorem WalkSpec.var_unbound {τ : TSub} {u : Term} {y : Nat} (h : WalkSpec τ u (.var y)) : absT τ y = .var y :=
  absT_unbound (h.walked y rfl)

/-- `occurs_check(x, t)` is `occurs x (walk_star t)`, with fuel the size of the walked term -/
theorem occursT_spec {τ : TSub} (h : TriOK τ) (x : Nat) : ∀ (n : Nat) (t : Term), size (apply (absT τ) t) ≤ n →
    occursT n τ x t = some (occurs x (apply (absT τ) t)) := by
  intro n
  induction n with
  | zero => intro t ht; have := size_pos (apply (absT τ) t); omega
  | succ n ih =>
    intro t ht
    obtain ⟨w, hw, sp⟩ := walkT_spec h t
    simp only [occursT, hw]
    rw [← sp.sem] at ht ⊢
    cases w with
    | var y => simp [apply, sp.var_unbound, occurs]
    | val a => simp [apply, occurs]
    | nil => simp [apply, occurs]
    | cons a b =>
      simp only [apply, size] at ht
      simp only [apply, occurs]
      rw [ih a (by omega), ih b (by omega)]
      cases occurs x (apply (absT τ) a) <;> simp
    | comp g a =>
      simp only [apply, size] at ht
      simp only [apply, occurs]
      exact ih a (by omega)

/-- `walk_star` is `apply (absT τ)` -/
theorem walkStarT_spec {τ : TSub} (h : TriOK τ) : ∀ (n : Nat) (t : Term), size (apply (absT τ) t) ≤ n →
    walkStarT n τ t = some (apply (absT τ) t) := by
  intro n
  induction n with
  | zero => intro t ht; have := size_pos (apply (absT τ) t); omega
  | succ n ih =>
    intro t ht
    obtain ⟨w, hw, sp⟩ := walkT_spec h t
    simp only [walkStarT, hw]
    rw [← sp.sem] at ht ⊢
    cases w with
    | var y => simp [apply, sp.var_unbound]
    | val a => simp [apply]
    | nil => simp [apply]
    | cons a b =>
      simp only [apply, size] at ht
      simp only [apply]
      rw [ih a (by omega), ih b (by omega)]
    | comp g a =>
      simp only [apply, size] at ht
      simp only [apply]
      rw [ih a (by omega)]; rfl

/-- the solved-form `walk` of any term with the same meaning has the same head as the triangular `walk`, and children
    with the same meaning -/
theorem walk_match {τ : TSub} (h : TriOK τ) {u u' w : Term} (sp : WalkSpec τ u w)
    (hu : apply (absT τ) u' = apply (absT τ) u) :
    match w with
    | .var x => walk (absT τ) u' = .var x
    | .val a => walk (absT τ) u' = .val a
    | .nil => walk (absT τ) u' = .nil
    | .cons a b => ∃ a' b', walk (absT τ) u' = .cons a' b' ∧ apply (absT τ) a' = apply (absT τ) a ∧
        apply (absT τ) b' = apply (absT τ) b
    | .comp g a => ∃ a', walk (absT τ) u' = .comp g a' ∧ apply (absT τ) a' = apply (absT τ) a := by
  have hs := h.solved
  have hq : apply (absT τ) (walk (absT τ) u') = apply (absT τ) w := by rw [walk_eq_apply_top hs, hu, sp.sem]
  have hn : ∀ y, walk (absT τ) u' = .var y → absT τ y = .var y := fun y hy => walk_normal hs u' y hy
  generalize walk (absT τ) u' = q at hq hn
  cases w with
  | var x =>
    have hx := sp.var_unbound
    cases q with
    | var y => have := hn y rfl; simp only [apply, this, hx] at hq; simp only; rw [hq]
    | _ => simp [apply, hx] at hq
  | val a =>
    cases q with
    | var y => have := hn y rfl; simp [apply, this] at hq
    | val b => simp only [apply] at hq; simp only; exact hq
    | _ => simp [apply] at hq
  | nil =>
    cases q with
    | var y => have := hn y rfl; simp [apply, this] at hq
    | nil => rfl
    | _ => simp [apply] at hq
  | cons a b =>
    cases q with
    | var y => have := hn y rfl; simp [apply, this] at hq
    | cons a' b' => simp only [apply, Term.cons.injEq] at hq; exact ⟨a', b', rfl, hq.1, hq.2⟩
    | _ => simp [apply] at hq
  | comp g a =>
    cases q with
    | var y => have := hn y rfl; simp [apply, this] at hq
    | comp g' a' => simp only [apply, Term.comp.injEq] at hq; obtain ⟨e, hq⟩ := hq; subst e; exact ⟨a', rfl, hq⟩
    | _ => simp [apply] at hq

/-- whatever fuel it is given, an occurs check that answers answers `occurs x (walk_star t)` -/
theorem occursT_sound {τ : TSub} (h : TriOK τ) (x : Nat) : ∀ (n : Nat) (t : Term) (b : Bool),
    occursT n τ x t = some b → b = occurs x (apply (absT τ) t) := by
  intro n
  induction n with
  | zero => intro t b hb; simp [occursT] at hb
  | succ n ih =>
    intro t b hb
    obtain ⟨w, hw, sp⟩ := walkT_spec h t
    simp only [occursT, hw] at hb
    rw [← sp.sem]
    cases w with
    | var y => simp only [Option.some.injEq] at hb; simp [apply, sp.var_unbound, occurs, ← hb]
    | val a => simp only [Option.some.injEq] at hb; simp [apply, occurs, ← hb]
    | nil => simp only [Option.some.injEq] at hb; simp [apply, occurs, ← hb]
    | cons a c =>
      simp only [apply, occurs]
      dsimp only at hb
      cases ha : occursT n τ x a with
      | none => rw [ha] at hb; cases hb
      | some ba =>
        rw [ha] at hb
        have e1 := ih a ba ha
        cases ba with
        | true => simp only [Option.some.injEq] at hb; rw [← e1, ← hb]; rfl
        | false => simp only at hb; rw [← e1, ← ih c b hb]; rfl
    | comp g a => simp only [apply, occurs]; dsimp only at hb; exact ih a b hb

/-- the binding step -/
theorem bindT_refines {τ : TSub} (h : TriOK τ) {k x : Nat} {t : Term} {eT : TSub} {r : Option (TSub × TSub)}
    (hx : τ.get x = none) (ht : Walked τ t) (hb : bindT k τ eT x t = some r) :
    (occurs x (apply (absT τ) t) = true ∧ r = none) ∨
    (occurs x (apply (absT τ) t) = false ∧ r = some ((x, t) :: τ, (x, t) :: eT) ∧ TriOK ((x, t) :: τ)) := by
  unfold bindT at hb
  cases ho : occursT k τ x t with
  | none => rw [ho] at hb; cases hb
  | some b =>
    rw [ho] at hb
    have e := occursT_sound h x k t b ho
    cases b with
    | true => simp only [Option.some.injEq] at hb; exact .inl ⟨e.symm, hb.symm⟩
    | false => simp only [Option.some.injEq] at hb; exact .inr ⟨e.symm, hb.symm, .cons h hx ht e.symm⟩

theorem unifyF_var_left {n : Nat} {σ : Subst} {e : Ext1} {u v : Term} {x : Nat} (hu : walk σ u = .var x)
    (hv : (walk σ v).isVar = false) :
    unifyF (n + 1) σ e u v = if occurs x (apply σ (walk σ v)) then some none
      else some (some (bindS x (apply σ (walk σ v)) σ, (x, apply σ (walk σ v)) :: e)) := by
  simp only [unifyF, hu]
  generalize walk σ v = q at hv
  cases q with
  | var _ => cases hv
  | _ => rfl

theorem unifyF_var_right {n : Nat} {σ : Subst} {e : Ext1} {u v : Term} {y : Nat} (hu : (walk σ u).isVar = false)
    (hv : walk σ v = .var y) :
    unifyF (n + 1) σ e u v = if occurs y (apply σ (walk σ u)) then some none
      else some (some (bindS y (apply σ (walk σ u)) σ, (y, apply σ (walk σ u)) :: e)) := by
  simp only [unifyF, hv]
  generalize walk σ u = q at hu
  cases q with
  | var _ => cases hu
  | _ => rfl

theorem unifyF_var_var {n : Nat} {σ : Subst} {e : Ext1} {u v : Term} {x y : Nat} (hu : walk σ u = .var x)
    (hv : walk σ v = .var y) :
    unifyF (n + 1) σ e u v = if x = y then some (some (σ, e)) else some (some (bindS x (.var y) σ, (x, .var y) :: e)) := by
  simp only [unifyF, hu, hv]

theorem walk_match_nonvar {τ : TSub} (h : TriOK τ) {u u' w : Term} (sp : WalkSpec τ u w)
    (hu : apply (absT τ) u' = apply (absT τ) u) (hw : w.isVar = false) : (walk (absT τ) u').isVar = false := by
  have m := walk_match h sp hu
  cases w with
  | var x => cases hw
  | val a => simp only at m; rw [m]; rfl
  | nil => simp only at m; rw [m]; rfl
  | cons a b => obtain ⟨a', b', e, _⟩ := m; rw [e]; rfl
  | comp g a => obtain ⟨a', e, _⟩ := m; rw [e]; rfl

/-- what a result of the triangular `unify_rec` says about the solved-form model run on terms with the same meaning -/
def Refines (n : Nat) (τ eT : TSub) (eF : Ext1) (u' v' : Term) : Option (TSub × TSub) → Prop
  | none => unifyF n (absT τ) eF u' v' = some none
  | some (τ', eT') => ∃ new, τ' = new ++ τ ∧ eT' = new ++ eT ∧ TriOK τ' ∧
      unifyF n (absT τ) eF u' v' = some (some (absT τ', extF new τ ++ eF))

theorem refines_bind {τ : TSub} (hτ : TriOK τ) {k n x : Nat} {t : Term} {eT : TSub} {eF : Ext1} {u' v' : Term}
    {r : Option (TSub × TSub)} (hx : τ.get x = none) (ht : Walked τ t) (hb : bindT k τ eT x t = some r)
    (hF : unifyF (n + 1) (absT τ) eF u' v' = if occurs x (apply (absT τ) t) then some none
      else some (some (bindS x (apply (absT τ) t) (absT τ), (x, apply (absT τ) t) :: eF))) :
    Refines (n + 1) τ eT eF u' v' r := by
  rcases bindT_refines hτ hx ht hb with ⟨ho, e⟩ | ⟨ho, e, ok⟩
  · subst e; simp only [Refines]; rw [hF, ho]; rfl
  · subst e
    refine ⟨[(x, t)], rfl, rfl, ok, ?_⟩
    rw [hF, ho]; rfl

theorem refines_same {τ : TSub} (hτ : TriOK τ) {n : Nat} {eT : TSub} {eF : Ext1} {u' v' : Term}
    (hF : unifyF n (absT τ) eF u' v' = some (some (absT τ, eF))) : Refines n τ eT eF u' v' (some (τ, eT)) :=
  ⟨[], rfl, rfl, hτ, by rw [hF]; rfl⟩

/-- REFINEMENT: the triangular `unify_rec` on `τ`, on any fuel on which it answers, answers as the solved-form model on
    `absT τ` does (on `u`, `v` or any terms with the same meaning under `τ`): failure for failure; on success the new
    substitution is the old one with new bindings in front, keeps the invariant, stands for the model's new solved
    form, and the two extension lists correspond binding for binding. -/
theorem unifyT_refines (k : Nat) : ∀ (n : Nat) (τ eT : TSub) (eF : Ext1) (u v u' v' : Term), TriOK τ →
    apply (absT τ) u' = apply (absT τ) u → apply (absT τ) v' = apply (absT τ) v →
    ∀ r, unifyT k n τ eT u v = some r → Refines n τ eT eF u' v' r := by
  intro n
  induction n with
  | zero => intro τ eT eF u v u' v' _ _ _ r hr; simp [unifyT] at hr
  | succ n ih =>
    intro τ eT eF u v u' v' hτ hu hv r hr
    have hs := hτ.solved
    obtain ⟨wu, hwu, su⟩ := walkT_spec hτ u
    obtain ⟨wv, hwv, sv⟩ := walkT_spec hτ v
    have mu := walk_match hτ su hu
    have mv := walk_match hτ sv hv
    have qu : apply (absT τ) (walk (absT τ) u') = apply (absT τ) wu := by rw [walk_eq_apply_top hs, hu, su.sem]
    have qv : apply (absT τ) (walk (absT τ) v') = apply (absT τ) wv := by rw [walk_eq_apply_top hs, hv, sv.sem]
    have nu := walk_match_nonvar hτ su hu
    have nv := walk_match_nonvar hτ sv hv
    have left : ∀ x, wu = .var x → wv.isVar = false → bindT k τ eT x wv = some r → Refines (n + 1) τ eT eF u' v' r := by
      intro x e hnv hb
      subst e
      refine refines_bind hτ (su.walked x rfl) sv.walked hb ?_
      rw [unifyF_var_left mu (nv hnv), qv]
    have right : ∀ y, wv = .var y → wu.isVar = false → bindT k τ eT y wu = some r → Refines (n + 1) τ eT eF u' v' r := by
      intro y e hnu hb
      subst e
      refine refines_bind hτ (sv.walked y rfl) su.walked hb ?_
      rw [unifyF_var_right (nu hnu) mv, qu]
    have clash : ∀ (a b : Term), walk (absT τ) u' = a → walk (absT τ) v' = b → a.isVar = false → b.isVar = false →
        ctorId a ≠ ctorId b → unifyF (n + 1) (absT τ) eF u' v' = some none := by
      intro a b ea eb ha hb hc
      simp only [unifyF, ea, eb]
      cases a with
      | var _ => cases ha
      | _ =>
        cases b with
        | var _ => cases hb
        | _ => first | (exact absurd rfl hc) | rfl
    simp only [unifyT, hwu, hwv] at hr
    cases wu with
    | var x =>
      cases wv with
      | var y =>
        dsimp only at hr mu mv
        by_cases hxy : x = y
        · subst hxy
          simp only [if_true, Option.some.injEq] at hr
          subst hr
          exact refines_same hτ (by rw [unifyF_var_var mu mv]; simp)
        · simp only [hxy, if_false] at hr
          refine refines_bind hτ (su.walked x rfl) sv.walked hr ?_
          rw [unifyF_var_var mu mv]
          have hy := sv.var_unbound
          have ho : occurs x (apply (absT τ) (.var y)) = false := by simp [apply, hy, occurs, hxy]
          rw [ho]; simp [hxy, apply, hy]
      | val b => exact left x rfl rfl hr
      | nil => exact left x rfl rfl hr
      | cons c d => exact left x rfl rfl hr
      | comp g c => exact left x rfl rfl hr
    | val a =>
      cases wv with
      | var y => exact right y rfl rfl hr
      | val b =>
        dsimp only at hr mu mv
        by_cases hab : a = b
        · subst hab
          simp only [if_true, Option.some.injEq] at hr
          subst hr
          exact refines_same hτ (by simp [unifyF, mu, mv])
        · simp only [hab, if_false, Option.some.injEq] at hr
          subst hr
          simp [Refines, unifyF, mu, mv, hab]
      | nil => simp only [Option.some.injEq] at hr; subst hr; exact clash _ _ mu mv rfl rfl (by simp [ctorId])
      | cons c d =>
        obtain ⟨c', d', e, _⟩ := mv
        simp only [Option.some.injEq] at hr; subst hr; exact clash _ _ mu e rfl rfl (by simp [ctorId])
      | comp g c =>
        obtain ⟨c', e, _⟩ := mv
        simp only [Option.some.injEq] at hr; subst hr; exact clash _ _ mu e rfl rfl (by simp [ctorId])
    | nil =>
      cases wv with
      | var y => exact right y rfl rfl hr
      | val b => simp only [Option.some.injEq] at hr; subst hr; exact clash _ _ mu mv rfl rfl (by simp [ctorId])
      | nil =>
        simp only [Option.some.injEq] at hr
        subst hr
        exact refines_same hτ (by dsimp only at mu mv; simp [unifyF, mu, mv])
      | cons c d =>
        obtain ⟨c', d', e, _⟩ := mv
        simp only [Option.some.injEq] at hr; subst hr; exact clash _ _ mu e rfl rfl (by simp [ctorId])
      | comp g c =>
        obtain ⟨c', e, _⟩ := mv
        simp only [Option.some.injEq] at hr; subst hr; exact clash _ _ mu e rfl rfl (by simp [ctorId])
    | cons a1 b1 =>
      obtain ⟨a1', b1', eu, ha1, hb1⟩ := mu
      cases wv with
      | var y => exact right y rfl rfl hr
      | val b => simp only [Option.some.injEq] at hr; subst hr; exact clash _ _ eu mv rfl rfl (by simp [ctorId])
      | nil => simp only [Option.some.injEq] at hr; subst hr; exact clash _ _ eu mv rfl rfl (by simp [ctorId])
      | comp g c =>
        obtain ⟨c', e, _⟩ := mv
        simp only [Option.some.injEq] at hr; subst hr; exact clash _ _ eu e rfl rfl (by simp [ctorId])
      | cons a2 b2 =>
        obtain ⟨a2', b2', ev, ha2, hb2⟩ := mv
        dsimp only at hr
        cases h1 : unifyT k n τ eT a1 a2 with
        | none => rw [h1] at hr; cases hr
        | some r1 =>
          have i1 := ih τ eT eF a1 a2 a1' a2' hτ ha1 ha2 r1 h1
          cases r1 with
          | none =>
            rw [h1] at hr
            simp only [Option.some.injEq] at hr
            subst hr
            simp only [Refines] at i1 ⊢
            simp only [unifyF, eu, ev, i1]
          | some p1 =>
            obtain ⟨τ1, e1⟩ := p1
            rw [h1] at hr
            dsimp only at hr
            obtain ⟨new1, rfl, rfl, ok1, f1⟩ := i1
            have hx := ok1.ext_append
            have i2 := ih (new1 ++ τ) (new1 ++ eT) (extF new1 τ ++ eF) b1 b2 b1' b2' ok1
              (by rw [← hx b1', hb1, hx b1]) (by rw [← hx b2', hb2, hx b2]) r hr
            cases r with
            | none =>
              simp only [Refines] at i2 ⊢
              simp only [unifyF, eu, ev, f1, i2]
            | some p2 =>
              obtain ⟨τ2, e2⟩ := p2
              obtain ⟨new2, rfl, rfl, ok2, f2⟩ := i2
              refine ⟨new2 ++ new1, by simp, by simp, by simpa using ok2, ?_⟩
              simp only [unifyF, eu, ev, f1, f2, extF_append, List.append_assoc]
    | comp g1 a1 =>
      obtain ⟨a1', eu, ha1⟩ := mu
      cases wv with
      | var y => exact right y rfl rfl hr
      | val b => simp only [Option.some.injEq] at hr; subst hr; exact clash _ _ eu mv rfl rfl (by simp [ctorId])
      | nil => simp only [Option.some.injEq] at hr; subst hr; exact clash _ _ eu mv rfl rfl (by simp [ctorId])
      | cons c d =>
        obtain ⟨c', d', e, _⟩ := mv
        simp only [Option.some.injEq] at hr; subst hr; exact clash _ _ eu e rfl rfl (by simp [ctorId])
      | comp g2 a2 =>
        obtain ⟨a2', ev, ha2⟩ := mv
        dsimp only at hr
        by_cases hg : g1 = g2
        · subst hg
          simp only [if_true] at hr
          have i1 := ih τ eT eF a1 a2 a1' a2' hτ ha1 ha2 r hr
          cases r with
          | none => simp only [Refines] at i1 ⊢; simp only [unifyF, eu, ev, if_true, i1]
          | some p =>
            obtain ⟨τ1, e1⟩ := p
            obtain ⟨new1, rfl, rfl, ok1, f1⟩ := i1
            exact ⟨new1, rfl, rfl, ok1, by simp only [unifyF, eu, ev, if_true, f1]⟩
        · simp only [hg, if_false, Option.some.injEq] at hr
          subst hr
          simp [Refines, unifyF, eu, ev, hg]

theorem bindT_indep {τ : TSub} (h : TriOK τ) {k k' x : Nat} {t : Term} {e : TSub} {r r' : Option (TSub × TSub)}
    (h1 : bindT k τ e x t = some r) (h2 : bindT k' τ e x t = some r') : r = r' := by
  unfold bindT at h1 h2
  cases o1 : occursT k τ x t with
  | none => rw [o1] at h1; cases h1
  | some b1 =>
    cases o2 : occursT k' τ x t with
    | none => rw [o2] at h2; cases h2
    | some b2 =>
      have := (occursT_sound h x k t b1 o1).trans (occursT_sound h x k' t b2 o2).symm
      subst this
      rw [o1] at h1; rw [o2] at h2
      cases b1 <;> simp_all

/-- the answer does not depend on the fuel of the occurs checks -/
theorem unifyT_indep (k k' : Nat) : ∀ (n : Nat) (τ e : TSub) (u v : Term), TriOK τ → ∀ r r',
    unifyT k n τ e u v = some r → unifyT k' n τ e u v = some r' → r = r' := by
  intro n
  induction n with
  | zero => intro τ e u v _ r r' h; simp [unifyT] at h
  | succ n ih =>
    intro τ e u v hτ r r' h1 h2
    obtain ⟨wu, hwu, su⟩ := walkT_spec hτ u
    obtain ⟨wv, hwv, sv⟩ := walkT_spec hτ v
    simp only [unifyT, hwu, hwv] at h1 h2
    cases wu with
    | var x =>
      cases wv with
      | var y =>
        dsimp only at h1 h2
        by_cases hxy : x = y
        · simp only [hxy, if_true, Option.some.injEq] at h1 h2; rw [← h1, ← h2]
        · simp only [hxy, if_false] at h1 h2; exact bindT_indep hτ h1 h2
      | _ => exact bindT_indep hτ h1 h2
    | cons a1 b1 =>
      cases wv with
      | var y => exact bindT_indep hτ h1 h2
      | cons a2 b2 =>
        dsimp only at h1 h2
        cases c1 : unifyT k n τ e a1 a2 with
        | none => rw [c1] at h1; cases h1
        | some r1 =>
          cases c2 : unifyT k' n τ e a1 a2 with
          | none => rw [c2] at h2; cases h2
          | some r2 =>
            have := ih τ e a1 a2 hτ r1 r2 c1 c2
            subst this
            rw [c1] at h1; rw [c2] at h2
            cases r1 with
            | none => simp only [Option.some.injEq] at h1 h2; rw [← h1, ← h2]
            | some p =>
              obtain ⟨τ1, e1⟩ := p
              dsimp only at h1 h2
              have ok1 : TriOK τ1 := by
                obtain ⟨_, _, _, ok, _⟩ := unifyT_refines k n τ e [] a1 a2 a1 a2 hτ rfl rfl _ c1
                exact ok
              exact ih τ1 e1 b1 b2 ok1 r r' h1 h2
      | _ => simp only [Option.some.injEq] at h1 h2; rw [← h1, ← h2]
    | comp g1 a1 =>
      cases wv with
      | var y => exact bindT_indep hτ h1 h2
      | comp g2 a2 =>
        dsimp only at h1 h2
        by_cases hg : g1 = g2
        · simp only [hg, if_true] at h1 h2; exact ih τ e a1 a2 hτ r r' h1 h2
        · simp only [hg, if_false, Option.some.injEq] at h1 h2; rw [← h1, ← h2]
      | _ => simp only [Option.some.injEq] at h1 h2; rw [← h1, ← h2]
    | val a =>
      cases wv with
      | var y => exact bindT_indep hτ h1 h2
      | val b =>
        dsimp only at h1 h2
        by_cases hab : a = b
        · simp only [hab, if_true, Option.some.injEq] at h1 h2; rw [← h1, ← h2]
        · simp only [hab, if_false, Option.some.injEq] at h1 h2; rw [← h1, ← h2]
      | _ => simp only [Option.some.injEq] at h1 h2; rw [← h1, ← h2]
    | nil =>
      cases wv with
      | var y => exact bindT_indep hτ h1 h2
      | _ => simp only [Option.some.injEq] at h1 h2; rw [← h1, ← h2]

theorem bindT_progress {τ : TSub} (h : TriOK τ) (e : TSub) (x : Nat) (t : Term) :
    ∀ k, size (apply (absT τ) t) ≤ k → bindT k τ e x t ≠ none := by
  intro k hk
  unfold bindT
  rw [occursT_spec h x k t hk]
  cases occurs x (apply (absT τ) t) <;> simp

/-- PROGRESS: wherever the solved-form model answers on fuel `n`, the triangular algorithm answers on the same `n`,
    for every occurs-check fuel beyond some `K` — so `unifyT_refines` is never vacuous -/
theorem unifyT_progress : ∀ (n : Nat) (τ eT : TSub) (eF : Ext1) (u v u' v' : Term), TriOK τ →
    apply (absT τ) u' = apply (absT τ) u → apply (absT τ) v' = apply (absT τ) v →
    ∀ rF, unifyF n (absT τ) eF u' v' = some rF → ∃ K, ∀ k, K ≤ k → unifyT k n τ eT u v ≠ none := by
  intro n
  induction n with
  | zero => intro τ eT eF u v u' v' _ _ _ rF h; simp [unifyF] at h
  | succ n ih =>
    intro τ eT eF u v u' v' hτ hu hv rF hF
    obtain ⟨wu, hwu, su⟩ := walkT_spec hτ u
    obtain ⟨wv, hwv, sv⟩ := walkT_spec hτ v
    have mu := walk_match hτ su hu
    have mv := walk_match hτ sv hv
    have bnd : ∀ x t, (∀ k, unifyT k (n + 1) τ eT u v = bindT k τ eT x t) → ∃ K, ∀ k, K ≤ k → unifyT k (n + 1) τ eT u v ≠ none :=
      fun x t e => ⟨size (apply (absT τ) t), fun k hk => by rw [e k]; exact bindT_progress hτ eT x t k hk⟩
    have cst : ∀ c : Option (TSub × TSub), (∀ k, unifyT k (n + 1) τ eT u v = some c) → ∃ K, ∀ k, K ≤ k → unifyT k (n + 1) τ eT u v ≠ none :=
      fun c e => ⟨0, fun k _ => by rw [e k]; simp⟩
    cases wu with
    | var x =>
      cases wv with
      | var y =>
        by_cases hxy : x = y
        · exact cst (some (τ, eT)) (fun k => by simp [unifyT, hwu, hwv, hxy])
        · exact bnd x (.var y) (fun k => by simp [unifyT, hwu, hwv, hxy])
      | val b => exact bnd x (.val b) (fun k => by simp [unifyT, hwu, hwv])
      | nil => exact bnd x .nil (fun k => by simp [unifyT, hwu, hwv])
      | cons c d => exact bnd x (.cons c d) (fun k => by simp [unifyT, hwu, hwv])
      | comp g c => exact bnd x (.comp g c) (fun k => by simp [unifyT, hwu, hwv])
    | val a =>
      cases wv with
      | var y => exact bnd y (.val a) (fun k => by simp [unifyT, hwu, hwv])
      | val b =>
        by_cases hab : a = b
        · exact cst (some (τ, eT)) (fun k => by simp [unifyT, hwu, hwv, hab])
        · exact cst none (fun k => by simp [unifyT, hwu, hwv, hab])
      | nil => exact cst none (fun k => by simp [unifyT, hwu, hwv])
      | cons c d => exact cst none (fun k => by simp [unifyT, hwu, hwv])
      | comp g c => exact cst none (fun k => by simp [unifyT, hwu, hwv])
    | nil =>
      cases wv with
      | var y => exact bnd y .nil (fun k => by simp [unifyT, hwu, hwv])
      | val b => exact cst none (fun k => by simp [unifyT, hwu, hwv])
      | nil => exact cst (some (τ, eT)) (fun k => by simp [unifyT, hwu, hwv])
      | cons c d => exact cst none (fun k => by simp [unifyT, hwu, hwv])
      | comp g c => exact cst none (fun k => by simp [unifyT, hwu, hwv])
    | comp g1 a1 =>
      obtain ⟨a1', eu, ha1⟩ := mu
      cases wv with
      | var y => exact bnd y (.comp g1 a1) (fun k => by simp [unifyT, hwu, hwv])
      | val b => exact cst none (fun k => by simp [unifyT, hwu, hwv])
      | nil => exact cst none (fun k => by simp [unifyT, hwu, hwv])
      | cons c d => exact cst none (fun k => by simp [unifyT, hwu, hwv])
      | comp g2 a2 =>
        obtain ⟨a2', ev, ha2⟩ := mv
        by_cases hg : g1 = g2
        · subst hg
          simp only [unifyF, eu, ev, if_true] at hF
          obtain ⟨K, hK⟩ := ih τ eT eF a1 a2 a1' a2' hτ ha1 ha2 rF hF
          exact ⟨K, fun k hk => by simp only [unifyT, hwu, hwv, if_true]; exact hK k hk⟩
        · exact cst none (fun k => by simp [unifyT, hwu, hwv, hg])
    | cons a1 b1 =>
      obtain ⟨a1', b1', eu, ha1, hb1⟩ := mu
      cases wv with
      | var y => exact bnd y (.cons a1 b1) (fun k => by simp [unifyT, hwu, hwv])
      | val b => exact cst none (fun k => by simp [unifyT, hwu, hwv])
      | nil => exact cst none (fun k => by simp [unifyT, hwu, hwv])
      | comp g c => exact cst none (fun k => by simp [unifyT, hwu, hwv])
      | cons a2 b2 =>
        obtain ⟨a2', b2', ev, ha2, hb2⟩ := mv
        simp only [unifyF, eu, ev] at hF
        cases f1 : unifyF n (absT τ) eF a1' a2' with
        | none => rw [f1] at hF; cases hF
        | some r1F =>
          obtain ⟨K1, hK1⟩ := ih τ eT eF a1 a2 a1' a2' hτ ha1 ha2 r1F f1
          cases t1 : unifyT K1 n τ eT a1 a2 with
          | none => exact absurd t1 (hK1 K1 (Nat.le_refl _))
          | some r1 =>
            have same : ∀ k, K1 ≤ k → unifyT k n τ eT a1 a2 = some r1 := by
              intro k hk
              cases tk : unifyT k n τ eT a1 a2 with
              | none => exact absurd tk (hK1 k hk)
              | some rk => rw [unifyT_indep k K1 n τ eT a1 a2 hτ rk r1 tk t1]
            have rf := unifyT_refines K1 n τ eT eF a1 a2 a1' a2' hτ ha1 ha2 r1 t1
            cases r1 with
            | none =>
              exact ⟨K1, fun k hk => by simp only [unifyT, hwu, hwv, same k hk]; simp⟩
            | some p =>
              obtain ⟨τ1, e1⟩ := p
              obtain ⟨new1, rfl, rfl, ok1, f1'⟩ := rf
              rw [f1'] at f1
              simp only [Option.some.injEq] at f1
              subst f1
              rw [f1'] at hF
              dsimp only at hF
              have hx := ok1.ext_append
              obtain ⟨K2, hK2⟩ := ih (new1 ++ τ) (new1 ++ eT) (extF new1 τ ++ eF) b1 b2 b1' b2' ok1
                (by rw [← hx b1', hb1, hx b1]) (by rw [← hx b2', hb2, hx b2]) rF hF
              refine ⟨max K1 K2, fun k hk => ?_⟩
              simp only [unifyT, hwu, hwv, same k (by omega)]
              exact hK2 k (by omega)

/-- a triangular substitution made by successful unifications from the empty one -/
theorem TriOK.of_unifyT {k n : Nat} {τ e τ' e' : TSub} {u v : Term} (h : TriOK τ)
    (hr : unifyT k n τ e u v = some (some (τ', e'))) : TriOK τ' := by
  obtain ⟨_, _, _, ok, _⟩ := unifyT_refines k n τ e [] u v u v h rfl rfl _ hr
  exact ok

end Pv
