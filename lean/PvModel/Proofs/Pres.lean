/-
  State invariants through the search engine: when every atom of a program keeps a predicate `P` on
  states (and relation bodies are built from such atoms — calls are not unfolded, so recursive relations
  are included), every state the search ever delivers satisfies `P`, under every operator (conjunction,
  both disjunctions, conde, fresh, conda/condu, anyo, closures, state-dependent goals) and in either
  search mode.
-/
import PvModel.Proofs.Stream
namespace Pv
open Strm Goal
variable {St K : Type}

/-- every atom of the goal keeps `P` -/
inductive PresG (P : St → Prop) : Goal St K → Prop where
  | succeed : PresG P .succeed
  | fail : PresG P .fail
  | atom {f} : (∀ a b, P a → f a = some b → P b) → PresG P (.atom f)
  | dyn {fs fg} : (∀ a, P a → P (fs a)) → (∀ a, P a → PresG P (fg a)) → PresG P (.dyn fs fg)
  | conj {g1 g2} : PresG P g1 → PresG P g2 → PresG P (.conj g1 g2)
  | conjD {g1 g2} : PresG P g1 → PresG P g2 → PresG P (.conjD g1 g2)
  | disj {g1 g2} : PresG P g1 → PresG P g2 → PresG P (.disj g1 g2)
  | disjD {g1 g2} : PresG P g1 → PresG P g2 → PresG P (.disjD g1 g2)
  | alt {g r} : PresG P g → PresG P r → PresG P (.alt g r)
  | altD {g r} : PresG P g → PresG P r → PresG P (.altD g r)
  | fresh {g} : PresG P g → PresG P (.fresh g)
  | conda {f r n} : PresG P f → PresG P r → PresG P n → PresG P (.conda f r n)
  | condu {f r n} : PresG P f → PresG P r → PresG P n → PresG P (.condu f r n)
  | anyo {g} : PresG P g → PresG P (.anyo g)
  | call {k} : PresG P (.call k)

/-- every relation body keeps `P` (the state handed to the body included) -/
def PresDefs (P : St → Prop) (defs : K → St → St × Goal St K) : Prop :=
  ∀ k a, P a → P (defs k a).1 ∧ PresG P (defs k a).2

section
variable (P : St → Prop)
mutual
inductive PresS : Strm St K → Prop where
  | empty : PresS .empty
  | unit {a} : P a → PresS (.unit a)
  | cons {a l} : P a → PresL l → PresS (.cons a l)
  | lazy {l} : PresL l → PresS (.lazy l)
inductive PresL : Lz St K → Prop where
  | mplus {l1 l2} : PresL l1 → PresL l2 → PresL (.mplus l1 l2)
  | mplusD {l1 l2} : PresL l1 → PresL l2 → PresL (.mplusD l1 l2)
  | bind {l g} : PresL l → PresG P g → PresL (.bind l g)
  | bindD {l g} : PresL l → PresG P g → PresL (.bindD l g)
  | pause {a g} : P a → PresG P g → PresL (.pause a g)
  | delay {s} : PresS s → PresL (.delay s)
end
end

variable {P : St → Prop}

theorem mplus_pres {s : Strm St K} {l : Lz St K} (hs : PresS P s) (hl : PresL P l) : PresS P (mplus s l) := by
  cases hs with
  | empty => exact .lazy hl
  | unit h => exact .cons h hl
  | cons h h' => exact .cons h (.mplus hl h')
  | lazy h => exact .lazy (.mplus hl h)

theorem mplusD_pres {s : Strm St K} {l : Lz St K} (hs : PresS P s) (hl : PresL P l) : PresS P (mplusD s l) := by
  cases hs with
  | empty => exact .lazy hl
  | unit h => exact .cons h hl
  | cons h h' => exact .cons h (.mplusD h' hl)
  | lazy h => exact .lazy (.mplusD h hl)

theorem bind_pres {s : Strm St K} {g : Goal St K} (hs : PresS P s) (hg : PresG P g) : PresS P (Strm.bind s g) := by
  unfold Strm.bind
  split
  · exact hs
  split
  · exact .empty
  cases hs with
  | empty => exact .empty
  | unit h => exact .lazy (.pause h hg)
  | cons h h' => exact .lazy (.mplus (.pause h hg) (.bind h' hg))
  | lazy h => exact .lazy (.bind h hg)

theorem bindD_pres {s : Strm St K} {g : Goal St K} (hs : PresS P s) (hg : PresG P g) : PresS P (bindD s g) := by
  unfold bindD
  split
  · exact hs
  split
  · exact .empty
  cases hs with
  | empty => exact .empty
  | unit h => exact .lazy (.pause h hg)
  | cons h h' => exact .lazy (.mplusD (.pause h hg) (.bindD h' hg))
  | lazy h => exact .lazy (.bindD h hg)

theorem lazyBind_pres {l : Lz St K} {g : Goal St K} (hl : PresL P l) (hg : PresG P g) : PresS P (lazyBind l g) := by
  unfold lazyBind
  split
  · exact .lazy hl
  split
  · exact .empty
  exact .lazy (.bind hl hg)

theorem lazyBindD_pres {l : Lz St K} {g : Goal St K} (hl : PresL P l) (hg : PresG P g) : PresS P (lazyBindD l g) := by
  unfold lazyBindD
  split
  · exact .lazy hl
  split
  · exact .empty
  exact .lazy (.bindD hl hg)

variable {top : Goal St K → St → Strm St K}

theorem step_pres (hTop : ∀ g a, PresG P g → P a → PresS P (top g a)) :
    ∀ (l : Lz St K), PresL P l → PresS P (step top l)
  | .mplus l1 l2, h => by cases h with | mplus h1 h2 => exact mplus_pres (step_pres hTop l1 h1) h2
  | .mplusD l1 l2, h => by cases h with | mplusD h1 h2 => exact mplusD_pres (step_pres hTop l1 h1) h2
  | .bind l g, h => by cases h with | bind h1 h2 => exact bind_pres (step_pres hTop l h1) h2
  | .bindD l g, h => by cases h with | bindD h1 h2 => exact bindD_pres (step_pres hTop l h1) h2
  | .pause a g, h => by cases h with | pause h1 h2 => exact hTop g a h2 h1
  | .delay s, h => by cases h with | delay h1 => exact h1

theorem peekF_pres (hTop : ∀ g a, PresG P g → P a → PresS P (top g a)) :
    ∀ (n : Nat) (s s' : Strm St K), PresS P s → peekF top n s = some s' → PresS P s' := by
  intro n
  induction n with
  | zero =>
    intro s s' hs h
    cases s <;> simp [peekF] at h <;> subst h <;> exact hs
  | succ n ih =>
    intro s s' hs h
    cases s with
    | lazy l =>
      simp only [peekF] at h
      cases hs with | lazy hl => exact ih _ _ (step_pres hTop l hl) h
    | empty => simp [peekF] at h; subst h; exact hs
    | unit a => simp [peekF] at h; subst h; exact hs
    | cons a l => simp [peekF] at h; subst h; exact hs

theorem truncF_pres (hTop : ∀ g a, PresG P g → P a → PresS P (top g a)) :
    ∀ (n : Nat) (s : Strm St K) (b : St), PresS P s → truncF top n s = some (some b) → P b := by
  intro n
  induction n with
  | zero =>
    intro s b hs h
    cases hs with
    | empty => simp [truncF] at h
    | unit hp => simp [truncF] at h; subst h; exact hp
    | cons hp _ => simp [truncF] at h; subst h; exact hp
    | lazy _ => simp [truncF] at h
  | succ n ih =>
    intro s b hs h
    cases hs with
    | empty => simp [truncF] at h
    | unit hp => simp [truncF] at h; subst h; exact hp
    | cons hp _ => simp [truncF] at h; subst h; exact hp
    | lazy hl => simp only [truncF] at h; exact ih _ _ (step_pres hTop _ hl) h

theorem mkConj_pres {g1 g2 : Goal St K} (h1 : PresG P g1) (h2 : PresG P g2) : PresG P (mkConj g1 g2) := by
  unfold mkConj
  split
  · exact .succeed
  split
  · exact .fail
  exact .conj h1 h2

variable {defs : K → St → St × Goal St K}

theorem start_pres (hD : PresDefs P defs) (hTop : ∀ g a, PresG P g → P a → PresS P (top g a)) (pf : Nat)
    (g : Goal St K) (hg : PresG P g) : ∀ a, P a → PresS P (start defs top pf g a) := by
  induction hg with
  | succeed => intro a ha; simp only [start]; exact .unit ha
  | fail => intro a ha; simp only [start]; exact .empty
  | atom hf =>
    intro a ha; simp only [start]
    split
    · rename_i b e; exact .unit (hf a b ha e)
    · exact .empty
  | dyn h1 h2 ih => intro a ha; simp only [start]; exact ih a ha _ (h1 a ha)
  | conj h1 h2 => intro a ha; simp only [start]; exact lazyBind_pres (.pause ha h1) h2
  | conjD h1 h2 => intro a ha; simp only [start]; exact lazyBindD_pres (.pause ha h1) h2
  | disj h1 h2 => intro a ha; simp only [start]; exact .lazy (.mplus (.pause ha h1) (.pause ha h2))
  | disjD h1 h2 => intro a ha; simp only [start]; exact .lazy (.mplusD (.pause ha h1) (.pause ha h2))
  | alt h1 h2 ih1 ih2 => intro a ha; simp only [start]; exact mplus_pres (ih1 a ha) (.delay (ih2 a ha))
  | altD h1 h2 ih1 ih2 => intro a ha; simp only [start]; exact mplusD_pres (ih1 a ha) (.delay (ih2 a ha))
  | fresh h => intro a ha; simp only [start]; exact .lazy (.pause ha h)
  | conda hf hr hn ihf ihr ihn =>
    intro a ha; simp only [start]
    split
    · exact .lazy (.pause ha (.conda hf hr hn))
    · rename_i s e
      split
      · exact bind_pres (peekF_pres hTop _ _ _ (ihf a ha) e) hr
      · exact ihn a ha
  | condu hf hr hn ihf ihr ihn =>
    intro a ha; simp only [start]
    split
    · exact .lazy (.pause ha (.condu hf hr hn))
    · rename_i b e
      exact bind_pres (.unit (truncF_pres hTop _ _ _ (ihf a ha) e)) hr
    · exact ihn a ha
  | anyo h =>
    intro a ha; simp only [start]
    refine mplus_pres ?_ (.delay (mplus_pres (.lazy (.pause ha (.anyo (mkConj_pres (mkConj_pres h .succeed) .succeed))))
      (.delay .empty)))
    split
    · exact .unit ha
    split
    · exact .empty
    exact .lazy (.pause ha h)
  | call => intro a ha; simp only [start]; exact hTop _ _ (hD _ a ha).2 (hD _ a ha).1

theorem solveAt_pres (hD : PresDefs P defs) (pf : Nat) : ∀ (n : Nat) (g : Goal St K) (a : St),
    PresG P g → P a → PresS P (solveAt defs pf n g a)
  | 0, _, _, hg, ha => .lazy (.pause ha hg)
  | n + 1, g, a, hg, ha => start_pres hD (fun g a hg ha => solveAt_pres hD pf n g a hg ha) pf g hg a ha

mutual
theorem memS_pres (hTop : ∀ g a, PresG P g → P a → PresS P (top g a)) :
    ∀ {b : St} {s : Strm St K}, MemS top b s → PresS P s → P b
  | _, _, .unit _, hs => by cases hs with | unit h => exact h
  | _, _, .head _ _, hs => by cases hs with | cons h _ => exact h
  | _, _, .tail hm, hs => by cases hs with | cons _ hl => exact memL_pres hTop hm hl
  | _, _, .lazy hm, hs => by cases hs with | lazy hl => exact memL_pres hTop hm hl
theorem memL_pres (hTop : ∀ g a, PresG P g → P a → PresS P (top g a)) :
    ∀ {b : St} {l : Lz St K}, MemL top b l → PresL P l → P b
  | _, _, .mplusL hm, hl => by cases hl with | mplus h1 _ => exact memL_pres hTop hm h1
  | _, _, .mplusR hm, hl => by cases hl with | mplus _ h2 => exact memL_pres hTop hm h2
  | _, _, .mplusDL hm, hl => by cases hl with | mplusD h1 _ => exact memL_pres hTop hm h1
  | _, _, .mplusDR hm, hl => by cases hl with | mplusD _ h2 => exact memL_pres hTop hm h2
  | _, _, .pause hm, hl => by cases hl with | pause ha hg => exact memS_pres hTop hm (hTop _ _ hg ha)
  | _, _, .delay hm, hl => by cases hl with | delay hs => exact memS_pres hTop hm hs
  | _, _, .bind hm1 hm2, hl => by
    cases hl with | bind h1 hg => exact memS_pres hTop hm2 (hTop _ _ hg (memL_pres hTop hm1 h1))
  | _, _, .bindD hm1 hm2, hl => by
    cases hl with | bindD h1 hg => exact memS_pres hTop hm2 (hTop _ _ hg (memL_pres hTop hm1 h1))
end

/-- THE INVARIANT THEOREM: every state a program ever delivers — within any number of engine steps, at
    any solver nesting level, finite or infinite search tree — satisfies `P`. -/
theorem program_invariant (hD : PresDefs P defs) (pf M : Nat) (g : Goal St K) (a : St) (hg : PresG P g) (ha : P a)
    (n : Nat) (b : St) (h : b ∈ runF (solveAt defs pf (M + 1)) n (solveAt defs pf (M + 1) g a)) : P b :=
  memS_pres (fun g a hg ha => solveAt_pres hD pf (M + 1) g a hg ha)
    (runF_sound _ (topOK_solveAt defs pf M) n _ b h) (solveAt_pres hD pf (M + 1) g a hg ha)

end Pv

namespace Pv
open Goal
variable {St K : Type} {P : St → Prop}

theorem mkConjD_pres {g1 g2 : Goal St K} (h1 : PresG P g1) (h2 : PresG P g2) : PresG P (mkConjD g1 g2) := by
  unfold mkConjD
  split
  · exact .succeed
  split
  · exact .fail
  exact .conjD h1 h2

theorem conjOfList_pres : ∀ (gs : List (Goal St K)), (∀ g ∈ gs, PresG P g) → PresG P (conjOfList gs)
  | [], _ => .succeed
  | g :: gs, h => mkConj_pres (h g (List.mem_cons_self ..))
      (conjOfList_pres gs fun x hx => h x (List.mem_cons_of_mem _ hx))

theorem conjDOfList_pres : ∀ (gs : List (Goal St K)), (∀ g ∈ gs, PresG P g) → PresG P (conjDOfList gs)
  | [], _ => .succeed
  | g :: gs, h => mkConjD_pres (h g (List.mem_cons_self ..))
      (conjDOfList_pres gs fun x hx => h x (List.mem_cons_of_mem _ hx))

theorem altOfList_pres : ∀ (gs : List (Goal St K)), (∀ g ∈ gs, PresG P g) → PresG P (altOfList gs)
  | [], _ => .fail
  | g :: gs, h => .alt (h g (List.mem_cons_self ..)) (altOfList_pres gs fun x hx => h x (List.mem_cons_of_mem _ hx))

theorem altDOfList_pres : ∀ (gs : List (Goal St K)), (∀ g ∈ gs, PresG P g) → PresG P (altDOfList gs)
  | [], _ => .fail
  | g :: gs, h => .altD (h g (List.mem_cons_self ..)) (altDOfList_pres gs fun x hx => h x (List.mem_cons_of_mem _ hx))

theorem disjOfList_pres : ∀ (gs : List (Goal St K)), (∀ g ∈ gs, PresG P g) → PresG P (disjOfList gs)
  | [], _ => .fail
  | g :: gs, h => .disj (h g (List.mem_cons_self ..)) (disjOfList_pres gs fun x hx => h x (List.mem_cons_of_mem _ hx))

theorem disjDOfList_pres : ∀ (gs : List (Goal St K)), (∀ g ∈ gs, PresG P g) → PresG P (disjDOfList gs)
  | [], _ => .fail
  | g :: gs, h => .disjD (h g (List.mem_cons_self ..)) (disjDOfList_pres gs fun x hx => h x (List.mem_cons_of_mem _ hx))

theorem condeOfClauses_pres (cs : List (List (Goal St K))) (h : ∀ c ∈ cs, ∀ g ∈ c, PresG P g) :
    PresG P (condeOfClauses cs) :=
  altOfList_pres _ fun g hg => by
    obtain ⟨c, hc, rfl⟩ := List.mem_map.1 hg
    exact conjOfList_pres c (h c hc)

theorem condeDOfClauses_pres (cs : List (List (Goal St K))) (h : ∀ c ∈ cs, ∀ g ∈ c, PresG P g) :
    PresG P (condeDOfClauses cs) :=
  altDOfList_pres _ fun g hg => by
    obtain ⟨c, hc, rfl⟩ := List.mem_map.1 hg
    exact conjDOfList_pres c (h c hc)

theorem condaOfClauses_pres : ∀ (cs : List (List (Goal St K))), (∀ c ∈ cs, ∀ g ∈ c, PresG P g) →
    PresG P (condaOfClauses cs)
  | [], _ => .fail
  | [] :: cs, h => by
    simp only [condaOfClauses]
    exact condaOfClauses_pres cs fun c hc => h c (List.mem_cons_of_mem _ hc)
  | (f :: r) :: cs, h => by
    simp only [condaOfClauses]
    have hc := h (f :: r) (List.mem_cons_self ..)
    exact .conda (hc f (List.mem_cons_self ..)) (conjOfList_pres r fun x hx => hc x (List.mem_cons_of_mem _ hx))
      (condaOfClauses_pres cs fun c hc => h c (List.mem_cons_of_mem _ hc))

theorem conduOfClauses_pres : ∀ (cs : List (List (Goal St K))), (∀ c ∈ cs, ∀ g ∈ c, PresG P g) →
    PresG P (conduOfClauses cs)
  | [], _ => .fail
  | [] :: cs, h => by
    simp only [conduOfClauses]
    exact conduOfClauses_pres cs fun c hc => h c (List.mem_cons_of_mem _ hc)
  | (f :: r) :: cs, h => by
    simp only [conduOfClauses]
    have hc := h (f :: r) (List.mem_cons_self ..)
    exact .condu (hc f (List.mem_cons_self ..)) (conjOfList_pres r fun x hx => hc x (List.mem_cons_of_mem _ hx))
      (conduOfClauses_pres cs fun c hc => h c (List.mem_cons_of_mem _ hc))

theorem onceo_pres (gs : List (Goal St K)) (h : ∀ g ∈ gs, PresG P g) : PresG P (onceo gs) :=
  .condu (conjOfList_pres gs h) .succeed .fail

end Pv
