/-
  THE REPORTED ANSWER.  `reify` (Model/Goals.lean `reifyFinal`) renames the unbound variables of the walked query term to
  new `_` variables, empties the constraint store and re-inserts the walked disequalities; `ResultIterator::next`
  (`mkAnswer`) reports the walked query terms and the stored disequalities all of whose variables are `_` variables,
  normalised by subsumption and walked.  This file proves that what is REPORTED denotes exactly what the final state
  DESCRIBES about the query variables (`reported_answer_exact`): the instances of the reported terms under the
  assignments of the `_` variables that satisfy the reported constraints are the values the query variables take
  under the valuations the state describes.
-/
import PvModel.Proofs.Scoped
import PvModel.Props.C03
import PvModel.Props.C02Decide
namespace Pv
open Term State

/-- what the atom of `reifyFinal` computes -/
def reifyState (ord : Order) (st : State) (x : Term) : State :=
  let fv := freeVars (apply st.σ x)
  let base := st.nextVar
  let cs := walkStarStore st.σ st.store
  let st1 := st.store.foldl (fun s p => (s.takeConstraint p.1).1) st
  cs.foldl (fun s c => s.withNewConstraint ord (.diseq c))
    { st1 with σ := reifySubst st.σ x base, nextVar := base + fv.length }

theorem reifyFinal_eq (ord : Order) (x : Term) :
    reifyFinal ord x = .atom (liftRes fun st => .ok (reifyState ord st x)) := rfl

/-! ### the store operations do not look at the substitution -/

def SameS (s s' : State) : Prop := s.store = s'.store ∧ s.nextId = s'.nextId

theorem SameS.sem {s s' : State} (h : SameS s s') (γ : Subst) : StoreSem γ s ↔ StoreSem γ s' := by
  unfold StoreSem; rw [h.1]

theorem take_sameS {s s' : State} (h : SameS s s') (i : Nat) : SameS (s.takeConstraint i).1 (s'.takeConstraint i).1 := by
  obtain ⟨_, _, a3, a4⟩ := take_fields s i
  obtain ⟨_, _, b3, b4⟩ := take_fields s' i
  exact ⟨by rw [a4, b4, h.1], by rw [a3, b3, h.2]⟩

theorem takes_sameS : ∀ (l : List (Nat × Cst)) {s s' : State}, SameS s s' → SameS (takes l s) (takes l s')
  | [], _, _, h => h
  | a :: l, s, s', h => by
    show SameS (takes l (s.takeConstraint a.1).1) (takes l (s'.takeConstraint a.1).1)
    exact takes_sameS l (take_sameS h a.1)

theorem withC_sameS (ord : Order) {s0 s0' : State} (h0 : SameS s0 s0') (id id' : Nat) (hid : id = id') (ps : Ext1) :
    SameS (s0.withConstraint ord id (.diseq ps)) (s0'.withConstraint ord id' (.diseq ps)) := by
  subst hid
  rw [withConstraint_diseq_eq, withConstraint_diseq_eq, ← h0.1]
  split
  · exact h0
  · have t := takes_sameS ((ord.cs s0.store).filter (subOf ord ps)) h0
    exact ⟨by show (takes _ _).store ++ _ = (takes _ _).store ++ _; rw [t.1], t.2⟩

theorem withNew_sameS (ord : Order) {s s' : State} (h : SameS s s') (ps : Ext1) :
    SameS (s.withNewConstraint ord (.diseq ps)) (s'.withNewConstraint ord (.diseq ps)) := by
  unfold State.withNewConstraint
  have h0 : SameS { s with nextId := s.nextId + 1 } { s' with nextId := s'.nextId + 1 } :=
    ⟨h.1, by show s.nextId + 1 = s'.nextId + 1; rw [h.2]⟩
  exact withC_sameS ord h0 s.nextId s'.nextId h.2 ps

/-- re-inserting a list of disequalities into a tree-only store: the store then holds under exactly the valuations
    under which the old store and all of them hold (ANY valuation: the substitution plays no part) -/
theorem foldNew_sem {ord : Order} (ho : OrderOK ord) : ∀ (cs : List Ext1) (s : State), TreeOnly s → IdsOK s →
    (TreeOnly (cs.foldl (fun s c => s.withNewConstraint ord (.diseq c)) s) ∧
     IdsOK (cs.foldl (fun s c => s.withNewConstraint ord (.diseq c)) s) ∧
     (cs.foldl (fun s c => s.withNewConstraint ord (.diseq c)) s).σ = s.σ ∧
     ∀ γ, StoreSem γ (cs.foldl (fun s c => s.withNewConstraint ord (.diseq c)) s) ↔ (StoreSem γ s ∧ ∀ c ∈ cs, DiseqHolds γ c))
  | [], s, ht, hi => ⟨ht, hi, rfl, fun γ => by simp⟩
  | c :: cs, s, ht, hi => by
    have a := withNew_diseq ho ht hi c
    obtain ⟨r1, r2, r3, r4⟩ := foldNew_sem ho cs (s.withNewConstraint ord (.diseq c)) a.tree a.ids
    refine ⟨r1, r2, r3.trans a.sig, fun γ => ?_⟩
    simp only [List.foldl_cons]
    rw [r4 γ]
    -- the step, through the same state with the identity substitution
    have a0 := withNew_diseq ho (st := { s with σ := Subst.id }) ht hi c
    have e0 := a0.sem γ (ext_id γ)
    have hs : SameS { s with σ := Subst.id } s := ⟨rfl, rfl⟩
    rw [(withNew_sameS ord hs c).sem γ, hs.sem γ] at e0
    rw [e0]
    simp only [List.mem_cons, forall_eq_or_imp, and_assoc]

/-- everything in the store after re-inserting comes from the old store or from the inserted list -/
theorem foldNew_mem (ord : Order) : ∀ (cs : List Ext1) (s : State) (q : Nat × Cst),
    q ∈ (cs.foldl (fun s c => s.withNewConstraint ord (.diseq c)) s).store → q ∈ s.store ∨ ∃ c ∈ cs, q.2 = .diseq c
  | [], _, q, h => .inl h
  | c :: cs, s, q, h => by
    simp only [List.foldl_cons] at h
    rcases foldNew_mem ord cs (s.withNewConstraint ord (.diseq c)) q h with h1 | ⟨c', hc', e⟩
    · unfold State.withNewConstraint at h1
      rw [withConstraint_diseq_eq] at h1
      split at h1
      · exact .inl h1
      · obtain ⟨_, _, _, _, t5⟩ := takes_fields ((ord.cs ({ s with nextId := s.nextId + 1 } : State).store).filter (subOf ord c))
          { s with nextId := s.nextId + 1 }
        simp only [List.mem_append, List.mem_singleton] at h1
        rcases h1 with h1 | h1
        · exact .inl ((t5 q).1 h1).1
        · exact .inr ⟨c, List.mem_cons_self, by rw [h1]⟩
    · exact .inr ⟨c', List.mem_cons_of_mem _ hc', e⟩

/-! ### `purify`, `normalize`, `walk_star(r)` -/

/-- `normalize()` keeps the meaning of the conjunction and adds nothing -/
theorem normFold_sem {ord : Order} (ho : OrderOK ord) : ∀ (L acc : List Ext1),
    (∀ c ∈ L.foldl (fun (acc : List Ext1) c =>
        if acc.any (fun s => State.subsumes ord s c) then acc
        else (acc.filter fun s => !State.subsumes ord c s) ++ [c]) acc, c ∈ acc ∨ c ∈ L) ∧
    ∀ γ, (∀ c ∈ L.foldl (fun (acc : List Ext1) c =>
        if acc.any (fun s => State.subsumes ord s c) then acc
        else (acc.filter fun s => !State.subsumes ord c s) ++ [c]) acc, DiseqHolds γ c) ↔
      ((∀ c ∈ acc, DiseqHolds γ c) ∧ ∀ c ∈ L, DiseqHolds γ c)
  | [], acc => ⟨fun c hc => .inl hc, fun γ => by simp⟩
  | c :: L, acc => by
    simp only [List.foldl_cons]
    split
    · rename_i hany
      obtain ⟨i1, i2⟩ := normFold_sem ho L acc
      refine ⟨fun c' hc' => (i1 c' hc').elim .inl (fun h => .inr (List.mem_cons_of_mem _ h)), fun γ => ?_⟩
      rw [i2 γ]
      obtain ⟨s0, hs0, hsub⟩ := List.any_eq_true.1 hany
      constructor
      · rintro ⟨a, b⟩
        exact ⟨a, fun c' hc' => by
          rcases List.mem_cons.1 hc' with rfl | h
          · exact subsumes_sound ho hsub γ (a s0 hs0)
          · exact b c' h⟩
      · rintro ⟨a, b⟩
        exact ⟨a, fun c' hc' => b c' (List.mem_cons_of_mem _ hc')⟩
    · obtain ⟨i1, i2⟩ := normFold_sem ho L ((acc.filter fun s => !State.subsumes ord c s) ++ [c])
      refine ⟨fun c' hc' => ?_, fun γ => ?_⟩
      · rcases i1 c' hc' with h | h
        · rcases List.mem_append.1 h with h | h
          · exact .inl (List.mem_filter.1 h).1
          · simp only [List.mem_singleton] at h; subst h; exact .inr List.mem_cons_self
        · exact .inr (List.mem_cons_of_mem _ h)
      · rw [i2 γ]
        constructor
        · rintro ⟨a, b⟩
          have hc : DiseqHolds γ c := a c (List.mem_append.2 (.inr (List.mem_singleton.2 rfl)))
          refine ⟨fun s0 hs0 => ?_, fun c' hc' => ?_⟩
          · by_cases hk : State.subsumes ord c s0 = true
            · exact subsumes_sound ho hk γ hc
            · exact a s0 (List.mem_append.2 (.inl (List.mem_filter.2 ⟨hs0, by simp [hk]⟩)))
          · rcases List.mem_cons.1 hc' with rfl | h
            · exact hc
            · exact b c' h
        · rintro ⟨a, b⟩
          refine ⟨fun s0 hs0 => ?_, fun c' hc' => b c' (List.mem_cons_of_mem _ hc')⟩
          rcases List.mem_append.1 hs0 with h | h
          · exact a s0 (List.mem_filter.1 h).1
          · simp only [List.mem_singleton] at h; subst h; exact b _ List.mem_cons_self

theorem normalizedCs_sem {ord : Order} (ho : OrderOK ord) (L : List Ext1) (γ : Subst) :
    (∀ c ∈ normalizedCs ord L, DiseqHolds γ c) ↔ ∀ c ∈ L, DiseqHolds γ c := by
  have := (normFold_sem ho L []).2 γ
  unfold normalizedCs
  rw [this]
  simp

theorem normalizedCs_sub {ord : Order} (ho : OrderOK ord) (L : List Ext1) : ∀ c ∈ normalizedCs ord L, c ∈ L := by
  intro c hc
  rcases (normFold_sem ho L []).1 c hc with h | h
  · cases h
  · exact h

theorem mem_purified {s : State} {ps : Ext1} : ps ∈ purified s ↔
    (∃ q ∈ s.store, q.2 = .diseq ps) ∧ ∀ pr ∈ ps, allReified s (.var pr.1) = true ∧ allReified s pr.2 = true := by
  unfold purified
  rw [List.mem_filter, List.mem_filterMap]
  constructor
  · rintro ⟨⟨q, hq, e⟩, hall⟩
    refine ⟨⟨q, hq, ?_⟩, fun pr hpr => by simpa using (List.all_eq_true.1 hall) pr hpr⟩
    split at e
    · rename_i ps' he; simp only [Option.some.injEq] at e; subst e; exact he
    · cases e
  · rintro ⟨⟨q, hq, e⟩, hall⟩
    refine ⟨⟨q, hq, by rw [e]⟩, List.all_eq_true.2 fun pr hpr => by simpa using hall pr hpr⟩

/-- `walk_star(r)` of a disequality whose keys `r` maps to variables: it holds under `δ` iff the original holds under `δ ∘ r` -/
theorem walkCst_holds {τ δ : Subst} {c : Ext1} (hk : ∀ pr ∈ c, ∃ z, τ pr.1 = .var z) :
    DiseqHolds δ (walkCst τ c) ↔ DiseqHolds (fun y => apply δ (τ y)) c := by
  have key : ∀ pr ∈ c,
      (apply δ (.var (match apply τ (.var pr.1) with | .var y => y | _ => pr.1)) ≠ apply δ (apply τ pr.2)) ↔
      (apply (fun y => apply δ (τ y)) (.var pr.1) ≠ apply (fun y => apply δ (τ y)) pr.2) := by
    intro pr hpr
    obtain ⟨z, hz⟩ := hk pr hpr
    rw [apply_comp, apply_comp]
    simp only [apply, hz]
  unfold DiseqHolds walkCst
  constructor
  · rintro ⟨q, hq, hne⟩
    obtain ⟨pr, hpr, rfl⟩ := List.mem_map.1 hq
    exact ⟨pr, hpr, (key pr hpr).1 hne⟩
  · rintro ⟨pr, hpr, hne⟩
    exact ⟨_, List.mem_map.2 ⟨pr, hpr, rfl⟩, (key pr hpr).2 hne⟩

theorem diseqHolds_agree {γ1 γ2 : Subst} {c : Ext1} (h : ∀ y ∈ diseqVars c, γ1 y = γ2 y) :
    DiseqHolds γ1 c ↔ DiseqHolds γ2 c := by
  unfold DiseqHolds
  refine exists_congr fun pr => and_congr_right fun hpr => ?_
  have hk : γ1 pr.1 = γ2 pr.1 := h _ (List.mem_flatMap.2 ⟨pr, hpr, List.mem_cons_self⟩)
  have hv : apply γ1 pr.2 = apply γ2 pr.2 :=
    apply_agree fun y hy => h y (List.mem_flatMap.2 ⟨pr, hpr, List.mem_cons_of_mem _ hy⟩)
  simp only [apply, hk, hv]

/-! ### the reified state -/

section Main
variable {ord : Order} (ho : OrderOK ord) {st : State} (hg : Good st) (hd : DNF st) (hsc : Scoped st.nextVar st)
  {x : Term} (hx : Below st.nextVar x)

/-- in a normal-form store walking a disequality changes nothing: the re-inserted list is the stored one -/
theorem mem_walkStarStore_of_dnf (hd : DNF st) (c : Ext1) :
    c ∈ walkStarStore st.σ st.store ↔ ∃ q ∈ st.store, q.2 = .diseq c := by
  unfold walkStarStore
  rw [List.mem_filterMap]
  have hid : ∀ q ∈ st.store, ∀ ps, q.2 = .diseq ps →
      (ps.map fun r => ((match apply st.σ (.var r.1) with | .var y => y | _ => r.1), apply st.σ r.2)) = ps := by
    intro q hq ps he
    rcases hd q hq ps he with f | ⟨_, hnf⟩
    · exact f.elim
    · conv => rhs; rw [← List.map_id ps]
      refine List.map_congr_left fun r hr => ?_
      obtain ⟨h1, h2, _⟩ := hnf r hr
      simp only [apply, h1, h2, id]
  constructor
  · rintro ⟨q, hq, e⟩
    split at e
    · rename_i ps he
      simp only [Option.some.injEq] at e
      have : ps = c := (hid q hq ps he).symm.trans e
      subst this
      exact ⟨q, hq, he⟩
    · cases e
  · rintro ⟨q, hq, he⟩
    refine ⟨q, hq, ?_⟩
    rw [he]
    simp only [Option.some.injEq]
    exact hid q hq c he

include ho hg in
theorem reifyState_facts :
    (reifyState ord st x).σ = reifySubst st.σ x st.nextVar ∧
    (∀ γ, StoreSem γ (reifyState ord st x) ↔ ∀ c ∈ walkStarStore st.σ st.store, DiseqHolds γ c) ∧
    TreeOnly (reifyState ord st x) ∧ IdsOK (reifyState ord st x) ∧
    (∀ q ∈ (reifyState ord st x).store, ∃ c ∈ walkStarStore st.σ st.store, q.2 = .diseq c) := by
  obtain ⟨t1, t2, t3, t4, t5⟩ := takes_fields st.store st
  have hempty : (takes st.store st).store = [] := by
    apply List.eq_nil_iff_forall_not_mem.2
    intro q hq
    obtain ⟨hq1, hq2⟩ := (t5 q).1 hq
    exact hq2 q hq1 rfl
  generalize hs0 : ({ (takes st.store st) with σ := reifySubst st.σ x st.nextVar, nextVar := st.nextVar + (freeVars (apply st.σ x)).length } : State) = s0
  have e0 : s0.store = [] := by subst hs0; exact hempty
  have ht0 : TreeOnly s0 := ⟨fun p hp => (by rw [e0] at hp; cases hp), (by subst hs0; show (takes st.store st).dstore = []; rw [t2]; exact hg.2.1.2)⟩
  have hi0 : IdsOK s0 := ⟨(by rw [e0]; exact List.nodup_nil), fun p hp => (by rw [e0] at hp; cases hp)⟩
  obtain ⟨r1, r2, r3, r4⟩ := foldNew_sem ho (walkStarStore st.σ st.store) s0 ht0 hi0
  have hre : reifyState ord st x = (walkStarStore st.σ st.store).foldl (fun s c => s.withNewConstraint ord (.diseq c)) s0 := by
    subst hs0; rfl
  rw [hre]
  refine ⟨by rw [r3]; subst hs0; rfl, fun γ => ?_, r1, r2, fun q hq => ?_⟩
  · rw [r4 γ]
    have : StoreSem γ s0 := fun p hp => by rw [e0] at hp; cases hp
    simp [this]
  · rcases foldNew_mem ord _ s0 q hq with h | h
    · rw [e0] at h; cases h
    · exact h

/-- `r` on an unbound variable below the counter -/
theorem reifySubst_unbound {y : Nat} (hy : st.σ y = .var y) :
    reifySubst st.σ x st.nextVar y = reifyMap st.σ x st.nextVar y := by
  simp only [reifySubst, hy, apply]

include hg hsc hx in
theorem fv_props : ∀ y ∈ freeVars (apply st.σ x), st.σ y = .var y ∧ y < st.nextVar := by
  intro y hy
  have hy' := (mem_freeVars _ _).1 hy
  exact ⟨normal_vars _ (apply_apply_solved hg.1 x) y hy', apply_below hsc.1 hx y hy'⟩

/-- an unbound variable below the counter is reified exactly when it is free in the walked query term -/
theorem reified_iff {σr : Subst} (hσr : σr = reifySubst st.σ x st.nextVar) {y : Nat} (hy : st.σ y = .var y) (hlt : y < st.nextVar) :
    (match σr y with | .var z => z != y | _ => false) = true ↔ y ∈ freeVars (apply st.σ x) := by
  subst hσr
  rw [reifySubst_unbound hy]
  cases hi : (freeVars (apply st.σ x)).idxOf? y with
  | none =>
    simp only [reifyMap, hi, hy]
    have := List.idxOf?_eq_none_iff.1 hi
    simp [this]
  | some i =>
    simp only [reifyMap, hi]
    obtain ⟨h1, _, _⟩ := List.idxOf?_eq_some_iff.1 hi
    have hm : y ∈ freeVars (apply st.σ x) := by
      have : ((freeVars (apply st.σ x)).idxOf? y).isSome := by rw [hi]; rfl
      exact List.isSome_idxOf?.1 this
    simp only [hm, iff_true, bne_iff_ne, ne_eq]
    omega

end Main

theorem below_ofList {m : Nat} : ∀ {qs : List Term}, (∀ q ∈ qs, Below m q) → Below m (Term.ofList qs)
  | [], _ => below_nil' m
  | q :: qs, h => below_cons_iff.2 ⟨h q List.mem_cons_self, below_ofList fun q' hq' => h q' (List.mem_cons_of_mem _ hq')⟩

theorem allReified_iff (s : State) (t : Term) :
    allReified s t = true ↔ ∀ y ∈ t.vars, (match s.σ y with | .var z => z != y | _ => false) = true := by
  unfold allReified
  rw [List.all_eq_true]
  exact Iff.rfl

/-- THE REPORTED ANSWER IS EXACT.  `st`: any good state with its disequalities in normal form and all its variables
    below its counter (every state `==`/`!=` programs reach); `qs`: the query variables (any terms below the counter).
    The answer `mkAnswer` reports for the reified state — the walked query terms with their unbound variables renamed to
    `_` variables, and the purified, normalised, walked disequalities — has, under the assignments `δ` of the `_`
    variables that satisfy the reported disequalities, exactly the instances that the query terms take under the
    valuations the state describes. -/
theorem reported_answer_exact {ord : Order} (ho : OrderOK ord) {st : State} (hg : Good st) (hd : DNF st)
    (hsc : Scoped st.nextVar st) (qs : List Term) (hq : ∀ q ∈ qs, Below st.nextVar q) (ts : List Term) :
    (∃ δ : Subst, (∀ c ∈ (mkAnswer ord qs (reifyState ord st (Term.ofList qs))).constraints, DiseqHolds δ c) ∧
        ts = (mkAnswer ord qs (reifyState ord st (Term.ofList qs))).terms.map (apply δ)) ↔
    (∃ γ : Subst, StateSem γ st ∧ ts = qs.map (apply γ)) := by
  have hx : Below st.nextVar (Term.ofList qs) := below_ofList hq
  obtain ⟨f1, f2, f3, f4, f5⟩ := reifyState_facts ho hg (x := Term.ofList qs)
  generalize hst2 : reifyState ord st (Term.ofList qs) = st2 at f1 f2 f3 f4 f5 ⊢
  have hcons : (mkAnswer ord qs st2).constraints = (normalizedCs ord (purified st2)).map (walkCst st2.σ) := rfl
  have hterms : (mkAnswer ord qs st2).terms = qs.map (apply st2.σ) := rfl
  rw [hcons, hterms]
  have hfv := fv_props hg hsc hx
  -- the stored disequalities of the reified state are stored disequalities of `st`
  have hfrom : ∀ q ∈ st2.store, ∀ ps, q.2 = .diseq ps → ∃ q0 ∈ st.store, q0.2 = .diseq ps := by
    intro q hq' ps he
    obtain ⟨c, hc, e⟩ := f5 q hq'
    rw [he] at e
    simp only [Cst.diseq.injEq] at e
    subst e
    exact (mem_walkStarStore_of_dnf hd ps).1 hc
  -- their variables are unbound and below the counter
  have hvars : ∀ q0 ∈ st.store, ∀ ps, q0.2 = .diseq ps → ∀ y ∈ diseqVars ps, st.σ y = .var y ∧ y < st.nextVar := by
    intro q0 hq0 ps he y hy
    obtain ⟨pr, hpr, hy⟩ := List.mem_flatMap.1 hy
    have hb := hsc.2 q0 hq0 ps he pr hpr
    rcases hd q0 hq0 ps he with f | ⟨_, hnf⟩
    · exact f.elim
    · obtain ⟨n1, n2, _⟩ := hnf pr hpr
      rcases List.mem_cons.1 hy with rfl | hy
      · exact ⟨n1, hb.1⟩
      · exact ⟨normal_vars _ n2 y hy, hb.2 y hy⟩
  -- purified = stored with every variable free in the walked query term
  have hpur : ∀ c, c ∈ purified st2 ↔ ((∃ q ∈ st2.store, q.2 = .diseq c) ∧ ∀ y ∈ diseqVars c, y ∈ freeVars (apply st.σ (Term.ofList qs))) := by
    intro c
    rw [mem_purified]
    refine and_congr_right fun ⟨q, hq', he⟩ => ?_
    obtain ⟨q0, hq0, he0⟩ := hfrom q hq' c he
    have hv := hvars q0 hq0 c he0
    constructor
    · intro hall y hy
      obtain ⟨pr, hpr, hy'⟩ := List.mem_flatMap.1 hy
      obtain ⟨a1, a2⟩ := hall pr hpr
      obtain ⟨u1, u2⟩ := hv y hy
      rcases List.mem_cons.1 hy' with rfl | hy'
      · exact (reified_iff f1 u1 u2).1 ((allReified_iff st2 _).1 a1 _ (by simp [Term.vars]))
      · exact (reified_iff f1 u1 u2).1 ((allReified_iff st2 _).1 a2 y hy')
    · intro hall pr hpr
      refine ⟨(allReified_iff st2 _).2 fun y hy => ?_, (allReified_iff st2 _).2 fun y hy => ?_⟩
      · simp only [Term.vars, List.mem_singleton] at hy
        subst hy
        have hm : pr.1 ∈ diseqVars c := List.mem_flatMap.2 ⟨pr, hpr, List.mem_cons_self⟩
        obtain ⟨u1, u2⟩ := hv _ hm
        exact (reified_iff f1 u1 u2).2 (hall _ hm)
      · have hm : y ∈ diseqVars c := List.mem_flatMap.2 ⟨pr, hpr, List.mem_cons_of_mem _ hy⟩
        obtain ⟨u1, u2⟩ := hv _ hm
        exact (reified_iff f1 u1 u2).2 (hall _ hm)
  -- keys of purified constraints are mapped to variables
  have hkeys : ∀ c ∈ purified st2, ∀ pr ∈ c, ∃ z, st2.σ pr.1 = .var z := by
    intro c hc pr hpr
    have := ((mem_purified.1 hc).2 pr hpr).1
    have := (allReified_iff st2 _).1 this pr.1 (by simp [Term.vars])
    split at this
    · rename_i z hz; exact ⟨z, hz⟩
    · cases this
  -- on the free variables of the walked query term `r` is the renaming
  have hren : ∀ y ∈ freeVars (apply st.σ (Term.ofList qs)), st2.σ y = reifyMap st.σ (Term.ofList qs) st.nextVar y := by
    intro y hy
    rw [f1, reifySubst_unbound (hfv y hy).1]
  -- the two instance computations
  have hinst : ∀ (δ γ : Subst), Ext st.σ γ →
      (∀ y ∈ freeVars (apply st.σ (Term.ofList qs)), γ y = apply δ (st2.σ y)) →
      ∀ q ∈ qs, apply δ (apply st2.σ q) = apply γ q := by
    intro δ γ hext hag q hq'
    rw [f1, apply_reifySubst, ← apply_comp, ← hext q]
    symm
    refine apply_agree fun y hy => ?_
    have hyf : y ∈ freeVars (apply st.σ (Term.ofList qs)) := (mem_freeVars _ _).2 (C03_closed_query st.σ qs q hq' y hy)
    rw [hag y hyf, hren y hyf]
  constructor
  · rintro ⟨δ, hδ, rfl⟩
    have h1 : ∀ c ∈ purified st2, DiseqHolds (fun y => apply δ (st2.σ y)) c := by
      refine (normalizedCs_sem ho (purified st2) _).1 fun c hc => ?_
      have hcp := normalizedCs_sub ho _ c hc
      exact (walkCst_holds (hkeys c hcp)).1 (hδ _ (List.mem_map.2 ⟨c, hc, rfl⟩))
    have hgN : Good { st2 with σ := st.σ } := ⟨hg.1, ⟨f3.1, f3.2⟩, f4⟩
    have hdN : DNF { st2 with σ := st.σ } := by
      intro q hq' ps he
      obtain ⟨q0, hq0, he0⟩ := hfrom q hq' ps he
      rcases hd q0 hq0 ps he0 with f | g
      · exact f.elim
      · exact .inr g
    obtain ⟨γ, hsem, hag⟩ := dnf_project (st := { st2 with σ := st.σ }) hg.1 hdN
      (freeVars (apply st.σ (Term.ofList qs))) (fun y => apply δ (st2.σ y))
      (fun q hq' ps he hv => h1 ps ((hpur ps).2 ⟨⟨q, hq', he⟩, hv⟩))
    have hstore : StoreSem γ st := by
      have h2 := (f2 γ).1 hsem.2
      intro q0 hq0 ps he0
      exact h2 ps ((mem_walkStarStore_of_dnf hd ps).2 ⟨q0, hq0, he0⟩)
    refine ⟨γ, ⟨hsem.1, hstore⟩, ?_⟩
    rw [List.map_map]
    exact List.map_congr_left fun q hq' => hinst δ γ hsem.1 (fun y hy => hag y hy (hfv y hy).1) q hq'
  · rintro ⟨γ, hγ, rfl⟩
    let fv := freeVars (apply st.σ (Term.ofList qs))
    let δ : Subst := fun z => if st.nextVar ≤ z ∧ z < st.nextVar + fv.length then γ (fv.getD (z - st.nextVar) 0) else γ z
    have hkey : ∀ y ∈ fv, γ y = apply δ (st2.σ y) := by
      intro y hy
      rw [hren y hy]
      have hsome : (fv.idxOf? y).isSome := List.isSome_idxOf?.2 hy
      cases hi : fv.idxOf? y with
      | none => rw [hi] at hsome; cases hsome
      | some i =>
        obtain ⟨h1, h2, _⟩ := List.idxOf?_eq_some_iff.1 hi
        have hi' : (freeVars (apply st.σ (Term.ofList qs))).idxOf? y = some i := hi
        simp only [reifyMap, hi', apply, δ]
        have hc : st.nextVar ≤ st.nextVar + i ∧ st.nextVar + i < st.nextVar + fv.length := ⟨by omega, by omega⟩
        rw [if_pos hc]
        have : st.nextVar + i - st.nextVar = i := by omega
        rw [this]
        simp only [List.getD_eq_getElem?_getD, List.getElem?_eq_getElem h1, Option.getD_some, h2]
    refine ⟨δ, fun c' hc' => ?_, ?_⟩
    · obtain ⟨c, hc, rfl⟩ := List.mem_map.1 hc'
      have hcp := normalizedCs_sub ho _ c hc
      refine (walkCst_holds (hkeys c hcp)).2 ?_
      obtain ⟨⟨q, hq', he⟩, hvis⟩ := (hpur c).1 hcp
      obtain ⟨q0, hq0, he0⟩ := hfrom q hq' c he
      exact (diseqHolds_agree fun y hy => hkey y (hvis y hy)).1 (hγ.2 q0 hq0 c he0)
    · rw [List.map_map]
      exact (List.map_congr_left fun q hq' => hinst δ γ hγ.1 hkey q hq').symm

end Pv
