/-
  DELIVERY: for goals of the interleaving fragment (atoms, conjunction, `conde`, fresh, calls of library relations
  outside `dfs { }`), `Solver::next` delivers after finitely many steps EXACTLY the big-step answers — also when
  there are infinitely many.

  The fairness theorem (C07_program) asks that EVERY relation body is interleaving (`BfsDefs`); the model's
  relation table also holds the depth-first variants of the library relations (calls made inside `dfs { }`).
  `defsI` is the table with every call forced to the interleaving variant; on goals without depth-first nodes
  and without dfs-calls the two engines are the same function (`solveAt_eq`, `runF_eq`), so fairness transfers.
-/
import PvModel.Proofs.RelProgram
import PvModel.Proofs.Stream
namespace Pv
open Strm Goal State Term

section
variable (ord : Order)

/-- the relation table with every call taken as an interleaving call -/
def defsI : Call → State → State × G := fun c st => defs ord { c with dfs := false } st

variable {ord}

theorem defsI_eq {c : Call} (h : c.dfs = false) : defsI ord c = defs ord c := by
  obtain ⟨r, as, d⟩ := c
  simp only at h
  subst h
  rfl

/-- goals of the interleaving fragment whose calls are interleaving calls -/
inductive NoD : G → Prop
  | succeed : NoD .succeed
  | fail : NoD .fail
  | atom (f) : NoD (.atom f)
  | conj {g1 g2} : NoD g1 → NoD g2 → NoD (.conj g1 g2)
  | alt {g1 g2} : NoD g1 → NoD g2 → NoD (.alt g1 g2)
  | fresh {g} : NoD g → NoD (.fresh g)
  | call {c} : c.dfs = false → NoD (.call c)

theorem noD_bfs {D : Call → State → State × G} {g : G} (h : NoD g) : BfsG D g := by
  induction h with
  | succeed => exact .succeed
  | fail => exact .fail
  | atom f => exact .atom f
  | conj _ _ i1 i2 => exact .conj i1 i2
  | alt _ _ i1 i2 => exact .alt i1 i2
  | fresh _ i => exact .fresh i
  | call _ => exact .call

theorem noD_mkConj {g1 g2 : G} (h1 : NoD g1) (h2 : NoD g2) : NoD (mkConj g1 g2) := by
  unfold mkConj
  split
  · exact .succeed
  · split
    · exact .fail
    · exact .conj h1 h2

theorem noD_conjOfList : ∀ (gs : List G), (∀ g ∈ gs, NoD g) → NoD (conjOfList gs)
  | [], _ => .succeed
  | g :: gs, h => noD_mkConj (h g List.mem_cons_self) (noD_conjOfList gs fun x hx => h x (List.mem_cons_of_mem _ hx))

theorem noD_altOfList : ∀ (gs : List G), (∀ g ∈ gs, NoD g) → NoD (altOfList gs)
  | [], _ => .fail
  | g :: gs, h => .alt (h g List.mem_cons_self) (noD_altOfList gs fun x hx => h x (List.mem_cons_of_mem _ hx))

theorem noD_condeOfClauses (cs : List (List G)) (h : ∀ c ∈ cs, ∀ g ∈ c, NoD g) : NoD (condeOfClauses cs) :=
  noD_altOfList _ fun g hg => by
    obtain ⟨c, hc, rfl⟩ := List.mem_map.1 hg
    exact noD_conjOfList c (h c hc)

end
end Pv

namespace Pv
open Strm Goal State Term

macro "nod_tac" : tactic => `(tactic|
  repeat (first
    | exact NoD.atom _
    | exact NoD.call rfl
    | exact NoD.succeed
    | apply NoD.fresh
    | (apply noD_conjOfList; intro g hg; simp only [List.mem_cons, List.not_mem_nil, or_false] at hg;
       rcases hg with rfl | rfl | rfl | rfl | rfl <;> try subst g)
    | (apply noD_condeOfClauses; intro c hc; simp only [List.mem_cons, List.not_mem_nil, or_false] at hc;
       rcases hc with rfl | rfl | rfl | rfl <;> try subst c)
    | (intro g hg; simp only [List.mem_cons, List.not_mem_nil, or_false] at hg;
       rcases hg with rfl | rfl | rfl | rfl | rfl <;> try subst g)
    | split))

section
variable {ord : Order}

/-- the body of an interleaving call is in the fragment -/
theorem relBody_noD (r : Rel) (as : List Term) (n : Nat) : NoD (relBody ord ⟨r, as, false⟩ n).2 := by
  unfold relBody
  simp only [Bool.false_eq_true, if_false]
  split
  all_goals first
    | exact NoD.atom _
    | (simp only; nod_tac)

theorem bfsDefs_I : BfsDefs (defsI ord) := fun c a => noD_bfs (relBody_noD c.rel c.args a.nextVar)

theorem plainDefs_I : PlainDefs (defsI ord) := fun c a => relBody_plain ord { c with dfs := false } a.nextVar

theorem noD_plain {g : G} (h : NoD g) : Plain g := by
  induction h with
  | succeed => exact .succeed
  | fail => exact .fail
  | atom f => exact .atom f
  | conj _ _ i1 i2 => exact .conj i1 i2
  | alt _ _ i1 i2 => exact .alt i1 i2
  | fresh _ i => exact .fresh i
  | call _ => exact .call _

/-! ### streams of the fragment: the two engines are one function -/

mutual
inductive NoDS : Strm State Call → Prop
  | empty : NoDS .empty
  | unit (a) : NoDS (.unit a)
  | cons {a l} : NoDL l → NoDS (.cons a l)
  | lazy {l} : NoDL l → NoDS (.lazy l)
inductive NoDL : Lz State Call → Prop
  | mplus {l1 l2} : NoDL l1 → NoDL l2 → NoDL (.mplus l1 l2)
  | bind {l g} : NoDL l → NoD g → NoDL (.bind l g)
  | pause {a g} : NoD g → NoDL (.pause a g)
  | delay {s} : NoDS s → NoDL (.delay s)
end

theorem mplus_noD {s : Strm State Call} {l : Lz State Call} (hs : NoDS s) (hl : NoDL l) : NoDS (mplus s l) := by
  cases hs with
  | empty => exact .lazy hl
  | unit a => exact .cons hl
  | cons h => exact .cons (.mplus hl h)
  | lazy h => exact .lazy (.mplus hl h)

theorem bind_noD {s : Strm State Call} {g : G} (hs : NoDS s) (hg : NoD g) : NoDS (Strm.bind s g) := by
  unfold Strm.bind
  split
  · exact hs
  · split
    · exact .empty
    · cases hs with
      | empty => exact .empty
      | unit a => exact .lazy (.pause hg)
      | cons h => exact .lazy (.mplus (.pause hg) (.bind h hg))
      | lazy h => exact .lazy (.bind h hg)

theorem lazyBind_noD {l : Lz State Call} {g : G} (hl : NoDL l) (hg : NoD g) : NoDS (lazyBind l g) := by
  unfold lazyBind
  split
  · exact .lazy hl
  · split
    · exact .empty
    · exact .lazy (.bind hl hg)

section Two
variable {top top' : G → State → Strm State Call}
  (heq : ∀ g a, NoD g → top g a = top' g a) (hnd : ∀ g a, NoD g → NoDS (top g a))
include heq hnd

omit heq in
theorem step_noD : ∀ (l : Lz State Call), NoDL l → NoDS (step top l)
  | .mplus l1 l2, h => by cases h with | mplus h1 h2 => exact mplus_noD (step_noD l1 h1) h2
  | .bind l g, h => by cases h with | bind h1 hg => exact bind_noD (step_noD l h1) hg
  | .pause a g, h => by cases h with | pause hg => exact hnd g a hg
  | .delay s, h => by cases h with | delay hs => exact hs
  | .mplusD _ _, h => by cases h
  | .bindD _ _, h => by cases h

omit hnd in
theorem step_eq : ∀ (l : Lz State Call), NoDL l → step top l = step top' l
  | .mplus l1 l2, h => by cases h with | mplus h1 h2 => simp only [step, step_eq l1 h1]
  | .bind l g, h => by cases h with | bind h1 hg => simp only [step, step_eq l h1]
  | .pause a g, h => by cases h with | pause hg => exact heq g a hg
  | .delay s, _ => rfl
  | .mplusD _ _, h => by cases h
  | .bindD _ _, h => by cases h

theorem runF_eq : ∀ (n : Nat) (s : Strm State Call), NoDS s → runF top n s = runF top' n s
  | 0, _, _ => rfl
  | n + 1, .empty, _ => rfl
  | n + 1, .unit a, _ => rfl
  | n + 1, .cons a l, h => by
    cases h with
    | cons hl => simp only [runF, runF_eq n (.lazy l) (.lazy hl)]
  | n + 1, .lazy l, h => by
    cases h with
    | lazy hl =>
      simp only [runF]
      rw [← step_eq heq l hl]
      exact runF_eq n _ (step_noD hnd l hl)

end Two

theorem start_noD {D : Call → State → State × G} {top0 : G → State → Strm State Call} (pf : Nat)
    (hD : ∀ c a, c.dfs = false → NoD (D c a).2) (h0 : ∀ g a, NoD g → NoDS (top0 g a)) {g : G} (hg : NoD g) :
    ∀ a, NoDS (start D top0 pf g a) := by
  induction hg with
  | succeed => intro a; simp only [start]; exact .unit a
  | fail => intro a; simp only [start]; exact .empty
  | atom f => intro a; simp only [start]; split <;> constructor
  | conj h1 h2 _ _ => intro a; simp only [start]; exact lazyBind_noD (.pause h1) h2
  | alt _ _ i1 i2 => intro a; simp only [start]; exact mplus_noD (i1 a) (.delay (i2 a))
  | fresh h _ => intro a; simp only [start]; exact .lazy (.pause h)
  | call hc => intro a; simp only [start]; exact h0 _ _ (hD _ a hc)

theorem defs_noD (c : Call) (a : State) (h : c.dfs = false) : NoD (defs ord c a).2 := by
  obtain ⟨r, as, d⟩ := c
  simp only at h
  subst h
  exact relBody_noD r as a.nextVar

theorem defsI_noD (c : Call) (a : State) (_h : c.dfs = false) : NoD (defsI ord c a).2 :=
  relBody_noD c.rel c.args a.nextVar

theorem solveAt_noD (pf : Nat) : ∀ (n : Nat) (g : G) (a : State), NoD g → NoDS (solveAt (defs ord) pf n g a)
  | 0, _, _, hg => .lazy (.pause hg)
  | n + 1, _, a, hg => start_noD pf defs_noD (fun g a hg => solveAt_noD pf n g a hg) hg a

theorem start_eq {top0 top0' : G → State → Strm State Call} (pf : Nat)
    (h0 : ∀ g a, NoD g → top0 g a = top0' g a) {g : G} (hg : NoD g) :
    ∀ a, start (defs ord) top0 pf g a = start (defsI ord) top0' pf g a := by
  induction hg with
  | succeed => intro a; simp only [start]
  | fail => intro a; simp only [start]
  | atom f => intro a; simp only [start]
  | conj _ _ _ _ => intro a; simp only [start]
  | alt _ _ i1 i2 => intro a; simp only [start, i1 a, i2 a]
  | fresh _ _ => intro a; simp only [start]
  | @call c hc =>
    intro a
    simp only [start, defsI_eq hc]
    exact h0 _ _ (defs_noD c a hc)

/-- on the fragment the model's engine and the all-interleaving engine are the same function -/
theorem solveAt_eq (pf : Nat) : ∀ (n : Nat) (g : G) (a : State), NoD g →
    solveAt (defs ord) pf n g a = solveAt (defsI ord) pf n g a
  | 0, _, _, _ => rfl
  | n + 1, _, a, hg => start_eq pf (fun g a hg => solveAt_eq pf n g a hg) hg a

theorem bigF_eq : ∀ (n : Nat) (g : G) (a b : State), NoD g → BigF (defs ord) n g a b → BigF (defsI ord) n g a b
  | 0, _, _, _, _, h => h
  | n + 1, _, a, b, hg, h => by
    cases hg with
    | succeed => exact h
    | fail => exact h
    | atom f => exact h
    | conj h1 h2 => obtain ⟨c, b1, b2⟩ := h; exact ⟨c, bigF_eq n _ _ _ h1 b1, bigF_eq n _ _ _ h2 b2⟩
    | alt h1 h2 => exact h.imp (bigF_eq n _ _ _ h1) (bigF_eq n _ _ _ h2)
    | fresh h1 => exact bigF_eq n _ _ _ h1 h
    | @call c hc =>
      simp only [BigF, defsI_eq hc]
      exact bigF_eq n _ _ _ (defs_noD c a hc) h

/-- DELIVERY = BIG-STEP: on the interleaving fragment, `Solver::next` delivers a state after finitely many steps
    exactly when it is a big-step answer -/
theorem delivered_iff_big (pf M : Nat) {g : G} (hg : NoD g) (a b : State) :
    (∃ n, b ∈ runF (solveAt (defs ord) pf (M + 1)) n (solveAt (defs ord) pf (M + 1) g a)) ↔ Big (defs ord) g a b := by
  constructor
  · rintro ⟨n, hn⟩
    exact (mem_iff_big (defs_plain ord) pf M (M + 1) (noD_plain hg) a b).1 (runF_sound _ (topOK_solveAt _ pf M) n _ b hn)
  · rintro ⟨k, hk⟩
    have hb : Big (defsI ord) g a b := ⟨k, bigF_eq k g a b hg hk⟩
    have hm := (mem_iff_big (plainDefs_I (ord := ord)) pf M (M + 1) (noD_plain hg) a b).2 hb
    obtain ⟨n, hn⟩ := fair (defsI ord) (solveAt (defsI ord) pf (M + 1)) (topOK_solveAt _ pf M)
      (fun g a hg => solveAt_bfs (defsI ord) bfsDefs_I pf (M + 1) g a hg)
      (solveAt_bfs (defsI ord) bfsDefs_I pf (M + 1) g a (noD_bfs hg)) hm
    refine ⟨n, ?_⟩
    rw [runF_eq (top' := solveAt (defsI ord) pf (M + 1)) (fun g a hg => solveAt_eq pf (M + 1) g a hg)
      (fun g a hg => solveAt_noD pf (M + 1) g a hg) n _ (solveAt_noD pf (M + 1) g a hg), solveAt_eq pf (M + 1) g a hg]
    exact hn

end
end Pv
