/-
  The constraint-lifecycle invariant (`withs = takes + |store|`, identities distinct and below the next
  fresh one) through the WHOLE state machine of Model/State.lean, including the re-entrant
  `run_constraints → c.run → process_domain → resolve_storable_domain → run_constraints` loop of CLP(FD)
  and the direct bindings of CLP(Z): by induction on the nesting level.
-/
import PvModel.Props.C22
namespace Pv
open State

def ids (st : State) : List Nat := st.store.map (·.1)

/-- the invariant -/
def Inv (st : State) : Prop := Cnt st ∧ IdsOK st

/-- `st'` was reached from `st` by lifecycle-respecting operations that may have (re-)added the identity
    `i`: invariant kept, identity source monotone, no identity invented below the old source -/
structure StepI (i : Option Nat) (st st' : State) : Prop where
  inv : Inv st'
  mono : st.nextId ≤ st'.nextId
  sub : ∀ j ∈ ids st', j ∈ ids st ∨ some j = i ∨ st.nextId ≤ j
  /-- the poison flag of the goal layer is never touched by the state machine -/
  pan : st'.panic = st.panic

theorem StepI.refl {i : Option Nat} {st : State} (h : Inv st) : StepI i st st :=
  ⟨h, Nat.le_refl _, fun _ hj => .inl hj, rfl⟩

theorem StepI.weaken {st st' : State} {i : Option Nat} (h : StepI none st st') : StepI i st st' :=
  ⟨h.inv, h.mono, fun j hj => by
    rcases h.sub j hj with a | a | a
    · exact .inl a
    · cases a
    · exact .inr (.inr a), h.pan⟩

theorem StepI.trans {i : Option Nat} {st st1 st2 : State} (h1 : StepI i st st1) (h2 : StepI i st1 st2) :
    StepI i st st2 :=
  ⟨h2.inv, Nat.le_trans h1.mono h2.mono, fun j hj => by
    rcases h2.sub j hj with a | a | a
    · exact h1.sub j a
    · exact .inr (.inl a)
    · exact .inr (.inr (Nat.le_trans h1.mono a)), h2.pan.trans h1.pan⟩

/-- a state that differs only in substitution / domains / log -/
def SameStore (st st' : State) : Prop :=
  st'.store = st.store ∧ st'.nextId = st.nextId ∧ st'.withs = st.withs ∧ st'.takes = st.takes ∧
    st'.panic = st.panic

theorem SameStore.inv {st st' : State} (h : SameStore st st') (hi : Inv st) : Inv st' := by
  obtain ⟨h1, h2, h3, h4, _⟩ := h
  obtain ⟨hc, hn, hl⟩ := hi
  refine ⟨?_, ?_, ?_⟩
  · simp only [Cnt] at hc ⊢; rw [h1, h3, h4]; exact hc
  · rw [h1]; exact hn
  · intro p hp; rw [h1] at hp; rw [h2]; exact hl p hp

theorem SameStore.step {i : Option Nat} {st st' : State} (h : SameStore st st') (hi : Inv st) : StepI i st st' :=
  ⟨h.inv hi, by rw [h.2.1]; exact Nat.le_refl _, fun j hj => .inl (by simpa [ids, h.1] using hj), h.2.2.2.2⟩

/-- the nested `run_constraints` respects the lifecycle -/
def RcOK (rc : State → Res State) : Prop := ∀ st st', Inv st → rc st = .ok st' → StepI none st st'

/-! ### the store operations -/

theorem take_panic (st : State) (i : Nat) : (st.takeConstraint i).1.panic = st.panic := by
  unfold State.takeConstraint; split <;> rfl

theorem takes_panic : ∀ (l : List (Nat × Cst)) (st : State), (takes l st).panic = st.panic
  | [], _ => rfl
  | p :: l, st => by
    have : takes (p :: l) st = takes l (st.takeConstraint p.1).1 := rfl
    rw [this, takes_panic l, take_panic]

theorem take_step (st : State) (i : Nat) (hi : Inv st) :
    Inv (st.takeConstraint i).1 ∧ (st.takeConstraint i).1.nextId = st.nextId ∧
    (∀ j ∈ ids (st.takeConstraint i).1, j ∈ ids st) ∧
    (∀ c, (st.takeConstraint i).2 = some c → i ∉ ids (st.takeConstraint i).1 ∧ i < st.nextId) := by
  obtain ⟨hc, hn, hl⟩ := hi
  obtain ⟨f1, f2, f3, f4⟩ := take_fields st i
  have hsub : ∀ q, q ∈ (st.takeConstraint i).1.store → q ∈ st.store := fun q hq => by
    rw [f4] at hq; exact (List.mem_filter.mp hq).1
  refine ⟨⟨C22_take st i hn hc, ?_, ?_⟩, f3, ?_, ?_⟩
  · rw [f4]; exact (List.Sublist.map (fun q : Nat × Cst => q.1) List.filter_sublist).nodup hn
  · intro p hp; rw [f3]; exact hl p (hsub p hp)
  · intro j hj
    obtain ⟨q, hq, rfl⟩ := List.mem_map.1 hj
    exact List.mem_map_of_mem (hsub q hq)
  · intro c hcc
    have hm : (i, c) ∈ st.store := take_some hcc
    refine ⟨?_, hl _ hm⟩
    intro hj
    obtain ⟨q, hq, e⟩ := List.mem_map.1 hj
    rw [f4] at hq
    have := (List.mem_filter.mp hq).2
    simp only [bne_iff_ne, ne_eq] at this
    exact this e

theorem with_step (ord : Order) (st : State) (i : Nat) (c : Cst) (hi : Inv st) (hlt : i < st.nextId)
    (hni : i ∉ ids st) : StepI (some i) st (st.withConstraint ord i c) := by
  obtain ⟨hc, hn, hl⟩ := hi
  cases hd : c.isDiseq with
  | false =>
    have hf : st.store.filter (fun p => p.1 != i) = st.store := by
      apply List.filter_eq_self.2
      intro q hq
      have : q.1 ≠ i := fun e => hni (e ▸ List.mem_map_of_mem hq)
      simpa using this
    have hs : (st.withConstraint ord i c).store = st.store ++ [(i, c)] ∧
        (st.withConstraint ord i c).nextId = st.nextId ∧ (st.withConstraint ord i c).panic = st.panic := by
      cases c <;> first | (simp [Cst.isDiseq] at hd; done) | exact ⟨by simp only [State.withConstraint, hf], rfl, rfl⟩
    refine ⟨⟨C22_with_other ord st i c hd hni hc, ?_, ?_⟩, by rw [hs.2.1]; exact Nat.le_refl _, ?_, hs.2.2⟩
    · rw [hs.1]; simp only [List.map_append, List.map_cons, List.map_nil]
      exact List.nodup_append.2 ⟨hn, by simp, fun a ha b hb => by
        simp only [List.mem_singleton] at hb; subst hb; intro e; exact hni (e ▸ ha)⟩
    · intro p hp; rw [hs.1] at hp; rw [hs.2.1]
      rcases List.mem_append.1 hp with h | h
      · exact hl p h
      · simp only [List.mem_singleton] at h; subst h; exact hlt
    · intro j hj
      simp only [ids, hs.1, List.map_append, List.map_cons, List.map_nil, List.mem_append, List.mem_singleton] at hj
      rcases hj with h | h
      · exact .inl h
      · exact .inr (.inl (by rw [h]))
  | true =>
    cases c <;> simp [Cst.isDiseq] at hd
    rename_i ps
    rw [withConstraint_diseq_eq]
    split
    · exact StepI.refl ⟨hc, hn, hl⟩
    · -- redundant stored constraints are taken, then the new one is added
      generalize hL : (ord.cs st.store).filter (subOf ord ps) = L
      obtain ⟨t1, t2, t3, t4⟩ := takes_fields L st
      have hsub : ∀ q, q ∈ (takes L st).store → q ∈ st.store := fun q hq => t4.1.subset hq
      have hcnt : Cnt (takes L st) := (C22_takes L st hn hc).1
      have hnd : ((takes L st).store.map (·.1)).Nodup := (C22_takes L st hn hc).2
      have hni' : i ∉ (takes L st).store.map (·.1) := fun hj => by
        obtain ⟨q, hq, e⟩ := List.mem_map.1 hj
        exact hni (e ▸ List.mem_map_of_mem (hsub q hq))
      refine ⟨⟨?_, ?_, ?_⟩, by simp only [t3]; exact Nat.le_refl _, ?_, takes_panic L st⟩
      · simp only [Cnt, List.length_append, List.length_singleton] at hcnt ⊢; omega
      · simp only [List.map_append, List.map_cons, List.map_nil]
        exact List.nodup_append.2 ⟨hnd, by simp, fun a ha b hb => by
          simp only [List.mem_singleton] at hb; subst hb; intro e; exact hni' (e ▸ ha)⟩
      · intro p hp
        simp only [t3]
        rcases List.mem_append.1 hp with h | h
        · exact hl p (hsub p h)
        · simp only [List.mem_singleton] at h; subst h; exact hlt
      · intro j hj
        simp only [ids, List.map_append, List.map_cons, List.map_nil, List.mem_append, List.mem_singleton] at hj
        rcases hj with h | h
        · obtain ⟨q, hq, rfl⟩ := List.mem_map.1 h
          exact .inl (List.mem_map_of_mem (hsub q hq))
        · exact .inr (.inl (by rw [h]))

theorem withNew_step {i : Option Nat} (ord : Order) (st : State) (c : Cst) (hi : Inv st) :
    StepI i st (st.withNewConstraint ord c) := by
  unfold State.withNewConstraint
  have hi' : Inv { st with nextId := st.nextId + 1 } := by
    obtain ⟨hc, hn, hl⟩ := hi
    exact ⟨hc, hn, fun p hp => Nat.lt_succ_of_lt (hl p hp)⟩
  have hni : st.nextId ∉ ids { st with nextId := st.nextId + 1 } := fun hj => by
    obtain ⟨q, hq, e⟩ := List.mem_map.1 hj
    have := hi.2.2 q hq
    have e' : q.1 = st.nextId := e
    omega
  have s := with_step ord { st with nextId := st.nextId + 1 } st.nextId c hi' (Nat.lt_succ_self _) hni
  refine ⟨s.inv, Nat.le_trans (Nat.le_succ _) s.mono, fun j hj => ?_, s.pan⟩
  rcases s.sub j hj with a | a | a
  · exact .inl a
  · simp only [Option.some.injEq] at a; exact .inr (.inr (by omega))
  · exact .inr (.inr (by simp only at a; omega))

end Pv

namespace Pv
open State

theorem Res.bind_ok {α β} {r : Res α} {f : α → Res β} {b : β} (h : r.bind f = .ok b) :
    ∃ a, r = .ok a ∧ f a = .ok b := by
  cases r with
  | ok a => exact ⟨a, rfl, h⟩
  | fail => cases h
  | fuel => cases h
  | panic s => cases h

/-- a fold of `bind`s that ends in `.ok` started in `.ok`, and a property carried by every step is
    carried by the whole -/
theorem fold_bind_ok {α : Type} (P : State → Prop) (f : State → α → Res State)
    (hf : ∀ st a st', P st → f st a = .ok st' → P st') :
    ∀ (l : List α) (r : Res State) (st' : State),
      l.foldl (fun r a => r.bind fun st => f st a) r = .ok st' → ∃ st, r = .ok st ∧ (P st → P st') := by
  intro l
  induction l with
  | nil => intro r st' h; exact ⟨st', h, id⟩
  | cons a l ih =>
    intro r st' h
    obtain ⟨s1, e1, p1⟩ := ih _ _ h
    obtain ⟨s0, e0, e2⟩ := Res.bind_ok e1
    exact ⟨s0, e0, fun p => p1 (hf _ _ _ p e2)⟩

/-- the identity `i` is free for (re-)adding -/
def Fr (i : Nat) (st : State) : Prop := Inv st ∧ i < st.nextId ∧ i ∉ ids st

theorem Fr.step {i : Nat} {st st1 : State} (h : Fr i st) (s : StepI none st st1) : Fr i st1 :=
  ⟨s.inv, Nat.lt_of_lt_of_le h.2.1 s.mono, fun hj => by
    rcases s.sub i hj with a | a | a
    · exact h.2.2 a
    · cases a
    · exact absurd h.2.1 (by omega)⟩

theorem SameStore.pre {i : Option Nat} {st st0 st' : State} (h : SameStore st st0) (s : StepI i st0 st') :
    StepI i st st' :=
  ⟨s.inv, by have := s.mono; rw [h.2.1] at this; exact this, fun j hj => by
    rcases s.sub j hj with a | a | a
    · exact .inl (by simpa [ids, h.1] using a)
    · exact .inr (.inl a)
    · exact .inr (.inr (by rw [h.2.1] at a; exact a)), s.pan.trans h.2.2.2.2⟩

theorem SameStore.fr {i : Nat} {st st0 : State} (h : SameStore st st0) (f : Fr i st) : Fr i st0 :=
  ⟨h.inv f.1, by rw [h.2.1]; exact f.2.1, by simpa [ids, h.1] using f.2.2⟩

section WithRC
variable {rc : State → Res State} (hrc : RcOK rc) (ord : Order)
include hrc

theorem resolveStorable_step {st st' : State} {x : Nat} {d : FD} (hi : Inv st)
    (h : resolveStorable rc st x d = .ok st') : StepI none st st' := by
  unfold resolveStorable at h
  split at h
  · rename_i n _
    have ss : SameStore st ({ st with σ := bindS x (Term.num n) st.σ }.dremove x) := ⟨rfl, rfl, rfl, rfl, rfl⟩
    exact ss.pre (hrc _ _ (ss.inv hi) h)
  · cases h
    exact SameStore.step ⟨by simp [dinsert], by simp [dinsert], by simp [dinsert], by simp [dinsert], by simp [dinsert]⟩ hi

theorem updateVarDomain_step {st st' : State} {x : Nat} {d : FD} (hi : Inv st)
    (h : updateVarDomain rc st x d = .ok st') : StepI none st st' := by
  unfold updateVarDomain at h
  split at h
  · split at h
    · exact resolveStorable_step hrc hi h
    · cases h
  · exact resolveStorable_step hrc hi h

theorem processDomain_step {st st' : State} {x : Term} {d : FD} (hi : Inv st)
    (h : processDomain rc st x d = .ok st') : StepI none st st' := by
  unfold processDomain at h
  split at h
  · exact updateVarDomain_step hrc hi h
  · split at h
    · cases h; exact StepI.refl hi
    · cases h
  · cases h

theorem excludeFromDomain_step {st st' : State} {xs : List Term} {ex : FD} (hi : Inv st)
    (h : excludeFromDomain rc st xs ex = .ok st') : StepI none st st' := by
  unfold excludeFromDomain at h
  obtain ⟨s0, e0, p⟩ := fold_bind_ok (fun cur => StepI none st cur)
    (fun (cur : State) (y : Term) =>
      match y with
      | .var yv => match st.dget yv with
        | some d => match d.diff ex with
          | some d' => processDomain rc cur y d'
          | none => .fail
        | none => .ok cur
      | _ => .ok cur)
    (by
      intro cur y cur' hp hy
      split at hy
      · split at hy
        · split at hy
          · exact hp.trans (processDomain_step hrc hp.inv hy)
          · cases hy
        · cases hy; exact hp
      · cases hy; exact hp) xs (.ok st) st' h
  cases e0
  exact p (StepI.refl hi)

end WithRC
end Pv

namespace Pv
open State

/-- a re-run one level down respects the lifecycle -/
def SelfOK (self : Nat → Cst → State → Res State) : Prop :=
  ∀ i c st st', Fr i st → self i c st = .ok st' → StepI (some i) st st'

theorem selfOK_fuel : SelfOK (fun _ _ _ => .fuel) := fun _ _ _ _ _ h => by cases h

section WithRC
variable {rc : State → Res State} (hrc : RcOK rc) (ord : Order)

theorem leaf_ok {i : Nat} {st st' : State} (f : Fr i st) (h : Res.ok st = .ok st') : StepI (some i) st st' := by
  cases h; exact StepI.refl f.1

theorem leaf_with {i : Nat} {c : Cst} {st st' : State} (f : Fr i st)
    (h : Res.ok (st.withConstraint ord i c) = .ok st') : StepI (some i) st st' := by
  cases h; exact with_step ord st i c f.1 f.2.1 f.2.2

include hrc

theorem leaf_rc {i : Nat} {st st0 st' : State} (f : Fr i st) (h : rc st0 = .ok st')
    (ss : SameStore st st0) : StepI (some i) st st' :=
  (ss.pre (hrc _ _ (ss.inv f.1) h)).weaken

theorem leaf_pd {i : Nat} {st st' : State} {x : Term} {d : FD} (f : Fr i st)
    (h : processDomain rc st x d = .ok st') : StepI (some i) st st' :=
  (processDomain_step hrc f.1 h).weaken

theorem runPlusZ_step {i : Nat} {u v w : Term} {st st' : State} (f : Fr i st)
    (h : runPlusZ rc ord i u v w st = .ok st') : StepI (some i) st st' := by
  unfold runPlusZ at h
  split at h
  · split at h
    · exact leaf_ok f h
    · cases h
  all_goals first
    | exact leaf_with ord f h
    | exact leaf_rc hrc f h ⟨rfl, rfl, rfl, rfl, rfl⟩
    | cases h

theorem runTimesZ_step {i : Nat} {u v w : Term} {st st' : State} (f : Fr i st)
    (h : runTimesZ rc ord i u v w st = .ok st') : StepI (some i) st st' := by
  unfold runTimesZ at h
  split at h
  · split at h
    · exact leaf_ok f h
    · cases h
  · exact leaf_rc hrc f h ⟨rfl, rfl, rfl, rfl, rfl⟩
  · split at h
    · split at h
      · exact leaf_with ord f h
      · cases h
    · split at h
      · cases h
      · exact leaf_rc hrc f h ⟨rfl, rfl, rfl, rfl, rfl⟩
  · split at h
    · split at h
      · exact leaf_with ord f h
      · cases h
    · split at h
      · cases h
      · exact leaf_rc hrc f h ⟨rfl, rfl, rfl, rfl, rfl⟩
  all_goals first
    | exact leaf_with ord f h
    | cases h

omit hrc in
/-- after nested propagation: re-run or re-add -/
theorem tail_step {self : Nat → Cst → State → Res State} (hs : SelfOK self) {i : Nat} {c : Cst}
    {st st1 st' : State} {ws : List Term} (f : Fr i st) (s : StepI none st st1)
    (h : (if operandBound st1 ws then self i c st1 else .ok (st1.withConstraint ord i c)) = .ok st') :
    StepI (some i) st st' := by
  have f1 := f.step s
  split at h
  · exact s.weaken.trans (hs _ _ _ _ f1 h)
  · exact s.weaken.trans (leaf_with ord f1 h)

theorem narrow3_step {self : Nat → Cst → State → Res State} (hs : SelfOK self) {i : Nat} {c : Cst}
    {uw vw ww : Term} {wi ui vi : FD} {st st' : State} (f : Fr i st)
    (h : narrow3 rc ord self i c uw vw ww wi ui vi st = .ok st') : StepI (some i) st st' := by
  unfold narrow3 at h
  obtain ⟨s1, e1, h⟩ := Res.bind_ok h
  obtain ⟨s2, e2, h⟩ := Res.bind_ok h
  obtain ⟨s3, e3, h⟩ := Res.bind_ok h
  have p1 := processDomain_step hrc f.1 e1
  have p2 := processDomain_step hrc p1.inv e2
  have p3 := processDomain_step hrc p2.inv e3
  exact tail_step ord hs f ((p1.trans p2).trans p3) h

theorem runLteFd_step {self : Nat → Cst → State → Res State} (hs : SelfOK self) {i : Nat}
    {u v : Term} {st st' : State} (f : Fr i st)
    (h : runLteFd rc ord self i u v st = .ok st') : StepI (some i) st st' := by
  unfold runLteFd at h
  simp only at h
  split at h
  · split at h
    · split at h
      · cases h
      · obtain ⟨s1, e1, h⟩ := Res.bind_ok h
        split at h
        · cases h
        · obtain ⟨s2, e2, h⟩ := Res.bind_ok h
          have p1 := processDomain_step hrc f.1 e1
          have p2 := processDomain_step hrc p1.inv e2
          exact tail_step ord hs f (p1.trans p2) h
    · cases h
  · split at h
    · split at h
      · cases h
      · exact leaf_pd hrc f h
    · exact leaf_with ord f h
  · split at h
    · split at h
      · cases h
      · exact leaf_pd hrc f h
    · exact leaf_with ord f h
  · split at h
    · split at h
      · exact leaf_ok f h
      · cases h
    · exact leaf_with ord f h

theorem runPlusFd_step {self : Nat → Cst → State → Res State} (hs : SelfOK self) {i : Nat}
    {u v w : Term} {st st' : State} (f : Fr i st)
    (h : runPlusFd rc ord self i u v w st = .ok st') : StepI (some i) st st' := by
  unfold runPlusFd at h
  simp only at h
  split at h
  · split at h
    · exact leaf_ok f h
    · cases h
  · split at h
    · split at h
      · exact narrow3_step hrc ord hs f h
      · cases h
    · exact leaf_with ord f h

theorem runMinusFd_step {self : Nat → Cst → State → Res State} (hs : SelfOK self) {i : Nat}
    {u v w : Term} {st st' : State} (f : Fr i st)
    (h : runMinusFd rc ord self i u v w st = .ok st') : StepI (some i) st st' := by
  unfold runMinusFd at h
  simp only at h
  split at h
  · split at h
    · exact leaf_ok f h
    · cases h
  · split at h
    · split at h
      · exact narrow3_step hrc ord hs f h
      · cases h
    · exact leaf_with ord f h

theorem runTimesFd_step {self : Nat → Cst → State → Res State} (hs : SelfOK self) {i : Nat}
    {u v w : Term} {st st' : State} (f : Fr i st)
    (h : runTimesFd rc ord self i u v w st = .ok st') : StepI (some i) st st' := by
  unfold runTimesFd at h
  simp only at h
  split at h
  · split at h
    · exact leaf_ok f h
    · cases h
  · split at h
    · split at h
      · exact narrow3_step hrc ord hs f h
      · cases h
    · exact leaf_with ord f h

theorem runDiseqFd_step {i : Nat} {u v : Term} {st st' : State} (f : Fr i st)
    (h : runDiseqFd rc ord i u v st = .ok st') : StepI (some i) st st' := by
  unfold runDiseqFd at h
  simp only at h
  have w := with_step ord st i (.diseqfd u v) f.1 f.2.1 f.2.2
  split at h
  · split at h
    · split at h
      · cases h
      · exact leaf_ok f h
    · split at h
      · cases h
      · exact leaf_ok f h
      · split at h
        · split at h
          · exact w.trans (processDomain_step hrc w.inv h).weaken
          · cases h
        · split at h
          · split at h
            · exact w.trans (processDomain_step hrc w.inv h).weaken
            · cases h
          · exact leaf_with ord f h
  · exact leaf_with ord f h

omit hrc in
/-- a fresh identity drawn from the source -/
theorem fresh_fr {st : State} (hi : Inv st) : Fr st.nextId { st with nextId := st.nextId + 1 } := by
  obtain ⟨hc, hn, hl⟩ := hi
  refine ⟨⟨hc, hn, fun p hp => Nat.lt_succ_of_lt (hl p hp)⟩, Nat.lt_succ_self _, fun hj => ?_⟩
  obtain ⟨q, hq, e⟩ := List.mem_map.1 hj
  have := hl q hq
  have e' : q.1 = st.nextId := e
  omega

omit hrc in
theorem fresh_run {self : Nat → Cst → State → Res State} (hs : SelfOK self) {j : Option Nat} {c : Cst}
    {st st' : State} (hi : Inv st)
    (h : self st.nextId c { st with nextId := st.nextId + 1 } = .ok st') : StepI j st st' := by
  have s := hs _ _ _ _ (fresh_fr hi) h
  refine ⟨s.inv, Nat.le_trans (Nat.le_succ _) s.mono, fun k hk => ?_, s.pan⟩
  rcases s.sub k hk with a | a | a
  · exact .inl a
  · simp only [Option.some.injEq] at a; exact .inr (.inr (by omega))
  · exact .inr (.inr (by have a' : st.nextId + 1 ≤ k := a; omega))

omit hrc in
theorem runDistinctFd_step {self : Nat → Cst → State → Res State} (hs : SelfOK self) {i : Nat}
    {u : Term} {st st' : State} (f : Fr i st)
    (h : runDistinctFd ord self i u st = .ok st') : StepI (some i) st st' := by
  unfold runDistinctFd at h
  split at h
  · exact leaf_with ord f h
  · exact fresh_run hs f.1 h
  · simp only at h
    split at h
    · split at h
      · cases h
      · exact fresh_run hs f.1 h
    · cases h
  · cases h

theorem runDistinctFd2_step {j : Option Nat} {u : Term} {y : List Term} {n : List Int} {st st' : State}
    (hi : Inv st) (h : runDistinctFd2 rc ord u y n st = .ok st') : StepI j st st' := by
  unfold runDistinctFd2 at h
  obtain ⟨⟨x, n'⟩, _, h⟩ := Res.bind_ok h
  simp only at h
  have w : StepI j st (st.withNewConstraint ord (.distinctfd2 u x n')) := withNew_step ord st _ hi
  split at h
  · cases h; exact w
  · have e := excludeFromDomain_step hrc w.inv h
    refine ⟨e.inv, Nat.le_trans w.mono e.mono, fun k hk => ?_, e.pan.trans w.pan⟩
    rcases e.sub k hk with a | a | a
    · exact w.sub k a
    · cases a
    · exact .inr (.inr (Nat.le_trans w.mono a))

omit hrc in
theorem runDiseq_step {j : Option Nat} {ps : Ext1} {st st' : State} (hi : Inv st)
    (h : runDiseq ord st ps = .ok st') : StepI j st st' := by
  unfold runDiseq at h
  split at h
  · cases h
  · cases h; exact StepI.refl hi
  · split at h
    · cases h
    · cases h; exact withNew_step ord st _ hi

theorem runCstBody_step {self : Nat → Cst → State → Res State} (hs : SelfOK self) {i : Nat} {c : Cst}
    {st st' : State} (f : Fr i st) (h : runCstBody rc ord self i c st = .ok st') :
    StepI (some i) st st' := by
  cases c with
  | diseq ps => exact runDiseq_step ord f.1 h
  | plusz u v w => exact runPlusZ_step hrc ord f h
  | timesz u v w => exact runTimesZ_step hrc ord f h
  | ltefd u v => exact runLteFd_step hrc ord hs f h
  | plusfd u v w => exact runPlusFd_step hrc ord hs f h
  | minusfd u v w => exact runMinusFd_step hrc ord hs f h
  | timesfd u v w => exact runTimesFd_step hrc ord hs f h
  | diseqfd u v => exact runDiseqFd_step hrc ord f h
  | distinctfd u => exact runDistinctFd_step ord hs f h
  | distinctfd2 u y n => exact runDistinctFd2_step hrc ord f.1 h

theorem runCst_selfOK : ∀ k, SelfOK (runCst rc ord k)
  | 0 => fun _ _ _ _ f h => runCstBody_step hrc ord selfOK_fuel f h
  | k + 1 => fun _ _ _ _ f h => runCstBody_step hrc ord (runCst_selfOK k) f h

/-- the loop of `run_constraints` over a snapshot -/
theorem runSnapshot_step {st st' : State} {snap : List (Nat × Cst)} (hi : Inv st)
    (h : runSnapshot rc ord st snap = .ok st') : StepI none st st' := by
  unfold runSnapshot at h
  obtain ⟨s0, e0, p⟩ := fold_bind_ok (fun cur => StepI none st cur)
    (fun (cur : State) (p : Nat × Cst) =>
      match cur.takeConstraint p.1 with
      | (st', some c) => runCst rc ord 4 p.1 c st'
      | (st', none) => .ok st')
    (by
      intro cur p cur' hp hy
      obtain ⟨ti, tn, ts, tf⟩ := take_step cur p.1 hp.inv
      split at hy
      · rename_i st1 c e
        have e1 : (cur.takeConstraint p.1).1 = st1 := by rw [e]
        have e2 : (cur.takeConstraint p.1).2 = some c := by rw [e]
        rw [e1] at ti tn ts tf
        obtain ⟨hni, hlt⟩ := tf c e2
        have fr : Fr p.1 st1 := ⟨ti, by rw [tn]; exact hlt, hni⟩
        have s := runCst_selfOK hrc ord 4 _ _ _ _ fr hy
        have hmem : p.1 ∈ ids cur := List.mem_map_of_mem (f := fun q : Nat × Cst => q.1) (a := (p.1, c)) (take_some e2)
        refine ⟨s.inv, Nat.le_trans hp.mono (by rw [← tn]; exact s.mono), fun k hk => ?_,
          s.pan.trans ((by rw [← e1]; exact take_panic cur p.1 : st1.panic = cur.panic).trans hp.pan)⟩
        rcases s.sub k hk with a | a | a
        · rcases hp.sub k (ts k a) with b | b | b
          · exact .inl b
          · cases b
          · exact .inr (.inr b)
        · simp only [Option.some.injEq] at a
          subst a
          rcases hp.sub _ hmem with b | b | b
          · exact .inl b
          · cases b
          · exact .inr (.inr b)
        · exact .inr (.inr (Nat.le_trans hp.mono (by rw [← tn]; exact a)))
      · rename_i st1 e
        cases hy
        have e1 : (cur.takeConstraint p.1).1 = cur' := by rw [e]
        rw [e1] at ti tn ts
        refine ⟨ti, by rw [tn]; exact hp.mono, fun k hk => ?_,
          (by rw [← e1]; exact take_panic cur p.1 : cur'.panic = cur.panic).trans hp.pan⟩
        rcases hp.sub k (ts k hk) with b | b | b
        · exact .inl b
        · cases b
        · exact .inr (.inr b)) snap (.ok st) st' h
  cases e0
  exact p (StepI.refl hi)

end WithRC

/-- `run_constraints`, at every nesting depth -/
theorem runConstraintsF_ok (ord : Order) : ∀ n, RcOK (runConstraintsF ord n)
  | 0 => fun _ _ _ h => by cases h
  | n + 1 => fun _ _ hi h => runSnapshot_step (runConstraintsF_ok ord n) ord hi h

end Pv

namespace Pv
open State

/-! ### the top-level operations of the state -/

theorem postCst_step (ord : Order) {st st' : State} {c : Cst} (hi : Inv st)
    (h : postCst ord st c = .ok st') : StepI none st st' :=
  fresh_run (runCst_selfOK (runConstraintsF_ok ord rcFuel) ord 4) hi h

theorem processExtensionFd_step (ord : Order) {st st' : State} {e : Ext1} (hi : Inv st)
    (h : processExtensionFd ord st e = .ok st') : StepI none st st' := by
  unfold processExtensionFd at h
  obtain ⟨s0, e0, p⟩ := fold_bind_ok (fun cur => StepI none st cur)
    (fun (cur : State) (p : Nat × Term) =>
      match st.dget p.1 with
      | some d =>
        (processDomain (runConstraintsF ord rcFuel) cur p.2 d).bind fun st =>
          match st.dget p.1 with
          | some _ => runConstraintsF ord (rcFuel + 1) (st.dremove p.1)
          | none => .fail
      | none => .ok cur)
    (by
      intro cur p cur' hp hy
      split at hy
      · obtain ⟨s1, e1, hy⟩ := Res.bind_ok hy
        have p1 := processDomain_step (runConstraintsF_ok ord rcFuel) hp.inv e1
        split at hy
        · have ss : SameStore s1 (s1.dremove p.1) := ⟨rfl, rfl, rfl, rfl, rfl⟩
          exact (hp.trans p1).trans (ss.pre (runConstraintsF_ok ord _ _ _ (ss.inv p1.inv) hy))
        · cases hy
      · cases hy; exact hp) (ord.ps e) (.ok st) st' h
  cases e0
  exact p (StepI.refl hi)

theorem processExtension_step (ord : Order) {st st' : State} {e : Ext1} (hi : Inv st)
    (h : processExtension ord st e = .ok st') : StepI none st st' := by
  unfold processExtension at h
  obtain ⟨s1, e1, h⟩ := Res.bind_ok h
  obtain ⟨s2, e2, h⟩ := Res.bind_ok h
  cases h
  have p1 := runConstraintsF_ok ord _ _ _ hi e1
  have p2 := processExtensionFd_step ord p1.inv e2
  exact (p1.trans p2).trans (SameStore.step ⟨rfl, rfl, rfl, rfl, rfl⟩ p2.inv)

theorem unify_step (ord : Order) {st st' : State} {u v : Term} (hi : Inv st)
    (h : unify ord st u v = .ok st') : StepI none st st' := by
  unfold unify at h
  split at h
  · cases h
  · cases h
  · rename_i σ' e _
    have ss : SameStore st { st with σ := σ' } := ⟨rfl, rfl, rfl, rfl, rfl⟩
    exact ss.pre (processExtension_step ord (ss.inv hi) h)

theorem disunify_step (ord : Order) {st st' : State} {u v : Term} (hi : Inv st)
    (h : disunify ord st u v = .ok st') : StepI none st st' := by
  unfold disunify at h
  split at h
  · cases h
  · cases h; exact StepI.refl hi
  · split at h
    · cases h
    · cases h; exact withNew_step ord st _ hi

theorem domFd_step (ord : Order) {st st' : State} {x : Term} {d : FD} (hi : Inv st)
    (h : domFd ord st x d = .ok st') : StepI none st st' :=
  processDomain_step (runConstraintsF_ok ord rcFuel) hi h

theorem inv_empty (n : Nat) : Inv (State.empty n) :=
  ⟨C22_init n, by simp [State.empty], by simp [State.empty]⟩

end Pv
