/-
  SCOPING: every variable a state mentions — in the range of its substitution and in its stored disequalities — is
  below the state's source of fresh variables, provided the posted atoms are.  (`reify` names the unbound variables
  of the answer with NEW variables `nextVar, nextVar + 1, …`: this is what makes them new.)
  Same skeleton as the normal-form invariant of Proofs/DiseqNF.lean.
-/
import PvModel.Proofs.DiseqNF
import PvModel.Proofs.RelComplete
namespace Pv
open Term

/-- the substitution is the identity from `m` on, and maps variables below `m` to terms over variables below `m` -/
def SubBelow (m : Nat) (σ : Subst) : Prop := (∀ y, m ≤ y → σ y = .var y) ∧ ∀ y, y < m → Below m (σ y)

def PairsBelow (m : Nat) (e : Ext1) : Prop := ∀ p ∈ e, p.1 < m ∧ Below m p.2

def StoreBelow (m : Nat) (st : State) : Prop := ∀ q ∈ st.store, ∀ ps, q.2 = .diseq ps → PairsBelow m ps

/-- every variable the state mentions is below `m` -/
def Scoped (m : Nat) (st : State) : Prop := SubBelow m st.σ ∧ StoreBelow m st

theorem pairsBelow_nil (m : Nat) : PairsBelow m [] := fun p (h : p ∈ []) => nomatch h

theorem below_cons_iff {m : Nat} {a b : Term} : Below m (.cons a b) ↔ Below m a ∧ Below m b := by
  simp only [Below, Term.vars, List.mem_append]
  exact ⟨fun h => ⟨fun y hy => h y (.inl hy), fun y hy => h y (.inr hy)⟩, fun h y hy => hy.elim (h.1 y) (h.2 y)⟩

theorem below_comp_iff {m g : Nat} {a : Term} : Below m (.comp g a) ↔ Below m a := by
  simp only [Below, Term.vars]

theorem below_var_iff {m x : Nat} : Below m (.var x) ↔ x < m := by
  simp [Below, Term.vars]

theorem below_val (m : Nat) (a : Val) : Below m (.val a) := fun y hy => by simp [Term.vars] at hy
theorem below_nil' (m : Nat) : Below m .nil := fun y hy => by simp [Term.vars] at hy

theorem apply_below {m : Nat} {σ : Subst} (h : SubBelow m σ) : ∀ {t : Term}, Below m t → Below m (apply σ t)
  | .var y, ht => h.2 y (below_var_iff.1 ht)
  | .val a, _ => below_val m a
  | .nil, _ => below_nil' m
  | .cons a b, ht => by
    rw [below_cons_iff] at ht
    simp only [apply]; exact below_cons_iff.2 ⟨apply_below h ht.1, apply_below h ht.2⟩
  | .comp g a, ht => by
    rw [below_comp_iff] at ht
    simp only [apply]; exact below_comp_iff.2 (apply_below h ht)

theorem walk_below {m : Nat} {σ : Subst} (h : SubBelow m σ) {t : Term} (ht : Below m t) : Below m (walk σ t) := by
  cases t with
  | var y => exact h.2 y (below_var_iff.1 ht)
  | _ => exact ht

theorem sub1_below {m x : Nat} {t : Term} (ht : Below m t) : ∀ {s : Term}, Below m s → Below m (apply (sub1 x t) s)
  | .var y, hs => by
    simp only [apply, sub1]
    split
    · exact ht
    · exact hs
  | .val a, _ => below_val m a
  | .nil, _ => below_nil' m
  | .cons a b, hs => by
    rw [below_cons_iff] at hs
    simp only [apply]; exact below_cons_iff.2 ⟨sub1_below ht hs.1, sub1_below ht hs.2⟩
  | .comp g a, hs => by
    rw [below_comp_iff] at hs
    simp only [apply]; exact below_comp_iff.2 (sub1_below ht hs)

theorem bindS_below {m x : Nat} {t : Term} {σ : Subst} (h : SubBelow m σ) (hx : x < m) (ht : Below m t) :
    SubBelow m (bindS x t σ) := by
  refine ⟨fun y hy => ?_, fun y hy => sub1_below ht (h.2 y hy)⟩
  show apply (sub1 x t) (σ y) = .var y
  rw [h.1 y hy]
  have : ¬ y = x := by omega
  simp [apply, sub1, this]

theorem unifyF_below {m : Nat} : ∀ (n : Nat) (σ σ' : Subst) (e e' : Ext1) (u v : Term), Solved σ → SubBelow m σ →
    Below m u → Below m v → PairsBelow m e → unifyF n σ e u v = some (some (σ', e')) →
    SubBelow m σ' ∧ PairsBelow m e' := by
  intro n
  induction n with
  | zero => intro σ σ' e e' u v _ _ _ _ _ h; simp [unifyF] at h
  | succ n ih =>
    intro σ σ' e e' u v hs hb hu hv he h
    have st := unifyF_step hs h
    have wu := walk_below hb hu
    have wv := walk_below hb hv
    cases st with
    | same x _ _ => exact ⟨hb, he⟩
    | valEq a _ _ => exact ⟨hb, he⟩
    | nilnil _ _ => exact ⟨hb, he⟩
    | bindL x hwu _ _ =>
      rw [hwu] at wu
      have hx := below_var_iff.1 wu
      have ht := apply_below hb hv
      exact ⟨bindS_below hb hx ht, fun p hp => by
        rcases List.mem_cons.1 hp with rfl | hp
        · exact ⟨hx, ht⟩
        · exact he p hp⟩
    | bindR y hwv _ _ =>
      rw [hwv] at wv
      have hy := below_var_iff.1 wv
      have ht := apply_below hb hu
      exact ⟨bindS_below hb hy ht, fun p hp => by
        rcases List.mem_cons.1 hp with rfl | hp
        · exact ⟨hy, ht⟩
        · exact he p hp⟩
    | consOk h1 t1 h2 t2 σ1 e1 _ hwu hwv hh ht =>
      rw [hwu] at wu; rw [hwv] at wv
      rw [below_cons_iff] at wu wv
      obtain ⟨a1, _, _⟩ := unifyF_sound_aux _ _ _ _ _ _ _ hs hh
      obtain ⟨b1, c1⟩ := ih _ _ _ _ _ _ hs hb wu.1 wv.1 he hh
      exact ih _ _ _ _ _ _ a1 b1 wu.2 wv.2 c1 ht
    | comp g a1 a2 _ hwu hwv ha =>
      rw [hwu] at wu; rw [hwv] at wv
      exact ih _ _ _ _ _ _ hs hb (below_comp_iff.1 wu) (below_comp_iff.1 wv) he ha

theorem unifyPairsF_below {m : Nat} (n : Nat) : ∀ (ps : List (Term × Term)) (σ σ' : Subst) (e e' : Ext1), Solved σ →
    SubBelow m σ → (∀ p ∈ ps, Below m p.1 ∧ Below m p.2) → PairsBelow m e →
    unifyPairsF n σ e ps = some (some (σ', e')) → SubBelow m σ' ∧ PairsBelow m e'
  | [], σ, σ', e, e', _, hb, _, he, h => by
    simp only [unifyPairsF, Option.some.injEq, Prod.mk.injEq] at h
    obtain ⟨rfl, rfl⟩ := h
    exact ⟨hb, he⟩
  | (u, v) :: ps, σ, σ', e, e', hs, hb, hps, he, h => by
    simp only [unifyPairsF] at h
    cases hu : unifyF n σ e u v with
    | none => rw [hu] at h; simp at h
    | some r =>
      cases r with
      | none => rw [hu] at h; simp at h
      | some q =>
        obtain ⟨σ1, e1⟩ := q
        rw [hu] at h
        simp only at h
        obtain ⟨a1, _, _⟩ := unifyF_sound_aux _ _ _ _ _ _ _ hs hu
        have hp := hps (u, v) List.mem_cons_self
        obtain ⟨b1, c1⟩ := unifyF_below _ _ _ _ _ _ _ hs hb hp.1 hp.2 he hu
        exact unifyPairsF_below n ps σ1 σ' e1 e' a1 b1 (fun p hp => hps p (List.mem_cons_of_mem _ hp)) c1 h

theorem withNew_below (ord : Order) {m : Nat} {st : State} (ps : Ext1) (h : StoreBelow m st) (hp : PairsBelow m ps) :
    StoreBelow m (st.withNewConstraint ord (.diseq ps)) := by
  unfold State.withNewConstraint
  rw [withConstraint_diseq_eq]
  split
  · exact h
  · generalize hst0 : ({ st with nextId := st.nextId + 1 } : State) = st0
    have hstore0 : st0.store = st.store := by subst hst0; rfl
    generalize hred : (ord.cs st0.store).filter (subOf ord ps) = red
    obtain ⟨_, _, _, _, t5⟩ := takes_fields red st0
    intro q hq qs he
    simp only [List.mem_append, List.mem_singleton] at hq
    rcases hq with hq | hq
    · exact h q (by rw [← hstore0]; exact ((t5 q).1 hq).1) qs he
    · subst hq
      simp only [Cst.diseq.injEq] at he
      subst he
      exact hp

theorem withNew_diseq_sig (ord : Order) (st : State) (ps : Ext1) :
    (st.withNewConstraint ord (.diseq ps)).σ = st.σ ∧ (st.withNewConstraint ord (.diseq ps)).nextVar = st.nextVar := by
  unfold State.withNewConstraint
  rw [withConstraint_diseq_eq]
  split
  · exact ⟨rfl, rfl⟩
  · obtain ⟨t1, _, _, _, _⟩ := takes_fields ((ord.cs st.store).filter (subOf ord ps)) { st with nextId := st.nextId + 1 }
    exact ⟨t1, by rw [show ∀ s : State, ({ s with withs := s.withs + 1, store := s.store ++ [(st.nextId, Cst.diseq ps)] } : State).nextVar = s.nextVar from fun _ => rfl, takes_nextVar]⟩

theorem diseqResult_below (ord : Order) {m : Nat} {st : State} (h : StoreBelow m st)
    (r : Option (Option (Subst × Ext1))) (hr : ∀ σ' e, r = some (some (σ', e)) → PairsBelow m e) :
    ∀ st', diseqResult ord st r = .ok st' → StoreBelow m st' ∧ st'.σ = st.σ := by
  intro st' hres
  cases r with
  | none => simp [diseqResult] at hres
  | some q =>
    cases q with
    | none => simp only [diseqResult, Res.ok.injEq] at hres; subst hres; exact ⟨h, rfl⟩
    | some p =>
      obtain ⟨σ', e⟩ := p
      simp only [diseqResult] at hres
      split at hres
      · cases hres
      · simp only [Res.ok.injEq] at hres
        subst hres
        exact ⟨withNew_below ord e h (hr σ' e rfl), (withNew_diseq_sig ord st e).1⟩

theorem runDiseq_below (ord : Order) (ho : OrderOK ord) {m : Nat} {st st' : State} (hs : Solved st.σ) (hb : SubBelow m st.σ)
    (h : StoreBelow m st) (ps : Ext1) (hp : PairsBelow m ps) (hres : State.runDiseq ord st ps = .ok st') :
    StoreBelow m st' ∧ st'.σ = st.σ := by
  rw [runDiseq_eq] at hres
  refine diseqResult_below ord h _ (fun σ' e hu => ?_) st' hres
  refine (unifyPairsF_below _ _ _ _ _ _ hs hb (fun q hq => ?_) (pairsBelow_nil m) hu).2
  simp only [State.eqsOf, List.mem_map] at hq
  obtain ⟨p, hpm, rfl⟩ := hq
  have := hp p ((ho.2.1 ps).mem_iff.1 hpm)
  exact ⟨below_var_iff.2 this.1, this.2⟩

theorem disunify_below (ord : Order) {m : Nat} {st st' : State} (hs : Solved st.σ) (hb : SubBelow m st.σ)
    (h : StoreBelow m st) (u v : Term) (hu : Below m u) (hv : Below m v) (hres : State.disunify ord st u v = .ok st') :
    StoreBelow m st' ∧ st'.σ = st.σ := by
  rw [disunify_eq] at hres
  refine diseqResult_below ord h _ (fun σ' e hun => ?_) st' hres
  exact (unifyF_below _ _ _ _ _ _ _ hs hb hu hv (pairsBelow_nil m) hun).2

theorem snapStep_below (rc : State → Res State) (ord : Order) (ho : OrderOK ord) {m : Nat} {st s1 : State} (p : Nat × Cst)
    (hs : Solved st.σ) (ht : TreeOnly st) (hi : IdsOK st) (hb : SubBelow m st.σ) (h : StoreBelow m st)
    (hres : snapStep rc ord st p = .ok s1) : StoreBelow m s1 ∧ s1.σ = st.σ := by
  unfold snapStep at hres
  rcases hc : st.takeConstraint p.1 with ⟨st1, oc⟩
  rw [hc] at hres
  obtain ⟨f1, _, _, f4⟩ := take_fields st p.1
  rw [hc] at f1 f4
  simp only at f1 f4
  have h1 : StoreBelow m st1 := by
    intro q hq qs he
    rw [f4] at hq
    exact h q (List.mem_filter.1 hq).1 qs he
  cases oc with
  | none => simp only [Res.ok.injEq] at hres; subst hres; exact ⟨h1, f1⟩
  | some c =>
    obtain ⟨ps, rfl, _, _, _, _⟩ := take_spec ht hi hc
    simp only [runCst_diseq] at hres
    have hm : (p.1, Cst.diseq ps) ∈ st.store := take_some (by rw [hc])
    obtain ⟨r1, r2⟩ := runDiseq_below ord ho (by rw [f1]; exact hs) (by rw [f1]; exact hb) h1 ps (h _ hm ps rfl) hres
    exact ⟨r1, r2.trans f1⟩

theorem loop_below (rc : State → Res State) {ord : Order} (ho : OrderOK ord) {m : Nat} :
    ∀ (snap : List (Nat × Cst)) (st st' : State), Solved st.σ → TreeOnly st → IdsOK st → SubBelow m st.σ →
      StoreBelow m st → State.runSnapshot rc ord st snap = .ok st' → StoreBelow m st' ∧ st'.σ = st.σ := by
  intro snap
  induction snap with
  | nil =>
    intro st st' _ _ _ _ h hres
    rw [runSnapshot_eq] at hres
    simp only [List.foldl_nil, Res.ok.injEq] at hres
    subst hres
    exact ⟨h, rfl⟩
  | cons p rest ih =>
    intro st st' hs ht hi hb h hres
    rw [runSnapshot_eq, List.foldl_cons] at hres
    have e : ((Res.ok st).bind fun st => snapStep rc ord st p) = snapStep rc ord st p := rfl
    rw [e] at hres
    obtain ⟨sok, _, _⟩ := snapStep_spec rc ho hs ht hi p
    cases hstep : snapStep rc ord st p with
    | ok s1 =>
      have a := sok s1 hstep
      rw [hstep, ← runSnapshot_eq] at hres
      obtain ⟨b1, b2⟩ := snapStep_below rc ord ho p hs ht hi hb h hstep
      obtain ⟨c1, c2⟩ := ih s1 st' (by rw [a.sig]; exact hs) a.tree a.ids (by rw [b2]; exact hb) b1 hres
      exact ⟨c1, c2.trans b2⟩
    | fail => rw [hstep, foldl_bind_fail] at hres; cases hres
    | fuel => rw [hstep, foldl_bind_fuel] at hres; cases hres
    | panic s => rw [hstep, foldl_bind_panic] at hres; cases hres

theorem unify_scoped {ord : Order} (ho : OrderOK ord) {m : Nat} {st st' : State} (hg : Good st) (hsc : Scoped m st)
    (u v : Term) (hbu : Below m u) (hbv : Below m v) (hres : st.unify ord u v = .ok st') : Scoped m st' := by
  obtain ⟨hs, ht, hi⟩ := hg
  unfold State.unify at hres
  cases hu : unifyF unifyFuel st.σ [] u v with
  | none => rw [hu] at hres; cases hres
  | some r =>
    cases r with
    | none => rw [hu] at hres; cases hres
    | some q =>
      obtain ⟨σ', e⟩ := q
      rw [hu] at hres
      simp only [] at hres
      obtain ⟨s', _, _⟩ := unifyF_sound _ _ _ _ _ _ _ hs hu
      obtain ⟨bσ, _⟩ := unifyF_below _ _ _ _ _ _ _ hs hsc.1 hbu hbv (pairsBelow_nil m) hu
      generalize hst1 : ({ st with σ := σ' } : State) = st1 at hres
      have hσ1 : st1.σ = σ' := by subst hst1; rfl
      have ht1 : TreeOnly st1 := by subst hst1; exact ht
      have hi1 : IdsOK st1 := by subst hst1; exact hi
      have hs1 : Solved st1.σ := by rw [hσ1]; exact s'
      have hb1 : StoreBelow m st1 := by subst hst1; exact hsc.2
      unfold State.processExtension at hres
      obtain ⟨lok, _, _⟩ := loop_spec (State.runConstraintsF ord State.rcFuel) ho (ord.cs st1.store) st1 hs1 ht1 hi1
      cases hl : State.runConstraintsF ord (State.rcFuel + 1) st1 with
      | ok st2 =>
        have hl' := hl
        rw [runConstraintsF_succ] at hl'
        obtain ⟨d1, d2⟩ := loop_below _ ho _ st1 st2 hs1 ht1 hi1 (by rw [hσ1]; exact bσ) hb1 hl'
        have a := lok st2 (by rw [← runConstraintsF_succ]; exact hl)
        rw [hl] at hres
        simp only [Res.bind, processExtensionFd_tree ord st2 e a.tree.2, Res.ok.injEq] at hres
        subst hres
        exact ⟨by show SubBelow m st2.σ; rw [d2, hσ1]; exact bσ, d1⟩
      | fail => rw [hl] at hres; cases hres
      | fuel => rw [hl] at hres; cases hres
      | panic s => rw [hl] at hres; cases hres

/-- the atom mentions only variables below `m` -/
def TAtom.Below (m : Nat) : TAtom → Prop
  | .eq u v => Pv.Below m u ∧ Pv.Below m v
  | .neq u v => Pv.Below m u ∧ Pv.Below m v

theorem postAtom_scoped {ord : Order} (ho : OrderOK ord) {m : Nat} {st st' : State} (a : TAtom) (hg : Good st)
    (hsc : Scoped m st) (ha : a.Below m) (hres : postAtom ord st a = .ok st') : Scoped m st' := by
  cases a with
  | eq u v => exact unify_scoped ho hg hsc u v ha.1 ha.2 hres
  | neq u v =>
    obtain ⟨r1, r2⟩ := disunify_below ord hg.1 hsc.1 hsc.2 u v ha.1 ha.2 hres
    exact ⟨by rw [r2]; exact hsc.1, r1⟩

theorem postAll_scoped {ord : Order} (ho : OrderOK ord) {m : Nat} : ∀ (as : List TAtom) (st st' : State), Good st →
    Scoped m st → (∀ a ∈ as, a.Below m) → postAll ord st as = .ok st' → Scoped m st'
  | [], st, st', _, hsc, _, h => by simp only [postAll, Res.ok.injEq] at h; subst h; exact hsc
  | a :: as, st, st', hg, hsc, hb, h => by
    simp only [postAll] at h
    cases h1 : postAtom ord st a with
    | ok st1 =>
      rw [h1] at h
      exact postAll_scoped ho as st1 st' (postAtom_ok ord ho st st1 a hg h1).1
        (postAtom_scoped ho a hg hsc (hb a List.mem_cons_self) h1) (fun b hb' => hb b (List.mem_cons_of_mem _ hb')) h
    | fail => rw [h1] at h; cases h
    | fuel => rw [h1] at h; cases h
    | panic s => rw [h1] at h; cases h

theorem scoped_empty (m n : Nat) : Scoped m (State.empty n) :=
  ⟨⟨fun _ _ => rfl, fun y hy => below_var_iff.2 hy⟩, fun q hq => by simp [State.empty] at hq⟩

end Pv
