/-
  COMPLETENESS of the engine for the library relations: every valuation described by the start state under
  which the arguments are in the relation is (after choosing values for the fresh variables the unfolding
  introduces) described by a state in the engine's stream — or the model ran out of unification fuel on the
  way, which leaves a FUEL-poisoned state in the stream.

  Ingredients: `Free m st` — the state says nothing about variables ≥ m (semantically: its described
  valuations are closed under changing those variables); atoms keep it (their meaning only depends on the
  variables they mention, and the counter `nextVar` is not touched: `AddOK.nv`); a relation call advances the
  counter past the fresh variables of its body.  The induction is on the derivation of the specification.
-/
import PvModel.Proofs.RelSpec
import PvModel.Proofs.DiseqNF
namespace Pv
open Strm Goal State Term

/-! ### valuations that agree below a bound -/

def Agree (m : Nat) (γ γ' : Subst) : Prop := ∀ x, x < m → γ x = γ' x

theorem Agree.refl (m : Nat) (γ : Subst) : Agree m γ γ := fun _ _ => rfl
theorem Agree.symm {m : Nat} {γ γ' : Subst} (h : Agree m γ γ') : Agree m γ' γ := fun x hx => (h x hx).symm
theorem Agree.trans {m : Nat} {γ1 γ2 γ3 : Subst} (h1 : Agree m γ1 γ2) (h2 : Agree m γ2 γ3) : Agree m γ1 γ3 :=
  fun x hx => (h1 x hx).trans (h2 x hx)
theorem Agree.mono {m m' : Nat} {γ γ' : Subst} (h : Agree m γ γ') (hm : m' ≤ m) : Agree m' γ γ' :=
  fun x hx => h x (Nat.lt_of_lt_of_le hx hm)

/-- all variables of the term are below the bound -/
def Below (m : Nat) (t : Term) : Prop := ∀ y ∈ t.vars, y < m

theorem Below.mono {m m' : Nat} {t : Term} (h : Below m t) (hm : m ≤ m') : Below m' t :=
  fun y hy => Nat.lt_of_lt_of_le (h y hy) hm

theorem below_var {m k : Nat} (h : k < m) : Below m (.var k) := fun y hy => by
  simp only [Term.vars, List.mem_singleton] at hy; subst hy; exact h

theorem below_cons {m : Nat} {h t : Term} (h1 : Below m h) (h2 : Below m t) : Below m (.cons h t) := fun y hy => by
  simp only [Term.vars, List.mem_append] at hy
  exact hy.elim (h1 y) (h2 y)

theorem below_nil (m : Nat) : Below m .nil := fun y hy => by simp [Term.vars] at hy

theorem apply_of_agree {m : Nat} {γ γ' : Subst} {t : Term} (hb : Below m t) (h : Agree m γ γ') : apply γ t = apply γ' t :=
  apply_agree fun y hy => h y (hb y hy)

/-- the state says nothing about the variables ≥ m -/
def Free (m : Nat) (st : State) : Prop := ∀ γ γ', Agree m γ γ' → StateSem γ st → StateSem γ' st

theorem Free.mono {m m' : Nat} {st : State} (h : Free m st) (hm : m ≤ m') : Free m' st :=
  fun γ γ' ha => h γ γ' (ha.mono hm)

/-- the invariant of the completeness proofs -/
def RInv (st : State) : Prop := Good st ∧ Free st.nextVar st

/-- one variable set -/
def setV (γ : Subst) (x : Nat) (t : Term) : Subst := fun y => if y = x then t else γ y

theorem setV_self (γ : Subst) (x : Nat) (t : Term) : setV γ x t x = t := by simp [setV]
theorem setV_other (γ : Subst) {x y : Nat} (t : Term) (h : y ≠ x) : setV γ x t y = γ y := by simp [setV, h]
theorem agree_setV (γ : Subst) {m x : Nat} (t : Term) (h : m ≤ x) : Agree m γ (setV γ x t) :=
  fun y hy => (setV_other γ t (by omega)).symm

theorem sat_agree {m : Nat} {γ γ' : Subst} (t : TAtom) (hb : match t with | .eq u v => Below m u ∧ Below m v | .neq u v => Below m u ∧ Below m v)
    (h : Agree m γ γ') : t.Sat γ → t.Sat γ' := by
  cases t with
  | eq u v => simp only [TAtom.Sat]; rw [apply_of_agree hb.1 h, apply_of_agree hb.2 h]; exact id
  | neq u v => simp only [TAtom.Sat]; rw [apply_of_agree hb.1 h, apply_of_agree hb.2 h]; exact id

section
variable {ord : Order}

/-- `==`/`!=` do not touch the source of fresh variables -/
theorem postAtom_nv (ho : OrderOK ord) {st st' : State} (a : TAtom) (hg : Good st)
    (hres : postAtom ord st a = .ok st') : st'.nextVar = st.nextVar := by
  obtain ⟨hs, ht, hi⟩ := hg
  cases a with
  | neq u v => exact ((disunify_spec ho hs ht hi u v).1 st' hres).nv
  | eq u v =>
    simp only [postAtom] at hres
    unfold State.unify at hres
    cases hu : unifyF unifyFuel st.σ [] u v with
    | none => rw [hu] at hres; cases hres
    | some r =>
      cases r with
      | none => rw [hu] at hres; cases hres
      | some q =>
        obtain ⟨σ', e⟩ := q
        rw [hu] at hres
        simp only [] at hres
        obtain ⟨s', _, _⟩ := unifyF_sound _ _ _ _ _ _ _ hs hu
        generalize hst1 : ({ st with σ := σ' } : State) = st1 at hres
        have hσ1 : st1.σ = σ' := by subst hst1; rfl
        have hn1 : st1.nextVar = st.nextVar := by subst hst1; rfl
        have ht1 : TreeOnly st1 := by subst hst1; exact ht
        have hi1 : IdsOK st1 := by subst hst1; exact hi
        have hs1 : Solved st1.σ := by rw [hσ1]; exact s'
        unfold State.processExtension at hres
        obtain ⟨lok, _, _⟩ := loop_spec (State.runConstraintsF ord State.rcFuel) ho (ord.cs st1.store) st1 hs1 ht1 hi1
        cases hl : State.runConstraintsF ord (State.rcFuel + 1) st1 with
        | ok st2 =>
          have a := lok st2 (by rw [← runConstraintsF_succ]; exact hl)
          rw [hl] at hres
          simp only [Res.bind, processExtensionFd_tree ord st2 e a.tree.2, Res.ok.injEq] at hres
          subst hres
          show st2.nextVar = st.nextVar
          rw [a.nv, hn1]
        | fail => rw [hl] at hres; cases hres
        | fuel => rw [hl] at hres; cases hres
        | panic s => rw [hl] at hres; cases hres

/-- what a successful search step promises about its answer -/
def Post (a : State) (γ : Subst) (b : State) : Prop :=
  b.panic.isSome = true ∨ (RInv b ∧ a.nextVar ≤ b.nextVar ∧ ∃ γ', Agree a.nextVar γ γ' ∧ StateSem γ' b)

/-- completeness of one atom: a described valuation that satisfies the atom is described by the answer -/
theorem comp_atom (ho : OrderOK ord) (t : TAtom) {a : State} {γ : Subst}
    (hb : match t with | .eq u v => Below a.nextVar u ∧ Below a.nextVar v | .neq u v => Below a.nextVar u ∧ Below a.nextVar v)
    (hp : a.panic.isSome = false) (hi : RInv a) (hγ : StateSem γ a) (hs : t.Sat γ) :
    ∃ b, Big (defs ord) (.atom (liftRes fun st => postAtom ord st t)) a b ∧
      (b.panic.isSome = true ∨ (RInv b ∧ b.nextVar = a.nextVar ∧ StateSem γ b)) := by
  simp only [big_atom, liftRes, hp, Bool.false_eq_true, if_false]
  cases hr : postAtom ord a t with
  | ok b =>
    refine ⟨b, rfl, .inr ?_⟩
    obtain ⟨gb, sem⟩ := postAtom_ok ord ho a b t hi.1 hr
    have nv := postAtom_nv ho t hi.1 hr
    refine ⟨⟨gb, fun γ1 γ2 hag h1 => ?_⟩, nv, (sem γ).2 ⟨hγ, hs⟩⟩
    rw [nv] at hag
    have := (sem γ1).1 h1
    exact (sem γ2).2 ⟨hi.2 γ1 γ2 hag this.1, sat_agree t hb hag this.2⟩
  | fail => exact (postAtom_fail ord ho a t hi.1 hr γ ⟨hγ, hs⟩).elim
  | fuel => exact ⟨_, rfl, .inl rfl⟩
  | panic s => exact absurd hr (postAtom_no_panic ord ho a t hi.1 s)

/-- a poisoned state passes through an atom -/
theorem flow_atom (f : State → Res State) {a : State} (hp : a.panic.isSome = true) :
    Big (defs ord) (.atom (liftRes f)) a a := by
  simp [big_atom, liftRes, hp]

/-! ### the big-step rules for the list-built goals -/

/-- the goals of a clause one after the other -/
def BigChain (ord : Order) : List G → State → State → Prop
  | [], a, b => a = b
  | g :: gs, a, b => ∃ m, Big (defs ord) g a m ∧ BigChain ord gs m b

theorem big_conjOfList : ∀ (gs : List G) (a b : State), Big (defs ord) (conjOfList gs) a b ↔ BigChain ord gs a b
  | [], a, b => by simp only [conjOfList, big_succeed, BigChain]
  | g :: gs, a, b => by
    simp only [conjOfList, big_mkConj, BigChain]
    exact ⟨fun ⟨m, h1, h2⟩ => ⟨m, h1, (big_conjOfList gs m b).1 h2⟩, fun ⟨m, h1, h2⟩ => ⟨m, h1, (big_conjOfList gs m b).2 h2⟩⟩

theorem big_conjDOfList : ∀ (gs : List G) (a b : State), Big (defs ord) (conjDOfList gs) a b ↔ BigChain ord gs a b
  | [], a, b => by simp only [conjDOfList, big_succeed, BigChain]
  | g :: gs, a, b => by
    simp only [conjDOfList, big_mkConjD, BigChain]
    exact ⟨fun ⟨m, h1, h2⟩ => ⟨m, h1, (big_conjDOfList gs m b).1 h2⟩, fun ⟨m, h1, h2⟩ => ⟨m, h1, (big_conjDOfList gs m b).2 h2⟩⟩

theorem big_altOfList : ∀ (gs : List G) (a b : State), Big (defs ord) (altOfList gs) a b ↔ ∃ g ∈ gs, Big (defs ord) g a b
  | [], a, b => by simp only [altOfList]; exact ⟨fun h => (big_fail h).elim, fun ⟨_, h, _⟩ => nomatch h⟩
  | g :: gs, a, b => by
    simp only [altOfList, big_alt, List.mem_cons, big_altOfList gs a b]
    constructor
    · rintro (h | ⟨g', hg', h⟩)
      · exact ⟨g, .inl rfl, h⟩
      · exact ⟨g', .inr hg', h⟩
    · rintro ⟨g', rfl | hg', h⟩
      · exact .inl h
      · exact .inr ⟨g', hg', h⟩

theorem big_altDOfList : ∀ (gs : List G) (a b : State), Big (defs ord) (altDOfList gs) a b ↔ ∃ g ∈ gs, Big (defs ord) g a b
  | [], a, b => by simp only [altDOfList]; exact ⟨fun h => (big_fail h).elim, fun ⟨_, h, _⟩ => nomatch h⟩
  | g :: gs, a, b => by
    simp only [altDOfList, big_altD, List.mem_cons, big_altDOfList gs a b]
    constructor
    · rintro (h | ⟨g', hg', h⟩)
      · exact ⟨g, .inl rfl, h⟩
      · exact ⟨g', .inr hg', h⟩
    · rintro ⟨g', rfl | hg', h⟩
      · exact .inl h
      · exact .inr ⟨g', hg', h⟩

/-- a relation body: one of its clauses, goal after goal -/
theorem big_oneOf (d : Bool) (cs : List (List G)) (a b : State) :
    Big (defs ord) (oneOf d cs) a b ↔ ∃ c ∈ cs, BigChain ord c a b := by
  unfold oneOf
  cases d with
  | true =>
    simp only [if_true, big_conjDOfList, BigChain, condeDOfClauses, big_altDOfList, List.mem_map]
    constructor
    · rintro ⟨m, ⟨g, ⟨c, hc, rfl⟩, h⟩, rfl⟩
      exact ⟨c, hc, (big_conjDOfList c a m).1 h⟩
    · rintro ⟨c, hc, h⟩
      exact ⟨b, ⟨_, ⟨c, hc, rfl⟩, (big_conjDOfList c a b).2 h⟩, rfl⟩
  | false =>
    simp only [Bool.false_eq_true, if_false, big_conjOfList, BigChain, condeOfClauses, big_altOfList, List.mem_map]
    constructor
    · rintro ⟨m, ⟨g, ⟨c, hc, rfl⟩, h⟩, rfl⟩
      exact ⟨c, hc, (big_conjOfList c a m).1 h⟩
    · rintro ⟨c, hc, h⟩
      exact ⟨b, ⟨_, ⟨c, hc, rfl⟩, (big_conjOfList c a b).2 h⟩, rfl⟩

theorem big_conjLOf (d : Bool) (gs : List G) (a b : State) : Big (defs ord) (conjLOf d gs) a b ↔ BigChain ord gs a b := by
  unfold conjLOf
  cases d with
  | true => simp only [if_true, big_conjDOfList]
  | false => simp only [Bool.false_eq_true, if_false, big_conjOfList]

/-- unfolding a call: the body is built with the fresh variables `a.nextVar …`, the counter moves past them -/
theorem big_call_rel (c : Call) (a b : State) :
    Big (defs ord) (.call c) a b ↔
      Big (defs ord) (relBody ord c a.nextVar).2 { a with nextVar := a.nextVar + (relBody ord c a.nextVar).1 } b := by
  rw [big_call]
  rfl

theorem rinv_bump {a : State} (k : Nat) (h : RInv a) : RInv { a with nextVar := a.nextVar + k } :=
  ⟨h.1, fun γ γ' hag hγ => h.2 γ γ' (hag.mono (Nat.le_add_right _ _)) hγ⟩

theorem post_trans {a c b : State} {γ γ1 : Subst} (h1 : a.nextVar ≤ c.nextVar) (hag : Agree a.nextVar γ γ1)
    (p : Post c γ1 b) : Post a γ b := by
  rcases p with p | ⟨ib, hn, γ', hag', sb⟩
  · exact .inl p
  · exact .inr ⟨ib, Nat.le_trans h1 hn, γ', hag.trans (hag'.mono h1), sb⟩

/-- a poisoned state passes through a clause made of atoms -/
theorem flow_chain : ∀ (gs : List G), (∀ g ∈ gs, ∃ f, g = .atom (liftRes f)) → ∀ {a : State}, a.panic.isSome = true →
    BigChain ord gs a a
  | [], _, _, _ => rfl
  | g :: gs, h, a, hp => by
    obtain ⟨f, rfl⟩ := h g List.mem_cons_self
    exact ⟨a, flow_atom f hp, flow_chain gs (fun g hg => h g (List.mem_cons_of_mem _ hg)) hp⟩

/-- … hence through a call whose first clause is made of atoms -/
theorem flow_call (c : Call) (d : Bool) (c1 : List G) (cs : List (List G)) (k : Nat) {a : State}
    (hbody : relBody ord c a.nextVar = (k, oneOf d (c1 :: cs))) (h1 : ∀ g ∈ c1, ∃ f, g = .atom (liftRes f))
    (hp : a.panic.isSome = true) : ∃ b, Big (defs ord) (.call c) a b ∧ b.panic.isSome = true := by
  refine ⟨{ a with nextVar := a.nextVar + k }, ?_, hp⟩
  rw [big_call_rel, hbody]
  exact (big_oneOf d _ _ _).2 ⟨c1, List.mem_cons_self, flow_chain c1 h1 (a := { a with nextVar := a.nextVar + k }) hp⟩

theorem eqG_atom (u v : Term) : ∃ f, eqG ord u v = .atom (liftRes f) := ⟨_, rfl⟩

/-! ### append -/

theorem body_append (l s ls : Term) (d : Bool) (n : Nat) :
    relBody ord ⟨.append, [l, s, ls], d⟩ n = (5, oneOf d
      [[eqG ord (ofList [l, s, ls]) (ofList [.nil, .var (n + 0), .var (n + 0)])],
       [eqG ord (ofList [l, s, ls]) (ofList [.cons (.var (n + 1)) (.var (n + 2)), .var (n + 4), .cons (.var (n + 1)) (.var (n + 3))]),
        .call ⟨.append, [.var (n + 2), .var (n + 4), .var (n + 3)], d⟩]]) := rfl

theorem flow_append (l s ls : Term) (d : Bool) {a : State} (hp : a.panic.isSome = true) :
    ∃ b, Big (defs ord) (.call ⟨.append, [l, s, ls], d⟩) a b ∧ b.panic.isSome = true :=
  flow_call _ d _ _ 5 (body_append l s ls d a.nextVar)
    (fun g hg => by simp only [List.mem_cons, List.not_mem_nil, or_false] at hg; subst hg; exact eqG_atom _ _) hp

theorem below3 {m : Nat} {l s ls : Term} (bl : Below m l) (bs : Below m s) (bls : Below m ls) : Below m (ofList [l, s, ls]) :=
  below_cons bl (below_cons bs (below_cons bls (below_nil m)))

/-- COMPLETENESS of `append`: whenever the arguments, under a valuation the start state describes, are in the
    relation, the call has a big-step answer that describes an extension of that valuation to the fresh
    variables (or a FUEL-poisoned answer) -/
theorem append_complete (ho : OrderOK ord) (d : Bool) : ∀ {L S R : Term}, AppT L S R →
    ∀ (l s ls : Term) (a : State) (γ : Subst), Below a.nextVar l → Below a.nextVar s → Below a.nextVar ls →
      a.panic.isSome = false → RInv a → StateSem γ a → apply γ l = L → apply γ s = S → apply γ ls = R →
      ∃ b, Big (defs ord) (.call ⟨.append, [l, s, ls], d⟩) a b ∧ Post a γ b := by
  intro L S R h
  induction h with
  | nil S =>
    intro l s ls a γ bl bs bls hp hi hγ el es els
    have hle : a.nextVar ≤ a.nextVar + 5 := Nat.le_add_right _ _
    have hag : Agree a.nextVar γ (setV γ (a.nextVar + 0) S) := agree_setV γ S (Nat.le_refl _)
    have hγ1 : StateSem (setV γ (a.nextVar + 0) S) { a with nextVar := a.nextVar + 5 } := hi.2 _ _ hag hγ
    obtain ⟨b, hb, post⟩ := comp_atom ho (.eq (ofList [l, s, ls]) (ofList [.nil, .var (a.nextVar + 0), .var (a.nextVar + 0)]))
      (a := { a with nextVar := a.nextVar + 5 }) (γ := setV γ (a.nextVar + 0) S)
      ⟨below3 (bl.mono hle) (bs.mono hle) (bls.mono hle),
        below3 (below_nil _) (below_var (by show a.nextVar + 0 < a.nextVar + 5; omega)) (below_var (by show a.nextVar + 0 < a.nextVar + 5; omega))⟩
      hp (rinv_bump 5 hi) hγ1
      (by
        simp only [TAtom.Sat, ofList, apply, Term.cons.injEq, and_true]
        rw [← apply_of_agree bl hag, ← apply_of_agree bs hag, ← apply_of_agree bls hag, el, es, els, setV_self]
        exact ⟨rfl, rfl, rfl⟩)
    refine ⟨b, ?_, ?_⟩
    · rw [big_call_rel, body_append]
      exact (big_oneOf d _ _ _).2 ⟨_, List.mem_cons_self, b, hb, rfl⟩
    · rcases post with p | ⟨ib, nvb, sb⟩
      · exact .inl p
      · exact .inr ⟨ib, by rw [nvb]; exact hle, _, hag, sb⟩
  | @cons x T S R' h' ih =>
    intro l s ls a γ bl bs bls hp hi hγ el es els
    have hle : a.nextVar ≤ a.nextVar + 5 := Nat.le_add_right _ _
    let γ1 : Subst := setV (setV (setV (setV γ (a.nextVar + 1) x) (a.nextVar + 2) T) (a.nextVar + 3) R') (a.nextVar + 4) S
    have hag : Agree a.nextVar γ γ1 :=
      (((agree_setV γ x (by omega)).trans (agree_setV _ T (by omega))).trans (agree_setV _ R' (by omega))).trans
        (agree_setV _ S (by omega))
    have v1 : γ1 (a.nextVar + 1) = x := by simp [γ1, setV]
    have v2 : γ1 (a.nextVar + 2) = T := by simp [γ1, setV]
    have v3 : γ1 (a.nextVar + 3) = R' := by simp [γ1, setV]
    have v4 : γ1 (a.nextVar + 4) = S := by simp [γ1, setV]
    have hγ1 : StateSem γ1 { a with nextVar := a.nextVar + 5 } := hi.2 _ _ hag hγ
    obtain ⟨c, hc, postc⟩ := comp_atom ho (.eq (ofList [l, s, ls])
        (ofList [.cons (.var (a.nextVar + 1)) (.var (a.nextVar + 2)), .var (a.nextVar + 4), .cons (.var (a.nextVar + 1)) (.var (a.nextVar + 3))]))
      (a := { a with nextVar := a.nextVar + 5 }) (γ := γ1)
      ⟨below3 (bl.mono hle) (bs.mono hle) (bls.mono hle),
        below3 (below_cons (below_var (by show a.nextVar + 1 < a.nextVar + 5; omega)) (below_var (by show a.nextVar + 2 < a.nextVar + 5; omega)))
          (below_var (by show a.nextVar + 4 < a.nextVar + 5; omega))
          (below_cons (below_var (by show a.nextVar + 1 < a.nextVar + 5; omega)) (below_var (by show a.nextVar + 3 < a.nextVar + 5; omega)))⟩
      hp (rinv_bump 5 hi) hγ1
      (by
        simp only [TAtom.Sat, ofList, apply, Term.cons.injEq, and_true]
        rw [← apply_of_agree bl hag, ← apply_of_agree bs hag, ← apply_of_agree bls hag, el, es, els, v1, v2, v3, v4]
        exact ⟨rfl, rfl, rfl⟩)
    have chain : ∀ b, Big (defs ord) (.call ⟨.append, [.var (a.nextVar + 2), .var (a.nextVar + 4), .var (a.nextVar + 3)], d⟩) c b →
        Big (defs ord) (.call ⟨.append, [l, s, ls], d⟩) a b := fun b hb => by
      rw [big_call_rel, body_append]
      exact (big_oneOf d _ _ _).2 ⟨_, List.mem_cons_of_mem _ List.mem_cons_self, c, hc, b, hb, rfl⟩
    cases hpc : c.panic.isSome with
    | true =>
      obtain ⟨b, hb, pb⟩ := flow_append (ord := ord) (.var (a.nextVar + 2)) (.var (a.nextVar + 4)) (.var (a.nextVar + 3)) d hpc
      exact ⟨b, chain b hb, .inl pb⟩
    | false =>
      rcases postc with p | ⟨ic, nvc, sc⟩
      · rw [hpc] at p; cases p
      · have nvc' : c.nextVar = a.nextVar + 5 := nvc
        obtain ⟨b, hb, pb⟩ := ih (.var (a.nextVar + 2)) (.var (a.nextVar + 4)) (.var (a.nextVar + 3)) c γ1
          (below_var (by rw [nvc']; omega)) (below_var (by rw [nvc']; omega)) (below_var (by rw [nvc']; omega))
          hpc ic sc (by simp only [apply]; exact v2) (by simp only [apply]; exact v4) (by simp only [apply]; exact v3)
        exact ⟨b, chain b hb, post_trans (by rw [nvc']; exact hle) hag pb⟩

/-- one atom, with the case analysis on the poison flag of its answer done -/
theorem atom_step (ho : OrderOK ord) (t : TAtom) {a : State} {γ : Subst}
    (hb : match t with | .eq u v => Below a.nextVar u ∧ Below a.nextVar v | .neq u v => Below a.nextVar u ∧ Below a.nextVar v)
    (hp : a.panic.isSome = false) (hi : RInv a) (hγ : StateSem γ a) (hs : t.Sat γ) :
    ∃ c, Big (defs ord) (.atom (liftRes fun st => postAtom ord st t)) a c ∧
      (c.panic.isSome = true ∨ (c.panic.isSome = false ∧ RInv c ∧ c.nextVar = a.nextVar ∧ StateSem γ c)) := by
  obtain ⟨c, hc, post⟩ := comp_atom ho t hb hp hi hγ hs
  refine ⟨c, hc, ?_⟩
  cases hpc : c.panic.isSome with
  | true => exact .inl rfl
  | false =>
    rcases post with p | q
    · rw [hpc] at p; cases p
    · exact .inr ⟨rfl, q⟩

theorem diseqG_atom (u v : Term) : ∃ f, diseqG ord u v = .atom (liftRes f) := ⟨_, rfl⟩

/-! ### member -/

theorem body_member (x l : Term) (d : Bool) (n : Nat) :
    relBody ord ⟨.member, [x, l], d⟩ n = (4, oneOf d
      [[eqG ord l (.cons (.var (n + 0)) (.var (n + 1))), eqG ord (.var (n + 0)) x],
       [eqG ord l (.cons (.var (n + 3)) (.var (n + 2))), .call ⟨.member, [x, .var (n + 2)], d⟩]]) := rfl

theorem flow_member (x l : Term) (d : Bool) {a : State} (hp : a.panic.isSome = true) :
    ∃ b, Big (defs ord) (.call ⟨.member, [x, l], d⟩) a b ∧ b.panic.isSome = true :=
  flow_call _ d _ _ 4 (body_member x l d a.nextVar)
    (fun g hg => by
      simp only [List.mem_cons, List.not_mem_nil, or_false] at hg
      rcases hg with rfl | rfl <;> exact eqG_atom _ _) hp

/-- COMPLETENESS of `member` -/
theorem member_complete (ho : OrderOK ord) (d : Bool) : ∀ {X Lt : Term}, MemT X Lt →
    ∀ (x l : Term) (a : State) (γ : Subst), Below a.nextVar x → Below a.nextVar l →
      a.panic.isSome = false → RInv a → StateSem γ a → apply γ x = X → apply γ l = Lt →
      ∃ b, Big (defs ord) (.call ⟨.member, [x, l], d⟩) a b ∧ Post a γ b := by
  intro X Lt h
  induction h with
  | head t =>
    intro x l a γ bx bl hp hi hγ ex el
    have hle : a.nextVar ≤ a.nextVar + 4 := Nat.le_add_right _ _
    let γ1 : Subst := setV (setV γ (a.nextVar + 0) X) (a.nextVar + 1) t
    have hag : Agree a.nextVar γ γ1 := (agree_setV γ X (by omega)).trans (agree_setV _ t (by omega))
    have v0 : γ1 (a.nextVar + 0) = X := by simp [γ1, setV]
    have v1 : γ1 (a.nextVar + 1) = t := by simp [γ1, setV]
    have hγ1 : StateSem γ1 { a with nextVar := a.nextVar + 4 } := hi.2 _ _ hag hγ
    obtain ⟨c, hc, pc⟩ := atom_step ho (.eq l (.cons (.var (a.nextVar + 0)) (.var (a.nextVar + 1))))
      (a := { a with nextVar := a.nextVar + 4 }) (γ := γ1)
      ⟨bl.mono hle, below_cons (below_var (by show a.nextVar + 0 < a.nextVar + 4; omega)) (below_var (by show a.nextVar + 1 < a.nextVar + 4; omega))⟩
      hp (rinv_bump 4 hi) hγ1
      (by simp only [TAtom.Sat, apply]; rw [← apply_of_agree bl hag, el, v0, v1])
    have chain : ∀ b, Big (defs ord) (eqG ord (.var (a.nextVar + 0)) x) c b → Big (defs ord) (.call ⟨.member, [x, l], d⟩) a b := fun b hb => by
      rw [big_call_rel, body_member]
      exact (big_oneOf d _ _ _).2 ⟨_, List.mem_cons_self, c, hc, b, hb, rfl⟩
    rcases pc with hpc | ⟨hpc, ic, nvc, sc⟩
    · exact ⟨c, chain c (flow_atom _ hpc), .inl hpc⟩
    · have nvc' : c.nextVar = a.nextVar + 4 := nvc
      obtain ⟨b, hb, pb⟩ := comp_atom ho (.eq (.var (a.nextVar + 0)) x) (a := c) (γ := γ1)
        ⟨below_var (by rw [nvc']; omega), bx.mono (by rw [nvc']; exact hle)⟩ hpc ic sc
        (by simp only [TAtom.Sat, apply]; rw [v0, ← apply_of_agree bx hag, ex])
      refine ⟨b, chain b hb, ?_⟩
      rcases pb with p | ⟨ib, nvb, sb⟩
      · exact .inl p
      · exact .inr ⟨ib, by rw [nvb, nvc']; exact hle, γ1, hag, sb⟩
  | @tail hd t h' ih =>
    intro x l a γ bx bl hp hi hγ ex el
    have hle : a.nextVar ≤ a.nextVar + 4 := Nat.le_add_right _ _
    let γ1 : Subst := setV (setV γ (a.nextVar + 3) hd) (a.nextVar + 2) t
    have hag : Agree a.nextVar γ γ1 := (agree_setV γ hd (by omega)).trans (agree_setV _ t (by omega))
    have v3 : γ1 (a.nextVar + 3) = hd := by simp [γ1, setV]
    have v2 : γ1 (a.nextVar + 2) = t := by simp [γ1, setV]
    have hγ1 : StateSem γ1 { a with nextVar := a.nextVar + 4 } := hi.2 _ _ hag hγ
    obtain ⟨c, hc, pc⟩ := atom_step ho (.eq l (.cons (.var (a.nextVar + 3)) (.var (a.nextVar + 2))))
      (a := { a with nextVar := a.nextVar + 4 }) (γ := γ1)
      ⟨bl.mono hle, below_cons (below_var (by show a.nextVar + 3 < a.nextVar + 4; omega)) (below_var (by show a.nextVar + 2 < a.nextVar + 4; omega))⟩
      hp (rinv_bump 4 hi) hγ1
      (by simp only [TAtom.Sat, apply]; rw [← apply_of_agree bl hag, el, v3, v2])
    have chain : ∀ b, Big (defs ord) (.call ⟨.member, [x, .var (a.nextVar + 2)], d⟩) c b →
        Big (defs ord) (.call ⟨.member, [x, l], d⟩) a b := fun b hb => by
      rw [big_call_rel, body_member]
      exact (big_oneOf d _ _ _).2 ⟨_, List.mem_cons_of_mem _ List.mem_cons_self, c, hc, b, hb, rfl⟩
    rcases pc with hpc | ⟨hpc, ic, nvc, sc⟩
    · obtain ⟨b, hb, pb⟩ := flow_member (ord := ord) x (.var (a.nextVar + 2)) d hpc
      exact ⟨b, chain b hb, .inl pb⟩
    · have nvc' : c.nextVar = a.nextVar + 4 := nvc
      obtain ⟨b, hb, pb⟩ := ih x (.var (a.nextVar + 2)) c γ1 (bx.mono (by rw [nvc']; exact hle))
        (below_var (by rw [nvc']; omega)) hpc ic sc (by rw [← apply_of_agree bx hag, ex]) (by simp only [apply]; exact v2)
      exact ⟨b, chain b hb, post_trans (by rw [nvc']; exact hle) hag pb⟩

/-! ### member1 -/

theorem body_member1 (x l : Term) (d : Bool) (n : Nat) :
    relBody ord ⟨.member1, [x, l], d⟩ n = (5, oneOf d
      [[eqG ord l (.cons (.var (n + 0)) (.var (n + 1))), eqG ord (.var (n + 0)) x],
       [eqG ord l (.cons (.var (n + 3)) (.var (n + 2))),
        conjLOf d [diseqG ord (.var (n + 3)) x, .call ⟨.member1, [x, .var (n + 2)], d⟩]]]) := rfl

theorem flow_member1 (x l : Term) (d : Bool) {a : State} (hp : a.panic.isSome = true) :
    ∃ b, Big (defs ord) (.call ⟨.member1, [x, l], d⟩) a b ∧ b.panic.isSome = true :=
  flow_call _ d _ _ 5 (body_member1 x l d a.nextVar)
    (fun g hg => by
      simp only [List.mem_cons, List.not_mem_nil, or_false] at hg
      rcases hg with rfl | rfl <;> exact eqG_atom _ _) hp

/-- COMPLETENESS of `member1` -/
theorem member1_complete (ho : OrderOK ord) (d : Bool) : ∀ {X Lt : Term}, Mem1T X Lt →
    ∀ (x l : Term) (a : State) (γ : Subst), Below a.nextVar x → Below a.nextVar l →
      a.panic.isSome = false → RInv a → StateSem γ a → apply γ x = X → apply γ l = Lt →
      ∃ b, Big (defs ord) (.call ⟨.member1, [x, l], d⟩) a b ∧ Post a γ b := by
  intro X Lt h
  induction h with
  | head t =>
    intro x l a γ bx bl hp hi hγ ex el
    have hle : a.nextVar ≤ a.nextVar + 5 := Nat.le_add_right _ _
    let γ1 : Subst := setV (setV γ (a.nextVar + 0) X) (a.nextVar + 1) t
    have hag : Agree a.nextVar γ γ1 := (agree_setV γ X (by omega)).trans (agree_setV _ t (by omega))
    have v0 : γ1 (a.nextVar + 0) = X := by simp [γ1, setV]
    have v1 : γ1 (a.nextVar + 1) = t := by simp [γ1, setV]
    have hγ1 : StateSem γ1 { a with nextVar := a.nextVar + 5 } := hi.2 _ _ hag hγ
    obtain ⟨c, hc, pc⟩ := atom_step ho (.eq l (.cons (.var (a.nextVar + 0)) (.var (a.nextVar + 1))))
      (a := { a with nextVar := a.nextVar + 5 }) (γ := γ1)
      ⟨bl.mono hle, below_cons (below_var (by show a.nextVar + 0 < a.nextVar + 5; omega)) (below_var (by show a.nextVar + 1 < a.nextVar + 5; omega))⟩
      hp (rinv_bump 5 hi) hγ1
      (by simp only [TAtom.Sat, apply]; rw [← apply_of_agree bl hag, el, v0, v1])
    have chain : ∀ b, Big (defs ord) (eqG ord (.var (a.nextVar + 0)) x) c b → Big (defs ord) (.call ⟨.member1, [x, l], d⟩) a b := fun b hb => by
      rw [big_call_rel, body_member1]
      exact (big_oneOf d _ _ _).2 ⟨_, List.mem_cons_self, c, hc, b, hb, rfl⟩
    rcases pc with hpc | ⟨hpc, ic, nvc, sc⟩
    · exact ⟨c, chain c (flow_atom _ hpc), .inl hpc⟩
    · have nvc' : c.nextVar = a.nextVar + 5 := nvc
      obtain ⟨b, hb, pb⟩ := comp_atom ho (.eq (.var (a.nextVar + 0)) x) (a := c) (γ := γ1)
        ⟨below_var (by rw [nvc']; omega), bx.mono (by rw [nvc']; exact hle)⟩ hpc ic sc
        (by simp only [TAtom.Sat, apply]; rw [v0, ← apply_of_agree bx hag, ex])
      refine ⟨b, chain b hb, ?_⟩
      rcases pb with p | ⟨ib, nvb, sb⟩
      · exact .inl p
      · exact .inr ⟨ib, by rw [nvb, nvc']; exact hle, γ1, hag, sb⟩
  | @tail hd t hne h' ih =>
    intro x l a γ bx bl hp hi hγ ex el
    have hle : a.nextVar ≤ a.nextVar + 5 := Nat.le_add_right _ _
    let γ1 : Subst := setV (setV γ (a.nextVar + 3) hd) (a.nextVar + 2) t
    have hag : Agree a.nextVar γ γ1 := (agree_setV γ hd (by omega)).trans (agree_setV _ t (by omega))
    have v3 : γ1 (a.nextVar + 3) = hd := by simp [γ1, setV]
    have v2 : γ1 (a.nextVar + 2) = t := by simp [γ1, setV]
    have hγ1 : StateSem γ1 { a with nextVar := a.nextVar + 5 } := hi.2 _ _ hag hγ
    obtain ⟨c, hc, pc⟩ := atom_step ho (.eq l (.cons (.var (a.nextVar + 3)) (.var (a.nextVar + 2))))
      (a := { a with nextVar := a.nextVar + 5 }) (γ := γ1)
      ⟨bl.mono hle, below_cons (below_var (by show a.nextVar + 3 < a.nextVar + 5; omega)) (below_var (by show a.nextVar + 2 < a.nextVar + 5; omega))⟩
      hp (rinv_bump 5 hi) hγ1
      (by simp only [TAtom.Sat, apply]; rw [← apply_of_agree bl hag, el, v3, v2])
    have chain : ∀ c2 b, Big (defs ord) (diseqG ord (.var (a.nextVar + 3)) x) c c2 →
        Big (defs ord) (.call ⟨.member1, [x, .var (a.nextVar + 2)], d⟩) c2 b →
        Big (defs ord) (.call ⟨.member1, [x, l], d⟩) a b := fun c2 b h1 h2 => by
      rw [big_call_rel, body_member1]
      exact (big_oneOf d _ _ _).2 ⟨_, List.mem_cons_of_mem _ List.mem_cons_self, c, hc, b,
        (big_conjLOf d _ _ _).2 ⟨c2, h1, b, h2, rfl⟩, rfl⟩
    rcases pc with hpc | ⟨hpc, ic, nvc, sc⟩
    · obtain ⟨b, hb, pb⟩ := flow_member1 (ord := ord) x (.var (a.nextVar + 2)) d hpc
      exact ⟨b, chain c b (flow_atom _ hpc) hb, .inl pb⟩
    · have nvc' : c.nextVar = a.nextVar + 5 := nvc
      obtain ⟨c2, hc2, pc2⟩ := atom_step ho (.neq (.var (a.nextVar + 3)) x) (a := c) (γ := γ1)
        ⟨below_var (by rw [nvc']; omega), bx.mono (by rw [nvc']; exact hle)⟩ hpc ic sc
        (by simp only [TAtom.Sat, apply]; rw [v3, ← apply_of_agree bx hag, ex]; exact hne)
      rcases pc2 with hpc2 | ⟨hpc2, ic2, nvc2, sc2⟩
      · obtain ⟨b, hb, pb⟩ := flow_member1 (ord := ord) x (.var (a.nextVar + 2)) d hpc2
        exact ⟨b, chain c2 b hc2 hb, .inl pb⟩
      · have nvc2' : c2.nextVar = a.nextVar + 5 := nvc2.trans nvc'
        obtain ⟨b, hb, pb⟩ := ih x (.var (a.nextVar + 2)) c2 γ1 (bx.mono (by rw [nvc2']; exact hle))
          (below_var (by rw [nvc2']; omega)) hpc2 ic2 sc2 (by rw [← apply_of_agree bx hag, ex]) (by simp only [apply]; exact v2)
        exact ⟨b, chain c2 b hc2 hb, post_trans (by rw [nvc2']; exact hle) hag pb⟩

/-! ### rember -/

theorem body_rember (x ls out : Term) (d : Bool) (n : Nat) :
    relBody ord ⟨.rember, [x, ls, out], d⟩ n = (5, oneOf d
      [[eqG ord (ofList [ls, out]) (ofList [.nil, .nil])],
       [eqG ord (ofList [ls, out]) (ofList [.cons (.var (n + 0)) (.var (n + 1)), .var (n + 1)]), eqG ord (.var (n + 0)) x],
       [eqG ord (ofList [ls, out]) (ofList [.cons (.var (n + 2)) (.var (n + 3)), .cons (.var (n + 2)) (.var (n + 4))]),
        diseqG ord (.var (n + 2)) x, .call ⟨.rember, [x, .var (n + 3), .var (n + 4)], d⟩]]) := rfl

theorem flow_rember (x ls out : Term) (d : Bool) {a : State} (hp : a.panic.isSome = true) :
    ∃ b, Big (defs ord) (.call ⟨.rember, [x, ls, out], d⟩) a b ∧ b.panic.isSome = true :=
  flow_call _ d _ _ 5 (body_rember x ls out d a.nextVar)
    (fun g hg => by simp only [List.mem_cons, List.not_mem_nil, or_false] at hg; subst hg; exact eqG_atom _ _) hp

theorem below2 {m : Nat} {u v : Term} (bu : Below m u) (bv : Below m v) : Below m (ofList [u, v]) :=
  below_cons bu (below_cons bv (below_nil m))

/-- COMPLETENESS of `rember` -/
theorem rember_complete (ho : OrderOK ord) (d : Bool) : ∀ {X Ls Out : Term}, RemT X Ls Out →
    ∀ (x ls out : Term) (a : State) (γ : Subst), Below a.nextVar x → Below a.nextVar ls → Below a.nextVar out →
      a.panic.isSome = false → RInv a → StateSem γ a → apply γ x = X → apply γ ls = Ls → apply γ out = Out →
      ∃ b, Big (defs ord) (.call ⟨.rember, [x, ls, out], d⟩) a b ∧ Post a γ b := by
  intro X Ls Out h
  induction h with
  | nil =>
    intro x ls out a γ bx bl bo hp hi hγ ex el eo
    have hle : a.nextVar ≤ a.nextVar + 5 := Nat.le_add_right _ _
    have hγ1 : StateSem γ { a with nextVar := a.nextVar + 5 } := hγ
    obtain ⟨b, hb, post⟩ := comp_atom ho (.eq (ofList [ls, out]) (ofList [.nil, .nil]))
      (a := { a with nextVar := a.nextVar + 5 }) (γ := γ)
      ⟨below2 (bl.mono hle) (bo.mono hle), below2 (below_nil _) (below_nil _)⟩ hp (rinv_bump 5 hi) hγ1
      (by simp only [TAtom.Sat, ofList, apply, Term.cons.injEq, and_true]; exact ⟨el, eo⟩)
    refine ⟨b, ?_, ?_⟩
    · rw [big_call_rel, body_rember]
      exact (big_oneOf d _ _ _).2 ⟨_, List.mem_cons_self, b, hb, rfl⟩
    · rcases post with p | ⟨ib, nvb, sb⟩
      · exact .inl p
      · exact .inr ⟨ib, by rw [nvb]; exact hle, γ, Agree.refl _ _, sb⟩
  | hit dd =>
    intro x ls out a γ bx bl bo hp hi hγ ex el eo
    have hle : a.nextVar ≤ a.nextVar + 5 := Nat.le_add_right _ _
    let γ1 : Subst := setV (setV γ (a.nextVar + 0) X) (a.nextVar + 1) dd
    have hag : Agree a.nextVar γ γ1 := (agree_setV γ X (by omega)).trans (agree_setV _ dd (by omega))
    have v0 : γ1 (a.nextVar + 0) = X := by simp [γ1, setV]
    have v1 : γ1 (a.nextVar + 1) = dd := by simp [γ1, setV]
    have hγ1 : StateSem γ1 { a with nextVar := a.nextVar + 5 } := hi.2 _ _ hag hγ
    obtain ⟨c, hc, pc⟩ := atom_step ho (.eq (ofList [ls, out]) (ofList [.cons (.var (a.nextVar + 0)) (.var (a.nextVar + 1)), .var (a.nextVar + 1)]))
      (a := { a with nextVar := a.nextVar + 5 }) (γ := γ1)
      ⟨below2 (bl.mono hle) (bo.mono hle),
        below2 (below_cons (below_var (by show a.nextVar + 0 < a.nextVar + 5; omega)) (below_var (by show a.nextVar + 1 < a.nextVar + 5; omega)))
          (below_var (by show a.nextVar + 1 < a.nextVar + 5; omega))⟩
      hp (rinv_bump 5 hi) hγ1
      (by
        simp only [TAtom.Sat, ofList, apply, Term.cons.injEq, and_true]
        rw [← apply_of_agree bl hag, ← apply_of_agree bo hag, el, eo, v0, v1]
        exact ⟨rfl, rfl⟩)
    have chain : ∀ b, Big (defs ord) (eqG ord (.var (a.nextVar + 0)) x) c b → Big (defs ord) (.call ⟨.rember, [x, ls, out], d⟩) a b := fun b hb => by
      rw [big_call_rel, body_rember]
      exact (big_oneOf d _ _ _).2 ⟨_, List.mem_cons_of_mem _ List.mem_cons_self, c, hc, b, hb, rfl⟩
    rcases pc with hpc | ⟨hpc, ic, nvc, sc⟩
    · exact ⟨c, chain c (flow_atom _ hpc), .inl hpc⟩
    · have nvc' : c.nextVar = a.nextVar + 5 := nvc
      obtain ⟨b, hb, pb⟩ := comp_atom ho (.eq (.var (a.nextVar + 0)) x) (a := c) (γ := γ1)
        ⟨below_var (by rw [nvc']; omega), bx.mono (by rw [nvc']; exact hle)⟩ hpc ic sc
        (by simp only [TAtom.Sat, apply]; rw [v0, ← apply_of_agree bx hag, ex])
      refine ⟨b, chain b hb, ?_⟩
      rcases pb with p | ⟨ib, nvb, sb⟩
      · exact .inl p
      · exact .inr ⟨ib, by rw [nvb, nvc']; exact hle, γ1, hag, sb⟩
  | @skip y ys zs hne h' ih =>
    intro x ls out a γ bx bl bo hp hi hγ ex el eo
    have hle : a.nextVar ≤ a.nextVar + 5 := Nat.le_add_right _ _
    let γ1 : Subst := setV (setV (setV γ (a.nextVar + 2) y) (a.nextVar + 3) ys) (a.nextVar + 4) zs
    have hag : Agree a.nextVar γ γ1 :=
      ((agree_setV γ y (by omega)).trans (agree_setV _ ys (by omega))).trans (agree_setV _ zs (by omega))
    have v2 : γ1 (a.nextVar + 2) = y := by simp [γ1, setV]
    have v3 : γ1 (a.nextVar + 3) = ys := by simp [γ1, setV]
    have v4 : γ1 (a.nextVar + 4) = zs := by simp [γ1, setV]
    have hγ1 : StateSem γ1 { a with nextVar := a.nextVar + 5 } := hi.2 _ _ hag hγ
    obtain ⟨c, hc, pc⟩ := atom_step ho (.eq (ofList [ls, out])
        (ofList [.cons (.var (a.nextVar + 2)) (.var (a.nextVar + 3)), .cons (.var (a.nextVar + 2)) (.var (a.nextVar + 4))]))
      (a := { a with nextVar := a.nextVar + 5 }) (γ := γ1)
      ⟨below2 (bl.mono hle) (bo.mono hle),
        below2 (below_cons (below_var (by show a.nextVar + 2 < a.nextVar + 5; omega)) (below_var (by show a.nextVar + 3 < a.nextVar + 5; omega)))
          (below_cons (below_var (by show a.nextVar + 2 < a.nextVar + 5; omega)) (below_var (by show a.nextVar + 4 < a.nextVar + 5; omega)))⟩
      hp (rinv_bump 5 hi) hγ1
      (by
        simp only [TAtom.Sat, ofList, apply, Term.cons.injEq, and_true]
        rw [← apply_of_agree bl hag, ← apply_of_agree bo hag, el, eo, v2, v3, v4]
        exact ⟨rfl, rfl⟩)
    have chain : ∀ c2 b, Big (defs ord) (diseqG ord (.var (a.nextVar + 2)) x) c c2 →
        Big (defs ord) (.call ⟨.rember, [x, .var (a.nextVar + 3), .var (a.nextVar + 4)], d⟩) c2 b →
        Big (defs ord) (.call ⟨.rember, [x, ls, out], d⟩) a b := fun c2 b h1 h2 => by
      rw [big_call_rel, body_rember]
      exact (big_oneOf d _ _ _).2 ⟨_, List.mem_cons_of_mem _ (List.mem_cons_of_mem _ List.mem_cons_self), c, hc, c2, h1, b, h2, rfl⟩
    rcases pc with hpc | ⟨hpc, ic, nvc, sc⟩
    · obtain ⟨b, hb, pb⟩ := flow_rember (ord := ord) x (.var (a.nextVar + 3)) (.var (a.nextVar + 4)) d hpc
      exact ⟨b, chain c b (flow_atom _ hpc) hb, .inl pb⟩
    · have nvc' : c.nextVar = a.nextVar + 5 := nvc
      obtain ⟨c2, hc2, pc2⟩ := atom_step ho (.neq (.var (a.nextVar + 2)) x) (a := c) (γ := γ1)
        ⟨below_var (by rw [nvc']; omega), bx.mono (by rw [nvc']; exact hle)⟩ hpc ic sc
        (by simp only [TAtom.Sat, apply]; rw [v2, ← apply_of_agree bx hag, ex]; exact hne)
      rcases pc2 with hpc2 | ⟨hpc2, ic2, nvc2, sc2⟩
      · obtain ⟨b, hb, pb⟩ := flow_rember (ord := ord) x (.var (a.nextVar + 3)) (.var (a.nextVar + 4)) d hpc2
        exact ⟨b, chain c2 b hc2 hb, .inl pb⟩
      · have nvc2' : c2.nextVar = a.nextVar + 5 := nvc2.trans nvc'
        obtain ⟨b, hb, pb⟩ := ih x (.var (a.nextVar + 3)) (.var (a.nextVar + 4)) c2 γ1 (bx.mono (by rw [nvc2']; exact hle))
          (below_var (by rw [nvc2']; omega)) (below_var (by rw [nvc2']; omega)) hpc2 ic2 sc2
          (by rw [← apply_of_agree bx hag, ex]) (by simp only [apply]; exact v3) (by simp only [apply]; exact v4)
        exact ⟨b, chain c2 b hc2 hb, post_trans (by rw [nvc2']; exact hle) hag pb⟩

/-! ### distinct -/

theorem body_distinct (l : Term) (d : Bool) (n : Nat) :
    relBody ord ⟨.distinct, [l], d⟩ n = (4, oneOf d
      [[eqG ord l .nil],
       [eqG ord l (.cons (.var (n + 0)) .nil)],
       [eqG ord l (.cons (.var (n + 3)) (.cons (.var (n + 2)) (.var (n + 1)))), diseqG ord (.var (n + 3)) (.var (n + 2)),
        .call ⟨.distinct, [.cons (.var (n + 3)) (.var (n + 1))], d⟩, .call ⟨.distinct, [.cons (.var (n + 2)) (.var (n + 1))], d⟩]]) := rfl

theorem flow_distinct (l : Term) (d : Bool) {a : State} (hp : a.panic.isSome = true) :
    ∃ b, Big (defs ord) (.call ⟨.distinct, [l], d⟩) a b ∧ b.panic.isSome = true :=
  flow_call _ d _ _ 4 (body_distinct l d a.nextVar)
    (fun g hg => by simp only [List.mem_cons, List.not_mem_nil, or_false] at hg; subst hg; exact eqG_atom _ _) hp

/-- COMPLETENESS of `distinct` -/
theorem distinct_complete (ho : OrderOK ord) (d : Bool) : ∀ {Lt : Term}, DistT Lt →
    ∀ (l : Term) (a : State) (γ : Subst), Below a.nextVar l →
      a.panic.isSome = false → RInv a → StateSem γ a → apply γ l = Lt →
      ∃ b, Big (defs ord) (.call ⟨.distinct, [l], d⟩) a b ∧ Post a γ b := by
  intro Lt h
  induction h with
  | nil =>
    intro l a γ bl hp hi hγ el
    have hle : a.nextVar ≤ a.nextVar + 4 := Nat.le_add_right _ _
    have hγ1 : StateSem γ { a with nextVar := a.nextVar + 4 } := hγ
    obtain ⟨b, hb, post⟩ := comp_atom ho (.eq l .nil) (a := { a with nextVar := a.nextVar + 4 }) (γ := γ)
      ⟨bl.mono hle, below_nil _⟩ hp (rinv_bump 4 hi) hγ1 (by simp only [TAtom.Sat, apply]; exact el)
    refine ⟨b, ?_, ?_⟩
    · rw [big_call_rel, body_distinct]
      exact (big_oneOf d _ _ _).2 ⟨_, List.mem_cons_self, b, hb, rfl⟩
    · rcases post with p | ⟨ib, nvb, sb⟩
      · exact .inl p
      · exact .inr ⟨ib, by rw [nvb]; exact hle, γ, Agree.refl _ _, sb⟩
  | one e =>
    intro l a γ bl hp hi hγ el
    have hle : a.nextVar ≤ a.nextVar + 4 := Nat.le_add_right _ _
    have hag : Agree a.nextVar γ (setV γ (a.nextVar + 0) e) := agree_setV γ e (Nat.le_refl _)
    have hγ1 : StateSem (setV γ (a.nextVar + 0) e) { a with nextVar := a.nextVar + 4 } := hi.2 _ _ hag hγ
    obtain ⟨b, hb, post⟩ := comp_atom ho (.eq l (.cons (.var (a.nextVar + 0)) .nil))
      (a := { a with nextVar := a.nextVar + 4 }) (γ := setV γ (a.nextVar + 0) e)
      ⟨bl.mono hle, below_cons (below_var (by show a.nextVar + 0 < a.nextVar + 4; omega)) (below_nil _)⟩ hp (rinv_bump 4 hi) hγ1
      (by simp only [TAtom.Sat, apply]; rw [← apply_of_agree bl hag, el, setV_self])
    refine ⟨b, ?_, ?_⟩
    · rw [big_call_rel, body_distinct]
      exact (big_oneOf d _ _ _).2 ⟨_, List.mem_cons_of_mem _ List.mem_cons_self, b, hb, rfl⟩
    · rcases post with p | ⟨ib, nvb, sb⟩
      · exact .inl p
      · exact .inr ⟨ib, by rw [nvb]; exact hle, _, hag, sb⟩
  | @more f s r hne h1 h2 ih1 ih2 =>
    intro l a γ bl hp hi hγ el
    have hle : a.nextVar ≤ a.nextVar + 4 := Nat.le_add_right _ _
    let γ1 : Subst := setV (setV (setV γ (a.nextVar + 3) f) (a.nextVar + 2) s) (a.nextVar + 1) r
    have hag : Agree a.nextVar γ γ1 :=
      ((agree_setV γ f (by omega)).trans (agree_setV _ s (by omega))).trans (agree_setV _ r (by omega))
    have v3 : γ1 (a.nextVar + 3) = f := by simp [γ1, setV]
    have v2 : γ1 (a.nextVar + 2) = s := by simp [γ1, setV]
    have v1 : γ1 (a.nextVar + 1) = r := by simp [γ1, setV]
    have hγ1 : StateSem γ1 { a with nextVar := a.nextVar + 4 } := hi.2 _ _ hag hγ
    obtain ⟨c, hc, pc⟩ := atom_step ho (.eq l (.cons (.var (a.nextVar + 3)) (.cons (.var (a.nextVar + 2)) (.var (a.nextVar + 1)))))
      (a := { a with nextVar := a.nextVar + 4 }) (γ := γ1)
      ⟨bl.mono hle, below_cons (below_var (by show a.nextVar + 3 < a.nextVar + 4; omega))
        (below_cons (below_var (by show a.nextVar + 2 < a.nextVar + 4; omega)) (below_var (by show a.nextVar + 1 < a.nextVar + 4; omega)))⟩
      hp (rinv_bump 4 hi) hγ1
      (by simp only [TAtom.Sat, apply]; rw [← apply_of_agree bl hag, el, v3, v2, v1])
    have chain : ∀ c2 c3 b, Big (defs ord) (diseqG ord (.var (a.nextVar + 3)) (.var (a.nextVar + 2))) c c2 →
        Big (defs ord) (.call ⟨.distinct, [.cons (.var (a.nextVar + 3)) (.var (a.nextVar + 1))], d⟩) c2 c3 →
        Big (defs ord) (.call ⟨.distinct, [.cons (.var (a.nextVar + 2)) (.var (a.nextVar + 1))], d⟩) c3 b →
        Big (defs ord) (.call ⟨.distinct, [l], d⟩) a b := fun c2 c3 b g1 g2 g3 => by
      rw [big_call_rel, body_distinct]
      exact (big_oneOf d _ _ _).2 ⟨_, List.mem_cons_of_mem _ (List.mem_cons_of_mem _ List.mem_cons_self), c, hc, c2, g1, c3, g2, b, g3, rfl⟩
    -- a poisoned state runs through the rest of the clause
    have flow : ∀ {p : State}, p.panic.isSome = true → ∃ q, q.panic.isSome = true ∧
        ∃ q1, Big (defs ord) (.call ⟨.distinct, [.cons (.var (a.nextVar + 3)) (.var (a.nextVar + 1))], d⟩) p q1 ∧
          Big (defs ord) (.call ⟨.distinct, [.cons (.var (a.nextVar + 2)) (.var (a.nextVar + 1))], d⟩) q1 q := fun {p} hpp => by
      obtain ⟨q1, hq1, pq1⟩ := flow_distinct (ord := ord) (.cons (.var (a.nextVar + 3)) (.var (a.nextVar + 1))) d hpp
      obtain ⟨q, hq, pq⟩ := flow_distinct (ord := ord) (.cons (.var (a.nextVar + 2)) (.var (a.nextVar + 1))) d pq1
      exact ⟨q, pq, q1, hq1, hq⟩
    rcases pc with hpc | ⟨hpc, ic, nvc, sc⟩
    · obtain ⟨q, pq, q1, hq1, hq⟩ := flow hpc
      exact ⟨q, chain c q1 q (flow_atom _ hpc) hq1 hq, .inl pq⟩
    · have nvc' : c.nextVar = a.nextVar + 4 := nvc
      obtain ⟨c2, hc2, pc2⟩ := atom_step ho (.neq (.var (a.nextVar + 3)) (.var (a.nextVar + 2))) (a := c) (γ := γ1)
        ⟨below_var (by rw [nvc']; omega), below_var (by rw [nvc']; omega)⟩ hpc ic sc
        (by simp only [TAtom.Sat, apply]; rw [v3, v2]; exact hne)
      rcases pc2 with hpc2 | ⟨hpc2, ic2, nvc2, sc2⟩
      · obtain ⟨q, pq, q1, hq1, hq⟩ := flow hpc2
        exact ⟨q, chain c2 q1 q hc2 hq1 hq, .inl pq⟩
      · have nvc2' : c2.nextVar = a.nextVar + 4 := nvc2.trans nvc'
        obtain ⟨c3, hc3, pc3⟩ := ih1 (.cons (.var (a.nextVar + 3)) (.var (a.nextVar + 1))) c2 γ1
          (below_cons (below_var (by rw [nvc2']; omega)) (below_var (by rw [nvc2']; omega))) hpc2 ic2 sc2
          (by simp only [apply]; rw [v3, v1])
        cases hpc3 : c3.panic.isSome with
        | true =>
          obtain ⟨q, hq, pq⟩ := flow_distinct (ord := ord) (.cons (.var (a.nextVar + 2)) (.var (a.nextVar + 1))) d hpc3
          exact ⟨q, chain c2 c3 q hc2 hc3 hq, .inl pq⟩
        | false =>
          rcases pc3 with p | ⟨ic3, nvc3, γ2, hag2, sc3⟩
          · rw [hpc3] at p; cases p
          · have hag2' : Agree (a.nextVar + 4) γ1 γ2 := by rw [← nvc2']; exact hag2
            have le3 : a.nextVar + 4 ≤ c3.nextVar := by rw [← nvc2']; exact nvc3
            obtain ⟨b, hb, pb⟩ := ih2 (.cons (.var (a.nextVar + 2)) (.var (a.nextVar + 1))) c3 γ2
              (below_cons (below_var (by omega)) (below_var (by omega))) hpc3 ic3 sc3
              (by simp only [apply]; rw [← hag2' _ (by omega), ← hag2' _ (by omega), v2, v1])
            refine ⟨b, chain c2 c3 b hc2 hc3 hb, ?_⟩
            exact post_trans (by omega) (hag.trans (hag2'.mono hle)) pb

/-! ### permute -/

theorem body_permute (xl yl : Term) (d : Bool) (n : Nat) :
    relBody ord ⟨.permute, [xl, yl], d⟩ n = (4, oneOf d
      [[eqG ord (ofList [xl, yl]) (ofList [.nil, .nil])],
       [eqG ord (ofList [xl, yl]) (ofList [.cons (.var (n + 1)) (.var (n + 0)), .var (n + 2)]),
        .fresh (conjLOf d [.call ⟨.permute, [.var (n + 0), .var (n + 3)], d⟩, .call ⟨.rember, [.var (n + 1), yl, .var (n + 3)], d⟩])]]) := rfl

theorem flow_permute (xl yl : Term) (d : Bool) {a : State} (hp : a.panic.isSome = true) :
    ∃ b, Big (defs ord) (.call ⟨.permute, [xl, yl], d⟩) a b ∧ b.panic.isSome = true :=
  flow_call _ d _ _ 4 (body_permute xl yl d a.nextVar)
    (fun g hg => by simp only [List.mem_cons, List.not_mem_nil, or_false] at hg; subst hg; exact eqG_atom _ _) hp

/-- COMPLETENESS of `permute` (for its clause-level specification `PermT`) -/
theorem permute_complete (ho : OrderOK ord) (d : Bool) : ∀ {Xl Yl : Term}, PermT Xl Yl →
    ∀ (xl yl : Term) (a : State) (γ : Subst), Below a.nextVar xl → Below a.nextVar yl →
      a.panic.isSome = false → RInv a → StateSem γ a → apply γ xl = Xl → apply γ yl = Yl →
      ∃ b, Big (defs ord) (.call ⟨.permute, [xl, yl], d⟩) a b ∧ Post a γ b := by
  intro Xl Yl h
  induction h with
  | nil =>
    intro xl yl a γ bx by' hp hi hγ ex ey
    have hle : a.nextVar ≤ a.nextVar + 4 := Nat.le_add_right _ _
    have hγ1 : StateSem γ { a with nextVar := a.nextVar + 4 } := hγ
    obtain ⟨b, hb, post⟩ := comp_atom ho (.eq (ofList [xl, yl]) (ofList [.nil, .nil]))
      (a := { a with nextVar := a.nextVar + 4 }) (γ := γ)
      ⟨below2 (bx.mono hle) (by'.mono hle), below2 (below_nil _) (below_nil _)⟩ hp (rinv_bump 4 hi) hγ1
      (by simp only [TAtom.Sat, ofList, apply, Term.cons.injEq, and_true]; exact ⟨ex, ey⟩)
    refine ⟨b, ?_, ?_⟩
    · rw [big_call_rel, body_permute]
      exact (big_oneOf d _ _ _).2 ⟨_, List.mem_cons_self, b, hb, rfl⟩
    · rcases post with p | ⟨ib, nvb, sb⟩
      · exact .inl p
      · exact .inr ⟨ib, by rw [nvb]; exact hle, γ, Agree.refl _ _, sb⟩
  | @cons x xs Yl ys h1 hrem ih =>
    intro xl yl a γ bx by' hp hi hγ ex ey
    have hle : a.nextVar ≤ a.nextVar + 4 := Nat.le_add_right _ _
    let γ1 : Subst := setV (setV (setV (setV γ (a.nextVar + 1) x) (a.nextVar + 0) xs) (a.nextVar + 2) Yl) (a.nextVar + 3) ys
    have hag : Agree a.nextVar γ γ1 :=
      (((agree_setV γ x (by omega)).trans (agree_setV _ xs (by omega))).trans (agree_setV _ Yl (by omega))).trans
        (agree_setV _ ys (by omega))
    have v1 : γ1 (a.nextVar + 1) = x := by simp [γ1, setV]
    have v0 : γ1 (a.nextVar + 0) = xs := by simp [γ1, setV]
    have v2 : γ1 (a.nextVar + 2) = Yl := by simp [γ1, setV]
    have v3 : γ1 (a.nextVar + 3) = ys := by simp [γ1, setV]
    have hγ1 : StateSem γ1 { a with nextVar := a.nextVar + 4 } := hi.2 _ _ hag hγ
    obtain ⟨c, hc, pc⟩ := atom_step ho (.eq (ofList [xl, yl]) (ofList [.cons (.var (a.nextVar + 1)) (.var (a.nextVar + 0)), .var (a.nextVar + 2)]))
      (a := { a with nextVar := a.nextVar + 4 }) (γ := γ1)
      ⟨below2 (bx.mono hle) (by'.mono hle),
        below2 (below_cons (below_var (by show a.nextVar + 1 < a.nextVar + 4; omega)) (below_var (by show a.nextVar + 0 < a.nextVar + 4; omega)))
          (below_var (by show a.nextVar + 2 < a.nextVar + 4; omega))⟩
      hp (rinv_bump 4 hi) hγ1
      (by
        simp only [TAtom.Sat, ofList, apply, Term.cons.injEq, and_true]
        rw [← apply_of_agree bx hag, ← apply_of_agree by' hag, ex, ey, v1, v0, v2]
        exact ⟨rfl, rfl⟩)
    have chain : ∀ c2 b, Big (defs ord) (.call ⟨.permute, [.var (a.nextVar + 0), .var (a.nextVar + 3)], d⟩) c c2 →
        Big (defs ord) (.call ⟨.rember, [.var (a.nextVar + 1), yl, .var (a.nextVar + 3)], d⟩) c2 b →
        Big (defs ord) (.call ⟨.permute, [xl, yl], d⟩) a b := fun c2 b g1 g2 => by
      rw [big_call_rel, body_permute]
      exact (big_oneOf d _ _ _).2 ⟨_, List.mem_cons_of_mem _ List.mem_cons_self, c, hc, b,
        big_fresh.2 ((big_conjLOf d _ _ _).2 ⟨c2, g1, b, g2, rfl⟩), rfl⟩
    rcases pc with hpc | ⟨hpc, ic, nvc, sc⟩
    · obtain ⟨q1, hq1, pq1⟩ := flow_permute (ord := ord) (.var (a.nextVar + 0)) (.var (a.nextVar + 3)) d hpc
      obtain ⟨q, hq, pq⟩ := flow_rember (ord := ord) (.var (a.nextVar + 1)) yl (.var (a.nextVar + 3)) d pq1
      exact ⟨q, chain q1 q hq1 hq, .inl pq⟩
    · have nvc' : c.nextVar = a.nextVar + 4 := nvc
      obtain ⟨c2, hc2, pc2⟩ := ih (.var (a.nextVar + 0)) (.var (a.nextVar + 3)) c γ1
        (below_var (by rw [nvc']; omega)) (below_var (by rw [nvc']; omega)) hpc ic sc
        (by simp only [apply]; exact v0) (by simp only [apply]; exact v3)
      cases hpc2 : c2.panic.isSome with
      | true =>
        obtain ⟨q, hq, pq⟩ := flow_rember (ord := ord) (.var (a.nextVar + 1)) yl (.var (a.nextVar + 3)) d hpc2
        exact ⟨q, chain c2 q hc2 hq, .inl pq⟩
      | false =>
        rcases pc2 with p | ⟨ic2, nvc2, γ2, hag2, sc2⟩
        · rw [hpc2] at p; cases p
        · have hag2' : Agree (a.nextVar + 4) γ1 γ2 := by rw [← nvc']; exact hag2
          have le2 : a.nextVar + 4 ≤ c2.nextVar := by rw [← nvc']; exact nvc2
          have hag02 : Agree a.nextVar γ γ2 := hag.trans (hag2'.mono hle)
          obtain ⟨b, hb, pb⟩ := rember_complete ho d hrem (.var (a.nextVar + 1)) yl (.var (a.nextVar + 3)) c2 γ2
            (below_var (by omega)) (by'.mono (by omega)) (below_var (by omega)) hpc2 ic2 sc2
            (by simp only [apply]; rw [← hag2' _ (by omega), v1])
            (by rw [← apply_of_agree by' hag02, ey])
            (by simp only [apply]; rw [← hag2' _ (by omega), v3])
          exact ⟨b, chain c2 b hc2 hb, post_trans (by omega) hag02 pb⟩

/-! ### all six -/

/-- COMPLETENESS OF THE LIBRARY RELATIONS (big-step form): from a good state that says nothing about the variables
    at or above its counter, with arguments below the counter — if the arguments are in the relation under a
    valuation the state describes, the call has an answer describing that valuation extended to the fresh
    variables, or a FUEL-poisoned answer -/
theorem rel_complete_big (ho : OrderOK ord) (c : Call) (a : State) (γ : Subst) (hb : ∀ t ∈ c.args, Below a.nextVar t)
    (hp : a.panic.isSome = false) (hi : RInv a) (hγ : StateSem γ a) (h : RelSem c γ) :
    ∃ b, Big (defs ord) (.call c) a b ∧ Post a γ b := by
  obtain ⟨rel, args, d⟩ := c
  cases rel with
  | member =>
    rcases args with _ | ⟨a1, _ | ⟨a2, _ | ⟨a3, rest⟩⟩⟩ <;> simp only [RelSem] at h
    exact member_complete ho d h a1 a2 a γ (hb _ (by simp)) (hb _ (by simp)) hp hi hγ rfl rfl
  | member1 =>
    rcases args with _ | ⟨a1, _ | ⟨a2, _ | ⟨a3, rest⟩⟩⟩ <;> simp only [RelSem] at h
    exact member1_complete ho d h a1 a2 a γ (hb _ (by simp)) (hb _ (by simp)) hp hi hγ rfl rfl
  | append =>
    rcases args with _ | ⟨a1, _ | ⟨a2, _ | ⟨a3, _ | ⟨a4, rest⟩⟩⟩⟩ <;> simp only [RelSem] at h
    exact append_complete ho d h a1 a2 a3 a γ (hb _ (by simp)) (hb _ (by simp)) (hb _ (by simp)) hp hi hγ rfl rfl rfl
  | rember =>
    rcases args with _ | ⟨a1, _ | ⟨a2, _ | ⟨a3, _ | ⟨a4, rest⟩⟩⟩⟩ <;> simp only [RelSem] at h
    exact rember_complete ho d h a1 a2 a3 a γ (hb _ (by simp)) (hb _ (by simp)) (hb _ (by simp)) hp hi hγ rfl rfl rfl
  | permute =>
    rcases args with _ | ⟨a1, _ | ⟨a2, _ | ⟨a3, rest⟩⟩⟩ <;> simp only [RelSem] at h
    exact permute_complete ho d h a1 a2 a γ (hb _ (by simp)) (hb _ (by simp)) hp hi hγ rfl rfl
  | distinct =>
    rcases args with _ | ⟨a1, _ | ⟨a2, rest⟩⟩ <;> simp only [RelSem] at h
    exact distinct_complete ho d h a1 a γ (hb _ (by simp)) hp hi hγ rfl
  | spin => simp only [RelSem] at h

/-- … on the engine: the answer is in the engine's stream, at every nesting level -/
theorem rel_complete (ho : OrderOK ord) (pf M j : Nat) (c : Call) (a : State) (γ : Subst)
    (hb : ∀ t ∈ c.args, Below a.nextVar t) (hp : a.panic.isSome = false) (hi : RInv a) (hγ : StateSem γ a)
    (h : RelSem c γ) :
    ∃ b, MemS (solveAt (defs ord) pf (M + 1)) b (solveAt (defs ord) pf j (.call c) a) ∧
      (b.panic.isSome = true ∨ ∃ γ', Agree a.nextVar γ γ' ∧ StateSem γ' b) := by
  obtain ⟨b, hb', post⟩ := rel_complete_big ho c a γ hb hp hi hγ h
  refine ⟨b, (mem_iff_big (defs_plain ord) pf M j (.call c) a b).2 hb', ?_⟩
  rcases post with p | ⟨_, _, γ', hag, sb⟩
  · exact .inl p
  · exact .inr ⟨γ', hag, sb⟩

/-- the empty state satisfies the invariant -/
theorem rinv_empty (n : Nat) : RInv (State.empty n) :=
  ⟨good_empty n, fun _ γ' _ _ => stateSem_empty n γ'⟩

/-- `==`/`!=` goals over variables below the counter keep the invariant -/
theorem rinv_postAtom (ho : OrderOK ord) (t : TAtom) {a b : State}
    (hb : match t with | .eq u v => Below a.nextVar u ∧ Below a.nextVar v | .neq u v => Below a.nextVar u ∧ Below a.nextVar v)
    (hi : RInv a) (hr : postAtom ord a t = .ok b) : RInv b ∧ b.nextVar = a.nextVar := by
  obtain ⟨gb, sem⟩ := postAtom_ok ord ho a b t hi.1 hr
  have nv := postAtom_nv ho t hi.1 hr
  refine ⟨⟨gb, fun γ1 γ2 hag h1 => ?_⟩, nv⟩
  rw [nv] at hag
  have := (sem γ1).1 h1
  exact (sem γ2).2 ⟨hi.2 γ1 γ2 hag this.1, sat_agree t hb hag this.2⟩

end
end Pv
