/-
  Lemmas about the macro elaboration model (Model/Surface.lean): the counter only grows, every variable
  of an elaborated goal is either the image of a name in scope or was allocated by this elaboration,
  elaboration depends only on the environment at the names a goal mentions, and consistently renaming a
  bound name does not change the elaborated goal at all (it contains ids, no names).
-/
import PvModel.Model.Surface
namespace Pv
namespace Surface
open STerm SGoal

theorem elabT_scope (env : Env) : ∀ (t : STerm) (n : Nat) (t' : Term) (n' : Nat), elabT env t n = (t', n') →
    n ≤ n' ∧ ∀ v ∈ t'.vars, (∃ x, t.mentions x = true ∧ v = env x) ∨ (n ≤ v ∧ v < n')
  | .var x, n, t', n', h => by
    simp only [elabT, Prod.mk.injEq] at h; obtain ⟨rfl, rfl⟩ := h
    exact ⟨Nat.le_refl _, fun v hv => .inl ⟨x, by simp [mentions], by simpa [Term.vars] using hv⟩⟩
  | .any, n, t', n', h => by
    simp only [elabT, Prod.mk.injEq] at h; obtain ⟨rfl, rfl⟩ := h
    exact ⟨Nat.le_succ _, fun v hv => .inr (by simp [Term.vars] at hv; omega)⟩
  | .val c, n, t', n', h => by
    simp only [elabT, Prod.mk.injEq] at h; obtain ⟨rfl, rfl⟩ := h
    exact ⟨Nat.le_refl _, fun v hv => by simp [Term.vars] at hv⟩
  | .nil, n, t', n', h => by
    simp only [elabT, Prod.mk.injEq] at h; obtain ⟨rfl, rfl⟩ := h
    exact ⟨Nat.le_refl _, fun v hv => by simp [Term.vars] at hv⟩
  | .cons a b, n, t', n', h => by
    simp only [elabT] at h
    generalize ha : elabT env a n = ra at h
    obtain ⟨a', n1⟩ := ra
    generalize hb : elabT env b n1 = rb at h
    obtain ⟨b', n2⟩ := rb
    simp only [Prod.mk.injEq] at h; obtain ⟨rfl, rfl⟩ := h
    obtain ⟨l1, s1⟩ := elabT_scope env a n a' n1 ha
    obtain ⟨l2, s2⟩ := elabT_scope env b n1 b' n2 hb
    refine ⟨Nat.le_trans l1 l2, fun v hv => ?_⟩
    simp only [Term.vars, List.mem_append] at hv
    rcases hv with hv | hv
    · rcases s1 v hv with ⟨x, hx, e⟩ | ⟨h1, h2⟩
      · exact .inl ⟨x, by simp [mentions, hx], e⟩
      · exact .inr ⟨h1, by omega⟩
    · rcases s2 v hv with ⟨x, hx, e⟩ | ⟨h1, h2⟩
      · exact .inl ⟨x, by simp [mentions, hx], e⟩
      · exact .inr ⟨by omega, h2⟩
  | .comp g a, n, t', n', h => by
    simp only [elabT] at h
    generalize ha : elabT env a n = ra at h
    obtain ⟨a', n1⟩ := ra
    simp only [Prod.mk.injEq] at h; obtain ⟨rfl, rfl⟩ := h
    obtain ⟨l1, s1⟩ := elabT_scope env a n a' n1 ha
    refine ⟨l1, fun v hv => ?_⟩
    simp only [Term.vars] at hv
    rcases s1 v hv with ⟨x, hx, e⟩ | ⟨h1, h2⟩
    · exact .inl ⟨x, by simp [mentions, hx], e⟩
    · exact .inr ⟨h1, h2⟩

/-- terms: the elaboration only looks at the environment at the names the term mentions -/
theorem elabT_congr (env env' : Env) : ∀ (t : STerm) (n : Nat), (∀ x, t.mentions x = true → env x = env' x) →
    elabT env t n = elabT env' t n
  | .var x, n, h => by simp [elabT, h x (by simp [mentions])]
  | .any, n, _ => rfl
  | .val c, n, _ => rfl
  | .nil, n, _ => rfl
  | .cons a b, n, h => by
    simp only [elabT]
    rw [elabT_congr env env' a n (fun x hx => h x (by simp [mentions, hx]))]
    generalize elabT env' a n = ra
    obtain ⟨a', n1⟩ := ra
    simp only
    rw [elabT_congr env env' b n1 (fun x hx => h x (by simp [mentions, hx]))]
  | .comp g a, n, h => by
    simp only [elabT]
    rw [elabT_congr env env' a n (fun x hx => h x (by simp [mentions, hx]))]

/-- renaming a name in a term = renaming it in the environment, when the new name is not used -/
theorem elabT_rename (env : Env) (x z : Name) (k : Nat) : ∀ (t : STerm) (n : Nat), t.mentions z = false →
    elabT (env.bind z k) (t.rename x z) n = elabT (env.bind x k) t n
  | .var y, n, h => by
    simp only [mentions, beq_eq_false_iff_ne, ne_eq] at h
    by_cases hy : y = x
    · subst hy; simp [STerm.rename, elabT, Env.bind]
    · simp [STerm.rename, hy, elabT, Env.bind, h]
  | .any, n, _ => rfl
  | .val c, n, _ => rfl
  | .nil, n, _ => rfl
  | .cons a b, n, h => by
    simp only [mentions, Bool.or_eq_false_iff] at h
    simp only [STerm.rename, elabT]
    rw [elabT_rename env x z k a n h.1]
    generalize elabT (env.bind x k) a n = ra
    obtain ⟨a', n1⟩ := ra
    simp only
    rw [elabT_rename env x z k b n1 h.2]
  | .comp g a, n, h => by
    simp only [mentions] at h
    simp only [STerm.rename, elabT]
    rw [elabT_rename env x z k a n h]

theorem mem_names (x : Name) : ∀ t : STerm, x ∈ t.names ↔ t.mentions x = true
  | .var y => by
    simp only [names, mentions, List.mem_singleton, beq_iff_eq]
    exact eq_comm
  | .any => by simp [names, mentions]
  | .val c => by simp [names, mentions]
  | .nil => by simp [names, mentions]
  | .cons a b => by simp [names, mentions, List.mem_eraseDups, mem_names x a, mem_names x b]
  | .comp g a => by simp only [names, mentions]; exact mem_names x a

theorem bindAll_notin (env : Env) : ∀ (ns : List Name) (n : Nat) (y : Name), y ∉ ns → bindAll env ns n y = env y
  | [], _, _, _ => rfl
  | x :: xs, n, y, h => by
    simp only [List.mem_cons, not_or] at h
    rw [bindAll, bindAll_notin _ xs (n + 1) y h.2]
    simp [Env.bind, h.1]

/-- binding a list of names depends on the environment only outside the list -/
theorem bindAll_congr (env env' : Env) : ∀ (ns : List Name) (n : Nat) (y : Name), (y ∉ ns → env y = env' y) →
    bindAll env ns n y = bindAll env' ns n y
  | [], _, y, h => h (by simp)
  | x :: xs, n, y, h => by
    simp only [bindAll]
    apply bindAll_congr
    intro hy
    by_cases e : y = x
    · simp [Env.bind, e]
    · simp only [Env.bind, e, if_false]
      exact h (by simp [e, hy])

/-- goals: the elaboration only looks at the environment at the names the goal mentions -/
theorem elabG_congr : ∀ (g : SGoal) (env env' : Env) (n : Nat), (∀ x ∈ g.allNames, env x = env' x) →
    elabG env g n = elabG env' g n
  | .eq a b, env, env', n, h => by
    simp only [elabG]
    rw [elabT_congr env env' a n (fun x hx => h x (by simp [allNames, (mem_names x a).2 hx]))]
    generalize elabT env' a n = ra; obtain ⟨a', n1⟩ := ra; simp only
    rw [elabT_congr env env' b n1 (fun x hx => h x (by simp [allNames, (mem_names x b).2 hx]))]
  | .neq a b, env, env', n, h => by
    simp only [elabG]
    rw [elabT_congr env env' a n (fun x hx => h x (by simp [allNames, (mem_names x a).2 hx]))]
    generalize elabT env' a n = ra; obtain ⟨a', n1⟩ := ra; simp only
    rw [elabT_congr env env' b n1 (fun x hx => h x (by simp [allNames, (mem_names x b).2 hx]))]
  | .tt, _, _, _, _ => rfl
  | .ff, _, _, _, _ => rfl
  | .conj g1 g2, env, env', n, h => by
    simp only [elabG]
    rw [elabG_congr g1 env env' n (fun x hx => h x (by simp [allNames, hx]))]
    generalize elabG env' g1 n = r1; obtain ⟨e1, n1⟩ := r1; simp only
    rw [elabG_congr g2 env env' n1 (fun x hx => h x (by simp [allNames, hx]))]
  | .disj g1 g2, env, env', n, h => by
    simp only [elabG]
    rw [elabG_congr g1 env env' n (fun x hx => h x (by simp [allNames, hx]))]
    generalize elabG env' g1 n = r1; obtain ⟨e1, n1⟩ := r1; simp only
    rw [elabG_congr g2 env env' n1 (fun x hx => h x (by simp [allNames, hx]))]
  | .fresh y g, env, env', n, h => by
    simp only [elabG]
    rw [elabG_congr g (env.bind y n) (env'.bind y n) (n + 1) (fun x hx => by
      by_cases e : x = y
      · simp [Env.bind, e]
      · simp only [Env.bind, e, if_false]; exact h x (by simp [allNames, hx]))]
  | .mtch t p body rest, env, env', n, h => by
    simp only [elabG]
    rw [elabT_congr env env' t n (fun x hx => h x (by simp [allNames, (mem_names x t).2 hx]))]
    generalize elabT env' t n = rt; obtain ⟨t', n1⟩ := rt; simp only
    have he : ∀ x, (x ∈ p.names ∨ x ∈ body.allNames) → bindAll env p.names n1 x = bindAll env' p.names n1 x := by
      intro x hx
      apply bindAll_congr
      intro hn
      rcases hx with hx | hx
      · exact absurd hx hn
      · exact h x (by simp [allNames, hx])
    rw [elabT_congr _ _ p _ (fun x hx => he x (.inl ((mem_names x p).2 hx)))]
    generalize elabT (bindAll env' p.names n1) p (n1 + p.names.length) = rp; obtain ⟨p', n2⟩ := rp; simp only
    rw [elabG_congr body _ _ n2 (fun x hx => he x (.inr hx))]
    generalize elabG (bindAll env' p.names n1) body n2 = rb; obtain ⟨b, n3⟩ := rb; simp only
    rw [elabG_congr rest env env' n3 (fun x hx => h x (by simp [allNames, hx]))]

theorem bind_comm (env : Env) (x y : Name) (a b : Nat) (h : x ≠ y) :
    (env.bind x a).bind y b = (env.bind y b).bind x a := by
  funext w
  simp only [Env.bind]
  by_cases h1 : w = y <;> by_cases h2 : w = x <;> simp_all

/-- ALPHA: consistently renaming the free occurrences of `x` to a name `z` used nowhere in the goal, while
    the environment binds `z` instead of `x`, gives literally the same elaborated goal and counter -/
theorem elabG_rename : ∀ (g : SGoal) (env : Env) (x z : Name) (k n : Nat), z ∉ g.allNames →
    elabG (env.bind z k) (g.rename x z) n = elabG (env.bind x k) g n
  | .eq a b, env, x, z, k, n, h => by
    simp only [allNames, List.mem_append, not_or, mem_names] at h
    simp only [SGoal.rename, elabG]
    rw [elabT_rename env x z k a n (by simpa using h.1)]
    generalize elabT (env.bind x k) a n = ra; obtain ⟨a', n1⟩ := ra; simp only
    rw [elabT_rename env x z k b n1 (by simpa using h.2)]
  | .neq a b, env, x, z, k, n, h => by
    simp only [allNames, List.mem_append, not_or, mem_names] at h
    simp only [SGoal.rename, elabG]
    rw [elabT_rename env x z k a n (by simpa using h.1)]
    generalize elabT (env.bind x k) a n = ra; obtain ⟨a', n1⟩ := ra; simp only
    rw [elabT_rename env x z k b n1 (by simpa using h.2)]
  | .tt, _, _, _, _, _, _ => rfl
  | .ff, _, _, _, _, _, _ => rfl
  | .conj g1 g2, env, x, z, k, n, h => by
    simp only [allNames, List.mem_append, not_or] at h
    simp only [SGoal.rename, elabG]
    rw [elabG_rename g1 env x z k n h.1]
    generalize elabG (env.bind x k) g1 n = r1; obtain ⟨e1, n1⟩ := r1; simp only
    rw [elabG_rename g2 env x z k n1 h.2]
  | .disj g1 g2, env, x, z, k, n, h => by
    simp only [allNames, List.mem_append, not_or] at h
    simp only [SGoal.rename, elabG]
    rw [elabG_rename g1 env x z k n h.1]
    generalize elabG (env.bind x k) g1 n = r1; obtain ⟨e1, n1⟩ := r1; simp only
    rw [elabG_rename g2 env x z k n1 h.2]
  | .fresh y g, env, x, z, k, n, h => by
    simp only [allNames, List.mem_cons, not_or] at h
    by_cases e : y = x
    · -- the binder rebinds x: nothing is renamed below it, and neither x's nor z's outer binding is seen
      subst e
      simp only [SGoal.rename, if_true, elabG]
      rw [elabG_congr g ((env.bind z k).bind y n) ((env.bind y k).bind y n) (n + 1) (fun w hw => by
        have : w ≠ z := fun e' => h.2 (e' ▸ hw)
        simp only [Env.bind]
        by_cases hy : w = y <;> simp [hy, this])]
    · simp only [SGoal.rename, e, if_false, elabG]
      have hzy : z ≠ y := fun e' => h.1 e'
      rw [bind_comm env z y k n hzy, bind_comm env x y k n (fun e' => e e'.symm)]
      rw [elabG_rename g (env.bind y n) x z k (n + 1) h.2]
  | .mtch t p body rest, env, x, z, k, n, h => by
    simp only [allNames, List.mem_append, not_or, mem_names] at h
    obtain ⟨⟨⟨ht, hp⟩, hb⟩, hr⟩ := h
    simp only [SGoal.rename, elabG]
    rw [elabT_rename env x z k t n (by simpa using ht)]
    generalize elabT (env.bind x k) t n = rt; obtain ⟨t', n1⟩ := rt; simp only
    have hzp : z ∉ p.names := fun hm => hp ((mem_names z p).1 hm)
    -- the pattern is elaborated under its own binders: z is not among its names
    have hpe : elabT (bindAll (env.bind z k) p.names n1) p (n1 + p.names.length)
             = elabT (bindAll (env.bind x k) p.names n1) p (n1 + p.names.length) := by
      apply elabT_congr
      intro w hw
      apply bindAll_congr
      intro hn
      exact absurd ((mem_names w p).2 hw) hn
    rw [hpe]
    generalize elabT (bindAll (env.bind x k) p.names n1) p (n1 + p.names.length) = rp; obtain ⟨p', n2⟩ := rp
    simp only
    have hbody : elabG (bindAll (env.bind z k) p.names n1) (if p.names.contains x then body else SGoal.rename x z body) n2
               = elabG (bindAll (env.bind x k) p.names n1) body n2 := by
      by_cases hx : x ∈ p.names
      · -- the pattern rebinds x: body untouched; z is not mentioned
        simp only [List.contains_iff_mem, hx, if_true]
        apply elabG_congr
        intro w hw
        apply bindAll_congr
        intro hn
        have : w ≠ z := fun e' => hb (e' ▸ hw)
        have : w ≠ x := fun e' => hn (e' ▸ hx)
        simp [Env.bind, *]
      · simp only [List.contains_iff_mem, hx, if_false]
        -- move the x / z binding inside the pattern binders (it commutes with them)
        have e1 : bindAll (env.bind z k) p.names n1 = (bindAll env p.names n1).bind z k := by
          funext w
          by_cases hw : w ∈ p.names
          · have hwz : w ≠ z := fun e' => hzp (e' ▸ hw)
            rw [bindAll_congr (env.bind z k) env p.names n1 w (fun hn => absurd hw hn)]
            simp [Env.bind, hwz]
          · rw [bindAll_notin _ _ _ _ hw]
            simp only [Env.bind]
            by_cases e' : w = z
            · simp [e']
            · simp [e', bindAll_notin _ _ _ _ hw]
        have e2 : bindAll (env.bind x k) p.names n1 = (bindAll env p.names n1).bind x k := by
          funext w
          by_cases hw : w ∈ p.names
          · have hwx : w ≠ x := fun e' => hx (e' ▸ hw)
            rw [bindAll_congr (env.bind x k) env p.names n1 w (fun hn => absurd hw hn)]
            simp [Env.bind, hwx]
          · rw [bindAll_notin _ _ _ _ hw]
            simp only [Env.bind]
            by_cases e' : w = x
            · simp [e']
            · simp [e', bindAll_notin _ _ _ _ hw]
        rw [e1, e2]
        exact elabG_rename body _ x z k n2 hb
    rw [hbody]
    generalize elabG (bindAll (env.bind x k) p.names n1) body n2 = rb; obtain ⟨b, n3⟩ := rb; simp only
    rw [elabG_rename rest env x z k n3 hr]

theorem bindAll_range (env : Env) : ∀ (ns : List Name) (n : Nat) (y : Name),
    bindAll env ns n y = env y ∨ (n ≤ bindAll env ns n y ∧ bindAll env ns n y < n + ns.length)
  | [], _, _ => .inl rfl
  | x :: xs, n, y => by
    simp only [bindAll, List.length_cons]
    rcases bindAll_range (env.bind x n) xs (n + 1) y with h | ⟨h1, h2⟩
    · rw [h]
      by_cases e : y = x
      · simp only [Env.bind, e, if_true]; exact .inr ⟨Nat.le_refl _, by omega⟩
      · left; simp [Env.bind, e]
    · exact .inr ⟨by omega, by omega⟩

/-- FRESHNESS: the counter only grows, and every variable of the elaborated goal is the image of a name in
    scope or was allocated by this very elaboration (an id in `[n, n')`) -/
theorem elabG_scope : ∀ (g : SGoal) (env : Env) (n : Nat) (e : EGoal) (n' : Nat), elabG env g n = (e, n') →
    n ≤ n' ∧ ∀ v ∈ e.vars, (∃ x, v = env x) ∨ (n ≤ v ∧ v < n')
  | .eq a b, env, n, e, n', h => by
    simp only [elabG] at h
    generalize ha : elabT env a n = ra at h; obtain ⟨a', n1⟩ := ra
    generalize hb : elabT env b n1 = rb at h; obtain ⟨b', n2⟩ := rb
    simp only [Prod.mk.injEq] at h; obtain ⟨rfl, rfl⟩ := h
    obtain ⟨l1, s1⟩ := elabT_scope env a n a' n1 ha
    obtain ⟨l2, s2⟩ := elabT_scope env b n1 b' n2 hb
    refine ⟨by omega, fun v hv => ?_⟩
    simp only [EGoal.vars, List.mem_append] at hv
    rcases hv with hv | hv
    · rcases s1 v hv with ⟨x, _, e⟩ | ⟨h1, h2⟩
      · exact .inl ⟨x, e⟩
      · exact .inr ⟨h1, by omega⟩
    · rcases s2 v hv with ⟨x, _, e⟩ | ⟨h1, h2⟩
      · exact .inl ⟨x, e⟩
      · exact .inr ⟨by omega, h2⟩
  | .neq a b, env, n, e, n', h => by
    simp only [elabG] at h
    generalize ha : elabT env a n = ra at h; obtain ⟨a', n1⟩ := ra
    generalize hb : elabT env b n1 = rb at h; obtain ⟨b', n2⟩ := rb
    simp only [Prod.mk.injEq] at h; obtain ⟨rfl, rfl⟩ := h
    obtain ⟨l1, s1⟩ := elabT_scope env a n a' n1 ha
    obtain ⟨l2, s2⟩ := elabT_scope env b n1 b' n2 hb
    refine ⟨by omega, fun v hv => ?_⟩
    simp only [EGoal.vars, List.mem_append] at hv
    rcases hv with hv | hv
    · rcases s1 v hv with ⟨x, _, e⟩ | ⟨h1, h2⟩
      · exact .inl ⟨x, e⟩
      · exact .inr ⟨h1, by omega⟩
    · rcases s2 v hv with ⟨x, _, e⟩ | ⟨h1, h2⟩
      · exact .inl ⟨x, e⟩
      · exact .inr ⟨by omega, h2⟩
  | .tt, env, n, e, n', h => by
    simp only [elabG, Prod.mk.injEq] at h; obtain ⟨rfl, rfl⟩ := h
    exact ⟨Nat.le_refl _, fun v hv => by simp [EGoal.vars] at hv⟩
  | .ff, env, n, e, n', h => by
    simp only [elabG, Prod.mk.injEq] at h; obtain ⟨rfl, rfl⟩ := h
    exact ⟨Nat.le_refl _, fun v hv => by simp [EGoal.vars] at hv⟩
  | .conj g1 g2, env, n, e, n', h => by
    simp only [elabG] at h
    generalize h1 : elabG env g1 n = r1 at h; obtain ⟨e1, n1⟩ := r1
    generalize h2 : elabG env g2 n1 = r2 at h; obtain ⟨e2, n2⟩ := r2
    simp only [Prod.mk.injEq] at h; obtain ⟨rfl, rfl⟩ := h
    obtain ⟨l1, s1⟩ := elabG_scope g1 env n e1 n1 h1
    obtain ⟨l2, s2⟩ := elabG_scope g2 env n1 e2 n2 h2
    refine ⟨by omega, fun v hv => ?_⟩
    simp only [EGoal.vars, List.mem_append] at hv
    rcases hv with hv | hv
    · rcases s1 v hv with h | ⟨a, b⟩
      · exact .inl h
      · exact .inr ⟨a, by omega⟩
    · rcases s2 v hv with h | ⟨a, b⟩
      · exact .inl h
      · exact .inr ⟨by omega, b⟩
  | .disj g1 g2, env, n, e, n', h => by
    simp only [elabG] at h
    generalize h1 : elabG env g1 n = r1 at h; obtain ⟨e1, n1⟩ := r1
    generalize h2 : elabG env g2 n1 = r2 at h; obtain ⟨e2, n2⟩ := r2
    simp only [Prod.mk.injEq] at h; obtain ⟨rfl, rfl⟩ := h
    obtain ⟨l1, s1⟩ := elabG_scope g1 env n e1 n1 h1
    obtain ⟨l2, s2⟩ := elabG_scope g2 env n1 e2 n2 h2
    refine ⟨by omega, fun v hv => ?_⟩
    simp only [EGoal.vars, List.mem_append] at hv
    rcases hv with hv | hv
    · rcases s1 v hv with h | ⟨a, b⟩
      · exact .inl h
      · exact .inr ⟨a, by omega⟩
    · rcases s2 v hv with h | ⟨a, b⟩
      · exact .inl h
      · exact .inr ⟨by omega, b⟩
  | .fresh y g, env, n, e, n', h => by
    simp only [elabG] at h
    generalize h1 : elabG (env.bind y n) g (n + 1) = r1 at h; obtain ⟨e1, n1⟩ := r1
    simp only [Prod.mk.injEq] at h; obtain ⟨rfl, rfl⟩ := h
    obtain ⟨l1, s1⟩ := elabG_scope g (env.bind y n) (n + 1) e1 n1 h1
    refine ⟨by omega, fun v hv => ?_⟩
    simp only [EGoal.vars] at hv
    rcases s1 v hv with ⟨x, hx⟩ | ⟨a, b⟩
    · by_cases e : x = y
      · simp only [Env.bind, e, if_true] at hx; exact .inr ⟨by omega, by omega⟩
      · simp only [Env.bind, e, if_false] at hx; exact .inl ⟨x, hx⟩
    · exact .inr ⟨by omega, b⟩
  | .mtch t p body rest, env, n, e, n', h => by
    simp only [elabG] at h
    generalize ht : elabT env t n = rt at h; obtain ⟨t', n1⟩ := rt
    generalize hp : elabT (bindAll env p.names n1) p (n1 + p.names.length) = rp at h; obtain ⟨p', n2⟩ := rp
    generalize hb : elabG (bindAll env p.names n1) body n2 = rb at h; obtain ⟨b, n3⟩ := rb
    generalize hr : elabG env rest n3 = rr at h; obtain ⟨r, n4⟩ := rr
    simp only [Prod.mk.injEq] at h; obtain ⟨rfl, rfl⟩ := h
    obtain ⟨l1, s1⟩ := elabT_scope env t n t' n1 ht
    obtain ⟨l2, s2⟩ := elabT_scope _ p _ p' n2 hp
    obtain ⟨l3, s3⟩ := elabG_scope body _ n2 b n3 hb
    obtain ⟨l4, s4⟩ := elabG_scope rest env n3 r n4 hr
    have key : ∀ w, (∃ x, w = bindAll env p.names n1 x) → (∃ x, w = env x) ∨ (n ≤ w ∧ w < n4) := by
      rintro w ⟨x, rfl⟩
      rcases bindAll_range env p.names n1 x with h | ⟨a, b⟩
      · exact .inl ⟨x, h⟩
      · exact .inr ⟨by omega, by omega⟩
    refine ⟨by omega, fun v hv => ?_⟩
    simp only [EGoal.vars, List.mem_append] at hv
    rcases hv with ((hv | hv) | hv) | hv
    · rcases s1 v hv with ⟨x, _, e⟩ | ⟨a, b⟩
      · exact .inl ⟨x, e⟩
      · exact .inr ⟨a, by omega⟩
    · rcases s2 v hv with ⟨x, _, e⟩ | ⟨a, b⟩
      · exact key v ⟨x, e⟩
      · exact .inr ⟨by omega, by omega⟩
    · rcases s3 v hv with h | ⟨a, b⟩
      · exact key v h
      · exact .inr ⟨by omega, by omega⟩
    · rcases s4 v hv with h | ⟨a, b⟩
      · exact .inl h
      · exact .inr ⟨by omega, b⟩

end Surface
end Pv
