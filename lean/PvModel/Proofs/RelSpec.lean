/-
  The specifications of the library relations (Proofs/RelSem.lean) against `List` functions: what the clause-level
  predicates `AppT`, `MemT`, `Mem1T`, `RemT`, `PermT`, `DistT` say about (proper, partial, improper) list terms.
-/
import PvModel.Proofs.RelSem
namespace Pv
open Term

theorem improper_nil (xs : List Term) : improperOfList xs .nil = ofList xs := by
  induction xs with
  | nil => rfl
  | cons x xs ih => simp [improperOfList, ofList, ih]

theorem ofListT_inj : ∀ as bs : List Term, ofList as = ofList bs → as = bs
  | [], [], _ => rfl
  | [], _ :: _, h => nomatch h
  | _ :: _, [], h => nomatch h
  | a :: as, b :: bs, h => by
    simp only [ofList, Term.cons.injEq] at h
    rw [h.1, ofListT_inj as bs h.2]

/-- `append(l, s, ls)` ⇔ `l` is a proper list `[x₁,…,xₙ]` and `ls` is `[x₁,…,xₙ | s]` -/
theorem appT_iff (l s r : Term) : AppT l s r ↔ ∃ xs, l = ofList xs ∧ r = improperOfList xs s := by
  constructor
  · intro h
    induction h with
    | nil s => exact ⟨[], rfl, rfl⟩
    | @cons x t s r _ ih =>
      obtain ⟨xs, rfl, rfl⟩ := ih
      exact ⟨x :: xs, rfl, rfl⟩
  · rintro ⟨xs, rfl, rfl⟩
    induction xs with
    | nil => exact .nil _
    | cons x xs ih => exact .cons ih

/-- on proper lists: `append` is list concatenation -/
theorem appT_ofList (xs ys : List Term) (r : Term) : AppT (ofList xs) (ofList ys) r ↔ r = ofList (xs ++ ys) := by
  rw [appT_iff]
  have key : ∀ zs : List Term, improperOfList zs (ofList ys) = ofList (zs ++ ys) := by
    intro zs
    induction zs with
    | nil => rfl
    | cons z zs ih => simp [improperOfList, ofList, ih]
  constructor
  · rintro ⟨zs, hz, rfl⟩
    rw [ofListT_inj _ _ hz, key]
  · rintro rfl
    exact ⟨xs, rfl, (key xs).symm⟩

/-- `member(x, l)` ⇔ `x` stands at some position of `l` (whatever follows it) -/
theorem memT_iff (x l : Term) : MemT x l ↔ ∃ pre rest, l = improperOfList pre (.cons x rest) := by
  constructor
  · intro h
    induction h with
    | head t => exact ⟨[], t, rfl⟩
    | @tail h t _ ih =>
      obtain ⟨pre, rest, rfl⟩ := ih
      exact ⟨h :: pre, rest, rfl⟩
  · rintro ⟨pre, rest, rfl⟩
    induction pre with
    | nil => exact .head _ _
    | cons p pre ih => exact .tail ih

theorem memT_ofList (x : Term) (xs : List Term) : MemT x (ofList xs) ↔ x ∈ xs := by
  induction xs with
  | nil => exact ⟨fun h => (nomatch h), fun h => (nomatch h)⟩
  | cons y ys ih =>
    constructor
    · intro h
      cases h with
      | head _ => exact List.mem_cons_self
      | tail h' => exact List.mem_cons_of_mem _ (ih.1 h')
    · intro h
      rcases List.mem_cons.1 h with rfl | h
      · exact .head _ _
      · exact .tail (ih.2 h)

/-- `member1(x, l)` ⇔ `x` stands at a position of `l` before which it does not occur -/
theorem mem1T_iff (x l : Term) : Mem1T x l ↔ ∃ pre rest, l = improperOfList pre (.cons x rest) ∧ x ∉ pre := by
  constructor
  · intro h
    induction h with
    | head t => exact ⟨[], t, rfl, fun h => nomatch h⟩
    | @tail h t hne _ ih =>
      obtain ⟨pre, rest, rfl, hn⟩ := ih
      refine ⟨h :: pre, rest, rfl, fun hm => ?_⟩
      rcases List.mem_cons.1 hm with e | hm
      · exact hne e.symm
      · exact hn hm
  · rintro ⟨pre, rest, rfl, hn⟩
    induction pre with
    | nil => exact .head _ _
    | cons p pre ih =>
      exact .tail (fun e => hn (e ▸ List.mem_cons_self)) (ih fun hm => hn (List.mem_cons_of_mem _ hm))

/-- … and that position is unique: one way for `member1` to hold per list and value -/
theorem mem1T_unique (x : Term) : ∀ (pre pre' : List Term) (rest rest' : Term), x ∉ pre → x ∉ pre' →
    improperOfList pre (.cons x rest) = improperOfList pre' (.cons x rest') → pre = pre' ∧ rest = rest'
  | [], [], _, _, _, _, h => by simp only [improperOfList, Term.cons.injEq, true_and] at h; exact ⟨rfl, h⟩
  | [], p :: _, _, _, _, hn, h => by
    simp only [improperOfList, Term.cons.injEq] at h
    exact (hn (h.1 ▸ List.mem_cons_self)).elim
  | p :: _, [], _, _, hn, _, h => by
    simp only [improperOfList, Term.cons.injEq] at h
    exact (hn (h.1 ▸ List.mem_cons_self)).elim
  | p :: pre, q :: pre', rest, rest', hn, hn', h => by
    simp only [improperOfList, Term.cons.injEq] at h
    obtain ⟨e1, e2⟩ := mem1T_unique x pre pre' rest rest' (fun hm => hn (List.mem_cons_of_mem _ hm))
      (fun hm => hn' (List.mem_cons_of_mem _ hm)) h.2
    exact ⟨by rw [h.1, e1], e2⟩

theorem mem1T_ofList (x : Term) (xs : List Term) : Mem1T x (ofList xs) ↔ x ∈ xs := by
  induction xs with
  | nil => exact ⟨fun h => (nomatch h), fun h => (nomatch h)⟩
  | cons y ys ih =>
    constructor
    · intro h
      cases h with
      | head _ => exact List.mem_cons_self
      | tail _ h' => exact List.mem_cons_of_mem _ (ih.1 h')
    · intro h
      by_cases e : y = x
      · subst e; exact .head _ _
      · rcases List.mem_cons.1 h with rfl | h
        · exact (e rfl).elim
        · exact .tail e (ih.2 h)

/-- `rember` is a function of `x` and the list -/
theorem remT_fun {x l o1 o2 : Term} (h1 : RemT x l o1) (h2 : RemT x l o2) : o1 = o2 := by
  induction h1 generalizing o2 with
  | nil => cases h2; rfl
  | hit d =>
    cases h2 with
    | hit _ => rfl
    | skip hne _ => exact (hne rfl).elim
  | @skip y ys zs hne _ ih =>
    cases h2 with
    | hit _ => exact (hne rfl).elim
    | skip _ h' => rw [ih h']

/-- on proper lists: `rember(x, ls, out)` ⇔ `out` is `ls` with the first occurrence of `x` erased -/
theorem remT_ofList (x : Term) (xs : List Term) (out : Term) : RemT x (ofList xs) out ↔ out = ofList (xs.erase x) := by
  have mk : ∀ xs : List Term, RemT x (ofList xs) (ofList (xs.erase x)) := by
    intro xs
    induction xs with
    | nil => exact .nil _
    | cons y ys ih =>
      by_cases e : y = x
      · subst e; rw [List.erase_cons_head]; exact .hit _ _
      · rw [List.erase_cons_tail (by simpa using e)]; exact .skip e ih
  exact ⟨fun h => remT_fun h (mk xs), fun h => h ▸ mk xs⟩

theorem distT_of_nodup : ∀ (n : Nat) (xs : List Term), xs.length ≤ n → xs.Nodup → DistT (ofList xs)
  | _, [], _, _ => .nil
  | _, [a], _, _ => .one a
  | 0, _ :: _ :: _, h, _ => by simp at h
  | n + 1, f :: s :: r, h, hn => by
    have n2 : (s :: r).Nodup := (List.nodup_cons.1 hn).2
    have hfs : f ≠ s := fun e => (List.nodup_cons.1 hn).1 (e ▸ List.mem_cons_self)
    have n1 : (f :: r).Nodup :=
      List.nodup_cons.2 ⟨fun hm => (List.nodup_cons.1 hn).1 (List.mem_cons_of_mem _ hm), (List.nodup_cons.1 n2).2⟩
    simp only [List.length_cons] at h
    exact .more hfs (distT_of_nodup n (f :: r) (by simp only [List.length_cons]; omega) n1)
      (distT_of_nodup n (s :: r) (by simp only [List.length_cons]; omega) n2)

/-- `distinct(l)` ⇔ `l` is a proper list without repetition -/
theorem distT_iff (l : Term) : DistT l ↔ ∃ xs : List Term, l = ofList xs ∧ xs.Nodup := by
  constructor
  · intro h
    induction h with
    | nil => exact ⟨[], rfl, List.nodup_nil⟩
    | one a => exact ⟨[a], rfl, by simp⟩
    | @more f s r hne _ _ ih1 ih2 =>
      obtain ⟨xs1, e1, n1⟩ := ih1
      obtain ⟨xs2, e2, n2⟩ := ih2
      cases xs1 with
      | nil => cases e1
      | cons a1 r1 =>
        cases xs2 with
        | nil => cases e2
        | cons a2 r2 =>
          simp only [ofList, Term.cons.injEq] at e1 e2
          obtain ⟨rfl, er1⟩ := e1
          obtain ⟨rfl, er2⟩ := e2
          have : r1 = r2 := ofListT_inj _ _ (er1.symm.trans er2)
          subst this
          refine ⟨f :: s :: r1, by simp [ofList, er1], ?_⟩
          rw [List.nodup_cons] at n1 n2 ⊢
          refine ⟨fun hm => ?_, List.nodup_cons.2 n2⟩
          rcases List.mem_cons.1 hm with e | hm
          · exact hne e
          · exact n1.1 hm
  · rintro ⟨xs, rfl, hn⟩
    exact distT_of_nodup xs.length xs (Nat.le_refl _) hn

/-- `permute(xl, yl)` holds for every permutation `yl` of a proper list `xl` … -/
theorem permT_of_perm : ∀ (xs ys : List Term), xs.Perm ys → PermT (ofList xs) (ofList ys)
  | [], ys, h => by rw [List.nil_perm.1 h]; exact .nil
  | x :: xs, ys, h => by
    have hx : x ∈ ys := h.subset List.mem_cons_self
    have h' : xs.Perm (ys.erase x) := (List.cons_perm_iff_perm_erase.1 h).2
    exact .cons (permT_of_perm xs (ys.erase x) h') ((remT_ofList x ys _).2 rfl)

/-- … but, as the clauses are written, not only for those (KNOWN FINDING D20): `rember` succeeds when the element
    is absent, so `permute([1, 2], [2])` holds -/
theorem permT_sublist_witness : PermT (ofList [Term.num 1, Term.num 2]) (ofList [Term.num 2]) :=
  .cons (ys := ofList [Term.num 2]) (.cons (ys := .nil) .nil (.hit _ _)) (.skip (by decide) (.nil _))

end Pv
