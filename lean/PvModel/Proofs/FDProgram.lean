/-
  PROGRAMS: constraint atoms combined by conjunction, `conde` and `fresh`, run by the search engine.
  The engine terminates, and the states it delivers are exactly the states of the program's PATHS (one
  clause chosen at every `conde`): every delivered state describes exactly the solutions of one path,
  and every solution of every path is described by a delivered state.
-/
import PvModel.Proofs.FDExact
import PvModel.Proofs.Stream
import PvModel.Model.Goals
namespace Pv
open State Term FD Goal
variable [Mode]

/-- constraint programs -/
inductive FProg where
  | succeed
  | fail
  | atom (a : FAtom)
  | conj (p q : FProg)
  | alt (p q : FProg)
  | fresh (p : FProg)

namespace FProg

/-- the goal the program denotes: atoms are the goals of Model/Goals.lean (`eqG`, `diseqG`, `cstG`, `domG`) -/
def goal (ord : Order) : FProg → G
  | succeed => .succeed
  | fail => .fail
  | atom a => .atom (liftRes fun st => postF ord st a)
  | conj p q => .conj (goal ord p) (goal ord q)
  | alt p q => .alt (goal ord p) (goal ord q)
  | fresh p => .fresh (goal ord p)

/-- the atoms are exactly the goal builders of the model -/
theorem goal_atoms (ord : Order) :
    (∀ u v, goal ord (atom (.eq u v)) = eqG ord u v) ∧ (∀ u v, goal ord (atom (.neq u v)) = diseqG ord u v) ∧
    (∀ c, goal ord (atom (.cst c)) = cstG ord c) ∧ (∀ x d, goal ord (atom (.dom x d)) = domG ord x d) :=
  ⟨fun _ _ => rfl, fun _ _ => rfl, fun _ => rfl, fun _ _ => rfl⟩

/-- the paths: one clause chosen at every disjunction -/
def paths : FProg → List (List FAtom)
  | succeed => [[]]
  | fail => []
  | atom a => [[a]]
  | conj p q => (paths p).flatMap fun x => (paths q).map fun y => x ++ y
  | alt p q => paths p ++ paths q
  | fresh p => paths p

def OK : FProg → Prop
  | atom a => a.OK
  | conj p q => OK p ∧ OK q
  | alt p q => OK p ∧ OK q
  | fresh p => OK p
  | _ => True

def size : FProg → Nat
  | conj p q => size p + size q + 1
  | alt p q => size p + size q + 1
  | fresh p => size p + 1
  | _ => 1

theorem paths_ok : ∀ (p : FProg), OK p → ∀ path ∈ paths p, ∀ a ∈ path, a.OK
  | succeed, _, path, hp, a, ha => by simp [paths] at hp; subst hp; cases ha
  | fail, _, path, hp, _, _ => by simp [paths] at hp
  | atom b, h, path, hp, a, ha => by
    simp [paths] at hp; subst hp; simp at ha; subst ha; exact h
  | conj p q, h, path, hp, a, ha => by
    simp only [paths, List.mem_flatMap, List.mem_map] at hp
    obtain ⟨x, hx, y, hy, rfl⟩ := hp
    rcases List.mem_append.1 ha with h1 | h1
    · exact paths_ok p h.1 x hx a h1
    · exact paths_ok q h.2 y hy a h1
  | alt p q, h, path, hp, a, ha => by
    simp only [paths, List.mem_append] at hp
    rcases hp with h1 | h1
    · exact paths_ok p h.1 path h1 a ha
    · exact paths_ok q h.2 path h1 a ha
  | fresh p, h, path, hp, a, ha => paths_ok p h path hp a ha

end FProg

/-! ### the state machine never touches the poison flag -/

theorem postF_pan (ord : Order) {st st' : State} {a : FAtom} (hi : Inv st) (h : postF ord st a = .ok st') :
    st'.panic = st.panic ∧ Inv st' := by
  cases a with
  | eq u v => exact ⟨(unify_step ord hi h).pan, (unify_step ord hi h).inv⟩
  | neq u v => exact ⟨(disunify_step ord hi h).pan, (disunify_step ord hi h).inv⟩
  | cst c => exact ⟨(postCst_step ord hi h).pan, (postCst_step ord hi h).inv⟩
  | dom x d => exact ⟨(domFd_step ord hi h).pan, (domFd_step ord hi h).inv⟩

theorem postAllF_pan (ord : Order) : ∀ (as : List FAtom) {st st' : State}, Inv st →
    postAllF ord st as = .ok st' → st'.panic = st.panic ∧ Inv st'
  | [], st, st', hi, h => by simp only [postAllF, Res.ok.injEq] at h; subst h; exact ⟨rfl, hi⟩
  | a :: as, st, st', hi, h => by
    simp only [postAllF] at h
    obtain ⟨s1, e1, h⟩ := Res.bind_ok h
    obtain ⟨p1, i1⟩ := postF_pan ord hi e1
    obtain ⟨p2, i2⟩ := postAllF_pan ord as i1 h
    exact ⟨p2.trans p1, i2⟩

theorem postAllF_append (ord : Order) : ∀ (x y : List FAtom) (st : State),
    postAllF ord st (x ++ y) = (postAllF ord st x).bind fun s => postAllF ord s y
  | [], y, st => rfl
  | a :: x, y, st => by
    simp only [List.cons_append, postAllF]
    cases postF ord st a with
    | ok s1 => simp only [Res.bind]; exact postAllF_append ord x y s1
    | fail => rfl
    | fuel => rfl
    | panic s => rfl

theorem flatMapM_mem {α β : Type} {f : α → Option (List β)} : ∀ {xs : List α} {zs : List β},
    flatMapM f xs = some zs → ∀ z, z ∈ zs ↔ ∃ x ∈ xs, ∃ ys, f x = some ys ∧ z ∈ ys
  | [], zs, h, z => by simp only [flatMapM, Option.some.injEq] at h; subst h; simp
  | x :: xs, zs, h, z => by
    obtain ⟨ys, ws, h1, h2, rfl⟩ := flatMapM_cons_some h
    rw [List.mem_append, flatMapM_mem h2 z]
    constructor
    · rintro (a | ⟨x', hx', ys', e, hz⟩)
      · exact ⟨x, List.mem_cons_self .., ys, h1, a⟩
      · exact ⟨x', List.mem_cons_of_mem _ hx', ys', e, hz⟩
    · rintro ⟨x', hx', ys', e, hz⟩
      rcases List.mem_cons.1 hx' with rfl | hx'
      · rw [h1] at e; cases e; exact .inl hz
      · exact .inr ⟨x', hx', ys', e, hz⟩

theorem flatMapM_some_of_mem {α β : Type} {f : α → Option (List β)} : ∀ {xs : List α} {zs : List β},
    flatMapM f xs = some zs → ∀ x ∈ xs, ∃ ys, f x = some ys
  | [], _, _, x, hx => by cases hx
  | w :: ws, zs, h, x, hx => by
    obtain ⟨ys, ws', h1, h2, _⟩ := flatMapM_cons_some h
    rcases List.mem_cons.1 hx with rfl | hw
    · exact ⟨ys, h1⟩
    · exact flatMapM_some_of_mem h2 x hw

section Ref
variable (ord : Order) (dfs : Call → State → State × G)

/-- the textbook evaluation of a constraint program always terminates, given fuel above its size -/
theorem evalRef_total : ∀ (p : FProg) (k : Nat) (st : State), ∃ xs, evalRef dfs (p.size + k) (p.goal ord) st = some xs
  | .succeed, k, st => ⟨[st], by simp [FProg.size, FProg.goal, Nat.add_comm 1 k, evalRef]⟩
  | .fail, k, st => ⟨[], by simp [FProg.size, FProg.goal, Nat.add_comm 1 k, evalRef]⟩
  | .atom a, k, st => ⟨(liftRes (fun st => postF ord st a) st).toList, by
      simp only [FProg.size, FProg.goal, Nat.add_comm 1 k, evalRef]⟩
  | .conj p q, k, st => by
    have e : (FProg.conj p q).size + k = (p.size + (q.size + k)) + 1 := by simp [FProg.size]; omega
    rw [e]
    simp only [FProg.goal, evalRef]
    obtain ⟨xs, hx⟩ := evalRef_total p (q.size + k) st
    rw [hx]
    have hq : ∀ s, ∃ ys, evalRef dfs (p.size + (q.size + k)) (q.goal ord) s = some ys := fun s => by
      have := evalRef_total q (p.size + k) s
      rwa [show q.size + (p.size + k) = p.size + (q.size + k) by omega] at this
    clear hx
    induction xs with
    | nil => exact ⟨[], rfl⟩
    | cons x xs ih =>
      obtain ⟨ys, hy⟩ := hq x
      obtain ⟨zs, hz⟩ := ih
      exact ⟨ys ++ zs, by simp only [flatMapM, hy, hz]⟩
  | .alt p q, k, st => by
    have e : (FProg.alt p q).size + k = (p.size + (q.size + k)) + 1 := by simp [FProg.size]; omega
    rw [e]
    simp only [FProg.goal, evalRef]
    obtain ⟨xs, hx⟩ := evalRef_total p (q.size + k) st
    obtain ⟨ys, hy⟩ := evalRef_total q (p.size + k) st
    rw [show q.size + (p.size + k) = p.size + (q.size + k) by omega] at hy
    rw [hx, hy]
    exact ⟨xs ++ ys, rfl⟩
  | .fresh p, k, st => by
    have e : (FProg.fresh p).size + k = (p.size + k) + 1 := by simp [FProg.size]; omega
    rw [e]
    simp only [FProg.goal, evalRef]
    exact evalRef_total p k st

/-- every unpoisoned state of the textbook evaluation is the state of one path -/
theorem evalRef_paths_sound : ∀ (p : FProg) (n : Nat) (st : State) (xs : List State), Inv st →
    evalRef dfs n (p.goal ord) st = some xs → ∀ s ∈ xs, s.panic = none →
    ∃ path ∈ p.paths, postAllF ord st path = .ok s := by
  intro p
  induction p with
  | succeed =>
    intro n st xs _ h s hs _
    cases n with
    | zero => simp [evalRef] at h
    | succ n =>
      simp only [FProg.goal, evalRef, Option.some.injEq] at h
      subst h; simp only [List.mem_singleton] at hs; subst hs
      exact ⟨[], by simp [FProg.paths], rfl⟩
  | fail =>
    intro n st xs _ h s hs _
    cases n with
    | zero => simp [evalRef] at h
    | succ n => simp only [FProg.goal, evalRef, Option.some.injEq] at h; subst h; cases hs
  | atom a =>
    intro n st xs _ h s hs hp
    cases n with
    | zero => simp [evalRef] at h
    | succ n =>
      simp only [FProg.goal, evalRef, Option.some.injEq] at h
      subst h
      simp only [Option.mem_toList] at hs
      unfold liftRes at hs
      split at hs
      · rename_i hpan
        cases hs
        rw [hp] at hpan; cases hpan
      · split at hs
        · rename_i s' e
          cases hs
          exact ⟨[a], by simp [FProg.paths], by simp only [postAllF, e, Res.bind]⟩
        · cases hs
        · cases hs; simp at hp
        · cases hs; simp at hp
  | conj p q ihp ihq =>
    intro n st xs hi h s hs hp
    cases n with
    | zero => simp [evalRef] at h
    | succ n =>
      simp only [FProg.goal, evalRef] at h
      split at h
      · rename_i xs1 e1
        obtain ⟨s1, hs1, ys, ey, hsy⟩ := (flatMapM_mem h s).1 hs
        -- the intermediate state is unpoisoned because the state machine never touches the flag
        have key : s1.panic = none → ∃ path ∈ (FProg.conj p q).paths, postAllF ord st path = .ok s := by
          intro hp1
          obtain ⟨x, hx, ex⟩ := ihp n st xs1 hi e1 s1 hs1 hp1
          have i1 := (postAllF_pan ord x hi ex).2
          obtain ⟨y, hy, ey'⟩ := ihq n s1 ys i1 ey s hsy hp
          refine ⟨x ++ y, ?_, ?_⟩
          · simp only [FProg.paths, List.mem_flatMap, List.mem_map]
            exact ⟨x, hx, y, hy, rfl⟩
          · rw [postAllF_append, ex]; exact ey'
        by_cases hp1 : s1.panic = none
        · exact key hp1
        · -- a poisoned state flows through every later atom unchanged
          exfalso
          have : ∀ (r : FProg) (m : Nat) (t : State) (zs : List State), t.panic ≠ none →
              evalRef dfs m (r.goal ord) t = some zs → ∀ z ∈ zs, z.panic ≠ none := by
            intro r
            induction r with
            | succeed =>
              intro m t zs ht hz z hzm
              cases m with
              | zero => simp [evalRef] at hz
              | succ m => simp only [FProg.goal, evalRef, Option.some.injEq] at hz; subst hz; simp at hzm; subst hzm; exact ht
            | fail =>
              intro m t zs ht hz z hzm
              cases m with
              | zero => simp [evalRef] at hz
              | succ m => simp only [FProg.goal, evalRef, Option.some.injEq] at hz; subst hz; cases hzm
            | atom b =>
              intro m t zs ht hz z hzm
              cases m with
              | zero => simp [evalRef] at hz
              | succ m =>
                simp only [FProg.goal, evalRef, Option.some.injEq] at hz; subst hz
                simp only [Option.mem_toList, Option.mem_def] at hzm
                unfold liftRes at hzm
                have : t.panic.isSome = true := by
                  cases h' : t.panic with
                  | none => exact absurd h' ht
                  | some _ => rfl
                simp only [this, if_true, Option.some.injEq] at hzm
                subst hzm; exact ht
            | conj r1 r2 i1 i2 =>
              intro m t zs ht hz z hzm
              cases m with
              | zero => simp [evalRef] at hz
              | succ m =>
                simp only [FProg.goal, evalRef] at hz
                split at hz
                · rename_i ws ew
                  obtain ⟨w, hw, vs, ev, hzv⟩ := (flatMapM_mem hz z).1 hzm
                  exact i2 m w vs (i1 m t ws ht ew w hw) ev z hzv
                · cases hz
            | alt r1 r2 i1 i2 =>
              intro m t zs ht hz z hzm
              cases m with
              | zero => simp [evalRef] at hz
              | succ m =>
                simp only [FProg.goal, evalRef] at hz
                split at hz
                · rename_i a1 a2 e1' e2'
                  simp only [Option.some.injEq] at hz; subst hz
                  rcases List.mem_append.1 hzm with h' | h'
                  · exact i1 m t a1 ht e1' z h'
                  · exact i2 m t a2 ht e2' z h'
                · cases hz
            | fresh r i1 =>
              intro m t zs ht hz z hzm
              cases m with
              | zero => simp [evalRef] at hz
              | succ m => simp only [FProg.goal, evalRef] at hz; exact i1 m t zs ht hz z hzm
          exact this q n s1 ys hp1 ey s hsy hp
      · cases h
  | alt p q ihp ihq =>
    intro n st xs hi h s hs hp
    cases n with
    | zero => simp [evalRef] at h
    | succ n =>
      simp only [FProg.goal, evalRef] at h
      split at h
      · rename_i a1 a2 e1 e2
        simp only [Option.some.injEq] at h; subst h
        rcases List.mem_append.1 hs with h' | h'
        · obtain ⟨x, hx, ex⟩ := ihp n st a1 hi e1 s h' hp
          exact ⟨x, by simp [FProg.paths, hx], ex⟩
        · obtain ⟨x, hx, ex⟩ := ihq n st a2 hi e2 s h' hp
          exact ⟨x, by simp [FProg.paths, hx], ex⟩
      · cases h
  | fresh p ih =>
    intro n st xs hi h s hs hp
    cases n with
    | zero => simp [evalRef] at h
    | succ n => simp only [FProg.goal, evalRef] at h; exact ih n st xs hi h s hs hp

/-- every path that runs to a state contributes that state to the textbook evaluation -/
theorem evalRef_paths_complete : ∀ (p : FProg) (n : Nat) (st : State) (xs : List State), Inv st → st.panic = none →
    evalRef dfs n (p.goal ord) st = some xs → ∀ path ∈ p.paths, ∀ s, postAllF ord st path = .ok s → s ∈ xs := by
  intro p
  induction p with
  | succeed =>
    intro n st xs _ _ h path hpth s hs
    cases n with
    | zero => simp [evalRef] at h
    | succ n =>
      simp only [FProg.goal, evalRef, Option.some.injEq] at h; subst h
      simp only [FProg.paths, List.mem_singleton] at hpth; subst hpth
      simp only [postAllF, Res.ok.injEq] at hs; subst hs; simp
  | fail => intro n st xs _ _ h path hpth; simp [FProg.paths] at hpth
  | atom a =>
    intro n st xs _ hpn h path hpth s hs
    cases n with
    | zero => simp [evalRef] at h
    | succ n =>
      simp only [FProg.goal, evalRef, Option.some.injEq] at h; subst h
      simp only [FProg.paths, List.mem_singleton] at hpth; subst hpth
      simp only [postAllF] at hs
      obtain ⟨s1, e1, hs⟩ := Res.bind_ok hs
      cases hs
      simp only [Option.mem_toList, liftRes, hpn, Option.isSome_none, Bool.false_eq_true, if_false, e1]
  | conj p q ihp ihq =>
    intro n st xs hi hpn h path hpth s hs
    cases n with
    | zero => simp [evalRef] at h
    | succ n =>
      simp only [FProg.goal, evalRef] at h
      split at h
      · rename_i xs1 e1
        simp only [FProg.paths, List.mem_flatMap, List.mem_map] at hpth
        obtain ⟨x, hx, y, hy, rfl⟩ := hpth
        rw [postAllF_append] at hs
        obtain ⟨s1, ex, ey⟩ := Res.bind_ok hs
        have hs1 : s1 ∈ xs1 := ihp n st xs1 hi hpn e1 x hx s1 ex
        obtain ⟨p1, i1⟩ := postAllF_pan ord x hi ex
        -- the evaluation of q from s1 is one of the summands
        have : ∃ ys, evalRef dfs n (q.goal ord) s1 = some ys := flatMapM_some_of_mem h s1 hs1
        obtain ⟨ys, eys⟩ := this
        exact (flatMapM_mem h s).2 ⟨s1, hs1, ys, eys, ihq n s1 ys i1 (p1.trans hpn) eys y hy s ey⟩
      · cases h
  | alt p q ihp ihq =>
    intro n st xs hi hpn h path hpth s hs
    cases n with
    | zero => simp [evalRef] at h
    | succ n =>
      simp only [FProg.goal, evalRef] at h
      split at h
      · rename_i a1 a2 e1 e2
        simp only [Option.some.injEq] at h; subst h
        simp only [FProg.paths, List.mem_append] at hpth
        rcases hpth with h' | h'
        · exact List.mem_append.2 (.inl (ihp n st a1 hi hpn e1 path h' s hs))
        · exact List.mem_append.2 (.inr (ihq n st a2 hi hpn e2 path h' s hs))
      · cases h
  | fresh p ih =>
    intro n st xs hi hpn h path hpth s hs
    cases n with
    | zero => simp [evalRef] at h
    | succ n => simp only [FProg.goal, evalRef] at h; exact ih n st xs hi hpn h path hpth s hs

end Ref
end Pv

namespace Pv
open State Term FD Goal
variable [Mode]

/-- PROGRAMS ON THE ENGINE: for every constraint program (atoms of the fragment under conjunction, conde
    and fresh) the interleaving search terminates, and the list `ys` of states it delivers satisfies:
    (1) every unpoisoned delivered state describes EXACTLY the solutions of one path of the program;
    (2) every solution of every path is described by a delivered state (unless that path's own run ran out
        of the model's unification fuel, which the driver reports as FUEL).
    Any hash-iteration order, any solver nesting level. -/
theorem fd_program {ord : Order} (ho : OrderOK ord) (dfs : Call → State → State × G) (pf M nv : Nat)
    (p : FProg) (hok : p.OK) :
    ∃ k ys, drainF (solveAt dfs pf (M + 1)) k (solveAt dfs pf (M + 1) (p.goal ord) (State.empty nv)) = some ys ∧
      runF (solveAt dfs pf (M + 1)) k (solveAt dfs pf (M + 1) (p.goal ord) (State.empty nv)) = ys ∧
      (∀ s ∈ ys, s.panic = none → ∃ path ∈ p.paths, ∀ γ, Sem NoI γ s ↔ ∀ a ∈ path, a.Sat γ) ∧
      (∀ path ∈ p.paths, ∀ γ, (∀ a ∈ path, a.Sat γ) → postAllF ord (State.empty nv) path ≠ .fuel →
        ∃ s ∈ ys, Sem NoI γ s) := by
  obtain ⟨xs, hx⟩ := evalRef_total ord dfs p 0 (State.empty nv)
  obtain ⟨zs, hz, pz⟩ := ref_perm dfs pf M _ _ _ _ hx M
  obtain ⟨k, ys, hd, py⟩ := drain_perm _ (topOK_solveAt dfs pf M) hz
  have hmem : ∀ s, s ∈ ys ↔ s ∈ xs := fun s => (pz.trans py).mem_iff.symm
  refine ⟨k, ys, hd, drain_run _ k _ ys hd, fun s hs hp => ?_, fun path hpth γ hγ hnf => ?_⟩
  · obtain ⟨path, hpth, hpost⟩ :=
      evalRef_paths_sound ord dfs p _ _ xs (inv_empty nv) hx s ((hmem s).1 hs) hp
    exact ⟨path, hpth, fun γ => fd_exact_ok ho nv path (FProg.paths_ok p hok path hpth) s hpost γ⟩
  · have hokp := FProg.paths_ok p hok path hpth
    cases hpost : postAllF ord (State.empty nv) path with
    | ok s =>
      have := evalRef_paths_complete ord dfs p _ _ xs (inv_empty nv) rfl hx path hpth s hpost
      exact ⟨s, (hmem s).2 this, (fd_exact_ok ho nv path hokp s hpost γ).2 hγ⟩
    | fail => exact absurd ⟨γ, hγ⟩ (fd_exact_fail ho nv path hokp hpost)
    | fuel => exact absurd hpost hnf
    | panic s => exact absurd ⟨γ, hγ⟩ (fd_panic_refuted ho nv path hokp s hpost).2.2

end Pv
