/-
  Whole conjunctions of CLP(FD) / CLP(Z) / tree atoms: the state reached by posting ANY list of atoms, in
  any order, under any hash-iteration order of the stores, describes EXACTLY the valuations that satisfy
  every posted atom — propagation (interval narrowing, the re-entrant run_constraints loop, singleton
  domains turned into bindings, the finite-domain extension of unification) loses no solution and admits
  no non-solution; a failure means there is no solution.
  Fragment: every constraint kind except `distinctfd` (whose worker constraint is outside `WFS`).
-/
import PvModel.Proofs.FDTop
namespace Pv
open State Term FD
variable [Mode]

/-- the atoms of a constraint program -/
inductive FAtom where
  | eq (u v : Term)
  | neq (u v : Term)
  | cst (c : Cst)
  | dom (x : Term) (d : FD)

/-- meaning of an atom under a valuation -/
def FAtom.Sat (γ : Subst) : FAtom → Prop
  | .eq u v => apply γ u = apply γ v
  | .neq u v => apply γ u ≠ apply γ v
  | .cst c => CstSem γ c
  | .dom x d => InDom x d γ

/-- the atoms the theorems cover: constraints admissible in the mode (`distinctfd` only in the lax mode, and
    on a proper list term), well-formed (non-empty, strictly sorted) domains -/
def FAtom.OK : FAtom → Prop
  | .cst c => CstOK c
  | .dom _ d => WF d
  | _ => True

/-- posting one atom -/
def postF (ord : Order) (st : State) : FAtom → Res State
  | .eq u v => st.unify ord u v
  | .neq u v => st.disunify ord u v
  | .cst c => st.postCst ord c
  | .dom x d => st.domFd ord x d

/-- posting a list of atoms in order -/
def postAllF (ord : Order) : State → List FAtom → Res State
  | st, [] => .ok st
  | st, a :: as => (postF ord st a).bind fun st' => postAllF ord st' as

theorem iok_noI (st : State) : IOK NoI st := fun _ h => h

theorem postF_sem {ord : Order} (ho : OrderOK ord) {st : State} (w : WFS st) (hi : Inv st) (a : FAtom) (hok : a.OK) :
    Ref0 NoI (fun γ => a.Sat γ) st (postF ord st a) := by
  cases a with
  | eq u v => exact unify_sem ho (iok_noI st) w hi u v
  | neq u v => exact disunify_sem ho w hi u v
  | cst c => exact postCst_sem ho (iok_noI st) w hi c hok
  | dom x d => exact domFd_sem ho (iok_noI st) w hi x d hok

theorem postAllF_sem {ord : Order} (ho : OrderOK ord) : ∀ (as : List FAtom) (st : State), WFS st → Inv st →
    (∀ a ∈ as, a.OK) → Ref0 NoI (fun γ => ∀ a ∈ as, a.Sat γ) st (postAllF ord st as)
  | [], st, w, hi, _ => ⟨w, hi, fun γ => ⟨fun h => ⟨h, fun _ h => nomatch h⟩, fun h => h.1⟩⟩
  | a :: as, st, w, hi, hok => by
    simp only [postAllF]
    have h1 := postF_sem ho w hi a (hok a (List.mem_cons_self ..))
    cases hp : postF ord st a with
    | ok s1 =>
      rw [hp] at h1
      obtain ⟨w1, i1, sem1⟩ := h1
      have ih := postAllF_sem ho as s1 w1 i1 fun b hb => hok b (List.mem_cons_of_mem _ hb)
      simp only [Res.bind]
      cases hq : postAllF ord s1 as with
      | ok s2 =>
        rw [hq] at ih
        refine ⟨ih.1, ih.2.1, fun γ => ?_⟩
        rw [ih.2.2 γ, sem1 γ]
        constructor
        · rintro ⟨⟨a1, a2⟩, a3⟩
          exact ⟨a1, fun b hb => by
            rcases List.mem_cons.1 hb with rfl | hb
            · exact a2
            · exact a3 b hb⟩
        · rintro ⟨a1, a2⟩
          exact ⟨⟨a1, a2 a (List.mem_cons_self ..)⟩, fun b hb => a2 b (List.mem_cons_of_mem _ hb)⟩
      | fail =>
        rw [hq] at ih
        intro γ ⟨a1, a2⟩
        exact ih γ ⟨(sem1 γ).2 ⟨a1, a2 a (List.mem_cons_self ..)⟩, fun b hb => a2 b (List.mem_cons_of_mem _ hb)⟩
      | fuel => trivial
      | panic s =>
        rw [hq] at ih
        exact ⟨ih.1, ih.2.1, fun γ ⟨a1, a2⟩ =>
          ih.2.2 γ ⟨(sem1 γ).2 ⟨a1, a2 a (List.mem_cons_self ..)⟩, fun b hb => a2 b (List.mem_cons_of_mem _ hb)⟩⟩
    | fail =>
      rw [hp] at h1
      simp only [Res.bind]
      intro γ ⟨a1, a2⟩
      exact h1 γ ⟨a1, a2 a (List.mem_cons_self ..)⟩
    | fuel => trivial
    | panic s =>
      rw [hp] at h1
      exact ⟨h1.1, h1.2.1, fun γ ⟨a1, a2⟩ => h1.2.2 γ ⟨a1, a2 a (List.mem_cons_self ..)⟩⟩

/-- EXACTNESS from the empty state: the state after the whole conjunction describes exactly its solutions -/
theorem fd_exact_ok {ord : Order} (ho : OrderOK ord) (n : Nat) (as : List FAtom) (hok : ∀ a ∈ as, a.OK)
    (st' : State) (h : postAllF ord (State.empty n) as = .ok st') (γ : Subst) :
    Sem NoI γ st' ↔ ∀ a ∈ as, a.Sat γ := by
  have r := postAllF_sem ho as (State.empty n) (wfs_empty n) (inv_empty n) hok
  rw [h] at r
  rw [r.2.2 γ]
  exact ⟨fun a => a.2, fun a => ⟨sem_empty n γ, a⟩⟩

/-- a failing conjunction has no solution -/
theorem fd_exact_fail {ord : Order} (ho : OrderOK ord) (n : Nat) (as : List FAtom) (hok : ∀ a ∈ as, a.OK)
    (h : postAllF ord (State.empty n) as = .fail) : ¬ ∃ γ, ∀ a ∈ as, a.Sat γ := by
  have r := postAllF_sem ho as (State.empty n) (wfs_empty n) (inv_empty n) hok
  rw [h] at r
  rintro ⟨γ, hγ⟩
  exact r γ ⟨sem_empty n γ, hγ⟩

/-- ORDER FREEDOM: two runs of the same atoms — in any two posting orders, under any two hash-iteration
    orders — describe the same valuations; if one of them fails, the other describes none -/
theorem fd_order_free {ord ord' : Order} (ho : OrderOK ord) (ho' : OrderOK ord') (n : Nat)
    (as as' : List FAtom) (hp : as.Perm as') (hok : ∀ a ∈ as, a.OK) :
    (∀ st1 st2, postAllF ord (State.empty n) as = .ok st1 → postAllF ord' (State.empty n) as' = .ok st2 →
      ∀ γ, Sem NoI γ st1 ↔ Sem NoI γ st2) ∧
    (∀ st1, postAllF ord (State.empty n) as = .ok st1 → postAllF ord' (State.empty n) as' = .fail →
      ∀ γ, ¬ Sem NoI γ st1) := by
  have hok' : ∀ a ∈ as', a.OK := fun a ha => hok a (hp.mem_iff.2 ha)
  constructor
  · intro st1 st2 h1 h2 γ
    rw [fd_exact_ok ho n as hok st1 h1, fd_exact_ok ho' n as' hok' st2 h2]
    exact ⟨fun h a ha => h a (hp.mem_iff.2 ha), fun h a ha => h a (hp.mem_iff.1 ha)⟩
  · intro st1 h1 h2 γ hs
    exact fd_exact_fail ho' n as' hok' h2 ⟨γ, fun a ha => (fd_exact_ok ho n as hok st1 h1 γ).1 hs a (hp.mem_iff.2 ha)⟩

/-- a panic stands for a failure: it is reachable only in the lax mode, only at a panic site of `distinctfd`,
    and only when the atoms have no solution -/
theorem fd_panic_refuted {ord : Order} (ho : OrderOK ord) (n : Nat) (as : List FAtom) (hok : ∀ a ∈ as, a.OK) (s : String)
    (h : postAllF ord (State.empty n) as = .panic s) : Mode.allow ∧ DP s ∧ ¬ ∃ γ, ∀ a ∈ as, a.Sat γ := by
  have r := postAllF_sem ho as (State.empty n) (wfs_empty n) (inv_empty n) hok
  rw [h] at r
  exact ⟨r.1, r.2.1, fun ⟨γ, hγ⟩ => r.2.2 γ ⟨sem_empty n γ, hγ⟩⟩

omit [Mode] in
/-- NO PANIC: posting any list of atoms WITHOUT `distinctfd` never reaches a panic site of the state machine
    (`fd-minmax`: min/max of an empty domain — unreachable because stored domains stay well-formed) -/
theorem fd_no_panic {ord : Order} (ho : OrderOK ord) (n : Nat) (as : List FAtom)
    (hok : ∀ a ∈ as, @FAtom.OK Mode.strict a) (s : String) :
    postAllF ord (State.empty n) as ≠ .panic s := by
  intro h
  exact (@fd_panic_refuted Mode.strict ord ho n as hok s h).1

/-- a state with nothing pending describes its own substitution: the answer itself satisfies every atom -/
theorem fd_closed {ord : Order} (ho : OrderOK ord) (n : Nat) (as : List FAtom) (hok : ∀ a ∈ as, a.OK)
    (st' : State) (h : postAllF ord (State.empty n) as = .ok st') (hs : st'.store = []) (hd : st'.dstore = []) :
    ∀ a ∈ as, a.Sat st'.σ := by
  have r := postAllF_sem ho as (State.empty n) (wfs_empty n) (inv_empty n) hok
  rw [h] at r
  have : Sem NoI st'.σ st' := ⟨Ext.refl _ r.1.solved, by rw [hs]; simp, by unfold DomSem; rw [hd]; simp⟩
  exact ((r.2.2 _).1 this).2

end Pv
