/-
  The ANSWER SEQUENCE of a `==`/`!=` program does not depend on the hash-iteration order: instance of the
  parametricity theorem (Proofs/Param.lean) with the relation "same substitution, same described valuations".
-/
import PvModel.Proofs.Param
import PvModel.Proofs.DiseqNF
import PvModel.Proofs.FDProgram
namespace Pv
open Strm Goal

/-- two states the search may hold at the same position under two iteration orders -/
structure TR (st st' : State) : Prop where
  good : Good st
  good' : Good st'
  dnf : DNF st
  dnf' : DNF st'
  sig : st.σ = st'.σ
  sem : ∀ γ, StateSem γ st ↔ StateSem γ st'

/-- poisoned: the model ran out of unification fuel (the driver reports FUEL) -/
def Poisoned (st : State) : Prop := st.panic.isSome = true

/-- the substitution after posting an atom is a function of the substitution before -/
def sigOf (σ : Subst) : TAtom → Subst
  | .eq u v => match unifyF unifyFuel σ [] u v with
    | some (some (σ', _)) => σ'
    | _ => σ
  | .neq _ _ => σ

theorem postAtom_sig {ord : Order} (ho : OrderOK ord) {st st' : State} (a : TAtom) (hg : Good st)
    (hres : postAtom ord st a = .ok st') : st'.σ = sigOf st.σ a := by
  obtain ⟨hs, ht, hi⟩ := hg
  cases a with
  | neq u v => exact ((disunify_spec ho hs ht hi u v).1 st' hres).sig
  | eq u v =>
    simp only [postAtom] at hres
    unfold State.unify at hres
    simp only [sigOf]
    cases hu : unifyF unifyFuel st.σ [] u v with
    | none => rw [hu] at hres; cases hres
    | some r =>
      cases r with
      | none => rw [hu] at hres; cases hres
      | some q =>
        obtain ⟨σ', e⟩ := q
        rw [hu] at hres
        simp only [] at hres ⊢
        obtain ⟨s', _, _⟩ := unifyF_sound _ _ _ _ _ _ _ hs hu
        generalize hst1 : ({ st with σ := σ' } : State) = st1 at hres
        have hσ1 : st1.σ = σ' := by subst hst1; rfl
        have ht1 : TreeOnly st1 := by subst hst1; exact ht
        have hi1 : IdsOK st1 := by subst hst1; exact hi
        have hs1 : Solved st1.σ := by rw [hσ1]; exact s'
        unfold State.processExtension at hres
        obtain ⟨lok, _, _⟩ := loop_spec (State.runConstraintsF ord State.rcFuel) ho (ord.cs st1.store) st1 hs1 ht1 hi1
        cases hl : State.runConstraintsF ord (State.rcFuel + 1) st1 with
        | ok st2 =>
          have a := lok st2 (by rw [← runConstraintsF_succ]; exact hl)
          rw [hl] at hres
          simp only [Res.bind, processExtensionFd_tree ord st2 e a.tree.2, Res.ok.injEq] at hres
          subst hres
          rw [a.sig, hσ1]
        | fail => rw [hl] at hres; cases hres
        | fuel => rw [hl] at hres; cases hres
        | panic s => rw [hl] at hres; cases hres

theorem atomPass (f : State → Res State) : AtomPass Poisoned (liftRes f) := by
  intro a ha
  unfold Poisoned at ha
  simp [liftRes, ha]

/-- posting the same atom on related states under two iteration orders: both fail, or both succeed with related
    states, or one of them is (or becomes) poisoned -/
theorem atom_rel {ord ord' : Order} (ho : OrderOK ord) (ho' : OrderOK ord') (a : TAtom) :
    AtomRel TR Poisoned (liftRes fun st => postAtom ord st a) (liftRes fun st => postAtom ord' st a) := by
  intro st st' ⟨hg, hg', hd, hd', hσ, hsem⟩
  cases hp : st.panic.isSome with
  | true => exact .inr ⟨st, hp, .inl (atomPass _ st hp)⟩
  | false =>
  cases hp' : st'.panic.isSome with
  | true => exact .inr ⟨st', hp', .inr (atomPass _ st' hp')⟩
  | false =>
  have noc : ∀ {s1 : State} {o o' : Order} {t t' : State}, OrderOK o → OrderOK o' → Good t → Good t' → DNF t →
      (∀ γ, StateSem γ t ↔ StateSem γ t') → postAtom o t a = .ok s1 → postAtom o' t' a = .fail → False := by
    intro s1 o o' t t' h h' g g' d sm h1 h2
    obtain ⟨g1, sem1⟩ := postAtom_ok o h t s1 a g h1
    obtain ⟨γ, hγ, _⟩ := dnf_sat g1.1 (postAtom_dnf h a g d h1)
    have := (sem1 γ).1 hγ
    exact postAtom_fail o' h' t' a g' h2 γ ⟨(sm γ).1 this.1, this.2⟩
  simp only [liftRes, hp, hp', Bool.false_eq_true, if_false]
  cases h1 : postAtom ord st a with
  | panic s => exact absurd h1 (postAtom_no_panic ord ho st a hg s)
  | fuel => exact .inr ⟨_, (rfl : Poisoned { st with panic := some "FUEL" }), .inl rfl⟩
  | ok s1 =>
    cases h2 : postAtom ord' st' a with
    | panic s => exact absurd h2 (postAtom_no_panic ord' ho' st' a hg' s)
    | fuel => exact .inr ⟨_, (rfl : Poisoned { st' with panic := some "FUEL" }), .inr rfl⟩
    | fail => exact (noc ho ho' hg hg' hd hsem h1 h2).elim
    | ok s2 =>
      obtain ⟨g1, sem1⟩ := postAtom_ok ord ho st s1 a hg h1
      obtain ⟨g2, sem2⟩ := postAtom_ok ord' ho' st' s2 a hg' h2
      refine .inl (.some ⟨g1, g2, postAtom_dnf ho a hg hd h1, postAtom_dnf ho' a hg' hd' h2, ?_, fun γ => ?_⟩)
      · rw [postAtom_sig ho a hg h1, postAtom_sig ho' a hg' h2, hσ]
      · rw [sem1, sem2, hsem]
  | fail =>
    cases h2 : postAtom ord' st' a with
    | panic s => exact absurd h2 (postAtom_no_panic ord' ho' st' a hg' s)
    | fuel => exact .inr ⟨_, (rfl : Poisoned { st' with panic := some "FUEL" }), .inr rfl⟩
    | fail => exact .inl .none
    | ok s2 => exact (noc ho' ho hg' hg hd' (fun γ => (hsem γ).symm) h2 h1).elim

/-- programs of `==`, `!=`, conjunction, `conde` and fresh, without a literal `fail` goal -/
def FProg.TreeNF : FProg → Prop
  | .atom (.eq _ _) => True
  | .atom (.neq _ _) => True
  | .atom _ => False
  | .conj p q => p.TreeNF ∧ q.TreeNF
  | .alt p q => p.TreeNF ∧ q.TreeNF
  | .fresh p => p.TreeNF
  | .succeed => True
  | .fail => False

theorem goal_rel {ord ord' : Order} (ho : OrderOK ord) (ho' : OrderOK ord') :
    ∀ (p : FProg), p.TreeNF → GRel (K := Call) TR Poisoned (p.goal ord) (p.goal ord')
  | .succeed, _ => .succeed
  | .fail, h => h.elim
  | .atom (.eq u v), _ => .atom (atom_rel ho ho' (.eq u v)) (atomPass _) (atomPass _)
  | .atom (.neq u v), _ => .atom (atom_rel ho ho' (.neq u v)) (atomPass _) (atomPass _)
  | .atom (.cst _), h => h.elim
  | .atom (.dom _ _), h => h.elim
  | .conj p q, h => .conj (goal_rel ho ho' p h.1) (goal_rel ho ho' q h.2)
  | .alt p q, h => .alt (goal_rel ho ho' p h.1) (goal_rel ho ho' q h.2)
  | .fresh p, h => .fresh (goal_rel ho ho' p h)

theorem tr_empty (n : Nat) : TR (State.empty n) (State.empty n) :=
  ⟨good_empty n, good_empty n, (fun q hq => nomatch hq), (fun q hq => nomatch hq), rfl, fun _ => Iff.rfl⟩

/-! ### exhausted streams -/

section Drain
variable {St K : Type} {top : Goal St K → St → Strm St K}

theorem drain_mono : ∀ (n k : Nat) (s : Strm St K) (ys : List St), drainF top n s = some ys →
    drainF top (n + k) s = some ys
  | 0, _, _, _, h => by simp [drainF] at h
  | n + 1, k, s, ys, h => by
    rw [Nat.add_right_comm]
    cases s with
    | empty => simpa [drainF] using h
    | unit a => simpa [drainF] using h
    | cons a l =>
      simp only [drainF, Option.map_eq_some_iff] at h ⊢
      obtain ⟨zs, hz, rfl⟩ := h
      exact ⟨zs, drain_mono n k _ _ hz, rfl⟩
    | lazy l =>
      simp only [drainF] at h ⊢
      exact drain_mono n k _ _ h

theorem drain_complete (hT : TopOK top) : ∀ (n : Nat) (s : Strm St K) (ys : List St), drainF top n s = some ys →
    ∀ a, MemS top a s → a ∈ ys
  | 0, _, _, h => by simp [drainF] at h
  | n + 1, s, ys, h => by
    intro a ha
    cases s with
    | empty => exact (memS_empty ha).elim
    | unit b =>
      simp only [drainF, Option.some.injEq] at h
      subst h
      exact List.mem_singleton.2 (memS_unit_iff.1 ha)
    | cons b l =>
      simp only [drainF, Option.map_eq_some_iff] at h
      obtain ⟨zs, hz, rfl⟩ := h
      rcases memS_cons_iff.1 ha with e | m
      · subst e; exact List.mem_cons_self
      · exact List.mem_cons_of_mem _ (drain_complete hT n _ _ hz a (memS_lazy_iff.2 m))
    | lazy l =>
      simp only [drainF] at h
      exact drain_complete hT n _ _ h a ((step_mem_iff_aux hT _ _).2 (memS_lazy_iff.1 ha))

end Drain

/-- THE ANSWER SEQUENCE IS ORDER-FREE: a program of `==`, `!=`, conjunction, `conde` and fresh (no literal
    `fail`), run by the interleaving engine under two hash-iteration orders — the states delivered within any
    number `n` of engine steps are, position by position, related: the same substitution and the same described
    valuations (so: the same number of answers, in the same order, each with the same reified terms and an
    equivalent constraint set) — unless one of the two runs hit the model's unification fuel, in which case a
    poisoned state is among that run's answers (the driver prints FUEL). -/
theorem tree_sequence_order_free {ord ord' : Order} (ho : OrderOK ord) (ho' : OrderOK ord')
    (dfs dfs' : Call → State → State × G) (pf M nv : Nat) (p : FProg) (hp : p.TreeNF) (n : Nat) :
    Pointwise TR (runF (solveAt dfs pf (M + 1)) n (solveAt dfs pf (M + 1) (p.goal ord) (State.empty nv)))
        (runF (solveAt dfs' pf (M + 1)) n (solveAt dfs' pf (M + 1) (p.goal ord') (State.empty nv))) ∨
      ∃ s, Poisoned s ∧ (MemS (solveAt dfs pf (M + 1)) s (solveAt dfs pf (M + 1) (p.goal ord) (State.empty nv)) ∨
        MemS (solveAt dfs' pf (M + 1)) s (solveAt dfs' pf (M + 1) (p.goal ord') (State.empty nv))) :=
  engine_rel dfs dfs' pf M (goal_rel ho ho' p hp) (tr_empty nv) n

/-- the same for the complete answer lists -/
theorem tree_answers_order_free {ord ord' : Order} (ho : OrderOK ord) (ho' : OrderOK ord')
    (dfs dfs' : Call → State → State × G) (pf M nv : Nat) (p : FProg) (hp : p.TreeNF) (k k' : Nat) (ys ys' : List State)
    (h : drainF (solveAt dfs pf (M + 1)) k (solveAt dfs pf (M + 1) (p.goal ord) (State.empty nv)) = some ys)
    (h' : drainF (solveAt dfs' pf (M + 1)) k' (solveAt dfs' pf (M + 1) (p.goal ord') (State.empty nv)) = some ys') :
    Pointwise TR ys ys' ∨ ∃ s, Poisoned s ∧ (s ∈ ys ∨ s ∈ ys') := by
  have r := drain_run _ _ _ _ (drain_mono k k' _ _ h)
  have r' := drain_run _ _ _ _ (drain_mono k' k _ _ h')
  rw [Nat.add_comm k' k] at r'
  rcases tree_sequence_order_free ho ho' dfs dfs' pf M nv p hp (k + k') with pw | ⟨s, hs, m⟩
  · rw [r, r'] at pw
    exact .inl pw
  · refine .inr ⟨s, hs, ?_⟩
    rcases m with m | m
    · exact .inl (drain_complete (topOK_solveAt dfs pf M) _ _ _ h s m)
    · exact .inr (drain_complete (topOK_solveAt dfs' pf M) _ _ _ h' s m)

end Pv
