/-
  LABELLING GROUNDS THE QUERY TERM.  If every variable of the walked query term has a domain, every state `force_ans(x)`
  delivers binds all of them — to NUMBERS — so `x` is ground in it: all valuations the state describes give `x` the same
  value.  (Generalises `keys_labelled` of Proofs/EnforceKeys.lean from a list of variables to any term.)
-/
import PvModel.Proofs.EnforceKeys
import PvModel.Proofs.LabelSep
import PvModel.Props.C02Decide
namespace Pv
open State Term Goal FD
attribute [local instance] Mode.strict

theorem vars_apply_iterItems (σ : Subst) : ∀ (t : Term) (y : Nat), y ∈ (apply σ t).vars →
    ∃ it ∈ t.iterItems, y ∈ (apply σ it).vars
  | .cons h t, y, hy => by
    rw [iterItems_cons]
    simp only [apply, Term.vars, List.mem_append] at hy
    rcases hy with hy | hy
    · exact ⟨h, List.mem_cons_self, hy⟩
    · obtain ⟨it, hit, hyi⟩ := vars_apply_iterItems σ t y hy
      exact ⟨it, List.mem_cons_of_mem _ hit, hyi⟩
  | .nil, y, hy => by simp [apply, Term.vars] at hy
  | .var x, y, hy => ⟨.var x, by simp [Term.iterItems, Term.listElems], hy⟩
  | .val v, y, hy => by simp [apply, Term.vars] at hy
  | .comp g a, y, hy => ⟨.comp g a, by simp [Term.iterItems, Term.listElems], hy⟩

theorem vars_apply_compFields (σ : Subst) (args : Term) (y : Nat) (hy : y ∈ (apply σ args).vars) :
    ∃ f ∈ compFields args, y ∈ (apply σ f).vars := by
  obtain ⟨it, hit, hyi⟩ := vars_apply_iterItems σ args y hy
  unfold compFields
  cases it with
  | comp g kids =>
    by_cases hg : g = 4
    · subst hg
      simp only [apply, Term.vars] at hyi
      obtain ⟨k, hk, hyk⟩ := vars_apply_iterItems σ kids y hyi
      exact ⟨k, List.mem_flatMap.2 ⟨_, hit, hk⟩, hyk⟩
    · refine ⟨.comp g kids, List.mem_flatMap.2 ⟨_, hit, ?_⟩, hyi⟩
      split
      · rename_i k he; cases he; exact absurd rfl hg
      · exact List.mem_singleton.2 rfl
  | var x => exact ⟨_, List.mem_flatMap.2 ⟨_, hit, List.mem_singleton.2 rfl⟩, hyi⟩
  | val v => exact ⟨_, List.mem_flatMap.2 ⟨_, hit, List.mem_singleton.2 rfl⟩, hyi⟩
  | nil => exact ⟨_, List.mem_flatMap.2 ⟨_, hit, List.mem_singleton.2 rfl⟩, hyi⟩
  | cons a b => exact ⟨_, List.mem_flatMap.2 ⟨_, hit, List.mem_singleton.2 rfl⟩, hyi⟩

/-- an unbound variable of a term survives the substitution -/
theorem mem_vars_apply_unbound {τ : Subst} {y : Nat} (hy : τ y = .var y) : ∀ {u : Term}, y ∈ u.vars → y ∈ (apply τ u).vars
  | .var z, h => by
    simp only [Term.vars, List.mem_singleton] at h; subst h
    simp only [apply, hy, Term.vars, List.mem_singleton]
  | .val v, h => by simp [Term.vars] at h
  | .nil, h => by simp [Term.vars] at h
  | .cons a b, h => by
    simp only [Term.vars, List.mem_append] at h
    simp only [apply, Term.vars, List.mem_append]
    exact h.elim (fun h => .inl (mem_vars_apply_unbound hy h)) (fun h => .inr (mem_vars_apply_unbound hy h))
  | .comp g a, h => by
    simp only [Term.vars] at h
    simp only [apply, Term.vars]
    exact mem_vars_apply_unbound hy h

section
variable {ord : Order} (ho : OrderOK ord) (dfs : Call → State → State × G)
include ho

/-- every variable of the walked term is done in every delivered state -/
def DoneOK (g : G) (x : Term) : Prop :=
  ∀ N s zs, LInv s → s.panic = none → evalRef dfs N g s = some zs → (∀ t ∈ zs, t.panic = none) →
    ∀ t ∈ zs, ∀ y ∈ (apply s.σ x).vars, KeyDone t y

/-- `KeyDone` for the variables of a term moves along a reach: a variable of `apply s.σ u` is, in a state reached from `s`,
    either bound (done) or still a variable of the walked term there -/
theorem done_transfer {s t1 t : State} (hi : LInv s) (r1 : Reach ord s t1) {u : Term} {y : Nat}
    (hy : y ∈ (apply s.σ u).vars) (hdone : ∀ y' ∈ (apply t1.σ u).vars, KeyDone t y') (r2 : Reach ord t1 t) : KeyDone t y := by
  obtain ⟨li1, kn1, _, _⟩ := reach_inv ho hi r1
  obtain ⟨_, kn2, _, _⟩ := reach_inv ho li1 r2
  by_cases hb : t1.σ y = .var y
  · have : y ∈ (apply t1.σ u).vars := by
      have e := kn1.ext u
      rw [← e]
      exact mem_vars_apply_unbound hb hy
    exact hdone y this
  · exact .inl (kn2.bound_mono li1.w.solved hb)

theorem doneOK_forceList (n : Nat) (ih : ∀ x, DoneOK dfs (forceAns ord n x) x) :
    ∀ (fs : List Term) (N : Nat) (s : State) (zs : List State), LInv s → s.panic = none →
      evalRef dfs N (Goal.conjOfList (fs.map (forceAns ord n))) s = some zs → (∀ t ∈ zs, t.panic = none) →
      ∀ t ∈ zs, ∀ f ∈ fs, ∀ y ∈ (apply s.σ f).vars, KeyDone t y
  | [], N, s, zs, _, _, _, _, t, _, f, hf, _, _ => nomatch hf
  | f0 :: fs, N, s, zs, hi, hp, h, hall, t, ht, f, hf, y, hy => by
    have a1 := forceAns_not_succeed (ord := ord) n f0
    have l2 := labelOK_conjOfList dfs (fs.map (forceAns ord n)) (fun g hg => by
      obtain ⟨x, _, rfl⟩ := List.mem_map.1 hg
      exact forceAns_labelOK dfs ho n x)
    have r2ok := reachOK_conjOfList ho dfs (fs.map (forceAns ord n)) (fun g hg => by
      obtain ⟨x, _, rfl⟩ := List.mem_map.1 hg
      exact forceAns_reachOK ho dfs n x)
    have e : Goal.conjOfList ((f0 :: fs).map (forceAns ord n)) =
        .conj (forceAns ord n f0) (Goal.conjOfList (fs.map (forceAns ord n))) := by
      show mkConj _ _ = _
      unfold mkConj
      rw [a1.1, a1.2, l2.2.2]
      rfl
    rw [e] at h
    cases N with
    | zero => simp [evalRef] at h
    | succ N =>
      simp only [evalRef] at h
      cases hx : evalRef dfs N (forceAns ord n f0) s with
      | none => rw [hx] at h; simp at h
      | some xs =>
        rw [hx] at h
        simp only at h
        have hxs : ∀ t ∈ xs, t.panic = none := fun t ht => by
          cases hpt : t.panic with
          | none => rfl
          | some site =>
            obtain ⟨ys, e⟩ := flatMapM_some_of_mem h t ht
            have : t ∈ ys := l2.2.1 N t ys (by rw [hpt]; simp) e
            have := hall t ((flatMapM_mem h t).2 ⟨t, ht, ys, e, this⟩)
            rw [hpt] at this; cases this
        obtain ⟨t1, ht1, ys, ey, hty⟩ := (flatMapM_mem h t).1 ht
        have r1 := (forceAns_reachOK ho dfs n f0).1 N s xs hi hp hx hxs t1 ht1
        obtain ⟨li1, kn1, km1, _⟩ := reach_inv ho hi r1
        have hally : ∀ y ∈ ys, y.panic = none := fun y hy => hall y ((flatMapM_mem h y).2 ⟨t1, ht1, ys, ey, hy⟩)
        have r2 := r2ok.1 N t1 ys li1 (hxs t1 ht1) ey hally t hty
        obtain ⟨_, kn2, km2, _⟩ := reach_inv ho li1 r2
        rcases List.mem_cons.1 hf with rfl | hf'
        · -- done after the first goal, stays done
          have d1 := ih f N s xs hi hp hx hxs t1 ht1 y hy
          exact keyDone_mono li1.w.solved kn2 km2 d1
        · refine done_transfer ho hi r1 hy (fun y' hy' => ?_) r2
          exact doneOK_forceList n ih fs N t1 ys li1 (hxs t1 ht1) ey hally t hty f hf' y' hy'

/-- `force_ans` on ANY term leaves every variable of the walked term done: bound, or without a domain -/
theorem forceAns_doneOK : ∀ (n : Nat) (x : Term), DoneOK dfs (forceAns ord n x) x
  | 0, x => by
    intro N s zs _ hp h hall
    cases N with
    | zero => simp [evalRef] at h
    | succ N =>
      simp only [forceAns, evalRef, liftRes, hp, Option.isSome_none, Bool.false_eq_true, if_false,
        Option.toList_some, Option.some.injEq] at h
      subst h
      have := hall _ (List.mem_singleton.2 rfl)
      simp at this
  | n + 1, x => by
    have ihn := forceAns_doneOK n
    intro N s zs hi hp h hall t ht y hy
    have happ : apply s.σ x = apply s.σ (walk s.σ x) := by
      cases x with
      | var x0 => simp only [apply, walk]; exact (hi.w.solved x0).symm
      | _ => rfl
    rw [happ] at hy
    cases N with
    | zero => simp [evalRef] at h
    | succ N =>
      simp only [forceAns, evalRef, id, hp, Option.isSome_none, Bool.false_eq_true, if_false] at h
      split at h
      · rename_i xv hw
        rw [hw] at hy
        have hxu : s.σ xv = .var xv := walk_normal hi.w.solved x xv hw
        simp only [apply, hxu, Term.vars, List.mem_singleton] at hy
        subst hy
        have := key_labelled ho dfs n (N + 1) y s zs hi hp (.inl hxu)
          (by simp only [forceAns, evalRef, id, hp, Option.isSome_none, Bool.false_eq_true, if_false, walk, hxu]; exact h) hall t ht
        exact this.2
      · rename_i hd' tl hw
        rw [hw] at hy
        simp only [apply, Term.vars, List.mem_append] at hy
        rcases hy with hy | hy
        · exact doneOK_forceList ho dfs n ihn [hd', tl] N s zs hi hp h hall t ht hd' (by simp) y hy
        · exact doneOK_forceList ho dfs n ihn [hd', tl] N s zs hi hp h hall t ht tl (by simp) y hy
      · rename_i tag args hw
        rw [hw] at hy
        simp only [apply, Term.vars] at hy
        obtain ⟨f, hf, hyf⟩ := vars_apply_compFields s.σ args y hy
        exact doneOK_forceList ho dfs n ihn (compFields args) N s zs hi hp h hall t ht f hf y hyf
      · rename_i h1 h2 h3
        exfalso
        cases hw : walk s.σ x with
        | var z => exact h1 z hw
        | cons a b => exact h2 a b hw
        | comp g a => exact h3 g a hw
        | val v => rw [hw] at hy; simp [apply, Term.vars] at hy
        | nil => rw [hw] at hy; simp [apply, Term.vars] at hy

omit ho in
theorem vars_apply_numonly {τ : Subst} : ∀ {u : Term}, (∀ v ∈ u.vars, τ v = .var v ∨ ∃ n, τ v = Term.num n) →
    ∀ y ∈ (apply τ u).vars, y ∈ u.vars ∧ τ y = .var y
  | .var z, h, y, hy => by
    rcases h z (by simp [Term.vars]) with e | ⟨n, e⟩
    · simp only [apply, e, Term.vars, List.mem_singleton] at hy; subst hy; exact ⟨by simp [Term.vars], e⟩
    · simp [apply, e, Term.num, Term.vars] at hy
  | .val v, _, y, hy => by simp [apply, Term.vars] at hy
  | .nil, _, y, hy => by simp [apply, Term.vars] at hy
  | .cons a b, h, y, hy => by
    simp only [apply, Term.vars, List.mem_append] at hy
    simp only [Term.vars, List.mem_append]
    rcases hy with hy | hy
    · obtain ⟨p, q⟩ := vars_apply_numonly (fun v hv => h v (by simp [Term.vars, hv])) y hy; exact ⟨.inl p, q⟩
    · obtain ⟨p, q⟩ := vars_apply_numonly (fun v hv => h v (by simp [Term.vars, hv])) y hy; exact ⟨.inr p, q⟩
  | .comp g a, h, y, hy => by
    simp only [apply, Term.vars] at hy
    simp only [Term.vars]
    exact vars_apply_numonly (fun v hv => h v (by simpa [Term.vars] using hv)) y hy

omit ho in
theorem apply_ground' {γ : Subst} : ∀ {t : Term}, t.vars = [] → apply γ t = t
  | .var z, h => by simp [Term.vars] at h
  | .val v, _ => rfl
  | .nil, _ => rfl
  | .cons a b, h => by
    simp only [Term.vars, List.append_eq_nil_iff] at h
    simp only [apply, apply_ground' h.1, apply_ground' h.2]
  | .comp g a, h => by
    simp only [Term.vars] at h
    simp only [apply, apply_ground' h]

/-- LABELLING GROUNDS THE QUERY TERM: when every variable of the walked query term has a domain, the term is GROUND in every
    delivered block — every valuation the block describes gives it the same value, the block's own -/
theorem blocks_ground (n N : Nat) (x : Term) (s : State) (xs : List State) (hi : LInv s) (hp : s.panic = none)
    (hdom : ∀ y ∈ (apply s.σ x).vars, (s.dget y).isSome)
    (h : evalRef dfs N (forceAns ord n x) s = some xs) (hall : ∀ t ∈ xs, t.panic = none) :
    ∀ c ∈ xs, (apply c.σ x).vars = [] ∧ ∀ γ, Sem NoI γ c → apply γ x = apply c.σ x := by
  intro c hc
  have r := (forceAns_reachOK ho dfs n x).1 N s xs hi hp h hall c hc
  obtain ⟨li, kn, _, _⟩ := reach_inv ho hi r
  have hunb : ∀ v ∈ (apply s.σ x).vars, s.σ v = .var v := normal_vars _ (apply_apply_solved hi.w.solved x)
  have hg : (apply c.σ x).vars = [] := by
    apply List.eq_nil_iff_forall_not_mem.2
    intro y hy
    rw [← kn.ext x] at hy
    obtain ⟨hyv, hyu⟩ := vars_apply_numonly (fun v hv => kn.numonly v (hunb v hv)) y hy
    rcases forceAns_doneOK ho dfs n x N s xs hi hp h hall c hc y hyv with b | b
    · exact b hyu
    · have := kn.dom y (hunb y hyv) hyu (hdom y hyv)
      rw [b] at this; cases this
  refine ⟨hg, fun γ hγ => ?_⟩
  rw [← hγ.1 x]
  exact apply_ground' hg

end
end Pv
