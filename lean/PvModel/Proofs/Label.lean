/-
  Labelling (`force_ans`) on the textbook semantics: from any well-formed state, labelling a term delivers
  states that PARTITION the valuations the state describes — every one of them is described by one delivered
  state and no two delivered states describe a common valuation.
-/
import PvModel.Proofs.FDProgram
namespace Pv
open State Term Goal FD

variable [Mode]

/-- two states describe no common valuation -/
def Dis (a b : State) : Prop := ∀ γ, ¬ (Sem NoI γ a ∧ Sem NoI γ b)

theorem Dis.symm {a b : State} (h : Dis a b) : Dis b a := fun γ ⟨x, y⟩ => h γ ⟨y, x⟩

/-- the list `zs` of states partitions what `s` describes -/
def ExactPart (s : State) (zs : List State) : Prop :=
  (∀ t ∈ zs, WFS t ∧ Inv t ∧ ∀ γ, Sem NoI γ t → Sem NoI γ s) ∧
  (∀ γ, Sem NoI γ s → ∃ t ∈ zs, Sem NoI γ t) ∧
  zs.Pairwise Dis

theorem exactPart_self {s : State} (w : WFS s) (hi : Inv s) : ExactPart s [s] :=
  ⟨fun t ht => by simp only [List.mem_singleton] at ht; subst ht; exact ⟨w, hi, fun _ h => h⟩,
   fun γ h => ⟨s, List.mem_singleton.2 rfl, h⟩, List.pairwise_singleton _ _⟩

theorem ExactPart.perm {s : State} {zs ys : List State} (h : ExactPart s zs) (p : zs.Perm ys) : ExactPart s ys :=
  ⟨fun t ht => h.1 t (p.mem_iff.2 ht), fun γ hγ => by
    obtain ⟨t, ht, hs⟩ := h.2.1 γ hγ
    exact ⟨t, p.mem_iff.1 ht, hs⟩, (p.pairwise_iff Dis.symm).1 h.2.2⟩

theorem flatMapM_cons_some' {α β : Type} {f : α → Option (List β)} {x : α} {xs : List α} {zs : List β}
    (h : flatMapM f (x :: xs) = some zs) : ∃ ys ws, f x = some ys ∧ flatMapM f xs = some ws ∧ zs = ys ++ ws := by
  simp only [flatMapM] at h
  cases h1 : f x with
  | none => rw [h1] at h; simp at h
  | some ys =>
    cases h2 : flatMapM f xs with
    | none => rw [h1, h2] at h; simp at h
    | some ws =>
      rw [h1, h2] at h
      simp only [Option.some.injEq] at h
      exact ⟨ys, ws, rfl, rfl, h.symm⟩

/-- partitions compose: partition `s` into `zs`, then every `t ∈ zs` into `f t` -/
theorem exactPart_flatMapM {f : State → Option (List State)} : ∀ {zs ws : List State} {s : State},
    ExactPart s zs → flatMapM f zs = some ws → (∀ t ∈ zs, ∀ ys, f t = some ys → ExactPart t ys) → ExactPart s ws
  | [], ws, s, h, hf, _ => by
    simp only [flatMapM, Option.some.injEq] at hf
    subst hf
    exact h
  | t :: zs, ws, s, h, hf, h2 => by
    obtain ⟨ys, ws', h1, h3, rfl⟩ := flatMapM_cons_some' hf
    have pt := h2 t (List.mem_cons_self ..) ys h1
    have hpw := List.pairwise_cons.1 h.2.2
    -- the rest, as a partition of "what the remaining states describe" — proved componentwise
    have hmem : ∀ y, y ∈ ws' → ∃ t' ∈ zs, ∃ ys', f t' = some ys' ∧ y ∈ ys' := fun y hy => (flatMapM_mem h3 y).1 hy
    refine ⟨fun y hy => ?_, fun γ hγ => ?_, ?_⟩
    · rcases List.mem_append.1 hy with hy | hy
      · obtain ⟨a, b, c⟩ := pt.1 y hy
        exact ⟨a, b, fun γ hs => (h.1 t (List.mem_cons_self ..)).2.2 γ (c γ hs)⟩
      · obtain ⟨t', ht', ys', e, hy'⟩ := hmem y hy
        obtain ⟨a, b, c⟩ := (h2 t' (List.mem_cons_of_mem _ ht') ys' e).1 y hy'
        exact ⟨a, b, fun γ hs => (h.1 t' (List.mem_cons_of_mem _ ht')).2.2 γ (c γ hs)⟩
    · obtain ⟨t', ht', hs'⟩ := h.2.1 γ hγ
      rcases List.mem_cons.1 ht' with rfl | ht'
      · obtain ⟨y, hy, hsy⟩ := pt.2.1 γ hs'
        exact ⟨y, List.mem_append.2 (.inl hy), hsy⟩
      · obtain ⟨ys', e⟩ := flatMapM_some_of_mem h3 t' ht'
        obtain ⟨y, hy, hsy⟩ := (h2 t' (List.mem_cons_of_mem _ ht') ys' e).2.1 γ hs'
        exact ⟨y, List.mem_append.2 (.inr ((flatMapM_mem h3 y).2 ⟨t', ht', ys', e, hy⟩)), hsy⟩
    · -- pairwise disjoint
      have ih : ws'.Pairwise Dis := by
        have hs' : ExactPart s (t :: zs) := h
        -- use the induction on the tail with a weakened cover (only the pairwise part is needed)
        have : ∀ {zs ws : List State}, zs.Pairwise Dis → flatMapM f zs = some ws →
            (∀ t ∈ zs, ∀ ys, f t = some ys → ys.Pairwise Dis ∧ ∀ y ∈ ys, ∀ γ, Sem NoI γ y → Sem NoI γ t) → ws.Pairwise Dis := by
          intro zs
          induction zs with
          | nil => intro ws _ hf _; simp only [flatMapM, Option.some.injEq] at hf; subst hf; exact List.Pairwise.nil
          | cons a zs ihz =>
            intro ws hp hf hh
            obtain ⟨ya, wa, e1, e2, rfl⟩ := flatMapM_cons_some' hf
            have hpa := List.pairwise_cons.1 hp
            refine List.pairwise_append.2 ⟨(hh a (List.mem_cons_self ..) ya e1).1,
              ihz hpa.2 e2 (fun t ht ys e => hh t (List.mem_cons_of_mem _ ht) ys e), fun x hx y hy γ ⟨sx, sy⟩ => ?_⟩
            obtain ⟨t', ht', ys', e, hy'⟩ := (flatMapM_mem e2 y).1 hy
            have sxa := (hh a (List.mem_cons_self ..) ya e1).2 x hx γ sx
            have syt := (hh t' (List.mem_cons_of_mem _ ht') ys' e).2 y hy' γ sy
            exact hpa.1 t' ht' γ ⟨sxa, syt⟩
        exact this hpw.2 h3 fun t' ht' ys' e =>
          ⟨(h2 t' (List.mem_cons_of_mem _ ht') ys' e).2.2, fun y hy γ hs => ((h2 t' (List.mem_cons_of_mem _ ht') ys' e).1 y hy).2.2 γ hs⟩
      refine List.pairwise_append.2 ⟨pt.2.2, ih, fun x hx y hy γ ⟨sx, sy⟩ => ?_⟩
      obtain ⟨t', ht', ys', e, hy'⟩ := hmem y hy
      have sxt := (pt.1 x hx).2.2 γ sx
      have syt := ((h2 t' (List.mem_cons_of_mem _ ht') ys' e).1 y hy').2.2 γ sy
      exact hpw.1 t' ht' γ ⟨sxt, syt⟩


section Goals
variable (dfs : Call → State → State × G)

/-- a labelling goal: run from a well-formed unpoisoned state, with no poisoned (FUEL) state among the results,
    it partitions what the state describes; and it lets a poisoned state through -/
def LabelOK (g : G) : Prop :=
  (∀ N s zs, WFS s → Inv s → s.panic = none → evalRef dfs N g s = some zs → (∀ t ∈ zs, t.panic = none) →
    ExactPart s zs) ∧
  (∀ N s zs, s.panic ≠ none → evalRef dfs N g s = some zs → s ∈ zs) ∧
  g.isFail = false

theorem labelOK_succeed : LabelOK dfs (.succeed : G) := by
  refine ⟨fun N s zs w hi _ h _ => ?_, fun N s zs _ h => ?_, rfl⟩
  · cases N with
    | zero => simp [evalRef] at h
    | succ N => simp only [evalRef, Option.some.injEq] at h; subst h; exact exactPart_self w hi
  · cases N with
    | zero => simp [evalRef] at h
    | succ N => simp only [evalRef, Option.some.injEq] at h; subst h; exact List.mem_singleton.2 rfl

theorem labelOK_conj {g1 g2 : G} (h1 : LabelOK dfs g1) (h2 : LabelOK dfs g2) : LabelOK dfs (.conj g1 g2) := by
  refine ⟨fun N s zs w hi hp h hall => ?_, fun N s zs hp h => ?_, rfl⟩
  · cases N with
    | zero => simp [evalRef] at h
    | succ N =>
      simp only [evalRef] at h
      cases hx : evalRef dfs N g1 s with
      | none => rw [hx] at h; simp at h
      | some xs =>
        rw [hx] at h
        simp only at h
        -- no intermediate state is poisoned: a poisoned one would be let through to the results
        have hxs : ∀ t ∈ xs, t.panic = none := fun t ht => by
          cases hpt : t.panic with
          | none => rfl
          | some site =>
            obtain ⟨ys, e⟩ := flatMapM_some_of_mem h t ht
            have : t ∈ ys := h2.2.1 N t ys (by rw [hpt]; simp) e
            have := hall t ((flatMapM_mem h t).2 ⟨t, ht, ys, e, this⟩)
            rw [hpt] at this; cases this
        have p1 := h1.1 N s xs w hi hp hx hxs
        refine exactPart_flatMapM p1 h fun t ht ys e => ?_
        obtain ⟨wt, it, _⟩ := p1.1 t ht
        exact h2.1 N t ys wt it (hxs t ht) e fun y hy => hall y ((flatMapM_mem h y).2 ⟨t, ht, ys, e, hy⟩)
  · cases N with
    | zero => simp [evalRef] at h
    | succ N =>
      simp only [evalRef] at h
      cases hx : evalRef dfs N g1 s with
      | none => rw [hx] at h; simp at h
      | some xs =>
        rw [hx] at h
        simp only at h
        have hs1 := h1.2.1 N s xs hp hx
        obtain ⟨ys, e⟩ := flatMapM_some_of_mem h s hs1
        exact (flatMapM_mem h s).2 ⟨s, hs1, ys, e, h2.2.1 N s ys hp e⟩

theorem labelOK_mkConj {g1 g2 : G} (h1 : LabelOK dfs g1) (h2 : LabelOK dfs g2) : LabelOK dfs (mkConj g1 g2) := by
  unfold mkConj
  split
  · exact labelOK_succeed dfs
  · split
    · rename_i hf
      rw [h1.2.2, h2.2.2] at hf
      simp at hf
    · exact labelOK_conj dfs h1 h2

theorem labelOK_conjOfList : ∀ gs : List G, (∀ g ∈ gs, LabelOK dfs g) → LabelOK dfs (Goal.conjOfList gs)
  | [], _ => labelOK_succeed dfs
  | g :: gs, h => labelOK_mkConj dfs (h g (List.mem_cons_self ..))
      (labelOK_conjOfList gs fun x hx => h x (List.mem_cons_of_mem _ hx))

/-- the textbook evaluation of a disjunction of atoms, at any sufficient fuel: the atoms' results in order -/
theorem evalRef_alt_atoms_eq : ∀ (fs : List (State → Option State)) (N : Nat) (st : State) (zs : List State),
    evalRef dfs N (Goal.altOfList (fs.map fun f => (.atom f : G))) st = some zs →
      zs = fs.filterMap fun f => f st
  | [], N, st, zs, h => by
    cases N with
    | zero => simp [evalRef] at h
    | succ N => simp only [List.map_nil, Goal.altOfList, evalRef, Option.some.injEq] at h; subst h; rfl
  | f :: fs, N, st, zs, h => by
    cases N with
    | zero => simp [evalRef] at h
    | succ N =>
      simp only [List.map_cons, Goal.altOfList, evalRef] at h
      cases h1 : evalRef dfs N (.atom f : G) st with
      | none => rw [h1] at h; simp at h
      | some xs =>
        cases h2 : evalRef dfs N (Goal.altOfList (fs.map fun f => (.atom f : G))) st with
        | none => rw [h1, h2] at h; simp at h
        | some ys =>
          rw [h1, h2] at h
          simp only [Option.some.injEq] at h
          have ih := evalRef_alt_atoms_eq fs N st ys h2
          cases N with
          | zero => simp [evalRef] at h1
          | succ M =>
            simp only [evalRef, Option.some.injEq] at h1
            subst h1 h ih
            cases hf : f st <;> simp [List.filterMap_cons, hf]


variable {ord : Order} (ho : OrderOK ord)
include ho

/-- labelling ONE variable with a stored domain, on the textbook semantics -/
theorem label_var_exact {s : State} (w : WFS s) (hi : Inv s) (hp : s.panic = none) {xv : Nat} {d : FD}
    (hd : s.dget xv = some d) {N : Nat} {zs : List State}
    (h : evalRef dfs N (Goal.altOfList (d.iter.map fun k => eqG ord (Term.num k) (.var xv))) s = some zs)
    (hall : ∀ t ∈ zs, t.panic = none) : ExactPart s zs := by
  let f : Int → State → Option State := fun v => liftRes fun st => st.unify ord (Term.num v) (.var xv)
  have hm : (d.iter.map fun k => eqG ord (Term.num k) (.var xv)) = (d.iter.map f).map fun g => (.atom g : G) := by
    simp only [List.map_map]; rfl
  rw [hm] at h
  have hz := evalRef_alt_atoms_eq dfs (d.iter.map f) N s zs h
  rw [List.filterMap_map] at hz
  have hwd : WF d := w.dwf _ (dget_mem hd)
  -- what a delivered state is
  have key : ∀ v t, f v s = some t → t.panic = none →
      WFS t ∧ Inv t ∧ ∀ γ, Sem NoI γ t ↔ (Sem NoI γ s ∧ NumAt γ (.var xv) v) := fun v t hv hpt => by
    have r := unify_sem (I := NoI) ho (iok_noI s) w hi (Term.num v) (.var xv)
    simp only [f, liftRes, hp, Option.isSome_none, Bool.false_eq_true, if_false] at hv
    cases hu : s.unify ord (Term.num v) (.var xv) with
    | ok s' =>
      rw [hu] at hv r
      simp only [Option.some.injEq] at hv
      subst hv
      refine ⟨r.1, r.2.1, fun γ => ?_⟩
      rw [r.2.2 γ]
      unfold NumAt
      exact ⟨fun a => ⟨a.1, a.2.symm⟩, fun a => ⟨a.1, a.2.symm⟩⟩
    | fail => rw [hu] at hv; simp at hv
    | fuel =>
      rw [hu] at hv
      simp only [Option.some.injEq] at hv
      subst hv
      simp at hpt
    | panic site =>
      rw [hu] at hv
      simp only [Option.some.injEq] at hv
      subst hv
      simp at hpt
  have hmem : ∀ t ∈ zs, ∃ v ∈ d.iter, f v s = some t := fun t ht => by
    rw [hz] at ht
    exact List.mem_filterMap.1 ht
  refine ⟨fun t ht => ?_, fun γ hs => ?_, ?_⟩
  · obtain ⟨v, _, hv⟩ := hmem t ht
    obtain ⟨a, b, c⟩ := key v t hv (hall t ht)
    exact ⟨a, b, fun γ hγ => ((c γ).1 hγ).1⟩
  · obtain ⟨v, hv, hvd⟩ := hs.2.2 (xv, d) (dget_mem hd) (fun h => h)
    have hvi : v ∈ d.iter := (iter_mem d hwd v).2 hvd
    have r := unify_sem (I := NoI) ho (iok_noI s) w hi (Term.num v) (.var xv)
    cases hfv : f v s with
    | none =>
      simp only [f, liftRes, hp, Option.isSome_none, Bool.false_eq_true, if_false] at hfv
      cases hu : s.unify ord (Term.num v) (.var xv) with
      | fail => rw [hu] at r; exact absurd ⟨hs, hv.symm⟩ (r γ)
      | ok s' => rw [hu] at hfv; simp at hfv
      | fuel => rw [hu] at hfv; simp at hfv
      | panic site => rw [hu] at hfv; simp at hfv
    | some t =>
      have ht : t ∈ zs := by rw [hz]; exact List.mem_filterMap.2 ⟨v, hvi, hfv⟩
      exact ⟨t, ht, ((key v t hfv (hall t ht)).2.2 γ).2 ⟨hs, hv⟩⟩
  · rw [hz]
    refine List.pairwise_filterMap.2 ((iter_pw d hwd).imp_of_mem fun {a b} ha hb hab t1 h1 t2 h2 γ ⟨s1, s2⟩ => ?_)
    have m1 : t1 ∈ zs := by rw [hz]; exact List.mem_filterMap.2 ⟨a, ha, h1⟩
    have m2 : t2 ∈ zs := by rw [hz]; exact List.mem_filterMap.2 ⟨b, hb, h2⟩
    have n1 := (((key a t1 h1 (hall t1 m1)).2.2 γ).1 s1).2
    have n2 := (((key b t2 h2 (hall t2 m2)).2.2 γ).1 s2).2
    have := numAt_unique n1 n2
    omega

/-- `force_ans` on ANY term, at any depth bound: a labelling goal -/
theorem forceAns_labelOK : ∀ (n : Nat) (t : Term), LabelOK dfs (forceAns ord n t)
  | 0, t => by
    refine ⟨fun N s zs _ _ hp h hall => ?_, fun N s zs hp h => ?_, rfl⟩
    · cases N with
      | zero => simp [evalRef] at h
      | succ N =>
        simp only [forceAns, evalRef, liftRes, hp, Option.isSome_none, Bool.false_eq_true, if_false,
          Option.toList_some, Option.some.injEq] at h
        subst h
        have := hall _ (List.mem_singleton.2 rfl)
        simp at this
    · cases N with
      | zero => simp [evalRef] at h
      | succ N =>
        have hps : s.panic.isSome = true := by cases hq : s.panic with | none => exact absurd hq hp | some _ => rfl
        simp only [forceAns, evalRef, liftRes, hps, if_true, Option.toList_some, Option.some.injEq] at h
        subst h
        exact List.mem_singleton.2 rfl
  | n + 1, t => by
    have ihn := forceAns_labelOK n
    refine ⟨fun N s zs w hi hp h hall => ?_, fun N s zs hp h => ?_, rfl⟩
    · cases N with
      | zero => simp [forceAns, evalRef] at h
      | succ N =>
        simp only [forceAns, evalRef, id, hp, Option.isSome_none, Bool.false_eq_true, if_false] at h
        split at h
        · rename_i xv hw
          split at h
          · rename_i d hd
            exact label_var_exact dfs ho w hi hp hd h hall
          · exact (labelOK_succeed dfs).1 N s zs w hi hp h hall
        · rename_i hd tl hw
          exact (labelOK_conjOfList dfs [forceAns ord n hd, forceAns ord n tl] (fun g hg => by
            simp only [List.mem_cons, List.not_mem_nil, or_false] at hg
            rcases hg with rfl | rfl
            · exact ihn hd
            · exact ihn tl)).1 N s zs w hi hp h hall
        · rename_i tag args hw
          exact (labelOK_conjOfList dfs ((compFields args).map (forceAns ord n)) (fun g hg => by
            obtain ⟨x, _, rfl⟩ := List.mem_map.1 hg
            exact ihn x)).1 N s zs w hi hp h hall
        · exact (labelOK_succeed dfs).1 N s zs w hi hp h hall
    · cases N with
      | zero => simp [forceAns, evalRef] at h
      | succ N =>
        have hps : s.panic.isSome = true := by cases hq : s.panic with | none => exact absurd hq hp | some _ => rfl
        simp only [forceAns, evalRef, id, hps, if_true] at h
        exact (labelOK_succeed dfs).2.1 N s zs hp h

end Goals
end Pv
