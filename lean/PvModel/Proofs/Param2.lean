/-
  PARAMETRICITY of the interleaving engine, second version: goals built from atoms, conjunction, `conde`, fresh,
  literal `fail` AND RELATION CALLS (whose bodies are related whenever the states are).  Two goals of the same
  shape with related atoms, run by two engines with related relation tables from related states, deliver — step
  for step — related answers in the same order, at every nesting level of the solver; or one of the two streams
  holds a state marked bad (the model's FUEL poison), which every goal in a "rest of the conjunction" position
  passes on (`NF`).
-/
import PvModel.Proofs.Param
namespace Pv
open Strm Goal

section
variable {St K : Type} (R : St → St → Prop) (B : St → Prop) (C : K → Prop)

/-- goals that pass a bad state on (structurally): no literal `fail`, a disjunction passes it through its first clause -/
inductive NF : Goal St K → Prop
  | succeed : NF .succeed
  | atom {f : St → Option St} : AtomPass B f → NF (.atom f)
  | conj {g1 g2} : NF g1 → NF g2 → NF (.conj g1 g2)
  | alt {g1 g2} : NF g1 → NF (.alt g1 g2)
  | fresh {g} : NF g → NF (.fresh g)
  | call {k} : C k → NF (.call k)

/-- same shape, related atoms, the same relation calls -/
inductive GRel2 : Goal St K → Goal St K → Prop
  | succeed : GRel2 .succeed .succeed
  | fail : GRel2 .fail .fail
  | atom {f f' : St → Option St} : AtomRel R B f f' → GRel2 (.atom f) (.atom f')
  | conj {g1 g2 g1' g2'} : GRel2 g1 g1' → GRel2 g2 g2' → NF B C g2 → NF B C g2' → GRel2 (.conj g1 g2) (.conj g1' g2')
  | alt {g1 g2 g1' g2'} : GRel2 g1 g1' → GRel2 g2 g2' → GRel2 (.alt g1 g2) (.alt g1' g2')
  | fresh {g g'} : GRel2 g g' → GRel2 (.fresh g) (.fresh g')
  | call {k} : C k → GRel2 (.call k) (.call k)

mutual
inductive SRel2 : Strm St K → Strm St K → Prop
  | empty : SRel2 .empty .empty
  | unit {a a'} : R a a' → SRel2 (.unit a) (.unit a')
  | cons {a a' l l'} : R a a' → LRel2 l l' → SRel2 (.cons a l) (.cons a' l')
  | lazy {l l'} : LRel2 l l' → SRel2 (.lazy l) (.lazy l')
inductive LRel2 : Lz St K → Lz St K → Prop
  | bind {l l' g g'} : LRel2 l l' → GRel2 R B C g g' → NF B C g → NF B C g' → LRel2 (.bind l g) (.bind l' g')
  | mplus {l1 l2 l1' l2'} : LRel2 l1 l1' → LRel2 l2 l2' → LRel2 (.mplus l1 l2) (.mplus l1' l2')
  | pause {a a' g g'} : R a a' → GRel2 R B C g g' → LRel2 (.pause a g) (.pause a' g')
  | delay {s s'} : SRel2 s s' → LRel2 (.delay s) (.delay s')
end

variable {R B C}

theorem GRel2.isSucceed {g g' : Goal St K} (h : GRel2 R B C g g') : g.isSucceed = g'.isSucceed := by
  cases h <;> rfl

theorem GRel2.isFail {g g' : Goal St K} (h : GRel2 R B C g g') : g.isFail = g'.isFail := by
  cases h <;> rfl

theorem NF.notFail {g : Goal St K} (h : NF B C g) : g.isFail = false := by
  cases h <;> rfl

theorem mplus_rel2 {s s' : Strm St K} {l l' : Lz St K} (hs : SRel2 R B C s s') (hl : LRel2 R B C l l') :
    SRel2 R B C (Strm.mplus s l) (Strm.mplus s' l') := by
  cases hs with
  | empty => exact .lazy hl
  | unit ha => exact .cons ha hl
  | cons ha hl1 => exact .cons ha (.mplus hl hl1)
  | lazy hl1 => exact .lazy (.mplus hl hl1)

theorem bind_rel2 {s s' : Strm St K} {g g' : Goal St K} (hs : SRel2 R B C s s') (hg : GRel2 R B C g g')
    (nf : NF B C g) (nf' : NF B C g') : SRel2 R B C (Strm.bind s g) (Strm.bind s' g') := by
  unfold Strm.bind
  rw [← hg.isSucceed, ← hg.isFail]
  split
  · exact hs
  · split
    · exact .empty
    · cases hs with
      | empty => exact .empty
      | unit ha => exact .lazy (.pause ha hg)
      | cons ha hl => exact .lazy (.mplus (.pause ha hg) (.bind hl hg nf nf'))
      | lazy hl => exact .lazy (.bind hl hg nf nf')

theorem lazyBind_rel2 {l l' : Lz St K} {g g' : Goal St K} (hl : LRel2 R B C l l') (hg : GRel2 R B C g g')
    (nf : NF B C g) (nf' : NF B C g') : SRel2 R B C (Strm.lazyBind l g) (Strm.lazyBind l' g') := by
  unfold Strm.lazyBind
  rw [← hg.isSucceed, ← hg.isFail]
  split
  · exact .lazy hl
  · split
    · exact .empty
    · exact .lazy (.bind hl hg nf nf')

theorem optrel_strm2 {r r' : Option St} (h : OptRel R r r') : SRel2 R B C (optStrm (K := K) r) (optStrm r') := by
  cases h with
  | none => exact .empty
  | some hb => exact .unit hb

section Engine
variable {top top' : Goal St K → St → Strm St K}
variable (hT : TopOK top) (hT' : TopOK top')
  (hflow : ∀ g, NF B C g → ∀ p, B p → ∃ p', B p' ∧ MemS top p' (top g p))
  (hflow' : ∀ g, NF B C g → ∀ p, B p → ∃ p', B p' ∧ MemS top' p' (top' g p))
  (htop : ∀ g g' a a', GRel2 R B C g g' → R a a' → SRel2 R B C (top g a) (top' g' a') ∨ BadS top top' B (top g a) (top' g' a'))
include hT hT' hflow hflow' htop

theorem step_rel2 : ∀ (l l' : Lz St K), LRel2 R B C l l' →
    SRel2 R B C (step top l) (step top' l') ∨ BadS top top' B (step top l) (step top' l')
  | .mplus l1 l2, _, h => by
    cases h with
    | @mplus _ _ l1' l2' h1 h2 =>
      rcases step_rel2 l1 _ h1 with r | ⟨p, hp, m⟩
      · exact .inl (mplus_rel2 r h2)
      · refine .inr ⟨p, hp, ?_⟩
        simp only [step]
        rcases m with m | m
        · exact .inl (mem_mplus_iff.2 (.inl m))
        · exact .inr (mem_mplus_iff.2 (.inl m))
  | .bind l g, _, h => by
    cases h with
    | @bind _ l' _ g' h1 hg nf nf' =>
      rcases step_rel2 l _ h1 with r | ⟨p, hp, m⟩
      · exact .inl (bind_rel2 r hg nf nf')
      · simp only [step]
        rcases m with m | m
        · obtain ⟨p', hp', m'⟩ := hflow g nf p hp
          exact .inr ⟨p', hp', .inl ((mem_bind_iff hT).2 ⟨p, m, m'⟩)⟩
        · obtain ⟨p', hp', m'⟩ := hflow' g' nf' p hp
          exact .inr ⟨p', hp', .inr ((mem_bind_iff hT').2 ⟨p, m, m'⟩)⟩
  | .pause a g, _, h => by
    cases h with
    | pause ha hg => exact htop _ _ _ _ hg ha
  | .delay s, _, h => by
    cases h with
    | delay hs => exact .inl hs
  | .mplusD _ _, _, h => by cases h
  | .bindD _ _, _, h => by cases h

theorem runF_rel2 : ∀ (n : Nat) (s s' : Strm St K), SRel2 R B C s s' →
    Pointwise R (runF top n s) (runF top' n s') ∨ BadS top top' B s s'
  | 0, _, _, _ => .inl .nil
  | n + 1, _, _, h => by
    cases h with
    | empty => exact .inl .nil
    | unit ha => exact .inl (.cons ha .nil)
    | @cons a a' l l' ha hl =>
      rcases runF_rel2 n _ _ (SRel2.lazy hl) with r | ⟨p, hp, m⟩
      · exact .inl (.cons ha r)
      · refine .inr ⟨p, hp, ?_⟩
        rcases m with m | m
        · exact .inl (memS_cons_iff.2 (.inr (memS_lazy_iff.1 m)))
        · exact .inr (memS_cons_iff.2 (.inr (memS_lazy_iff.1 m)))
    | @lazy l l' hl =>
      rcases step_rel2 hT hT' hflow hflow' htop _ _ hl with r | ⟨p, hp, m⟩
      · rcases runF_rel2 n _ _ r with r2 | ⟨p, hp, m⟩
        · exact .inl r2
        · refine .inr ⟨p, hp, ?_⟩
          rcases m with m | m
          · exact .inl (memS_lazy_iff.2 ((step_mem_iff_aux hT _ _).1 m))
          · exact .inr (memS_lazy_iff.2 ((step_mem_iff_aux hT' _ _).1 m))
      · refine .inr ⟨p, hp, ?_⟩
        rcases m with m | m
        · exact .inl (memS_lazy_iff.2 ((step_mem_iff_aux hT _ _).1 m))
        · exact .inr (memS_lazy_iff.2 ((step_mem_iff_aux hT' _ _).1 m))

end Engine

section Start
variable {defs defs' : K → St → St × Goal St K} {top0 top0' top top' : Goal St K → St → Strm St K} {pf : Nat}
  (hdefs : ∀ k, C k → ∀ a a', R a a' → R (defs k a).1 (defs' k a').1 ∧ GRel2 R B C (defs k a).2 (defs' k a').2)
  (htop0 : ∀ g g' a a', GRel2 R B C g g' → R a a' →
    SRel2 R B C (top0 g a) (top0' g' a') ∨ BadS top top' B (top0 g a) (top0' g' a'))
include hdefs htop0

theorem start_rel2 : ∀ (g g' : Goal St K), GRel2 R B C g g' → ∀ a a', R a a' →
    SRel2 R B C (start defs top0 pf g a) (start defs' top0' pf g' a') ∨
      BadS top top' B (start defs top0 pf g a) (start defs' top0' pf g' a') := by
  intro g g' h
  induction h with
  | succeed => intro a a' ha; exact .inl (.unit ha)
  | fail => intro a a' _; exact .inl .empty
  | @atom f f' hf =>
    intro a a' ha
    rw [start_atom, start_atom]
    rcases hf a a' ha with r | ⟨p, hp, e | e⟩
    · exact .inl (optrel_strm2 r)
    · exact .inr ⟨p, hp, .inl (by rw [e]; exact .unit p)⟩
    · exact .inr ⟨p, hp, .inr (by rw [e]; exact .unit p)⟩
  | conj h1 h2 nf nf' _ _ => intro a a' ha; exact .inl (lazyBind_rel2 (.pause ha h1) h2 nf nf')
  | alt h1 h2 ih1 ih2 =>
    intro a a' ha
    simp only [start]
    rcases ih1 a a' ha with r1 | ⟨p, hp, m⟩
    · rcases ih2 a a' ha with r2 | ⟨p, hp, m⟩
      · exact .inl (mplus_rel2 r1 (.delay r2))
      · refine .inr ⟨p, hp, ?_⟩
        rcases m with m | m
        · exact .inl (mem_mplus_iff.2 (.inr (.delay m)))
        · exact .inr (mem_mplus_iff.2 (.inr (.delay m)))
    · refine .inr ⟨p, hp, ?_⟩
      rcases m with m | m
      · exact .inl (mem_mplus_iff.2 (.inl m))
      · exact .inr (mem_mplus_iff.2 (.inl m))
  | fresh h1 _ => intro a a' ha; exact .inl (.lazy (.pause ha h1))
  | @call k hk =>
    intro a a' ha
    simp only [start]
    exact htop0 _ _ _ _ (hdefs k hk a a' ha).2 (hdefs k hk a a' ha).1

end Start

/-- every nesting level of the two solvers -/
theorem solveAt_rel2 {defs defs' : K → St → St × Goal St K} {top top' : Goal St K → St → Strm St K} (pf : Nat)
    (hdefs : ∀ k, C k → ∀ a a', R a a' → R (defs k a).1 (defs' k a').1 ∧ GRel2 R B C (defs k a).2 (defs' k a').2) :
    ∀ (n : Nat) (g g' : Goal St K) (a a' : St), GRel2 R B C g g' → R a a' →
      SRel2 R B C (solveAt defs pf n g a) (solveAt defs' pf n g' a') ∨
        BadS top top' B (solveAt defs pf n g a) (solveAt defs' pf n g' a')
  | 0, _, _, _, _, hg, ha => .inl (.lazy (.pause ha hg))
  | n + 1, g, g', a, a', hg, ha =>
    start_rel2 hdefs (fun g g' a a' hg ha => solveAt_rel2 pf hdefs n g g' a a' hg ha) g g' hg a a' ha

/-- PARAMETRICITY with relation calls -/
theorem engine_rel2 (defs defs' : K → St → St × Goal St K) (pf M : Nat)
    (hdefs : ∀ k, C k → ∀ a a', R a a' → R (defs k a).1 (defs' k a').1 ∧ GRel2 R B C (defs k a).2 (defs' k a').2)
    (hflow : ∀ g, NF B C g → ∀ p, B p → ∃ p', B p' ∧ MemS (solveAt defs pf (M + 1)) p' (solveAt defs pf (M + 1) g p))
    (hflow' : ∀ g, NF B C g → ∀ p, B p → ∃ p', B p' ∧ MemS (solveAt defs' pf (M + 1)) p' (solveAt defs' pf (M + 1) g p))
    {g g' : Goal St K} {a a' : St} (hg : GRel2 R B C g g') (ha : R a a') (n : Nat) :
    Pointwise R (runF (solveAt defs pf (M + 1)) n (solveAt defs pf (M + 1) g a))
        (runF (solveAt defs' pf (M + 1)) n (solveAt defs' pf (M + 1) g' a')) ∨
      BadS (solveAt defs pf (M + 1)) (solveAt defs' pf (M + 1)) B (solveAt defs pf (M + 1) g a)
        (solveAt defs' pf (M + 1) g' a') := by
  have htop := fun g g' a a' (hg : GRel2 R B C g g') (ha : R a a') =>
    solveAt_rel2 (top := solveAt defs pf (M + 1)) (top' := solveAt defs' pf (M + 1)) pf hdefs (M + 1) g g' a a' hg ha
  rcases htop g g' a a' hg ha with r | b
  · exact runF_rel2 (topOK_solveAt defs pf M) (topOK_solveAt defs' pf M) hflow hflow' htop n _ _ r
  · exact .inr b

end
end Pv
