/-
  INTERLEAVING vs DEPTH-FIRST on the same program, relation calls included: a goal and its depth-first twin
  (`conj` ↦ dfs conjunction, `conde` ↦ `cond`, every library call ↦ the same call made inside `dfs { }`) have the
  same reference answer list; hence the interleaving engine delivers a permutation of what the depth-first engine
  delivers in Prolog order.
-/
import PvModel.Proofs.RelDfs
import PvModel.Props.C07Rel
namespace Pv
open Strm Goal State Term

/-- `d` is the depth-first twin of `g` -/
inductive Twin : G → G → Prop
  | succeed : Twin .succeed .succeed
  | fail : Twin .fail .fail
  | atom (f) : Twin (.atom f) (.atom f)
  | conj {g1 g2 d1 d2} : Twin g1 d1 → Twin g2 d2 → Twin (.conj g1 g2) (.conjD d1 d2)
  | alt {g1 g2 d1 d2} : Twin g1 d1 → Twin g2 d2 → Twin (.alt g1 g2) (.altD d1 d2)
  | fresh {g d} : Twin g d → Twin (.fresh g) (.fresh d)
  | call (r : Rel) (as : List Term) : Twin (.call ⟨r, as, false⟩) (.call ⟨r, as, true⟩)

theorem Twin.isSucceed {g d : G} (h : Twin g d) : g.isSucceed = d.isSucceed := by cases h <;> rfl
theorem Twin.isFail {g d : G} (h : Twin g d) : g.isFail = d.isFail := by cases h <;> rfl

theorem twin_mkConj {g1 g2 d1 d2 : G} (h1 : Twin g1 d1) (h2 : Twin g2 d2) : Twin (mkConj g1 g2) (mkConjD d1 d2) := by
  unfold mkConj mkConjD
  rw [← h1.isSucceed, ← h2.isSucceed, ← h1.isFail, ← h2.isFail]
  split
  · exact .succeed
  · split
    · exact .fail
    · exact .conj h1 h2

theorem twin_conjOfList : ∀ {gs ds : List G}, Zip2 Twin gs ds → Twin (conjOfList gs) (conjDOfList ds)
  | _, _, .nil => .succeed
  | _, _, .cons h t => twin_mkConj h (twin_conjOfList t)

theorem twin_altOfList : ∀ {gs ds : List G}, Zip2 Twin gs ds → Twin (altOfList gs) (altDOfList ds)
  | _, _, .nil => .fail
  | _, _, .cons h t => .alt h (twin_altOfList t)

theorem zip2_map_conj : ∀ {cs ds : List (List G)}, Zip2 (Zip2 Twin) cs ds → Zip2 Twin (cs.map conjOfList) (ds.map conjDOfList)
  | _, _, .nil => .nil
  | _, _, .cons h t => .cons (twin_conjOfList h) (zip2_map_conj t)

theorem twin_oneOf {cs ds : List (List G)} (h : Zip2 (Zip2 Twin) cs ds) : Twin (oneOf false cs) (oneOf true ds) := by
  unfold oneOf
  simp only [Bool.false_eq_true, if_false, if_true, conjOfList, conjDOfList, condeOfClauses, condeDOfClauses]
  exact twin_mkConj (twin_altOfList (zip2_map_conj h)) .succeed

theorem twin_conjLOf {gs ds : List G} (h : Zip2 Twin gs ds) : Twin (conjLOf false gs) (conjLOf true ds) := by
  unfold conjLOf
  simp only [Bool.false_eq_true, if_false, if_true]
  exact twin_conjOfList h

section
variable {ord : Order}

/-- the bodies of a library relation called outside and inside `dfs { }` are twins -/
theorem relBody_twin (r : Rel) (as : List Term) (n : Nat) :
    (relBody ord ⟨r, as, false⟩ n).1 = (relBody ord ⟨r, as, true⟩ n).1 ∧
    Twin (relBody ord ⟨r, as, false⟩ n).2 (relBody ord ⟨r, as, true⟩ n).2 := by
  cases r <;> rcases as with _ | ⟨a1, _ | ⟨a2, _ | ⟨a3, _ | ⟨a4, rest⟩⟩⟩⟩ <;>
    first
      | exact ⟨rfl, .atom _⟩
      | (refine ⟨rfl, ?_⟩
         first
           | (rw [body_member, body_member]
              exact twin_oneOf (.cons (.cons (.atom _) (.cons (.atom _) .nil)) (.cons (.cons (.atom _) (.cons (.call _ _) .nil)) .nil)))
           | (rw [body_member1, body_member1]
              exact twin_oneOf (.cons (.cons (.atom _) (.cons (.atom _) .nil))
                (.cons (.cons (.atom _) (.cons (twin_conjLOf (.cons (.atom _) (.cons (.call _ _) .nil))) .nil)) .nil)))
           | (rw [body_append, body_append]
              exact twin_oneOf (.cons (.cons (.atom _) .nil) (.cons (.cons (.atom _) (.cons (.call _ _) .nil)) .nil)))
           | (rw [body_rember, body_rember]
              exact twin_oneOf (.cons (.cons (.atom _) .nil) (.cons (.cons (.atom _) (.cons (.atom _) .nil))
                (.cons (.cons (.atom _) (.cons (.atom _) (.cons (.call _ _) .nil))) .nil))))
           | (rw [body_permute, body_permute]
              exact twin_oneOf (.cons (.cons (.atom _) .nil)
                (.cons (.cons (.atom _) (.cons (.fresh (twin_conjLOf (.cons (.call _ _) (.cons (.call _ _) .nil)))) .nil)) .nil)))
           | (rw [body_distinct, body_distinct]
              exact twin_oneOf (.cons (.cons (.atom _) .nil) (.cons (.cons (.atom _) .nil)
                (.cons (.cons (.atom _) (.cons (.atom _) (.cons (.call _ _) (.cons (.call _ _) .nil)))) .nil)))))
      | exact ⟨rfl, twin_conjLOf (.cons (.call _ _) .nil)⟩
      | exact ⟨rfl, twin_conjLOf (.cons (.fresh (twin_conjLOf (.cons (.call _ _) .nil))) .nil)⟩

/-- a goal and its twin have the same reference answer list -/
theorem evalRef_twin : ∀ (n : Nat) (g d : G) (a : State), Twin g d → evalRef (defs ord) n g a = evalRef (defs ord) n d a
  | 0, _, _, _, _ => rfl
  | n + 1, _, _, a, h => by
    cases h with
    | succeed => rfl
    | fail => rfl
    | atom f => rfl
    | conj h1 h2 =>
      simp only [evalRef]
      rw [evalRef_twin n _ _ a h1]
      have : evalRef (defs ord) n _ = evalRef (defs ord) n _ := funext fun x => evalRef_twin n _ _ x h2
      rw [this]
    | alt h1 h2 => simp only [evalRef]; rw [evalRef_twin n _ _ a h1, evalRef_twin n _ _ a h2]
    | fresh h1 => simp only [evalRef]; exact evalRef_twin n _ _ a h1
    | call r as =>
      simp only [evalRef]
      have hb := relBody_twin (ord := ord) r as a.nextVar
      have e1 : (defs ord ⟨r, as, false⟩ a).1 = (defs ord ⟨r, as, true⟩ a).1 := by
        show ({ a with nextVar := a.nextVar + (relBody ord ⟨r, as, false⟩ a.nextVar).1 } : State) =
          { a with nextVar := a.nextVar + (relBody ord ⟨r, as, true⟩ a.nextVar).1 }
        rw [hb.1]
      rw [e1]
      exact evalRef_twin n _ _ _ hb.2

end

/-- the depth-first twin of a program: the same program written inside `dfs { }` -/
def RProg.goalD (ord : Order) : RProg → G
  | .succeed => .succeed
  | .fail => .fail
  | .atom t => .atom (liftRes fun st => postAtom ord st t)
  | .conj p q => .conjD (RProg.goalD ord p) (RProg.goalD ord q)
  | .alt p q => .altD (RProg.goalD ord p) (RProg.goalD ord q)
  | .fresh p => .fresh (RProg.goalD ord p)
  | .call c => .call { c with dfs := true }

theorem RProg.twin (ord : Order) : ∀ (p : RProg), p.NoDfs → Twin (p.goal ord) (p.goalD ord)
  | .succeed, _ => .succeed
  | .fail, _ => .fail
  | .atom _, _ => .atom _
  | .conj p q, h => .conj (RProg.twin ord p h.1) (RProg.twin ord q h.2)
  | .alt p q, h => .alt (RProg.twin ord p h.1) (RProg.twin ord q h.2)
  | .fresh p, h => .fresh (RProg.twin ord p h)
  | .call ⟨r, as, d⟩, h => by
    simp only [RProg.NoDfs] at h
    subst h
    exact .call r as

theorem RProg.onlyD (ord : Order) : ∀ (p : RProg), OnlyD (p.goalD ord)
  | .succeed => .succeed
  | .fail => .fail
  | .atom _ => .atom _
  | .conj p q => .conjD (RProg.onlyD ord p) (RProg.onlyD ord q)
  | .alt p q => .altD (RProg.onlyD ord p) (RProg.onlyD ord q)
  | .fresh p => .fresh (RProg.onlyD ord p)
  | .call _ => .call rfl

end Pv
