/-
  LIVENESS of the constraint store: after `run_constraints` (hence after every `==`, and after every
  operation performed on a live state) no stored propagator has all its operands ground — a constraint
  whose operands have all become numbers has been re-run (and so checked and discharged, or refuted).
  This is the repaired D11 behaviour ("a propagator that binds its own operand is re-checked"), as an
  invariant through the re-entrant loop.
-/
import PvModel.Proofs.FDExact
namespace Pv
open State Term FD
attribute [local instance] Mode.strict

/-- some operand of the constraint is not (yet) a number -/
def NotGround (σ : Subst) (c : Cst) : Prop := ∃ t ∈ operandsOf c, (walk σ t).isNum = false

/-- every stored propagator whose identity is not in `R` (the part of a `run_constraints` snapshot that is
    still to be re-run) has an operand that is not a number -/
def LiveX (R : Nat → Prop) (st : State) : Prop :=
  ∀ p ∈ st.store, p.2.isDiseq = false → R p.1 ∨ NotGround st.σ p.2

abbrev Live (st : State) : Prop := LiveX (fun _ => False) st

theorem Live.toX {R : Nat → Prop} {st : State} (h : Live st) : LiveX R st :=
  fun p hp hd => (h p hp hd).elim (fun f => f.elim) .inr

/-- either the nested `run_constraints` has just made everything live, or substitution and store are untouched -/
def Q (st st' : State) : Prop := Live st' ∨ (st'.σ = st.σ ∧ st'.store = st.store)

theorem Q.refl (st : State) : Q st st := .inr ⟨rfl, rfl⟩

theorem Q.trans {st s1 s2 : State} (h1 : Q st s1) (h2 : Q s1 s2) : Q st s2 := by
  rcases h2 with a | ⟨a, b⟩
  · exact .inl a
  · rcases h1 with c | ⟨c, d⟩
    · exact .inl fun p hp hd => by rw [b] at hp; rw [a]; exact c p hp hd
    · exact .inr ⟨a.trans c, b.trans d⟩

theorem LiveX.q {R : Nat → Prop} {st st' : State} (h : LiveX R st) (q : Q st st') : LiveX R st' := by
  rcases q with a | ⟨a, b⟩
  · exact a.toX
  · exact fun p hp hd => by rw [b] at hp; rw [a]; exact h p hp hd

/-- the nested `run_constraints` leaves a live state, whatever (well-formed) state it starts from -/
def RcLive (rc : State → Res State) : Prop := ∀ st st', WFS st → Inv st → rc st = .ok st' → Live st'

/-- binding an unbound variable to a number keeps the state well-formed -/
theorem bindNum_ok {st : State} (w : WFS st) (hi : Inv st) {x : Nat} (hx : st.σ x = .var x) (n : Int) :
    WFS { st with σ := bindS x (Term.num n) st.σ } ∧ Inv { st with σ := bindS x (Term.num n) st.σ } ∧
    WFS ({ st with σ := bindS x (Term.num n) st.σ }.dremove x) ∧
    Inv ({ st with σ := bindS x (Term.num n) st.σ }.dremove x) := by
  have hbo := bind_ok (t := Term.num n) w.solved hx (by simp [Term.num, apply]) (by simp [Term.num, occurs])
  refine ⟨⟨hbo.1, w.dnodup, w.dwf, w.nodist⟩, SameStore.inv ⟨rfl, rfl, rfl, rfl, rfl⟩ hi,
    ⟨hbo.1, ?_, ?_, w.nodist⟩, SameStore.inv ⟨rfl, rfl, rfl, rfl, rfl⟩ hi⟩
  · exact (List.Sublist.map (fun q : Nat × FD => q.1) List.filter_sublist).nodup w.dnodup
  · intro p hp; exact w.dwf p (List.mem_filter.1 hp).1

section WithRC
variable {rc : State → Res State} (hrl : RcLive rc)
include hrl

theorem resolveStorable_q {st st' : State} {x : Nat} {d : FD} (w : WFS st) (hi : Inv st) (hx : st.σ x = .var x)
    (h : resolveStorable rc st x d = .ok st') : Q st st' := by
  unfold resolveStorable at h
  split at h
  · rename_i n _
    obtain ⟨_, _, w0, i0⟩ := bindNum_ok w hi hx n
    exact .inl (hrl _ _ w0 i0 h)
  · cases h; exact .inr ⟨rfl, rfl⟩

theorem updateVarDomain_q {st st' : State} {x : Nat} {d : FD} (w : WFS st) (hi : Inv st) (hx : st.σ x = .var x)
    (h : updateVarDomain rc st x d = .ok st') : Q st st' := by
  unfold updateVarDomain at h
  split at h
  · split at h
    · exact resolveStorable_q hrl w hi hx h
    · cases h
  · exact resolveStorable_q hrl w hi hx h

theorem processDomain_q {st st' : State} {x : Term} {d : FD} (w : WFS st) (hi : Inv st)
    (h : processDomain rc st x d = .ok st') : Q st st' := by
  unfold processDomain at h
  split at h
  · rename_i y hy
    exact updateVarDomain_q hrl w hi (walk_normal w.solved x y hy) h
  · split at h
    · cases h; exact Q.refl _
    · cases h
  · cases h

end WithRC

/-! ### adding constraints -/

theorem with_live (ord : Order) {R : Nat → Prop} {st : State} {i : Nat} {c : Cst} (h : LiveX R st)
    (hd : c.isDiseq = false) (hn : NotGround st.σ c) : LiveX R (st.withConstraint ord i c) := by
  have hs : (st.withConstraint ord i c).store = st.store.filter (fun p => p.1 != i) ++ [(i, c)] ∧
      (st.withConstraint ord i c).σ = st.σ := by
    cases c <;> first | (simp [Cst.isDiseq] at hd; done) | exact ⟨rfl, rfl⟩
  intro p hp hpd
  rw [hs.1] at hp
  rw [hs.2]
  rcases List.mem_append.1 hp with hp | hp
  · exact h p (List.mem_filter.1 hp).1 hpd
  · simp only [List.mem_singleton] at hp; subst hp; exact .inr hn

theorem with_live_diseq (ord : Order) {R : Nat → Prop} {st : State} {i : Nat} {ps : Ext1} (h : LiveX R st) :
    LiveX R (st.withConstraint ord i (.diseq ps)) := by
  rw [withConstraint_diseq_eq]
  split
  · exact h
  · generalize hL : (ord.cs st.store).filter (subOf ord ps) = L
    obtain ⟨t1, _, _, t4, _⟩ := takes_fields L st
    intro p hp hpd
    simp only at hp
    rcases List.mem_append.1 hp with hp | hp
    · have := h p (t4.subset hp) hpd
      simpa only [t1] using this
    · simp only [List.mem_singleton] at hp; subst hp; simp [Cst.isDiseq] at hpd

theorem withNew_live_diseq (ord : Order) {R : Nat → Prop} {st : State} {ps : Ext1} (h : LiveX R st) :
    LiveX R (st.withNewConstraint ord (.diseq ps)) := by
  unfold State.withNewConstraint
  exact with_live_diseq ord (st := { st with nextId := st.nextId + 1 }) h

theorem runDiseq_live (ord : Order) {R : Nat → Prop} {st st' : State} {ps : Ext1} (h : LiveX R st)
    (e : runDiseq ord st ps = .ok st') : LiveX R st' := by
  unfold runDiseq at e
  split at e
  · cases e
  · cases e; exact h
  · split at e
    · cases e
    · cases e; exact withNew_live_diseq ord h

end Pv

namespace Pv
open State Term FD
attribute [local instance] Mode.strict

theorem walk_keep_var {st s : State} (k : Keeps st s) {t : Term} {x : Nat} (hw : walk st.σ t = .var x)
    (hx : s.σ x = .var x) : walk s.σ t = .var x := by
  cases t with
  | var y =>
    simp only [walk] at hw ⊢
    have := k.ext (.var y)
    simp only [apply] at this
    rw [hw] at this
    simp only [apply] at this
    rw [← this, hx]
  | _ => simp [walk] at hw

theorem not_operandBound {s : State} {ws : List Term} (h : ¬ operandBound s ws = true) {x : Nat}
    (hm : Term.var x ∈ ws) : s.σ x = .var x := by
  unfold operandBound at h
  rw [List.any_eq_true] at h
  apply Classical.byContradiction
  intro hne
  exact h ⟨.var x, hm, by simpa using hne⟩

theorem opDomain_shape {st : State} {t : Term} {d : FD} (h : opDomain st t = some d) :
    (∃ x, t = .var x) ∨ (∃ n, t = .val (.num n)) := by
  cases t with
  | var x => exact .inl ⟨x, rfl⟩
  | val c =>
    cases c with
    | num n => exact .inr ⟨n, rfl⟩
    | _ => simp [opDomain] at h
  | _ => simp [opDomain] at h

theorem isNum_var (x : Nat) : (Term.var x).isNum = false := rfl

/-- a re-run one level down keeps liveness -/
def SelfLive (self : Nat → Cst → State → Res State) : Prop :=
  ∀ (R : Nat → Prop) i c st st', WFS st → Fr i st → c.isDiseq = false → c.isDistinct = false →
    LiveX R st → self i c st = .ok st' → LiveX R st'

theorem selfLive_fuel : SelfLive (fun _ _ _ => .fuel) := fun _ _ _ _ _ _ _ _ _ _ h => by cases h

section WithRC
variable {rc : State → Res State} (hrc : RcOK rc) (hrs : RcSem rc) (hrl : RcLive rc) (ord : Order)
include hrc hrs hrl

/-- `process_domain`, with everything the later steps need about the state it returns -/
theorem processDomain_all {st st' : State} {x : Term} {d : FD} {i : Nat} (w : WFS st) (f : Fr i st)
    (hd : WFI d) (hdv : WF d ∨ ∀ y, walk st.σ x = .var y → (st.dget y).isSome)
    (h : processDomain rc st x d = .ok st') : WFS st' ∧ Fr i st' ∧ Keeps st st' ∧ Q st st' := by
  have r := processDomain_sem (I := fun _ => False) hrs (fun _ h => h) w f.1 (x := x) hd hdv
  rw [h] at r
  exact ⟨r.1, f.step (processDomain_step hrc f.1 h), r.2.1, processDomain_q hrl w f.1 h⟩

omit hrc hrs hrl in
/-- re-run or re-add after nested propagation: the constraint is re-added only while one of its operands,
    a variable when the run started, is still unbound -/
theorem tail_live {self : Nat → Cst → State → Res State} (hsl : SelfLive self) {R : Nat → Prop} {i : Nat} {c : Cst}
    {s s' : State} {ws : List Term} (w : WFS s) (f : Fr i s) (hd : c.isDiseq = false) (hnd : c.isDistinct = false)
    (hl : LiveX R s) (hng : ¬ operandBound s ws = true → NotGround s.σ c)
    (h : (if operandBound s ws then self i c s else .ok (s.withConstraint ord i c)) = .ok s') : LiveX R s' := by
  split at h
  · exact hsl R i c s s' w f hd hnd hl h
  · rename_i hb
    cases h
    exact with_live ord hl hd (hng hb)

theorem narrow3_live {self : Nat → Cst → State → Res State} (hsl : SelfLive self) {R : Nat → Prop} {i : Nat} {c : Cst}
    {u v w : Term} {wi ui vi : FD} {st st' : State} (ws : WFS st) (f : Fr i st) (hd : c.isDiseq = false)
    (hnd : c.isDistinct = false) (hwi : WFI wi) (hui : WFI ui) (hvi : WFI vi)
    (hu : HasDomIf st (walk st.σ u)) (hv : HasDomIf st (walk st.σ v)) (hw : HasDomIf st (walk st.σ w))
    (hl : LiveX R st)
    -- one of the operands is a variable when the run starts
    (hvar : ∃ t ∈ operandsOf c, ∃ x, walk st.σ t = .var x ∧ Term.var x ∈ [walk st.σ u, walk st.σ v, walk st.σ w])
    (h : narrow3 rc ord self i c (walk st.σ u) (walk st.σ v) (walk st.σ w) wi ui vi st = .ok st') :
    LiveX R st' := by
  unfold narrow3 at h
  have hwalk : ∀ {t : Term}, HasDomIf st t → walk st.σ t = t := by
    intro t ht
    cases t with
    | var y => simp only [walk]; exact (ht y rfl).1
    | _ => rfl
  obtain ⟨s1, e1, h⟩ := Res.bind_ok h
  obtain ⟨s2, e2, h⟩ := Res.bind_ok h
  obtain ⟨s3, e3, h⟩ := Res.bind_ok h
  obtain ⟨w1, f1, k1, q1⟩ := processDomain_all hrc hrs hrl ws f hwi
    (.inr fun y hy => by rw [hwalk hw] at hy; exact (hw y hy).2) e1
  obtain ⟨w2, f2, k2, q2⟩ := processDomain_all hrc hrs hrl w1 f1 hui (.inr (hu.keep k1)) e2
  obtain ⟨w3, f3, k3, q3⟩ := processDomain_all hrc hrs hrl w2 f2 hvi (.inr (hv.keep (k1.trans k2))) e3
  have k := (k1.trans k2).trans k3
  refine tail_live ord hsl w3 f3 hd hnd (hl.q ((q1.trans q2).trans q3)) (fun hb => ?_) h
  obtain ⟨t, ht, x, hx, hm⟩ := hvar
  exact ⟨t, ht, by rw [walk_keep_var k hx (not_operandBound hb hm)]; rfl⟩

end WithRC
end Pv

namespace Pv
open State Term FD
attribute [local instance] Mode.strict

theorem isNum_iff {t : Term} : t.isNum = true ↔ ∃ n, t = .val (.num n) := by
  cases t with
  | val c => cases c <;> simp [Term.isNum]
  | _ => simp [Term.isNum]

/-- three walked operands that all have a domain and are not all numbers: one of them is a variable -/
theorem exists_var3 {st : State} {a b c : Term} {da db dc : FD}
    (ha : opDomain st a = some da) (hb : opDomain st b = some db) (hc : opDomain st c = some dc)
    (hnn : ∀ x y z, a = .val (.num x) → b = .val (.num y) → c = .val (.num z) → False) :
    (∃ x, a = .var x) ∨ (∃ x, b = .var x) ∨ (∃ x, c = .var x) := by
  rcases opDomain_shape ha with h1 | ⟨x, h1⟩
  · exact .inl h1
  rcases opDomain_shape hb with h2 | ⟨y, h2⟩
  · exact .inr (.inl h2)
  rcases opDomain_shape hc with h3 | ⟨z, h3⟩
  · exact .inr (.inr h3)
  exact (hnn x y z h1 h2 h3).elim

/-- some operand has no domain: it is not a number -/
theorem notGround3_of_nodom {st : State} {a b c : Term}
    (h : ∀ da db dc, opDomain st a = some da → opDomain st b = some db → opDomain st c = some dc → False) :
    a.isNum = false ∨ b.isNum = false ∨ c.isNum = false := by
  cases ha : a.isNum with
  | false => exact .inl rfl
  | true =>
    cases hb : b.isNum with
    | false => exact .inr (.inl rfl)
    | true =>
      cases hc : c.isNum with
      | false => exact .inr (.inr rfl)
      | true =>
        obtain ⟨x, rfl⟩ := isNum_iff.1 ha
        obtain ⟨y, rfl⟩ := isNum_iff.1 hb
        obtain ⟨z, rfl⟩ := isNum_iff.1 hc
        exact (h _ _ _ rfl rfl rfl).elim

section WithRC
variable {rc : State → Res State} (hrc : RcOK rc) (hrs : RcSem rc) (hrl : RcLive rc) (ord : Order)
include hrc hrs hrl

/-- the part shared by `plusfd`, `minusfd`, `timesfd` after the ground check -/
theorem tri_rest_live {self : Nat → Cst → State → Res State} (hsl : SelfLive self) {R : Nat → Prop} {i : Nat} {c : Cst}
    {u v w : Term} {st st' : State} (ws : WFS st) (f : Fr i st) (hd : c.isDiseq = false) (hnd : c.isDistinct = false)
    (hops : operandsOf c = [u, v, w]) (hl : LiveX R st)
    (hnn : ∀ x y z, walk st.σ u = .val (.num x) → walk st.σ v = .val (.num y) → walk st.σ w = .val (.num z) → False)
    (B : Int → Int → Int → Int → Int → Int → FD × FD × FD)
    (hB : ∀ a b c d e g, WFI (B a b c d e g).1 ∧ WFI (B a b c d e g).2.1 ∧ WFI (B a b c d e g).2.2)
    (h : (match opDomain st (walk st.σ u), opDomain st (walk st.σ v), opDomain st (walk st.σ w) with
      | some ud, some vd, some wd =>
        match ud.min?, ud.max?, vd.min?, vd.max?, wd.min?, wd.max? with
        | some umin, some umax, some vmin, some vmax, some wmin, some wmax =>
          narrow3 rc ord self i c (walk st.σ u) (walk st.σ v) (walk st.σ w)
            (B umin umax vmin vmax wmin wmax).1 (B umin umax vmin vmax wmin wmax).2.1
            (B umin umax vmin vmax wmin wmax).2.2 st
        | _, _, _, _, _, _ => .panic "fd-minmax"
      | _, _, _ => .ok (st.withConstraint ord i c)) = .ok st') : LiveX R st' := by
  split at h
  · rename_i ud vd wd hud hvd hwd
    split at h
    · rename_i umin umax vmin vmax wmin wmax _ _ _ _ _ _
      have hb3 := hB umin umax vmin vmax wmin wmax
      refine narrow3_live hrc hrs hrl ord hsl ws f hd hnd hb3.1 hb3.2.1 hb3.2.2 (hasDomIf_walk ws u hud)
        (hasDomIf_walk ws v hvd) (hasDomIf_walk ws w hwd) hl ?_ h
      rw [hops]
      rcases exists_var3 hud hvd hwd hnn with ⟨x, hx⟩ | ⟨x, hx⟩ | ⟨x, hx⟩
      · exact ⟨u, by simp, x, hx, by simp [hx]⟩
      · exact ⟨v, by simp, x, hx, by simp [hx]⟩
      · exact ⟨w, by simp, x, hx, by simp [hx]⟩
    · cases h
  · rename_i hno
    cases h
    refine with_live ord hl hd ?_
    unfold NotGround
    rw [hops]
    rcases notGround3_of_nodom hno with a | a | a
    · exact ⟨u, by simp, a⟩
    · exact ⟨v, by simp, a⟩
    · exact ⟨w, by simp, a⟩

theorem runPlusFd_live {self : Nat → Cst → State → Res State} (hsl : SelfLive self) {R : Nat → Prop} {i : Nat}
    {u v w : Term} {st st' : State} (ws : WFS st) (f : Fr i st) (hl : LiveX R st)
    (h : runPlusFd rc ord self i u v w st = .ok st') : LiveX R st' := by
  unfold runPlusFd at h
  simp only [] at h
  split at h
  · split at h
    · cases h; exact hl
    · cases h
  · rename_i hnn
    exact tri_rest_live hrc hrs hrl ord hsl ws f (c := .plusfd u v w) rfl rfl rfl hl hnn
      (fun a b c d e g => (.interval (a + c) (b + d), .interval (e - d) (g - c), .interval (e - b) (g - a)))
      (fun _ _ _ _ _ _ => ⟨trivial, trivial, trivial⟩) h

theorem runMinusFd_live {self : Nat → Cst → State → Res State} (hsl : SelfLive self) {R : Nat → Prop} {i : Nat}
    {u v w : Term} {st st' : State} (ws : WFS st) (f : Fr i st) (hl : LiveX R st)
    (h : runMinusFd rc ord self i u v w st = .ok st') : LiveX R st' := by
  unfold runMinusFd at h
  simp only [] at h
  split at h
  · split at h
    · cases h; exact hl
    · cases h
  · rename_i hnn
    exact tri_rest_live hrc hrs hrl ord hsl ws f (c := .minusfd u v w) rfl rfl rfl hl hnn
      (fun a b c d e g => (.interval (a - d) (b - c), .interval (e + c) (g + d), .interval (a - g) (b - e)))
      (fun _ _ _ _ _ _ => ⟨trivial, trivial, trivial⟩) h

theorem runTimesFd_live {self : Nat → Cst → State → Res State} (hsl : SelfLive self) {R : Nat → Prop} {i : Nat}
    {u v w : Term} {st st' : State} (ws : WFS st) (f : Fr i st) (hl : LiveX R st)
    (h : runTimesFd rc ord self i u v w st = .ok st') : LiveX R st' := by
  unfold runTimesFd at h
  simp only [] at h
  split at h
  · split at h
    · cases h; exact hl
    · cases h
  · rename_i hnn
    exact tri_rest_live hrc hrs hrl ord hsl ws f (c := .timesfd u v w) rfl rfl rfl hl hnn
      (fun a b c d e g => timesBounds a b c d e g) (fun a b c d e g => timesBounds_wfi a b c d e g) h

end WithRC
end Pv

namespace Pv
open State Term FD
attribute [local instance] Mode.strict

section WithRC
variable {rc : State → Res State} (hrc : RcOK rc) (hrs : RcSem rc) (hrl : RcLive rc) (ord : Order)
include hrc hrs hrl

theorem runLteFd_live {self : Nat → Cst → State → Res State} (hsl : SelfLive self) {R : Nat → Prop} {i : Nat}
    {u v : Term} {st st' : State} (ws : WFS st) (f : Fr i st) (hl : LiveX R st)
    (h : runLteFd rc ord self i u v st = .ok st') : LiveX R st' := by
  unfold runLteFd at h
  simp only [] at h
  split at h
  · rename_i udom vdom hu hv
    obtain ⟨x, hux, hxd⟩ := varDom_some hu
    obtain ⟨y, hvy, hyd⟩ := varDom_some hv
    have hwu : WF udom := ws.dwf _ (dget_mem hxd)
    have hwv : WF vdom := ws.dwf _ (dget_mem hyd)
    split at h
    · split at h
      · cases h
      · rename_i ud' hcb
        have hud' := (copyBefore_spec udom hwu _).1 ud' hcb
        obtain ⟨s1, e1, h⟩ := Res.bind_ok h
        obtain ⟨w1, f1, k1, q1⟩ := processDomain_all hrc hrs hrl ws f (WFI.of_wf hud'.1) (.inl hud'.1) e1
        split at h
        · cases h
        · rename_i vd' hdb
          have hvd' := (dropBefore_spec vdom hwv _).1 vd' hdb
          obtain ⟨s2, e2, h⟩ := Res.bind_ok h
          obtain ⟨w2, f2, k2, q2⟩ := processDomain_all hrc hrs hrl w1 f1 (WFI.of_wf hvd'.1) (.inl hvd'.1) e2
          refine tail_live ord hsl w2 f2 rfl rfl (hl.q (q1.trans q2)) (fun hb => ?_) h
          exact ⟨u, by simp [operandsOf], by
            rw [walk_keep_var (k1.trans k2) hux (not_operandBound hb (by simp [hux]))]; rfl⟩
    · cases h
  · rename_i udom hu hv
    split at h
    · split at h
      · cases h
      · rename_i ud' hcb
        obtain ⟨x, hux, hxd⟩ := varDom_some hu
        have hud' := (copyBefore_spec udom (ws.dwf _ (dget_mem hxd)) _).1 ud' hcb
        exact hl.q (processDomain_all hrc hrs hrl ws f (WFI.of_wf hud'.1) (.inl hud'.1) h).2.2.2
    · rename_i hnv
      cases h
      refine with_live ord hl rfl ⟨v, by simp [operandsOf], ?_⟩
      cases hw : walk st.σ v with
      | val c => cases c with
        | num b => exact absurd hw (hnv b)
        | _ => rfl
      | _ => rfl
  · rename_i vdom hu hv
    split at h
    · split at h
      · cases h
      · rename_i vd' hdb
        obtain ⟨y, hvy, hyd⟩ := varDom_some hv
        have hvd' := (dropBefore_spec vdom (ws.dwf _ (dget_mem hyd)) _).1 vd' hdb
        exact hl.q (processDomain_all hrc hrs hrl ws f (WFI.of_wf hvd'.1) (.inl hvd'.1) h).2.2.2
    · rename_i hnu
      cases h
      refine with_live ord hl rfl ⟨u, by simp [operandsOf], ?_⟩
      cases hw : walk st.σ u with
      | val c => cases c with
        | num a => exact absurd hw (hnu a)
        | _ => rfl
      | _ => rfl
  · split at h
    · split at h
      · cases h; exact hl
      · cases h
    · rename_i hnn
      cases h
      refine with_live ord hl rfl ?_
      cases hwu : (walk st.σ u).isNum with
      | false => exact ⟨u, by simp [operandsOf], hwu⟩
      | true =>
        cases hwv : (walk st.σ v).isNum with
        | false => exact ⟨v, by simp [operandsOf], hwv⟩
        | true =>
          obtain ⟨a, ha⟩ := isNum_iff.1 hwu
          obtain ⟨b, hb⟩ := isNum_iff.1 hwv
          exact (hnn a b ha hb).elim

theorem runDiseqFd_live {R : Nat → Prop} {i : Nat} {u v : Term} {st st' : State} (ws : WFS st) (f : Fr i st)
    (hl : LiveX R st) (h : runDiseqFd rc ord i u v st = .ok st') : LiveX R st' := by
  unfold runDiseqFd at h
  simp only [] at h
  split at h
  · rename_i ud vd hud hvd
    have hwu : WF ud := (opDomain_walk_sem (I := fun _ => False) (fun _ h => h) ws u hud).1
    have hwv : WF vd := (opDomain_walk_sem (I := fun _ => False) (fun _ h => h) ws v hvd).1
    split at h
    · split at h
      · cases h
      · cases h; exact hl
    · rename_i hns
      split at h
      · cases h
      · cases h; exact hl
      · -- stored first: not both operands are numbers (then both domains would be singletons)
        have hng : NotGround st.σ (.diseqfd u v) := by
          cases hwu' : (walk st.σ u).isNum with
          | false => exact ⟨u, by simp [operandsOf], hwu'⟩
          | true =>
            cases hwv' : (walk st.σ v).isNum with
            | false => exact ⟨v, by simp [operandsOf], hwv'⟩
            | true =>
              exfalso
              obtain ⟨a, ha⟩ := isNum_iff.1 hwu'
              obtain ⟨b, hb⟩ := isNum_iff.1 hwv'
              rw [ha] at hud; rw [hb] at hvd
              simp only [opDomain, Option.some.injEq] at hud hvd
              subst hud; subst hvd
              simp [FD.ofInt, FD.isSingleton] at hns
        have hl1 := with_live ord (i := i) hl rfl hng
        have w1 : WFS (st.withConstraint ord i (.diseqfd u v)) :=
          (with_sem (I := fun _ => False) ord ws f (c := .diseqfd u v) rfl rfl).1
        have i1 : Inv (st.withConstraint ord i (.diseqfd u v)) :=
          (with_step ord st i (.diseqfd u v) f.1 f.2.1 f.2.2).inv
        split at h
        · split at h
          · exact hl1.q (processDomain_q hrl w1 i1 h)
          · cases h
        · split at h
          · split at h
            · exact hl1.q (processDomain_q hrl w1 i1 h)
            · cases h
          · cases h; exact hl1
  · cases h
    rename_i hno
    refine with_live ord hl rfl ?_
    cases hwu : (walk st.σ u).isNum with
    | false => exact ⟨u, by simp [operandsOf], hwu⟩
    | true =>
      cases hwv : (walk st.σ v).isNum with
      | false => exact ⟨v, by simp [operandsOf], hwv⟩
      | true =>
        obtain ⟨a, ha⟩ := isNum_iff.1 hwu
        obtain ⟨b, hb⟩ := isNum_iff.1 hwv
        exact (hno _ _ (by rw [ha]; rfl) (by rw [hb]; rfl)).elim

end WithRC
end Pv

namespace Pv
open State Term FD
attribute [local instance] Mode.strict

section WithRC
variable {rc : State → Res State} (hrl : RcLive rc) (ord : Order)
include hrl

theorem runPlusZ_live {R : Nat → Prop} {i : Nat} {u v w : Term} {st st' : State} (ws : WFS st) (hi : Inv st)
    (hl : LiveX R st) (h : runPlusZ rc ord i u v w st = .ok st') : LiveX R st' := by
  unfold runPlusZ at h
  split at h
  · split at h
    · cases h; exact hl
    · cases h
  · rename_i a b z hu hv hw
    obtain ⟨w0, i0, _, _⟩ := bindNum_ok ws hi (walk_normal ws.solved w z hw) (a + b)
    exact (hrl _ _ w0 i0 h).toX
  · rename_i a y c hu hv hw
    obtain ⟨w0, i0, _, _⟩ := bindNum_ok ws hi (walk_normal ws.solved v y hv) (c - a)
    exact (hrl _ _ w0 i0 h).toX
  · rename_i x b c hu hv hw
    obtain ⟨w0, i0, _, _⟩ := bindNum_ok ws hi (walk_normal ws.solved u x hu) (c - b)
    exact (hrl _ _ w0 i0 h).toX
  all_goals first
    | (cases h; done)
    | (rename_i hu hv hw; cases h
       first
        | exact with_live ord hl rfl ⟨u, by simp [operandsOf], by rw [hu]; rfl⟩
        | exact with_live ord hl rfl ⟨v, by simp [operandsOf], by rw [hv]; rfl⟩
        | exact with_live ord hl rfl ⟨w, by simp [operandsOf], by rw [hw]; rfl⟩)

theorem runTimesZ_live {R : Nat → Prop} {i : Nat} {u v w : Term} {st st' : State} (ws : WFS st) (hi : Inv st)
    (hl : LiveX R st) (h : runTimesZ rc ord i u v w st = .ok st') : LiveX R st' := by
  unfold runTimesZ at h
  split at h
  · split at h
    · cases h; exact hl
    · cases h
  · rename_i a b z hu hv hw
    obtain ⟨w0, i0, _, _⟩ := bindNum_ok ws hi (walk_normal ws.solved w z hw) (a * b)
    exact (hrl _ _ w0 i0 h).toX
  · rename_i a y c hu hv hw
    split at h
    · split at h
      · cases h; exact with_live ord hl rfl ⟨v, by simp [operandsOf], by rw [hv]; rfl⟩
      · cases h
    · split at h
      · cases h
      · obtain ⟨w0, i0, _, _⟩ := bindNum_ok ws hi (walk_normal ws.solved v y hv) (c.tdiv a)
        exact (hrl _ _ w0 i0 h).toX
  · rename_i x b c hu hv hw
    split at h
    · split at h
      · cases h; exact with_live ord hl rfl ⟨u, by simp [operandsOf], by rw [hu]; rfl⟩
      · cases h
    · split at h
      · cases h
      · obtain ⟨w0, i0, _, _⟩ := bindNum_ok ws hi (walk_normal ws.solved u x hu) (c.tdiv b)
        exact (hrl _ _ w0 i0 h).toX
  all_goals first
    | (cases h; done)
    | (rename_i hu hv hw; cases h
       first
        | exact with_live ord hl rfl ⟨u, by simp [operandsOf], by rw [hu]; rfl⟩
        | exact with_live ord hl rfl ⟨v, by simp [operandsOf], by rw [hv]; rfl⟩
        | exact with_live ord hl rfl ⟨w, by simp [operandsOf], by rw [hw]; rfl⟩)

end WithRC

section WithRC2
variable {rc : State → Res State} (hrc : RcOK rc) (hrs : RcSem rc) (hrl : RcLive rc) (ord : Order)
include hrc hrs hrl

theorem runCstBody_live {self : Nat → Cst → State → Res State} (hsl : SelfLive self) {R : Nat → Prop} {i : Nat}
    {c : Cst} {st st' : State} (ws : WFS st) (f : Fr i st) (hnd : c.isDistinct = false) (hl : LiveX R st)
    (h : runCstBody rc ord self i c st = .ok st') : LiveX R st' := by
  cases c with
  | diseq ps => exact runDiseq_live ord hl h
  | plusz u v w => exact runPlusZ_live hrl ord ws f.1 hl h
  | timesz u v w => exact runTimesZ_live hrl ord ws f.1 hl h
  | ltefd u v => exact runLteFd_live hrc hrs hrl ord hsl ws f hl h
  | plusfd u v w => exact runPlusFd_live hrc hrs hrl ord hsl ws f hl h
  | minusfd u v w => exact runMinusFd_live hrc hrs hrl ord hsl ws f hl h
  | timesfd u v w => exact runTimesFd_live hrc hrs hrl ord hsl ws f hl h
  | diseqfd u v => exact runDiseqFd_live hrc hrs hrl ord ws f hl h
  | distinctfd u => cases hnd
  | distinctfd2 u y n => cases hnd

theorem runCst_selfLive : ∀ k, SelfLive (runCst rc ord k)
  | 0 => fun _ _ _ _ _ w f _ hnd hl h => runCstBody_live hrc hrs hrl ord selfLive_fuel w f hnd hl h
  | k + 1 => fun _ _ _ _ _ w f _ hnd hl h => runCstBody_live hrc hrs hrl ord (runCst_selfLive k) w f hnd hl h

end WithRC2
end Pv

namespace Pv
open State Term FD
attribute [local instance] Mode.strict

theorem take_none_ids {st : State} {i : Nat} (h : (st.takeConstraint i).2 = none) : ∀ q ∈ st.store, q.1 ≠ i := by
  unfold State.takeConstraint at h
  split at h
  · cases h
  · rename_i hf
    intro q hq e
    have := List.find?_eq_none.1 hf q hq
    simp [e] at this

section Loop
variable {rc : State → Res State} (hrc : RcOK rc) (hrs : RcSem rc) (hrl : RcLive rc) {ord : Order} (ho : OrderOK ord)
include hrc hrs hrl ho

/-- the loop of `run_constraints`: when the snapshot has been worked off, every stored propagator is live -/
theorem snapshot_live : ∀ (snap : List (Nat × Cst)) (cur st' : State), WFS cur → Inv cur →
    LiveX (fun i => i ∈ snap.map (·.1)) cur →
    snap.foldl (fun (r : Res State) p => r.bind fun st =>
      match st.takeConstraint p.1 with
      | (st', some c) => runCst rc ord 4 p.1 c st'
      | (st', none) => .ok st') (.ok cur) = .ok st' → Live st'
  | [], cur, st', _, _, hl, h => by
    simp only [List.foldl_nil, Res.ok.injEq] at h
    subst h
    exact fun p hp hd => (hl p hp hd).elim (fun m => by simp at m) .inr
  | p :: ps, cur, st', w, hi, hl, h => by
    simp only [List.foldl_cons] at h
    have hb0 : ((Res.ok cur).bind fun st =>
        match st.takeConstraint p.1 with
        | (st', some c) => runCst rc ord 4 p.1 c st'
        | (st', none) => .ok st') =
      (match cur.takeConstraint p.1 with
        | (st', some c) => runCst rc ord 4 p.1 c st'
        | (st', none) => .ok st') := rfl
    rw [hb0] at h
    obtain ⟨ti, tn, ts, tf⟩ := take_step cur p.1 hi
    -- the step's result must be `.ok`, otherwise the fold is not
    cases hstep : (match cur.takeConstraint p.1 with
        | (st', some c) => runCst rc ord 4 p.1 c st'
        | (st', none) => .ok st') with
    | ok s1 =>
      rw [hstep] at h
      refine snapshot_live ps s1 st' ?_ ?_ ?_ h
      all_goals
        split at hstep
        · rename_i st1 c e
          have e1 : (cur.takeConstraint p.1).1 = st1 := by rw [e]
          have e2 : (cur.takeConstraint p.1).2 = some c := by rw [e]
          rw [e1] at ti tn ts tf
          obtain ⟨hni, hlt⟩ := tf c e2
          have fr : Fr p.1 st1 := ⟨ti, by rw [tn]; exact hlt, hni⟩
          obtain ⟨hσ, hd, _⟩ := take_sem (I := fun _ => False) hi e
          have hm : (p.1, c) ∈ cur.store := take_some e2
          have f4 := (take_fields cur p.1).2.2.2
          rw [e1] at f4
          have hst1 : ∀ q ∈ st1.store, q ∈ cur.store ∧ q.1 ≠ p.1 := by
            intro q hq; rw [f4] at hq
            exact ⟨(List.mem_filter.1 hq).1, by simpa using (List.mem_filter.1 hq).2⟩
          have w1 : WFS st1 := w.same hσ hd fun q hq => .inl (hst1 q hq).1
          have hnd : c.isDistinct = false := CstOK.strict (w.nodist _ hm)
          have hrun : runCst rc ord 4 p.1 c st1 = runCstBody rc ord (runCst rc ord 3) p.1 c st1 := rfl
          have body := runCstBody_sem hrc hrs ho (runCst_selfSem hrc hrs ho 3) (I := fun _ => False)
            (fun _ h => h) w1 fr (CstOK.of_not_distinct hnd)
          rw [← hrun, hstep] at body
          first
            | exact body.1
            | exact (runCst_selfOK hrc ord 4 _ _ _ _ fr hstep).inv
            | (have hl1 : LiveX (fun i => i ∈ ps.map (·.1)) st1 := by
                 intro q hq hqd
                 obtain ⟨hqc, hqn⟩ := hst1 q hq
                 rcases hl q hqc hqd with m | m
                 · simp only [List.map_cons, List.mem_cons] at m
                   exact .inl (m.resolve_left hqn)
                 · exact .inr (by rw [hσ]; exact m)
               rw [hrun] at hstep
               exact runCstBody_live hrc hrs hrl ord (runCst_selfLive hrc hrs hrl ord 3) w1 fr hnd hl1 hstep)
        · rename_i st1 e
          cases hstep
          have e1 : (cur.takeConstraint p.1).1 = s1 := by rw [e]
          have e2 : (cur.takeConstraint p.1).2 = none := by rw [e]
          have : s1 = cur := by rw [← e1]; exact take_none e2
          subst this
          first
            | exact w
            | exact hi
            | (intro q hq hqd
               rcases hl q hq hqd with m | m
               · simp only [List.map_cons, List.mem_cons] at m
                 exact .inl (m.resolve_left (take_none_ids e2 q hq))
               · exact .inr m)
    | fail => rw [hstep, foldl_bind_fail] at h; cases h
    | fuel => rw [hstep, foldl_bind_fuel] at h; cases h
    | panic s => rw [hstep, foldl_bind_panic] at h; cases h

end Loop

/-- `State::run_constraints`, at every nesting depth, leaves every stored propagator live -/
theorem runConstraintsF_live {ord : Order} (ho : OrderOK ord) : ∀ n, RcLive (runConstraintsF ord n)
  | 0 => fun _ _ _ _ h => by cases h
  | n + 1 => fun st st' w hi h => by
    refine snapshot_live (runConstraintsF_ok ord n) (runConstraintsF_sem ho n) (runConstraintsF_live ho n) ho
      (ord.cs st.store) st st' w hi ?_ h
    intro p hp _
    exact .inl (List.mem_map_of_mem (f := (·.1)) ((ho.1 st.store).mem_iff.2 hp))

end Pv

namespace Pv
open State Term FD
attribute [local instance] Mode.strict

theorem dremove_ok {s : State} (w : WFS s) (hi : Inv s) (x : Nat) : WFS (s.dremove x) ∧ Inv (s.dremove x) :=
  ⟨⟨w.solved, (List.Sublist.map (fun q : Nat × FD => q.1) List.filter_sublist).nodup w.dnodup,
    fun p hp => w.dwf p (List.mem_filter.1 hp).1, w.nodist⟩, SameStore.inv ⟨rfl, rfl, rfl, rfl, rfl⟩ hi⟩

section Top
variable {ord : Order} (ho : OrderOK ord)
include ho

theorem extStep_live {snap cur s3 : State} (hsn : ∀ x d, snap.dget x = some d → WF d) (w : WFS cur) (hi : Inv cur)
    (hl : Live cur) (p : Nat × Term) (h : extStep ord snap cur p = .ok s3) : WFS s3 ∧ Inv s3 ∧ Live s3 := by
  unfold extStep at h
  split at h
  · rename_i d hd
    have hwd := hsn _ _ hd
    obtain ⟨s2, e2, h⟩ := Res.bind_ok h
    have r := processDomain_sem (I := fun _ => False) (runConstraintsF_sem ho rcFuel) (fun _ h => h) w hi
      (x := p.2) (WFI.of_wf hwd) (.inl hwd)
    rw [e2] at r
    have i2 : Inv s2 := (processDomain_step (runConstraintsF_ok ord rcFuel) hi e2).inv
    split at h
    · obtain ⟨w2', i2'⟩ := dremove_ok r.1 i2 p.1
      have r3 := runConstraintsF_sem ho (rcFuel + 1) (fun _ => False) _ (fun _ h => h) w2' i2'
      rw [h] at r3
      exact ⟨r3.1, (runConstraintsF_ok ord (rcFuel + 1) _ _ i2' h).inv, runConstraintsF_live ho (rcFuel + 1) _ _ w2' i2' h⟩
    · cases h
  · cases h; exact ⟨w, hi, hl⟩

theorem extFold_live (snap : State) (hsn : ∀ x d, snap.dget x = some d → WF d) :
    ∀ (ps : Ext1) (cur s' : State), WFS cur → Inv cur → Live cur →
      ps.foldl (fun (r : Res State) p => r.bind fun cur => extStep ord snap cur p) (.ok cur) = .ok s' →
      WFS s' ∧ Inv s' ∧ Live s'
  | [], cur, s', w, hi, hl, h => by
    simp only [List.foldl_nil, Res.ok.injEq] at h; subst h; exact ⟨w, hi, hl⟩
  | p :: ps, cur, s', w, hi, hl, h => by
    simp only [List.foldl_cons] at h
    have hb0 : ((Res.ok cur).bind fun cur => extStep ord snap cur p) = extStep ord snap cur p := rfl
    rw [hb0] at h
    cases hs : extStep ord snap cur p with
    | ok s3 =>
      rw [hs] at h
      obtain ⟨w3, i3, l3⟩ := extStep_live ho hsn w hi hl p hs
      exact extFold_live snap hsn ps s3 s' w3 i3 l3 h
    | fail => rw [hs, foldl_bind_fail] at h; cases h
    | fuel => rw [hs, foldl_bind_fuel] at h; cases h
    | panic s => rw [hs, foldl_bind_panic] at h; cases h

/-- after `==` (unification, re-run of the store, finite-domain extension) every stored propagator is live —
    whatever the state before was -/
theorem unify_live {st st' : State} (w : WFS st) (hi : Inv st) {u v : Term} (h : unify ord st u v = .ok st') :
    Live st' := by
  unfold unify at h
  split at h
  · cases h
  · cases h
  · rename_i σ' e hu
    obtain ⟨s', _, _⟩ := unifyF_sound _ _ _ _ _ _ _ w.solved hu
    have w0 : WFS { st with σ := σ' } := ⟨s', w.dnodup, w.dwf, w.nodist⟩
    have i0 : Inv { st with σ := σ' } := SameStore.inv ⟨rfl, rfl, rfl, rfl, rfl⟩ hi
    unfold processExtension at h
    obtain ⟨s1, e1, h⟩ := Res.bind_ok h
    obtain ⟨s2, e2, h⟩ := Res.bind_ok h
    cases h
    have l1 := runConstraintsF_live ho (rcFuel + 1) _ _ w0 i0 e1
    have r1 := runConstraintsF_sem ho (rcFuel + 1) (fun _ => False) _ (fun _ h => h) w0 i0
    rw [e1] at r1
    have i1 := (runConstraintsF_ok ord (rcFuel + 1) _ _ i0 e1).inv
    rw [processExtensionFd_eq] at e2
    obtain ⟨_, _, l2⟩ := extFold_live ho s1 (fun x d hd => r1.1.dwf _ (dget_mem hd)) (ord.ps e) s1 s2 r1.1 i1 l1 e2
    exact fun p hp hd => l2 p hp hd

theorem postF_live {st st' : State} (w : WFS st) (hi : Inv st) (hl : Live st) (a : FAtom) (hok : a.OK)
    (h : postF ord st a = .ok st') : Live st' := by
  cases a with
  | eq u v => exact unify_live ho w hi h
  | neq u v =>
    simp only [postF] at h
    unfold disunify at h
    split at h
    · cases h
    · cases h; exact hl
    · split at h
      · cases h
      · cases h; exact withNew_live_diseq ord hl
  | cst c =>
    simp only [postF] at h
    unfold postCst at h
    have fr : Fr st.nextId { st with nextId := st.nextId + 1 } := fresh_fr hi
    have w0 : WFS { st with nextId := st.nextId + 1 } := w.same rfl rfl fun p hp => .inl hp
    exact runCstBody_live (runConstraintsF_ok ord rcFuel) (runConstraintsF_sem ho rcFuel) (runConstraintsF_live ho rcFuel)
      ord (runCst_selfLive (runConstraintsF_ok ord rcFuel) (runConstraintsF_sem ho rcFuel) (runConstraintsF_live ho rcFuel) ord 3)
      w0 fr (CstOK.strict hok) (fun p hp hd => hl p hp hd) h
  | dom x d =>
    simp only [postF] at h
    unfold domFd at h
    exact hl.q (processDomain_q (runConstraintsF_live ho rcFuel) w hi h)

/-- EVERY STATE reached by posting atoms from the empty state is live: no stored propagator is ground -/
theorem postAllF_live : ∀ (as : List FAtom) (st st' : State), WFS st → Inv st → Live st → (∀ a ∈ as, a.OK) →
    postAllF ord st as = .ok st' → Live st'
  | [], st, st', _, _, hl, _, h => by simp only [postAllF, Res.ok.injEq] at h; subst h; exact hl
  | a :: as, st, st', w, hi, hl, hok, h => by
    simp only [postAllF] at h
    obtain ⟨s1, e1, h⟩ := Res.bind_ok h
    have r := postF_sem ho w hi a (hok a (List.mem_cons_self ..))
    rw [e1] at r
    exact postAllF_live as s1 st' r.1 r.2.1 (postF_live ho w hi hl a (hok a (List.mem_cons_self ..)) e1)
      (fun b hb => hok b (List.mem_cons_of_mem _ hb)) h

theorem fd_live (n : Nat) (as : List FAtom) (hok : ∀ a ∈ as, a.OK) (st' : State)
    (h : postAllF ord (State.empty n) as = .ok st') : Live st' :=
  postAllF_live ho as (State.empty n) st' (wfs_empty n) (inv_empty n) (fun p hp => by simp [State.empty] at hp) hok h

end Top

/-- a live state all of whose propagators' operands are ground holds no propagator at all: every constraint
    has been checked and discharged (only disequalities may remain) -/
theorem live_ground_closed {st : State} (hl : Live st)
    (hg : ∀ p ∈ st.store, p.2.isDiseq = false → ∀ t ∈ operandsOf p.2, (walk st.σ t).isNum = true) :
    ∀ p ∈ st.store, p.2.isDiseq = true := by
  intro p hp
  cases hd : p.2.isDiseq with
  | true => rfl
  | false =>
    rcases hl p hp hd with f | ⟨t, ht, hn⟩
    · exact f.elim
    · rw [hg p hp hd t ht] at hn; cases hn

end Pv
