/-
  Normal form of stored disequalities and SATISFIABILITY: in a state reached by posting `==` / `!=`, every stored
  disequality is the extension of a unification under the state's own substitution — so one of its pairs `(x, t)`
  has `x` unbound, `t` normal and `x` not in `t` — and such a state always describes a GROUND valuation (the
  universe is infinite: give every unbound variable its own large number).  Hence the solver DECIDES: posting
  succeeds iff the atoms have a (ground) solution.
-/
import PvModel.Proofs.Tree
import PvModel.Proofs.UnifyExt
namespace Pv
open Term

theorem num_inj' {a b : Int} (h : Term.num a = Term.num b) : a = b := by
  simpa [Term.num] using h

/-- a pair of a disequality that is in normal form under σ: the variable is unbound, the term is σ-normal and
    does not contain the variable -/
def PairNF (σ : Subst) (p : Nat × Term) : Prop :=
  σ p.1 = .var p.1 ∧ apply σ p.2 = p.2 ∧ occurs p.1 p.2 = false

/-- a term that is normal under a substitution is normal under every substitution that binds fewer variables -/
theorem normal_mono {σ σ1 : Subst} (hm : ∀ y, σ1 y = .var y → σ y = .var y) :
    ∀ t : Term, apply σ1 t = t → apply σ t = t
  | .var y, h => by simp only [apply] at h ⊢; exact hm y h
  | .val _, _ => rfl
  | .nil, _ => rfl
  | .cons a b, h => by
    simp only [apply, Term.cons.injEq] at h ⊢
    exact ⟨normal_mono hm a h.1, normal_mono hm b h.2⟩
  | .comp g a, h => by
    simp only [apply, Term.comp.injEq, true_and] at h ⊢
    exact normal_mono hm a h

theorem PairNF.mono {σ σ1 : Subst} {p : Nat × Term} (h : PairNF σ1 p) (hm : ∀ y, σ1 y = .var y → σ y = .var y) :
    PairNF σ p := ⟨hm _ h.1, normal_mono hm _ h.2.1, h.2.2⟩

theorem unifyF_nf_aux : ∀ (n : Nat) (σ σ' : Subst) (e e' : Ext1) (u v : Term), Solved σ →
    unifyF n σ e u v = some (some (σ', e')) →
    ∃ δ : Ext1, e' = δ ++ e ∧ ∀ p ∈ δ, PairNF σ p := by
  intro n
  induction n with
  | zero => intro σ σ' e e' u v _ h; simp [unifyF] at h
  | succ n ih =>
    intro σ σ' e e' u v hs h
    have st := unifyF_step hs h
    have triv : ∃ δ : Ext1, e = δ ++ e ∧ ∀ p ∈ δ, PairNF σ p :=
      ⟨[], rfl, fun _ h => nomatch h⟩
    cases st with
    | same x hu hv => exact triv
    | valEq a hu hv => exact triv
    | nilnil hu hv => exact triv
    | bindL x hu hv ho =>
      have hx := walk_normal hs u x hu
      exact ⟨[(x, apply σ v)], rfl, fun p hp => by
        simp only [List.mem_singleton] at hp; subst hp; exact ⟨hx, apply_apply_solved hs v, ho⟩⟩
    | bindR y hv hu ho =>
      have hy := walk_normal hs v y hv
      exact ⟨[(y, apply σ u)], rfl, fun p hp => by
        simp only [List.mem_singleton] at hp; subst hp; exact ⟨hy, apply_apply_solved hs u, ho⟩⟩
    | consOk h1 t1 h2 t2 σ1 e1 _ hu hv hh ht =>
      obtain ⟨a1, _, _⟩ := unifyF_sound_aux _ _ _ _ _ _ _ hs hh
      obtain ⟨δ1, he1, hn1⟩ := ih _ _ _ _ _ _ hs hh
      obtain ⟨δ2, he2, hn2⟩ := ih _ _ _ _ _ _ a1 ht
      refine ⟨δ2 ++ δ1, by rw [he2, he1, List.append_assoc], fun p hp => ?_⟩
      rcases List.mem_append.1 hp with hp | hp
      · exact (hn2 p hp).mono (unifyF_unbound_aux _ _ _ _ _ _ _ hs hh)
      · exact hn1 p hp
    | comp g a1 a2 _ hu hv ha => exact ih _ _ _ _ _ _ hs ha

theorem unifyPairsF_nf_aux (n : Nat) : ∀ (ps : List (Term × Term)) (σ σ' : Subst) (e e' : Ext1), Solved σ →
    unifyPairsF n σ e ps = some (some (σ', e')) →
    ∃ δ : Ext1, e' = δ ++ e ∧ ∀ p ∈ δ, PairNF σ p
  | [], σ, σ', e, e', _, h => by
    simp only [unifyPairsF, Option.some.injEq, Prod.mk.injEq] at h
    obtain ⟨rfl, rfl⟩ := h
    exact ⟨[], rfl, fun _ h => nomatch h⟩
  | (u, v) :: ps, σ, σ', e, e', hs, h => by
    simp only [unifyPairsF] at h
    cases hu : unifyF n σ e u v with
    | none => rw [hu] at h; simp at h
    | some r =>
      cases r with
      | none => rw [hu] at h; simp at h
      | some q =>
        obtain ⟨σ1, e1⟩ := q
        rw [hu] at h
        simp only at h
        obtain ⟨a1, _, _⟩ := unifyF_sound_aux _ _ _ _ _ _ _ hs hu
        obtain ⟨δ1, he1, hn1⟩ := unifyF_nf_aux _ _ _ _ _ _ _ hs hu
        obtain ⟨δ2, he2, hn2⟩ := unifyPairsF_nf_aux n ps σ1 σ' e1 e' a1 h
        refine ⟨δ2 ++ δ1, by rw [he2, he1, List.append_assoc], fun p hp => ?_⟩
        rcases List.mem_append.1 hp with hp | hp
        · exact (hn2 p hp).mono (unifyF_unbound_aux _ _ _ _ _ _ _ hs hu)
        · exact hn1 p hp

/-! ### the invariant: every stored disequality has a normal-form pair -/

/-- a stored disequality in normal form: non-empty, EVERY pair normal -/
def HasNF (σ : Subst) (ps : Ext1) : Prop := ps ≠ [] ∧ ∀ p ∈ ps, PairNF σ p

/-- every stored disequality whose identity is not in `R` (those a `run_constraints` pass has still to re-run)
    has a normal-form pair under the state's substitution -/
def DNFX (R : Nat → Prop) (st : State) : Prop :=
  ∀ q ∈ st.store, ∀ ps, q.2 = .diseq ps → R q.1 ∨ HasNF st.σ ps

abbrev DNF (st : State) : Prop := DNFX (fun _ => False) st

theorem withNew_dnf (ord : Order) {st : State} {R : Nat → Prop} (ps : Ext1) (h : DNFX R st) (hnf : HasNF st.σ ps) :
    DNFX R (st.withNewConstraint ord (.diseq ps)) := by
  unfold State.withNewConstraint
  rw [withConstraint_diseq_eq]
  split
  · exact h
  · generalize hst0 : ({ st with nextId := st.nextId + 1 } : State) = st0
    have hstore0 : st0.store = st.store := by subst hst0; rfl
    have hσ0 : st0.σ = st.σ := by subst hst0; rfl
    generalize hred : (ord.cs st0.store).filter (subOf ord ps) = red
    obtain ⟨t1, _, _, _, t5⟩ := takes_fields red st0
    intro q hq qs he
    simp only [List.mem_append, List.mem_singleton] at hq
    show R q.1 ∨ HasNF (takes red st0).σ qs
    rw [t1, hσ0]
    rcases hq with hq | hq
    · exact h q (by rw [← hstore0]; exact ((t5 q).1 hq).1) qs he
    · subst hq
      simp only [Cst.diseq.injEq] at he
      subst he
      exact .inr hnf

theorem diseqResult_dnf (ord : Order) {st : State} {R : Nat → Prop} (h : DNFX R st)
    (r : Option (Option (Subst × Ext1)))
    (hr : ∀ σ' e, r = some (some (σ', e)) → e ≠ [] → HasNF st.σ e) :
    ∀ st', diseqResult ord st r = .ok st' → DNFX R st' := by
  intro st' hres
  cases r with
  | none => simp [diseqResult] at hres
  | some q =>
    cases q with
    | none => simp only [diseqResult, Res.ok.injEq] at hres; subst hres; exact h
    | some p =>
      obtain ⟨σ', e⟩ := p
      simp only [diseqResult] at hres
      split at hres
      · cases hres
      · rename_i hne
        simp only [Res.ok.injEq] at hres
        subst hres
        exact withNew_dnf ord e h (hr σ' e rfl (by intro e0; subst e0; simp at hne))

theorem runDiseq_dnf (ord : Order) {st st' : State} {R : Nat → Prop} (hs : Solved st.σ) (h : DNFX R st) (ps : Ext1)
    (hres : State.runDiseq ord st ps = .ok st') : DNFX R st' := by
  rw [runDiseq_eq] at hres
  refine diseqResult_dnf ord h _ (fun σ' e hu hne => ?_) st' hres
  obtain ⟨δ, he, hn⟩ := unifyPairsF_nf_aux _ _ _ _ _ _ hs hu
  simp only [List.append_nil] at he
  subst he
  exact ⟨hne, hn⟩

theorem disunify_dnf (ord : Order) {st st' : State} {R : Nat → Prop} (hs : Solved st.σ) (h : DNFX R st) (u v : Term)
    (hres : State.disunify ord st u v = .ok st') : DNFX R st' := by
  rw [disunify_eq] at hres
  refine diseqResult_dnf ord h _ (fun σ' e hu hne => ?_) st' hres
  obtain ⟨δ, he, hn⟩ := unifyF_nf_aux _ _ _ _ _ _ _ hs hu
  simp only [List.append_nil] at he
  subst he
  exact ⟨hne, hn⟩

/-- one iteration of the `run_constraints` loop: the re-run constraint leaves the set of pending ones -/
theorem snapStep_dnf (rc : State → Res State) (ord : Order) {st s1 : State} {R : Nat → Prop} (p : Nat × Cst)
    (hs : Solved st.σ) (ht : TreeOnly st) (hi : IdsOK st) (h : DNFX (fun i => i = p.1 ∨ R i) st)
    (hres : snapStep rc ord st p = .ok s1) : DNFX R s1 := by
  unfold snapStep at hres
  rcases hc : st.takeConstraint p.1 with ⟨st1, oc⟩
  rw [hc] at hres
  obtain ⟨f1, _, _, f4⟩ := take_fields st p.1
  rw [hc] at f1 f4
  simp only at f1 f4
  have h1 : DNFX R st1 := by
    intro q hq qs he
    rw [f4] at hq
    obtain ⟨hq1, hq2⟩ := List.mem_filter.1 hq
    have hne : q.1 ≠ p.1 := by simpa using hq2
    rw [f1]
    rcases h q hq1 qs he with (a | a) | a
    · exact absurd a hne
    · exact .inl a
    · exact .inr a
  cases oc with
  | none => simp only [Res.ok.injEq] at hres; subst hres; exact h1
  | some c =>
    obtain ⟨ps, rfl, _, _, _, _⟩ := take_spec ht hi hc
    simp only [runCst_diseq] at hres
    exact runDiseq_dnf ord (by rw [f1]; exact hs) h1 ps hres

theorem loop_dnf (rc : State → Res State) {ord : Order} (ho : OrderOK ord) :
    ∀ (snap : List (Nat × Cst)) (st st' : State), Solved st.σ → TreeOnly st → IdsOK st →
      DNFX (fun i => i ∈ snap.map (·.1)) st → State.runSnapshot rc ord st snap = .ok st' → DNF st' := by
  intro snap
  induction snap with
  | nil =>
    intro st st' _ _ _ h hres
    rw [runSnapshot_eq] at hres
    simp only [List.foldl_nil, Res.ok.injEq] at hres
    subst hres
    intro q hq qs he
    rcases h q hq qs he with a | a
    · simp at a
    · exact .inr a
  | cons p rest ih =>
    intro st st' hs ht hi h hres
    rw [runSnapshot_eq, List.foldl_cons] at hres
    have e : ((Res.ok st).bind fun st => snapStep rc ord st p) = snapStep rc ord st p := rfl
    rw [e] at hres
    obtain ⟨sok, _, _⟩ := snapStep_spec rc ho hs ht hi p
    cases hstep : snapStep rc ord st p with
    | ok s1 =>
      have a := sok s1 hstep
      rw [hstep, ← runSnapshot_eq] at hres
      refine ih s1 st' (by rw [a.sig]; exact hs) a.tree a.ids ?_ hres
      refine snapStep_dnf rc ord p hs ht hi (fun q hq qs he => ?_) hstep
      rcases h q hq qs he with a | a
      · simp only [List.map_cons, List.mem_cons] at a
        exact .inl a
      · exact .inr a
    | fail => rw [hstep, foldl_bind_fail] at hres; cases hres
    | fuel => rw [hstep, foldl_bind_fuel] at hres; cases hres
    | panic s => rw [hstep, foldl_bind_panic] at hres; cases hres

/-- `run_constraints` re-normalises EVERY stored disequality, whatever the state it starts from -/
theorem rc_dnf {ord : Order} (ho : OrderOK ord) (n : Nat) {st st' : State} (hs : Solved st.σ) (ht : TreeOnly st)
    (hi : IdsOK st) (hres : State.runConstraintsF ord (n + 1) st = .ok st') : DNF st' := by
  rw [runConstraintsF_succ] at hres
  refine loop_dnf _ ho _ st st' hs ht hi (fun q hq _ _ => .inl ?_) hres
  exact List.mem_map_of_mem ((ho.1 st.store).mem_iff.2 hq)

theorem unify_dnf {ord : Order} (ho : OrderOK ord) {st st' : State} (hg : Good st) (u v : Term)
    (hres : st.unify ord u v = .ok st') : DNF st' := by
  obtain ⟨hs, ht, hi⟩ := hg
  unfold State.unify at hres
  cases hu : unifyF unifyFuel st.σ [] u v with
  | none => rw [hu] at hres; cases hres
  | some r =>
    cases r with
    | none => rw [hu] at hres; cases hres
    | some q =>
      obtain ⟨σ', e⟩ := q
      rw [hu] at hres
      simp only [] at hres
      obtain ⟨s', _, _⟩ := unifyF_sound _ _ _ _ _ _ _ hs hu
      generalize hst1 : ({ st with σ := σ' } : State) = st1 at hres
      have hσ1 : st1.σ = σ' := by subst hst1; rfl
      have ht1 : TreeOnly st1 := by subst hst1; exact ht
      have hi1 : IdsOK st1 := by subst hst1; exact hi
      have hs1 : Solved st1.σ := by rw [hσ1]; exact s'
      unfold State.processExtension at hres
      obtain ⟨lok, _, _⟩ := loop_spec (State.runConstraintsF ord State.rcFuel) ho (ord.cs st1.store) st1 hs1 ht1 hi1
      cases hl : State.runConstraintsF ord (State.rcFuel + 1) st1 with
      | ok st2 =>
        have d2 := rc_dnf ho State.rcFuel hs1 ht1 hi1 hl
        have a := lok st2 (by rw [← runConstraintsF_succ]; exact hl)
        rw [hl] at hres
        simp only [Res.bind, processExtensionFd_tree ord st2 e a.tree.2, Res.ok.injEq] at hres
        subst hres
        exact d2
      | fail => rw [hl] at hres; cases hres
      | fuel => rw [hl] at hres; cases hres
      | panic s => rw [hl] at hres; cases hres

theorem postAtom_dnf {ord : Order} (ho : OrderOK ord) {st st' : State} (a : TAtom) (hg : Good st) (hd : DNF st)
    (hres : postAtom ord st a = .ok st') : DNF st' := by
  cases a with
  | eq u v => exact unify_dnf ho hg u v hres
  | neq u v => exact disunify_dnf ord hg.1 hd u v hres

theorem postAll_dnf {ord : Order} (ho : OrderOK ord) : ∀ (as : List TAtom) (st st' : State), Good st → DNF st →
    postAll ord st as = .ok st' → DNF st'
  | [], st, st', _, hd, h => by simp only [postAll, Res.ok.injEq] at h; subst h; exact hd
  | a :: as, st, st', hg, hd, h => by
    simp only [postAll] at h
    cases h1 : postAtom ord st a with
    | ok st1 =>
      rw [h1] at h
      exact postAll_dnf ho as st1 st' (postAtom_ok ord ho st st1 a hg h1).1 (postAtom_dnf ho a hg hd h1) h
    | fail => rw [h1] at h; cases h
    | fuel => rw [h1] at h; cases h
    | panic s => rw [h1] at h; cases h


/-! ### satisfiability: every unbound variable gets its own large number -/

/-- the valuation that sends the variable `z` to the number `N + z` -/
def bigVal (N : Nat) : Subst := fun z => Term.num ((N + z : Nat) : Int)

theorem apply_comp (β σ : Subst) : ∀ s : Term, apply (fun y => apply β (σ y)) s = apply β (apply σ s)
  | .var _ => rfl
  | .val _ => rfl
  | .nil => rfl
  | .cons h t => by simp only [apply, apply_comp β σ h, apply_comp β σ t]
  | .comp g a => by simp only [apply, apply_comp β σ a]

theorem vars_apply_bigVal (N : Nat) : ∀ t : Term, (apply (bigVal N) t).vars = []
  | .var _ => rfl
  | .val _ => rfl
  | .nil => rfl
  | .cons h t => by simp only [apply, Term.vars, vars_apply_bigVal N h, vars_apply_bigVal N t, List.append_nil]
  | .comp g a => by simp only [apply, Term.vars, vars_apply_bigVal N a]

/-- an upper bound for a term that is a literal number -/
def litBound : Term → Nat
  | .val (.num m) => m.toNat + 1
  | _ => 0

theorem le_sum_of_mem : ∀ {l : List Nat} {x : Nat}, x ∈ l → x ≤ l.sum
  | y :: l, x, h => by
    rcases List.mem_cons.1 h with rfl | h
    · simp only [List.sum_cons]; omega
    · have := le_sum_of_mem h; simp only [List.sum_cons]; omega

/-- under the big valuation composed with σ, a normal-form pair is different -/
theorem pair_differs {σ : Subst} {N : Nat} {p : Nat × Term} (hnf : PairNF σ p) (hN : litBound p.2 ≤ N) :
    apply (fun y => apply (bigVal N) (σ y)) (.var p.1) ≠ apply (fun y => apply (bigVal N) (σ y)) p.2 := by
  obtain ⟨x, t⟩ := p
  obtain ⟨hx, ht, ho⟩ := hnf
  simp only at hx ht ho hN
  rw [apply_comp, apply_comp, ht]
  have hl : apply (bigVal N) (apply σ (.var x)) = Term.num ((N + x : Nat) : Int) := by
    simp only [apply, hx, bigVal]
  rw [hl]
  cases t with
  | var y =>
    simp only [apply, bigVal]
    have hxy : x ≠ y := by simpa [occurs] using ho
    intro e
    have := num_inj' e
    omega
  | val c =>
    cases c with
    | num m =>
      simp only [apply]
      intro e
      have hm : ((N + x : Nat) : Int) = m := by simpa [Term.num] using e
      simp only [litBound] at hN
      omega
    | _ => simp [apply, Term.num]
  | nil => simp [apply, Term.num]
  | cons h tl => simp [apply, Term.num]
  | comp g a => simp [apply, Term.num]

/-- SATISFIABILITY: a good state all of whose stored disequalities have a normal-form pair describes a GROUND
    valuation -/
theorem dnf_sat {st : State} (hs : Solved st.σ) (hd : DNF st) :
    ∃ γ : Subst, StateSem γ st ∧ ∀ t : Term, (apply γ t).vars = [] := by
  let N : Nat := (st.store.flatMap fun q => match q.2 with
    | .diseq ps => ps.map fun p => litBound p.2
    | _ => []).sum
  refine ⟨fun y => apply (bigVal N) (st.σ y), ⟨fun s => ?_, fun q hq ps he => ?_⟩, fun t => ?_⟩
  · rw [apply_comp, apply_comp, apply_apply_solved hs]
  · rcases hd q hq ps he with f | ⟨hne, hall⟩
    · exact f.elim
    · obtain ⟨p, hp⟩ := List.exists_mem_of_ne_nil ps hne
      have hnf := hall p hp
      refine ⟨p, hp, pair_differs hnf (le_sum_of_mem ?_)⟩
      refine List.mem_flatMap.2 ⟨q, hq, ?_⟩
      rw [he]
      exact List.mem_map_of_mem hp
  · rw [apply_comp]; exact vars_apply_bigVal N _


theorem postAll_no_panic_of_good (ord : Order) (ho : OrderOK ord) : ∀ (st : State) (as : List TAtom), Good st →
    ∀ s, postAll ord st as ≠ .panic s
  | st, [], _, s => by simp [postAll]
  | st, a :: as, hg, s => by
    simp only [postAll]
    cases h1 : postAtom ord st a with
    | ok st1 => exact postAll_no_panic_of_good ord ho st1 as (postAtom_ok ord ho st st1 a hg h1).1 s
    | fail => simp [Res.bind]
    | fuel => simp [Res.bind]
    | panic s' => exact absurd h1 (postAtom_no_panic ord ho st a hg s')


/-! ### projection: constraints on hidden variables never restrict the visible ones -/

/-- the numeral `n` occurs in the term -/
def occNum (n : Int) : Term → Bool
  | .val (.num m) => m == n
  | .cons h t => occNum n h || occNum n t
  | .comp _ a => occNum n a
  | _ => false

/-- an upper bound (exclusive) on the non-negative numerals of a term -/
def maxNum : Term → Nat
  | .val (.num m) => m.toNat + 1
  | .cons h t => max (maxNum h) (maxNum t)
  | .comp _ a => maxNum a
  | _ => 0

theorem occNum_lt {n : Nat} : ∀ {t : Term}, occNum (n : Int) t = true → n < maxNum t
  | .val (.num m), h => by
    simp only [occNum, beq_iff_eq] at h
    simp only [maxNum]; omega
  | .val (.bool _), h => by simp [occNum] at h
  | .val (.chr _), h => by simp [occNum] at h
  | .val (.str _), h => by simp [occNum] at h
  | .var _, h => by simp [occNum] at h
  | .nil, h => by simp [occNum] at h
  | .cons a b, h => by
    simp only [occNum, Bool.or_eq_true] at h
    simp only [maxNum]
    rcases h with h | h
    · have := occNum_lt h; omega
    · have := occNum_lt h; omega
  | .comp _ a, h => by
    simp only [occNum] at h
    simp only [maxNum]
    exact occNum_lt h

/-- the valuation that keeps `θ` on the visible variables `V` and gives every other variable `z` the number `N + z` -/
def mixVal (V : List Nat) (θ : Subst) (N : Nat) : Subst :=
  fun z => if z ∈ V then θ z else Term.num ((N + z : Nat) : Int)

theorem occNum_apply_mix {V : List Nat} {θ : Subst} {N h : Nat} (hh : h ∉ V) :
    ∀ {t : Term}, h ∈ t.vars → occNum ((N + h : Nat) : Int) (apply (mixVal V θ N) t) = true
  | .var y, hm => by
    simp only [Term.vars, List.mem_singleton] at hm
    subst hm
    simp [apply, mixVal, hh, occNum, Term.num]
  | .val _, hm => by simp [Term.vars] at hm
  | .nil, hm => by simp [Term.vars] at hm
  | .cons a b, hm => by
    simp only [Term.vars, List.mem_append] at hm
    simp only [apply, occNum, Bool.or_eq_true]
    rcases hm with hm | hm
    · exact .inl (occNum_apply_mix hh hm)
    · exact .inr (occNum_apply_mix hh hm)
  | .comp _ a, hm => by
    simp only [Term.vars] at hm
    simp only [apply, occNum]
    exact occNum_apply_mix hh hm

theorem apply_agree {f g : Subst} : ∀ {t : Term}, (∀ y ∈ t.vars, f y = g y) → apply f t = apply g t
  | .var y, h => by simp only [apply]; exact h y (by simp [Term.vars])
  | .val _, _ => rfl
  | .nil, _ => rfl
  | .cons a b, h => by
    simp only [apply]
    rw [apply_agree fun y hy => h y (by simp [Term.vars, hy]), apply_agree fun y hy => h y (by simp [Term.vars, hy])]
  | .comp _ a, h => by
    simp only [apply]
    rw [apply_agree fun y hy => h y (by simpa [Term.vars] using hy)]

/-- a normal-form pair that mentions a HIDDEN variable is different under the mixed valuation -/
theorem pair_differs_hidden {σ θ : Subst} {V : List Nat} {N : Nat} {p : Nat × Term} (hnf : PairNF σ p)
    (hV : ∀ y ∈ V, maxNum (θ y) ≤ N) (hN : maxNum p.2 ≤ N)
    (hid : p.1 ∉ V ∨ ∃ h ∈ p.2.vars, h ∉ V) :
    apply (fun y => apply (mixVal V θ N) (σ y)) (.var p.1) ≠ apply (fun y => apply (mixVal V θ N) (σ y)) p.2 := by
  obtain ⟨x, t⟩ := p
  obtain ⟨hx, ht, ho⟩ := hnf
  simp only at hx ht ho hN hid
  rw [apply_comp, apply_comp, ht]
  have hl : apply (mixVal V θ N) (apply σ (.var x)) = mixVal V θ N x := by simp only [apply, hx]
  rw [hl]
  by_cases hxV : x ∈ V
  · -- the key is visible: a hidden variable occurs in the term
    obtain ⟨h, hh, hhV⟩ := hid.resolve_left (fun a => a hxV)
    have h1 := occNum_apply_mix (θ := θ) (N := N) hhV hh
    intro e
    rw [← e] at h1
    simp only [mixVal, hxV, if_true] at h1
    have := occNum_lt h1
    have := hV x hxV
    omega
  · -- the key is hidden: its value is a number of its own
    simp only [mixVal, hxV, if_false]
    cases t with
    | var y =>
      have hxy : x ≠ y := by simpa [occurs] using ho
      simp only [apply]
      by_cases hyV : y ∈ V
      · simp only [mixVal, hyV, if_true]
        intro e
        have h1 : occNum ((N + x : Nat) : Int) (θ y) = true := by rw [← e]; simp [occNum, Term.num]
        have := occNum_lt h1
        have := hV y hyV
        omega
      · simp only [mixVal, hyV, if_false]
        intro e
        have := num_inj' e
        omega
    | val c =>
      cases c with
      | num m =>
        simp only [apply]
        intro e
        have hm : ((N + x : Nat) : Int) = m := by simpa [Term.num] using e
        simp only [maxNum] at hN
        omega
      | _ => simp [apply, Term.num]
    | nil => simp [apply, Term.num]
    | cons a b => simp [apply, Term.num]
    | comp g a => simp [apply, Term.num]

/-- the variables a disequality mentions -/
def diseqVars (ps : Ext1) : List Nat := ps.flatMap fun p => p.1 :: p.2.vars

/-- PROJECTION: in a good state whose disequalities are in normal form, let `θ` give values to the variables
    `V` such that every stored disequality that mentions ONLY variables of `V` holds under `θ`; then `θ` extends to
    a valuation the state describes, with the same values on the unbound variables of `V` — disequalities that
    mention a hidden variable never restrict the visible ones (the universe is infinite) -/
theorem dnf_project {st : State} (hs : Solved st.σ) (hd : DNF st) (V : List Nat) (θ : Subst)
    (hvis : ∀ q ∈ st.store, ∀ ps, q.2 = .diseq ps → (∀ y ∈ diseqVars ps, y ∈ V) → DiseqHolds θ ps) :
    ∃ γ : Subst, StateSem γ st ∧ ∀ y ∈ V, st.σ y = .var y → γ y = θ y := by
  let N : Nat := (V.map fun y => maxNum (θ y)).sum +
    (st.store.flatMap fun q => match q.2 with
      | .diseq ps => ps.map fun p => maxNum p.2
      | _ => []).sum
  have hV : ∀ y ∈ V, maxNum (θ y) ≤ N := fun y hy => by
    have := le_sum_of_mem (List.mem_map_of_mem (f := fun y => maxNum (θ y)) hy)
    omega
  refine ⟨fun y => apply (mixVal V θ N) (st.σ y), ⟨fun s => ?_, fun q hq ps he => ?_⟩, fun y hy hfree => ?_⟩
  · rw [apply_comp, apply_comp, apply_apply_solved hs]
  · rcases hd q hq ps he with f | ⟨hne, hall⟩
    · exact f.elim
    · have hbound : ∀ p ∈ ps, maxNum p.2 ≤ N := fun p hp => by
        have : maxNum p.2 ∈ (st.store.flatMap fun q => match q.2 with
            | .diseq ps => ps.map fun p => maxNum p.2
            | _ => []) := by
          refine List.mem_flatMap.2 ⟨q, hq, ?_⟩
          rw [he]
          exact List.mem_map_of_mem (f := fun p : Nat × Term => maxNum p.2) hp
        have := le_sum_of_mem this
        omega
      by_cases hallV : ∀ y ∈ diseqVars ps, y ∈ V
      · -- a visible disequality: it holds under θ, and the two valuations agree on its variables
        obtain ⟨p, hp, hne'⟩ := hvis q hq ps he hallV
        refine ⟨p, hp, ?_⟩
        have hnf := hall p hp
        have hpV : p.1 ∈ V := hallV _ (List.mem_flatMap.2 ⟨p, hp, List.mem_cons_self ..⟩)
        have htV : ∀ y ∈ p.2.vars, y ∈ V := fun y hy =>
          hallV _ (List.mem_flatMap.2 ⟨p, hp, List.mem_cons_of_mem _ hy⟩)
        rw [apply_comp, apply_comp, hnf.2.1]
        have e1 : apply (mixVal V θ N) (apply st.σ (.var p.1)) = apply θ (.var p.1) := by
          simp only [apply, hnf.1, mixVal, hpV, if_true]
        have e2 : apply (mixVal V θ N) p.2 = apply θ p.2 :=
          apply_agree fun y hy => by simp only [mixVal, htV y hy, if_true]
        rw [e1, e2]
        exact hne'
      · -- a disequality that mentions a hidden variable: that pair is different
        have : ∃ p ∈ ps, p.1 ∉ V ∨ ∃ h ∈ p.2.vars, h ∉ V := by
          apply Classical.byContradiction
          intro hcon
          apply hallV
          intro y hy
          obtain ⟨p, hp, hyp⟩ := List.mem_flatMap.1 hy
          apply Classical.byContradiction
          intro hyV
          apply hcon
          refine ⟨p, hp, ?_⟩
          rcases List.mem_cons.1 hyp with rfl | hyt
          · exact .inl hyV
          · exact .inr ⟨y, hyt, hyV⟩
        obtain ⟨p, hp, hid⟩ := this
        exact ⟨p, hp, pair_differs_hidden (hall p hp) hV (hbound p hp) hid⟩
  · simp only [hfree, apply, mixVal, hy, if_true]

end Pv
