/-
  MULTIPLICITIES: `member(x, l)` yields ONE ANSWER PER MATCHING POSITION of `l` — in Prolog order (the reference
  semantics `evalRef`, to which the engine's answers are a permutation, C06_ref, and which the depth-first
  engine follows exactly, C05_prolog).

  Setting: the start state determines the LENGTH of `l` (`ListLen n l a`: under every described valuation `l` is a
  proper list of `n` elements — the elements themselves and `x` are arbitrary terms, bound or not).  Position `i`
  MATCHES when some described valuation puts `x` at position `i`.  Then the answer list has exactly one state per
  matching position, in increasing order of position, and the state for position `i` describes exactly the
  valuations of the start state that put `x` at position `i`.

  The model's unification fuel: a FUEL-poisoned state passes through every atom, so a recursive relation called on
  it does not terminate in the model; the theorem assumes that no big-step answer of the call is poisoned (the
  driver prints FUEL otherwise and the correspondence check treats the case as inconclusive).
-/
import PvModel.Proofs.EvalR
import PvModel.Proofs.RelFair
namespace Pv
open Strm Goal State Term

/-- under every described valuation `l` is a proper list of length `n` -/
def ListLen (n : Nat) (l : Term) (a : State) : Prop :=
  ∀ γ, StateSem γ a → ∃ ys : List Term, ys.length = n ∧ apply γ l = ofList ys

/-- `γ` makes `x` the element at position `i` of the list `l` -/
def At (x l : Term) (i : Nat) (γ : Subst) : Prop :=
  ∃ ys : List Term, apply γ l = ofList ys ∧ ys[i]? = some (apply γ x)

/-- `b` is an unpoisoned answer from `a` that describes exactly the valuations of `a` satisfying `P`
    (up to the fresh variables introduced on the way) -/
structure Describes (a : State) (P : Subst → Prop) (b : State) : Prop where
  unp : b.panic.isSome = false
  inv : RInv b
  dnf : DNF b
  nv : a.nextVar ≤ b.nextVar
  snd : ∀ γ, StateSem γ b → StateSem γ a ∧ P γ
  cmp : ∀ γ, StateSem γ a → P γ → ∃ γ', Agree a.nextVar γ γ' ∧ StateSem γ' b

/-- two lists related element by element -/
inductive Zip2 {α β : Type} (R : α → β → Prop) : List α → List β → Prop
  | nil : Zip2 R [] []
  | cons {a b as bs} : R a b → Zip2 R as bs → Zip2 R (a :: as) (b :: bs)

theorem zip2_append {α β : Type} {R : α → β → Prop} : ∀ {as as' : List α} {bs bs' : List β},
    Zip2 R as bs → Zip2 R as' bs' → Zip2 R (as ++ as') (bs ++ bs')
  | _, _, _, _, .nil, h => h
  | _, _, _, _, .cons r t, h => .cons r (zip2_append t h)

theorem zip2_map {α β : Type} {R R' : α → β → Prop} (f : β → β) (h : ∀ a b, R a b → R' a (f b)) : ∀ {as : List α} {bs : List β},
    Zip2 R as bs → Zip2 R' as (bs.map f)
  | _, _, .nil => .nil
  | _, _, .cons r t => .cons (h _ _ r) (zip2_map f h t)

section
variable {ord : Order}

theorem flatR_id : ∀ (xs : List State), FlatR (ChainR (defs ord) []) xs xs
  | [] => .nil
  | x :: xs => by
    have := FlatR.cons (R := ChainR (defs ord) []) (x := x) (ys := [x]) rfl (flatR_id xs)
    simpa using this

theorem flatR_one {R : State → List State → Prop} {x : State} {ys : List State} (h : R x ys) : FlatR R [x] ys := by
  have := FlatR.cons (R := R) h .nil
  simpa using this

/-- a clause of one atom -/
theorem chain_atom1 (f : State → Option State) (a : State) : ChainR (defs ord) [.atom f] a (f a).toList :=
  ⟨_, evalR_atom f a, flatR_id _⟩

/-- a clause whose first atom fails has no answer -/
theorem chain_nil_of_none {f : State → Option State} {gs : List G} {a : State} (h : f a = none) :
    ChainR (defs ord) (.atom f :: gs) a [] :=
  ⟨[], by have := evalR_atom (defs := defs ord) f a; rw [h] at this; exact this, .nil⟩

/-- a clause whose first atom yields one state: the answers of the rest from that state -/
theorem chain_of_some {f : State → Option State} {gs : List G} {a c : State} {zs : List State} (h : f a = some c)
    (hr : ChainR (defs ord) gs c zs) : ChainR (defs ord) (.atom f :: gs) a zs :=
  ⟨[c], by have := evalR_atom (defs := defs ord) f a; rw [h] at this; exact this, flatR_one hr⟩

theorem evalR_oneOf (d : Bool) (cs : List (List G)) (a : State) (zs : List State) (h : ClausesR (defs ord) cs a zs) :
    EvalR (defs ord) (oneOf d cs) a zs := by
  unfold oneOf
  cases d with
  | true => exact evalR_conjDOfList _ a zs ⟨zs, evalR_condeDOfClauses cs a zs h, flatR_id zs⟩
  | false => exact evalR_conjOfList _ a zs ⟨zs, evalR_condeOfClauses cs a zs h, flatR_id zs⟩

/-- what one atom does to an unpoisoned state with the invariants -/
theorem atom_eval (ho : OrderOK ord) (t : TAtom) {a : State}
    (hb : match t with | .eq u v => Below a.nextVar u ∧ Below a.nextVar v | .neq u v => Below a.nextVar u ∧ Below a.nextVar v)
    (hp : a.panic.isSome = false) (hi : RInv a) (hd : DNF a) :
    ((liftRes fun st => postAtom ord st t) a = none ∧ ∀ γ, StateSem γ a → ¬ t.Sat γ) ∨
    (∃ b, (liftRes fun st => postAtom ord st t) a = some b ∧ b.panic.isSome = true) ∨
    (∃ b, (liftRes fun st => postAtom ord st t) a = some b ∧ b.panic.isSome = false ∧ RInv b ∧ DNF b ∧
      b.nextVar = a.nextVar ∧ ∀ γ, StateSem γ b ↔ (StateSem γ a ∧ t.Sat γ)) := by
  simp only [liftRes, hp, Bool.false_eq_true, if_false]
  cases hr : postAtom ord a t with
  | ok b =>
    cases hpb : b.panic.isSome with
    | true => exact .inr (.inl ⟨b, rfl, hpb⟩)
    | false =>
      obtain ⟨ib, nvb⟩ := rinv_postAtom ho t hb hi hr
      exact .inr (.inr ⟨b, rfl, hpb, ib, postAtom_dnf ho t hi.1 hd hr, nvb, (postAtom_ok ord ho a b t hi.1 hr).2⟩)
  | fail => exact .inl ⟨rfl, fun γ hγ hs => postAtom_fail ord ho a t hi.1 hr γ ⟨hγ, hs⟩⟩
  | fuel => exact .inr (.inl ⟨_, rfl, rfl⟩)
  | panic s => exact absurd hr (postAtom_no_panic ord ho a t hi.1 s)

theorem rinv_sat {a : State} (hi : RInv a) (hd : DNF a) : ∃ γ, StateSem γ a := by
  obtain ⟨γ, hγ, _⟩ := dnf_sat hi.1.1 hd
  exact ⟨γ, hγ⟩

theorem ofList_cons_inj {y : Term} {ys : List Term} {h t : Term} (e : ofList (y :: ys) = .cons h t) : y = h ∧ ofList ys = t := by
  simp only [ofList, Term.cons.injEq] at e; exact e

/-- `member`: one answer per matching position -/
theorem member_count (ho : OrderOK ord) (d : Bool) : ∀ (n : Nat) (x l : Term) (a : State),
    Below a.nextVar x → Below a.nextVar l → a.panic.isSome = false → RInv a → DNF a → ListLen n l a →
    (∀ b, Big (defs ord) (.call ⟨.member, [x, l], d⟩) a b → b.panic.isSome = false) →
    ∃ (ys : List State) (ps : List Nat), EvalR (defs ord) (.call ⟨.member, [x, l], d⟩) a ys ∧ ps.Pairwise (· < ·) ∧
      (∀ i, i ∈ ps ↔ (i < n ∧ ∃ γ, StateSem γ a ∧ At x l i γ)) ∧
      Zip2 (fun b i => Describes a (At x l i) b) ys ps := by
  intro n
  induction n with
  | zero =>
    intro x l a bx bl hp hi hd hlen hnf
    have hle : a.nextVar ≤ a.nextVar + 4 := Nat.le_add_right _ _
    have hi' : RInv { a with nextVar := a.nextVar + 4 } := rinv_bump 4 hi
    have hd' : DNF { a with nextVar := a.nextVar + 4 } := hd
    -- both clauses start with `l == [_ | _]`, which has no solution
    have nocons : ∀ (h t : Term), ∀ γ, StateSem γ { a with nextVar := a.nextVar + 4 } → ¬ (TAtom.eq l (.cons h t)).Sat γ := by
      intro h t γ hγ hs
      obtain ⟨ys, hl0, e⟩ := hlen γ hγ
      cases ys with
      | nil => simp only [TAtom.Sat, apply] at hs; rw [e] at hs; cases hs
      | cons _ _ => simp at hl0
    have ev : ∀ (k k' : Nat), k < 4 → k' < 4 →
        (liftRes fun st => postAtom ord st (.eq l (.cons (.var (a.nextVar + k)) (.var (a.nextVar + k'))))) { a with nextVar := a.nextVar + 4 } = none ∨
        ∃ b, Big (defs ord) (eqG ord l (.cons (.var (a.nextVar + k)) (.var (a.nextVar + k')))) { a with nextVar := a.nextVar + 4 } b ∧ b.panic.isSome = true := by
      intro k k' hk hk'
      rcases atom_eval ho (.eq l (.cons (.var (a.nextVar + k)) (.var (a.nextVar + k')))) (a := { a with nextVar := a.nextVar + 4 })
        ⟨bl.mono hle, below_cons (below_var (by show a.nextVar + k < a.nextVar + 4; omega)) (below_var (by show a.nextVar + k' < a.nextVar + 4; omega))⟩
        hp hi' hd' with ⟨e, _⟩ | ⟨b, e, pb⟩ | ⟨b, e, _, ib, db, _, sem⟩
      · exact .inl e
      · exact .inr ⟨b, big_atom.2 e, pb⟩
      · obtain ⟨γ, hγ⟩ := rinv_sat ib db
        exact (nocons _ _ γ ((sem γ).1 hγ).1 ((sem γ).1 hγ).2).elim
    -- a poisoned answer of a first atom would flow to a poisoned answer of the call
    have e1 := ev 0 1 (by omega) (by omega)
    have e3 := ev 3 2 (by omega) (by omega)
    have r1 : (liftRes fun st => postAtom ord st (.eq l (.cons (.var (a.nextVar + 0)) (.var (a.nextVar + 1))))) { a with nextVar := a.nextVar + 4 } = none := by
      rcases e1 with e | ⟨b, hb, pb⟩
      · exact e
      · have := hnf b (by
          rw [big_call_rel, body_member]
          exact (big_oneOf d _ _ _).2 ⟨_, List.mem_cons_self, b, hb, b, flow_atom _ pb, rfl⟩)
        rw [this] at pb; cases pb
    have r3 : (liftRes fun st => postAtom ord st (.eq l (.cons (.var (a.nextVar + 3)) (.var (a.nextVar + 2))))) { a with nextVar := a.nextVar + 4 } = none := by
      rcases e3 with e | ⟨b, hb, pb⟩
      · exact e
      · obtain ⟨q, hq, pq⟩ := flow_member (ord := ord) x (.var (a.nextVar + 2)) d pb
        have := hnf q (by
          rw [big_call_rel, body_member]
          exact (big_oneOf d _ _ _).2 ⟨_, List.mem_cons_of_mem _ List.mem_cons_self, b, hb, q, hq, rfl⟩)
        rw [this] at pq; cases pq
    refine ⟨[], [], ?_, List.Pairwise.nil, fun i => ⟨fun h => (nomatch h), fun h => absurd h.1 (Nat.not_lt_zero _)⟩, .nil⟩
    refine evalR_call ?_
    show EvalR (defs ord) (relBody ord ⟨.member, [x, l], d⟩ a.nextVar).2 { a with nextVar := a.nextVar + 4 } []
    rw [body_member]
    refine evalR_oneOf d _ _ _ ⟨[], [], ?_, ⟨[], [], ?_, rfl, rfl⟩, rfl⟩
    · exact chain_nil_of_none r1
    · exact chain_nil_of_none r3
  | succ n ih =>
    intro x l a bx bl hp hi hd hlen hnf
    have hle : a.nextVar ≤ a.nextVar + 4 := Nat.le_add_right _ _
    have hi' : RInv { a with nextVar := a.nextVar + 4 } := rinv_bump 4 hi
    have hd' : DNF { a with nextVar := a.nextVar + 4 } := hd
    -- a valuation with `l = [y | ys]` extended to two fresh variables holding `y` and `ys`
    have ext : ∀ (k k' : Nat), k ≠ k' → k < 4 → k' < 4 → ∀ (γ : Subst) (y : Term) (ys : List Term), StateSem γ a →
        apply γ l = ofList (y :: ys) → ∃ γ1, Agree a.nextVar γ γ1 ∧ StateSem γ1 { a with nextVar := a.nextVar + 4 } ∧
          γ1 (a.nextVar + k) = y ∧ γ1 (a.nextVar + k') = ofList ys ∧
          (TAtom.eq l (.cons (.var (a.nextVar + k)) (.var (a.nextVar + k')))).Sat γ1 := by
      intro k k' hkk hk hk' γ y ys hγ e
      have hag : Agree a.nextVar γ (setV (setV γ (a.nextVar + k) y) (a.nextVar + k') (ofList ys)) :=
        (agree_setV γ y (by omega)).trans (agree_setV _ _ (by omega))
      have w1 : setV (setV γ (a.nextVar + k) y) (a.nextVar + k') (ofList ys) (a.nextVar + k) = y := by
        rw [setV_other _ _ (by omega), setV_self]
      have w2 : setV (setV γ (a.nextVar + k) y) (a.nextVar + k') (ofList ys) (a.nextVar + k') = ofList ys := setV_self _ _ _
      refine ⟨_, hag, hi.2 _ _ hag hγ, w1, w2, ?_⟩
      simp only [TAtom.Sat, apply]
      rw [← apply_of_agree bl hag, e, w1, w2]
      rfl
    -- the first atom of either clause: `l == [v_k | v_k']` succeeds with an unpoisoned state
    have first : ∀ (k k' : Nat), k ≠ k' → k < 4 → k' < 4 →
        (∀ c, Big (defs ord) (eqG ord l (.cons (.var (a.nextVar + k)) (.var (a.nextVar + k')))) { a with nextVar := a.nextVar + 4 } c →
          c.panic.isSome = true → False) →
        ∃ c, (liftRes fun st => postAtom ord st (.eq l (.cons (.var (a.nextVar + k)) (.var (a.nextVar + k'))))) { a with nextVar := a.nextVar + 4 } = some c ∧
          c.panic.isSome = false ∧ RInv c ∧ DNF c ∧ c.nextVar = a.nextVar + 4 ∧
          ∀ γ, StateSem γ c ↔ (StateSem γ a ∧ (TAtom.eq l (.cons (.var (a.nextVar + k)) (.var (a.nextVar + k')))).Sat γ) := by
      intro k k' hkk hk hk' nopoison
      rcases atom_eval ho (.eq l (.cons (.var (a.nextVar + k)) (.var (a.nextVar + k')))) (a := { a with nextVar := a.nextVar + 4 })
        ⟨bl.mono hle, below_cons (below_var (by show a.nextVar + k < a.nextVar + 4; omega)) (below_var (by show a.nextVar + k' < a.nextVar + 4; omega))⟩
        hp hi' hd' with ⟨_, nos⟩ | ⟨b, e, pb⟩ | ⟨b, e, ub, ib, db, nvb, sem⟩
      · obtain ⟨γ0, hγ0⟩ := rinv_sat hi hd
        obtain ⟨ys0, hl0, e0⟩ := hlen γ0 hγ0
        cases ys0 with
        | nil => simp at hl0
        | cons y ys =>
          obtain ⟨γ1, _, h1, _, _, hs⟩ := ext k k' hkk hk hk' γ0 y ys hγ0 e0
          exact (nos γ1 h1 hs).elim
      · exact (nopoison b (big_atom.2 e) pb).elim
      · exact ⟨b, e, ub, ib, db, nvb, sem⟩
    -- clause 1: `l == [v0 | v1], v0 == x`
    obtain ⟨c1, e1c, u1, i1, d1, nv1, sem1⟩ := first 0 1 (by omega) (by omega) (by omega) (fun c hc pc => by
      have := hnf c (by
        rw [big_call_rel, body_member]
        exact (big_oneOf d _ _ _).2 ⟨_, List.mem_cons_self, c, hc, c, flow_atom _ pc, rfl⟩)
      rw [this] at pc; cases pc)
    have big1 : ∀ b, Big (defs ord) (eqG ord (.var (a.nextVar + 0)) x) c1 b → Big (defs ord) (.call ⟨.member, [x, l], d⟩) a b := fun b hb => by
      rw [big_call_rel, body_member]
      exact (big_oneOf d _ _ _).2 ⟨_, List.mem_cons_self, c1, big_atom.2 e1c, b, hb, rfl⟩
    obtain ⟨r1, p1, C1, Z1, P1, M1⟩ : ∃ (r1 : List State) (p1 : List Nat),
        ChainR (defs ord) [eqG ord (.var (a.nextVar + 0)) x] c1 r1 ∧
        Zip2 (fun b i => Describes a (At x l i) b) r1 p1 ∧ (p1 = [] ∨ p1 = [0]) ∧
        (0 ∈ p1 ↔ ∃ γ, StateSem γ a ∧ At x l 0 γ) := by
      rcases atom_eval ho (.eq (.var (a.nextVar + 0)) x) (a := c1)
        ⟨below_var (by rw [nv1]; omega), bx.mono (by rw [nv1]; exact hle)⟩ u1 i1 d1 with ⟨e2, nos⟩ | ⟨b, e2, pb⟩ | ⟨b, e2, ub, ib, db, nvb, sem2⟩
      · refine ⟨[], [], ?_, .nil, .inl rfl, ⟨fun h => (nomatch h), fun ⟨γ, hγ, ys, el, ei⟩ => ?_⟩⟩
        · have := chain_atom1 (ord := ord) (liftRes fun st => postAtom ord st (.eq (.var (a.nextVar + 0)) x)) c1
          rw [e2] at this; exact this
        · cases ys with
          | nil => simp at ei
          | cons y ys =>
            simp only [List.getElem?_cons_zero, Option.some.injEq] at ei
            obtain ⟨γ1, hag, h1, w0, _, hs⟩ := ext 0 1 (by omega) (by omega) (by omega) γ y ys hγ el
            refine (nos γ1 ((sem1 γ1).2 ⟨h1, hs⟩) ?_).elim
            simp only [TAtom.Sat, apply]
            rw [w0, ei, apply_of_agree bx hag]
      · have := hnf b (big1 b (big_atom.2 e2))
        rw [this] at pb; cases pb
      · have desc : Describes a (At x l 0) b := by
          refine ⟨ub, ib, db, by rw [nvb, nv1]; exact hle, fun γ hγ => ?_, fun γ hγ ⟨ys, el, ei⟩ => ?_⟩
          · have h2 := (sem2 γ).1 hγ
            have h1 := (sem1 γ).1 h2.1
            refine ⟨h1.1, ?_⟩
            obtain ⟨ys, _, el⟩ := hlen γ h1.1
            refine ⟨ys, el, ?_⟩
            have s1 := h1.2
            have s2 := h2.2
            simp only [TAtom.Sat, apply] at s1 s2
            rw [el] at s1
            cases ys with
            | nil => cases s1
            | cons y ys =>
              simp only [ofList, Term.cons.injEq] at s1
              simp only [List.getElem?_cons_zero, Option.some.injEq]
              rw [s1.1, s2]
          · cases ys with
            | nil => simp at ei
            | cons y ys =>
              simp only [List.getElem?_cons_zero, Option.some.injEq] at ei
              obtain ⟨γ1, hag, h1, w0, _, hs⟩ := ext 0 1 (by omega) (by omega) (by omega) γ y ys hγ el
              refine ⟨γ1, hag, (sem2 γ1).2 ⟨(sem1 γ1).2 ⟨h1, hs⟩, ?_⟩⟩
              simp only [TAtom.Sat, apply]
              rw [w0, ei, apply_of_agree bx hag]
        refine ⟨[b], [0], ?_, .cons desc .nil, .inr rfl, ⟨fun _ => ?_, fun _ => List.mem_cons_self⟩⟩
        · have := chain_atom1 (ord := ord) (liftRes fun st => postAtom ord st (.eq (.var (a.nextVar + 0)) x)) c1
          rw [e2] at this; exact this
        · obtain ⟨γ, hγ⟩ := rinv_sat ib db
          exact ⟨γ, (desc.snd γ hγ).1, (desc.snd γ hγ).2⟩
    -- clause 2: `l == [v3 | v2], member(x, v2)`
    have big3 : ∀ c b, Big (defs ord) (eqG ord l (.cons (.var (a.nextVar + 3)) (.var (a.nextVar + 2)))) { a with nextVar := a.nextVar + 4 } c →
        Big (defs ord) (.call ⟨.member, [x, .var (a.nextVar + 2)], d⟩) c b → Big (defs ord) (.call ⟨.member, [x, l], d⟩) a b := fun c b hc hb => by
      rw [big_call_rel, body_member]
      exact (big_oneOf d _ _ _).2 ⟨_, List.mem_cons_of_mem _ List.mem_cons_self, c, hc, b, hb, rfl⟩
    obtain ⟨c3, e3c, u3, i3, d3, nv3, sem3⟩ := first 3 2 (by omega) (by omega) (by omega) (fun c hc pc => by
      obtain ⟨q, hq, pq⟩ := flow_member (ord := ord) x (.var (a.nextVar + 2)) d pc
      have := hnf q (big3 c q hc hq)
      rw [this] at pq; cases pq)
    have len3 : ListLen n (.var (a.nextVar + 2)) c3 := by
      intro γ hγ
      have h3 := (sem3 γ).1 hγ
      obtain ⟨ys, hl, el⟩ := hlen γ h3.1
      have s3 := h3.2
      simp only [TAtom.Sat, apply] at s3
      rw [el] at s3
      cases ys with
      | nil => cases s3
      | cons y ys =>
        simp only [ofList, Term.cons.injEq] at s3
        exact ⟨ys, by simpa using hl, by simp only [apply]; exact s3.2.symm⟩
    obtain ⟨ys', ps', E', PW', M', Z'⟩ := ih x (.var (a.nextVar + 2)) c3 (bx.mono (by rw [nv3]; exact hle))
      (below_var (by rw [nv3]; omega)) u3 i3 d3 len3 (fun b hb => hnf b (big3 c3 b (big_atom.2 e3c) hb))
    -- an answer for position i of the tail is an answer for position i + 1
    have shift : ∀ b i, Describes c3 (At x (.var (a.nextVar + 2)) i) b → Describes a (At x l (i + 1)) b := by
      intro b i h
      refine ⟨h.unp, h.inv, h.dnf, by have := h.nv; omega, fun γ hγ => ?_, fun γ hγ ⟨ys, el, ei⟩ => ?_⟩
      · obtain ⟨h3c, ts, et, ei⟩ := h.snd γ hγ
        have h3 := (sem3 γ).1 h3c
        refine ⟨h3.1, ?_⟩
        have s3 := h3.2
        simp only [TAtom.Sat, apply] at s3 et
        exact ⟨γ (a.nextVar + 3) :: ts, by rw [s3, et]; rfl, by simpa using ei⟩
      · cases ys with
        | nil => simp at ei
        | cons y ys =>
          simp only [List.getElem?_cons_succ] at ei
          obtain ⟨γ1, hag, h1, _, w2, hs⟩ := ext 3 2 (by omega) (by omega) (by omega) γ y ys hγ el
          have hc3 : StateSem γ1 c3 := (sem3 γ1).2 ⟨h1, hs⟩
          obtain ⟨γ', hag', hb'⟩ := h.cmp γ1 hc3 ⟨ys, by simp only [apply]; exact w2, by rw [ei, apply_of_agree bx hag]⟩
          exact ⟨γ', hag.trans (hag'.mono (by rw [nv3]; exact hle)), hb'⟩
    refine ⟨r1 ++ ys', p1 ++ ps'.map (· + 1), ?_, ?_, ?_, zip2_append Z1 (zip2_map (· + 1) shift Z')⟩
    · refine evalR_call ?_
      show EvalR (defs ord) (relBody ord ⟨.member, [x, l], d⟩ a.nextVar).2 { a with nextVar := a.nextVar + 4 } (r1 ++ ys')
      rw [body_member]
      refine evalR_oneOf d _ _ _ ⟨r1, ys', chain_of_some e1c C1, ⟨ys', [], ?_, rfl, by simp⟩, rfl⟩
      exact chain_of_some e3c ⟨ys', E', flatR_id ys'⟩
    · rw [List.pairwise_append]
      refine ⟨by rcases P1 with rfl | rfl <;> simp, (List.pairwise_map).2 (PW'.imp (by intro a b h; omega)), ?_⟩
      intro i hi j hj
      obtain ⟨k, _, rfl⟩ := List.mem_map.1 hj
      rcases P1 with rfl | rfl
      · cases hi
      · simp only [List.mem_singleton] at hi; omega
    · intro i
      simp only [List.mem_append, List.mem_map]
      constructor
      · rintro (h | ⟨k, hk, rfl⟩)
        · have i0 : i = 0 := by
            rcases P1 with rfl | rfl
            · cases h
            · simpa using h
          subst i0
          exact ⟨Nat.succ_pos _, M1.1 h⟩
        · obtain ⟨hkn, γ, hγ, ts, et, ei⟩ := (M' k).1 hk
          have h3 := (sem3 γ).1 hγ
          have s3 := h3.2
          simp only [TAtom.Sat, apply] at s3 et
          exact ⟨Nat.succ_lt_succ hkn, γ, h3.1, γ (a.nextVar + 3) :: ts, by rw [s3, et]; rfl, by simpa using ei⟩
      · rintro ⟨hin, γ, hγ, ys, el, ei⟩
        cases i with
        | zero => exact .inl (M1.2 ⟨γ, hγ, ys, el, ei⟩)
        | succ k =>
          refine .inr ⟨k, (M' k).2 ⟨Nat.lt_of_succ_lt_succ hin, ?_⟩, rfl⟩
          cases ys with
          | nil => simp at ei
          | cons y ys =>
            simp only [List.getElem?_cons_succ] at ei
            obtain ⟨γ1, hag, h1, _, w2, hs⟩ := ext 3 2 (by omega) (by omega) (by omega) γ y ys hγ el
            exact ⟨γ1, (sem3 γ1).2 ⟨h1, hs⟩, ys, by simp only [apply]; exact w2, by rw [ei, apply_of_agree bx hag]⟩

/-! ### member1 -/

/-- `γ` makes `x` the element at position `i` of `l`, and no earlier element equals it -/
def At1 (x l : Term) (i : Nat) (γ : Subst) : Prop :=
  ∃ ys : List Term, apply γ l = ofList ys ∧ ys[i]? = some (apply γ x) ∧ ∀ j, j < i → ys[j]? ≠ some (apply γ x)

theorem evalR_conjLOf (d : Bool) (gs : List G) (a : State) (zs : List State) (h : ChainR (defs ord) gs a zs) :
    EvalR (defs ord) (conjLOf d gs) a zs := by
  unfold conjLOf
  cases d with
  | true => exact evalR_conjDOfList gs a zs h
  | false => exact evalR_conjOfList gs a zs h

/-- `member1`: one answer per position that is the FIRST occurrence of its value (one per distinct value) -/
theorem member1_count (ho : OrderOK ord) (d : Bool) : ∀ (n : Nat) (x l : Term) (a : State),
    Below a.nextVar x → Below a.nextVar l → a.panic.isSome = false → RInv a → DNF a → ListLen n l a →
    (∀ b, Big (defs ord) (.call ⟨.member1, [x, l], d⟩) a b → b.panic.isSome = false) →
    ∃ (ys : List State) (ps : List Nat), EvalR (defs ord) (.call ⟨.member1, [x, l], d⟩) a ys ∧ ps.Pairwise (· < ·) ∧
      (∀ i, i ∈ ps ↔ (i < n ∧ ∃ γ, StateSem γ a ∧ At1 x l i γ)) ∧
      Zip2 (fun b i => Describes a (At1 x l i) b) ys ps := by
  intro n
  induction n with
  | zero =>
    intro x l a bx bl hp hi hd hlen hnf
    have hle : a.nextVar ≤ a.nextVar + 5 := Nat.le_add_right _ _
    have hi' : RInv { a with nextVar := a.nextVar + 5 } := rinv_bump 5 hi
    have hd' : DNF { a with nextVar := a.nextVar + 5 } := hd
    have nocons : ∀ (h t : Term), ∀ γ, StateSem γ { a with nextVar := a.nextVar + 5 } → ¬ (TAtom.eq l (.cons h t)).Sat γ := by
      intro h t γ hγ hs
      obtain ⟨ys, hl0, e⟩ := hlen γ hγ
      cases ys with
      | nil => simp only [TAtom.Sat, apply] at hs; rw [e] at hs; cases hs
      | cons _ _ => simp at hl0
    have ev : ∀ (k k' : Nat), k < 5 → k' < 5 →
        (liftRes fun st => postAtom ord st (.eq l (.cons (.var (a.nextVar + k)) (.var (a.nextVar + k'))))) { a with nextVar := a.nextVar + 5 } = none ∨
        ∃ b, Big (defs ord) (eqG ord l (.cons (.var (a.nextVar + k)) (.var (a.nextVar + k')))) { a with nextVar := a.nextVar + 5 } b ∧ b.panic.isSome = true := by
      intro k k' hk hk'
      rcases atom_eval ho (.eq l (.cons (.var (a.nextVar + k)) (.var (a.nextVar + k')))) (a := { a with nextVar := a.nextVar + 5 })
        ⟨bl.mono hle, below_cons (below_var (by show a.nextVar + k < a.nextVar + 5; omega)) (below_var (by show a.nextVar + k' < a.nextVar + 5; omega))⟩
        hp hi' hd' with ⟨e, _⟩ | ⟨b, e, pb⟩ | ⟨b, e, _, ib, db, _, sem⟩
      · exact .inl e
      · exact .inr ⟨b, big_atom.2 e, pb⟩
      · obtain ⟨γ, hγ⟩ := rinv_sat ib db
        exact (nocons _ _ γ ((sem γ).1 hγ).1 ((sem γ).1 hγ).2).elim
    have r1 : (liftRes fun st => postAtom ord st (.eq l (.cons (.var (a.nextVar + 0)) (.var (a.nextVar + 1))))) { a with nextVar := a.nextVar + 5 } = none := by
      rcases ev 0 1 (by omega) (by omega) with e | ⟨b, hb, pb⟩
      · exact e
      · have := hnf b (by
          rw [big_call_rel, body_member1]
          exact (big_oneOf d _ _ _).2 ⟨_, List.mem_cons_self, b, hb, b, flow_atom _ pb, rfl⟩)
        rw [this] at pb; cases pb
    have r3 : (liftRes fun st => postAtom ord st (.eq l (.cons (.var (a.nextVar + 3)) (.var (a.nextVar + 2))))) { a with nextVar := a.nextVar + 5 } = none := by
      rcases ev 3 2 (by omega) (by omega) with e | ⟨b, hb, pb⟩
      · exact e
      · obtain ⟨q, hq, pq⟩ := flow_member1 (ord := ord) x (.var (a.nextVar + 2)) d pb
        have := hnf q (by
          rw [big_call_rel, body_member1]
          exact (big_oneOf d _ _ _).2 ⟨_, List.mem_cons_of_mem _ List.mem_cons_self, b, hb, q,
            (big_conjLOf d _ _ _).2 ⟨b, flow_atom _ pb, q, hq, rfl⟩, rfl⟩)
        rw [this] at pq; cases pq
    refine ⟨[], [], ?_, List.Pairwise.nil, fun i => ⟨fun h => (nomatch h), fun h => absurd h.1 (Nat.not_lt_zero _)⟩, .nil⟩
    refine evalR_call ?_
    show EvalR (defs ord) (relBody ord ⟨.member1, [x, l], d⟩ a.nextVar).2 { a with nextVar := a.nextVar + 5 } []
    rw [body_member1]
    refine evalR_oneOf d _ _ _ ⟨[], [], ?_, ⟨[], [], ?_, rfl, rfl⟩, rfl⟩
    · exact chain_nil_of_none r1
    · exact chain_nil_of_none r3
  | succ n ih =>
    intro x l a bx bl hp hi hd hlen hnf
    have hle : a.nextVar ≤ a.nextVar + 5 := Nat.le_add_right _ _
    have hi' : RInv { a with nextVar := a.nextVar + 5 } := rinv_bump 5 hi
    have hd' : DNF { a with nextVar := a.nextVar + 5 } := hd
    have ext : ∀ (k k' : Nat), k ≠ k' → k < 5 → k' < 5 → ∀ (γ : Subst) (y : Term) (ys : List Term), StateSem γ a →
        apply γ l = ofList (y :: ys) → ∃ γ1, Agree a.nextVar γ γ1 ∧ StateSem γ1 { a with nextVar := a.nextVar + 5 } ∧
          γ1 (a.nextVar + k) = y ∧ γ1 (a.nextVar + k') = ofList ys ∧
          (TAtom.eq l (.cons (.var (a.nextVar + k)) (.var (a.nextVar + k')))).Sat γ1 := by
      intro k k' hkk hk hk' γ y ys hγ e
      have hag : Agree a.nextVar γ (setV (setV γ (a.nextVar + k) y) (a.nextVar + k') (ofList ys)) :=
        (agree_setV γ y (by omega)).trans (agree_setV _ _ (by omega))
      have w1 : setV (setV γ (a.nextVar + k) y) (a.nextVar + k') (ofList ys) (a.nextVar + k) = y := by
        rw [setV_other _ _ (by omega), setV_self]
      have w2 : setV (setV γ (a.nextVar + k) y) (a.nextVar + k') (ofList ys) (a.nextVar + k') = ofList ys := setV_self _ _ _
      refine ⟨_, hag, hi.2 _ _ hag hγ, w1, w2, ?_⟩
      simp only [TAtom.Sat, apply]
      rw [← apply_of_agree bl hag, e, w1, w2]
      rfl
    have first : ∀ (k k' : Nat), k ≠ k' → k < 5 → k' < 5 →
        (∀ c, Big (defs ord) (eqG ord l (.cons (.var (a.nextVar + k)) (.var (a.nextVar + k')))) { a with nextVar := a.nextVar + 5 } c →
          c.panic.isSome = true → False) →
        ∃ c, (liftRes fun st => postAtom ord st (.eq l (.cons (.var (a.nextVar + k)) (.var (a.nextVar + k'))))) { a with nextVar := a.nextVar + 5 } = some c ∧
          c.panic.isSome = false ∧ RInv c ∧ DNF c ∧ c.nextVar = a.nextVar + 5 ∧
          ∀ γ, StateSem γ c ↔ (StateSem γ a ∧ (TAtom.eq l (.cons (.var (a.nextVar + k)) (.var (a.nextVar + k')))).Sat γ) := by
      intro k k' hkk hk hk' nopoison
      rcases atom_eval ho (.eq l (.cons (.var (a.nextVar + k)) (.var (a.nextVar + k')))) (a := { a with nextVar := a.nextVar + 5 })
        ⟨bl.mono hle, below_cons (below_var (by show a.nextVar + k < a.nextVar + 5; omega)) (below_var (by show a.nextVar + k' < a.nextVar + 5; omega))⟩
        hp hi' hd' with ⟨_, nos⟩ | ⟨b, e, pb⟩ | ⟨b, e, ub, ib, db, nvb, sem⟩
      · obtain ⟨γ0, hγ0⟩ := rinv_sat hi hd
        obtain ⟨ys0, hl0, e0⟩ := hlen γ0 hγ0
        cases ys0 with
        | nil => simp at hl0
        | cons y ys =>
          obtain ⟨γ1, _, h1, _, _, hs⟩ := ext k k' hkk hk hk' γ0 y ys hγ0 e0
          exact (nos γ1 h1 hs).elim
      · exact (nopoison b (big_atom.2 e) pb).elim
      · exact ⟨b, e, ub, ib, db, nvb, sem⟩
    -- clause 1: `l == [v0 | v1], v0 == x`
    obtain ⟨c1, e1c, u1, i1, d1, nv1, sem1⟩ := first 0 1 (by omega) (by omega) (by omega) (fun c hc pc => by
      have := hnf c (by
        rw [big_call_rel, body_member1]
        exact (big_oneOf d _ _ _).2 ⟨_, List.mem_cons_self, c, hc, c, flow_atom _ pc, rfl⟩)
      rw [this] at pc; cases pc)
    have big1 : ∀ b, Big (defs ord) (eqG ord (.var (a.nextVar + 0)) x) c1 b → Big (defs ord) (.call ⟨.member1, [x, l], d⟩) a b := fun b hb => by
      rw [big_call_rel, body_member1]
      exact (big_oneOf d _ _ _).2 ⟨_, List.mem_cons_self, c1, big_atom.2 e1c, b, hb, rfl⟩
    obtain ⟨r1, p1, C1, Z1, P1, M1⟩ : ∃ (r1 : List State) (p1 : List Nat),
        ChainR (defs ord) [eqG ord (.var (a.nextVar + 0)) x] c1 r1 ∧
        Zip2 (fun b i => Describes a (At1 x l i) b) r1 p1 ∧ (p1 = [] ∨ p1 = [0]) ∧
        (0 ∈ p1 ↔ ∃ γ, StateSem γ a ∧ At1 x l 0 γ) := by
      rcases atom_eval ho (.eq (.var (a.nextVar + 0)) x) (a := c1)
        ⟨below_var (by rw [nv1]; omega), bx.mono (by rw [nv1]; exact hle)⟩ u1 i1 d1 with ⟨e2, nos⟩ | ⟨b, e2, pb⟩ | ⟨b, e2, ub, ib, db, nvb, sem2⟩
      · refine ⟨[], [], ?_, .nil, .inl rfl, ⟨fun h => (nomatch h), fun ⟨γ, hγ, ys, el, ei, _⟩ => ?_⟩⟩
        · have := chain_atom1 (ord := ord) (liftRes fun st => postAtom ord st (.eq (.var (a.nextVar + 0)) x)) c1
          rw [e2] at this; exact this
        · cases ys with
          | nil => simp at ei
          | cons y ys =>
            simp only [List.getElem?_cons_zero, Option.some.injEq] at ei
            obtain ⟨γ1, hag, h1, w0, _, hs⟩ := ext 0 1 (by omega) (by omega) (by omega) γ y ys hγ el
            refine (nos γ1 ((sem1 γ1).2 ⟨h1, hs⟩) ?_).elim
            simp only [TAtom.Sat, apply]
            rw [w0, ei, apply_of_agree bx hag]
      · have := hnf b (big1 b (big_atom.2 e2))
        rw [this] at pb; cases pb
      · have desc : Describes a (At1 x l 0) b := by
          refine ⟨ub, ib, db, by rw [nvb, nv1]; exact hle, fun γ hγ => ?_, fun γ hγ ⟨ys, el, ei, _⟩ => ?_⟩
          · have h2 := (sem2 γ).1 hγ
            have h1 := (sem1 γ).1 h2.1
            refine ⟨h1.1, ?_⟩
            obtain ⟨ys, _, el⟩ := hlen γ h1.1
            refine ⟨ys, el, ?_, fun j hj => absurd hj (Nat.not_lt_zero _)⟩
            have s1 := h1.2
            have s2 := h2.2
            simp only [TAtom.Sat, apply] at s1 s2
            rw [el] at s1
            cases ys with
            | nil => cases s1
            | cons y ys =>
              simp only [ofList, Term.cons.injEq] at s1
              simp only [List.getElem?_cons_zero, Option.some.injEq]
              rw [s1.1, s2]
          · cases ys with
            | nil => simp at ei
            | cons y ys =>
              simp only [List.getElem?_cons_zero, Option.some.injEq] at ei
              obtain ⟨γ1, hag, h1, w0, _, hs⟩ := ext 0 1 (by omega) (by omega) (by omega) γ y ys hγ el
              refine ⟨γ1, hag, (sem2 γ1).2 ⟨(sem1 γ1).2 ⟨h1, hs⟩, ?_⟩⟩
              simp only [TAtom.Sat, apply]
              rw [w0, ei, apply_of_agree bx hag]
        refine ⟨[b], [0], ?_, .cons desc .nil, .inr rfl, ⟨fun _ => ?_, fun _ => List.mem_cons_self⟩⟩
        · have := chain_atom1 (ord := ord) (liftRes fun st => postAtom ord st (.eq (.var (a.nextVar + 0)) x)) c1
          rw [e2] at this; exact this
        · obtain ⟨γ, hγ⟩ := rinv_sat ib db
          exact ⟨γ, (desc.snd γ hγ).1, (desc.snd γ hγ).2⟩
    -- clause 2: `l == [v3 | v2], v3 != x, member1(x, v2)`
    have big3 : ∀ c c' b, Big (defs ord) (eqG ord l (.cons (.var (a.nextVar + 3)) (.var (a.nextVar + 2)))) { a with nextVar := a.nextVar + 5 } c →
        Big (defs ord) (diseqG ord (.var (a.nextVar + 3)) x) c c' →
        Big (defs ord) (.call ⟨.member1, [x, .var (a.nextVar + 2)], d⟩) c' b → Big (defs ord) (.call ⟨.member1, [x, l], d⟩) a b := fun c c' b hc hc' hb => by
      rw [big_call_rel, body_member1]
      exact (big_oneOf d _ _ _).2 ⟨_, List.mem_cons_of_mem _ List.mem_cons_self, c, hc, b,
        (big_conjLOf d _ _ _).2 ⟨c', hc', b, hb, rfl⟩, rfl⟩
    obtain ⟨c3, e3c, u3, i3, d3, nv3, sem3⟩ := first 3 2 (by omega) (by omega) (by omega) (fun c hc pc => by
      obtain ⟨q, hq, pq⟩ := flow_member1 (ord := ord) x (.var (a.nextVar + 2)) d pc
      have := hnf q (big3 c c q hc (flow_atom _ pc) hq)
      rw [this] at pq; cases pq)
    -- the answers of the rest of clause 2 from c3
    obtain ⟨ys', ps', E', PW', M', Z'⟩ : ∃ (ys' : List State) (ps' : List Nat),
        ChainR (defs ord) [diseqG ord (.var (a.nextVar + 3)) x, .call ⟨.member1, [x, .var (a.nextVar + 2)], d⟩] c3 ys' ∧
        ps'.Pairwise (· < ·) ∧
        (∀ i, i ∈ ps' ↔ (i < n ∧ ∃ γ, StateSem γ a ∧ At1 x l (i + 1) γ)) ∧
        Zip2 (fun b i => Describes a (At1 x l (i + 1)) b) ys' ps' := by
      rcases atom_eval ho (.neq (.var (a.nextVar + 3)) x) (a := c3)
        ⟨below_var (by rw [nv3]; omega), bx.mono (by rw [nv3]; exact hle)⟩ u3 i3 d3 with ⟨e4, nos⟩ | ⟨b, e4, pb⟩ | ⟨c4, e4, u4, i4, d4, nv4, sem4⟩
      · -- the head equals `x` under every described valuation: no later position is a first occurrence
        refine ⟨[], [], chain_nil_of_none e4, List.Pairwise.nil, fun i => ⟨fun h => (nomatch h), fun ⟨_, γ, hγ, ys, el, ei, hfirst⟩ => ?_⟩, .nil⟩
        cases ys with
        | nil => simp at ei
        | cons y ys =>
          obtain ⟨γ1, hag, h1, w3, _, hs⟩ := ext 3 2 (by omega) (by omega) (by omega) γ y ys hγ el
          refine (nos γ1 ((sem3 γ1).2 ⟨h1, hs⟩) ?_).elim
          simp only [TAtom.Sat, apply]
          rw [w3, ← apply_of_agree bx hag]
          intro e
          exact hfirst 0 (Nat.succ_pos _) (by simp [e])
      · obtain ⟨q, hq, pq⟩ := flow_member1 (ord := ord) x (.var (a.nextVar + 2)) d pb
        have := hnf q (big3 c3 b q (big_atom.2 e3c) (big_atom.2 e4) hq)
        rw [this] at pq; cases pq
      · have nv4' : c4.nextVar = a.nextVar + 5 := nv4.trans nv3
        have len4 : ListLen n (.var (a.nextVar + 2)) c4 := by
          intro γ hγ
          have h3 := (sem3 γ).1 ((sem4 γ).1 hγ).1
          obtain ⟨ys, hl, el⟩ := hlen γ h3.1
          have s3 := h3.2
          simp only [TAtom.Sat, apply] at s3
          rw [el] at s3
          cases ys with
          | nil => cases s3
          | cons y ys =>
            simp only [ofList, Term.cons.injEq] at s3
            exact ⟨ys, by simpa using hl, by simp only [apply]; exact s3.2.symm⟩
        obtain ⟨ys', ps', E', PW', M', Z'⟩ := ih x (.var (a.nextVar + 2)) c4 (bx.mono (by rw [nv4']; exact hle))
          (below_var (by rw [nv4']; omega)) u4 i4 d4 len4
          (fun b hb => hnf b (big3 c3 c4 b (big_atom.2 e3c) (big_atom.2 e4) hb))
        -- from c4 to a: the head differs from `x`, the tail is `v2`
        have down : ∀ γ, StateSem γ c4 → StateSem γ a ∧ apply γ l = .cons (γ (a.nextVar + 3)) (γ (a.nextVar + 2)) ∧
            γ (a.nextVar + 3) ≠ apply γ x := by
          intro γ hγ
          have h4 := (sem4 γ).1 hγ
          have h3 := (sem3 γ).1 h4.1
          have s3 := h3.2
          have s4 := h4.2
          simp only [TAtom.Sat, apply] at s3 s4
          exact ⟨h3.1, s3, s4⟩
        have up : ∀ γ y ys, StateSem γ a → apply γ l = ofList (y :: ys) → y ≠ apply γ x →
            ∃ γ1, Agree a.nextVar γ γ1 ∧ StateSem γ1 c4 ∧ γ1 (a.nextVar + 2) = ofList ys := by
          intro γ y ys hγ el hne
          obtain ⟨γ1, hag, h1, w3, w2, hs⟩ := ext 3 2 (by omega) (by omega) (by omega) γ y ys hγ el
          refine ⟨γ1, hag, (sem4 γ1).2 ⟨(sem3 γ1).2 ⟨h1, hs⟩, ?_⟩, w2⟩
          simp only [TAtom.Sat, apply]
          rw [w3, ← apply_of_agree bx hag]
          exact hne
        have at_down : ∀ γ i, StateSem γ c4 → At1 x (.var (a.nextVar + 2)) i γ → At1 x l (i + 1) γ := by
          intro γ i hγ ⟨ts, et, ei, hf⟩
          obtain ⟨_, el, hne⟩ := down γ hγ
          simp only [apply] at et
          refine ⟨γ (a.nextVar + 3) :: ts, by rw [el, et]; rfl, by simpa using ei, fun j hj => ?_⟩
          cases j with
          | zero => simpa using hne
          | succ j => simpa using hf j (by omega)
        have at_up : ∀ γ γ1 y ys i, Agree a.nextVar γ γ1 → apply γ l = ofList (y :: ys) → γ1 (a.nextVar + 2) = ofList ys →
            (y :: ys)[i + 1]? = some (apply γ x) → (∀ j, j < i + 1 → (y :: ys)[j]? ≠ some (apply γ x)) →
            At1 x (.var (a.nextVar + 2)) i γ1 := by
          intro γ γ1 y ys i hag _ w2 ei hf
          refine ⟨ys, by simp only [apply]; exact w2, by rw [← apply_of_agree bx hag]; simpa using ei, fun j hj => ?_⟩
          rw [← apply_of_agree bx hag]
          simpa using hf (j + 1) (by omega)
        refine ⟨ys', ps', chain_of_some e4 ⟨ys', E', flatR_id ys'⟩, PW', fun i => ?_, ?_⟩
        · rw [M' i]
          constructor
          · rintro ⟨hin, γ, hγ, hat⟩
            exact ⟨hin, γ, (down γ hγ).1, at_down γ i hγ hat⟩
          · rintro ⟨hin, γ, hγ, ys, el, ei, hf⟩
            cases ys with
            | nil => simp at ei
            | cons y ys =>
              have hne : y ≠ apply γ x := fun e => hf 0 (Nat.succ_pos _) (by simp [e])
              obtain ⟨γ1, hag, h4, w2⟩ := up γ y ys hγ el hne
              exact ⟨hin, γ1, h4, at_up γ γ1 y ys i hag el w2 ei hf⟩
        · refine zip2_map id (fun b i h => ?_) Z' |> fun z => by simpa using z
          refine ⟨h.unp, h.inv, h.dnf, by have := h.nv; omega, fun γ hγ => ?_, fun γ hγ ⟨ys, el, ei, hf⟩ => ?_⟩
          · obtain ⟨h4, hat⟩ := h.snd γ hγ
            exact ⟨(down γ h4).1, at_down γ i h4 hat⟩
          · cases ys with
            | nil => simp at ei
            | cons y ys =>
              have hne : y ≠ apply γ x := fun e => hf 0 (Nat.succ_pos _) (by simp [e])
              obtain ⟨γ1, hag, h4, w2⟩ := up γ y ys hγ el hne
              obtain ⟨γ', hag', hb'⟩ := h.cmp γ1 h4 (at_up γ γ1 y ys i hag el w2 ei hf)
              exact ⟨γ', hag.trans (hag'.mono (by rw [nv4']; exact hle)), hb'⟩
    refine ⟨r1 ++ ys', p1 ++ ps'.map (· + 1), ?_, ?_, ?_, zip2_append Z1 (zip2_map (· + 1) (fun _ _ h => h) Z')⟩
    · refine evalR_call ?_
      show EvalR (defs ord) (relBody ord ⟨.member1, [x, l], d⟩ a.nextVar).2 { a with nextVar := a.nextVar + 5 } (r1 ++ ys')
      rw [body_member1]
      refine evalR_oneOf d _ _ _ ⟨r1, ys', chain_of_some e1c C1, ⟨ys', [], ?_, rfl, by simp⟩, rfl⟩
      exact chain_of_some e3c ⟨ys', evalR_conjLOf d _ _ _ E', flatR_id ys'⟩
    · rw [List.pairwise_append]
      refine ⟨by rcases P1 with rfl | rfl <;> simp, (List.pairwise_map).2 (PW'.imp (by intro a b h; omega)), ?_⟩
      intro i hi j hj
      obtain ⟨k, _, rfl⟩ := List.mem_map.1 hj
      rcases P1 with rfl | rfl
      · cases hi
      · simp only [List.mem_singleton] at hi; omega
    · intro i
      simp only [List.mem_append, List.mem_map]
      constructor
      · rintro (h | ⟨k, hk, rfl⟩)
        · have i0 : i = 0 := by
            rcases P1 with rfl | rfl
            · cases h
            · simpa using h
          subst i0
          exact ⟨Nat.succ_pos _, M1.1 h⟩
        · obtain ⟨hkn, hex⟩ := (M' k).1 hk
          exact ⟨Nat.succ_lt_succ hkn, hex⟩
      · rintro ⟨hin, hex⟩
        cases i with
        | zero => exact .inl (M1.2 hex)
        | succ k => exact .inr ⟨k, (M' k).2 ⟨Nat.lt_of_succ_lt_succ hin, hex⟩, rfl⟩

end
end Pv
