/-
  The operations goals perform on a state, semantically: posting a constraint, `DomFd`, `!=`, and `==`
  (unification followed by `process_extension`: re-run of the store, then the finite-domain extension
  that moves the domain of every newly bound variable onto the term it was bound to).
-/
import PvModel.Proofs.FDRun
import PvModel.Proofs.UnifyExt
namespace Pv
open State Term FD
variable {I : Nat → Prop} [Mode]

/-- `Ref` without the claim that only numbers were bound (a unification binds variables to arbitrary terms) -/
def Ref0 (I : Nat → Prop) (S : Subst → Prop) (st : State) : Res State → Prop
  | .ok st' => WFS st' ∧ Inv st' ∧ ∀ γ, Sem I γ st' ↔ (Sem I γ st ∧ S γ)
  | .fail => ∀ γ, ¬ (Sem I γ st ∧ S γ)
  | .fuel => True
  | .panic s => Mode.allow ∧ DP s ∧ ∀ γ, ¬ (Sem I γ st ∧ S γ)

theorem sem_ignore_absent {st : State} {x : Nat} (hx : st.dget x = none) (γ : Subst) :
    Sem (fun y => I y ∨ y = x) γ st ↔ Sem I γ st := by
  unfold Sem DomSem
  constructor
  · rintro ⟨e, c, dm⟩
    exact ⟨e, c, fun p hp hn => dm p hp fun h => h.elim hn fun e => dget_none hx p hp e⟩
  · rintro ⟨e, c, dm⟩
    exact ⟨e, c, fun p hp hn => dm p hp fun h => hn (.inl h)⟩

theorem sem_ignore_dremove {st : State} {x : Nat} (γ : Subst) :
    Sem (fun y => I y ∨ y = x) γ (st.dremove x) ↔ Sem (fun y => I y ∨ y = x) γ st := by
  unfold Sem DomSem dremove
  constructor
  · rintro ⟨e, c, dm⟩
    refine ⟨e, c, fun p hp hn => dm p (List.mem_filter.2 ⟨hp, ?_⟩) hn⟩
    have : p.1 ≠ x := fun e => hn (.inr e)
    simpa using this
  · rintro ⟨e, c, dm⟩
    exact ⟨e, c, fun p hp hn => dm p (List.mem_filter.1 hp).1 hn⟩

/-- splitting off the entry of one variable -/
theorem sem_split_entry {st : State} (w : WFS st) {x : Nat} {d : FD} (hx : st.dget x = some d) (hnI : ¬ I x)
    (γ : Subst) :
    Sem I γ st ↔ (Sem (fun y => I y ∨ y = x) γ st ∧ InDom (.var x) d γ) := by
  unfold Sem DomSem InDom
  constructor
  · rintro ⟨e, c, dm⟩
    exact ⟨⟨e, c, fun p hp hn => dm p hp fun h => hn (.inl h)⟩, dm (x, d) (dget_mem hx) hnI⟩
  · rintro ⟨⟨e, c, dm⟩, hd⟩
    refine ⟨e, c, fun p hp hn => ?_⟩
    by_cases hpx : p.1 = x
    · have : p = (x, d) := by
        have h2 := dget_mem hx
        have := nodup_fst_unique w.dnodup (x := x) (d := p.2) (d' := d) (by rw [← hpx]; exact hp) h2
        cases p; simp only at hpx this; subst hpx; subst this; rfl
      subst this; exact hd
    · exact dm p hp fun h => h.elim hn hpx

theorem keeps_num {st st' : State} (k : Keeps st st') {y : Nat} {n : Int} (h : st.σ y = Term.num n) :
    st'.σ y = Term.num n := by
  have := k.ext (.var y)
  simp only [apply] at this
  rw [h] at this
  simpa [Term.num, apply] using this.symm

section Enf
variable {rc : State → Res State} (hrc : RcOK rc) (hrs : RcSem rc)
include hrs

/-- what `resolve_storable_domain` leaves behind ENFORCES the domain by itself: the variable is bound to a
    number of the domain, or carries the domain as its entry — whatever else the domain store holds -/
theorem resolveStorable_enf {st s2 : State} {y : Nat} {i : FD} (hI : IOK I st) (w : WFS st) (hi : Inv st)
    (hy : st.σ y = .var y) (hwi : WF i) (h : resolveStorable rc st y i = .ok s2) :
    ∀ γ x0, x0 ≠ y → Sem I γ (s2.dremove x0) → InDom (.var y) i γ := by
  unfold resolveStorable at h
  split at h
  · rename_i n hsv
    have hsing := (singletonValue_spec i hwi n).1 hsv
    generalize hst0 : ({ st with σ := bindS y (Term.num n) st.σ }.dremove y : State) = st0 at h
    have hσ0 : st0.σ = bindS y (Term.num n) st.σ := by subst hst0; rfl
    have hs0 : st0.store = st.store := by subst hst0; rfl
    have hd0 : st0.dstore = st.dstore.filter (fun p => p.1 != y) := by subst hst0; rfl
    have hbo := bind_ok (t := Term.num n) w.solved hy (by simp [Term.num, apply]) (by simp [Term.num, occurs])
    have w0 : WFS st0 := by
      refine ⟨by rw [hσ0]; exact hbo.1, ?_, ?_, by rw [hs0]; exact w.nodist⟩
      · rw [hd0]; exact (List.Sublist.map (fun q : Nat × FD => q.1) List.filter_sublist).nodup w.dnodup
      · intro p hp; rw [hd0] at hp; exact w.dwf p (List.mem_filter.1 hp).1
    have i0 : Inv st0 := by subst hst0; exact SameStore.inv ⟨rfl, rfl, rfl, rfl, rfl⟩ hi
    have hσy : st0.σ y = Term.num n := by rw [hσ0]; simp [bindS, hy, apply, sub1]
    have r := hrs I st0 hI w0 i0
    rw [h] at r
    have h2 : s2.σ y = Term.num n := keeps_num r.2.1 hσy
    intro γ x0 _ hs
    have hx : Ext s2.σ γ := hs.1
    refine ⟨n, ?_, (hsing n).2 rfl⟩
    have := hx (.var y)
    simp only [apply] at this
    rw [h2] at this
    unfold NumAt
    simpa [Term.num, apply] using this.symm
  · cases h
    intro γ x0 hne hs
    have hm : (y, i) ∈ ((st.dinsert y i).dremove x0).dstore := by
      simp only [dremove, dinsert]
      refine List.mem_filter.2 ⟨by simp, ?_⟩
      have : y ≠ x0 := fun e => hne e.symm
      simpa using this
    exact hs.2.2 (y, i) hm (hI y)

/-- the same for `process_domain` -/
theorem processDomain_enf {st s2 : State} {t : Term} {d : FD} (hI : IOK I st) (w : WFS st) (hi : Inv st)
    (hd : WFI d) (hdv : WF d ∨ ∀ y, walk st.σ t = .var y → (st.dget y).isSome)
    (h : processDomain rc st t d = .ok s2) :
    ∀ γ x0, st.σ x0 ≠ .var x0 → Ext st.σ γ → Sem I γ (s2.dremove x0) → InDom t d γ := by
  unfold processDomain at h
  split at h
  · rename_i y hy
    have hyu : st.σ y = .var y := walk_normal w.solved t y hy
    intro γ x0 hx0 hx hs
    have hne : x0 ≠ y := fun e => hx0 (e ▸ hyu)
    have back : ∀ i : FD, (∀ n, i.Mem n → d.Mem n) → InDom (.var y) i γ → InDom t d γ := fun i hsub ⟨n, hn, hni⟩ =>
      ⟨n, by rw [← numAt_walk w.solved hx, hy]; exact hn, hsub n hni⟩
    unfold updateVarDomain at h
    split at h
    · rename_i old hold
      have hwo : WF old := w.dwf _ (dget_mem hold)
      split at h
      · rename_i i hint
        obtain ⟨hwi, hmi⟩ := intersect_someI old d i hwo hd hint
        exact back i (fun n hn => ((hmi n).1 hn).2) (resolveStorable_enf hrs hI w hi hyu hwi h γ x0 hne hs)
      · cases h
    · rename_i hnone
      have hd' : WF d := by
        rcases hdv with h' | h'
        · exact h'
        · have := h' y hy; rw [hnone] at this; cases this
      exact back d (fun _ h => h) (resolveStorable_enf hrs hI w hi hyu hd' h γ x0 hne hs)
  · rename_i v hv
    split at h
    · rename_i hc
      cases h
      intro γ x0 _ hx _
      exact ⟨v, by rw [← numAt_walk w.solved hx, hv]; exact (numAt_num γ v v).2 rfl, (contains_spec d v).1 hc⟩
    · cases h
  · cases h

end Enf

section Step
variable {ord : Order} (ho : OrderOK ord)
include ho

/-- one variable of the extension: its domain is imposed on the term it was bound to, its entry removed,
    the store re-run.  The entry of the bound variable COUNTS until it is removed (the worker of `distinctfd`
    may read it in between); removing it loses nothing because `process_domain` has left the domain
    enforced on the term (`processDomain_enf`). -/
theorem extStep_sem {snap cur : State} (hI : IOK I cur) (w : WFS cur) (hi : Inv cur) {x : Nat} {t : Term}
    (hxb : cur.σ x ≠ .var x)
    (H1 : ∀ γ, Ext cur.σ γ → apply γ (.var x) = apply γ t)
    (hdx : cur.dget x = snap.dget x) :
    match (match snap.dget x with
      | some d =>
        (processDomain (runConstraintsF ord rcFuel) cur t d).bind fun st =>
          match st.dget x with
          | some _ => runConstraintsF ord (rcFuel + 1) (st.dremove x)
          | none => .fail
      | none => .ok cur) with
    | .ok s3 => WFS s3 ∧ Inv s3 ∧ Ext cur.σ s3.σ ∧ (∀ y, s3.σ y = .var y → cur.σ y = .var y) ∧
        (∀ y, y ≠ x → cur.σ y ≠ .var y → s3.dget y = cur.dget y) ∧ (∀ γ, Sem I γ s3 ↔ Sem I γ cur)
    | .fail => ∀ γ, ¬ Sem I γ cur
    | .fuel => True
    | .panic s => Mode.allow ∧ DP s ∧ ∀ γ, ¬ Sem I γ cur := by
  cases hsd : snap.dget x with
  | none =>
    show WFS cur ∧ Inv cur ∧ Ext cur.σ cur.σ ∧ (∀ y, cur.σ y = .var y → cur.σ y = .var y) ∧
        (∀ y, y ≠ x → cur.σ y ≠ .var y → cur.dget y = cur.dget y) ∧ (∀ γ, Sem I γ cur ↔ Sem I γ cur)
    exact ⟨w, hi, Ext.refl _ w.solved, fun _ h => h, fun _ _ _ => rfl, fun _ => Iff.rfl⟩
  | some d =>
    simp only
    rw [hsd] at hdx
    have hwd : WF d := w.dwf _ (dget_mem hdx)
    have hrc := runConstraintsF_ok ord rcFuel
    have hrs := runConstraintsF_sem ho rcFuel
    have p1 := processDomain_sem (I := I) hrs hI w hi (x := t) (WFI.of_wf hwd) (.inl hwd)
    -- the entry of `x` counts: under the state's substitution, `t ∈ d` is already required
    have hent : ∀ γ, Sem I γ cur → InDom t d γ := fun γ hs => by
      obtain ⟨n, hn, hnd⟩ := hs.2.2 (x, d) (dget_mem hdx) (hI x)
      exact ⟨n, by unfold NumAt at *; rw [← H1 γ hs.1]; exact hn, hnd⟩
    cases hp : processDomain (runConstraintsF ord rcFuel) cur t d with
    | ok s2 =>
      have enf := processDomain_enf hrs hI w hi (WFI.of_wf hwd) (.inl hwd) hp
      rw [hp] at p1
      obtain ⟨w2, k2, sem2⟩ := p1
      have i2 : Inv s2 := (processDomain_step hrc hi hp).inv
      simp only [Res.bind]
      have hd2 : s2.dget x = some d := by rw [k2.bound x hxb]; exact hdx
      rw [hd2]
      simp only
      have hxb2 : s2.σ x ≠ .var x := fun e => hxb (k2.mono x e)
      -- the state without x's entry
      have w2' : WFS (s2.dremove x) :=
        ⟨w2.solved, (List.Sublist.map (fun q : Nat × FD => q.1) List.filter_sublist).nodup w2.dnodup,
         fun p hp => w2.dwf p (List.mem_filter.1 hp).1, w2.nodist⟩
      have i2' : Inv (s2.dremove x) := SameStore.inv ⟨rfl, rfl, rfl, rfl, rfl⟩ i2
      have hnone : (s2.dremove x).dget x = none := by
        cases h : (s2.dremove x).dget x with
        | none => rfl
        | some d' =>
          have := dget_mem h
          simp only [dremove] at this
          have := (List.mem_filter.1 this).2
          simp at this
      -- removing the entry loses nothing
      have hrem : ∀ γ, Sem I γ (s2.dremove x) ↔ Sem I γ s2 := fun γ => by
        constructor
        · intro hs
          have hx2 : Ext s2.σ γ := hs.1
          have hxc : Ext cur.σ γ := Ext.trans k2.ext hx2
          obtain ⟨n, hn, hnd⟩ := enf γ x hxb hxc hs
          refine ⟨hs.1, hs.2.1, fun p hp hnI => ?_⟩
          by_cases hpx : p.1 = x
          · have : p = (x, d) := by
              have h2 := dget_mem hd2
              have := nodup_fst_unique w2.dnodup (x := x) (d := p.2) (d' := d) (by rw [← hpx]; exact hp) h2
              cases p; simp only at hpx this; subst hpx; subst this; rfl
            subst this
            exact ⟨n, by unfold NumAt at *; rw [H1 γ hxc]; exact hn, hnd⟩
          · exact hs.2.2 p (List.mem_filter.2 ⟨hp, by simpa using hpx⟩) hnI
        · rintro ⟨e, c, dm⟩
          exact ⟨e, c, fun p hp hn => dm p (List.mem_filter.1 hp).1 hn⟩
      have p3 := runConstraintsF_sem ho (rcFuel + 1) I (s2.dremove x) hI w2' i2'
      cases hr : runConstraintsF ord (rcFuel + 1) (s2.dremove x) with
      | ok s3 =>
        rw [hr] at p3
        obtain ⟨w3, k3, sem3⟩ := p3
        have i3 : Inv s3 := (runConstraintsF_ok ord (rcFuel + 1) _ _ i2' hr).inv
        refine ⟨w3, i3, Ext.trans k2.ext k3.ext, fun y hy => k2.mono y (k3.mono y hy), fun y hyx hyb => ?_, fun γ => ?_⟩
        · have hyb2 : s2.σ y ≠ .var y := fun e => hyb (k2.mono y e)
          rw [k3.bound y hyb2, dget_dremove_ne s2 hyx, k2.bound y hyb]
        · rw [sem3 γ, hrem γ, sem2 γ]
          exact ⟨fun a => a.1.1, fun a => ⟨⟨a, hent γ a⟩, trivial⟩⟩
      | fail =>
        rw [hr] at p3
        intro γ hs
        exact p3 γ ⟨(hrem γ).2 ((sem2 γ).2 ⟨hs, hent γ hs⟩), trivial⟩
      | fuel => trivial
      | panic s =>
        rw [hr] at p3
        exact ⟨p3.1, p3.2.1, fun γ hs => p3.2.2 γ ⟨(hrem γ).2 ((sem2 γ).2 ⟨hs, hent γ hs⟩), trivial⟩⟩
    | fail =>
      rw [hp] at p1
      simp only [Res.bind]
      intro γ hs
      exact p1 γ ⟨hs, hent γ hs⟩
    | fuel => trivial
    | panic s =>
      rw [hp] at p1
      exact ⟨p1.1, p1.2.1, fun γ hs => p1.2.2 γ ⟨hs, hent γ hs⟩⟩

end Step
end Pv

namespace Pv
open State Term FD
variable {I : Nat → Prop} [Mode]

/-- the body of the `process_extension_fd` loop -/
def extStep (ord : Order) (snap cur : State) (p : Nat × Term) : Res State :=
  match snap.dget p.1 with
  | some d =>
    (processDomain (runConstraintsF ord rcFuel) cur p.2 d).bind fun st =>
      match st.dget p.1 with
      | some _ => runConstraintsF ord (rcFuel + 1) (st.dremove p.1)
      | none => .fail
  | none => .ok cur

theorem processExtensionFd_eq (ord : Order) (st : State) (e : Ext1) :
    processExtensionFd ord st e =
      (ord.ps e).foldl (fun (r : Res State) p => r.bind fun cur => extStep ord st cur p) (.ok st) := rfl

theorem extFold_sem {ord : Order} (ho : OrderOK ord) (snap : State) (σ' : Subst) :
    ∀ (ps : Ext1) (cur : State), IOK I cur → WFS cur → Inv cur →
      (ps.map (·.1)).Nodup → (∀ p ∈ ps, σ' p.1 ≠ .var p.1 ∧ ¬ I p.1) →
      (∀ γ, Ext σ' γ → ∀ p ∈ ps, apply γ (.var p.1) = apply γ p.2) →
      Ext σ' cur.σ → (∀ y, cur.σ y = .var y → σ' y = .var y) →
      (∀ p ∈ ps, cur.dget p.1 = snap.dget p.1) →
      match ps.foldl (fun (r : Res State) p => r.bind fun cur => extStep ord snap cur p) (.ok cur) with
      | .ok s' => WFS s' ∧ Inv s' ∧ (∀ γ, Sem I γ s' ↔ Sem I γ cur)
      | .fail => ∀ γ, ¬ Sem I γ cur
      | .fuel => True
      | .panic s => Mode.allow ∧ DP s ∧ ∀ γ, ¬ Sem I γ cur
  | [], cur, _, w, hi, _, _, _, _, _, _ => ⟨w, hi, fun _ => Iff.rfl⟩
  | p :: ps, cur, hI, w, hi, hn, hb, hH, hext, hmono, hdg => by
    simp only [List.foldl_cons]
    have hb0 : ((Res.ok cur).bind fun cur => extStep ord snap cur p) = extStep ord snap cur p := rfl
    rw [hb0]
    have hpb : cur.σ p.1 ≠ .var p.1 := fun e => (hb p (List.mem_cons_self ..)).1 (hmono _ e)
    have step := extStep_sem (I := I) ho (snap := snap) hI w hi (x := p.1) (t := p.2) hpb
      (fun γ he => hH γ (Ext.trans hext he) p (List.mem_cons_self ..)) (hdg p (List.mem_cons_self ..))
    have hstep : extStep ord snap cur p = (match snap.dget p.1 with
      | some d =>
        (processDomain (runConstraintsF ord rcFuel) cur p.2 d).bind fun st =>
          match st.dget p.1 with
          | some _ => runConstraintsF ord (rcFuel + 1) (st.dremove p.1)
          | none => .fail
      | none => .ok cur) := rfl
    rw [← hstep] at step
    simp only [List.map_cons, List.nodup_cons] at hn
    cases hs : extStep ord snap cur p with
    | ok s3 =>
      rw [hs] at step
      obtain ⟨w3, i3, e3, m3, d3, sem3⟩ := step
      have ih := extFold_sem ho snap σ' ps s3 hI w3 i3 hn.2
        (fun q hq => hb q (List.mem_cons_of_mem _ hq)) (fun γ he q hq => hH γ he q (List.mem_cons_of_mem _ hq))
        (Ext.trans hext e3) (fun y hy => hmono y (m3 y hy))
        (fun q hq => by
          have hne : q.1 ≠ p.1 := fun e => hn.1 (e ▸ List.mem_map_of_mem (f := (·.1)) hq)
          have hqb : cur.σ q.1 ≠ .var q.1 := fun e => (hb q (List.mem_cons_of_mem _ hq)).1 (hmono _ e)
          rw [d3 q.1 hne hqb]; exact hdg q (List.mem_cons_of_mem _ hq))
      cases hf : ps.foldl (fun (r : Res State) p => r.bind fun cur => extStep ord snap cur p) (.ok s3) with
      | ok s' =>
        rw [hf] at ih
        exact ⟨ih.1, ih.2.1, fun γ => (ih.2.2 γ).trans (sem3 γ)⟩
      | fail =>
        rw [hf] at ih
        exact fun γ hs => ih γ ((sem3 γ).2 hs)
      | fuel => trivial
      | panic s => rw [hf] at ih; exact ⟨ih.1, ih.2.1, fun γ hs => ih.2.2 γ ((sem3 γ).2 hs)⟩
    | fail =>
      rw [hs] at step
      rw [foldl_bind_fail]
      exact step
    | fuel => rw [foldl_bind_fuel]; trivial
    | panic s =>
      rw [hs] at step
      rw [foldl_bind_panic]
      exact step

end Pv

namespace Pv
open State Term FD
variable {I : Nat → Prop} [Mode]

theorem Ref.to0 {S : Subst → Prop} {st : State} {r : Res State} (h : Ref I S st r)
    (hi : ∀ st', r = .ok st' → Inv st') : Ref0 I S st r := by
  cases r with
  | ok st' => exact ⟨h.1, hi st' rfl, h.2.2⟩
  | fail => exact h
  | fuel => trivial
  | panic s => exact h

section Top
variable {ord : Order} (ho : OrderOK ord)
include ho

/-- `==` -/
theorem unify_sem {st : State} (hI : IOK I st) (w : WFS st) (hi : Inv st) (u v : Term) :
    Ref0 I (fun γ => apply γ u = apply γ v) st (unify ord st u v) := by
  unfold unify
  cases hu : unifyF unifyFuel st.σ [] u v with
  | none => trivial
  | some r =>
    cases r with
    | none =>
      intro γ ⟨hs, he⟩
      exact unifyF_fail _ _ _ _ _ w.solved hu ⟨γ, hs.1, he⟩
    | some q =>
      obtain ⟨σ', e⟩ := q
      simp only []
      obtain ⟨s', x', un⟩ := unifyF_sound _ _ _ _ _ _ _ w.solved hu
      have mg := unifyF_mgu _ _ _ _ _ _ _ w.solved hu
      obtain ⟨hbnd, hnod, hpairs⟩ := unifyF_ext_full _ _ _ _ _ _ w.solved hu
      have hmono := unifyF_unbound_aux _ _ _ _ _ _ _ w.solved hu
      have hext : ∀ γ, Ext σ' γ ↔ (Ext st.σ γ ∧ apply γ u = apply γ v) := fun γ =>
        ⟨fun a => ⟨Ext.trans x' a, unifies_of_ext a un⟩, fun a => mg γ a.1 a.2⟩
      generalize hst0 : ({ st with σ := σ' } : State) = st0
      have hσ0 : st0.σ = σ' := by subst hst0; rfl
      have hs0 : st0.store = st.store := by subst hst0; rfl
      have hd0 : st0.dstore = st.dstore := by subst hst0; rfl
      have w0 : WFS st0 := ⟨by rw [hσ0]; exact s', by rw [hd0]; exact w.dnodup, by rw [hd0]; exact w.dwf,
        by rw [hs0]; exact w.nodist⟩
      have i0 : Inv st0 := by subst hst0; exact SameStore.inv ⟨rfl, rfl, rfl, rfl, rfl⟩ hi
      have hI0 : IOK I st0 := hI
      have sem0 : ∀ γ, Sem I γ st0 ↔ (Sem I γ st ∧ apply γ u = apply γ v) := fun γ => by
        unfold Sem DomSem
        rw [hσ0, hs0, hd0, hext γ]
        constructor
        · rintro ⟨⟨a, b⟩, c, d⟩; exact ⟨⟨a, c, d⟩, b⟩
        · rintro ⟨⟨a, c, d⟩, b⟩; exact ⟨⟨a, b⟩, c, d⟩
      unfold processExtension
      have p1 := runConstraintsF_sem ho (rcFuel + 1) I st0 hI0 w0 i0
      cases hr : runConstraintsF ord (rcFuel + 1) st0 with
      | ok s1 =>
        rw [hr] at p1
        obtain ⟨w1, k1, sem1⟩ := p1
        have i1 : Inv s1 := (runConstraintsF_ok ord (rcFuel + 1) _ _ i0 hr).inv
        simp only [Res.bind]
        rw [processExtensionFd_eq]
        have hperm := ho.2.1 e
        have fold := extFold_sem (I := I) ho s1 σ' (ord.ps e) s1 (hI0.keep k1) w1 i1
          ((hperm.map (·.1)).nodup_iff.2 hnod)
          (fun p hp => ⟨(hbnd p (hperm.mem_iff.1 hp)).2, hI p.1⟩)
          (fun γ he p hp => hpairs γ he p (hperm.mem_iff.1 hp))
          (by rw [← hσ0]; exact k1.ext) (fun y hy => by rw [← hσ0]; exact k1.mono y hy) (fun _ _ => rfl)
        cases hf : (ord.ps e).foldl (fun (r : Res State) p => r.bind fun cur => extStep ord s1 cur p) (.ok s1) with
        | ok s2 =>
          rw [hf] at fold
          obtain ⟨w2, i2, sem2⟩ := fold
          refine ⟨w2.same rfl rfl fun p hp => .inl hp, SameStore.inv ⟨rfl, rfl, rfl, rfl, rfl⟩ i2, fun γ => ?_⟩
          have hsm : Sem I γ { s2 with extLog := e :: s2.extLog } ↔ Sem I γ s2 := sem_same rfl rfl rfl γ
          rw [hsm, sem2 γ, sem1 γ, sem0 γ]
          exact ⟨fun a => a.1, fun a => ⟨a, trivial⟩⟩
        | fail =>
          rw [hf] at fold
          intro γ hs
          exact fold γ ((sem1 γ).2 ⟨(sem0 γ).2 hs, trivial⟩)
        | fuel => trivial
        | panic s =>
          rw [hf] at fold
          exact ⟨fold.1, fold.2.1, fun γ hs => fold.2.2 γ ((sem1 γ).2 ⟨(sem0 γ).2 hs, trivial⟩)⟩
      | fail =>
        rw [hr] at p1
        intro γ hs
        exact p1 γ ⟨(sem0 γ).2 hs, trivial⟩
      | fuel => trivial
      | panic s =>
        rw [hr] at p1
        exact ⟨p1.1, p1.2.1, fun γ hs => p1.2.2 γ ⟨(sem0 γ).2 hs, trivial⟩⟩

/-- `!=` -/
theorem disunify_sem {st : State} (w : WFS st) (hi : Inv st) (u v : Term) :
    Ref0 I (fun γ => apply γ u ≠ apply γ v) st (disunify ord st u v) := by
  unfold disunify
  cases hu : unifyF unifyFuel st.σ [] u v with
  | none => trivial
  | some r =>
    cases r with
    | none =>
      exact ⟨w, hi, fun γ => ⟨fun a => ⟨a, fun he => unifyF_fail _ _ _ _ _ w.solved hu ⟨γ, a.1, he⟩⟩, fun a => a.1⟩⟩
    | some q =>
      obtain ⟨σ', e⟩ := q
      simp only []
      obtain ⟨_, x', un⟩ := unifyF_sound _ _ _ _ _ _ _ w.solved hu
      have mg := unifyF_mgu _ _ _ _ _ _ _ w.solved hu
      obtain ⟨δ, he, hiff, _, _⟩ := unifyF_ext _ _ _ _ _ _ _ w.solved hu
      simp only [List.append_nil] at he
      subst he
      -- the disequality of the extension is the disequality of the terms
      have key : ∀ γ, Ext st.σ γ → (DiseqHolds γ e ↔ apply γ u ≠ apply γ v) := fun γ hx => by
        rw [diseqHolds_iff]
        constructor
        · intro hne heq
          exact hne ((hiff γ hx).1 (mg γ hx heq))
        · intro hne hall
          exact hne (unifies_of_ext ((hiff γ hx).2 hall) un)
      split
      · rename_i hemp
        have : e = [] := by simpa using hemp
        subst this
        intro γ ⟨hs, hne⟩
        exact not_diseqHolds_nil γ ((key γ hs.1).2 hne)
      · have r := (withNew_diseq_sem (I := I) ho w hi e).congr fun γ hs => key γ hs.1
        exact r.to0 fun st' h => by cases h; exact (withNew_step (i := none) ord st _ hi).inv

/-- posting a constraint for the first time -/
theorem postCst_sem {st : State} (hI : IOK I st) (w : WFS st) (hi : Inv st) (c : Cst) (hnd : CstOK c) :
    Ref0 I (fun γ => CstSem γ c) st (postCst ord st c) := by
  unfold postCst
  generalize hst0 : ({ st with nextId := st.nextId + 1 } : State) = st0
  have hσ0 : st0.σ = st.σ := by subst hst0; rfl
  have hs0 : st0.store = st.store := by subst hst0; rfl
  have hd0 : st0.dstore = st.dstore := by subst hst0; rfl
  have fr : Fr st.nextId st0 := by subst hst0; exact fresh_fr hi
  have w0 : WFS st0 := w.same hσ0 hd0 fun p hp => .inl (by rw [← hs0]; exact hp)
  have hrc := runConstraintsF_ok ord rcFuel
  have hrs := runConstraintsF_sem ho rcFuel
  have body := runCstBody_sem hrc hrs ho (runCst_selfSem hrc hrs ho 3) (hI.same hσ0) w0 fr hnd
  have hrun : runCst (runConstraintsF ord rcFuel) ord 4 st.nextId c st0 =
      runCstBody (runConstraintsF ord rcFuel) ord (runCst (runConstraintsF ord rcFuel) ord 3) st.nextId c st0 := rfl
  rw [hrun]
  cases hb : runCstBody (runConstraintsF ord rcFuel) ord (runCst (runConstraintsF ord rcFuel) ord 3) st.nextId c st0 with
  | ok s1 =>
    rw [hb] at body
    have i1 : Inv s1 := (runCst_selfOK hrc ord 4 _ _ _ _ fr (by rw [hrun]; exact hb)).inv
    exact ⟨body.1, i1, fun γ => by rw [body.2.2 γ, sem_same hσ0 hs0 hd0]⟩
  | fail =>
    rw [hb] at body
    intro γ ⟨a, b⟩
    exact body γ ⟨(sem_same hσ0 hs0 hd0 γ).2 a, b⟩
  | fuel => trivial
  | panic s =>
    rw [hb] at body
    exact ⟨body.1, body.2.1, fun γ ⟨a, b⟩ => body.2.2 γ ⟨(sem_same hσ0 hs0 hd0 γ).2 a, b⟩⟩

/-- `DomFd` (`infd` on one term) with a well-formed domain -/
theorem domFd_sem {st : State} (hI : IOK I st) (w : WFS st) (hi : Inv st) (x : Term) (d : FD) (hd : WF d) :
    Ref0 I (InDom x d) st (domFd ord st x d) := by
  unfold domFd
  exact (processDomain_sem (runConstraintsF_sem ho rcFuel) hI w hi (WFI.of_wf hd) (.inl hd)).to0
    fun st' h => (processDomain_step (runConstraintsF_ok ord rcFuel) hi h).inv

end Top

theorem wfs_empty (n : Nat) : WFS (State.empty n) :=
  ⟨solved_id, by simp [State.empty], by simp [State.empty], by simp [State.empty]⟩

theorem sem_empty (n : Nat) (γ : Subst) : Sem I γ (State.empty n) :=
  ⟨ext_id γ, by simp [State.empty], by simp [DomSem, State.empty]⟩

end Pv
