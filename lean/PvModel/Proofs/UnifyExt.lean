/-
  More about the extension a unification reports: every reported variable was unbound before and is bound
  after, and no variable is reported twice.
-/
import PvModel.Proofs.Unify
namespace Pv
open Term

theorem bindS_self {σ : Subst} {x : Nat} {t : Term} (hx : σ x = .var x) : bindS x t σ x = t := by
  simp [bindS, hx, apply, sub1]

theorem unifyF_ext2_aux : ∀ (n : Nat) (σ σ' : Subst) (e e' : Ext1) (u v : Term), Solved σ →
    unifyF n σ e u v = some (some (σ', e')) →
    ∃ δ : Ext1, e' = δ ++ e ∧ (∀ p ∈ δ, σ p.1 = .var p.1 ∧ σ' p.1 ≠ .var p.1) ∧ (δ.map (·.1)).Nodup := by
  intro n
  induction n with
  | zero => intro σ σ' e e' u v _ h; simp [unifyF] at h
  | succ n ih =>
    intro σ σ' e e' u v hs h
    have st := unifyF_step hs h
    have triv : ∃ δ : Ext1, e = δ ++ e ∧ (∀ p ∈ δ, σ p.1 = .var p.1 ∧ σ p.1 ≠ .var p.1) ∧ (δ.map (·.1)).Nodup :=
      ⟨[], rfl, by simp, by simp⟩
    cases st with
    | same x hu hv => exact triv
    | valEq a hu hv => exact triv
    | nilnil hu hv => exact triv
    | bindL x hu hv ho =>
      have hx := walk_normal hs u x hu
      refine ⟨[(x, apply σ v)], rfl, ?_, by simp⟩
      intro p hp
      simp only [List.mem_singleton] at hp
      subst hp
      refine ⟨hx, ?_⟩
      show bindS x (apply σ v) σ x ≠ .var x
      rw [bindS_self hx]
      intro e; rw [e] at ho; simp [occurs] at ho
    | bindR y hv hu ho =>
      have hy := walk_normal hs v y hv
      refine ⟨[(y, apply σ u)], rfl, ?_, by simp⟩
      intro p hp
      simp only [List.mem_singleton] at hp
      subst hp
      refine ⟨hy, ?_⟩
      show bindS y (apply σ u) σ y ≠ .var y
      rw [bindS_self hy]
      intro e; rw [e] at ho; simp [occurs] at ho
    | consOk h1 t1 h2 t2 σ1 e1 _ hu hv hh ht =>
      obtain ⟨a1, _, _⟩ := unifyF_sound_aux _ _ _ _ _ _ _ hs hh
      obtain ⟨δ1, he1, hb1, hn1⟩ := ih _ _ _ _ _ _ hs hh
      obtain ⟨δ2, he2, hb2, hn2⟩ := ih _ _ _ _ _ _ a1 ht
      refine ⟨δ2 ++ δ1, by rw [he2, he1, List.append_assoc], ?_, ?_⟩
      · intro p hp
        rcases List.mem_append.mp hp with hp | hp
        · exact ⟨unifyF_unbound_aux _ _ _ _ _ _ _ hs hh _ (hb2 p hp).1, (hb2 p hp).2⟩
        · exact ⟨(hb1 p hp).1, fun e => (hb1 p hp).2 (unifyF_unbound_aux _ _ _ _ _ _ _ a1 ht _ e)⟩
      · rw [List.map_append, List.nodup_append]
        refine ⟨hn2, hn1, ?_⟩
        intro a ha b hb e
        obtain ⟨p, hp, rfl⟩ := List.mem_map.1 ha
        obtain ⟨q, hq, rfl⟩ := List.mem_map.1 hb
        exact (hb1 q hq).2 (e ▸ (hb2 p hp).1)
    | comp g a1 a2 _ hu hv ha => exact ih _ _ _ _ _ _ hs ha

/-- the extension of a successful unification from the empty extension: exactly the bindings made, each
    variable unbound before and bound after, no variable twice, and the pairs hold under every extension of
    the result -/
theorem unifyF_ext_full (n : Nat) (σ σ' : Subst) (e : Ext1) (u v : Term) (hs : Solved σ)
    (h : unifyF n σ [] u v = some (some (σ', e))) :
    (∀ p ∈ e, σ p.1 = .var p.1 ∧ σ' p.1 ≠ .var p.1) ∧ (e.map (·.1)).Nodup ∧
    (∀ γ, Ext σ' γ → ∀ p ∈ e, apply γ (.var p.1) = apply γ p.2) := by
  obtain ⟨δ, he, hb, hn⟩ := unifyF_ext2_aux n σ σ' [] e u v hs h
  simp only [List.append_nil] at he
  rw [he]
  refine ⟨hb, hn, fun γ hx p hp => ?_⟩
  obtain ⟨δ', he', hiff, _, _⟩ := unifyF_ext n σ σ' [] e u v hs h
  simp only [List.append_nil] at he'
  obtain ⟨_, x', _⟩ := unifyF_sound n σ σ' [] e u v hs h
  exact (hiff γ (Ext.trans x' hx)).1 hx p (by rw [← he', he]; exact hp)

end Pv
