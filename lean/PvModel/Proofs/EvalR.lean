/-
  The reference semantics `evalRef` (answer LISTS in Prolog order, with multiplicities) as a relation without
  fuel: `EvalR g a xs` — some amount of fuel makes `evalRef` return `xs`.  Composition rules, so that the
  answer list of a goal can be derived clause by clause.
-/
import PvModel.Spec.Stream
import PvModel.Proofs.StreamAux
namespace Pv
open Strm Goal

section
variable {St K : Type} {defs : K → St → St × Goal St K}

theorem flatMapM_mono {α β : Type} {f f' : α → Option (List β)} : ∀ {xs : List α} {ys : List β},
    (∀ x ∈ xs, ∀ y, f x = some y → f' x = some y) → flatMapM f xs = some ys → flatMapM f' xs = some ys
  | [], _, _, h => h
  | x :: xs, ys, hm, h => by
    simp only [flatMapM] at h ⊢
    cases h1 : f x with
    | none => rw [h1] at h; cases h
    | some y =>
      cases h2 : flatMapM f xs with
      | none => rw [h1, h2] at h; cases h
      | some zs =>
        rw [h1, h2] at h
        rw [hm x List.mem_cons_self y h1, flatMapM_mono (fun x hx => hm x (List.mem_cons_of_mem _ hx)) h2]
        exact h

theorem evalRef_mono1 : ∀ (n : Nat) (g : Goal St K) (a : St) (xs : List St), evalRef defs n g a = some xs →
    evalRef defs (n + 1) g a = some xs
  | 0, _, _, _, h => by simp [evalRef] at h
  | n + 1, g, a, xs, h => by
    cases g with
    | succeed => exact h
    | fail => exact h
    | atom f => exact h
    | dyn fs fg => simp only [evalRef] at h ⊢; exact evalRef_mono1 n _ _ _ h
    | conj g1 g2 =>
      simp only [evalRef] at h ⊢
      cases h1 : evalRef defs n g1 a with
      | none => rw [h1] at h; cases h
      | some ys =>
        rw [h1] at h
        rw [evalRef_mono1 n g1 a ys h1]
        exact flatMapM_mono (fun x _ y hy => evalRef_mono1 n g2 x y hy) h
    | conjD g1 g2 =>
      simp only [evalRef] at h ⊢
      cases h1 : evalRef defs n g1 a with
      | none => rw [h1] at h; cases h
      | some ys =>
        rw [h1] at h
        rw [evalRef_mono1 n g1 a ys h1]
        exact flatMapM_mono (fun x _ y hy => evalRef_mono1 n g2 x y hy) h
    | disj g1 g2 =>
      simp only [evalRef] at h ⊢
      cases h1 : evalRef defs n g1 a with
      | none => rw [h1] at h; cases h
      | some ys =>
        cases h2 : evalRef defs n g2 a with
        | none => rw [h1, h2] at h; cases h
        | some zs => rw [h1, h2] at h; rw [evalRef_mono1 n g1 a ys h1, evalRef_mono1 n g2 a zs h2]; exact h
    | disjD g1 g2 =>
      simp only [evalRef] at h ⊢
      cases h1 : evalRef defs n g1 a with
      | none => rw [h1] at h; cases h
      | some ys =>
        cases h2 : evalRef defs n g2 a with
        | none => rw [h1, h2] at h; cases h
        | some zs => rw [h1, h2] at h; rw [evalRef_mono1 n g1 a ys h1, evalRef_mono1 n g2 a zs h2]; exact h
    | alt g1 g2 =>
      simp only [evalRef] at h ⊢
      cases h1 : evalRef defs n g1 a with
      | none => rw [h1] at h; cases h
      | some ys =>
        cases h2 : evalRef defs n g2 a with
        | none => rw [h1, h2] at h; cases h
        | some zs => rw [h1, h2] at h; rw [evalRef_mono1 n g1 a ys h1, evalRef_mono1 n g2 a zs h2]; exact h
    | altD g1 g2 =>
      simp only [evalRef] at h ⊢
      cases h1 : evalRef defs n g1 a with
      | none => rw [h1] at h; cases h
      | some ys =>
        cases h2 : evalRef defs n g2 a with
        | none => rw [h1, h2] at h; cases h
        | some zs => rw [h1, h2] at h; rw [evalRef_mono1 n g1 a ys h1, evalRef_mono1 n g2 a zs h2]; exact h
    | fresh g => simp only [evalRef] at h ⊢; exact evalRef_mono1 n _ _ _ h
    | call k => simp only [evalRef] at h ⊢; exact evalRef_mono1 n _ _ _ h
    | conda _ _ _ => simp [evalRef] at h
    | condu _ _ _ => simp [evalRef] at h
    | anyo _ => simp [evalRef] at h

theorem evalRef_mono {n m : Nat} {g : Goal St K} {a : St} {xs : List St} (h : evalRef defs n g a = some xs)
    (hm : n ≤ m) : evalRef defs m g a = some xs := by
  induction hm with
  | refl => exact h
  | step _ ih => exact evalRef_mono1 _ _ _ _ ih

variable (defs)

/-- the answer list of `g` from `a`, in Prolog order with multiplicities -/
def EvalR (g : Goal St K) (a : St) (xs : List St) : Prop := ∃ n, evalRef defs n g a = some xs

/-- the answer lists of the elements, concatenated -/
inductive FlatR (R : St → List St → Prop) : List St → List St → Prop
  | nil : FlatR R [] []
  | cons {x xs ys zs} : R x ys → FlatR R xs zs → FlatR R (x :: xs) (ys ++ zs)

variable {defs}

theorem flatR_fuel {g : Goal St K} {xs zs : List St} (h : FlatR (EvalR defs g) xs zs) :
    ∃ n, flatMapM (evalRef defs n g) xs = some zs := by
  induction h with
  | nil => exact ⟨0, rfl⟩
  | @cons x xs ys zs hx _ ih =>
    obtain ⟨n1, h1⟩ := hx
    obtain ⟨n2, h2⟩ := ih
    refine ⟨max n1 n2, ?_⟩
    simp only [flatMapM]
    rw [evalRef_mono h1 (Nat.le_max_left _ _),
      flatMapM_mono (fun x _ y hy => evalRef_mono hy (Nat.le_max_right n1 n2)) h2]

theorem evalR_succeed (a : St) : EvalR defs (.succeed : Goal St K) a [a] := ⟨1, rfl⟩
theorem evalR_fail (a : St) : EvalR defs (.fail : Goal St K) a [] := ⟨1, rfl⟩
theorem evalR_atom (f : St → Option St) (a : St) : EvalR defs (.atom f : Goal St K) a (f a).toList := ⟨1, rfl⟩

theorem evalR_conj {g1 g2 : Goal St K} {a : St} {xs zs : List St} (h1 : EvalR defs g1 a xs)
    (h2 : FlatR (EvalR defs g2) xs zs) : EvalR defs (.conj g1 g2) a zs := by
  obtain ⟨n1, e1⟩ := h1
  obtain ⟨n2, e2⟩ := flatR_fuel h2
  refine ⟨max n1 n2 + 1, ?_⟩
  simp only [evalRef]
  rw [evalRef_mono e1 (Nat.le_max_left _ _)]
  exact flatMapM_mono (fun x _ y hy => evalRef_mono hy (Nat.le_max_right n1 n2)) e2

theorem evalR_conjD {g1 g2 : Goal St K} {a : St} {xs zs : List St} (h1 : EvalR defs g1 a xs)
    (h2 : FlatR (EvalR defs g2) xs zs) : EvalR defs (.conjD g1 g2) a zs := by
  obtain ⟨n1, e1⟩ := h1
  obtain ⟨n2, e2⟩ := flatR_fuel h2
  refine ⟨max n1 n2 + 1, ?_⟩
  simp only [evalRef]
  rw [evalRef_mono e1 (Nat.le_max_left _ _)]
  exact flatMapM_mono (fun x _ y hy => evalRef_mono hy (Nat.le_max_right n1 n2)) e2

theorem evalR_alt {g1 g2 : Goal St K} {a : St} {xs ys : List St} (h1 : EvalR defs g1 a xs) (h2 : EvalR defs g2 a ys) :
    EvalR defs (.alt g1 g2) a (xs ++ ys) := by
  obtain ⟨n1, e1⟩ := h1
  obtain ⟨n2, e2⟩ := h2
  refine ⟨max n1 n2 + 1, ?_⟩
  simp only [evalRef]
  rw [evalRef_mono e1 (Nat.le_max_left _ _), evalRef_mono e2 (Nat.le_max_right _ _)]

theorem evalR_altD {g1 g2 : Goal St K} {a : St} {xs ys : List St} (h1 : EvalR defs g1 a xs) (h2 : EvalR defs g2 a ys) :
    EvalR defs (.altD g1 g2) a (xs ++ ys) := by
  obtain ⟨n1, e1⟩ := h1
  obtain ⟨n2, e2⟩ := h2
  refine ⟨max n1 n2 + 1, ?_⟩
  simp only [evalRef]
  rw [evalRef_mono e1 (Nat.le_max_left _ _), evalRef_mono e2 (Nat.le_max_right _ _)]

theorem evalR_fresh {g : Goal St K} {a : St} {xs : List St} (h : EvalR defs g a xs) : EvalR defs (.fresh g) a xs := by
  obtain ⟨n, e⟩ := h
  exact ⟨n + 1, by simp only [evalRef]; exact e⟩

theorem evalR_call {k : K} {a : St} {xs : List St} (h : EvalR defs (defs k a).2 (defs k a).1 xs) :
    EvalR defs (.call k) a xs := by
  obtain ⟨n, e⟩ := h
  exact ⟨n + 1, by simp only [evalRef]; exact e⟩

theorem flatR_succeed : ∀ (xs : List St), FlatR (EvalR defs (.succeed : Goal St K)) xs xs
  | [] => .nil
  | x :: xs => by
    have := FlatR.cons (R := EvalR defs (.succeed : Goal St K)) (evalR_succeed x) (flatR_succeed xs)
    simpa using this

theorem flatR_nil_of_fail : ∀ (xs : List St), FlatR (EvalR defs (.fail : Goal St K)) xs []
  | [] => .nil
  | x :: xs => by
    have := FlatR.cons (R := EvalR defs (.fail : Goal St K)) (evalR_fail x) (flatR_nil_of_fail xs)
    simpa using this

theorem evalR_mkConj {g1 g2 : Goal St K} {a : St} {xs zs : List St} (h1 : EvalR defs g1 a xs)
    (h2 : FlatR (EvalR defs g2) xs zs) : EvalR defs (mkConj g1 g2) a zs := by
  unfold mkConj
  split
  · rename_i h
    simp only [Bool.and_eq_true, isSucceed_iff] at h
    obtain ⟨rfl, rfl⟩ := h
    obtain ⟨n, e⟩ := h1
    cases n with
    | zero => simp [evalRef] at e
    | succ n =>
      simp only [evalRef, Option.some.injEq] at e
      subst e
      cases h2 with
      | cons hx hr =>
        cases hr
        obtain ⟨m, em⟩ := hx
        cases m with
        | zero => simp [evalRef] at em
        | succ m =>
          simp only [evalRef, Option.some.injEq] at em
          subst em
          exact evalR_succeed a
  · split
    · rename_i h
      simp only [Bool.or_eq_true, isFail_iff] at h
      rcases h with rfl | rfl
      · obtain ⟨n, e⟩ := h1
        cases n with
        | zero => simp [evalRef] at e
        | succ n =>
          simp only [evalRef, Option.some.injEq] at e
          subst e
          cases h2
          exact evalR_fail a
      · have : zs = [] := by
          clear h1
          induction h2 with
          | nil => rfl
          | @cons x xs ys zs hx _ ih =>
            obtain ⟨m, em⟩ := hx
            cases m with
            | zero => simp [evalRef] at em
            | succ m =>
              simp only [evalRef, Option.some.injEq] at em
              subst em
              simpa using ih
        subst this
        exact evalR_fail a
    · exact evalR_conj h1 h2

theorem evalR_mkConjD {g1 g2 : Goal St K} {a : St} {xs zs : List St} (h1 : EvalR defs g1 a xs)
    (h2 : FlatR (EvalR defs g2) xs zs) : EvalR defs (mkConjD g1 g2) a zs := by
  unfold mkConjD
  split
  · rename_i h
    simp only [Bool.and_eq_true, isSucceed_iff] at h
    obtain ⟨rfl, rfl⟩ := h
    obtain ⟨n, e⟩ := h1
    cases n with
    | zero => simp [evalRef] at e
    | succ n =>
      simp only [evalRef, Option.some.injEq] at e
      subst e
      cases h2 with
      | cons hx hr =>
        cases hr
        obtain ⟨m, em⟩ := hx
        cases m with
        | zero => simp [evalRef] at em
        | succ m =>
          simp only [evalRef, Option.some.injEq] at em
          subst em
          exact evalR_succeed a
  · split
    · rename_i h
      simp only [Bool.or_eq_true, isFail_iff] at h
      rcases h with rfl | rfl
      · obtain ⟨n, e⟩ := h1
        cases n with
        | zero => simp [evalRef] at e
        | succ n =>
          simp only [evalRef, Option.some.injEq] at e
          subst e
          cases h2
          exact evalR_fail a
      · have : zs = [] := by
          clear h1
          induction h2 with
          | nil => rfl
          | @cons x xs ys zs hx _ ih =>
            obtain ⟨m, em⟩ := hx
            cases m with
            | zero => simp [evalRef] at em
            | succ m =>
              simp only [evalRef, Option.some.injEq] at em
              subst em
              simpa using ih
        subst this
        exact evalR_fail a
    · exact evalR_conjD h1 h2

variable (defs)

/-- the goals of a clause one after the other: answer list -/
def ChainR : List (Goal St K) → St → List St → Prop
  | [], a, zs => zs = [a]
  | g :: gs, a, zs => ∃ xs, EvalR defs g a xs ∧ FlatR (ChainR gs) xs zs

/-- the clauses one after the other: answer lists concatenated -/
def ClausesR : List (List (Goal St K)) → St → List St → Prop
  | [], _, zs => zs = []
  | c :: cs, a, zs => ∃ z1 z2, ChainR defs c a z1 ∧ ClausesR cs a z2 ∧ zs = z1 ++ z2

variable {defs}

theorem flatR_imp {R R' : St → List St → Prop} (h : ∀ x ys, R x ys → R' x ys) : ∀ {xs zs : List St},
    FlatR R xs zs → FlatR R' xs zs
  | _, _, .nil => .nil
  | _, _, .cons hx hr => .cons (h _ _ hx) (flatR_imp h hr)

theorem evalR_conjOfList : ∀ (gs : List (Goal St K)) (a : St) (zs : List St), ChainR defs gs a zs →
    EvalR defs (conjOfList gs) a zs
  | [], a, zs, h => by simp only [ChainR] at h; subst h; exact evalR_succeed a
  | g :: gs, a, zs, ⟨xs, h1, h2⟩ =>
    evalR_mkConj h1 (flatR_imp (fun x ys hx => evalR_conjOfList gs x ys hx) h2)

theorem evalR_conjDOfList : ∀ (gs : List (Goal St K)) (a : St) (zs : List St), ChainR defs gs a zs →
    EvalR defs (conjDOfList gs) a zs
  | [], a, zs, h => by simp only [ChainR] at h; subst h; exact evalR_succeed a
  | g :: gs, a, zs, ⟨xs, h1, h2⟩ =>
    evalR_mkConjD h1 (flatR_imp (fun x ys hx => evalR_conjDOfList gs x ys hx) h2)

theorem evalR_condeOfClauses : ∀ (cs : List (List (Goal St K))) (a : St) (zs : List St), ClausesR defs cs a zs →
    EvalR defs (condeOfClauses cs) a zs
  | [], a, zs, h => by simp only [ClausesR] at h; subst h; exact evalR_fail a
  | c :: cs, a, zs, ⟨z1, z2, h1, h2, e⟩ => by
    subst e
    exact evalR_alt (evalR_conjOfList c a z1 h1) (evalR_condeOfClauses cs a z2 h2)

theorem evalR_condeDOfClauses : ∀ (cs : List (List (Goal St K))) (a : St) (zs : List St), ClausesR defs cs a zs →
    EvalR defs (condeDOfClauses cs) a zs
  | [], a, zs, h => by simp only [ClausesR] at h; subst h; exact evalR_fail a
  | c :: cs, a, zs, ⟨z1, z2, h1, h2, e⟩ => by
    subst e
    exact evalR_altD (evalR_conjDOfList c a z1 h1) (evalR_condeDOfClauses cs a z2 h2)

end
end Pv
