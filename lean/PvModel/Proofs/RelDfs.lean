/-
  The depth-first twin of Proofs/RelFair.lean: for goals of the DEPTH-FIRST fragment (atoms, dfs conjunction, `cond`,
  fresh, calls of library relations made inside `dfs { }`) the engine delivers EXACTLY the answer list of the reference
  semantics, in that order, and stops.

  C05_prolog asks that every relation body is depth-first (`DfsDefs`); the model's relation table also holds the
  interleaving variants.  `defsD` is the table with every call forced to the depth-first variant; on goals without
  interleaving nodes and without interleaving calls the two engines are the same function.
-/
import PvModel.Proofs.RelFair
import PvModel.Proofs.RelCount
import PvModel.Props.C05
namespace Pv
open Strm Goal State Term

section
variable (ord : Order)

/-- the relation table with every call taken as a depth-first call -/
def defsD : Call → State → State × G := fun c st => defs ord { c with dfs := true } st

variable {ord}

theorem defsD_eq {c : Call} (h : c.dfs = true) : defsD ord c = defs ord c := by
  obtain ⟨r, as, d⟩ := c
  simp only at h
  subst h
  rfl

/-- goals of the depth-first fragment whose calls are depth-first calls -/
inductive OnlyD : G → Prop
  | succeed : OnlyD .succeed
  | fail : OnlyD .fail
  | atom (f) : OnlyD (.atom f)
  | conjD {g1 g2} : OnlyD g1 → OnlyD g2 → OnlyD (.conjD g1 g2)
  | altD {g1 g2} : OnlyD g1 → OnlyD g2 → OnlyD (.altD g1 g2)
  | fresh {g} : OnlyD g → OnlyD (.fresh g)
  | call {c} : c.dfs = true → OnlyD (.call c)

theorem onlyD_dfs {D : Call → State → State × G} {g : G} (h : OnlyD g) : DfsG D g := by
  induction h with
  | succeed => exact .succeed
  | fail => exact .fail
  | atom f => exact .atom f
  | conjD _ _ i1 i2 => exact .conjD i1 i2
  | altD _ _ i1 i2 => exact .altD i1 i2
  | fresh _ i => exact .fresh i
  | call _ => exact .call

theorem onlyD_mkConjD {g1 g2 : G} (h1 : OnlyD g1) (h2 : OnlyD g2) : OnlyD (mkConjD g1 g2) := by
  unfold mkConjD
  split
  · exact .succeed
  · split
    · exact .fail
    · exact .conjD h1 h2

theorem onlyD_conjDOfList : ∀ (gs : List G), (∀ g ∈ gs, OnlyD g) → OnlyD (conjDOfList gs)
  | [], _ => .succeed
  | g :: gs, h => onlyD_mkConjD (h g List.mem_cons_self) (onlyD_conjDOfList gs fun x hx => h x (List.mem_cons_of_mem _ hx))

theorem onlyD_altDOfList : ∀ (gs : List G), (∀ g ∈ gs, OnlyD g) → OnlyD (altDOfList gs)
  | [], _ => .fail
  | g :: gs, h => .altD (h g List.mem_cons_self) (onlyD_altDOfList gs fun x hx => h x (List.mem_cons_of_mem _ hx))

theorem onlyD_condeDOfClauses (cs : List (List G)) (h : ∀ c ∈ cs, ∀ g ∈ c, OnlyD g) : OnlyD (condeDOfClauses cs) :=
  onlyD_altDOfList _ fun g hg => by
    obtain ⟨c, hc, rfl⟩ := List.mem_map.1 hg
    exact onlyD_conjDOfList c (h c hc)

end
end Pv

namespace Pv
open Strm Goal State Term

macro "onlyd_tac" : tactic => `(tactic|
  repeat (first
    | exact OnlyD.atom _
    | exact OnlyD.call rfl
    | exact OnlyD.succeed
    | apply OnlyD.fresh
    | (apply onlyD_conjDOfList; intro g hg; simp only [List.mem_cons, List.not_mem_nil, or_false] at hg;
       rcases hg with rfl | rfl | rfl | rfl | rfl <;> try subst g)
    | (apply onlyD_condeDOfClauses; intro c hc; simp only [List.mem_cons, List.not_mem_nil, or_false] at hc;
       rcases hc with rfl | rfl | rfl | rfl <;> try subst c)
    | (intro g hg; simp only [List.mem_cons, List.not_mem_nil, or_false] at hg;
       rcases hg with rfl | rfl | rfl | rfl | rfl <;> try subst g)
    | split))

section
variable {ord : Order}

theorem relBody_onlyD (r : Rel) (as : List Term) (n : Nat) : OnlyD (relBody ord ⟨r, as, true⟩ n).2 := by
  unfold relBody
  simp only [if_true]
  split
  all_goals first
    | exact OnlyD.atom _
    | (simp only; onlyd_tac)

theorem dfsDefs_D : DfsDefs (defsD ord) := fun c a => onlyD_dfs (relBody_onlyD c.rel c.args a.nextVar)

/-! ### streams of the fragment -/

mutual
inductive ODS : Strm State Call → Prop
  | empty : ODS .empty
  | unit (a) : ODS (.unit a)
  | cons {a l} : ODL l → ODS (.cons a l)
  | lazy {l} : ODL l → ODS (.lazy l)
inductive ODL : Lz State Call → Prop
  | mplusD {l1 l2} : ODL l1 → ODL l2 → ODL (.mplusD l1 l2)
  | bindD {l g} : ODL l → OnlyD g → ODL (.bindD l g)
  | pause {a g} : OnlyD g → ODL (.pause a g)
  | delay {s} : ODS s → ODL (.delay s)
end

theorem mplusD_od {s : Strm State Call} {l : Lz State Call} (hs : ODS s) (hl : ODL l) : ODS (mplusD s l) := by
  cases hs with
  | empty => exact .lazy hl
  | unit a => exact .cons hl
  | cons h => exact .cons (.mplusD h hl)
  | lazy h => exact .lazy (.mplusD h hl)

theorem bindD_od {s : Strm State Call} {g : G} (hs : ODS s) (hg : OnlyD g) : ODS (Strm.bindD s g) := by
  unfold Strm.bindD
  split
  · exact hs
  · split
    · exact .empty
    · cases hs with
      | empty => exact .empty
      | unit a => exact .lazy (.pause hg)
      | cons h => exact .lazy (.mplusD (.pause hg) (.bindD h hg))
      | lazy h => exact .lazy (.bindD h hg)

theorem lazyBindD_od {l : Lz State Call} {g : G} (hl : ODL l) (hg : OnlyD g) : ODS (lazyBindD l g) := by
  unfold lazyBindD
  split
  · exact .lazy hl
  · split
    · exact .empty
    · exact .lazy (.bindD hl hg)

section Two
variable {top top' : G → State → Strm State Call}
  (heq : ∀ g a, OnlyD g → top g a = top' g a) (hod : ∀ g a, OnlyD g → ODS (top g a))
include heq hod

omit heq in
theorem step_od : ∀ (l : Lz State Call), ODL l → ODS (step top l)
  | .mplusD l1 l2, h => by cases h with | mplusD h1 h2 => exact mplusD_od (step_od l1 h1) h2
  | .bindD l g, h => by cases h with | bindD h1 hg => exact bindD_od (step_od l h1) hg
  | .pause a g, h => by cases h with | pause hg => exact hod g a hg
  | .delay s, h => by cases h with | delay hs => exact hs
  | .mplus _ _, h => by cases h
  | .bind _ _, h => by cases h

omit hod in
theorem step_eqD : ∀ (l : Lz State Call), ODL l → step top l = step top' l
  | .mplusD l1 l2, h => by cases h with | mplusD h1 h2 => simp only [step, step_eqD l1 h1]
  | .bindD l g, h => by cases h with | bindD h1 hg => simp only [step, step_eqD l h1]
  | .pause a g, h => by cases h with | pause hg => exact heq g a hg
  | .delay s, _ => rfl
  | .mplus _ _, h => by cases h
  | .bind _ _, h => by cases h

theorem drainF_eqD : ∀ (n : Nat) (s : Strm State Call), ODS s → drainF top n s = drainF top' n s
  | 0, _, _ => rfl
  | n + 1, .empty, _ => rfl
  | n + 1, .unit a, _ => rfl
  | n + 1, .cons a l, h => by
    cases h with
    | cons hl => simp only [drainF, drainF_eqD n (.lazy l) (.lazy hl)]
  | n + 1, .lazy l, h => by
    cases h with
    | lazy hl =>
      simp only [drainF]
      rw [← step_eqD heq l hl]
      exact drainF_eqD n _ (step_od hod l hl)

end Two

theorem start_od {D : Call → State → State × G} {top0 : G → State → Strm State Call} (pf : Nat)
    (hD : ∀ c a, c.dfs = true → OnlyD (D c a).2) (h0 : ∀ g a, OnlyD g → ODS (top0 g a)) {g : G} (hg : OnlyD g) :
    ∀ a, ODS (start D top0 pf g a) := by
  induction hg with
  | succeed => intro a; simp only [start]; exact .unit a
  | fail => intro a; simp only [start]; exact .empty
  | atom f => intro a; simp only [start]; split <;> constructor
  | conjD h1 h2 _ _ => intro a; simp only [start]; exact lazyBindD_od (.pause h1) h2
  | altD _ _ i1 i2 => intro a; simp only [start]; exact mplusD_od (i1 a) (.delay (i2 a))
  | fresh h _ => intro a; simp only [start]; exact .lazy (.pause h)
  | call hc => intro a; simp only [start]; exact h0 _ _ (hD _ a hc)

theorem defs_onlyD (c : Call) (a : State) (h : c.dfs = true) : OnlyD (defs ord c a).2 := by
  obtain ⟨r, as, d⟩ := c
  simp only at h
  subst h
  exact relBody_onlyD r as a.nextVar

theorem solveAt_od (pf : Nat) : ∀ (n : Nat) (g : G) (a : State), OnlyD g → ODS (solveAt (defs ord) pf n g a)
  | 0, _, _, hg => .lazy (.pause hg)
  | n + 1, _, a, hg => start_od pf defs_onlyD (fun g a hg => solveAt_od pf n g a hg) hg a

theorem start_eqD {top0 top0' : G → State → Strm State Call} (pf : Nat)
    (h0 : ∀ g a, OnlyD g → top0 g a = top0' g a) {g : G} (hg : OnlyD g) :
    ∀ a, start (defs ord) top0 pf g a = start (defsD ord) top0' pf g a := by
  induction hg with
  | succeed => intro a; simp only [start]
  | fail => intro a; simp only [start]
  | atom f => intro a; simp only [start]
  | conjD _ _ _ _ => intro a; simp only [start]
  | altD _ _ i1 i2 => intro a; simp only [start, i1 a, i2 a]
  | fresh _ _ => intro a; simp only [start]
  | @call c hc =>
    intro a
    simp only [start, defsD_eq hc]
    exact h0 _ _ (defs_onlyD c a hc)

theorem solveAt_eqD (pf : Nat) : ∀ (n : Nat) (g : G) (a : State), OnlyD g →
    solveAt (defs ord) pf n g a = solveAt (defsD ord) pf n g a
  | 0, _, _, _ => rfl
  | n + 1, _, a, hg => start_eqD pf (fun g a hg => solveAt_eqD pf n g a hg) hg a

theorem evalRef_eqD : ∀ (n : Nat) (g : G) (a : State), OnlyD g → evalRef (defs ord) n g a = evalRef (defsD ord) n g a
  | 0, _, _, _ => rfl
  | n + 1, _, a, hg => by
    cases hg with
    | succeed => rfl
    | fail => rfl
    | atom f => rfl
    | conjD h1 h2 =>
      simp only [evalRef]
      rw [evalRef_eqD n _ a h1]
      have : evalRef (defs ord) n _ = evalRef (defsD ord) n _ := funext fun x => evalRef_eqD n _ x h2
      rw [this]
    | altD h1 h2 => simp only [evalRef]; rw [evalRef_eqD n _ a h1, evalRef_eqD n _ a h2]
    | fresh h1 => simp only [evalRef]; exact evalRef_eqD n _ a h1
    | @call c hc =>
      simp only [evalRef, defsD_eq hc]
      exact evalRef_eqD n _ _ (defs_onlyD c a hc)

/-- PROLOG ORDER on the depth-first fragment of the model's own relation table: whenever the reference semantics
    terminates with the list `xs`, the engine delivers exactly `xs`, in that order, and stops -/
theorem dfs_exact (pf M n : Nat) {g : G} (hg : OnlyD g) (a : State) (xs : List State)
    (h : evalRef (defs ord) n g a = some xs) :
    ∃ k, drainF (solveAt (defs ord) pf (M + 1)) k (solveAt (defs ord) pf (M + 1) g a) = some xs := by
  rw [evalRef_eqD n g a hg] at h
  obtain ⟨k, hk, _⟩ := C05_prolog (defsD ord) pf M n g a xs dfsDefs_D (onlyD_dfs hg) h
  refine ⟨k, ?_⟩
  rw [drainF_eqD (top' := solveAt (defsD ord) pf (M + 1)) (fun g a hg => solveAt_eqD pf (M + 1) g a hg)
    (fun g a hg => solveAt_od pf (M + 1) g a hg) k _ (solveAt_od pf (M + 1) g a hg), solveAt_eqD pf (M + 1) g a hg]
  exact hk

end
end Pv
